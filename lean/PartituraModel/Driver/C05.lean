import PartituraModel.Wire
import PartituraModel.Model.NoteArray
import PartituraModel.Model.NoteArrayMaps
import PartituraModel.Model.NoteArrayBack
import PartituraModel.Model.NoteArrayTs
import PartituraModel.Model.NoteArrayF64
import PartituraModel.Model.NoteArrayTsF
import PartituraModel.Model.NoteArrayTie

open Wire NoteArray

def parseKind : P Kind := do
  let t ← tok
  match t with
  | "note" => pure .note
  | "grace" => pure .grace
  | "rest" => pure .rest
  | "unp" => pure .unpitched
  | _ => P.fail

def parseNote : P Note := do
  let id ← str
  let kind ← parseKind
  let onset ← int
  let dur ← int
  let step ← str
  let alter ← opt int
  let octave ← int
  let voice ← opt int
  let staff ← opt int
  let gt ← str
  let tn ← opt nat
  let tp ← opt nat
  pure { id, kind, onset, dur, step, alter, octave, voice, staff, graceType := gt, tieNext := tn, tiePrev := tp }

def parseMode : P Model.Mode := do
  let t ← str
  match Model.modeOfString t with
  | some m => pure m
  | none => P.fail

/-- `<npoints> <first> <last>  n (t q)*  n (t beats beat_type musical_beats)*  m1: -|(s e)  musical
     n (t fifths mode)*  n (s e)*` -/
def parseDesc : P Desc := do
  let n ← nat
  let first ← int
  let last ← int
  let qd ← list (do let t ← int; let q ← nat; pure (t, q))
  let ts ← list (do let t ← int; let b ← nat; let bt ← nat; let mb ← nat
                    pure ({ t := t, beats := b, beatType := bt, mb := mb } : Model.TimeMap.TSig))
  let m1 ← opt (do let s ← int; let e ← int; pure (s, e))
  let musical ← bool
  let kss ← list (do let t ← int; let f ← int; let m ← parseMode; pure (t, f, m))
  let ms ← list (do let s ← int; let e ← int; pure (s, e))
  pure { tm := { npoints := n, first := first, last := last, qd := qd, ts := ts, m1 := m1, musical := musical },
         kss := kss, ms := ms }

/-- a part: its notes and its description -/
def parsePart : P (Desc × List Note) := do
  let notes ← list parseNote
  let d ← parseDesc
  pure (d, notes)

def parseOpts : P Opts := do
  let spelling ← bool; let ks ← bool; let ts ← bool; let metr ← bool
  let grace ← bool; let staff ← bool; let divs ← bool
  pure { spelling, ks, ts, metr, grace, staff, divs }

def encS (s : String) : String := if s = "" then "%" else s

def fmtCell : Cell → String
  | .i v => fmtInt v
  | .q v => fmtRat v
  | .s v => encS v

def isQ : Cell → Bool
  | .q _ => true
  | _ => false

/-- the exact part of a row: every integer / string cell, `/`-separated -/
def blob (o : Opts) (wd : Bool) (r : Row) : String :=
  "r:" ++ "/".intercalate (((cells o wd r).filter (fun c => !isQ c)).map fmtCell)

def fmtRow (o : Opts) (wd : Bool) (r : Row) : String :=
  "[" ++ ",".intercalate ((((cells o wd r).filter isQ).map fmtCell) ++ [blob o wd r]) ++ "]"

/-- rows equal in (onset, pitch) come in an unspecified order: order them by their text -/
def canon (o : Opts) (wd : Bool) (rows : List Row) : List Row :=
  sortRows (isort (fun a b => decide (blob o wd a ≤ blob o wd b)) rows)

def fmtTable (o : Opts) (wd : Bool) (rows : List Row) : String :=
  "[h:" ++ "/".intercalate (header o wd) ++ "," ++ ",".intercalate ((canon o wd rows).map (fmtRow o wd)) ++ "]"

/-- nested part lists: `P part` or `G n tree*` -/
partial def parseTree : P Tree := do
  let t ← tok
  match t with
  | "P" =>
    let p ← parsePart
    pure (.part p.1 p.2)
  | "G" =>
    let n ← nat
    let ts ← rep parseTree n
    pure (.group ts)
  | _ => P.fail

def fmtRes (o : Opts) : Res → String
  | .table wd t => fmtTable o wd t
  | .same _ => "same"
  | .refused => "refused"
  | .raised => "err"

/-- the entry points that yield a note array -/
def noteEntry (entry : String) (u : Bool) (o : Opts) (items : List Tree) : Option Res :=
  match entry with
  | "score" => some (scoreNoteArray u o items)
  | "ensure_score" => some (ensureNoteArray u o (.score items))
  | "list" => some (.ofOption true (partListRows u o items))
  | "ensure_list" => some (ensureNoteArray u o (.list items))
  | "group" => some (groupNoteArray u o items)
  | "ensure_group" => some (ensureNoteArray u o (.group items))
  | _ => none

def restEntry (entry : String) (u : Bool) (o : Opts) (c : Bool) (items : List Tree) : Option Res :=
  match entry with
  | "func" => some (.ofOption false (restListRows u o c items))
  | "ensure_list" => some (ensureRestArray u o c (.list items))
  | "group" => some (groupRestArray u o c items)
  | "ensure_group" => some (ensureRestArray u o c (.group items))
  | "ensure_score" => some (ensureRestArray u o c (.score items))
  | _ => none

/-- the same entry points with the float cells as stored (binary64 evaluation, binary32 store): round 6 -/
def noteEntryF (entry : String) (u : Bool) (o : Opts) (items : List Tree) : Option Res :=
  match entry with
  | "score" => some (ensureNoteArrayF u o (.score items))
  | "ensure_score" => some (ensureNoteArrayF u o (.score items))
  | "list" => some (.ofOption true (partListRowsW rowsF u o items))
  | "ensure_list" => some (ensureNoteArrayF u o (.list items))
  | "group" => some (ensureNoteArrayF u o (.group items))
  | "ensure_group" => some (ensureNoteArrayF u o (.group items))
  | _ => none

def restEntryF (entry : String) (u : Bool) (o : Opts) (c : Bool) (items : List Tree) : Option Res :=
  match entry with
  | "func" => some (.ofOption false (restListRowsW restRowsFC u o c items))
  | "ensure_list" => some (ensureRestArrayF u o c (.list items))
  | "group" => some (ensureRestArrayF u o c (.group items))
  | "ensure_group" => some (ensureRestArrayF u o c (.group items))
  | "ensure_score" => some (ensureRestArrayF u o c (.score items))
  | _ => none

def fmtTriple (x : Int × Int × Int) : String := fmtTuple [fmtInt x.1, fmtInt x.2.1, fmtInt x.2.2]

def leTriple (a b : Int × Int × Int) : Bool :=
  decide (a.1 < b.1) || (decide (a.1 = b.1) && (decide (a.2.1 < b.2.1) || (decide (a.2.1 = b.2.1) && decide (a.2.2 ≤ b.2.2))))

def parseARow : P ARow := do
  let ob ← rat; let db ← rat; let od ← int; let dd ← int
  let p ← int; let bt ← int
  pure { onsetBeat := ob, durBeat := db, onsetDiv := od, durDiv := dd, pitch := p, tsBeatType := bt }

/-- a row of an array with signature columns: `ob db od dd pitch ts_beats ts_beat_type ks_fifths ks_mode` -/
def parseXRow : P ARow := do
  let ob ← rat; let db ← rat; let od ← int; let dd ← int
  let p ← int; let tb ← int; let bt ← int; let kf ← int; let km ← int
  pure { onsetBeat := ob, durBeat := db, onsetDiv := od, durDiv := dd, pitch := p, tsBeatType := bt,
         tsBeats := tb, ksFifths := kf, ksMode := km }

def fmtDots (l : List Int) : String := ".".intercalate (l.map fmtInt)

/-- the exact part of a row of the table that comes back: `r:onset/duration/pitch/ts_beats/ts_beat_type/ks_fifths/ks_mode` -/
def fmtXRow (r : Row) : String :=
  "[" ++ ",".intercalate [fmtRat r.onsetQuarter, fmtRat r.onsetBeat, fmtRat r.durQuarter, fmtRat r.durBeat,
    "r:" ++ "/".intercalate ([r.onsetDiv, r.durDiv, r.pitch, r.tsBeats, r.tsBeatType, r.ksFifths, r.ksMode].map fmtInt)] ++ "]"

def leRowTriple (a b : Row) : Bool := leTriple (a.onsetDiv, a.durDiv, a.pitch) (b.onsetDiv, b.durDiv, b.pitch)

def fmtXOut (x : XOut) : String :=
  "[d:" ++ fmtNat x.divs ++
  ",m:" ++ ";".intercalate ((isort (fun (a b : Int × Int) => decide (a.1 < b.1) || (decide (a.1 = b.1) && decide (a.2 ≤ b.2))) x.measures).map
      fun m => fmtInt m.1 ++ "-" ++ fmtInt m.2) ++
  ",t:" ++ ";".intercalate (x.tss.map fun t => fmtDots [t.1, t.2.1, t.2.2]) ++
  ",k:" ++ ";".intercalate (x.kss.map fun k => fmtDots [k.1, k.2.1, Model.keyModeToInt k.2.2]) ++
  ",n:" ++ ";".intercalate ((isort (fun (a b : Nat × Nat) => decide (a.1 < b.1) || (decide (a.1 = b.1) && decide (a.2 ≤ b.2))) x.pieces).map
      fun m => fmtNat m.1 ++ "-" ++ fmtNat m.2) ++
  "," ++ fmtList fmtXRow (isort leRowTriple x.rows) ++ "]"

def handle (ts : List String) : String :=
  match ts with
  | "part" :: entry :: rest =>
    match run (do let o ← parseOpts; let p ← parsePart; pure (o, p)) rest with
    | none => "bad-request"
    | some (o, p) =>
      match entry with
      | "method" => fmtRes o (partNoteArray o p.1 p.2)
      | "func" => fmtRes o (.ofOption o.divs (rowsC p.1 p.2 o))
      | "ensure" => fmtRes o (ensureNoteArray false o (.part p.1 p.2))
      | _ => "bad-request"
  | "tied" :: rest =>
    -- GenericNote.duration_tied / end_tied.t of every timed object (chains with gaps: sum vs span)
    match run parsePart rest with
    | none => "bad-request"
    | some p => fmtList (fun x => fmtTuple [encS x.1, fmtOpt fmtInt x.2.1, fmtOpt fmtInt x.2.2]) (tiedTable p.2)
  | "partf" :: rest =>
    -- the float columns as numpy stores them, bit for bit (binary64 evaluation of the maps, binary32 store)
    match run (do let o ← parseOpts; let p ← parsePart; pure (o, p)) rest with
    | none => "bad-request"
    | some (o, p) => fmtRes o (.ofOption o.divs (rowsF p.1 p.2 o))
  | "restsf" :: rest =>
    match run (do let o ← parseOpts; let p ← parsePart; pure (o, p)) rest with
    | none => "bad-request"
    | some (o, p) => fmtRes o (.ofOption false (restRowsF p.1 p.2 { o with divs := false }))
  | "restsfc" :: rest =>
    -- collapse=True on the stored array: float32 sums of the stored durations
    match run (do let c ← bool; let o ← parseOpts; let p ← parsePart; pure (c, o, p)) rest with
    | none => "bad-request"
    | some (c, o, p) => fmtRes o (ensureRestArrayF false o c (.part p.1 p.2))
  | "scoref" :: entry :: rest =>
    match run (do
        let u ← bool; let o ← parseOpts
        let n ← nat; let items ← rep parseTree n
        pure (u, o, items)) rest with
    | none => "bad-request"
    | some (u, o, items) =>
      match noteEntryF entry u o items with
      | none => "bad-request"
      | some r => fmtRes o r
  | "restlistf" :: entry :: rest =>
    match run (do
        let u ← bool; let c ← bool; let o ← parseOpts
        let n ← nat; let items ← rep parseTree n
        pure (u, c, o, items)) rest with
    | none => "bad-request"
    | some (u, c, o, items) =>
      match restEntryF entry u o c items with
      | none => "bad-request"
      | some r => fmtRes o r
  | "f64" :: rest =>
    match run rat rest with
    | none => "bad-request"
    | some r => fmtRat (f64round r)
  | "score" :: entry :: rest =>
    match run (do
        let u ← bool; let o ← parseOpts
        let n ← nat; let items ← rep parseTree n
        pure (u, o, items)) rest with
    | none => "bad-request"
    | some (u, o, items) =>
      match noteEntry entry u o items with
      | none => "bad-request"
      | some r => fmtRes o r
  | "rests" :: entry :: rest =>
    match run (do let c ← bool; let o ← parseOpts; let p ← parsePart; pure (c, o, p)) rest with
    | none => "bad-request"
    | some (c, o, p) =>
      match entry with
      | "method" => fmtRes o (partRestArray o c p.1 p.2)
      | "func" => fmtRes o (.ofOption false (restRowsC p.1 p.2 { o with divs := false } c))
      | "ensure" => fmtRes o (ensureRestArray false o c (.part p.1 p.2))
      | _ => "bad-request"
  | "restlist" :: entry :: rest =>
    match run (do
        let u ← bool; let c ← bool; let o ← parseOpts
        let n ← nat; let items ← rep parseTree n
        pure (u, c, o, items)) rest with
    | none => "bad-request"
    | some (u, c, o, items) =>
      match restEntry entry u o c items with
      | none => "bad-request"
      | some r => fmtRes o r
  | "kind" :: which :: what :: [] =>
    -- arguments that are not scores: a structured array, an array without fields, anything else
    let x : Option Input := match what with
      | "structured" => some (.structured [])
      | "plain" => some .plainArray
      | "other" => some .other
      | _ => none
    let o : Opts := { spelling := false, ks := false, ts := false, metr := false, grace := false, staff := false, divs := false }
    match x, which with
    | some x, "note" => fmtRes o (ensureNoteArray true o x)
    | some x, "rest" => fmtRes o (ensureRestArray true o false x)
    | _, _ => "bad-request"
  | "f32" :: rest =>
    match run rat rest with
    | none => "bad-request"
    | some r => fmtRat (f32round r)
  | "inv" :: rest =>
    match run (do
        let hb ← bool; let hd ← bool; let ht ← bool
        let d ← opt nat; let a ← list parseARow; pure (hb, hd, ht, d, a)) rest with
    | none => "bad-request"
    | some (hb, hd, ht, d, a) =>
      match fromArray hb hd ht a d with
      | .error _ => "err"
      | .ok (dv, l) => fmtNat dv ++ ";" ++ fmtList fmtTriple (isort leTriple l)
  | "invback" :: rest =>
    -- what the note array of the new part gives back: pickup measure, first measure, (quarter, beat) per note
    match run (do
        let hb ← bool; let hd ← bool; let ht ← bool
        let d ← opt nat; let tb ← nat; let tt ← nat; let san ← bool
        let a ← list parseARow; pure (hb, hd, ht, d, tb, tt, san, a)) rest with
    | none => "bad-request"
    | some (hb, hd, ht, d, tb, tt, san, a) =>
      let ts : Option (Nat × Nat) := if tb = 0 then none else some (tb, tt)
      match fromArrayBack hb hd ht a d ts san with
      | .error _ => "err"
      | .ok b =>
        let notes := isort (fun x y => leTriple x.1 y.1) b.notes
        "[a:" ++ fmtInt (if ts.isSome && decide (0 < b.anacrusis) then b.anacrusis else 0) ++
        ",m:" ++ (match b.m1 with | some e => fmtInt e | none => "-") ++ "," ++
        fmtList (fun (x : (Int × Int × Int) × (Rat × Rat)) => fmtList fmtRat [x.2.1, x.2.2]) notes ++ "]"
  | "invx" :: rest =>
    -- arrays with changing signature columns: the created part (divisions, measures, signatures) and its note array
    match run (do
        let hb ← bool; let hd ← bool; let ht ← bool; let hk ← bool
        let d ← opt nat
        let tsl ← list (do let s ← int; let b ← int; let bt ← int; pure (s, b, bt))
        let est ← bool; let san ← bool
        let a ← list parseXRow; pure (hb, hd, ht, hk, d, tsl, est, san, a)) rest with
    | none => "bad-request"
    | some (hb, hd, ht, hk, d, tsl, est, san, a) =>
      match fromArrayX hb hd ht hk a d tsl est san with
      | .error _ => "err"
      | .ok x => fmtXOut x
  | "invxf" :: rest =>
    -- the same with the float cells of the table that comes back as numpy stores them (round 6)
    match run (do
        let hb ← bool; let hd ← bool; let ht ← bool; let hk ← bool
        let d ← opt nat
        let tsl ← list (do let s ← int; let b ← int; let bt ← int; pure (s, b, bt))
        let est ← bool; let san ← bool
        let a ← list parseXRow; pure (hb, hd, ht, hk, d, tsl, est, san, a)) rest with
    | none => "bad-request"
    | some (hb, hd, ht, hk, d, tsl, est, san, a) =>
      match fromArrayXF hb hd ht hk a d tsl est san with
      | .error _ => "err"
      | .ok x => fmtXOut x
  | "dfb" :: rest =>
    match run (list (do let o ← rat; let d ← rat; pure (o, d))) rest with
    | none => "bad-request"
    | some l =>
      let (dv, od) := divsFromBeats l
      fmtNat dv ++ ";" ++ fmtList (fun (x : Int × Int) => fmtTuple [fmtInt x.1, fmtInt x.2]) od
  | "bfd" :: rest =>
    match run (do let d ← nat; let l ← list (do let o ← int; let d ← int; pure (o, d)); pure (d, l)) rest with
    | none => "bad-request"
    | some (d, l) =>
      if d = 0 then "err" else
      fmtList (fun (x : Rat × Rat) => fmtList fmtRat [x.1, x.2]) (beatsFromDivs l d)
  | "limden" :: rest =>
    match run rat rest with
    | none => "bad-request"
    | some r => fmtRat (limitDen r 256)
  | "prefix" :: rest =>
    match run (do let i ← nat; let s ← str; pure (i, s)) rest with
    | none => "bad-request"
    | some (i, s) => prefixId i s
  | _ => "bad-request"

def main : IO Unit := mainLoop handle
