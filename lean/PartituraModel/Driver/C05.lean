import PartituraModel.Wire
import PartituraModel.Model.NoteArray

open Wire NoteArray

/-- look-up tables of the part's own maps at the times the table needs -/
def lookupD {β : Type} (d : β) (l : List (Int × β)) (t : Int) : β :=
  match l.find? (fun e => e.1 = t) with
  | some e => e.2
  | none => d

def parseKind : P Kind := do
  let t ← tok
  match t with
  | "note" => pure .note
  | "grace" => pure .grace
  | "rest" => pure .rest
  | "unp" => pure .unpitched
  | _ => P.fail

def parseNote : P Note := do
  let id ← str
  let kind ← parseKind
  let onset ← int
  let dur ← int
  let step ← str
  let alter ← opt int
  let octave ← int
  let voice ← opt int
  let staff ← opt int
  let gt ← str
  let tn ← opt nat
  let tp ← opt nat
  pure { id, kind, onset, dur, step, alter, octave, voice, staff, graceType := gt, tieNext := tn, tiePrev := tp }

def parsePart : P Part := do
  let qd ← list int
  let notes ← list parseNote
  let tt ← list (do let t ← int; let b ← rat; let q ← rat; let k ← rat; pure (t, (b, q, k)))
  let st ← list (do
    let t ← int
    let kf ← int; let km ← int
    let tb ← int; let tbt ← int; let tmb ← int
    let rel ← int; let tot ← int
    pure (t, ((kf, km), (tb, tbt, tmb), (rel, tot))))
  let sent : Rat := -999983
  let maps : Maps :=
    { beat := fun t => (lookupD (sent, sent, sent) tt t).1
      quarter := fun t => (lookupD (sent, sent, sent) tt t).2.1
      okey := fun t => (lookupD (sent, sent, sent) tt t).2.2
      ks := fun t => (lookupD ((-999983, -999983), (-999983, -999983, -999983), (-999983, -999983)) st t).1
      ts := fun t => (lookupD ((-999983, -999983), (-999983, -999983, -999983), (-999983, -999983)) st t).2.1
      metr := fun t => (lookupD ((-999983, -999983), (-999983, -999983, -999983), (-999983, -999983)) st t).2.2 }
  pure { notes, qdurs := qd, maps }

def parseOpts : P Opts := do
  let spelling ← bool; let ks ← bool; let ts ← bool; let metr ← bool
  let grace ← bool; let staff ← bool; let divs ← bool
  pure { spelling, ks, ts, metr, grace, staff, divs }

def encS (s : String) : String := if s = "" then "%" else s

def fmtCell : Cell → String
  | .i v => fmtInt v
  | .q v => fmtRat v
  | .s v => encS v

def isQ : Cell → Bool
  | .q _ => true
  | _ => false

/-- the exact part of a row: every integer / string cell, `/`-separated -/
def blob (o : Opts) (wd : Bool) (r : Row) : String :=
  "r:" ++ "/".intercalate (((cells o wd r).filter (fun c => !isQ c)).map fmtCell)

def fmtRow (o : Opts) (wd : Bool) (r : Row) : String :=
  "[" ++ ",".intercalate ((((cells o wd r).filter isQ).map fmtCell) ++ [blob o wd r]) ++ "]"

/-- rows equal in (onset, pitch) come in an unspecified order: order them by their text -/
def canon (o : Opts) (wd : Bool) (rows : List Row) : List Row :=
  sortRows (isort (fun a b => decide (blob o wd a ≤ blob o wd b)) rows)

def fmtTable (o : Opts) (wd : Bool) (rows : List Row) : String :=
  "[h:" ++ "/".intercalate (header o wd) ++ "," ++ ",".intercalate ((canon o wd rows).map (fmtRow o wd)) ++ "]"

/-- nested part lists: `P part` or `G n tree*`; evaluates to the table of the subtree -/
partial def parseTree (unique : Bool) (o : Opts) : P (Option (List Row)) := do
  let t ← tok
  match t with
  | "P" =>
    let p ← parsePart
    pure (rows p { o with divs := true })
  | "G" =>
    let n ← nat
    let ts ← rep (parseTree unique o) n
    pure ((mapM' id ts).bind (mergeTables unique))
  | _ => P.fail

def fmtTriple (x : Int × Int × Int) : String := fmtTuple [fmtInt x.1, fmtInt x.2.1, fmtInt x.2.2]

def leTriple (a b : Int × Int × Int) : Bool :=
  decide (a.1 < b.1) || (decide (a.1 = b.1) && (decide (a.2.1 < b.2.1) || (decide (a.2.1 = b.2.1) && decide (a.2.2 ≤ b.2.2))))

def parseARow : P ARow := do
  let ob ← rat; let db ← rat; let od ← int; let dd ← int
  let p ← int; let bt ← int
  pure { onsetBeat := ob, durBeat := db, onsetDiv := od, durDiv := dd, pitch := p, tsBeatType := bt }

def handle (ts : List String) : String :=
  match ts with
  | "part" :: rest =>
    match run (do let o ← parseOpts; let p ← parsePart; pure (o, p)) rest with
    | none => "bad-request"
    | some (o, p) =>
      match rows p o with
      | none => "err"
      | some t => fmtTable o o.divs t
  | "score" :: rest =>
    match run (do let u ← bool; let o ← parseOpts; let t ← parseTree u o; pure (o, t)) rest with
    | none => "bad-request"
    | some (_, none) => "err"
    | some (o, some t) => fmtTable o true t
  | "rests" :: rest =>
    match run (do let c ← bool; let o ← parseOpts; let p ← parsePart; pure (c, o, p)) rest with
    | none => "bad-request"
    | some (c, o, p) =>
      match restRows p c with
      | none => "err"
      | some t => fmtTable o false t
  | "restlist" :: rest =>
    match run (do
        let u ← bool; let c ← bool; let o ← parseOpts
        let ps ← list parsePart
        pure (u, c, o, ps)) rest with
    | none => "bad-request"
    | some (u, c, o, ps) =>
      match mapM' (fun p => restRows p c) ps with
      | none => "err"
      | some tsx => fmtTable o false (mergeRestTables u tsx)
  | "inv" :: rest =>
    match run (do
        let hb ← bool; let hd ← bool; let ht ← bool
        let d ← opt nat; let a ← list parseARow; pure (hb, hd, ht, d, a)) rest with
    | none => "bad-request"
    | some (hb, hd, ht, d, a) =>
      match fromArray hb hd ht a d with
      | .error _ => "err"
      | .ok (dv, l) => fmtNat dv ++ ";" ++ fmtList fmtTriple (isort leTriple l)
  | "dfb" :: rest =>
    match run (list (do let o ← rat; let d ← rat; pure (o, d))) rest with
    | none => "bad-request"
    | some l =>
      let (dv, od) := divsFromBeats l
      fmtNat dv ++ ";" ++ fmtList (fun (x : Int × Int) => fmtTuple [fmtInt x.1, fmtInt x.2]) od
  | "bfd" :: rest =>
    match run (do let d ← nat; let l ← list (do let o ← int; let d ← int; pure (o, d)); pure (d, l)) rest with
    | none => "bad-request"
    | some (d, l) =>
      if d = 0 then "err" else
      fmtList (fun (x : Rat × Rat) => fmtList fmtRat [x.1, x.2]) (beatsFromDivs l d)
  | "limden" :: rest =>
    match run rat rest with
    | none => "bad-request"
    | some r => fmtRat (limitDen r 256)
  | "prefix" :: rest =>
    match run (do let i ← nat; let s ← str; pure (i, s)) rest with
    | none => "bad-request"
    | some (i, s) => prefixId i s
  | _ => "bad-request"

def main : IO Unit := mainLoop handle
