import PartituraModel.Wire
import PartituraModel.Model.Pitch

open Wire Model

def fmtMode : Mode → String
  | .major => "major"
  | .minor => "minor"

def parseMode : P Mode := do
  let t ← str
  match modeOfString t with
  | some m => pure m
  | none => P.fail

def orErr (o : Option String) : String := o.getD "err"

def handle (ts : List String) : String :=
  match ts with
  | "s2m" :: rest =>
    orErr <| (run (do let s ← str; let a ← opt int; let o ← int; pure (s, a, o)) rest).bind fun (s, a, o) =>
      (spellingToMidi s a o).map fmtInt
  | "m2s" :: rest =>
    orErr <| (run int rest).bind fun p =>
      (midiToSpelling p).map fun (s, a, o) => fmtTuple [s, fmtInt a, fmtInt o]
  | "s2n" :: rest =>
    orErr <| (run (do let s ← str; let a ← int; let o ← int; pure (s, a, o)) rest).map fun (s, a, o) =>
      spellingToNoteName s a o
  | "n2s" :: rest =>
    orErr <| (run str rest).bind fun n =>
      (noteNameToSpelling n).map fun (s, a, o) => fmtTuple [s, fmtOpt fmtInt a, fmtInt o]
  | "n2m" :: rest =>
    orErr <| (run str rest).bind fun n => (noteNameToMidi n).map fmtInt
  | "step2pc" :: rest =>
    orErr <| (run (do let s ← str; let a ← int; pure (s, a)) rest).bind fun (s, a) =>
      (step2pc s a).map fmtInt
  | "f2k" :: rest =>
    -- an unknown mode is rejected by the parser: `err`
    orErr <| (run (do let f ← int; let m ← parseMode; pure (f, m)) rest).bind fun (f, m) =>
      fifthsModeToKeyName f m
  | "k2f" :: rest =>
    orErr <| (run str rest).bind fun n =>
      (keyNameToFifthsMode n).map fun (f, m) => fmtTuple [fmtInt f, fmtMode m]
  | "kmi" :: rest =>
    orErr <| (run parseMode rest).map fun m => fmtInt (keyModeToInt m)
  | "kim" :: rest =>
    orErr <| (run parseMode rest).map fun m => fmtMode m
  | "csi" :: rest => orErr <| (run str rest).bind fun s => (clefSignToInt s).map fmtInt
  | "cis" :: rest => orErr <| (run int rest).bind fun i => clefIntToSign i
  | "tqt" :: rest =>
    orErr <| (run (do let u ← str; let t ← rat; pure (u, t)) rest).bind fun (u, t) =>
      (toQuarterTempo u t).map fmtRat
  | "s2num" :: rest =>
    orErr <| (run (do let ty ← str; let d ← nat; let a ← opt nat; let n ← opt nat; let dv ← rat
                      pure (ty, d, a, n, dv)) rest).bind fun (ty, d, a, n, dv) =>
      (symbolicToNumeric (ty, d, a, n) dv).map fmtRat
  | "ivs" :: rest =>
    orErr <| (run (do let q ← str; let n ← nat; pure (q, n)) rest).bind fun (q, n) =>
      (intervalSemitones q n).map fmtInt
  | "ivq" :: rest =>
    orErr <| (run (do let q ← str; let n ← nat; let k ← int; pure (q, n, k)) rest).bind fun (q, n, k) =>
      (changeQuality n q k).bind fun q' => (intervalSemitones q' n).map fun s => fmtTuple [q', fmtInt s]
  | "ivv" :: rest =>
    orErr <| (run (do let q ← str; let n ← nat; let d ← str; pure (q, n, d)) rest).map fun (q, n, d) =>
      fmtBool (intervalValid q n d)
  | "tupm" :: rest =>
    orErr <| (run (do let a ← nat; let n ← nat; let ta ← str; let tn ← str; pure (a, n, ta, tn)) rest).bind
      fun (a, n, ta, tn) => if a = 0 then none else (tupletMultiplier a n ta tn).map fmtRat
  | "sec2tick" :: rest =>
    orErr <| (run (do let t ← rat; let m ← nat; let p ← nat; pure (t, m, p)) rest).bind fun (t, m, p) =>
      if m = 0 then none else some (fmtInt (secToTick t m p))
  | "tick2sec" :: rest =>
    orErr <| (run (do let k ← int; let m ← nat; let p ← nat; pure (k, m, p)) rest).bind fun (k, m, p) =>
      if p = 0 then none else some (fmtRat (tickToSec k m p))
  | "mpq" :: rest =>
    orErr <| (run (do let u ← opt str; let b ← rat; pure (u, b)) rest).bind fun (u, b) =>
      (microsecondsPerQuarter u b).map fmtInt
  | _ => "bad-request"

def main : IO Unit := mainLoop handle
