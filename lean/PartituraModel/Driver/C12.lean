import PartituraModel.Wire
import PartituraModel.Model.Pitch
import PartituraModel.Model.Conversions
import PartituraModel.Model.ConversionsArr
import PartituraModel.Model.ConversionsNum

open Wire Model Gen.C12 Gen.C12L

/-- typed token: `-` = None, `s:<percent-encoded>` = str, `i:<int>` = int, `n:<rat>` = any other number -/
def tagged : P (String × String) := do
  let t ← tok
  match t.toList with
  | a :: ':' :: rest => pure (String.ofList [a], String.ofList rest)
  | _ => P.fail

def pylit : P PyLit := fun ts => match ts with
  | "-" :: ts => some (PyLit.none, ts)
  | _ => (do
      let (k, v) ← tagged
      match k with
      | "s" => pure (PyLit.str (decodeStr v))
      | "i" => match v.toInt? with
        | some i => pure (PyLit.num (i : Rat))
        | none => P.fail
      | "n" => match parseRat v with
        | some r => pure (PyLit.num r)
        | none => P.fail
      | _ => P.fail) ts

def alterArg : P AlterArg := fun ts => match ts with
  | "-" :: ts => some (AlterArg.none, ts)
  | _ => (do
      let (k, v) ← tagged
      match k with
      | "s" => pure (AlterArg.sign (decodeStr v))
      | "i" => match v.toInt? with
        | some i => pure (AlterArg.int i)
        | none => P.fail
      | "n" => match parseRat v with
        | some r => pure (AlterArg.num r)
        | none => P.fail
      | _ => P.fail) ts

def octArg : P OctArg := fun ts => match ts with
  | "-" :: ts => some (OctArg.none, ts)
  | _ => (do
      let (k, v) ← tagged
      match k with
      | "s" => pure (OctArg.str (decodeStr v))
      | "i" => match v.toInt? with
        | some i => pure (OctArg.int i)
        | none => P.fail
      | "n" => match parseRat v with
        | some r => pure (OctArg.num r)
        | none => P.fail
      | _ => P.fail) ts

/-- a keyword that may be left out: `D` = use the default of the signature -/
def orDefault {α : Type} (p : P α) : P (Option α) := fun ts => match ts with
  | "D" :: ts => some (none, ts)
  | _ => match p ts with
    | some (a, ts') => some (some a, ts')
    | none => none

def orErr (o : Option String) : String := o.getD "err"

def fmtSpelling (r : String × Option Int × Option Int) : String :=
  fmtTuple [r.1, fmtOpt fmtInt r.2.1, fmtOpt fmtInt r.2.2]

def handle (ts : List String) : String :=
  match ts with
  | "s2m" :: rest =>
    orErr <| (run (do let s ← str; let a ← opt int; let o ← int; pure (s, a, o)) rest).bind fun (s, a, o) =>
      (spellingToMidiG s a o).map fmtInt
  | "m2s" :: rest =>
    orErr <| (run int rest).bind fun p => (midiToSpellingG p).map fmtSpelling
  | "s2n" :: rest =>
    orErr <| (run (do let s ← str; let a ← int; let o ← int; pure (s, a, o)) rest).map fun (s, a, o) =>
      spellingToNoteNameG s a o
  | "n2s" :: rest =>
    orErr <| (run str rest).bind fun n => (noteNameToSpellingG n).map fmtSpelling
  | "n2m" :: rest =>
    orErr <| (run str rest).bind fun n => (noteNameToMidiG n).map fmtInt
  | "epsf" :: rest =>
    orErr <| (run (do let s ← str; let a ← alterArg; let o ← octArg; pure (s, a, o)) rest).bind fun (s, a, o) =>
      (ensureFormat s a o).map fmtSpelling
  | "step2pc" :: rest =>
    orErr <| (run (do let s ← str; let a ← int; pure (s, a)) rest).bind fun (s, a) =>
      (step2pc s a).map fmtInt
  | "asign" :: rest =>
    orErr <| (run (opt int) rest).bind fun a => (alterSign a).map fun s => "s:" ++ s
  | "f2k" :: rest =>
    orErr <| (run (do let f ← int; let m ← orDefault pylit; pure (f, m)) rest).bind fun (f, m) =>
      fifthsModeToKeyNameG f (m.getD f2kDefaultMode)
  | "f2kn" :: kind :: rest =>
    -- the number of fifths in any number type: `i` = a type with __index__, `r` = any other real type
    orErr <| (run (do let q ← rat; let m ← orDefault pylit; pure (q, m)) rest).bind fun (q, m) =>
      let n : Option PyNum := if kind == "r" then some (PyNum.real q)
        else if kind == "i" && q.den == 1 then some (PyNum.int q.num) else none
      n.bind fun n => fifthsModeToKeyNameN n (m.getD f2kDefaultMode)
  | "k2f" :: rest =>
    orErr <| (run str rest).bind fun n =>
      (keyNameToFifthsModeK n).map fun (f, m) => fmtTuple [fmtInt f, modeName m]
  | "kmi" :: rest =>
    orErr <| (run pylit rest).bind fun m => (keyModeToIntG m).map fmtInt
  | "kim" :: rest =>
    orErr <| (run pylit rest).bind fun m => keyIntToModeG m
  | "csi" :: rest => orErr <| (run str rest).bind fun s => (clefSignToInt s).map fmtInt
  | "cis" :: rest => orErr <| (run int rest).bind fun i => clefIntToSign i
  | "tqt" :: rest =>
    orErr <| (run (do let u ← str; let t ← rat; pure (u, t)) rest).bind fun (u, t) =>
      (toQuarterTempoG u t).map fmtRat
  | "s2num" :: rest =>
    orErr <| (run (do let ty ← opt str; let d ← opt nat; let a ← opt nat; let n ← opt nat; let dv ← rat
                      pure (ty, d, a, n, dv)) rest).bind fun (ty, d, a, n, dv) =>
      (symbolicToNumericG ty d a n dv).map fmtRat
  | "fsd" :: "N" :: [] => "s:" ++ formatSymbolicG none
  | "fsd" :: rest =>
    orErr <| (run (do let ty ← opt str; let d ← opt nat; let a ← opt nat; let n ← opt nat
                      pure (ty, d, a, n)) rest).map fun x => "s:" ++ formatSymbolicG (some x)
  | "ivs" :: rest =>
    orErr <| (run (do let q ← str; let n ← nat; pure (q, n)) rest).bind fun (q, n) =>
      (intervalSemitones q n).map fmtInt
  | "ivq" :: rest =>
    orErr <| (run (do let q ← str; let n ← nat; let k ← int; pure (q, n, k)) rest).bind fun (q, n, k) =>
      (changeQualityG n q k).bind fun q' => (intervalSemitones q' n).map fun s => fmtTuple [q', fmtInt s]
  | "ivv" :: rest =>
    orErr <| (run (do let q ← str; let n ← nat; let d ← orDefault str; pure (q, n, d)) rest).map fun (q, n, d) =>
      fmtBool (intervalValidD q n d)
  | "tupm" :: rest =>
    orErr <| (run (do let a ← nat; let n ← nat; let ta ← opt str; let tn ← opt str; pure (a, n, ta, tn)) rest).bind
      fun (a, n, ta, tn) => (tupletMultiplierO a n ta tn).map fmtRat
  | "sec2tick" :: rest =>
    orErr <| (run (do let t ← rat; let m ← orDefault nat; let p ← orDefault nat; pure (t, m, p)) rest).bind
      fun (t, m, p) => (secToTickG t m p).map fmtInt
  | "tick2sec" :: rest =>
    orErr <| (run (do let k ← rat; let m ← orDefault nat; let p ← orDefault nat; pure (k, m, p)) rest).bind
      fun (k, m, p) => (tickToSecG k m p).map fmtRat
  | "sec2tickA" :: rest =>
    orErr <| (run (do let m ← orDefault nat; let p ← orDefault nat; let ts ← list rat; pure (ts, m, p)) rest).bind
      fun (ts, m, p) => (secToTickArr ts m p).map (fmtList fmtInt)
  | "tick2secA" :: rest =>
    orErr <| (run (do let m ← orDefault nat; let p ← orDefault nat; let ks ← list rat; pure (ks, m, p)) rest).bind
      fun (ks, m, p) => (tickToSecArr ks m p).map (fmtList fmtRat)
  | "m2f" :: rest =>
    orErr <| (run (do let p ← rat; let a ← orDefault rat; pure (p, a)) rest).bind fun (p, a) =>
      (midiToFreqQ p a).map fmtRat
  | "mpq" :: rest =>
    orErr <| (run (do let u ← opt str; let b ← rat; pure (u, b)) rest).bind fun (u, b) =>
      (microsecondsPerQuarterG u b).map fmtInt
  | _ => "bad-request"

def main : IO Unit := mainLoop handle
