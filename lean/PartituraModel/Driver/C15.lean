import PartituraModel.Wire
import PartituraModel.Model.Merge

open Wire Model.Merge

/-
requests:   <op> <mode> <shape>
  op     merge | quarters | rows | ref | dangling | tails | load (= load_score_as_part: merge with mode voice; the mode token is ignored)
  mode   voice | staff | auto | anything else (rejected like the ValueError of the code)
  shape  one <tree> | many <n> <tree>*            (a part / group, a list or tuple of parts and groups)
         | score <one .. | many ..> <nops> <op>*   (the object Score(shape) after a history of edits of its parts)
  op     setitem <i> P.. | assign <n> (P..)* | append P.. | pop <i> | reverse
  tree   P <pid> <nqd> <qd>* <nelems> <elem>* <ntails> <elem>*  |  G <n> <tree>*
         (tails: the objects that only have an end; their <start> is 0 and not used)
  elem   <oid> <className> <start> <end|-> <voice|-> <staff|-> <pitch|-> <tiePrev 0|1> <nchain> <oid>* <nrefs> <oid>*
A part with other than exactly one quarter duration reaches the model with divs = 0 (rejected unless it
is the single part that is returned as is).
-/

def parseMode (t : String) : Option Mode :=
  match t with
  | "voice" => some .voice
  | "staff" => some .staff
  | "auto" => some .auto
  | _ => none

def pElem : P Elem := do
  let oid ← nat
  let cn ← str
  let st ← nat
  let en ← opt nat
  let v ← opt nat
  let sf ← opt nat
  let pi ← opt int
  let tp ← bool
  let ch ← list nat
  let rf ← list nat
  if Gen.classNames.contains cn then
    pure { oid := oid, cls := classId cn, start := st, stop := en, voice := v, staff := sf,
           pitch := pi, tiePrev := tp, chain := ch, refs := rf }
  else P.fail

def pPartBody : P APart := do
  let pid ← nat
  let qds ← list nat
  let es ← list pElem
  let tl ← list pElem
  pure { pid := pid, divs := divsOf qds, elems := es, tails := tl }

def pPart : P APart := do
  let t ← tok
  if t == "P" then pPartBody else P.fail

partial def pTree : P Tree := do
  let t ← tok
  match t with
  | "P" =>
    let p ← pPartBody
    pure (.part p)
  | "G" =>
    let cs ← list pTree
    pure (.group cs)
  | _ => P.fail

def pShape : P Shape := do
  let t ← tok
  match t with
  | "one" => do let x ← pTree; pure (.one x)
  | "many" => do let xs ← list pTree; pure (.many xs)
  | _ => P.fail

def pOp : P ScoreOp := do
  let t ← tok
  match t with
  | "setitem" => do let i ← nat; let p ← pPart; pure (.setItem i p)
  | "assign" => do let ps ← list pPart; pure (.assign ps)
  | "append" => do let p ← pPart; pure (.append p)
  | "pop" => do let i ← nat; pure (.pop i)
  | "reverse" => pure .reverse
  | _ => P.fail

def pArg : P Arg := do
  let t ← tok
  match t with
  | "one" => do let x ← pTree; pure (.plain (.one x))
  | "many" => do let xs ← list pTree; pure (.plain (.many xs))
  | "score" => do let s ← pShape; let ops ← list pOp; pure (.score s ops)
  | _ => P.fail

def fmtElem (e : Elem) : String :=
  fmtTuple [fmtNat e.oid, Gen.classNames.getD e.cls "?", fmtNat e.start, fmtOpt fmtNat e.stop,
            fmtOpt fmtNat e.voice, fmtOpt fmtNat e.staff, fmtList fmtNat e.refs]

/-- an object without start: identity, class, end, voice, staff, references -/
def fmtTail (e : Elem) : String :=
  fmtTuple [fmtNat e.oid, Gen.classNames.getD e.cls "?", fmtOpt fmtNat e.stop,
            fmtOpt fmtNat e.voice, fmtOpt fmtNat e.staff, fmtList fmtNat e.refs]

def rowLe (a b : Row) : Bool :=
  a.onset < b.onset || (a.onset == b.onset &&
    (a.pitch.getD 0 < b.pitch.getD 0 || (a.pitch.getD 0 == b.pitch.getD 0 && a.oid ≤ b.oid)))

def fmtRow (r : Row) : String :=
  fmtTuple [fmtNat r.oid, fmtNat r.onset, fmtOpt fmtInt r.dur, fmtOpt fmtInt r.pitch,
            fmtOpt fmtNat r.voice, fmtNat r.staff]

def soundLe (a b : Nat × Option Int × Option Int) : Bool :=
  a.1 < b.1 || (a.1 == b.1 &&
    (a.2.2.getD 0 < b.2.2.getD 0 || (a.2.2.getD 0 == b.2.2.getD 0 && a.2.1.getD 0 ≤ b.2.1.getD 0)))

def fmtSound (r : Nat × Option Int × Option Int) : String :=
  fmtTuple [fmtNat r.1, fmtOpt fmtInt r.2.1, fmtOpt fmtInt r.2.2]

def resultElems : Result → List Elem
  | .same p => p.elems
  | .merged _ es => es

/-- `tails`: the end-only objects of the merged part (their ends are time points of it) -/
def fmtResult (tails : List Elem) : Option Result → String
  | none => "err"
  | some (.same p) => "same " ++ fmtNat p.pid
  | some (.merged L es) => fmtTuple [fmtNat L, fmtList fmtElem es, fmtList fmtNat (pointsWith es tails)]

def handle (ts : List String) : String :=
  match ts with
  | op :: mode :: rest =>
    match run pArg rest with
    | none => "bad-request"
    | some a =>
      match argParts a with
      | none => "bad-history"
      | some parts =>
      match op with
      | "ref" => fmtList fmtSound ((refSound parts).mergeSort soundLe)
      | "parts" => fmtList (fun p => fmtNat p.pid) parts
      | "tails" =>
        match parseMode mode with
        | none => "err"
        | some m =>
          match mergeArg m a with
          | some (.merged _ _) =>
            fmtList fmtTail ((mergedTails m parts).mergeSort fun a b => a.oid ≤ b.oid)
          | some (.same _) => "same"
          | none => "err"
      | "load" =>
        match a with
        | .plain sh => fmtResult (mergedTails .voice parts) (loadScoreAsPart sh)
        | _ => "bad-request"
      | _ =>
        match parseMode mode with
        | none => "err"
        | some m =>
          match mergeArg m a with
          | none => "err"
          | some r =>
            match op with
            | "merge" => fmtResult (mergedTails m parts) (some r)
            | "quarters" =>
              match r with
              | .same _ => "same"
              | .merged L es => fmtList (fun _ => fmtNat L) (pointsWith es (mergedTails m parts))
            | "rows" => fmtList fmtRow ((rows (resultElems r)).mergeSort rowLe)
            | "dangling" =>
              match r with
              | .same _ => "same"
              | .merged _ es =>
                fmtList (fun x => fmtTuple [fmtNat x.1, fmtNat x.2])
                  ((dangling (es ++ mergedTails m parts)).mergeSort fun a b =>
                    a.1 < b.1 || (a.1 == b.1 && a.2 ≤ b.2))
            | _ => "bad-request"
  | _ => "bad-request"

def main : IO Unit := mainLoop handle
