import PartituraModel.Wire
import PartituraModel.Model.MergeFloat

open Wire Model.Merge

/-
requests:   <op> <reassign> <shape>
  op     merge | quarters | rows | ref | scoreref | newid | dangling | tails | parts | distinct
         | mult <L> <d>  (no further tokens: `int(lcm / d)` as the live source computes it)
         | load (= load_score_as_part; the reassign token is ignored: the model takes what the source passes)
  reassign   the (percent-encoded) value of `reassign`: voice | staff | auto | anything else (rejected like the
         ValueError of the code) | `-` (the argument is left out: the default of the signature)
  shape  one <tree> | many <n> <tree>*            (a part / group / other object, a list or tuple of them)
         | score <one .. | many ..> <nops> <op>*   (the object Score(shape) after a history of edits of its parts)
  op     setitem <i> P.. | assign <n> (P..)* | append P.. | pop <i> | reverse
  tree   P <pid> <name|-> <nqd> <qd>* <nelems> <elem>* <ntails> <elem>*  |  G <n> <tree>*
         | X  (an object that is neither a Part nor has `.children`: None, a nested list, a Score inside a list ...)
         (tails: the objects that only have an end; their <start> is 0 and not used)
  elem   <oid> <className> <start> <end|-> <voice|-> <staff|-> <pitch|-> <tiePrev 0|1> <nchain> <oid>* <nrefs> <oid>* <extra>
A part with other than exactly one quarter duration reaches the model with divs = 0 (rejected unless it
is the single part that is returned as is).  Every answer goes through `mergeCall` (Model/MergeCall.lean): the
validation of `reassign`, the flattening of the argument, the de-duplication of the parts by identity, the checks in
the order of the code; any exception is answered `err`.
-/

def parseMode (t : String) : Option Mode :=
  match t with
  | "voice" => some .voice
  | "staff" => some .staff
  | "auto" => some .auto
  | _ => none

def pElem : P Elem := do
  let oid ← nat
  let cn ← str
  let st ← nat
  let en ← opt nat
  let v ← opt nat
  let sf ← opt nat
  let pi ← opt int
  let tp ← bool
  let ch ← list nat
  let rf ← list nat
  let ex ← nat
  if Gen.classNames.contains cn then
    pure { oid := oid, cls := classId cn, start := st, stop := en, voice := v, staff := sf,
           pitch := pi, tiePrev := tp, chain := ch, refs := rf, extra := ex }
  else P.fail

def pPartBody : P APart := do
  let pid ← nat
  let nm ← opt str
  let qds ← list nat
  let es ← list pElem
  let tl ← list pElem
  pure { pid := pid, divs := divsOf qds, elems := es, tails := tl, name := nm }

def pPart : P APart := do
  let t ← tok
  if t == "P" then pPartBody else P.fail

partial def pTree : P Tree := do
  let t ← tok
  match t with
  | "P" =>
    let p ← pPartBody
    pure (.part p)
  | "G" =>
    let cs ← list pTree
    pure (.group cs)
  | _ => P.fail

partial def pXTree : P XTree := do
  let t ← tok
  match t with
  | "P" =>
    let p ← pPartBody
    pure (.part p)
  | "G" =>
    let cs ← list pXTree
    pure (.group cs)
  | "X" => pure .other
  | _ => P.fail

def pShape : P Shape := do
  let t ← tok
  match t with
  | "one" => do let x ← pTree; pure (.one x)
  | "many" => do let xs ← list pTree; pure (.many xs)
  | _ => P.fail

def pOp : P ScoreOp := do
  let t ← tok
  match t with
  | "setitem" => do let i ← nat; let p ← pPart; pure (.setItem i p)
  | "assign" => do let ps ← list pPart; pure (.assign ps)
  | "append" => do let p ← pPart; pure (.append p)
  | "pop" => do let i ← nat; pure (.pop i)
  | "reverse" => pure .reverse
  | _ => P.fail

def pArg : P XArg := do
  let t ← tok
  match t with
  | "one" => do let x ← pXTree; pure (.plain (.one x))
  | "many" => do let xs ← list pXTree; pure (.plain (.many xs))
  | "score" => do let s ← pShape; let ops ← list pOp; pure (.score s ops)
  | _ => P.fail

/-- the `reassign` token: `-` = the argument is left out -/
def parseReassign (t : String) : Option String := if t == "-" then none else some (decodeStr t)

def fmtElem (e : Elem) : String :=
  fmtTuple [fmtNat e.oid, Gen.classNames.getD e.cls "?", fmtNat e.start, fmtOpt fmtNat e.stop,
            fmtOpt fmtNat e.voice, fmtOpt fmtNat e.staff, fmtList fmtNat e.refs, fmtNat e.extra]

/-- an object without start: identity, class, end, voice, staff, references, other attributes -/
def fmtTail (e : Elem) : String :=
  fmtTuple [fmtNat e.oid, Gen.classNames.getD e.cls "?", fmtOpt fmtNat e.stop,
            fmtOpt fmtNat e.voice, fmtOpt fmtNat e.staff, fmtList fmtNat e.refs, fmtNat e.extra]

def rowLe (a b : Row) : Bool :=
  a.onset < b.onset || (a.onset == b.onset &&
    (a.pitch.getD 0 < b.pitch.getD 0 || (a.pitch.getD 0 == b.pitch.getD 0 && a.oid ≤ b.oid)))

def fmtRow (r : Row) : String :=
  fmtTuple [fmtNat r.oid, fmtNat r.onset, fmtOpt fmtInt r.dur, fmtOpt fmtInt r.pitch,
            fmtOpt fmtNat r.voice, fmtNat r.staff]

def soundLe (a b : Nat × Option Int × Option Int) : Bool :=
  a.1 < b.1 || (a.1 == b.1 &&
    (a.2.2.getD 0 < b.2.2.getD 0 || (a.2.2.getD 0 == b.2.2.getD 0 && a.2.1.getD 0 ≤ b.2.1.getD 0)))

def fmtSound (r : Nat × Option Int × Option Int) : String :=
  fmtTuple [fmtNat r.1, fmtOpt fmtInt r.2.1, fmtOpt fmtInt r.2.2]

def resultElems : Result → List Elem
  | .same p => p.elems
  | .merged _ es => es

/-- the time points of the new part are those `Part.add` creates (`newTimeline`, Model/MergeCall.lean) -/
def fmtResult (m : Mode) (ps : List APart) : Result → String
  | .same p => "same " ++ fmtNat p.pid
  | .merged L es => fmtTuple [fmtNat L, fmtList fmtElem es, fmtList (fun tp => fmtNat tp.t) (newTimeline m ps)]

def handle (ts : List String) : String :=
  match ts with
  | ["mult", l, d] =>
    -- `int(lcm / d)` as the live source computes it (Model/MergeFloat.lean)
    match l.toNat?, d.toNat? with
    | some L, some dv => (match multAsCoded L dv with | some k => fmtNat k | none => "err")
    | _, _ => "bad-request"
  | op :: rtok :: rest =>
    match run pArg rest with
    | none => "bad-request"
    | some a =>
      match op with
      | "parts" =>
        -- the list `score.parts` as the caller reads it (before the call; nothing is de-duplicated there)
        match xargParts a with
        | .ok parts => fmtList (fun p => fmtNat p.pid) parts
        | .error _ => "bad-history"
      | "distinct" =>
        match xargParts a with
        | .ok parts => fmtList (fun p => fmtNat p.pid) (distinctParts parts)
        | .error _ => "err"
      | "ref" =>
        match xargParts a with
        | .ok parts => fmtList fmtSound ((refSound (distinctParts parts)).mergeSort soundLe)
        | .error _ => "err"
      | "scoreref" =>
        -- the score-level note array as computed (a part without notes counts with divisions 1), with its divisions
        match xargParts a with
        | .ok parts =>
          fmtTuple [fmtNat (scoreDivs (distinctParts parts)),
                    fmtList fmtSound ((scoreSound (distinctParts parts)).mergeSort soundLe)]
        | .error _ => "err"
      | _ =>
        let reassign := if op == "load" then Gen.C15.loadReassign else parseReassign rtok
        let res := if op == "load" then
            (match a with
             | .score s [] => loadCall s
             | _ => .error .other)
          else mergeCall reassign a
        match res, modeOf (reassign.getD Gen.C15.reassignDefault), xargParts a with
        | .ok r, some m, .ok parts0 =>
          let parts := distinctParts parts0
          match op with
          | "merge" => fmtResult m parts r
          | "load" => fmtResult m parts r
          | "tails" =>
            match r with
            | .merged _ _ => fmtList fmtTail ((mergedTails m parts).mergeSort fun a b => a.oid ≤ b.oid)
            | .same _ => "same"
          | "quarters" =>
            match r with
            | .same _ => "same"
            | .merged _ _ => fmtList (fun tp => fmtNat tp.quarter) (newTimeline m parts)
          | "newid" =>
            match r with
            | .same _ => "same"
            | .merged _ _ =>
              (match newPartName parts with
               | some nm => fmtOpt (fun x => x) nm
               | none => "err")
          | "rows" => fmtList fmtRow ((rows (resultElems r)).mergeSort rowLe)
          | "dangling" =>
            match r with
            | .same _ => "same"
            | .merged _ es =>
              fmtList (fun x => fmtTuple [fmtNat x.1, fmtNat x.2])
                ((dangling (es ++ mergedTails m parts)).mergeSort fun a b =>
                  a.1 < b.1 || (a.1 == b.1 && a.2 ≤ b.2))
          | _ => "bad-request"
        | _, _, _ => "err"
  | _ => "bad-request"

def main : IO Unit := mainLoop handle
