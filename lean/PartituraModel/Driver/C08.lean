import PartituraModel.Wire
import PartituraModel.Model.MatchTime
import PartituraModel.Model.MatchFloat
import PartituraModel.Model.MatchAttr

open Wire Model Model.MatchTime Model.MatchFloat

def orErr (o : Option String) : String := o.getD "err"

def pTSig : P TSig := do
  let t ← int; let n ← nat; let d ← nat
  pure { t := t, num := n, den := d }

def pMeas : P Meas := do
  let s ← int; let e ← int
  pure { s := s, e := e }

def pScore : P Score := do
  let divs ← nat
  let ts ← list pTSig
  let ms ← list pMeas
  pure { divs := divs, ts := ts, ms := ms }

/-- value × 10000 of a 4-decimal rendering -/
def fmtDec4 (x : Rat) : String := fmtInt (roundHalfEven (x * 10000))

def fmtSTime (s : STime) : String :=
  fmtTuple [fmtInt s.measure, fmtInt s.beat, fmtRat s.offset, fmtRat s.dur, fmtDec4 s.onsetB, fmtDec4 s.offsetB]

def pKind : P Kind := do
  let t ← tok
  match t with
  | "m" => pure .match_
  | "d" => pure .deletion
  | "i" => pure .insertion
  | "o" => pure .ornament
  | "x" => pure .other
  | _ => P.fail

def fmtKind : Kind → String
  | .match_ => "m" | .deletion => "d" | .insertion => "i" | .ornament => "o" | .other => "x"

def pLine : P Line := do
  let k ← pKind; let s ← opt nat; let p ← opt nat
  pure { kind := k, sid := s, pid := p }

def fmtLine (l : Line) : String := fmtTuple [fmtKind l.kind, fmtOpt fmtNat l.sid, fmtOpt fmtNat l.pid]
def fmtEntry (l : Entry) : String := fmtTuple [fmtKind l.kind, fmtOpt fmtNat l.sid, fmtOpt fmtNat l.pid]

def pRawLine : P (Nat × Option Line) := do
  let t ← nat
  fun ts => match ts with
    | "n" :: rest => some ((t, none), rest)
    | _ => (do let l ← pLine; pure (t, some l)) ts

def pFrac : P Frac := do
  let n ← nat; let d ← nat; let t ← nat
  pure { num := n, den := d, tup := t }

def pSNote : P SNote := do
  let m ← int; let b ← int
  let off ← pFrac; let dur ← pFrac
  let comps ← list pFrac
  let ob ← rat; let fb ← rat
  pure { measure := m, beat := b, offset := off, dur := dur, comps := comps, onsetB := ob, offsetB := fb }

def pTSLine : P TSLine := do
  let t ← rat; let m ← int; let n ← nat; let d ← nat
  pure { timeB := t, measure := m, num := n, den := d }

def pKS : P (Rat × Int) := do
  let t ← rat; let m ← int
  pure (t, m)

def pDecInput : P (List SNote × List TSLine × List (Rat × Int)) := do
  let ns ← list pSNote
  let ts ← list pTSLine
  let ks ← list pKS
  pure (ns, ts, ks)

def pPair : P MatchedPair := do
  let s ← rat; let h ← bool; let p ← rat
  pure { sOnset := s, hasDur := h, pOnset := p }

/-- an entry of the ordering request: `s onsetBeats docOrder` or `p noteOn pitch` -/
def pOrdEntry : P OrdEntry := do
  let k ← tok
  let a ← rat; let b ← int
  match k with
  | "s" => pure (.score a b)
  | "p" => pure (.perf a b)
  | _ => P.fail

def fmtRecon (r : Recon) : String :=
  fmtTuple [fmtNat r.divs,
    fmtList (fun (b, p) => fmtTuple [fmtInt b, fmtInt p]) r.barlines,
    fmtInt r.lastBarEnd,
    fmtList (fun (p, n, d) => fmtTuple [fmtInt p, fmtNat n, fmtNat d])
      (sortBy (fun a b => decide (a.1 < b.1) || (decide (a.1 = b.1) &&
        (decide (a.2.1 < b.2.1) || (decide (a.2.1 = b.2.1) && decide (a.2.2 ≤ b.2.2))))) r.tsPos),
    fmtList fmtInt r.ksPos,
    fmtNat (r.fallback.filter id).length]

/-- the same without the end of the last bar (synthesised old-format files: their beat times are binary64 reprs,
    and whether the last bar line lies at or just before a time-signature change is decided by float noise) -/
def fmtReconX (r : Recon) : String :=
  fmtTuple [fmtNat r.divs,
    fmtList (fun (b, p) => fmtTuple [fmtInt b, fmtInt p]) r.barlines,
    fmtList (fun (p, n, d) => fmtTuple [fmtInt p, fmtNat n, fmtNat d])
      (sortBy (fun a b => decide (a.1 < b.1) || (decide (a.1 = b.1) &&
        (decide (a.2.1 < b.2.1) || (decide (a.2.1 = b.2.1) && decide (a.2.2 ≤ b.2.2))))) r.tsPos),
    fmtList fmtInt r.ksPos,
    fmtNat (r.fallback.filter id).length]

/-- notes in the order of the request: onset, total duration -/
def fmtReconNotes (n : Nat) (r : Recon) : String :=
  let byIdx := (List.range n).map fun i =>
    match r.notes.find? (fun x => x.1 = i) with
    | some (_, on, durs) => fmtTuple [fmtRat on, fmtInt (durs.foldl (· + ·) 0)]
    | none => "-"
  "[" ++ ",".intercalate byIdx ++ "]"

def pRtInput : P (Score × List (Int × Int) × List (Int × Nat)) := do
  let sc ← pScore
  let st ← list (do let o ← int; let d ← int; pure (o, d))
  let ks ← list (do let t ← int; let v ← nat; pure (t, v))
  pure (sc, st, ks)

def handle (ts : List String) : String :=
  match ts with
  | "enc" :: rest =>
    orErr <| (run (do let sc ← pScore; let ns ← list (do let o ← int; let d ← int; pure (o, d)); pure (sc, ns)) rest).map
      fun (sc, ns) => fmtList (fun (o, d) =>
        match sc.measureOf o with
        | some mi => fmtOpt fmtSTime (sc.encode mi o d)
        | none => "-") ns
  | "quart" :: rest =>
    -- the true position in quarters (from the point where the beat count is 0) the position theorems refer to
    orErr <| (run (do let sc ← pScore; let tl ← list int; pure (sc, tl)) rest).map
      fun (sc, tl) => fmtList (fun t => fmtRat (sc.quarters t)) tl
  | "sig" :: rest =>
    orErr <| (run (do let sc ← pScore; let tl ← list int; pure (sc, tl)) rest).map
      fun (sc, tl) => fmtList (fun (k, l) =>
        fmtTuple [fmtNat k, fmtInt l.measure, fmtInt l.beat, fmtRat l.offset, fmtDec4 l.timeB]) (sc.sigLines tl)
  | "ordk" :: rest =>
    orErr <| (run (do let ps ← list pPair; let es ← list pOrdEntry; pure (ps, es)) rest).map
      fun (ps, es) =>
        let ks := es.map (lineKey (timeMapKnots ps))
        fmtList (fun k => match k with | some r => fmtRat r | none => "nan")
          ((lexsortIdx ks).filterMap fun i => ks[i]?.map (·.k1))
  | "ordi" :: rest =>
    orErr <| (run (do let ps ← list pPair; let es ← list pOrdEntry; pure (ps, es)) rest).map
      fun (ps, es) => fmtList fmtNat (writtenOrder ps es)
  | "ped" :: rest =>
    orErr <| (run (do let mpq ← nat; let ppq ← nat
                      let cs ← list (do let n ← nat; let t ← rat; let v ← int; pure (n, t, v))
                      pure (mpq, ppq, cs)) rest).map
      fun (mpq, ppq, cs) => fmtList (fun (n, t, v) => fmtTuple [fmtNat n, fmtInt t, fmtInt v]) (pedalLines mpq ppq cs)
  | "ptick" :: rest =>
    orErr <| (run (do let mpq ← nat; let ppq ← nat; let l ← list rat; pure (mpq, ppq, l)) rest).map
      fun (mpq, ppq, l) => fmtList (fun t => fmtInt (perfRoundTrip mpq ppq t).1) l
  | "psec" :: rest =>
    orErr <| (run (do let mpq ← nat; let ppq ← nat; let l ← list rat; pure (mpq, ppq, l)) rest).map
      fun (mpq, ppq, l) => fmtList (fun t => fmtRat (perfRoundTrip mpq ppq t).2) l
  | "load" :: rest =>
    orErr <| (run (list pRawLine) rest).map fun raw => fmtList fmtLine (loadLines raw)
  | "align" :: rest =>
    orErr <| (run (list pRawLine) rest).map fun raw => fmtList fmtEntry (alignmentOf (loadLines raw))
  | "dec" :: rest =>
    orErr <| (run pDecInput rest).bind fun (ns, tsl, ks) => (reconstruct ns tsl ks).map fmtRecon
  | "decx" :: rest =>
    orErr <| (run pDecInput rest).bind fun (ns, tsl, ks) => (reconstruct ns tsl ks).map fmtReconX
  | "decn" :: rest =>
    orErr <| (run pDecInput rest).bind fun (ns, tsl, ks) => (reconstruct ns tsl ks).map (fmtReconNotes ns.length)
  | "rtq" :: rest =>
    -- end to end in the model: score, stored notes (onset, tied duration) in file order, key signatures
    orErr <| (run pRtInput rest).bind fun (sc, st, ks) => (sc.roundTrip st ks).map fmtRecon
  | "rtn" :: rest =>
    orErr <| (run pRtInput rest).bind fun (sc, st, ks) => (sc.roundTrip st ks).map (fmtReconNotes st.length)
  | "attrs" :: rest =>
    -- score attributes of all snotes of a file (attribute list, duration 0?, MIDI pitch) -> staff (after add_staffs),
    -- voice (after the final assignment), staccato, accent, grace
    orErr <| (run (do let split ← nat
                      let l ← list (do let a ← list str; let z ← bool; let p ← nat; pure (a, z, p))
                      pure (split, l)) rest).bind
      fun (split, l) => (MatchAttr.readAll (l.map fun (a, z, _) => (a.map String.toList, z))).map fun rs =>
        fmtList (fun (r, (_, _, p)) =>
          fmtTuple [fmtNat (MatchAttr.addStaff split p r.staff), fmtOpt fmtNat r.voice, fmtBool r.staccato, fmtBool r.accent,
                    fmtBool r.grace]) (rs.zip l)
  | "pid" :: rest =>
    orErr <| (run (list str) rest).map fun l => fmtList (fun s => fmtList (fun c => fmtNat c.toNat) (MatchAttr.pnoteId s.toList)) l
  | "durf" :: rest =>
    -- the loaded (tied) duration of each note in binary64: divisions, then per note the duration and its components
    orErr <| (run (do let d ← nat; let l ← list (do let f ← pFrac; let cs ← list pFrac; pure (f, cs)); pure (d, l)) rest).map
      fun (d, l) => fmtList (fun (f, cs) =>
        fmtInt ((if cs.isEmpty then [durDivsF d f] else cs.map (durDivsF d)).foldl (· + ·) 0)) l
  | "decr" :: rest =>
    orErr <| (run pDecInput rest).bind fun (ns, tsl, ks) =>
      (reconstruct ns tsl ks).map fun r => fmtOpt fmtRat r.restEnd
  | _ => "err"

def main : IO Unit := Wire.mainLoop handle
