import PartituraModel.Wire
import PartituraModel.Model.Unfold
import PartituraModel.Model.UnfoldFam
import PartituraModel.Model.UnfoldIds
import PartituraModel.Model.UnfoldEntry
import PartituraModel.Model.UnfoldAlign

open Wire Model.Unfold

/-
Requests (L = layout, PART = abstract part):
  L    := first last  nrep (s e)*  nend (s e nnum num*)*  codas tocodas dacapos fines segnos dalsegnos   (count-prefixed int lists)
  PART := npoints t*  nobj (kind start stp|- npay pay* id|- cls nattr (ntgt tgt*)*)*  nqd (t q)*
          (cls = rank of the object's class in [Note] + list(iter_subclasses(Note)), 0 for everything else)
  seg   L                         -> [(start,stp,[to],[await],type)]            | err
  paths L nr ar il                -> [[ids]]                                      | err
  var   L nr ar il idx upd PART   -> ([points],[objects sorted],[(t,q)],duration) | err
  fam   L                         -> chain <flags> | volta <pre> <k> <post> <asg> | dc-fine | dc-coda | ds-coda | none
                                     (the layout family of Props/C09Ext the layout is an instance of, all hypotheses checked)
  ids   L                         -> [[code points of the id of segment i] ..., [69,78,68]]   | err
                                     (`chr(65+i)` for every segment, then `END`: ties `segId` of Model/UnfoldIds, about which
                                      Props/C09Many proves that string order = numeric order, to the ids the code really uses)
  segstr L                        -> [([to: code points of every id string],[await_to: likewise])]   | err
                                     (the cleanup done on the raw STRINGS with Python's string order — `mkSegmentsStr`;
                                      Props/C09Many proves it equal to `seg` read through `segId`; compared with the real lists)
  entry max   L upd|- il|- PART          -> variant | err     `unfold_part_maximal(part[, update_ids][, ignore_leaps])`, `-` = omitted
  entry min   L PART                     -> variant | err     `unfold_part_minimal(part)`
  entry iter  L upd|- idx PART           -> (count,variant idx) | err   `list(iter_unfolded_parts(part[, update_ids]))`
  entry smax  upd|- il|- n (L PART)*     -> [variant] | err   `unfold_part_maximal(Score(parts), …).parts`
  entry smin  n (L PART)*                -> [variant] | err   `unfold_part_minimal(Score(parts)).parts`
  entry visits L idx                     -> (count,[(start,end,offset)]) | err   `make_score_variants(part)[idx].segment_times`
  entry align L PART nids id*            -> variant | err           the variant `unfold_part_alignment` returns for these score ids
  entry alignx L PART nal (label sid|-)*  -> (variant,[sid|-]) | err   `unfold_part_alignment(part, alignment)` as a whole (round 6): the
                                            alignment as (label, score_id or `-` = key absent); the returned part and the score ids of
                                            the caller's alignment AFTER the call (Model/UnfoldAlign.lean)
  alits                                  -> the generated literals of Gen/C09Align.lean
  lits                                   -> the generated literals the entry-point model uses (Gen/C09Lits.lean)
Destinations are printed as segment numbers, `END` as `E`.  Note ids are printed as `=<id>`, a missing id as `-`.
-/

/-- one unit of fuel per visited segment; Python gives up (RecursionError) at about 990 visits -/
def FUEL : Nat := 1000

def pLayout : P Layout := do
  let first ← int
  let last ← int
  let reps ← list (do let s ← int; let e ← int; pure (s, e))
  let ends ← list (do let s ← int; let e ← int; let ns ← list nat; pure (s, e, ns))
  let codas ← list int
  let tocodas ← list int
  let dacapos ← list int
  let fines ← list int
  let segnos ← list int
  let dalsegnos ← list int
  pure { first, last, repeats := reps, endings := ends, codas, tocodas, dacapos, fines, segnos, dalsegnos }

def kindOf : Nat → Kind
  | 1 => .note | 2 => .gnote
  | 10 => .repeat_ | 11 => .ending | 12 => .toCoda | 13 => .daCapo | 14 => .dalSegno
  | 15 => .segment | 16 => .system | 17 => .page
  | 20 => .timeSig | 21 => .keySig | 22 => .clef
  | 30 => .fermata
  | _ => .other

def kindCode : Kind → Nat
  | .note => 1 | .gnote => 2 | .other => 0
  | .repeat_ => 10 | .ending => 11 | .toCoda => 12 | .daCapo => 13 | .dalSegno => 14
  | .segment => 15 | .system => 16 | .page => 17
  | .timeSig => 20 | .keySig => 21 | .clef => 22
  | .fermata => 30

def pObj : P Obj := do
  let k ← nat
  let s ← int
  let e ← opt int
  let pay ← list int
  let id ← opt str
  let cls ← nat
  let refs ← list (list nat)
  pure { kind := kindOf k, start := s, stp := e, payload := pay, nid := id, refs := refs, cls := cls }

def pPart : P APart := do
  let pts ← list int
  let objs ← list pObj
  let qd ← list (do let t ← int; let q ← int; pure (t, q))
  pure { points := pts, objs := objs, qd := qd }

def fmtDest : Dest → String
  | .seg i => toString i
  | .fin => "E"

def fmtTy : SegType → String
  | .dflt => "default" | .leapStart => "leap_start" | .leapEnd => "leap_end"

def fmtSeg (s : Seg) : String :=
  fmtTuple [fmtInt s.start, fmtInt s.stp, fmtList fmtDest s.to, fmtList fmtDest s.await, fmtTy s.ty]

/-- canonical text of one copied object; a reference is printed as `orig@start` of the target -/
def fmtOObj (all : List OObj) (o : OObj) : String :=
  let tgt (r : Option Nat) : String := match r with
    | none => "-"
    | some j => match all.find? (fun q => q.visit = o.visit && q.orig = j && !q.extra) with
      | some q => toString j ++ "@" ++ toString q.start
      | none => "?"
  fmtTuple [fmtInt o.start, fmtOpt fmtInt o.stp, fmtNat (kindCode o.kind), fmtNat o.orig,
    (match o.nid with | none => "-" | some s => "=" ++ s), fmtList fmtInt o.payload, fmtList (fmtList tgt) o.refs]

def objKeyLe (a b : OObj) : Bool :=
  a.start < b.start || (a.start = b.start && a.orig ≤ b.orig)

/-- canonical text of an unfolded part (objects sorted by start, then by the position of the original) -/
def fmtVariant (v : Variant) : String :=
  let sorted := v.objs.mergeSort objKeyLe
  fmtTuple [fmtList fmtInt v.points, fmtList (fmtOObj v.objs) sorted,
            fmtList (fun q : Int × Int => fmtTuple [fmtInt q.1, fmtInt q.2]) v.qd,
            fmtOpt fmtInt v.duration]

def fmtSrc : Gen.C09.Src → String
  | .const b => if b then "1" else "0"
  | .ignoreLeaps => "il"
  | .updateIds => "upd"

def fmtCall (c : Gen.C09.Src × Gen.C09.Src × Gen.C09.Src × Gen.C09.Src) : String :=
  fmtTuple [fmtSrc c.1, fmtSrc c.2.1, fmtSrc c.2.2.1, fmtSrc c.2.2.2]

def handleEntry (ts : List String) : String :=
  match ts with
  | "max" :: rest =>
    match run (do let L ← pLayout; let upd ← opt bool; let il ← opt bool; let p ← pPart; pure (L, upd, il, p)) rest with
    | none => "bad-request"
    | some (L, upd, il, p) => ((unfoldPartMaximal L p upd il FUEL).map fmtVariant).getD "err"
  | "min" :: rest =>
    match run (do let L ← pLayout; let p ← pPart; pure (L, p)) rest with
    | none => "bad-request"
    | some (L, p) => ((unfoldPartMinimal L p FUEL).map fmtVariant).getD "err"
  | "iter" :: rest =>
    match run (do let L ← pLayout; let upd ← opt bool; let idx ← nat; let p ← pPart; pure (L, upd, idx, p)) rest with
    | none => "bad-request"
    | some (L, upd, idx, p) =>
      ((iterUnfoldedParts L p upd FUEL).bind fun vs => (vs[idx]?).map fun v =>
        fmtTuple [fmtNat vs.length, fmtVariant v]).getD "err"
  | "smax" :: rest =>
    match run (do let upd ← opt bool; let il ← opt bool
                  let ps ← list (do let L ← pLayout; let p ← pPart; pure (L, p)); pure (upd, il, ps)) rest with
    | none => "bad-request"
    | some (upd, il, ps) => ((unfoldScoreMaximal ps upd il FUEL).map (fmtList fmtVariant)).getD "err"
  | "smin" :: rest =>
    match run (list (do let L ← pLayout; let p ← pPart; pure (L, p))) rest with
    | none => "bad-request"
    | some ps => ((unfoldScoreMinimal ps FUEL).map (fmtList fmtVariant)).getD "err"
  | "visits" :: rest =>
    match run (do let L ← pLayout; let idx ← nat; pure (L, idx)) rest with
    | none => "bad-request"
    | some (L, idx) =>
      let c := Gen.C09.variantsCall
      ((getPathsPart L (some (c.1.eval true true)) (some (c.2.1.eval true true)) (some (c.2.2.1.eval true true)) FUEL).bind
        fun gp => (gp.2[idx]?).bind fun path => (visitsOf gp.1 path).map fun vs =>
          fmtTuple [fmtNat gp.2.length,
            fmtList (fun v : Visit => fmtTuple [fmtInt v.s, fmtInt v.e, fmtInt v.off]) vs]).getD "err"
  | "align" :: rest =>
    match run (do let L ← pLayout; let p ← pPart; let ids ← list str; pure (L, p, ids)) rest with
    | none => "bad-request"
    | some (L, p, ids) =>
      ((alignmentCandidates L p FUEL).bind fun cs => (alignPick cs ids).bind fun k => (cs[k]?).map fmtVariant).getD "err"
  | "alignx" :: rest =>
    match run (do let L ← pLayout; let p ← pPart
                  let al ← list (do let lb ← str; let sid ← opt str; pure ({ label := lb, sid := sid } : AEntry))
                  pure (L, p, al)) rest with
    | none => "bad-request"
    | some (L, p, al) =>
      ((unfoldPartAlignment L p al FUEL).map fun r =>
        fmtTuple [fmtVariant r.1, fmtList (fun e : AEntry => match e.sid with | none => "-" | some s => "=" ++ s) r.2]).getD "err"
  | _ => "bad-request"

def handle (ts : List String) : String :=
  match ts with
  | "entry" :: rest => handleEntry rest
  | ["alits"] =>
    fmtTuple [fmtList id Gen.C09.ALIGN_PROBED, fmtList id Gen.C09.ALIGN_LABELS, fmtBool Gen.C09.ALIGN_KEYERROR,
      fmtBool Gen.C09.ALIGN_OTHER_NOKEY_OK, Gen.C09.ALIGN_SUFFIX, fmtBool Gen.C09.ALIGN_MARK_IS_SUFFIX,
      fmtBool Gen.C09.ALIGN_REWRITE_ALL, fmtBool Gen.C09.ALIGN_NO_REWRITE_ON_ERROR]
  | ["lits"] =>
    fmtTuple [fmtList id Gen.C09.DROPPED, fmtList id Gen.C09.KEPT, Gen.C09.ID_SEP, fmtNat Gen.C09.ID_FIRST,
      fmtNat Gen.C09.SEG_ID_BASE, fmtList fmtNat Gen.C09.END,
      fmtBool Gen.C09.MAX_DEF.1, fmtBool Gen.C09.MAX_DEF.2, fmtBool Gen.C09.ITER_DEF, fmtBool Gen.C09.NEWPART_DEF,
      fmtBool Gen.C09.PATHS_DEF.1, fmtBool Gen.C09.PATHS_DEF.2.1, fmtBool Gen.C09.PATHS_DEF.2.2,
      fmtCall Gen.C09.maximalCall, fmtCall Gen.C09.maximalScoreCall, fmtCall Gen.C09.minimalCall,
      fmtCall Gen.C09.minimalScoreCall, fmtCall Gen.C09.iterCall, fmtCall Gen.C09.variantsCall]
  | "seg" :: rest =>
    match run pLayout rest with
    | none => "bad-request"
    | some L => match mkSegments L with
      | none => "err"
      | some g => fmtList fmtSeg g
  | "ids" :: rest =>
    match run pLayout rest with
    | none => "bad-request"
    | some L => match mkSegments L with
      | none => "err"
      | some g => fmtList (fmtList fmtNat) (idTable g.length)
  | "segstr" :: rest =>
    match run pLayout rest with
    | none => "bad-request"
    | some L => match mkSegmentsStr L with
      | none => "err"
      | some g => fmtList (fun r : List PyStr × List PyStr =>
          fmtTuple [fmtList (fmtList fmtNat) r.1, fmtList (fmtList fmtNat) r.2]) g
  | "fam" :: rest =>
    match run pLayout rest with
    | none => "bad-request"
    | some L => C09.famOf L
  | "paths" :: rest =>
    match run (do let L ← pLayout; let nr ← bool; let ar ← bool; let il ← bool; pure (L, nr, ar, il)) rest with
    | none => "bad-request"
    | some (L, nr, ar, il) => match (mkSegments L).bind fun g => getPaths g nr ar il FUEL with
      | none => "err"
      | some ps => fmtList (fmtList fmtNat) ps
  | "var" :: rest =>
    match run (do let L ← pLayout; let nr ← bool; let ar ← bool; let il ← bool; let idx ← nat; let upd ← bool
                  let p ← pPart; pure (L, nr, ar, il, idx, upd, p)) rest with
    | none => "bad-request"
    | some (L, nr, ar, il, idx, upd, p) =>
      let r := do
        let g ← mkSegments L
        let ps ← getPaths g nr ar il FUEL
        let path ← ps[idx]?
        let vs ← visitsOf g path
        let v := variant p vs
        pure (fmtVariant (if upd then { v with objs := suffixIds v.objs } else v))
      r.getD "err"
  | _ => "bad-request"

def main : IO Unit := mainLoop handle
