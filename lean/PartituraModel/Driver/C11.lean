import PartituraModel.Wire
import PartituraModel.Model.Durations
import PartituraModel.Model.Measures
import PartituraModel.Model.Rests
import PartituraModel.Model.Tuplets
import PartituraModel.Model.Sanitize
import PartituraModel.Model.SymConv
import PartituraModel.Model.MeasuresDec

open Wire Model Model.Dur Model.Meas Model.Rests Model.Tup Model.San Model.Conv

def fmtSym (sd : Gen.SymDur) : String :=
  fmtTuple [sd.1, fmtNat sd.2.1, fmtOpt fmtNat sd.2.2.1, fmtOpt fmtNat sd.2.2.2]

def fmtEst : Est → String
  | .empty => "-"
  | .single sd => fmtSym sd
  | .composite l => fmtList fmtSym l

/-- `_sym_dur`: `N` = None -/
def fmtSymField : Option Est → String
  | none => "N"
  | some e => fmtEst e

def orErr (o : Option String) : String := o.getD "err"

def parseSym : P Gen.SymDur := do
  let ty ← str; let d ← nat; let a ← opt nat; let n ← opt nat
  pure (ty, d, a, n)

/-- `N` = None, `E` = `{}`, `S type dots a n` = one value -/
def parseSymField : P (Option Est) := do
  let t ← tok
  match t with
  | "N" => pure none
  | "E" => pure (some .empty)
  | "S" => do let sd ← parseSym; pure (some (.single sd))
  | "C" => do let l ← list parseSym; pure (some (.composite l))
  | _ => P.fail

def parseNote : P Note := do
  let key ← nat; let id ← opt str; let s ← nat; let e ← nat; let pitch ← str
  let voice ← opt int; let staff ← opt int; let sym ← parseSymField
  let tp ← opt nat; let tn ← opt nat; let slurs ← list nat
  pure { key := key, id := id, start := s, stop := e, pitch := pitch, voice := voice, staff := staff,
         sym := sym, tiePrev := tp, tieNext := tn, slurStops := slurs }

def parseTS : P TimeMap.TSig := do
  let t ← int; let b ← nat; let bt ← nat
  pure ⟨t, b, bt, TimeMap.defaultMB b⟩

def parsePair : P (Int × Nat) := do let a ← int; let b ← nat; pure (a, b)
def parseMeasure : P Measure := do
  let s ← nat; let e ← nat; let n ← opt int
  pure ⟨s, e, n⟩

/-- part header shared by `addm` and `tie`: first last npoints, qd list, ts list, measures -/
def parsePart : P PartM := do
  let first ← nat; let last ← nat; let np ← nat
  let qd ← list parsePair; let ts ← list parseTS; let ms ← list parseMeasure
  pure { first := first, last := last, npoints := np, qd := qd, ts := ts, measures := ms }

def fmtMeasure (m : Measure) : String := fmtTuple [fmtNat m.start, fmtNat m.stop, fmtOpt fmtInt m.number]

def fmtRef (ns : List Note) (k : Option Nat) : String :=
  match k with
  | none => "-"
  | some k => match ns.find? (·.key = k) with
    | some n => fmtNat n.start ++ ":" ++ fmtNat n.stop ++ ":" ++ (n.id.getD "-")
    | none => "?"

def fmtNote (qd : List (Int × Nat)) (ns : List Note) (n : Note) : String :=
  fmtTuple [n.id.getD "-", fmtNat n.start, fmtNat n.stop, n.pitch, fmtOpt fmtInt n.voice, fmtOpt fmtInt n.staff,
            fmtSymField n.sym, fmtOpt fmtEst (symbolicDuration qd n), fmtRef ns n.tiePrev, fmtRef ns n.tieNext,
            fmtList fmtNat n.slurStops]

/-- without the estimated `symbolic_duration` column (used where the note class has no estimate) -/
def fmtNoteS (ns : List Note) (n : Note) : String :=
  fmtTuple [n.id.getD "-", fmtNat n.start, fmtNat n.stop, n.pitch, fmtOpt fmtInt n.voice, fmtOpt fmtInt n.staff,
            fmtSymField n.sym, fmtRef ns n.tiePrev, fmtRef ns n.tieNext, fmtList fmtNat n.slurStops]

def fmtPieces (l : List Piece) : String :=
  fmtList (fun p => fmtTuple [fmtNat p.1, fmtNat p.2.1, fmtEst p.2.2]) l

def parseGNote : P GNote := do
  let s ← rat; let e ← rat; let v ← int; let st ← int
  pure ⟨s, e, v, st, none⟩

def parseSpan : P (Rat × Rat) := do let a ← rat; let b ← rat; pure (a, b)
def parseIntPair : P (Int × Int) := do let a ← int; let b ← int; pure (a, b)

/-- the rests `fill_rests` added, in iteration order -/
def fmtAdded (out : Option (List GNote)) : String :=
  match out with
  | none => "err"
  | some l => fmtList (fun n => fmtTuple [fmtRat n.start, fmtRat n.stop, fmtInt n.voice, fmtInt n.staff,
                                           fmtSymField n.added]) (l.filter (·.added.isSome))

/-- `iter_all(Tuplet)` order: by start time of the first note, creation order within a time point -/
def sortTuplets (ns : List Note) (l : List (Nat × Nat)) : List (Nat × Nat) :=
  let startOf := fun (t : Nat × Nat) => match ns.find? (·.key = t.1) with | some n => n.start | none => 0
  let ins := fun (acc : List (Nat × Nat)) (t : Nat × Nat) =>
    (acc.takeWhile fun a => startOf a ≤ startOf t) ++ t :: (acc.dropWhile fun a => startOf a ≤ startOf t)
  l.foldl ins []

def parseGNext : P GNext := do
  let t ← tok
  match t with
  | "N" => pure .none
  | "G" => do let k ← nat; pure (.grace k)
  | "M" => do let k ← nat; pure (.note k)
  | _ => P.fail

def parseGrace : P Grace := do
  let k ← nat; let s ← nat; let v ← opt int; let nx ← parseGNext
  pure ⟨k, s, v, nx⟩

def parseSpanB : P Span := do let k ← nat; let a ← bool; let b ← bool; pure (k, a, b)

def fmtGNext : GNext → String
  | .none => "-"
  | .grace k => "g" ++ fmtNat k
  | .note k => "n" ++ fmtNat k

def fmtSoundRow (r : SoundRow) : String :=
  fmtTuple [fmtNat r.1, fmtNat r.2.1, fmtOpt fmtInt r.2.2.1, fmtOpt fmtInt r.2.2.2.1, r.2.2.2.2.getD "-"]

def fmtTies (out : List Note) : String :=
  fmtList (fun n => fmtTuple [fmtRef out (some n.key), fmtRef out n.tiePrev, fmtRef out n.tieNext]) out

def handle (ts : List String) : String :=
  match ts with
  | "fmtl" :: rest =>
    -- format_symbolic_duration on a list of values (N = None, E = {}, S = one value, C = a tuple of tied values)
    orErr <| (run (list parseSymField) rest).map fun l => fmtList (fun e => (formatSymbolic e).getD "err") l
  | "dfsl" :: rest =>
    -- GenericNote.duration_from_symbolic of notes [0, dur) with the stored value given, quarter duration q
    orErr <| (run (do let q ← nat; let l ← list (do let d ← nat; let f ← parseSymField; pure (d, f)); pure (q, l)) rest).map
      fun (q, l) => fmtList (fun (x : Nat × Option Est) =>
        let n : Note := { key := 0, id := none, start := 0, stop := x.1, pitch := "C_N_4", voice := none, staff := none,
                          sym := x.2, tiePrev := none, tieNext := none, slurStops := [] }
        match durationFromSymbolic (symbolicDuration [(0, q)] n) (quarterAt [(0, q)] 0) with
        | none => "err"
        | some none => "nan"
        | some (some r) => fmtRat r) l
  | "snd" :: rest =>
    -- the rows of the note array of a note list: (onset, duration_tied, midi pitch, voice, id)
    orErr <| (run (list parseNote) rest).map fun ns => fmtList fmtSoundRow (soundingMidi ns)
  | "sanp" :: rest =>
    -- the whole of sanitize_part
    orErr <| (run (do let tol ← opt nat; let ns ← list parseNote; let gs ← list parseGrace; let tu ← list parseSpanB
                      let sl ← list parseSpanB; pure (tol, ns, gs, tu, sl)) rest).map fun (tol, ns, gs, tu, sl) =>
      -- `-` = called without tie_tolerance: the default of the signature (Gen/C11Consts.lean)
      let out := sanitizePart ⟨ns, gs, [], tu, sl⟩ (tol.getD Gen.C11.sanitizeTieTolerance)
      fmtTuple [fmtTies out.notes,
                fmtList (fun g => fmtTuple [fmtNat g.key, fmtGNext g.next]) (keptGraces out),
                fmtList fmtNat out.removed,
                fmtList (fun t => fmtNat t.1) out.tuplets,
                fmtList (fun t => fmtNat t.1) out.slurs,
                fmtList fmtSoundRow (soundingMidi out.notes)]
  | "tupl" :: rest =>
    -- find_tuplets on notes whose symbolic_duration is the stored value (None = no symbolic duration)
    orErr <| (run (do let p ← parsePart; let ns ← list parseNote; pure (p, ns)) rest).map fun (p, ns) =>
      let st := findTupletsBy (fun n => n.sym.isNone) p.qd ns
      fmtTuple [fmtList (fun n => fmtSymField n.sym) st.notes,
                fmtList (fun t => fmtTuple [fmtRef st.notes (some t.1), fmtRef st.notes (some t.2)])
                  (sortTuplets st.notes st.tuplets)]
  | "fillm" :: rest =>
    orErr <| (run (do let qd ← list parsePair; let k ← nat; let ms ← list parseSpan; let ns ← list parseGNote
                      pure (qd, k, ms, ns)) rest).map fun (qd, k, ms, ns) => fmtAdded (fillRests qd k ms ns)
  | "fillg" :: rest =>
    orErr <| (run (do let qd ← list parsePair; let uvs ← list parseIntPair; let ms ← list parseSpan
                      let ns ← list parseGNote; pure (qd, uvs, ms, ns)) rest).map
      fun (qd, uvs, ms, ns) => fmtAdded (fillRestsG qd uvs ms ns)
  | "est" :: rest =>
    orErr <| (run (do let d ← rat; let v ← nat; let c ← bool; pure (d, v, c)) rest).bind fun (d, v, c) =>
      (estimate d v c).map fmtEst
  | "estl" :: rest =>
    -- one divisions value, many durations: the list of estimates
    orErr <| (run (do let v ← nat; let c ← bool; let ds ← list nat; pure (v, c, ds)) rest).map fun (v, c, ds) =>
      fmtList (fun (d : Nat) => ((estimate (d : Rat) v c).map fmtEst).getD "err") ds
  | "estr" :: rest =>
    -- one divisions value, the durations lo..hi-1
    orErr <| (run (do let v ← nat; let lo ← nat; let hi ← nat; pure (v, lo, hi)) rest).map fun (v, lo, hi) =>
      fmtList (fun (d : Nat) => ((estimate (d : Rat) v false).map fmtEst).getD "err") ((List.range (hi - lo)).map (· + lo))
  | "estold" :: rest =>
    orErr <| (run (do let d ← rat; let v ← nat; pure (d, v)) rest).bind fun (d, v) =>
      (estimateOld d v).map fmtEst
  | "back" :: rest =>
    orErr <| (run (do let d ← rat; let v ← nat; let c ← bool; pure (d, v, c)) rest).bind fun (d, v, c) =>
      (estimate d v c).bind fun e => match e with
        | .empty => some "-"
        | .single sd => (symbolicToNumeric sd v).map fmtRat
        | .composite l => (numericSum l v).map fmtRat
  | "num" :: rest =>
    orErr <| (run (do let sd ← parseSym; let v ← rat; pure (sd, v)) rest).bind fun (sd, v) =>
      (symbolicToNumeric sd v).map fmtRat
  | "unit" :: rest => orErr <| (run nat rest).map fun d => fmtNat (findSmallestUnit d)
  | "osplits" :: rest =>
    orErr <| (run (do let s ← nat; let e ← nat; let u ← nat; pure (s, e, u)) rest).map fun (s, e, u) =>
      fmtList fmtNat (orderSplits s e u)
  | "split" :: rest =>
    orErr <| (run (do let s ← nat; let e ← nat; let d ← nat; let m ← nat; pure (s, e, d, m)) rest).map
      fun (s, e, d, m) => match findTieSplit s e d m 2000000 with
        | .found l => fmtPieces l
        | .exhausted => "-"
        | .outOfFuel => "fuel"
  | "splitd" :: rest =>
    -- find_tie_split without max_splits: the default of the signature (Gen/C11Consts.lean)
    orErr <| (run (do let s ← nat; let e ← nat; let d ← nat; pure (s, e, d)) rest).map
      fun (s, e, d) => match findTieSplit s e d Gen.C11.findTieSplitMaxSplits 2000000 with
        | .found l => fmtPieces l
        | .exhausted => "-"
        | .outOfFuel => "fuel"
  | "tid" :: rest => orErr <| (run str rest).map fun s => (makeTiedNoteId s).getD "-"
  | "rok" :: rest =>
    -- the executable side condition of the measure theorems (Props/C11Decide.lean) and its three parts
    orErr <| (run parsePart rest).map fun p =>
      match stretches p with
      | none => "none"
      | some l => fmtTuple [fmtBool (readingOKB p), fmtBool (tsOKB p), fmtBool (existingOKB p l), fmtBool (barsIntegralB p l)]
  | "addm" :: rest =>
    orErr <| (run parsePart rest).map fun p =>
      match addMeasures p (4 * (p.last - p.first) + 64) with
      | .ok ms => fmtList fmtMeasure ms
      | .error e => "err:" ++ e
  | "tie" :: rest =>
    orErr <| (run (do let p ← parsePart; let ns ← list parseNote; pure (p, ns)) rest).map fun (p, ns) =>
      let out := tieNotes p ns
      fmtList (fmtNote p.qd out) out
  | "splitnote" :: rest =>
    orErr <| (run (do let p ← parsePart; let ns ← list parseNote; let k ← nat; let d ← nat; pure (p, ns, k, d)) rest).map
      fun (p, ns, k, d) => match splitNoteByKey p.qd ns k d with
        | some out => fmtList (fmtNoteS out) out
        | none => "none"
  | "tupc" :: rest =>
    orErr <| (run (do let p ← parsePart; let ns ← list parseNote; pure (p, ns)) rest).map fun (p, ns) =>
      fmtNat (tupletCandidates p.qd ns).length
  | "sand" :: rest =>
    -- sanitize_part(part) without tie_tolerance: the default of the signature (Gen/C11Consts.lean)
    orErr <| (run (list parseNote) rest).map fun ns => fmtTies (sanitizeTies ns Gen.C11.sanitizeTieTolerance)
  | "san" :: rest =>
    orErr <| (run (do let tol ← nat; let ns ← list parseNote; pure (tol, ns)) rest).map fun (tol, ns) =>
      let out := sanitizeTies ns tol
      fmtList (fun n => fmtTuple [fmtRef out (some n.key), fmtRef out n.tiePrev, fmtRef out n.tieNext]) out
  | _ => "bad-request"

partial def readAll (h : IO.FS.Stream) (acc : Array String) : IO (Array String) := do
  let line ← h.getLine
  if line.isEmpty then return acc else readAll h (acc.push line)

/-- requests are independent: answer them in parallel chunks, print in order -/
def main : IO Unit := do
  let stdin ← IO.getStdin
  let stdout ← IO.getStdout
  let lines ← readAll stdin #[]
  let n := lines.size
  let chunk := 4
  let nchunks := (n + chunk - 1) / chunk
  let tasks := (List.range nchunks).map fun c => Task.spawn fun _ =>
    (lines.extract (c * chunk) (min n ((c + 1) * chunk))).map (fun l => handle (tokens l))
  for t in tasks do
    for r in t.get do
      stdout.putStrLn r
  stdout.flush
