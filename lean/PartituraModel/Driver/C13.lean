import PartituraModel.Wire
import PartituraModel.Model.PianoRoll

open Wire Model Model.PianoRoll

/-- keyword arguments shared by `pr` and `pc` requests -/
def parseArgs : P (Args × Bool) := do
  let tu ← str
  let td ← opt int
  let removeDrums ← bool
  let onsetOnly ← bool
  let noteSep ← bool
  let pitchMargin ← int
  let timeMargin ← int
  let pianoRange ← bool
  let removeSilence ← bool
  let endTime ← opt rat
  let binary ← bool
  let retIdx ← bool
  pure ({ timeUnit := tu, timeDiv := td, removeDrums := removeDrums,
          opts := { timeDiv := 0, onsetOnly := onsetOnly, noteSep := noteSep, pitchMargin := pitchMargin,
                    timeMargin := timeMargin, pianoRange := pianoRange, removeSilence := removeSilence,
                    endTime := endTime, binary := binary } }, retIdx)

def parseRow (nu : Nat) : P Row := do
  let p ← int
  let ts ← rep (do let a ← rat; let b ← rat; pure (a, b)) nu
  let v ← opt int
  let c ← opt int
  pure { pitch := p, times := ts, vel := v, chan := c }

def parseArray : P NoteArray := do
  let units ← list str
  let hv ← bool
  let hc ← bool
  let n ← nat
  let rows ← rep (parseRow units.length) n
  pure { units := units, hasVel := hv, hasChan := hc, rows := rows }

def pairLe (a b : Int × Int) : Bool := a.1 < b.1 || (a.1 == b.1 && a.2 ≤ b.2)

def dedupAdj : List (Int × Int) → List (Int × Int)
  | a :: b :: l => if a == b then dedupAdj (b :: l) else a :: dedupAdj (b :: l)
  | l => l

/-- the non-zero cells, sorted; only keys of the fill list can be non-zero (`C13.cell_zero_of_no_key`) -/
def nonzeroCells (r : Roll) : List (Int × Int × Int) :=
  let keys := dedupAdj ((r.fill.map fun e => (e.1 - r.rowStart, e.2.1)).mergeSort pairLe)
  keys.filterMap fun (p, j) =>
    let v := r.cell p j
    if v = 0 then none else some (p, j, v)

def fmtIdx (l : List (Int × Int × Int × Int)) : String :=
  fmtList (fun (a, b, c, d) => fmtTuple [fmtInt a, fmtInt b, fmtInt c, fmtInt d]) l

def fmtRoll (r : Roll) (retIdx : Bool) : String :=
  let shape := fmtTuple [fmtInt r.rows, fmtInt r.cols]
  let cells := fmtList (fun (p, j, v) => fmtTuple [fmtInt p, fmtInt j, fmtInt v]) (nonzeroCells r)
  if retIdx then shape ++ "|" ++ cells ++ "|" ++ fmtIdx r.idx else shape ++ "|" ++ cells

def fmtPc (r : Roll) (binary normalize retIdx : Bool) : String :=
  let colsN := r.cols.toNat
  let cols := (List.range colsN).map fun (j : Nat) =>
    fmtList fmtRat (pcColumn r binary normalize (j : Int))
  let idx := if retIdx then fmtList (fun (a, b, c, d) => fmtList fmtInt [a, b, c, d]) r.idx else "[]"
  "[" ++ fmtInt r.cols ++ "," ++ "[" ++ ",".intercalate cols ++ "]," ++ idx ++ "]"

/-- dense columns of a sparse cell list -/
def denseCols (rows ncols : Nat) (cells : List (Nat × Nat × Int)) : List (List Int) :=
  let empty : Array (Array Int) := Array.replicate ncols (Array.replicate rows 0)
  let filled := cells.foldl (fun (m : Array (Array Int)) (p, j, v) =>
    if j < m.size then m.modify j (fun col => if p < col.size then col.set! p v else col) else m) empty
  filled.toList.map (·.toList)

def handle (ts : List String) : String :=
  match ts with
  | "pr" :: rest =>
    match run (do let a ← parseArgs; let arr ← parseArray; pure (a, arr)) rest with
    | none => "bad-request"
    | some ((g, retIdx), arr) =>
      match computePianoroll arr g with
      | none => "err"
      | some r => fmtRoll r retIdx
  | "pc" :: rest =>
    match run (do let nz ← bool; let pb ← bool; let a ← parseArgs; let arr ← parseArray; pure (nz, pb, a, arr)) rest with
    | none => "bad-request"
    | some (nz, pb, (g, retIdx), arr) =>
      match computePcBase arr g with
      | none => "err"
      | some r => fmtPc r pb nz retIdx
  | "dec" :: rest =>
    match run (do let rows ← nat; let ncols ← nat; let td ← int
                  let cells ← list (do let p ← nat; let j ← nat; let v ← int; pure (p, j, v))
                  pure (rows, ncols, td, cells)) rest with
    | none => "bad-request"
    | some (rows, ncols, td, cells) =>
      match decode rows (denseCols rows ncols cells) td with
      | none => "err"
      | some notes =>
        fmtList (fun (p, on, du, v) => fmtList id [fmtInt p, fmtRat on, fmtRat du, fmtInt v]) notes
  | _ => "bad-request"

def main : IO Unit := mainLoop handle
