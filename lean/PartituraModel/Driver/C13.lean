import PartituraModel.Wire
import PartituraModel.Model.PianoRollArgs
import PartituraModel.Model.PianoRollSession
import PartituraModel.Model.PianoRollFloat
import PartituraModel.Model.PianoRollDecodeQ
import PartituraModel.Model.PianoRollKinds
import PartituraModel.Model.PianoRollPcF
import PartituraModel.Model.PianoRollMargin
import PartituraModel.Model.PianoRollDecode32

open Wire Model Model.PianoRoll

def parseTimeDiv : P (Option TimeDivArg) := do
  let t ← tok
  match t with
  | "-" => pure none
  | "auto" => pure (some .auto)
  | "arr" => pure (some .array)
  | "n" => do
    let q ← rat
    pure (some (.num q))
  | _ => P.fail

def parseEndTime : P (Option EndTimeArg) := do
  let t ← tok
  match t with
  | "-" => pure none
  | "s" => do
    let q ← rat
    pure (some (.scalar q))
  | "a" => do
    let xs ← list rat
    pure (some (.array xs))
  | _ => P.fail

/-- keyword arguments of `compute_pianoroll` (`-` = not given) -/
def parseKw : P KwArgs := do
  let tu ← opt str
  let td ← parseTimeDiv
  let oo ← opt bool
  let ns ← opt bool
  let pm ← opt int
  let tm ← opt rat
  let ri ← opt bool
  let pr ← opt bool
  let rd ← opt bool
  let rs ← opt bool
  let et ← parseEndTime
  let bi ← opt bool
  pure { timeUnit := tu, timeDiv := td, onsetOnly := oo, noteSep := ns, pitchMargin := pm, timeMargin := tm,
         returnIdxs := ri, pianoRange := pr, removeDrums := rd, removeSilence := rs, endTime := et, binary := bi }

/-- keyword arguments of `compute_pitch_class_pianoroll` (`-` = not given) -/
def parsePcKw : P PcKw := do
  let nz ← opt bool
  let tu ← opt str
  let td ← parseTimeDiv
  let oo ← opt bool
  let ns ← opt bool
  let tm ← opt rat
  let ri ← opt bool
  let rs ← opt bool
  let et ← parseEndTime
  let bi ← opt bool
  pure { normalize := nz, timeUnit := tu, timeDiv := td, onsetOnly := oo, noteSep := ns, timeMargin := tm,
         returnIdxs := ri, removeSilence := rs, endTime := et, binary := bi }

def parseRow (nu : Nat) : P Row := do
  let p ← int
  let ts ← rep (do let a ← rat; let b ← rat; pure (a, b)) nu
  let v ← opt int
  let c ← opt int
  pure { pitch := p, times := ts, vel := v, chan := c }

def parseArray : P NoteArray := do
  let units ← list str
  let hv ← bool
  let hc ← bool
  let n ← nat
  let rows ← rep (parseRow units.length) n
  pure { units := units, hasVel := hv, hasChan := hc, rows := rows }

def pairLe (a b : Int × Int) : Bool := a.1 < b.1 || (a.1 == b.1 && a.2 ≤ b.2)

def dedupAdj : List (Int × Int) → List (Int × Int)
  | a :: b :: l => if a == b then dedupAdj (b :: l) else a :: dedupAdj (b :: l)
  | l => l

/-- the non-zero cells, sorted; only keys of the fill list can be non-zero (`C13.cell_zero_of_no_key`) -/
def nonzeroCells (r : Roll) : List (Int × Int × Int) :=
  let keys := dedupAdj ((r.fill.map fun e => (e.1 - r.rowStart, e.2.1)).mergeSort pairLe)
  keys.filterMap fun (p, j) =>
    let v := r.cell p j
    if v = 0 then none else some (p, j, v)

def fmtIdx (l : List (Int × Int × Int × Int)) : String :=
  fmtList (fun (a, b, c, d) => fmtTuple [fmtInt a, fmtInt b, fmtInt c, fmtInt d]) l

def fmtRoll (r : Roll) (retIdx : Bool) : String :=
  let shape := fmtTuple [fmtInt r.rows, fmtInt r.cols]
  let cells := fmtList (fun (p, j, v) => fmtTuple [fmtInt p, fmtInt j, fmtInt v]) (nonzeroCells r)
  if retIdx then shape ++ "|" ++ cells ++ "|" ++ fmtIdx r.idx else shape ++ "|" ++ cells

def fmtPc (r : PcRoll) : String :=
  let cols := r.columns.map fun c => fmtList fmtRat c
  let idx := match r.idx with
    | some l => fmtList (fun (a, b, c, d) => fmtList fmtInt [a, b, c, d]) l
    | none => "[]"
  "[" ++ fmtInt r.cols ++ "," ++ "[" ++ ",".intercalate cols ++ "]," ++ idx ++ "]"

def fmtTime : Option Rat → String
  | some q => fmtRat q
  | none => "inf"

/-- dense columns of a sparse cell list -/
def denseCols (rows ncols : Nat) (cells : List (Nat × Nat × Int)) : List (List Int) :=
  let empty : Array (Array Int) := Array.replicate ncols (Array.replicate rows 0)
  let filled := cells.foldl (fun (m : Array (Array Int)) (p, j, v) =>
    if j < m.size then m.modify j (fun col => if p < col.size then col.set! p v else col) else m) empty
  filled.toList.map (·.toList)

/-- dense columns of a sparse list of real-valued cells -/
def denseColsQ (rows ncols : Nat) (cells : List (Nat × Nat × Rat)) : List (List Rat) :=
  let empty : Array (Array Rat) := Array.replicate ncols (Array.replicate rows 0)
  let filled := cells.foldl (fun (m : Array (Array Rat)) (p, j, v) =>
    if j < m.size then m.modify j (fun col => if p < col.size then col.set! p v else col) else m) empty
  filled.toList.map (·.toList)

-- ------------------------------------------------------------------ arguments of any kind (round 5)

/-- `-` (not given) | `N` | `B b` | `I i` | `F q` | `S str` | `L xs` -/
def parsePyVal : P (Option PyVal) := do
  let t ← tok
  match t with
  | "-" => pure none
  | "N" => pure (some .none)
  | "B" => do let b ← bool; pure (some (.bool b))
  | "I" => do let i ← int; pure (some (.int i))
  | "F" => do let q ← rat; pure (some (.float q))
  | "S" => do let s ← str; pure (some (.str s))
  | "L" => do let xs ← list rat; pure (some (.seq xs))
  | _ => P.fail

def parsePyArgs : P PyArgs := do
  let tu ← parsePyVal
  let td ← parsePyVal
  let oo ← parsePyVal
  let ns ← parsePyVal
  let pm ← parsePyVal
  let tm ← parsePyVal
  let ri ← parsePyVal
  let pr ← parsePyVal
  let rd ← parsePyVal
  let rs ← parsePyVal
  let et ← parsePyVal
  let bi ← parsePyVal
  pure { timeUnit := tu, timeDiv := td, onsetOnly := oo, noteSep := ns, pitchMargin := pm, timeMargin := tm,
         returnIdxs := ri, pianoRange := pr, removeDrums := rd, removeSilence := rs, endTime := et, binary := bi }

-- ------------------------------------------------------------------ sessions (round 3)

def parseObj : P ArgObj := do
  let t ← tok
  match t with
  | "num" => do let q ← rat; pure (.num q)
  | "a0" => do let q ← rat; pure (.arr0 q)
  | "arr" => do let xs ← list rat; pure (.arr xs)
  | "seq" => do let xs ← list rat; pure (.seq xs)
  | _ => P.fail

/-- `-` (omitted / None), `auto`, or `@ i` (the object at address `i`) -/
def parseRef : P (Bool × Option Nat) := do
  let t ← tok
  match t with
  | "-" => pure (false, none)
  | "auto" => pure (true, none)
  | "@" => do let i ← nat; pure (false, some i)
  | _ => P.fail

def parseKwRef : P KwRef := do
  let tu ← opt str
  let td ← parseRef
  let oo ← opt bool
  let ns ← opt bool
  let pm ← opt int
  let tm ← parseRef
  let ri ← opt bool
  let pr ← opt bool
  let rd ← opt bool
  let rs ← opt bool
  let et ← parseRef
  let bi ← opt bool
  pure { kw := { timeUnit := tu, timeDiv := if td.1 then some .auto else none, onsetOnly := oo, noteSep := ns,
                 pitchMargin := pm, timeMargin := none, returnIdxs := ri, pianoRange := pr, removeDrums := rd,
                 removeSilence := rs, endTime := none, binary := bi },
         td := td.2, tm := tm.2, et := et.2 }

def parsePcRef : P PcRef := do
  let nz ← opt bool
  let tu ← opt str
  let td ← parseRef
  let oo ← opt bool
  let ns ← opt bool
  let tm ← parseRef
  let ri ← opt bool
  let rs ← opt bool
  let et ← parseRef
  let bi ← opt bool
  pure { kw := { normalize := nz, timeUnit := tu, timeDiv := if td.1 then some .auto else none, onsetOnly := oo,
                 noteSep := ns, timeMargin := none, returnIdxs := ri, removeSilence := rs, endTime := none, binary := bi },
         td := td.2, tm := tm.2, et := et.2 }

def parseCall : P Call := do
  let t ← tok
  match t with
  | "pr" => do let r ← parseKwRef; pure (.pr r)
  | "pc" => do let r ← parsePcRef; pure (.pc r)
  | _ => P.fail

def fmtObj : ArgObj → String
  | .num q => "num:" ++ fmtRat q
  | .arr0 q => "a0:" ++ fmtRat q
  | .arr xs => "arr:" ++ fmtList fmtRat xs
  | .seq xs => "seq:" ++ fmtList fmtRat xs

def fmtOut : Out → String
  | .roll r ri => fmtRoll r ri
  | .pc p => "pc(" ++ fmtInt p.cols ++ ")"
  | .err => "err"
  | .bad => "bad-request"

def handle (ts : List String) : String :=
  match ts with
  | "pr" :: rest =>
    -- the code's arithmetic: binary64 (Model/PianoRollFloat.lean)
    match run (do let kind ← str; let kw ← parseKw; let arr ← parseArray; pure (kind, kw, arr)) rest with
    | none => "bad-request"
    | some (kind, kw, arr) =>
      match computePianorollKwF kind arr kw with
      | none => "err"
      | some (r, retIdx) => fmtRoll r retIdx
  | "prq" :: rest =>
    -- the exact-rational model the theorems of Props/C13.lean are about
    match run (do let kind ← str; let kw ← parseKw; let arr ← parseArray; pure (kind, kw, arr)) rest with
    | none => "bad-request"
    | some (kind, kw, arr) =>
      match computePianorollKw kind arr kw with
      | none => "err"
      | some (r, retIdx) => fmtRoll r retIdx
  | "pc" :: rest =>
    match run (do let kind ← str; let kw ← parsePcKw; let arr ← parseArray; pure (kind, kw, arr)) rest with
    | none => "bad-request"
    | some (kind, kw, arr) =>
      match computePcKwF kind arr kw with
      | none => "err"
      | some r => fmtPc r
  | "pcf" :: rest =>
    -- the code's arithmetic throughout: binary64 frames and the binary64 division of the normalisation (compared exactly)
    match run (do let kind ← str; let kw ← parsePcKw; let arr ← parseArray; pure (kind, kw, arr)) rest with
    | none => "bad-request"
    | some (kind, kw, arr) =>
      match computePcKwFF kind arr kw with
      | none => "err"
      | some r => fmtPc r
  | "pcq" :: rest =>
    match run (do let kind ← str; let kw ← parsePcKw; let arr ← parseArray; pure (kind, kw, arr)) rest with
    | none => "bad-request"
    | some (kind, kw, arr) =>
      match computePcKw kind arr kw with
      | none => "err"
      | some r => fmtPc r
  | "sess" :: rest =>
    match run (do let kind ← str; let arr ← parseArray; let objs ← list parseObj; let calls ← list parseCall
                  pure (kind, arr, objs, calls)) rest with
    | none => "bad-request"
    | some (kind, arr, objs, calls) =>
      let (outs, st) := runSession kind arr objs calls
      ";".intercalate (outs.map fmtOut) ++ "#" ++ fmtList fmtObj st
  | "dec" :: rest =>
    match run (do let rows ← nat; let ncols ← nat; let td ← opt rat
                  let cells ← list (do let p ← nat; let j ← nat; let v ← int; pure (p, j, v))
                  pure (rows, ncols, td, cells)) rest with
    | none => "bad-request"
    | some (rows, ncols, td, cells) =>
      match decodeStored rows (denseCols rows ncols cells) td with
      | none => "err"
      | some notes =>
        fmtList (fun (p, on, du, v) => fmtList id [fmtInt p, fmtTime on, fmtTime du, fmtInt v]) notes
  | "dec32" :: rest =>
    -- `time_div` a numpy.float32: the quotient in binary32 (Model/PianoRollDecode32.lean)
    match run (do let rows ← nat; let ncols ← nat; let td ← rat
                  let cells ← list (do let p ← nat; let j ← nat; let v ← int; pure (p, j, v))
                  pure (rows, ncols, td, cells)) rest with
    | none => "bad-request"
    | some (rows, ncols, td, cells) =>
      match decodeStored32 rows (denseCols rows ncols cells) td with
      | none => "err"
      | some notes =>
        fmtList (fun (p, on, du, v) => fmtList id [fmtInt p, fmtTime on, fmtTime du, fmtInt v]) notes
  | "prv" :: rest =>
    -- arguments of any kind (Model/PianoRollKinds.lean)
    match run (do let kind ← str; let kw ← parsePyArgs; let arr ← parseArray; pure (kind, kw, arr)) rest with
    | none => "bad-request"
    | some (kind, kw, arr) =>
      match computePianorollPyQ kind arr kw with
      | .bad => "not-modelled"
      | .raise => "err"
      | .ok none => "err"
      | .ok (some (r, retIdx)) => fmtRoll r retIdx
  | "decq" :: rest =>
    -- real-valued roll (Model/PianoRollDecodeQ.lean)
    match run (do let rows ← nat; let ncols ← nat; let td ← opt rat
                  let cells ← list (do let p ← nat; let j ← nat; let v ← rat; pure (p, j, v))
                  pure (rows, ncols, td, cells)) rest with
    | none => "bad-request"
    | some (rows, ncols, td, cells) =>
      match decodeStoredQ rows (denseColsQ rows ncols cells) td with
      | none => "err"
      | some notes =>
        fmtList (fun (p, on, du, v) => fmtList id [fmtInt p, fmtTime on, fmtTime du, fmtInt v]) notes
  | _ => "bad-request"

def main : IO Unit := mainLoop handle
