import PartituraModel.Wire
import PartituraModel.Model.TimeMap
import PartituraModel.Model.TimeMapHist
import PartituraModel.Model.TimeMapCalls
import PartituraModel.Model.TimeMapScipy
import PartituraModel.Model.TimeMapApi

open Wire Model.TimeMap

def parseTbl : P (List ((Nat × Nat) × Nat)) :=
  list (do let b ← nat; let bt ← nat; let v ← nat; pure ((b, bt), v))

def parseOp : P Op := do
  let t ← tok
  match t with
  | "ts" => do let t ← int; let b ← nat; let bt ← nat; pure (Op.addTS t b bt)
  | "set" => do let tbl ← parseTbl; pure (Op.setMB tbl)
  | "mus" => do let tbl ← parseTbl; pure (Op.useMusical tbl)
  | "not" => pure Op.useNotated
  | _ => P.fail

/-- a call of the musical-beat API with any argument: `musx` / `setx` = the table argument is not a dict -/
def parseBOp : P BOp := fun ts => match ts with
  | "musx" :: r => some (BOp.useMusicalBad, r)
  | "setx" :: r => some (BOp.setMBBad, r)
  | _ => match parseOp ts with
    | some (op, r) => some (BOp.ok op, r)
    | none => none

/-- `<npoints> <first> <last> <nqd> (t q)* <nops> op* <m1: - | start end>` -/
def parsePart : P Part := do
  let n ← nat
  let first ← int
  let last ← int
  let qd ← list (do let t ← int; let q ← nat; pure (t, q))
  let ops ← list parseBOp
  let m1 ← opt (do let s ← int; let e ← int; pure (s, e))
  let st := (runOpsB ⟨false, []⟩ ops).1
  pure { npoints := n, first := first, last := last, qd := qd, ts := sortTS st.ts, m1 := m1,
         musical := st.musical }

/-- one step of an edit/query history -/
def parseHOp : P HOp := do
  let t ← tok
  match t with
  | "qd" => do let t ← int; let q ← nat; pure (HOp.setQD t q)
  | "ts" => do let t ← int; let b ← nat; let bt ← nat; pure (HOp.beat (Op.addTS t b bt))
  | "set" => do let tbl ← parseTbl; pure (HOp.beat (Op.setMB tbl))
  | "mus" => do let tbl ← parseTbl; pure (HOp.beat (Op.useMusical tbl))
  | "not" => pure (HOp.beat Op.useNotated)
  | "mea" => do let s ← int; let e ← int; pure (HOp.measure s e)
  | "span" => do let s ← int; let e ← int; pure (HOp.span s e)
  | "q" => pure HOp.query
  | _ => P.fail

/-- one step of a history of the extended API (round 6) -/
def parseXOp : P XOp := fun ts => match ts with
  | "musx" :: r => some (XOp.useMusicalBad, r)
  | "setx" :: r => some (XOp.setMBBad, r)
  | "meao" :: r => match int r with
    | some (s, r') => some (XOp.measureOpen s, r')
    | none => none
  | _ => match parseHOp ts with
    | some (op, r) => some (XOp.h op, r)
    | none => none

/-- `<q0: - | nat> <n> step*`: `-` = `Part(id)` without `quarter_duration` -/
def parseXHist : P (Option Nat × List XOp) := do
  let q0 ← opt nat
  let h ← list parseXOp
  pure (q0, h)

/-- argument of any shape: `S <rat>` a scalar, `L <n> item*` a sequence; `depth` bounds the nesting -/
def parseNested : Nat → P (Nested Rat)
  | 0 => do
    let t ← tok
    match t with
    | "S" => do let r ← rat; pure (Nested.leaf r)
    | _ => P.fail
  | d + 1 => do
    let t ← tok
    match t with
    | "S" => do let r ← rat; pure (Nested.leaf r)
    | "L" => do let xs ← list (parseNested d); pure (Nested.node xs)
    | _ => P.fail

def fmtVal (o : Option Rat) : String :=
  match o with
  | some r => fmtRat r
  | none => "nan"

def fmtQ (o : Option Nat) : String :=
  match o with
  | some n => fmtNat n
  | none => "nan"

mutual
  def fmtNested {α : Type} (f : α → String) : Nested α → String
    | .leaf a => f a
    | .node xs => "[" ++ ",".intercalate (fmtNestedList f xs) ++ "]"
  def fmtNestedList {α : Type} (f : α → String) : List (Nested α) → List String
    | [] => []
    | x :: xs => fmtNested f x :: fmtNestedList f xs
end

def answer (f : Part → Rat → Option Rat) (modeOf : Part → Mode) (rest : List String) : String :=
  match run (do let p ← parsePart; let xs ← list rat; pure (p, xs)) rest with
  | none => "bad-request"
  | some (p, xs) =>
    if raises p (modeOf p) then "err" else fmtList fmtVal (xs.map (f p))

/-- the same maps called on an argument of any shape -/
def answerN (f : Part → Rat → Option Rat) (modeOf : Part → Mode) (rest : List String) : String :=
  match run (do let p ← parsePart; let a ← parseNested 4; pure (p, a)) rest with
  | none => "bad-request"
  | some (p, a) =>
    if raises p (modeOf p) then "err" else fmtNested fmtVal (callMap (f p) a)

def fmtState (p : Part) : String :=
  fmtTuple [fmtNat p.npoints, fmtInt p.first, fmtInt p.last,
    fmtList (fun e => fmtTuple [fmtInt e.1, fmtNat e.2]) p.qd,
    fmtBool p.musical,
    fmtList (fun s => fmtTuple [fmtInt s.t, fmtNat s.beats, fmtNat s.beatType, fmtNat s.mb]) p.ts,
    fmtOpt (fun m => fmtTuple [fmtInt m.1, fmtInt m.2]) p.m1]

/-- `- | <rat>` -/
def parseOptRat : P (Option Rat) := opt rat

/-- an element of an argument array: `nan`, `inf`, `-inf` or a rational -/
def parseArg : P Arg := fun ts => match ts with
  | "nan" :: r => some (Arg.nan, r)
  | "inf" :: r => some (Arg.posInf, r)
  | "-inf" :: r => some (Arg.negInf, r)
  | _ => match rat ts with
    | some (x, r) => some (Arg.num x, r)
    | none => none

/-- a map on NaN / infinite / finite arguments -/
def answerA (f : Part → Arg → Option Rat) (modeOf : Part → Mode) (rest : List String) : String :=
  match run (do let p ← parsePart; let xs ← list parseArg; pure (p, xs)) rest with
  | none => "bad-request"
  | some (p, xs) => if raises p (modeOf p) then "err" else fmtList fmtVal (xs.map (f p))

/-- the four public maps on top of the interpolation stack as it is written (`Model/TimeMapScipy.lean`) -/
def beatMapS (p : Part) := fwdS p (beatMode p)
def invBeatMapS (p : Part) := invS p (beatMode p)
def quarterMapS (p : Part) := fwdS p .quarter
def invQuarterMapS (p : Part) := invS p .quarter

def handle (ts : List String) : String :=
  match ts with
  -- the maps through the wrapper / scipy / numpy models ...
  | "bm" :: rest => answer beatMapS beatMode rest
  | "ibm" :: rest => answer invBeatMapS beatMode rest
  | "qm" :: rest => answer quarterMapS (fun _ => Mode.quarter) rest
  | "iqm" :: rest => answer invQuarterMapS (fun _ => Mode.quarter) rest
  -- ... and through the recursive `interp` the theorems are stated about (C02.fwdS_eq_fwd / invS_eq_inv)
  | "nbm" :: rest => answerN beatMap beatMode rest
  | "nibm" :: rest => answerN invBeatMap beatMode rest
  | "nqm" :: rest => answerN quarterMap (fun _ => Mode.quarter) rest
  | "niqm" :: rest => answerN invQuarterMap (fun _ => Mode.quarter) rest
  | "rt" :: which :: rest =>
    -- inv(fwd(x)) as the code computes it, at key points (the ends of the image included) and between
    match run (do let p ← parsePart; let xs ← list rat; pure (p, xs)) rest with
    | none => "bad-request"
    | some (p, xs) =>
      let m := if which = "qm" then Mode.quarter else beatMode p
      if raises p m then "err" else fmtList fmtVal (xs.map (roundTripS p m))
  | "lin" :: rest =>
    -- partitura.utils.generic.interp1d called directly:
    -- `<np 0|1> <kind l|p> <fill below: -|rat> <fill above: -|rat> <n> (x y)* <m> x_new*`
    match run (do
        let np ← nat; let k ← tok; let fb ← parseOptRat; let fa ← parseOptRat
        let ks ← list (do let x ← rat; let y ← rat; pure (x, y)); let xs ← list parseArg
        pure (np, k, fb, fa, ks, xs)) rest with
    | none => "bad-request"
    | some (np, k, fb, fa, ks, xs) =>
      let o : Opts := { kind := if k = "p" then .previous else .linear, fillBelow := fb, fillAbove := fa, npPath := np != 0 }
      fmtList fmtVal (xs.map (genericInterp1dArg o ks))
  | "abm" :: rest => answerA (fun p => fwdSArg p (beatMode p)) beatMode rest
  | "aibm" :: rest => answerA (fun p => invSArg p (beatMode p)) beatMode rest
  | "aqm" :: rest => answerA (fun p => fwdSArg p .quarter) (fun _ => Mode.quarter) rest
  | "aiqm" :: rest => answerA (fun p => invSArg p .quarter) (fun _ => Mode.quarter) rest
  | "aqdm" :: rest =>
    match run (do let p ← parsePart; let xs ← list parseArg; pure (p, xs)) rest with
    | none => "bad-request"
    | some (p, xs) => fmtList fmtVal (xs.map (qdMapSArg p.qd))
  | "knots" :: which :: rest =>
    -- the knot arrays (x, y) the interpolator is built from
    match run parsePart rest with
    | none => "bad-request"
    | some p =>
      let m := if which = "qm" then Mode.quarter else beatMode p
      if raises p m then "err"
      else if p.npoints < 2 then "none"
      else fmtList (fun k => fmtTuple [fmtRat k.1, fmtRat k.2]) (finalKnotsS p m)
  | "qds" :: rest =>
    -- Part.quarter_durations(start, end)
    match run (do let p ← parsePart; let a ← parseOptRat; let b ← parseOptRat; pure (p, a, b)) rest with
    | none => "bad-request"
    | some (p, a, b) => fmtList (fun e => fmtTuple [fmtInt e.1, fmtNat e.2]) (qdRange p.qd a b)
  | "qdm" :: rest =>
    match run (do let p ← parsePart; let xs ← list rat; pure (p, xs)) rest with
    | none => "bad-request"
    | some (p, xs) => fmtList fmtVal (xs.map (qdMapS p.qd))
  | "nqdm" :: rest =>
    match run (do let p ← parsePart; let a ← parseNested 4; pure (p, a)) rest with
    | none => "bad-request"
    | some (p, a) => fmtNested fmtQ (callQD p.qd a)
  | "mbs" :: rest =>
    -- the musical beats stored on every signature after the op history, in timeline order
    match run (list parseBOp) rest with
    | none => "bad-request"
    | some ops =>
      let st := (runOpsB ⟨false, []⟩ ops).1
      fmtTuple [fmtBool st.musical, fmtList (fun s => fmtTuple [fmtInt s.t, fmtNat s.beats, fmtNat s.beatType, fmtNat s.mb]) (sortTS st.ts)]
  | "hist" :: rest =>
    -- the state `_time_interpolator` reads after an edit/query history, computed by the model alone
    match run parseXHist rest with
    | none => "bad-request"
    | some (q0, h) => fmtState (xbuildPart q0 h)
  | "raised" :: rest =>
    -- which calls of the history raised (a table argument that is not a dict)
    match run parseXHist rest with
    | none => "bad-request"
    | some (q0, h) => fmtList fmtBool (xraised (xinit q0) h)
  | "hmap" :: which :: rest =>
    -- a map of the part the MODEL builds from the history (nothing read off the real object)
    match run (do let qh ← parseXHist; let xs ← list rat; pure (qh.1, qh.2, xs)) rest with
    | none => "bad-request"
    | some (q0, h, xs) =>
      let p := xbuildPart q0 h
      match which with
      | "bm" => if raises p (beatMode p) then "err" else fmtList fmtVal (xs.map (beatMap p))
      | "qm" => fmtList fmtVal (xs.map (quarterMap p))
      | "ibm" => if raises p (beatMode p) then "err" else fmtList fmtVal (xs.map (invBeatMap p))
      | "iqm" => fmtList fmtVal (xs.map (invQuarterMap p))
      | "qdm" => fmtList fmtQ (xs.map (qdMap p.qd))
      | _ => "bad-request"
  | "qdh" :: rest =>
    -- a call history of set_quarter_duration (any order of times): the stored lists the model's list surgery
    -- leaves, and the SPECIFICATION (last recorded call among those with the greatest time ≤ x) at every x
    match run (do let q0 ← nat; let cs ← list (do let t ← int; let q ← nat; pure (t, q)); let xs ← list rat; pure (q0, cs, xs)) rest with
    | none => "bad-request"
    | some (q0, cs, xs) =>
      fmtTuple [fmtList (fun e => fmtTuple [fmtInt e.1, fmtNat e.2]) (qdTable q0 cs),
                fmtList fmtQ (xs.map (inForce (recorded q0 cs)))]
  | "diff" :: which :: rest =>
    -- map of part 1 minus map of part 2 at common positions (score level)
    match run (do let p1 ← parsePart; let p2 ← parsePart; let xs ← list rat; pure (p1, p2, xs)) rest with
    | none => "bad-request"
    | some (p1, p2, xs) =>
      let m := if which = "q" then Mode.quarter else beatMode p1
      if raises p1 m || raises p2 m then "err" else fmtList fmtVal (xs.map (mapDiff p1 p2 m))
  | _ => "bad-request"

def main : IO Unit := mainLoop handle
