import PartituraModel.Wire
import PartituraModel.Model.TimeMap

open Wire Model.TimeMap

def parseTbl : P (List ((Nat × Nat) × Nat)) :=
  list (do let b ← nat; let bt ← nat; let v ← nat; pure ((b, bt), v))

def parseOp : P Op := do
  let t ← tok
  match t with
  | "ts" => do let t ← int; let b ← nat; let bt ← nat; pure (Op.addTS t b bt)
  | "set" => do let tbl ← parseTbl; pure (Op.setMB tbl)
  | "mus" => do let tbl ← parseTbl; pure (Op.useMusical tbl)
  | "not" => pure Op.useNotated
  | _ => P.fail

/-- `<npoints> <first> <last> <nqd> (t q)* <nops> op* <m1: - | start end>` -/
def parsePart : P Part := do
  let n ← nat
  let first ← int
  let last ← int
  let qd ← list (do let t ← int; let q ← nat; pure (t, q))
  let ops ← list parseOp
  let m1 ← opt (do let s ← int; let e ← int; pure (s, e))
  let st := runOps ops
  pure { npoints := n, first := first, last := last, qd := qd, ts := sortTS st.ts, m1 := m1,
         musical := st.musical }

def fmtVal (o : Option Rat) : String :=
  match o with
  | some r => fmtRat r
  | none => "nan"

def answer (f : Part → Rat → Option Rat) (modeOf : Part → Mode) (rest : List String) : String :=
  match run (do let p ← parsePart; let xs ← list rat; pure (p, xs)) rest with
  | none => "bad-request"
  | some (p, xs) =>
    if raises p (modeOf p) then "err" else fmtList fmtVal (xs.map (f p))

def handle (ts : List String) : String :=
  match ts with
  | "bm" :: rest => answer beatMap beatMode rest
  | "ibm" :: rest => answer invBeatMap beatMode rest
  | "qm" :: rest => answer quarterMap (fun _ => Mode.quarter) rest
  | "iqm" :: rest => answer invQuarterMap (fun _ => Mode.quarter) rest
  | "qdm" :: rest =>
    match run (do let p ← parsePart; let xs ← list rat; pure (p, xs)) rest with
    | none => "bad-request"
    | some (p, xs) =>
      fmtList (fun o => match o with | some (n : Nat) => fmtNat n | none => "nan") (xs.map (qdMap p.qd))
  | "mbs" :: rest =>
    -- the musical beats stored on every signature after the op history, in timeline order
    match run (list parseOp) rest with
    | none => "bad-request"
    | some ops =>
      let st := runOps ops
      fmtTuple [fmtBool st.musical, fmtList (fun s => fmtTuple [fmtInt s.t, fmtNat s.beats, fmtNat s.beatType, fmtNat s.mb]) (sortTS st.ts)]
  | _ => "bad-request"

def main : IO Unit := mainLoop handle
