import PartituraModel.Wire
import PartituraModel.Model.ScoreMidi
import PartituraModel.Model.ScoreMidiSpec
import PartituraModel.Model.ScoreMidiImportSpec
import PartituraModel.Model.MidiObject
import PartituraModel.Model.ScoreEdit
import PartituraModel.Model.ScoreMidiDefaults
import PartituraModel.Model.ScoreMidiTies

open Wire Model Model.Ticks Model.MidiPair Model.MidiModes Model.ScoreMidi Model.MidiObject Model.ScoreEdit

def orErr (o : Option String) : String := o.getD "err"

def pPair {α β : Type} (a : P α) (b : P β) : P (α × β) := do
  let x ← a
  let y ← b
  pure (x, y)

def pAnac : P Anacrusis := do
  let t ← tok
  match t with
  | "shift" => pure .shift
  | "pad_bar" => pure .padBar
  | "time_sig_change" => pure .timeSigChange
  | _ => P.fail

def pBase : P TimeBase := do
  let d0 ← nat
  let qd ← list (pPair nat nat)
  let first ← nat
  let last ← nat
  let m1 ← opt (pPair nat nat)
  let ts ← list (do let t ← nat; let b ← nat; let bt ← nat; pure (t, b, bt))
  pure ⟨d0, qd, first, last, m1, ts⟩

def pPart : P PartIn := do
  let g ← nat
  let base ← pBase
  let tempos ← list (pPair nat nat)
  let ks ← list (pPair nat str)
  let ms ← list (pPair nat nat)
  let notes ← list (do let s ← nat; let d ← nat; let p ← nat; let v ← opt int; pure (s, d, p, v))
  pure ⟨g, base, tempos, ks, ms, notes⟩

def pSrc : P PartSrc := do
  let g ← nat
  let base ← pBase
  let tempos ← list (pPair nat nat)
  let ks ← list (pPair nat str)
  let ms ← list (pPair nat nat)
  let notes ← list (do let s ← nat; let d ← nat; let p ← nat; let tp ← bool; let tn ← opt nat; let v ← opt int
                       pure ((⟨s, d, p, tp, tn⟩ : ScoreNote), v))
  pure ⟨g, base, tempos, ks, ms, notes.map (·.1), notes.map (·.2)⟩

def pMsg : P Msg := do
  let t ← tok
  match t with
  | "T" => do let m ← nat; pure (.tempo m)
  | "S" => do let n ← int; let d ← int; pure (.timeSig n d)
  | "K" => do let k ← str; pure (.keySig k)
  | "N" => do let c ← nat; let p ← nat; let v ← nat; pure (.noteOn c p v)
  | "F" => do let c ← nat; let p ← nat; let v ← nat; pure (.noteOff c p v)
  | "X" => pure .other
  | _ => P.fail

def pTrack : P (List (Int × Msg)) := list (pPair int pMsg)

def fmtMsg : Msg → String
  | .tempo m => s!"T{m}"
  | .timeSig n d => s!"S{n}/{d}"
  | .keySig k => s!"K{k}"
  | .noteOn c p v => s!"N{c}.{p}.{v}"
  | .noteOff c p v => s!"F{c}.{p}.{v}"
  | .other => "X"

def fmtEv (e : Int × Msg) : String := s!"{e.1}:{fmtMsg e.2}"

def fmtTracks (ts : List (List (Int × Msg))) : String := fmtList (fmtList fmtEv) ts

def ltRec (a b : NoteRec) : Bool :=
  a.on < b.on || (a.on == b.on && (a.pitch < b.pitch || (a.pitch == b.pitch &&
    (a.off < b.off || (a.off == b.off && (a.ch < b.ch || (a.ch == b.ch && a.vel < b.vel)))))))

def insRec (x : NoteRec) : List NoteRec → List NoteRec
  | [] => [x]
  | a :: as => if ltRec x a then x :: a :: as else a :: insRec x as

def fmtRec (n : NoteRec) : String := fmtTuple [fmtInt n.on, fmtInt n.off, fmtNat n.pitch, fmtNat n.ch, fmtNat n.vel]

def ltNote (a b : Int × Nat × Int × Int) : Bool :=
  a.1 < b.1 || (a.1 == b.1 && (a.2.1 < b.2.1 || (a.2.1 == b.2.1 &&
    (a.2.2.1 < b.2.2.1 || (a.2.2.1 == b.2.2.1 && a.2.2.2 < b.2.2.2)))))

def insNote (x : Int × Nat × Int × Int) : List (Int × Nat × Int × Int) → List (Int × Nat × Int × Int)
  | [] => [x]
  | a :: as => if ltNote x a then x :: a :: as else a :: insNote x as

def fmtPartOut (e : Nat × PartOut) : String :=
  let p := e.2
  fmtTuple [fmtNat e.1, fmtOpt fmtNat p.group, fmtNat p.divs,
    fmtList (fun n => fmtTuple [fmtInt n.1, fmtNat n.2.1, fmtInt n.2.2.1, fmtInt n.2.2.2]) (p.notes.foldr insNote []),
    fmtList (fun t => fmtTuple [fmtInt t.1, fmtInt t.2.1, fmtInt t.2.2]) p.timeSigs,
    fmtList (fun k => fmtTuple [fmtInt k.1, k.2]) p.keySigs]

def pKey : P Key := do
  let g ← nat
  let p ← nat
  let v ← opt int
  pure (g, p, v)

def fmtO3 (x : Option Nat × Option Nat × Option Nat) : String :=
  fmtTuple [fmtOpt fmtNat x.1, fmtOpt fmtNat x.2.1, fmtOpt fmtNat x.2.2]

def insOpt (x : Option Nat) : List (Option Nat) → List (Option Nat)
  | [] => [x]
  | a :: as =>
    let lt : Bool := match x, a with
      | none, some _ => true
      | some u, some v => u < v
      | _, _ => false
    if lt then x :: a :: as else a :: insOpt x as

def insTempo (x : Int × Nat) : List (Int × Nat) → List (Int × Nat)
  | [] => [x]
  | a :: as => if x.1 < a.1 || (x.1 == a.1 && x.2 < a.2) then x :: a :: as else a :: insTempo x as

def insEvS (x : Int × String) : List (Int × String) → List (Int × String)
  | [] => [x]
  | a :: as => if x.1 < a.1 || (x.1 == a.1 && x.2 < a.2) then x :: a :: as else a :: insEvS x as

/-- events sorted by tick, then by their text -/
def fmtEvsSorted (l : List (Int × Msg)) : String :=
  fmtList (fun e : Int × String => s!"{e.1}:{e.2}") ((l.map fun e => (e.1, fmtMsg e.2)).foldr insEvS [])

def ltRow (a b : Rat × Rat × Nat) : Bool :=
  a.1 < b.1 || (a.1 == b.1 && (a.2.1 < b.2.1 || (a.2.1 == b.2.1 && a.2.2 < b.2.2)))

def insRow (x : Rat × Rat × Nat) : List (Rat × Rat × Nat) → List (Rat × Rat × Nat)
  | [] => [x]
  | a :: as => if ltRow x a then x :: a :: as else a :: insRow x as

def fmtRows (l : List (Rat × Rat × Nat)) : String :=
  fmtList (fun r => fmtTuple [fmtRat r.1, fmtRat r.2.1, fmtNat r.2.2]) (l.foldr insRow [])

abbrev CellRow := (Int × Nat × Int) × (Option Nat × Int)

def ltCell (a b : CellRow) : Bool :=
  let ka := (a.1.1, (a.1.2.1 : Int), a.1.2.2, (match a.2.1 with | some p => (p : Int) | none => -1), a.2.2)
  let kb := (b.1.1, (b.1.2.1 : Int), b.1.2.2, (match b.2.1 with | some p => (p : Int) | none => -1), b.2.2)
  ka.1 < kb.1 || (ka.1 == kb.1 && (ka.2.1 < kb.2.1 || (ka.2.1 == kb.2.1 && (ka.2.2.1 < kb.2.2.1 || (ka.2.2.1 == kb.2.2.1 &&
    (ka.2.2.2.1 < kb.2.2.2.1 || (ka.2.2.2.1 == kb.2.2.2.1 && ka.2.2.2.2 < kb.2.2.2.2)))))))

def insCell (x : CellRow) : List CellRow → List CellRow
  | [] => [x]
  | a :: as => if ltCell x a then x :: a :: as else a :: insCell x as

def fmtCells (l : List CellRow) : String :=
  fmtList (fun r : CellRow => fmtTuple [fmtInt r.1.1, fmtNat r.1.2.1, fmtInt r.1.2.2, fmtOpt fmtNat r.2.1, fmtInt r.2.2])
    (l.foldr insCell [])

/-- the vocabulary of the theorems (Model/ScoreMidiSpec.lean), not the model of the exporter: what every track
    must hold (notes routed to it, key / time signature and tempo events) and the notes in musical time -/
def specText (cells : Bool) (mode : Nat) (a : Anacrusis) (mn vel : Nat) (ps : List PartIn) : Option String :=
  (origin a (ps.map (·.base))).bind fun o =>
  (mapToTrackChannel mode (noteKeys ps)).bind fun tcs =>
  (maxList (tcs.map (·.1))).map fun m =>
    let p := exportPpq ps mn
    let ktc := (noteKeys ps).zip tcs
    let trs := List.range (m + 1)
    let tsPart := if a = .timeSigChange then "-" else fmtList (fun tr => fmtEvsSorted (trackTS a p o ktc ps tr)) trs
    -- the (part, voice) every note must come back in (`writtenCells` of roundtrip_cells)
    let cellPart := if cells then fmtCells (writtenCells mode p o ktc ps) else "-"
    s!"{fmtRat o}|{fmtList (fun tr => fmtList fmtRec ((routedTo p o vel ktc ps tr).foldr insRec [])) trs}|{fmtList (fun tr => fmtEvsSorted (trackKS p o ktc ps tr)) trs}|{tsPart}|{fmtList (fun tr => fmtEvsSorted (trackTempo p o ps tr)) trs}|{fmtRows (scoreRows ps)}|{cellPart}"

/-- the vocabulary of the theorems about the signatures after the round trip (Model/ScoreMidiImportSpec.lean,
    `import_signatures_spec`), from the SCORE alone: the part numbers import mode `imode` hands out and, per part, the
    key signatures (and, `withTS`, the time signatures) it must get -/
def impSpecText (withTS : Bool) (imode mode : Nat) (a : Anacrusis) (mn : Nat) (ps : List PartIn) : Option String :=
  (origin a (ps.map (·.base))).bind fun o =>
  (mapToTrackChannel mode (noteKeys ps)).map fun tcs =>
    let p := exportPpq ps mn
    let ktc := (noteKeys ps).zip tcs
    fmtList (fun q : Option Nat =>
      match q with
      | none => "None"
      | some pid =>
        fmtTuple [fmtNat pid,
          fmtList (fun k : Int × String => fmtTuple [fmtInt k.1, k.2]) (specImportedKS imode p o ktc ps pid),
          if withTS then
            fmtList (fun t : Int × Int × Int => fmtTuple [fmtInt t.1, fmtInt t.2.1, fmtInt t.2.2]) (specImportedTS a imode p o ktc ps pid)
          else "-"])
      (importedPartIds imode tcs)

def impText (r : Imported) : String :=
  s!"{fmtList fmtPartOut r.parts}|{fmtList (fun t => fmtTuple [fmtInt t.1, fmtNat t.2]) (r.tempos.foldr insTempo [])}"

def perfText (trs : List (List (Int × Msg))) : String :=
  fmtList (fun tr => fmtList fmtRec ((pairTrack tr).foldr insRec [])) trs

def pOp : P ReadOp := do
  let t ← tok
  match t with
  | "I" => do let m ← nat; pure (.imp m)
  | "P" => pure .perf
  | "S" => pure .save
  | "M" => pure .iter
  | _ => P.fail

def objText (f : MidiObj) : String := s!"{f.ticks}|{fmtTracks f.tracks}"

def outText : ReadOut → String
  | .imported r => orErr (r.map impText)
  | .performed r => fmtList (fun ns => fmtList fmtRec (ns.foldr insRec [])) r
  | .saved f => objText f
  | .messages abs => fmtTracks abs

def pEdit : P Edit := do
  let t ← tok
  match t with
  | "Q" => do let i ← nat; let t ← nat; let q ← nat; pure (.setQd i t q)
  | "A" => do let i ← nat; let s ← nat; let d ← nat; let p ← nat; let v ← opt int; pure (.addNote i (s, d, p, v))
  | "R" => do let i ← nat; let k ← nat; pure (.removeNote i k)
  | "T" => do let i ← nat; let t ← nat; let b ← nat; let bt ← nat; pure (.setTS i t b bt)
  | _ => P.fail

def handle (ts : List String) : String :=
  match ts with
  | "edit" :: rest =>
    -- a score object that was edited after it had been read: the parts as they were BEFORE the edits, the edits;
    -- answers the export of the edited score and the theorems' vocabulary for it (as `expspec 0`)
    orErr <| (run (do let mode ← nat; let a ← pAnac; let mn ← nat; let vel ← nat; let ps ← list pPart; let es ← list pEdit
                      pure (mode, a, mn, vel, ps, es)) rest).bind fun (mode, a, mn, vel, ps, es) =>
      let ps' := es.foldl applyEdit ps
      (saveScoreMidi mode a mn vel ps').map fun e =>
        s!"{e.ppq}|{fmtTracks e.tracks}|{fmtTracks (e.tracks.map (deltasFrom 0))}#{orErr (specText false mode a mn vel ps')}"
  | "hist" :: rest =>
    -- a history of uses of one MidiFile object: ticks per quarter, delta-time tracks, the uses; answers the result
    -- of every use in order, then the object as it is at the end
    orErr <| (run (do let ticks ← nat; let trs ← list pTrack; let ops ← list pOp; pure (ticks, trs, ops)) rest).map
      fun (ticks, trs, ops) =>
        let r := runHistory ⟨ticks, trs⟩ ops
        "#".intercalate (r.2.map outText ++ [objText r.1])
  | "dom" :: rest =>
    -- the property's domain on the score (`ScoreNoOverlap`, hypothesis of property_C04), decided for one mode
    orErr <| (run (do let mode ← nat; let ps ← list pPart; pure (mode, ps)) rest).map fun (mode, ps) =>
      if scoreNoOverlapB mode ps then "1" else "0"
  | "expdef" :: rest =>
    -- `save_score_midi(parts, out)`: every optional argument omitted (defaults regenerated from the signature)
    orErr <| (run (list pPart) rest).bind fun ps =>
      (saveScoreMidiDefault ps).map fun e =>
        s!"{e.ppq}|{fmtTracks e.tracks}|{fmtTracks (e.tracks.map (deltasFrom 0))}"
  | "impdef" :: rest =>
    -- `load_score_midi(file)`: the mode omitted
    orErr <| (run (do let ticks ← nat; let trs ← list pTrack; pure (ticks, trs)) rest).bind fun (ticks, trs) =>
      (loadScoreMidiDefault ticks trs).map impText
  | "exp" :: rest =>
    orErr <| (run (do let mode ← nat; let a ← pAnac; let mn ← nat; let vel ← nat; let ps ← list pPart
                      pure (mode, a, mn, vel, ps)) rest).bind fun (mode, a, mn, vel, ps) =>
      (saveScoreMidi mode a mn vel ps).map fun e =>
        s!"{e.ppq}|{fmtTracks e.tracks}|{fmtTracks (e.tracks.map (deltasFrom 0))}"
  | "exps" :: rest =>
    -- the same from the note objects: tie chains merged by the model
    orErr <| (run (do let mode ← nat; let a ← pAnac; let mn ← nat; let vel ← nat; let ps ← list pSrc
                      pure (mode, a, mn, vel, ps)) rest).bind fun (mode, a, mn, vel, ps) =>
      (saveScore mode a mn vel ps).map fun e =>
        s!"{e.ppq}|{fmtTracks e.tracks}|{fmtTracks (e.tracks.map (deltasFrom 0))}"
  | "spec" :: rest =>
    orErr <| (run (do let fl ← nat; let mode ← nat; let a ← pAnac; let mn ← nat; let vel ← nat; let ps ← list pPart
                      pure (fl, mode, a, mn, vel, ps)) rest).bind fun (fl, mode, a, mn, vel, ps) => specText (fl = 1) mode a mn vel ps
  | "expspec" :: rest =>
    -- one request for both: the model of the exporter, then the theorems' vocabulary (flag 1: with the cells)
    orErr <| (run (do let fl ← nat; let mode ← nat; let a ← pAnac; let mn ← nat; let vel ← nat; let ps ← list pPart
                      pure (fl, mode, a, mn, vel, ps)) rest).bind fun (fl, mode, a, mn, vel, ps) =>
      (saveScoreMidi mode a mn vel ps).map fun e =>
        -- flag bits: 1 = with the cells, 2 = then the signatures of the same-mode import (4 = with its time signatures)
        let tail := if fl / 2 % 2 = 1 then "#" ++ orErr (impSpecText (fl / 4 % 2 = 1) mode mode a mn ps) else ""
        s!"{e.ppq}|{fmtTracks e.tracks}|{fmtTracks (e.tracks.map (deltasFrom 0))}#{orErr (specText (fl % 2 = 1) mode a mn vel ps)}{tail}"
  | "impspec" :: rest =>
    -- the signatures an import in mode `imode` of the export in mode `mode` must give (flag 1: with time signatures)
    orErr <| (run (do let fl ← nat; let imode ← nat; let mode ← nat; let a ← pAnac; let mn ← nat; let ps ← list pPart
                      pure (fl, imode, mode, a, mn, ps)) rest).bind fun (fl, imode, mode, a, mn, ps) =>
      impSpecText (fl = 1) imode mode a mn ps
  | "rows" :: rest =>
    -- the notes of an import in musical time (`importedRows`): origin, mode, ticks, tracks
    orErr <| (run (do let o ← rat; let mode ← nat; let ticks ← nat; let trs ← list pTrack; pure (o, mode, ticks, trs)) rest).bind
      fun (o, mode, ticks, trs) => (loadScoreMidi mode ticks trs).map fun r => fmtRows (importedRows o r)
  | "imp" :: rest =>
    orErr <| (run (do let mode ← nat; let ticks ← nat; let trs ← list pTrack; pure (mode, ticks, trs)) rest).bind fun (mode, ticks, trs) =>
      (loadScoreMidi mode ticks trs).map impText
  | "perf" :: rest =>
    orErr <| (run (list pTrack) rest).map perfText
  | "rt" :: rest =>
    -- one request for the readers of one file: flags 1 = performance reader, 2 = score importer, 4 = its notes in
    -- musical time; origin, mode, ticks per quarter, tracks
    orErr <| (run (do let fl ← nat; let o ← rat; let mode ← nat; let ticks ← nat; let trs ← list pTrack
                      pure (fl, o, mode, ticks, trs)) rest).map fun (fl, o, mode, ticks, trs) =>
      let imp := if fl / 2 % 2 = 1 || fl / 4 % 2 = 1 then loadScoreMidi mode ticks trs else none
      "#".intercalate ((if fl % 2 = 1 then [perfText trs] else []) ++
        (if fl / 2 % 2 = 1 then [orErr (imp.map impText)] else []) ++
        (if fl / 4 % 2 = 1 then [orErr (imp.map fun r => fmtRows (importedRows o r))] else []))
  | "ppq" :: rest =>
    orErr <| (run (do let mn ← nat; let ds ← list nat; pure (mn, ds)) rest).bind fun (mn, ds) =>
      if ds.any (· = 0) || ds.isEmpty then none else some (fmtNat (ppq ds mn))
  | "mtc" :: rest =>
    orErr <| (run (do let mode ← nat; let ks ← list pKey; pure (mode, ks)) rest).bind fun (mode, ks) =>
      (mapToTrackChannel mode ks).map fun r => fmtList (fun x => fmtTuple [fmtNat x.1, fmtNat x.2]) r
  | "agpv" :: rest =>
    orErr <| (run (do let mode ← nat; let tc ← list (pPair nat nat); pure (mode, tc)) rest).map fun (mode, tc) =>
      s!"{fmtList fmtO3 (assignGroupPartVoice mode tc)}|{fmtList (fun tr => fmtList (fmtOpt fmtNat) ((trackToParts tc (assignGroupPartVoice mode tc) tr).foldr insOpt [])) (ScoreMidi.firstSeen (tc.map (·.1)))}"
  | "tied" :: rest =>
    orErr <| (run (list (do let s ← nat; let d ← nat; let p ← nat; let tp ← bool; let tn ← opt nat
                            pure (⟨s, d, p, tp, tn⟩ : ScoreNote))) rest).map fun ns =>
      fmtList (fun r => fmtTuple [fmtNat r.1, fmtNat r.2.1, fmtNat r.2.2]) (notesTied ns)
  | "tiedend" :: rest =>
    -- per chain head (start, duration_tied, end_tied.t, pitch): the end of the LAST member next to the summed duration
    orErr <| (run (list (do let s ← nat; let d ← nat; let p ← nat; let tp ← bool; let tn ← opt nat
                            pure (⟨s, d, p, tp, tn⟩ : ScoreNote))) rest).map fun ns =>
      fmtList (fun r => fmtTuple [fmtNat r.1, fmtNat r.2.1, fmtNat r.2.2.1, fmtNat r.2.2.2]) (Model.ScoreMidiTies.tiedEnds ns)
  | "tick" :: rest =>
    -- ppq, origin, base, time -> exact image and the written tick
    orErr <| (run (do let p ← nat; let o ← rat; let b ← pBase; let t ← nat; pure (p, o, b, t)) rest).map
      fun (p, o, b, t) => s!"{fmtRat (toTick p b o t)}|{fmtInt (tick p b o t)}|{fmtRat (quarter b t)}"
  | _ => "bad-request"

def main : IO Unit := mainLoop handle
