import PartituraModel.Wire
import PartituraModel.Model.StepMap
import PartituraModel.Model.StepMapPart
import PartituraModel.Model.StepMapNotes
import PartituraModel.Model.StepMapHist
import PartituraModel.Model.StepMapCalls

open Wire Model Model.StepMap

/-
Requests (one line each; `SPAN` = `-` | `first last`; lists are count-prefixed):
  ks   SPAN  n (t fifths mode)*                          k x*
  clef SPAN  n (t staff sign line|- oc|-)*  m staff*       k x*
The measure maps take the part description (round 2; the float `divs_per_beat` is no longer an input)
(`PART` = npoints SPAN  nqd (t q)*  nts (t beats beat_type musical_beats)*  musical  nms (s e num|-)*):
  tsE  PART k x*        time_signature_map with the stored musical beats
  dpb  PART             (beats_per_bar, divs_per_beat) of the pickup rule, `nan` = NaN
  mmP  PART k x*        measure_map
  mnP  PART k x*        measure_number_map
  mpP  PART k x*        metrical_position_map
  sorted k t*           are the start times in non-decreasing order (what the table builders need of iter_all)
  na KIND PART  nks (t fifths mode)*  ks ts mp  n (idx onset pitch)*
                        KIND = note | rest; ks ts mp = the include_* flags; the note list in the order handed in;
                        answer: one tuple per row of the array (idx, onset_div, pitch, then the cells of the
                        columns present: ks_fifths ks_mode | ts_beats ts_beat_type ts_mus_beats |
                        is_downbeat rel_onset_div tot_measure_div)
  cols ENTRY ks ts mp   ENTRY = note_list | rest_list | note_part | rest_part: the names of the columns the three maps
                        add to the array, in dtype order (table regenerated from the live functions)
  hist q0 n OP*         the part an edit history leaves (Model/StepMapHist.lean), OP =
                          new id t KIND mb|-   KIND = ts b bt | ks f mode | clef staff sign line|- oc|- | ms e num|-
                                                      | other e|- staff|-
                          readd id | remove id | mus k (b bt v)* | not | setmb k (b bt v)* | qd t q | q
                        answer: npoints SPAN qd ts musical ms ks clefs staffs (the state the maps read)
  cts PART ARG | cks SPAN KSS ARG | cclef SPAN CLEFS OTHERS ARG | cmm PART ARG | cmn PART ARG | cmp PART ARG
                        one CALL of a map with an argument of a given kind (Model/StepMapCalls.lean),
                        ARG = s x (a scalar) | v k x* (a list / tuple / 1-d array, possibly empty);
                        answer: one row for a scalar, a list of rows for a sequence
Responses: a list with one entry per queried position, or `err` when the map raises.
-/

def pSpan : P Span := fun ts => match ts with
  | "-" :: rest => some (none, rest)
  | _ => (do let a ← int; let b ← int; pure (some (a, b))) ts

def pMode : P Mode := do
  let t ← str
  match modeOfString t with
  | some m => pure m
  | none => P.fail

def pKss : P (List (Int × Int × Mode)) :=
  list (do let t ← int; let f ← int; let m ← pMode; pure (t, f, m))

def pClefs : P (List RawClef) :=
  list (do let t ← int; let st ← int; let sg ← str; let ln ← opt int; let oc ← opt int; pure (t, st, sg, ln, oc))

def pMsN : P (List (Int × Int × Option Int)) :=
  list (do let s ← int; let e ← int; let n ← opt int; pure (s, e, n))

def pPart : P PartD := do
  let n ← nat
  let sp ← pSpan
  let qd ← list (do let t ← int; let q ← nat; pure (t, q))
  let ts ← list (do let t ← int; let b ← nat; let bt ← nat; let mb ← nat; pure (⟨t, b, bt, mb⟩ : TimeMap.TSig))
  let mus ← bool
  let ms ← pMsN
  pure { npoints := n, span := sp, qd := qd, ts := ts, musical := mus, ms := ms }

def fmtORat : Option Rat → String
  | some r => fmtRat r
  | none => "nan"

def nanTuple (n : Nat) : String := fmtTuple (List.replicate n "nan")

def fmtTS : Option TSv → String
  | some (b, bt, mb) => fmtTuple [fmtNat b, fmtNat bt, fmtNat mb]
  | none => nanTuple 3

def fmtKS : Option KSv → String
  | some (f, m) => fmtTuple [fmtInt f, fmtInt m]
  | none => nanTuple 2

def fmtClef : Option ClefV → String
  | some (s, c, l, o) => fmtTuple [fmtInt s, fmtInt c, fmtInt l, fmtInt o]
  | none => "nan"

def fmtOInt : Option Int → String
  | some i => fmtInt i
  | none => "nan"

def fmtMM : Option (Int × Int) → String
  | some (s, e) => fmtTuple [fmtInt s, fmtInt e]
  | none => "nan"

def fmtColRow (r : ColRow) : String :=
  fmtTuple ([fmtNat r.idx, fmtInt r.onset, fmtInt r.pitch]
    ++ (match r.ks with | some (a, b) => [fmtInt a, fmtInt b] | none => [])
    ++ (match r.ts with | some (a, b, c) => [fmtInt a, fmtInt b, fmtInt c] | none => [])
    ++ (match r.mp with | some (a, b, c) => [fmtInt a, fmtInt b, fmtOInt c] | none => []))

def pTbl : P (List ((Nat × Nat) × Nat)) :=
  list (do let b ← nat; let bt ← nat; let v ← nat; pure ((b, bt), v))

def pKind : P EKind := do
  let tag ← tok
  match tag with
  | "ts" => do let b ← nat; let bt ← nat; pure (.ts b bt)
  | "ks" => do let f ← int; let m ← pMode; pure (.ks f m)
  | "clef" => do let st ← int; let sg ← str; let ln ← opt int; let oc ← opt int; pure (.clef st sg ln oc)
  | "ms" => do let e ← int; let n ← opt int; pure (.measure e n)
  | "other" => do let e ← opt int; let st ← opt int; pure (.other e st)
  | _ => P.fail

def pHistOp : P HistOp := do
  let tag ← tok
  match tag with
  | "new" => do let id ← nat; let t ← int; let k ← pKind; let mb ← opt nat; pure (.new id t k mb)
  | "readd" => do let id ← nat; pure (.readd id)
  | "remove" => do let id ← nat; pure (.remove id)
  | "mus" => do let tbl ← pTbl; pure (.useMusical tbl)
  | "not" => pure .useNotated
  | "setmb" => do let tbl ← pTbl; pure (.setMB tbl)
  | "qd" => do let t ← int; let q ← nat; pure (.setQD t q)
  | "q" => pure .query
  | _ => P.fail

def fmtMode : Mode → String
  | .major => "major"
  | .minor => "minor"

def fmtSpan : Span → String
  | none => "-"
  | some (a, b) => fmtTuple [fmtInt a, fmtInt b]

def insertInt (k : Int) : List Int → List Int
  | [] => [k]
  | a :: l => if k ≤ a then k :: a :: l else a :: insertInt k l

def fmtDescribed (d : Described) : String :=
  " ".intercalate [
    fmtNat d.part.npoints, fmtSpan d.part.span,
    fmtList (fun e => fmtTuple [fmtInt e.1, fmtNat e.2]) d.part.qd,
    fmtList (fun (s : TimeMap.TSig) => fmtTuple [fmtInt s.t, fmtNat s.beats, fmtNat s.beatType, fmtNat s.mb]) d.part.ts,
    fmtBool d.part.musical,
    fmtList (fun m => fmtTuple [fmtInt m.1, fmtInt m.2.1, fmtOpt fmtInt m.2.2]) d.part.ms,
    fmtList (fun e => fmtTuple [fmtInt e.1, fmtInt e.2.1, fmtMode e.2.2]) d.kss,
    fmtList (fun (c : RawClef) =>
      fmtTuple [fmtInt c.1, fmtInt c.2.1, c.2.2.1, fmtOpt fmtInt c.2.2.2.1, fmtOpt fmtInt c.2.2.2.2]) d.clefs,
    fmtList fmtInt ((otherStaffs d.others).foldr insertInt [])]

def pArg : P Arg := do
  let tag ← tok
  match tag with
  | "s" => do let x ← int; pure (.scalar x)
  | "z" => do let x ← int; pure (.zerod x)
  | "v" => do let xs ← list int; pure (.seq xs)
  | _ => P.fail

def fmtRes {β : Type} (f : β → String) : Res β → String
  | .one v => f v
  | .many vs => fmtList f vs

def orErr (o : Option String) : String := o.getD "err"

def handle (ts : List String) : String :=
  match ts with
  | "ks" :: rest =>
    orErr <| (run (do let sp ← pSpan; let kss ← pKss; let xs ← list int; pure (sp, kss, xs)) rest).map
      fun (sp, kss, xs) => fmtList fmtKS (vec (ksMap sp kss) xs)
  | "clef" :: rest =>
    orErr <| (run (do let sp ← pSpan; let cs ← pClefs; let os ← list int; let xs ← list int
                      pure (sp, cs, os, xs)) rest).bind
      fun (sp, cs, os, xs) =>
        (xs.mapM fun x => clefMap sp cs os x).map fun rows => fmtList (fmtList fmtClef) rows
  | "tsE" :: rest =>
    orErr <| (run (do let p ← pPart; let xs ← list int; pure (p, xs)) rest).map
      fun (p, xs) => fmtList fmtTS (vec (tsMapE p.span p.ts) xs)
  | "dpb" :: rest =>
    orErr <| (run pPart rest).bind fun p =>
      if raisesP p then none else some (fmtTuple [fmtORat (beatsPerBar p), fmtORat (divsPerBeat p)])
  | "mmP" :: rest =>
    orErr <| (run (do let p ← pPart; let xs ← list int; pure (p, xs)) rest).bind
      fun (p, xs) => (xs.mapM fun x => measureMapP p x).map fun rows => fmtList fmtMM rows
  | "mnP" :: rest =>
    orErr <| (run (do let p ← pPart; let xs ← list int; pure (p, xs)) rest).bind
      fun (p, xs) => (xs.mapM fun x => measureNumberMapP p x).map fun rows => fmtList fmtOInt rows
  | "mpP" :: rest =>
    orErr <| (run (do let p ← pPart; let xs ← list int; pure (p, xs)) rest).bind
      fun (p, xs) =>
        (xs.mapM fun x => metricalMapP p x).map fun rows =>
          fmtList (fun (p : Int × Option Int) => fmtTuple [fmtInt p.1, fmtOInt p.2]) rows
  | "na" :: kind :: rest =>
    orErr <| (run (do let p ← pPart; let kss ← pKss; let ks ← bool; let ts ← bool; let mp ← bool
                      let ns ← list (do let i ← nat; let o ← int; let pi ← int; pure (⟨i, o, pi⟩ : NoteIn))
                      pure (p, kss, (⟨ks, ts, mp⟩ : NAFlags), ns)) rest).bind
      fun (p, kss, fl, ns) =>
        (if kind = "rest" then restArrayOfPart p kss fl ns else noteArrayOfPart p kss fl ns).map fun rows =>
          fmtList fmtColRow rows
  | "cts" :: rest =>
    orErr <| (run (do let p ← pPart; let a ← pArg; pure (p, a)) rest).map
      fun (p, a) => fmtRes fmtTS (callTS p.span p.ts a)
  | "cks" :: rest =>
    orErr <| (run (do let sp ← pSpan; let kss ← pKss; let a ← pArg; pure (sp, kss, a)) rest).map
      fun (sp, kss, a) => fmtRes fmtKS (callKS sp kss a)
  | "cclef" :: rest =>
    orErr <| (run (do let sp ← pSpan; let cs ← pClefs; let os ← list int; let a ← pArg; pure (sp, cs, os, a)) rest).bind
      fun (sp, cs, os, a) => (callClef sp cs os a).map (fmtRes (fmtList fmtClef))
  | "cmm" :: rest =>
    orErr <| (run (do let p ← pPart; let a ← pArg; pure (p, a)) rest).bind
      fun (p, a) => (callMeasure p a).map (fmtRes fmtMM)
  | "cmn" :: rest =>
    orErr <| (run (do let p ← pPart; let a ← pArg; pure (p, a)) rest).bind
      fun (p, a) => (callMeasureNumber p a).map (fmtRes fmtOInt)
  | "cmp" :: rest =>
    orErr <| (run (do let p ← pPart; let a ← pArg; pure (p, a)) rest).bind
      fun (p, a) => (callMetrical p a).map
        (fmtRes fun (q : Int × Option Int) => fmtTuple [fmtInt q.1, fmtOInt q.2])
  | "hist" :: rest =>
    orErr <| (run (do let q0 ← nat; let ops ← list pHistOp; pure (q0, ops)) rest).map
      fun (q0, ops) => fmtDescribed (describe (hpRun q0 ops))
  | "rebuild" :: rest =>
    -- the fresh build of what the history left: `Part(quarter_duration = first entry)`, the later quarter durations,
    -- the elements kind by kind, the beat mode (Model/StepMapHist.lean `rebuildOps`; Props/C10Hist.lean)
    orErr <| (run (do let q0 ← nat; let ops ← list pHistOp; pure (q0, ops)) rest).bind
      fun (q0, ops) =>
        let d := describe (hpRun q0 ops)
        match d.part.qd with
        | (_, q) :: _ => some (fmtDescribed (describe (hpRun q (rebuildOps d))))
        | [] => none
  | "rebuilddpb" :: rest =>
    -- the hypothesis of `rebuild_same_maps` for the three measure maps, evaluated: the fresh build measures the same
    -- divisions per beat (also when a redundant quarter-duration entry is not reproduced)
    orErr <| (run (do let q0 ← nat; let ops ← list pHistOp; pure (q0, ops)) rest).bind
      fun (q0, ops) =>
        let d := describe (hpRun q0 ops)
        match d.part.qd with
        | (_, q) :: _ => some (fmtBool (divsPerBeat (describe (hpRun q (rebuildOps d))).part == divsPerBeat d.part))
        | [] => none
  | "cols" :: entry :: rest =>
    orErr <| (run (do let ks ← bool; let ts ← bool; let mp ← bool; pure (⟨ks, ts, mp⟩ : NAFlags)) rest).bind
      fun fl =>
        (naColumns (match entry with
          | "rest_list" => .restList | "note_part" => .notePart | "rest_part" => .restPart | _ => .noteList) fl).map
          fun cols => fmtList id cols
  | "sorted" :: rest =>
    orErr <| (run (list int) rest).map fun ts => fmtBool (sortedTimes ts)
  | _ => "bad-request"

def main : IO Unit := mainLoop handle
