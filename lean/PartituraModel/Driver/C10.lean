import PartituraModel.Wire
import PartituraModel.Model.StepMap
import PartituraModel.Model.StepMapPart

open Wire Model Model.StepMap

/-
Requests (one line each; `SPAN` = `-` | `first last`; lists are count-prefixed):
  ks   SPAN  n (t fifths mode)*                          k x*
  clef SPAN  n (t staff sign line|- oc|-)*  m staff*       k x*
The measure maps take the part description (round 2; the float `divs_per_beat` is no longer an input)
(`PART` = npoints SPAN  nqd (t q)*  nts (t beats beat_type musical_beats)*  musical  nms (s e num|-)*):
  tsE  PART k x*        time_signature_map with the stored musical beats
  dpb  PART             (beats_per_bar, divs_per_beat) of the pickup rule, `nan` = NaN
  mmP  PART k x*        measure_map
  mnP  PART k x*        measure_number_map
  mpP  PART k x*        metrical_position_map
  sorted k t*           are the start times in non-decreasing order (what the table builders need of iter_all)
Responses: a list with one entry per queried position, or `err` when the map raises.
-/

def pSpan : P Span := fun ts => match ts with
  | "-" :: rest => some (none, rest)
  | _ => (do let a ← int; let b ← int; pure (some (a, b))) ts

def pMode : P Mode := do
  let t ← str
  match modeOfString t with
  | some m => pure m
  | none => P.fail

def pKss : P (List (Int × Int × Mode)) :=
  list (do let t ← int; let f ← int; let m ← pMode; pure (t, f, m))

def pClefs : P (List RawClef) :=
  list (do let t ← int; let st ← int; let sg ← str; let ln ← opt int; let oc ← opt int; pure (t, st, sg, ln, oc))

def pMsN : P (List (Int × Int × Option Int)) :=
  list (do let s ← int; let e ← int; let n ← opt int; pure (s, e, n))

def pPart : P PartD := do
  let n ← nat
  let sp ← pSpan
  let qd ← list (do let t ← int; let q ← nat; pure (t, q))
  let ts ← list (do let t ← int; let b ← nat; let bt ← nat; let mb ← nat; pure (⟨t, b, bt, mb⟩ : TimeMap.TSig))
  let mus ← bool
  let ms ← pMsN
  pure { npoints := n, span := sp, qd := qd, ts := ts, musical := mus, ms := ms }

def fmtORat : Option Rat → String
  | some r => fmtRat r
  | none => "nan"

def nanTuple (n : Nat) : String := fmtTuple (List.replicate n "nan")

def fmtTS : Option TSv → String
  | some (b, bt, mb) => fmtTuple [fmtNat b, fmtNat bt, fmtNat mb]
  | none => nanTuple 3

def fmtKS : Option KSv → String
  | some (f, m) => fmtTuple [fmtInt f, fmtInt m]
  | none => nanTuple 2

def fmtClef : Option ClefV → String
  | some (s, c, l, o) => fmtTuple [fmtInt s, fmtInt c, fmtInt l, fmtInt o]
  | none => "nan"

def fmtOInt : Option Int → String
  | some i => fmtInt i
  | none => "nan"

def fmtMM : Option (Int × Int) → String
  | some (s, e) => fmtTuple [fmtInt s, fmtInt e]
  | none => "nan"

def orErr (o : Option String) : String := o.getD "err"

def handle (ts : List String) : String :=
  match ts with
  | "ks" :: rest =>
    orErr <| (run (do let sp ← pSpan; let kss ← pKss; let xs ← list int; pure (sp, kss, xs)) rest).map
      fun (sp, kss, xs) => fmtList fmtKS (vec (ksMap sp kss) xs)
  | "clef" :: rest =>
    orErr <| (run (do let sp ← pSpan; let cs ← pClefs; let os ← list int; let xs ← list int
                      pure (sp, cs, os, xs)) rest).bind
      fun (sp, cs, os, xs) =>
        (xs.mapM fun x => clefMap sp cs os x).map fun rows => fmtList (fmtList fmtClef) rows
  | "tsE" :: rest =>
    orErr <| (run (do let p ← pPart; let xs ← list int; pure (p, xs)) rest).map
      fun (p, xs) => fmtList fmtTS (vec (tsMapE p.span p.ts) xs)
  | "dpb" :: rest =>
    orErr <| (run pPart rest).bind fun p =>
      if raisesP p then none else some (fmtTuple [fmtORat (beatsPerBar p), fmtORat (divsPerBeat p)])
  | "mmP" :: rest =>
    orErr <| (run (do let p ← pPart; let xs ← list int; pure (p, xs)) rest).bind
      fun (p, xs) => (xs.mapM fun x => measureMapP p x).map fun rows => fmtList fmtMM rows
  | "mnP" :: rest =>
    orErr <| (run (do let p ← pPart; let xs ← list int; pure (p, xs)) rest).bind
      fun (p, xs) => (xs.mapM fun x => measureNumberMapP p x).map fun rows => fmtList fmtOInt rows
  | "mpP" :: rest =>
    orErr <| (run (do let p ← pPart; let xs ← list int; pure (p, xs)) rest).bind
      fun (p, xs) =>
        (xs.mapM fun x => metricalMapP p x).map fun rows =>
          fmtList (fun (p : Int × Option Int) => fmtTuple [fmtInt p.1, fmtOInt p.2]) rows
  | "sorted" :: rest =>
    orErr <| (run (list int) rest).map fun ts => fmtBool (sortedTimes ts)
  | _ => "bad-request"

def main : IO Unit := mainLoop handle
