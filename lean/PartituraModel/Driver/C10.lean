import PartituraModel.Wire
import PartituraModel.Model.StepMap

open Wire Model Model.StepMap

/-
Requests (one line each; `SPAN` = `-` | `first last`; lists are count-prefixed):
  ts   SPAN  n (t beats beat_type)*                      k x*
  ks   SPAN  n (t fifths mode)*                          k x*
  clef SPAN  n (t staff sign line oc|-)*  m staff*       k x*
  mm   SPAN  n (t beats beat_type)*  m (s e)*       d|-  k x*
  mn   SPAN  n (t beats beat_type)*  m (s e num|-)* d|-  k x*
  mp   SPAN  n (t beats beat_type)*  m (s e)*       d|-  k x*
Responses: a list with one entry per queried position, or `err` when the map raises.
-/

def pSpan : P Span := fun ts => match ts with
  | "-" :: rest => some (none, rest)
  | _ => (do let a ← int; let b ← int; pure (some (a, b))) ts

def pTss : P (List (Int × Nat × Nat)) :=
  list (do let t ← int; let b ← nat; let bt ← nat; pure (t, b, bt))

def pMode : P Mode := do
  let t ← str
  match modeOfString t with
  | some m => pure m
  | none => P.fail

def pKss : P (List (Int × Int × Mode)) :=
  list (do let t ← int; let f ← int; let m ← pMode; pure (t, f, m))

def pClefs : P (List RawClef) :=
  list (do let t ← int; let st ← int; let sg ← str; let ln ← int; let oc ← opt int; pure (t, st, sg, ln, oc))

def pMs : P (List (Int × Int)) := list (do let s ← int; let e ← int; pure (s, e))

def pMsN : P (List (Int × Int × Option Int)) :=
  list (do let s ← int; let e ← int; let n ← opt int; pure (s, e, n))

def nanTuple (n : Nat) : String := fmtTuple (List.replicate n "nan")

def fmtTS : Option TSv → String
  | some (b, bt, mb) => fmtTuple [fmtNat b, fmtNat bt, fmtNat mb]
  | none => nanTuple 3

def fmtKS : Option KSv → String
  | some (f, m) => fmtTuple [fmtInt f, fmtInt m]
  | none => nanTuple 2

def fmtClef : Option ClefV → String
  | some (s, c, l, o) => fmtTuple [fmtInt s, fmtInt c, fmtInt l, fmtInt o]
  | none => "nan"

def fmtOInt : Option Int → String
  | some i => fmtInt i
  | none => "nan"

def fmtMM : Option (Int × Int) → String
  | some (s, e) => fmtTuple [fmtInt s, fmtInt e]
  | none => "nan"

def orErr (o : Option String) : String := o.getD "err"

def handle (ts : List String) : String :=
  match ts with
  | "ts" :: rest =>
    orErr <| (run (do let sp ← pSpan; let tss ← pTss; let xs ← list int; pure (sp, tss, xs)) rest).map
      fun (sp, tss, xs) => fmtList fmtTS (vec (tsMap sp tss) xs)
  | "ks" :: rest =>
    orErr <| (run (do let sp ← pSpan; let kss ← pKss; let xs ← list int; pure (sp, kss, xs)) rest).map
      fun (sp, kss, xs) => fmtList fmtKS (vec (ksMap sp kss) xs)
  | "clef" :: rest =>
    orErr <| (run (do let sp ← pSpan; let cs ← pClefs; let os ← list int; let xs ← list int
                      pure (sp, cs, os, xs)) rest).bind
      fun (sp, cs, os, xs) =>
        (xs.mapM fun x => clefMap sp cs os x).map fun rows => fmtList (fmtList fmtClef) rows
  | "mm" :: rest =>
    orErr <| (run (do let sp ← pSpan; let tss ← pTss; let ms ← pMs; let d ← opt rat; let xs ← list int
                      pure (sp, tss, ms, d, xs)) rest).map
      fun (sp, tss, ms, d, xs) => fmtList fmtMM (vec (measureMap sp tss ms d) xs)
  | "mn" :: rest =>
    orErr <| (run (do let sp ← pSpan; let tss ← pTss; let ms ← pMsN; let d ← opt rat; let xs ← list int
                      pure (sp, tss, ms, d, xs)) rest).bind
      fun (sp, tss, ms, d, xs) =>
        (xs.mapM fun x => measureNumberMap sp tss ms d x).map fun rows => fmtList fmtOInt rows
  | "mp" :: rest =>
    orErr <| (run (do let sp ← pSpan; let tss ← pTss; let ms ← pMs; let d ← opt rat; let xs ← list int
                      pure (sp, tss, ms, d, xs)) rest).bind
      fun (sp, tss, ms, d, xs) =>
        (xs.mapM fun x => metricalMap sp tss ms d x).map fun rows =>
          fmtList (fun (p : Int × Option Int) => fmtTuple [fmtInt p.1, fmtOInt p.2]) rows
  | _ => "bad-request"

def main : IO Unit := mainLoop handle
