import PartituraModel.Wire
import PartituraModel.Model.Pedal
import PartituraModel.Model.PedalDict
import PartituraModel.Model.PedalTypes
import PartituraModel.Model.PedalHist
import PartituraModel.Model.PedalOrder

open Wire Model Model.Pedal

def pNote : P Note := do
  let p ← int; let on ← rat; let off ← rat; let v ← int; let tr ← int; let ch ← int; let ot ← opt int
  pure { pitch := p, on := on, off := off, vel := v, track := tr, chan := ch, onTick := ot }

def pControl : P Control := do
  let nu ← int; let t ← rat; let v ← int; let tr ← opt int
  pure { number := nu, time := t, value := v, track := tr }

def pKind : P PedalTypes.Kind := do
  let k ← tok
  match k with
  | "I" => pure .int
  | "F" => pure .flt
  | _ => P.fail

def pTNote : P PedalTypes.TNote := do
  let p ← int; let on ← rat; let onK ← pKind; let off ← rat; let offK ← pKind; let v ← int; let tr ← int; let ch ← int
  let ot ← opt int
  pure { note := { pitch := p, on := on, off := off, vel := v, track := tr, chan := ch, onTick := ot }, onK := onK, offK := offK }

def pTControl : P PedalTypes.TControl := do
  let nu ← int; let t ← rat; let tK ← pKind; let v ← int; let tr ← opt int
  pure { ctl := { number := nu, time := t, value := v, track := tr }, timeK := tK }

def pPartTracks : P PartTracks := do
  let a ← list int; let b ← list (opt int); let c ← list (opt int)
  pure { notes := a, controls := b, programs := c }

def orErr (o : Option String) : String := o.getD "err"

def fmtRow (r : Row) : String :=
  fmtTuple [fmtRat r.onsetSec, fmtRat r.durSec, fmtInt r.onsetTick, fmtInt r.durTick,
            fmtInt r.pitch, fmtInt r.vel, fmtInt r.track, fmtInt r.chan]

def fmtBack (ns : Note × Rat) : String :=
  fmtTuple [fmtInt ns.1.pitch, fmtInt ns.1.vel, fmtRat ns.1.on, fmtRat ns.1.off, fmtRat ns.2,
            fmtInt ns.1.track, fmtInt ns.1.chan]

def pRaw : P RawNote := do
  let id ← opt str; let p ← opt int; let mp ← opt int; let on ← opt rat; let off ← opt rat; let so ← opt rat
  let v ← opt int; let tr ← opt int; let ch ← opt int; let ot ← opt int; let oft ← opt int
  pure { id := id, pitch := p, midiPitch := mp, on := on, off := off, soundOff := so, vel := v, track := tr,
         chan := ch, onTick := ot, offTick := oft }

def pSetOp : P SetOp := do
  let k ← tok
  match k with
  | "id" => do let v ← str; pure (.id v)
  | "pitch" => do let v ← int; pure (.pitch v)
  | "note_on" => do let v ← rat; pure (.noteOn v)
  | "note_off" => do let v ← rat; pure (.noteOff v)
  | "sound_off" => do let v ← rat; pure (.soundOff v)
  | "velocity" => do let v ← int; pure (.velocity v)
  | "track" => do let v ← int; pure (.track v)
  | "channel" => do let v ← int; pure (.channel v)
  | "note_on_tick" => do let v ← int; pure (.noteOnTick v)
  | "note_off_tick" => do let v ← int; pure (.noteOffTick v)
  | "midi_pitch" => do let v ← int; pure (.midiPitch v)
  | "other" => pure .other
  | _ => P.fail

def pOp : P Op := do
  let k ← tok
  match k with
  | "T" => do let t ← int; pure (.thr t)
  | "S" => do let i ← nat; let o ← pSetOp; pure (.set i o)
  | "A" => do let r ← pRaw; pure (.append r)
  | _ => P.fail

def fmtPNote (n : PNote) : String :=
  fmtTuple [idText n.id, fmtInt n.pitch, fmtInt n.midiPitch, fmtRat n.on, fmtRat n.off, fmtRat n.soundOff,
            fmtInt n.vel, fmtInt n.track, fmtInt n.chan, fmtOpt fmtInt n.onTick, fmtOpt fmtInt n.offTick]

def fmtView (p : PPart) : String := fmtList fmtPNote p.notes

def fmtObs : Obs → String
  | .ok => "ok" | .keyErr => "K" | .valErr => "V" | .idxErr => "I" | .fail => "F"

def fmtARow (r : ARow) : String := fmtTuple [r.id, fmtRow r.row]

def lastPart (p : PPart) (l : List (PPart × Obs)) : PPart :=
  match l.getLast? with
  | some r => r.1
  | none => p

structure PerfPart where
  thr : Int
  mpq : Nat
  ppq : Nat
  notes : List RawNote
  controls : List Control
  programs : List (Option Int)

def pPerfPart : P PerfPart := do
  let thr ← int; let mpq ← nat; let ppq ← nat; let ns ← list pRaw; let cs ← list pControl
  let ps ← list (opt int)
  pure { thr := thr, mpq := mpq, ppq := ppq, notes := ns, controls := cs, programs := ps }

/-- `Performance(parts)` (track numbers made unique) followed by `.note_array()`: num_tracks and the rows -/
def perfNoteRows (uid : Bool) (pps : List PerfPart) : Option (Nat × List ARow) :=
  (mapM' (fun (pp : PerfPart) => if pp.mpq = 0 then none else buildRaw pp.notes pp.controls pp.thr) pps).bind fun built =>
    let pts : List PartTracks := (built.zip pps).map fun bp =>
      { notes := bp.1.notes.map (·.track), controls := bp.2.controls.map (·.track), programs := bp.2.programs }
    (sanitizeSorted pts).bind fun san =>
      let rows := ((built.zip pps).zip san).map fun x =>
        partRows x.1.2.mpq x.1.2.ppq { x.1.1 with notes := storeTracks x.1.1.notes x.2.1 }
      (perfRows uid rows).map fun r => (numTracks pts, r)

def perfNoteArray (uid : Bool) (pps : List PerfPart) : Option String :=
  (perfNoteRows uid pps).map fun x => fmtTuple [fmtNat x.1, fmtList fmtARow x.2]


-- ------------------------------------------------------------------ round 5

def pNKey : P NKey := do
  let k ← tok
  match k with
  | "id" => pure .id | "pitch" => pure .pitch | "midi_pitch" => pure .midiPitch | "note_on" => pure .noteOn
  | "note_off" => pure .noteOff | "sound_off" => pure .soundOff | "velocity" => pure .velocity | "track" => pure .track
  | "channel" => pure .channel | "note_on_tick" => pure .noteOnTick | "note_off_tick" => pure .noteOffTick
  | "other" => pure .other
  | _ => P.fail

def fmtVal : Val → String
  | .none => "None" | .str s => s | .int i => fmtInt i | .rat q => fmtRat q

/-- a statement on ONE performed note -/
inductive NoteStmt where
  | set (o : SetOp) | get (k : NKey) | has (k : NKey) | len | del (k : NKey) | copy

def pNoteStmt : P NoteStmt := do
  let k ← tok
  match k with
  | "S" => do let o ← pSetOp; pure (.set o)
  | "G" => do let k ← pNKey; pure (.get k)
  | "H" => do let k ← pNKey; pure (.has k)
  | "L" => pure .len
  | "D" => do let k ← pNKey; pure (.del k)
  | "C" => pure .copy
  | _ => P.fail

/-- the note after the statement and what the statement answered -/
def noteStmt (n : PNote) : NoteStmt → PNote × String
  | .set o => match setItem n o with
    | .ok m => (m, "ok")
    | .error .key => (n, "K")
    | .error .value => (n, "V")
  | .get k => (n, fmtVal (getItem n k))
  | .has k => (n, fmtBool (hasKey n k))
  | .len => (n, fmtNat (noteLen n))
  | .del _ => (n, "K")
  | .copy => match copyNote n with
    | some m => (m, "ok")
    | none => (n, "V")

def noteRun : PNote → List NoteStmt → List String
  | _, [] => []
  | n, s :: ss => let r := noteStmt n s; fmtTuple [r.2, fmtPNote r.1] :: noteRun r.1 ss

def pCtlOp : P CtlOp := do
  let k ← tok
  match k with
  | "append" => do let c ← pControl; pure (.append c)
  | "del" => do let i ← nat; pure (.del i)
  | "number" => do let i ← nat; let v ← int; pure (.setNumber i v)
  | "time" => do let i ← nat; let t ← rat; pure (.setTime i t)
  | "value" => do let i ← nat; let v ← int; pure (.setValue i v)
  | "replace" => do let cs ← list pControl; pure (.replace cs)
  | _ => P.fail

def pXOpOf (k : String) : P XOp := do
  match k with
  | "T" => do let t ← int; pure (.base (.thr t))
  | "S" => do let i ← nat; let o ← pSetOp; pure (.base (.set i o))
  | "A" => do let r ← pRaw; pure (.base (.append r))
  | "X" => do let i ← nat; pure (.delNote i)
  | "I" => do let i ← nat; let r ← pRaw; pure (.insNote i r)
  | "Y" => do let i ← nat; pure (.copyNote i)
  | "C" => do let c ← pCtlOp; pure (.ctl c)
  | _ => P.fail

def pXOp : P XOp := do
  let k ← tok
  pXOpOf k

/-- round 6: a statement of a history in which the note list is also reordered -/
def pYOp : P YOp := do
  let k ← tok
  match k with
  | "O" => do
    let w ← tok
    match w with
    | "sort" => pure (.ord .sort)
    | "desc" => pure (.ord .sortDesc)
    | "rev" => pure (.ord .reverse)
    | _ => P.fail
  | _ => do let o ← pXOpOf k; pure (.x o)

def fmtCtl (c : Control) : String := fmtTuple [fmtInt c.number, fmtRat c.time, fmtInt c.value]

def lastX (p : PPart) (l : List (PPart × Obs)) : PPart :=
  match l.getLast? with
  | some r => r.1
  | none => p

def pBoxPart : P BoxPart := do
  let t ← pPartTracks; let m ← list (opt int)
  pure { tracks := t, metas := m }

def pPerfArg : P PerfArg := do
  let k ← tok
  match k with
  | "single" => do let p ← pBoxPart; pure (.single p)
  | "items" => do let l ← list (opt pBoxPart); pure (.items l)
  | "other" => pure .other
  | _ => P.fail

def pBoxOp : P BoxOp := do
  let k ← tok
  match k with
  | "Z" => pure .sanitize
  | "P" => do let i ← nat; let p ← pBoxPart; pure (.setPart i p)
  | "Q" => do let p ← pBoxPart; pure (.appendPart p)
  | _ => P.fail

def fmtBoxPart (p : BoxPart) : String :=
  fmtTuple [fmtList fmtInt p.tracks.notes, fmtList (fmtOpt fmtInt) p.tracks.controls,
            fmtList (fmtOpt fmtInt) p.tracks.programs, fmtList (fmtOpt fmtInt) p.metas]

def fmtBox (ps : List BoxPart) : String :=
  fmtTuple [fmtNat ps.length, fmtNat (boxNumTracks ps), fmtList fmtNat (ps.map (fun p => partNumTracks p.tracks)),
            fmtList fmtBoxPart ps]

def handle5 (ts : List String) : Option String :=
  match ts with
  | "note" :: rest =>
    -- PerformedNote(d), then statements on that one note
    some <| orErr <| (run (do let r ← pRaw; let ss ← list pNoteStmt; pure (r, ss)) rest).bind fun (r, ss) =>
      (initNote r).map fun n => fmtTuple [fmtPNote n, fmtList id (noteRun n ss)]
  | "xhist" :: rest =>
    -- construction, then a history in which notes are also removed / inserted / copied and the controls edited
    some <| orErr <| (run (do let thr ← int; let mpq ← nat; let ppq ← nat; let ns ← list pRaw; let cs ← list pControl
                              let ops ← list pXOp; pure (thr, mpq, ppq, ns, cs, ops)) rest).bind
      fun (thr, mpq, ppq, ns, cs, ops) =>
        if mpq = 0 then none else (buildRaw ns cs thr).map fun p =>
          let r := xrun p ops
          let q := lastX p r
          fmtTuple [fmtView p,
                    fmtList (fun (x : PPart × Obs) => fmtTuple [fmtObs x.2, fmtView x.1, fmtList fmtCtl x.1.controls]) r,
                    fmtList fmtARow (partRows mpq ppq q),
                    fmtNat (partNumTracks { notes := q.notes.map (·.track), controls := q.controls.map (·.track), programs := [] }),
                    fmtList fmtCtl (ctlAfter cs ops)]
  | "ohist" :: rest =>
    -- round 6: as xhist, the note list is also sorted / reversed
    some <| orErr <| (run (do let thr ← int; let mpq ← nat; let ppq ← nat; let ns ← list pRaw; let cs ← list pControl
                              let ops ← list pYOp; pure (thr, mpq, ppq, ns, cs, ops)) rest).bind
      fun (thr, mpq, ppq, ns, cs, ops) =>
        if mpq = 0 then none else (buildRaw ns cs thr).map fun p =>
          let r := yrun p ops
          let q := lastX p r
          fmtTuple [fmtView p,
                    fmtList (fun (x : PPart × Obs) => fmtTuple [fmtObs x.2, fmtView x.1, fmtList fmtCtl x.1.controls]) r,
                    fmtList fmtARow (partRows mpq ppq q)]
  | "fnap" :: rest =>
    -- round 6: PerformedPart.from_note_array(Performance(pp).note_array()[columns]); the rebuilt part and its own note_array()
    some <| orErr <| (run (do let pp ← pPerfPart; let a ← bool; let b ← bool; let c ← bool; let d ← bool; let e ← bool
                              pure (pp, ({ sec := a, vel := b, hasId := c, track := d, chan := e } : ArrFields))) rest).bind
      fun (pp, f) =>
        (perfNoteRows true [pp]).bind fun x =>
          (fromArray f x.2).map fun q =>
            fmtTuple [fmtList fmtARow x.2, fmtView q, fmtList fmtARow (partRows defaultMpq defaultPpq q)]
  | "cmp" :: rest =>
    -- round 6: two performed notes compared: a < b, a <= b, a > b, a >= b, a == b, hash(a) == hash(b), str(a)
    some <| orErr <| (run (do let a ← pRaw; let b ← pRaw; pure (a, b)) rest).bind fun (ra, rb) =>
      (initNote ra).bind fun a => (initNote rb).map fun b =>
        fmtTuple [fmtBool (noteLt a b), fmtBool (noteLe a b), fmtBool (noteGt a b), fmtBool (noteGe a b),
                  fmtBool (noteEq a b), fmtBool (decide (hashKey a = hashKey b)), noteStr a]
  | "ticks" :: rest =>
    -- round 6: seconds_to_midi_ticks(t, mpq, ppq)
    some <| orErr <| (run (do let mpq ← nat; let ppq ← nat; let ts ← list rat; pure (mpq, ppq, ts)) rest).bind
      fun (mpq, ppq, ts) =>
        if mpq = 0 || ppq = 0 then none else some (fmtList (fun t => fmtInt (secToTickG t mpq ppq)) ts)
  | "tickback" :: rest =>
    -- round 6: midi_ticks_to_seconds(seconds_to_midi_ticks(t, mpq, ppq), mpq, ppq)
    some <| orErr <| (run (do let mpq ← nat; let ppq ← nat; let ts ← list rat; pure (mpq, ppq, ts)) rest).bind
      fun (mpq, ppq, ts) =>
        if mpq = 0 || ppq = 0 then none else some (fmtList (fun t => fmtRat (tickToSecG (secToTickG t mpq ppq) mpq ppq)) ts)
  | "defaults" :: rest =>
    -- PerformedPart(notes, controls=cs) with the keyword defaults; adjust_offsets_w_sustain(notes, cs) called directly
    some <| orErr <| (run (do let ns ← list pNote; let cs ← list pControl; pure (ns, cs)) rest).bind fun (ns, cs) =>
      (buildPart ns cs Gen.C14.defaultThreshold).bind fun p =>
        (adjustDefault ns cs).map fun so =>
          fmtTuple [fmtList fmtRat p.sound, fmtList fmtRow (noteRows defaultMpq defaultPpq p), fmtList fmtRat so]
  | "box" :: rest =>
    -- Performance(arg, ensure_unique_tracks=e), then statements on the performance
    some <| orErr <| (run (do let e ← opt bool; let a ← pPerfArg; let ops ← list pBoxOp; pure (e, a, ops)) rest).bind
      fun (e, a, ops) =>
        (perfInit a (e.getD Gen.C14.ensureUniqueDefault)).map fun ps =>
          fmtTuple [fmtBox ps, fmtList (fun (x : List BoxPart × Obs) => fmtTuple [fmtObs x.2, fmtBox x.1]) (boxRun ps ops)]
  | _ => none

def handle (ts : List String) : String :=
  match handle5 ts with
  | some r => r
  | none =>
  match ts with
  | "hist" :: rest =>
    -- construction from note dictionaries, then a history of statements; finally note_array()
    orErr <| (run (do let thr ← int; let mpq ← nat; let ppq ← nat; let ns ← list pRaw; let cs ← list pControl
                      let ops ← list pOp; pure (thr, mpq, ppq, ns, cs, ops)) rest).bind
      fun (thr, mpq, ppq, ns, cs, ops) =>
        if mpq = 0 then none else (buildRaw ns cs thr).map fun p =>
          let r := runOps p ops
          fmtTuple [fmtView p, fmtList (fun (x : PPart × Obs) => fmtTuple [fmtObs x.2, fmtView x.1]) r,
                    fmtList fmtARow (partRows mpq ppq (lastPart p r))]
  | "fnav" :: rest =>
    -- from_note_array of note_array() restricted to some columns; the rebuilt part and its own note_array()
    orErr <| (run (do let thr ← int; let mpq ← nat; let ppq ← nat; let ns ← list pRaw; let cs ← list pControl
                      let a ← bool; let b ← bool; let c ← bool; let d ← bool; let e ← bool
                      pure (thr, mpq, ppq, ns, cs, ({ sec := a, vel := b, hasId := c, track := d, chan := e } : ArrFields))) rest).bind
      fun (thr, mpq, ppq, ns, cs, f) =>
        if mpq = 0 then none else (buildRaw ns cs thr).bind fun p =>
          (fromArray f (partRows mpq ppq p)).map fun q =>
            fmtTuple [fmtView q, fmtList fmtARow (partRows defaultMpq defaultPpq q)]
  | "perf" :: rest =>
    orErr <| (run (do let uid ← bool; let pps ← list pPerfPart; pure (uid, pps)) rest).bind
      fun (uid, pps) => perfNoteArray uid pps
  | "ssorted" :: rest =>
    -- np.searchsorted(a, x) by numpy's binary search and by the list model
    orErr <| (run (do let a ← list rat; let x ← rat; pure (a, x)) rest).map fun (a, x) =>
      fmtTuple [fmtNat (npSearchsorted a x), fmtNat (searchsortedLeft a x)]
  | "asort" :: rest =>
    -- np.argsort(keys, kind="stable")
    orErr <| (run (list rat) rest).map fun ks =>
      fmtList fmtNat ((sortBy (fun m : Rat × Nat => m.1) ks.zipIdx).map (·.2))
  | "sot" :: rest =>
    -- sound_off of every note after construction from typed dictionaries (round 4)
    orErr <| (run (do let thr ← int; let ns ← list pTNote; let cs ← list pTControl; pure (thr, ns, cs)) rest).bind
      fun (thr, ns, cs) => (PedalTypes.buildTyped ns cs thr).map fun so => fmtList fmtRat so
  | "npstore" :: rest =>
    -- a = np.array([numbers of the given kinds]); a[0] = x : the inferred dtype and the value the array then holds
    orErr <| (run (do let ks ← list pKind; let x ← rat; pure (ks, x)) rest).map fun (ks, x) =>
      let dt := PedalTypes.inferDtype ks
      fmtTuple [(match dt with | .int => "I" | .flt => "F"), fmtRat (PedalTypes.store dt x)]
  | "so" :: rest =>
    -- sound_off of every note after construction
    orErr <| (run (do let thr ← int; let ns ← list pNote; let cs ← list pControl; pure (thr, ns, cs)) rest).bind
      fun (thr, ns, cs) => (buildPart ns cs thr).map fun p => fmtList fmtRat p.sound
  | "rethr" :: rest =>
    -- construction with thr0, then a sequence of threshold assignments
    orErr <| (run (do let thr ← int; let seq ← list int; let ns ← list pNote; let cs ← list pControl
                      pure (thr, seq, ns, cs)) rest).bind
      fun (thr, seq, ns, cs) => (buildPart ns cs thr).bind fun p =>
        (rethreshold p seq).map fun r => fmtList (fmtList fmtRat) r
  | "rows" :: rest =>
    orErr <| (run (do let thr ← int; let mpq ← nat; let ppq ← nat; let ns ← list pNote; let cs ← list pControl
                      pure (thr, mpq, ppq, ns, cs)) rest).bind
      fun (thr, mpq, ppq, ns, cs) =>
        if mpq = 0 then none else (buildPart ns cs thr).map fun p => fmtList fmtRow (noteRows mpq ppq p)
  | "fna" :: rest =>
    -- from_note_array(note_array())
    orErr <| (run (do let thr ← int; let mpq ← nat; let ppq ← nat; let ns ← list pNote; let cs ← list pControl
                      pure (thr, mpq, ppq, ns, cs)) rest).bind
      fun (thr, mpq, ppq, ns, cs) =>
        if mpq = 0 then none else (buildPart ns cs thr).bind fun p =>
          (fromRows (noteRows mpq ppq p)).map fun q => fmtList fmtBack (q.notes.zip q.sound)
  | "tracks" :: rest =>
    orErr <| (run (list pPartTracks) rest).bind fun parts =>
      (sanitizeSorted parts).map fun r =>
        fmtTuple [fmtNat (numTracks parts), fmtList fmtNat (parts.map partNumTracks),
                  fmtList (fun (x : List Nat × List Nat × List Nat) =>
                    fmtTuple [fmtList fmtNat x.1, fmtList fmtNat x.2.1, fmtList fmtNat x.2.2]) r]
  | _ => "bad-request"

def main : IO Unit := mainLoop handle
