import PartituraModel.Wire
import PartituraModel.Model.Pedal

open Wire Model Model.Pedal

def pNote : P Note := do
  let p ← int; let on ← rat; let off ← rat; let v ← int; let tr ← int; let ch ← int; let ot ← opt int
  pure { pitch := p, on := on, off := off, vel := v, track := tr, chan := ch, onTick := ot }

def pControl : P Control := do
  let nu ← int; let t ← rat; let v ← int; let tr ← opt int
  pure { number := nu, time := t, value := v, track := tr }

def pPartTracks : P PartTracks := do
  let a ← list int; let b ← list (opt int); let c ← list (opt int)
  pure { notes := a, controls := b, programs := c }

def orErr (o : Option String) : String := o.getD "err"

def fmtRow (r : Row) : String :=
  fmtTuple [fmtRat r.onsetSec, fmtRat r.durSec, fmtInt r.onsetTick, fmtInt r.durTick,
            fmtInt r.pitch, fmtInt r.vel, fmtInt r.track, fmtInt r.chan]

def fmtBack (ns : Note × Rat) : String :=
  fmtTuple [fmtInt ns.1.pitch, fmtInt ns.1.vel, fmtRat ns.1.on, fmtRat ns.1.off, fmtRat ns.2,
            fmtInt ns.1.track, fmtInt ns.1.chan]

def handle (ts : List String) : String :=
  match ts with
  | "so" :: rest =>
    -- sound_off of every note after construction
    orErr <| (run (do let thr ← int; let ns ← list pNote; let cs ← list pControl; pure (thr, ns, cs)) rest).bind
      fun (thr, ns, cs) => (buildPart ns cs thr).map fun p => fmtList fmtRat p.sound
  | "rethr" :: rest =>
    -- construction with thr0, then a sequence of threshold assignments
    orErr <| (run (do let thr ← int; let seq ← list int; let ns ← list pNote; let cs ← list pControl
                      pure (thr, seq, ns, cs)) rest).bind
      fun (thr, seq, ns, cs) => (buildPart ns cs thr).bind fun p =>
        (rethreshold p seq).map fun r => fmtList (fmtList fmtRat) r
  | "rows" :: rest =>
    orErr <| (run (do let thr ← int; let mpq ← nat; let ppq ← nat; let ns ← list pNote; let cs ← list pControl
                      pure (thr, mpq, ppq, ns, cs)) rest).bind
      fun (thr, mpq, ppq, ns, cs) =>
        if mpq = 0 then none else (buildPart ns cs thr).map fun p => fmtList fmtRow (noteRows mpq ppq p)
  | "fna" :: rest =>
    -- from_note_array(note_array())
    orErr <| (run (do let thr ← int; let mpq ← nat; let ppq ← nat; let ns ← list pNote; let cs ← list pControl
                      pure (thr, mpq, ppq, ns, cs)) rest).bind
      fun (thr, mpq, ppq, ns, cs) =>
        if mpq = 0 then none else (buildPart ns cs thr).bind fun p =>
          (fromRows (noteRows mpq ppq p)).map fun q => fmtList fmtBack (q.notes.zip q.sound)
  | "tracks" :: rest =>
    orErr <| (run (list pPartTracks) rest).bind fun parts =>
      (sanitize parts).map fun r =>
        fmtTuple [fmtNat (numTracks parts), fmtList fmtNat (parts.map partNumTracks),
                  fmtList (fun (x : List Nat × List Nat × List Nat) =>
                    fmtTuple [fmtList fmtNat x.1, fmtList fmtNat x.2.1, fmtList fmtNat x.2.2]) r]
  | _ => "bad-request"

def main : IO Unit := mainLoop handle
