import PartituraModel.Wire
import PartituraModel.Model.PerfMidi
import PartituraModel.Model.PerfMidiRegen
import PartituraModel.Model.PerfObject
import PartituraModel.Model.PerfFloat
import PartituraModel.Model.PerfIds
import PartituraModel.Model.PerfIter

open Wire Model Model.PerfMidi

def orErr (o : Option String) : String := o.getD "err"

/-- message on the wire: `kind a b c` -/
def pEv : P Ev := do
  let k ← nat; let a ← int; let b ← int; let c ← int
  match k with
  | 0 => pure (Ev.noteOn a.toNat b.toNat c.toNat)
  | 1 => pure (Ev.noteOff a.toNat b.toNat c.toNat)
  | 2 => pure (Ev.control a.toNat b.toNat c.toNat)
  | 3 => pure (Ev.program a.toNat b.toNat)
  | 4 => pure (Ev.tempo a.toNat)
  | 5 => pure (Ev.timeSig a.toNat b.toNat)
  | 6 => pure (Ev.keySig a (b != 0))
  | 7 => pure Ev.eot
  | 8 => pure (Ev.metaMsg a.toNat)
  | 9 => pure (Ev.other a.toNat)
  | _ => P.fail

def fmtEv (t : Int) (e : Ev) : String :=
  let f (k : Nat) (a b c : Int) := fmtTuple [fmtInt t, fmtNat k, fmtInt a, fmtInt b, fmtInt c]
  match e with
  | .noteOn ch p v => f 0 ch p v
  | .noteOff ch p v => f 1 ch p v
  | .control ch n v => f 2 ch n v
  | .program ch g => f 3 ch g 0
  | .tempo m => f 4 m 0 0
  | .timeSig n d => f 5 n d 0
  | .keySig fi mi => f 6 fi (if mi then 1 else 0) 0
  | .eot => f 7 0 0 0
  | .metaMsg i => f 8 i 0 0
  | .other i => f 9 i 0 0

def pTMsg : P TMsg := do
  let t ← int; let e ← pEv
  pure (t, e)

def pMeta : P PMetaO := do
  let t ← rat; let e ← pEv; let tr ← nat
  match e with
  | .eot => pure { time := t, id := none, track := tr }
  | .metaMsg i => pure { time := t, id := some i, track := tr }
  | _ => P.fail

def pKey : P PKey := do
  let t ← rat; let e ← pEv; let tr ← nat
  match e with
  | .keySig f m => pure { time := t, fifths := f, minor := m, track := tr }
  | _ => P.fail

def pTime : P PTime := do
  let t ← rat; let e ← pEv; let tr ← nat
  match e with
  | .timeSig n d => pure { time := t, num := n, den := d, track := tr }
  | _ => P.fail

def pCtl : P PCtl := do
  let t ← rat; let n ← nat; let v ← nat; let ch ← nat; let tr ← nat
  pure { time := t, num := n, val := v, ch := ch, track := tr }

def pProg : P PProg := do
  let t ← rat; let g ← nat; let ch ← nat; let tr ← nat
  pure { time := t, prog := g, ch := ch, track := tr }

def pNote : P PNote := do
  let p ← nat; let v ← nat; let ch ← nat; let tr ← nat; let on ← rat; let off ← rat
  pure { pitch := p, vel := v, ch := ch, track := tr, on := on, off := off }

def pPart : P PPart := do
  let mo ← list pMeta; let ks ← list pKey; let ts ← list pTime
  let cs ← list pCtl; let ns ← list pNote; let ps ← list pProg
  pure { metaOther := mo, keySigs := ks, timeSigs := ts, controls := cs, notes := ns, programs := ps }

def fmtTrack (t : Track) : String := fmtList (fun m => fmtEv m.1 m.2) t

def fmtOptNat : Option Nat → String
  | none => "-"
  | some n => fmtNat n

/-- integer view of the loaded parts; every note, control and program carries the track number
    `sanitize_track_numbers` gives it (`nums`: notes first, then controls, then programs), every time signature,
    key signature and other meta event the one of `loadMetaNumbers` (`ms`, in that order; fixes/C06-7) -/
def fmtPartInt (pn : RTrack × List (Option Nat) × List Int) : String :=
  let p := pn.1
  let nn := pn.2.1.take p.notes.length
  let nc := (pn.2.1.drop p.notes.length).take p.controls.length
  let np := pn.2.1.drop (p.notes.length + p.controls.length)
  let mt := pn.2.2.take p.timeSigs.length
  let mk := (pn.2.2.drop p.timeSigs.length).take p.keySigs.length
  let mm := pn.2.2.drop (p.timeSigs.length + p.keySigs.length)
  fmtTuple [
    fmtNat p.fileTrack,
    fmtList (fun (n : (RNote × Nat) × Option Nat) => fmtTuple [fmtNat n.1.2, fmtNat n.1.1.pitch, fmtInt n.1.1.on,
      fmtInt n.1.1.off, fmtNat n.1.1.vel, fmtNat n.1.1.ch, fmtOptNat n.2]) (p.notes.zipIdx.zip nn),
    fmtList (fun c => fmtTuple [fmtInt c.1.1, fmtNat c.1.2.1, fmtNat c.1.2.2.1, fmtNat c.1.2.2.2, fmtOptNat c.2])
      (p.controls.zip nc),
    fmtList (fun c => fmtTuple [fmtInt c.1.1, fmtNat c.1.2.1, fmtNat c.1.2.2, fmtOptNat c.2]) (p.programs.zip np),
    fmtList (fun c => fmtTuple [fmtInt c.1.1, fmtNat c.1.2.1, fmtNat c.1.2.2, fmtInt c.2]) (p.timeSigs.zip mt),
    fmtList (fun c => fmtTuple [fmtInt c.1.1, fmtInt c.1.2.1, fmtBool c.1.2.2, fmtInt c.2]) (p.keySigs.zip mk),
    fmtList (fun c => fmtTuple [fmtInt c.1.1, fmtOptNat c.1.2, fmtInt c.2]) (p.metas.zip mm)]

/-- the loaded parts in seconds, numbered by `sanitize_track_numbers` (`none` if a part got no number) -/
def sparts (ppq d : Nat) (m : Bool) (tracks : List Track) : Option (List SPart) :=
  let kept := loadFile m tracks
  let sec := secondsAt d (loaderTracks m tracks) ppq
  (kept.zip ((loadNumbers kept).map partNumber)).mapM fun (t, j) => j.map fun j => toSPart sec j t

def fmtSPartInt (p : SPart) : String :=
  fmtTuple [
    fmtList (fun (n : PNote) => fmtTuple [fmtNat n.pitch, fmtNat n.vel, fmtNat n.ch, fmtNat n.track]) p.notes,
    fmtList (fun (c : PCtl) => fmtTuple [fmtNat c.num, fmtNat c.val, fmtNat c.ch, fmtNat c.track]) p.controls,
    fmtList (fun (g : PProg) => fmtTuple [fmtNat g.prog, fmtNat g.ch, fmtNat g.track]) p.programs]

def fmtSPartSec (p : SPart) : String :=
  fmtTuple [
    fmtList (fun (n : PNote) => fmtTuple [fmtRat n.on, fmtRat n.off]) p.notes,
    fmtList (fun (c : PCtl) => fmtRat c.time) p.controls,
    fmtList (fun (g : PProg) => fmtRat g.time) p.programs]

def fmtPartSec (sec : Int → Rat) (p : RTrack) : String :=
  fmtTuple [
    fmtList (fun (n : RNote) => fmtTuple [fmtRat (sec n.on), fmtRat (sec n.off)]) p.notes,
    fmtList (fun c => fmtRat (sec c.1)) p.controls,
    fmtList (fun c => fmtRat (sec c.1)) p.programs,
    fmtList (fun c => fmtRat (sec c.1)) p.timeSigs,
    fmtList (fun c => fmtRat (sec c.1)) p.keySigs,
    fmtList (fun c => fmtRat (sec c.1)) p.metas]

def pLoad : P (Nat × Nat × Bool × List Track) := do
  let ppq ← nat; let d ← nat; let m ← bool; let ts ← list (list pTMsg)
  pure (ppq, d, m, ts)

-- ------------------------------------------------------------------ round 5: histories of uses of one object

def pUse : P Use := do
  let k ← nat
  match k with
  | 0 => do let p ← bool; let d ← nat; let m ← bool; pure (Use.load p d m)
  | 1 => do let p ← bool; let d ← nat; let m ← bool; let z ← bool; pure (Use.loadPerf p d m z)
  | 2 => do let p ← bool; pure (Use.noteArray p)
  | 3 => pure Use.save
  | 4 => pure Use.iter
  | 5 => do let p ← bool; pure (Use.loadDefault p)
  | 6 => do let p ← bool; pure (Use.loadPerfDefault p)
  | _ => P.fail

def fmtObj (f : MidiObj) : String := fmtTuple [fmtNat f.ppq, fmtList fmtTrack f.tracks]

def fmtPPartSec (p : PPart) : String :=
  fmtTuple [
    fmtList (fun (n : PNote) => fmtTuple [fmtRat n.on, fmtRat n.off]) p.notes,
    fmtList (fun (c : PCtl) => fmtRat c.time) p.controls,
    fmtList (fun (g : PProg) => fmtRat g.time) p.programs,
    fmtList (fun (g : PTime) => fmtRat g.time) p.timeSigs,
    fmtList (fun (g : PKey) => fmtRat g.time) p.keySigs,
    fmtList (fun (g : PMetaO) => fmtRat g.time) p.metaOther]

/-- the order of the rows of a note array is not part of the check: both sides print them sorted -/
def nrowLe (a b : NRow) : Bool :=
  decide (a.1 < b.1) || (decide (a.1 = b.1) && (decide (a.2.1 < b.2.1) || (decide (a.2.1 = b.2.1) &&
    (decide (a.2.2.1 < b.2.2.1) || (decide (a.2.2.1 = b.2.2.1) && decide (a.2.2.2 ≤ b.2.2.2))))))

/-- the integer view of what a use returned -/
def fmtOutInt : Out → String
  | .loaded r => fmtTuple ["L", fmtList fmtPartInt (r.kept.zip ((loadNumbers r.kept).zip (loadMetaNumbers r.kept)))]
  | .performance _ r => fmtTuple ["P", match r with
    | some ps => fmtList (fun (p : PPart) => fmtSPartInt p.toSPart) ps
    | none => "err"]
  | .noteArray r => fmtTuple ["N", match r with
    | some rows => fmtList (fun (x : NRow) => fmtTuple [fmtInt x.1, fmtNat x.2.1, fmtNat x.2.2.1, fmtNat x.2.2.2]) (sortBy nrowLe rows)
    | none => "err"]
  | .saved f => fmtTuple ["S", fmtObj f]
  | .messages abs => fmtTuple ["I", fmtList fmtTrack abs]

/-- the seconds of what a use returned -/
def fmtOutSec : Out → String
  | .loaded r => (match r.parts with
    | some ps => fmtList fmtPPartSec ps
    | none => "err")
  | .performance _ r => (match r with
    | some ps => fmtList (fun (p : PPart) => fmtSPartSec p.toSPart) ps
    | none => "err")
  | _ => "[]"

def pHist : P (MidiObj × List Use) := do
  let ppq ← nat; let ts ← list (list pTMsg); let us ← list pUse
  pure (⟨ppq, ts⟩, us)

def pSaveOpts : P SaveOpts := do
  let dflt ← bool; let ppq ← nat; let mpq ← nat; let m ← bool; let o ← bool
  pure (if dflt then SaveOpts.defaults o else { ppq := ppq, mpq := mpq, merge := m, toObject := o })

def pPerfArg : P PerfArg := do
  let k ← nat; let ps ← list pPart
  match k, ps with
  | 0, ps => pure (PerfArg.performance ps)
  | 1, [p] => pure (PerfArg.part p)
  | 2, ps => pure (PerfArg.parts ps)
  | 3, ps => pure (PerfArg.mixed ps)
  | 4, _ => pure PerfArg.other
  | _, _ => P.fail

def fmtFile (r : Option (Nat × List Track)) : String :=
  match r with
  | some r => fmtTuple [fmtNat r.1, fmtList fmtTrack r.2]
  | none => "err"

def handle (ts : List String) : String :=
  match ts with
  | "hist" :: rest =>
    -- hist ppq tracks uses -> ([integer view of every result],object at the end)
    orErr <| (run pHist rest).bind fun (f, us) =>
      if f.ppq = 0 then none else
      let r := runUses f us
      some (fmtTuple [fmtList fmtOutInt r.2, fmtObj r.1])
  | "histt" :: rest =>
    orErr <| (run pHist rest).bind fun (f, us) =>
      if f.ppq = 0 then none else
      some (fmtList fmtOutSec (runUses f us).2)
  | "saves" :: rest =>
    -- saves kind parts options -> [file or err], every save of the history; the ticks in binary64 (`quantF`)
    orErr <| (run (do let a ← pPerfArg; let os ← list pSaveOpts; pure (a, os)) rest).bind fun (a, os) =>
      if os.any (fun o => o.mpq = 0) then none else
      some (fmtList fmtFile (runSaves quantF a os).2)
  | "isaves" :: rest =>
    -- isaves foreign parts options -> [file or err], every save of ONE one-shot iterable of these parts (round 6)
    orErr <| (run (do let f ← bool; let ps ← list pPart; let os ← list pSaveOpts; pure (f, ps, os)) rest).bind
      fun (f, ps, os) =>
        if os.any (fun o => o.mpq = 0) then none else
        some (fmtList fmtFile (runOneShot quantF ⟨ps, f⟩ os).2)
  | "exp" :: rest =>
    -- exp ppq mpq merge parts  ->  (type,[tracks in delta times]); the ticks in binary64 (`quantF`)
    orErr <| (run (do let ppq ← nat; let mpq ← nat; let m ← bool; let ps ← list pPart
                      pure (ppq, mpq, m, ps)) rest).bind fun (ppq, mpq, m, ps) =>
      if mpq = 0 then none else
      let r := exportFile (quantF mpq ppq) mpq m ps
      some (fmtTuple [fmtNat r.1, fmtList fmtTrack r.2])
  | "load" :: rest =>
    orErr <| (run pLoad rest).bind fun (ppq, d, m, tracks) =>
      if ppq = 0 then none else
      -- round 6 (fixes/C06-8): the notes in the order of their final seconds, as the loader computes them
      let kept := loadFileS (secondsAtF d (loaderTracks m tracks) ppq) m tracks
      some (fmtList fmtPartInt (kept.zip ((loadNumbers kept).zip (loadMetaNumbers kept))))
  | "loadt" :: rest =>
    orErr <| (run pLoad rest).bind fun (ppq, d, m, tracks) =>
      if ppq = 0 then none else
      let sec := secondsAt d (loaderTracks m tracks) ppq
      some (fmtList (fmtPartSec sec) (loadFileS (secondsAtF d (loaderTracks m tracks) ppq) m tracks))
  | "loadf" :: rest =>
    -- the seconds of every loaded event as the loader computes them, in binary64 (`secondsAtF`): compared exactly
    orErr <| (run pLoad rest).bind fun (ppq, d, m, tracks) =>
      if ppq = 0 then none else
      let sec := secondsAtF d (loaderTracks m tracks) ppq
      some (fmtList (fmtPartSec sec) (loadFileS sec m tracks))
  | "sil" :: rest =>
    -- load_performance(first_note_at_zero=True): integer view of all parts
    orErr <| (run pLoad rest).bind fun (ppq, d, m, tracks) =>
      if ppq = 0 then none else
      (sparts ppq d m tracks).map fun ps => fmtList fmtSPartInt (loadPerformance true ps)
  | "silt" :: rest =>
    orErr <| (run pLoad rest).bind fun (ppq, d, m, tracks) =>
      if ppq = 0 then none else
      (sparts ppq d m tracks).map fun ps => fmtList fmtSPartSec (loadPerformance true ps)
  | "tempi" :: rest =>
    orErr <| (run pLoad rest).bind fun (_, d, m, tracks) =>
      some (fmtList (fun (p : Int × Nat) => fmtTuple [fmtInt p.1, fmtNat p.2]) (tempoList d (loaderTracks m tracks)))
  | "adj" :: rest =>
    -- adj tick ppq tempo-list
    orErr <| (run (do let k ← int; let ppq ← nat
                      let tc ← list (do let t ← int; let m ← nat; pure (t, m))
                      pure (k, ppq, tc)) rest).bind fun (k, ppq, tc) =>
      if ppq = 0 then none else (adjustTime k tc ppq).map fmtRat
  | "merge" :: rest =>
    -- mido.merge_tracks on delta-time tracks -> delta-time track
    orErr <| (run (list (list pTMsg)) rest).map fun tracks =>
      fmtTrack (toDelta (mergeAbs (tracks.map toAbs)))
  | "san" :: rest =>
    orErr <| (run (list (list int)) rest).map fun parts =>
      fmtList (fmtList (fmtOpt fmtNat)) (sanitize parts)
  | "sanm" :: rest =>
    -- sanm parts, each: tracks of notes/controls/programs, tracks of key/time signatures and other meta
    orErr <| (run (list (do let a ← list int; let b ← list int; pure (a, b))) rest).map fun parts =>
      fmtList (fmtList fmtInt) (sanitizeMeta parts)
  | "regen" :: rest =>
    -- regen ppq1 d ml fnz one ppq2 mpq2 ms tracks -> (type,[tracks in delta times]) of the second file
    orErr <| (run (do let ppq1 ← nat; let d ← nat; let ml ← bool; let fnz ← bool; let one ← bool
                      let ppq2 ← nat; let mpq2 ← nat; let ms ← bool; let ts ← list (list pTMsg)
                      pure (ppq1, d, ml, fnz, one, ppq2, mpq2, ms, ts)) rest).bind
      fun (ppq1, d, ml, fnz, one, ppq2, mpq2, ms, ts) =>
        if ppq1 = 0 || mpq2 = 0 then none else
        (regen (quant mpq2 ppq2) ppq1 d ml fnz one ts mpq2 ms).map fun r =>
          fmtTuple [fmtNat r.1, fmtList fmtTrack r.2]
  | "regenf" :: rest =>
    -- regenf ppq1 d ml one ppq2 mpq2 ms tracks -> the second file, every number in binary64 (no tolerance, no exclusion)
    orErr <| (run (do let ppq1 ← nat; let d ← nat; let ml ← bool; let one ← bool
                      let ppq2 ← nat; let mpq2 ← nat; let ms ← bool; let ts ← list (list pTMsg)
                      pure (ppq1, d, ml, one, ppq2, mpq2, ms, ts)) rest).bind
      fun (ppq1, d, ml, one, ppq2, mpq2, ms, ts) =>
        if ppq1 = 0 || mpq2 = 0 then none else
        (regenF ppq1 d ml one ts ppq2 mpq2 ms).map fun r => fmtTuple [fmtNat r.1, fmtList fmtTrack r.2]
  | _ => "bad-request"

def main : IO Unit := mainLoop handle
