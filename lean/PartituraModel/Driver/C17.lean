import PartituraModel.Wire
import PartituraModel.Model.Ps13
import PartituraModel.Model.Voices
import PartituraModel.Model.KeyEst

open Wire Model

def orErr (o : Option String) : String := o.getD "err"

def fmtSpelling (s : String × Int × Int) : String := fmtTuple [s.1, fmtInt s.2.1, fmtInt s.2.2]

/-- canonical order of (row, spelling) pairs: by onset, pitch, step, alter, octave — rows that
    agree in onset and pitch are interchangeable for ps13 (unstable `argsort` in the code) -/
def spLe (a b : Ps13.Row × (String × Int × Int)) : Bool :=
  let ka := a.1; let kb := b.1
  if ka.1 < kb.1 then true else if kb.1 < ka.1 then false
  else if ka.2 < kb.2 then true else if kb.2 < ka.2 then false
  else if a.2.1 < b.2.1 then true else if b.2.1 < a.2.1 then false
  else if a.2.2.1 < b.2.2.1 then true else if b.2.2.1 < a.2.2.1 then false
  else decide (a.2.2.2 ≤ b.2.2.2)

def parseProfileSet : P KeyEst.ProfileSet := do
  let t ← tok
  match t with
  | "kk" => pure .kk
  | "cbms" => pure .cbms
  | "kp" => pure .kp
  | _ => P.fail

def pRow : P Ps13.Row := do let o ← rat; let p ← int; pure (o, p)
def pVNote : P Voices.VNote := do let p ← int; let o ← rat; let d ← rat; pure (p, o, d)
def pIdVoice : P (Nat × Int) := do let i ← nat; let v ← int; pure (i, v)
def pKNote : P KeyEst.KNote := do let p ← int; let d ← rat; pure (p, d)

def handle (ts : List String) : String :=
  match ts with
  | "ps13" :: rest =>
    orErr <| (run (do let a ← nat; let b ← nat; let rows ← list pRow; pure (a, b, rows)) rest).bind
      fun (a, b, rows) => (Ps13.ps13 a b rows).map fun sp =>
        fmtList (fun x => fmtSpelling x.2) ((rows.zip sp).mergeSort spLe)
  | "morphs" :: rest =>
    orErr <| (run (do let a ← nat; let b ← nat; let ch ← list nat; pure (a, b, ch)) rest).bind
      fun (a, b, ch) => match ch with
        | [] => none
        | c0 :: _ => some (fmtList fmtNat (Ps13.morphArray c0 ch (Ps13.chromaVectors ch a b)))
  | "cvec" :: rest =>
    orErr <| (run (do let a ← nat; let b ← nat; let ch ← list nat; pure (a, b, ch)) rest).bind
      fun (a, b, ch) => match ch with
        | [] => none
        | _ => some (fmtList (fun v => fmtList fmtInt ((List.range 12).map v.get)) (Ps13.chromaVectors ch a b))
  | "cm" :: rest =>
    orErr <| (run (do let c ← int; let m ← int; pure (c, m)) rest).map fun (c, m) =>
      let mp := Ps13.morpheticPitch c m
      let s := Ps13.p2pn c mp
      fmtTuple [fmtInt mp, s.1, fmtInt s.2.1, fmtInt s.2.2]
  | "p2pn" :: rest =>
    orErr <| (run (do let c ← int; let m ← int; pure (c, m)) rest).map fun (c, mp) =>
      fmtSpelling (Ps13.p2pn c mp)
  | "voices" :: rest =>
    orErr <| (run (do let mono ← bool; let notes ← list pVNote; let out ← list pIdVoice
                      pure (mono, notes, out)) rest).bind
      fun (mono, notes, out) => (Voices.estimateVoices (fun _ => out) mono notes).map (fmtList fmtInt)
  | "vin" :: rest =>
    orErr <| (run (do let mono ← bool; let notes ← list pVNote; pure (mono, notes)) rest).map
      fun (mono, notes) => fmtList (fun r => fmtNat r.1) (Voices.vosaInput mono notes)
  | "rename" :: rest =>
    orErr <| (run (list int) rest).map fun vs => fmtList fmtInt (Voices.rename vs)
  | "final" :: rest =>
    orErr <| (run (list int) rest).bind fun vs => (Voices.finalize vs).map (fmtList fmtInt)
  | "key" :: rest =>
    orErr <| (run (do let ps ← parseProfileSet; let notes ← list pKNote; pure (ps, notes)) rest).bind
      fun (ps, notes) => KeyEst.estimateKey ps notes
  | "keyname" :: rest =>
    orErr <| (run nat rest).bind KeyEst.keyNameAt
  | _ => "bad-request"

def main : IO Unit := mainLoop handle
