import PartituraModel.Wire
import PartituraModel.Model.Ps13
import PartituraModel.Model.Voices
import PartituraModel.Model.KeyEst
import PartituraModel.Model.Vosa
import PartituraModel.Model.C17Wrap
import PartituraModel.Model.C17Float
import PartituraModel.Model.C17Midi

open Wire Model

def orErr (o : Option String) : String := o.getD "err"

def fmtSpelling (s : String × Int × Int) : String := fmtTuple [s.1, fmtInt s.2.1, fmtInt s.2.2]

/-- canonical order of (row, spelling) pairs: by onset, pitch, step, alter, octave — rows that
    agree in onset and pitch are interchangeable for ps13 (unstable `argsort` in the code) -/
def spLe (a b : Ps13.Row × (String × Int × Int)) : Bool :=
  let ka := a.1; let kb := b.1
  if ka.1 < kb.1 then true else if kb.1 < ka.1 then false
  else if ka.2 < kb.2 then true else if kb.2 < ka.2 then false
  else if a.2.1 < b.2.1 then true else if b.2.1 < a.2.1 then false
  else if a.2.2.1 < b.2.2.1 then true else if b.2.2.1 < a.2.2.1 then false
  else decide (a.2.2.2 ≤ b.2.2.2)

def parseProfileSet : P KeyEst.ProfileSet := do
  let t ← tok
  match t with
  | "kk" => pure .kk
  | "cbms" => pure .cbms
  | "kp" => pure .kp
  | _ => P.fail

def pRow : P Ps13.Row := do let o ← rat; let p ← int; pure (o, p)
def pVNote : P Voices.VNote := do let p ← int; let o ← rat; let d ← rat; pure (p, o, d)
def pIdVoice : P (Nat × Int) := do let i ← nat; let v ← int; pure (i, v)
def pVRow : P Vosa.Row := do
  let i ← nat; let p ← int; let o ← rat; let d ← rat; let f ← rat; pure (i, p, o, d, f)
def pVNoteOff : P (Voices.VNote × Rat) := do
  let p ← int; let o ← rat; let d ← rat; let f ← rat; pure ((p, o, d), f)
/-- a note of a `pairwise_cost` argument: (object number, pitch, skip_contig) -/
def pCostNote : P (Nat × Int × Nat) := do let i ← nat; let p ← int; let s ← nat; pure (i, p, s)
def fmtIdVoice (x : Nat × Int) : String := fmtTuple [fmtNat x.1, fmtInt x.2]
def costNote (x : Nat × Int × Nat) : Vosa.N := { ix := x.1, id := x.1, p := x.2.1, on := 0, du := 0, off := 0 }
def skipArray (l : List (Nat × Int × Nat)) : Array Nat :=
  l.foldl (fun a x => a.setIfInBounds x.1 x.2.2) (Array.replicate ((l.map (·.1)).foldl max 0 + 1) 0)
def pCol : P (String × List Rat) := do let n ← str; let c ← list rat; pure (n, c)
def pArr : P C17Wrap.NoteArray := do
  let p ← opt (list int); let cols ← list pCol; pure { pitch := p, cols := cols }
def pKwNat : P (String × Nat) := do let n ← str; let v ← nat; pure (n, v)
def pKwVal : P (String × C17Wrap.KwVal) := do
  let n ← str; let t ← tok
  match t with
  | "s" => do let v ← str; pure (n, .str v)
  | "b" => do let v ← bool; pure (n, .bool v)
  | _ => P.fail
def pKNote : P KeyEst.KNote := do let p ← int; let d ← rat; pure (p, d)

def pMsg : P C17Midi.Msg := do
  let ty ← str; let dt ← nat; let ch ← nat; let n ← nat; let v ← nat
  pure { type := ty, dt := dt, ch := ch, note := n, vel := v }

def lexLe : List Int → List Int → Bool
  | [], _ => true
  | _ :: _, [] => false
  | a :: as, b :: bs => if a < b then true else if b < a then false else lexLe as bs

/-- canonical order of the notes of a part: the score keeps them on a timeline, the model in the order of `note_list` -/
def noteKey (ids : Bool) (n : C17Midi.NoteOut) : List Int :=
  [n.onset, n.pitch, n.dur, n.voice, ((n.step.toList.head?.map Char.toNat).getD 0 : Nat), n.alter, n.octave, if ids then (n.idx : Int) else 0]

def fmtNoteOut (n : C17Midi.NoteOut) : String :=
  fmtTuple [fmtInt n.onset, fmtInt n.pitch, fmtInt n.dur, fmtInt n.voice, n.step, fmtInt n.alter, fmtInt n.octave, n.id.getD "-"]

def fmtPartOut (ids : Bool) (p : C17Midi.PartOut) : String :=
  fmtTuple [p.id, p.key.getD "-", fmtList fmtNoteOut (p.notes.mergeSort fun a b => lexLe (noteKey ids a) (noteKey ids b))]

def handle (ts : List String) : String :=
  match ts with
  | "midix" :: rest =>
    -- `load_score_midi` from the messages of the file to the notes of the parts of the score; an argument that the
    -- call omitted (`-`, for the unit: flag 0) takes the default of the signature (Gen/C17MidiTables.lean)
    orErr <| (run (do let mode ← opt nat; let quGiven ← bool; let qu ← opt nat; let ev ← opt bool; let ek ← opt bool
                      let ids ← opt bool
                      let tracks ← list (list pMsg); pure (mode, quGiven, qu, ev, ek, ids, tracks)) rest).bind
      fun (mode, quGiven, qu, ev, ek, ids, tracks) =>
        let ids' := ids.getD Gen.MIDI_DEFAULT_IDS
        (C17Midi.loadScoreMidi (mode.getD Gen.MIDI_DEFAULT_MODE) (if quGiven then qu else Gen.MIDI_DEFAULT_QU)
          (ev.getD Gen.MIDI_DEFAULT_VOICE) (ek.getD Gen.MIDI_DEFAULT_KEY) ids' tracks).map (fmtList (fmtPartOut ids'))
  | "midinotes" :: rest =>
    -- the array handed to the three estimators: `note_list` (onset, pitch, duration)
    orErr <| (run (do let qu ← opt nat; let tracks ← list (list pMsg); pure (qu, tracks)) rest).bind
      fun (qu, tracks) =>
        (C17Midi.perKeyNotes (C17Midi.notesByTrackCh qu tracks)).map fun perKey =>
          fmtList (fun n => fmtTuple [fmtInt n.1, fmtInt n.2.1, fmtInt n.2.2]) (C17Midi.noteList perKey)
  | "midiassign" :: rest =>
    orErr <| (run (do let mode ← nat; let keys ← list (do let a ← nat; let b ← nat; pure (a, b)); pure (mode, keys)) rest).map
      fun (mode, keys) =>
        let o := fun (x : Option Nat) => (x.map fmtNat).getD "-"
        fmtList (fun g => fmtTuple [o g.1, o g.2.1, o g.2.2]) (C17Midi.assign mode keys)
  | "notehash" :: rest =>
    orErr <| (run (do let a ← nat; let b ← nat; pure (a, b)) rest).map fun (a, b) => fmtNat (Gen.noteHash a b)
  | "quant" :: rest =>
    orErr <| (run (do let qu ← opt nat; let t ← nat; pure (qu, t)) rest).map fun (qu, t) => fmtInt (C17Midi.quantT qu t)
  | "ps13" :: rest =>
    -- the spelling as the code computes it: binary64 where the code uses binary64 (`C17.spelling_binary64`: the same
    -- as `Ps13.ps13` on MIDI pitches); "ps13x" is the exact model
    orErr <| (run (do let a ← nat; let b ← nat; let rows ← list pRow; pure (a, b, rows)) rest).bind
      fun (a, b, rows) => (C17Float.ps13F a b rows).map fun sp =>
        fmtList (fun x => fmtSpelling x.2) ((rows.zip sp).mergeSort spLe)
  | "ps13x" :: rest =>
    orErr <| (run (do let a ← nat; let b ← nat; let rows ← list pRow; pure (a, b, rows)) rest).bind
      fun (a, b, rows) => (Ps13.ps13 a b rows).map fun sp =>
        fmtList (fun x => fmtSpelling x.2) ((rows.zip sp).mergeSort spLe)
  | "morphs" :: rest =>
    orErr <| (run (do let a ← nat; let b ← nat; let ch ← list nat; pure (a, b, ch)) rest).bind
      fun (a, b, ch) => match ch with
        | [] => none
        | c0 :: _ => some (fmtList fmtNat (Ps13.morphArray c0 ch (Ps13.chromaVectors ch a b)))
  | "cvec" :: rest =>
    orErr <| (run (do let a ← nat; let b ← nat; let ch ← list nat; pure (a, b, ch)) rest).bind
      fun (a, b, ch) => match ch with
        | [] => none
        | _ => some (fmtList (fun v => fmtList fmtInt ((List.range 12).map v.get)) (Ps13.chromaVectors ch a b))
  | "cm" :: rest =>
    orErr <| (run (do let c ← int; let m ← int; pure (c, m)) rest).map fun (c, m) =>
      let mp := Ps13.morpheticPitch c m
      let s := Ps13.p2pn c mp
      fmtTuple [fmtInt mp, s.1, fmtInt s.2.1, fmtInt s.2.2]
  | "cmf" :: rest =>
    orErr <| (run (do let c ← int; let m ← int; pure (c, m)) rest).map fun (c, m) =>
      let mp := C17Float.morpheticPitchF c m
      let s := C17Float.p2pnF c mp
      fmtTuple [fmtInt mp, s.1, fmtInt s.2.1, fmtInt s.2.2]
  | "fl" :: rest =>
    orErr <| (run rat rest).map fun q => fmtRat (C17Float.fl q).toRat
  | "fop" :: rest =>
    orErr <| (run (do let op ← tok; let a ← rat; let b ← rat; pure (op, a, b)) rest).bind fun (op, a, b) =>
      let x := C17Float.fl a
      let y := C17Float.fl b
      match op with
      | "add" => some (fmtRat (C17Float.fadd x y).toRat)
      | "sub" => some (fmtRat (C17Float.fsub x y).toRat)
      | "div" => if b = 0 then none else some (fmtRat (C17Float.fdiv x y).toRat)
      | "floor" => some (fmtInt x.floor)
      | "lt" => some (if C17Float.Dy.lt x y then "1" else "0")
      | _ => none
  | "lg" :: rest =>
    orErr <| (run nat rest).bind fun n => if n = 0 then none else some (fmtNat (C17Float.lg n))
  | "p2pn" :: rest =>
    orErr <| (run (do let c ← int; let m ← int; pure (c, m)) rest).map fun (c, mp) =>
      fmtSpelling (Ps13.p2pn c mp)
  | "voices" :: rest =>
    orErr <| (run (do let mono ← bool; let notes ← list pVNote; let out ← list pIdVoice
                      pure (mono, notes, out)) rest).bind
      fun (mono, notes, out) => (Voices.estimateVoices (fun _ => out) mono notes).map (fmtList fmtInt)
  | "vin" :: rest =>
    orErr <| (run (do let mono ← bool; let notes ← list pVNote; pure (mono, notes)) rest).map
      fun (mono, notes) => fmtList (fun r => fmtNat r.1) (Voices.vosaInput mono notes)
  | "vosa" :: rest =>
    orErr <| (run (list pVRow) rest).bind fun rows => (Vosa.run rows).map (fmtList fmtIdVoice)
  | "contigs" :: rest =>
    orErr <| (run (list pVRow) rest).bind fun rows =>
      (Vosa.contigsOf rows).map (fmtList (fmtList (fmtList fmtNat)))
  | "voicesx" :: rest =>
    orErr <| (run (do let mono ← bool; let notes ← list pVNoteOff; pure (mono, notes)) rest).bind
      fun (mono, notes) =>
        (Vosa.estimateVoicesWith (notes.map (·.2)) mono (notes.map (·.1))).map (fmtList fmtInt)
  | "voicesxx" :: rest =>
    -- wrapper and search with exact sums as offsets (`Vosa.estimateVoicesExact`, the function of `voices_total_exact`)
    orErr <| (run (do let mono ← bool; let notes ← list pVNote; pure (mono, notes)) rest).bind
      fun (mono, notes) => (Vosa.estimateVoicesExact mono notes).map (fmtList fmtInt)
  | "cost" :: rest =>
    orErr <| (run (do let a ← list pCostNote; let b ← list pCostNote; pure (a, b)) rest).bind
      fun (a, b) => (Vosa.pairwiseCost (skipArray (a ++ b)) (a.map costNote) (b.map costNote)).map
        (fmtList (fmtList fmtInt))
  | "best" :: rest =>
    orErr <| (run (do let next ← bool; let m ← list (list int); pure (next, m)) rest).bind
      fun (next, m) =>
        let nCols := (m.head?.map (·.length)).getD 0
        (if next then Vosa.transpose nCols m else some m).map fun con =>
          let r := Vosa.estBest con (if next then m.length else nCols)
          fmtTuple [fmtList (fun x => fmtTuple [fmtNat x.1, fmtNat x.2]) r.1, fmtList fmtNat r.2]
  | "units" :: rest =>
    orErr <| (run (list str) rest).bind fun fs => (C17Wrap.timeUnits fs).map fun u => fmtTuple [u.1, u.2]
  | "prep" :: rest =>
    orErr <| (run pArr rest).bind fun a => (C17Wrap.prepare a).map
      (fmtList fun r => fmtTuple [fmtInt r.1, fmtRat r.2.1, fmtRat r.2.2])
  | "voarr" :: rest =>
    orErr <| (run (do let mono ← bool; let a ← pArr; let offs ← list rat; pure (mono, a, offs)) rest).bind
      fun (mono, a, offs) => (C17Wrap.estimateVoicesArr offs mono a).map (fmtList fmtInt)
  | "keyarr" :: rest =>
    orErr <| (run (do let nm ← opt str; let a ← pArr; pure (nm, a)) rest).bind
      fun (nm, a) => C17Wrap.estimateKeyArr nm a
  | "psarr" :: rest =>
    orErr <| (run pArr rest).bind fun a => (C17Wrap.spellingRows a).bind fun rows =>
      (C17Float.ps13F Gen.PS13_K_PRE Gen.PS13_K_POST rows).map fun sp =>
        fmtList (fun x => fmtSpelling x.2) ((rows.zip sp).mergeSort spLe)
  | "psopt" :: rest =>
    orErr <| (run (do let m ← opt str; let kw ← list pKwNat; let a ← pArr; pure (m, kw, a)) rest).bind
      fun (m, kw, a) => (C17Wrap.estimateSpellingOpts m kw a).bind fun sp => (C17Wrap.spellingRows a).map fun rows =>
        fmtList (fun x => fmtSpelling x.2) ((rows.zip sp).mergeSort spLe)
  | "keyopt" :: rest =>
    orErr <| (run (do let m ← opt str; let n ← nat; let kw ← list pKwVal; let a ← pArr; pure (m, n, kw, a)) rest).bind
      fun (m, n, kw, a) => (C17Wrap.estimateKeyOpts m n kw a).map fun r =>
        match r with
        | .one nm => nm
        | .ranking l => fmtList id l
  | "profname" :: rest =>
    orErr <| (run (opt str) rest).bind fun nm => (C17Wrap.estimateKeySet nm).map C17Wrap.setName
  | "kskid" :: rest =>
    orErr <| (run str rest).bind fun nm => (C17Wrap.ksKidSet nm).map C17Wrap.setName
  | "corrs" :: rest =>
    orErr <| (run (do let ps ← parseProfileSet; let notes ← list pKNote; pure (ps, notes)) rest).map
      fun (ps, notes) => match C17Wrap.corrSquares ps notes with
        | none => fmtList id (List.replicate 24 "nan")
        | some l => fmtList fmtRat l
  | "keysorted" :: rest =>
    orErr <| (run (do let ps ← parseProfileSet; let notes ← list pKNote; pure (ps, notes)) rest).bind
      fun (ps, notes) => some (fmtList id (C17Wrap.sortedKeys ps notes))
  | "rename" :: rest =>
    orErr <| (run (list int) rest).map fun vs => fmtList fmtInt (Voices.rename vs)
  | "final" :: rest =>
    orErr <| (run (list int) rest).bind fun vs => (Voices.finalize vs).map (fmtList fmtInt)
  | "key" :: rest =>
    orErr <| (run (do let ps ← parseProfileSet; let notes ← list pKNote; pure (ps, notes)) rest).bind
      fun (ps, notes) => C17Wrap.estimateKeyFast ps notes
  | "keyname" :: rest =>
    orErr <| (run nat rest).bind KeyEst.keyNameAt
  | _ => "bad-request"

def main : IO Unit := mainLoop handle
