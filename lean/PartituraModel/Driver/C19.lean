import PartituraModel.Wire
import PartituraModel.Model.Kern
import PartituraModel.Model.KernPbv
import PartituraModel.Model.KernDur
import PartituraModel.Model.Mei
import PartituraModel.Model.MeiAccept
import PartituraModel.Model.KernWrite
import PartituraModel.Model.LoadDispatch
import PartituraModel.Model.MeiWrite

open Wire Model

namespace C19Drv

def cell : P (List Char) := do
  let s ← str
  pure s.toList

def kernDoc : P (List (List (List Char))) := list (list cell)

def meiEv : P Mei.Ev := do
  let t ← tok
  if t = "O" then
    let tag ← str
    let as ← list (do let k ← str; let v ← str; pure (k, v))
    pure (Mei.Ev.op tag as)
  else if t = "C" then pure Mei.Ev.cl
  else P.fail

def meiDoc : P (List Mei.Ev) := list meiEv

def kindStr (k : Nat) : String := if k = 0 then "n" else if k = 1 then "g" else "r"

def stepStr (s : String) : String := if s = "" then "R" else s

def fmtKNote (n : Kern.Note) : String :=
  fmtTuple [fmtRat n.onset, fmtRat n.dur, kindStr n.kind, stepStr n.step, fmtInt n.alter, fmtInt n.octave,
            fmtNat n.voice, fmtNat n.staff, fmtBool n.tp, fmtBool n.tn]

def fmtMNote (n : Mei.Note) : String :=
  fmtTuple [fmtRat n.onset, fmtRat n.dur, kindStr n.kind, stepStr n.step, fmtInt n.alter, fmtInt n.octave,
            fmtNat n.voice, fmtNat n.staff, fmtBool n.tp, fmtBool n.tn]

def fmtJoined (j : Kern.Sounding × Nat × Nat) : String :=
  fmtTuple [fmtRat j.1.onset, fmtRat j.1.dur, j.1.step, fmtInt j.1.alter, fmtInt j.1.octave, fmtNat j.2.1, fmtNat j.2.2]

def fmtKMeasure (m : Nat × Option Nat × Rat × Rat) : String :=
  fmtTuple [fmtNat m.1, fmtOpt fmtNat m.2.1, fmtRat m.2.2.1, fmtRat m.2.2.2]

def fmtMMeasure (m : Nat × Option String × Rat × Rat) : String :=
  fmtTuple [fmtNat m.1, fmtOpt id m.2.1, fmtRat m.2.2.1, fmtRat m.2.2.2]

def fmtClef (c : Rat × Nat × String × Nat × Int) : String :=
  fmtTuple [fmtRat c.1, fmtNat c.2.1, c.2.2.1, fmtNat c.2.2.2.1, fmtInt c.2.2.2.2]

def fmtTs (t : Rat × Nat × Nat) : String := fmtTuple [fmtRat t.1, fmtNat t.2.1, fmtNat t.2.2]

def kernAnswer (what : String) (ps : List Kern.Part) : String :=
  match what with
  | "notes" => fmtList (fun (p : Kern.Part) => fmtList fmtKNote p.notes) ps
  | "joined" => fmtList (fun (p : Kern.Part) => fmtList fmtJoined p.joined) ps
  | "meas" => fmtList (fun (p : Kern.Part) => fmtList fmtKMeasure p.measures) ps
  | "sigs" => fmtList (fun (p : Kern.Part) =>
      fmtTuple [fmtList fmtTs p.tsigs, fmtList (fun (k : Rat × Int) => fmtTuple [fmtRat k.1, fmtInt k.2]) p.ksigs,
                fmtList fmtClef p.clefs]) ps
  | "divs" => fmtList (fun (p : Kern.Part) => fmtNat (Kern.partDivs p)) ps
  | _ => "bad-request"

def meiAnswer (what : String) (ps : List Mei.Part) : String :=
  match what with
  | "notes" => fmtList (fun (p : Mei.Part) => fmtList fmtMNote p.notes) ps
  | "joined" => fmtList (fun (p : Mei.Part) => fmtList fmtJoined p.joined) ps
  | "meas" => fmtList (fun (p : Mei.Part) => fmtList fmtMMeasure p.measures) ps
  | "sigs" => fmtList (fun (p : Mei.Part) =>
      fmtTuple [fmtList fmtTs p.tsigs,
                fmtList (fun (k : Rat × Int × Option String) => fmtTuple [fmtRat k.1, fmtInt k.2.1, fmtOpt id k.2.2]) p.ksigs,
                fmtList fmtClef p.clefs]) ps
  | "ppq" => fmtList (fun (p : Mei.Part) => fmtOpt fmtRat p.ppq) ps
  | _ => "bad-request"

def durEl : P Mei.DurEl := do
  let v ← rat
  let d ← nat
  let t ← opt (do let a ← nat; let b ← nat; pure (a, b))
  let p ← opt nat
  pure ⟨v, d, t, p⟩


/-! ### the writers -/

open Model.KernWrite in
def xnote : P XNote := do
  let kind ← nat
  let voice ← nat
  let staff ← nat
  let sym ← opt (do
    let ty ← str
    let dots ← nat
    let tup ← opt (do let a ← nat; let b ← nat; pure (a, b))
    pure (⟨ty, dots, tup⟩ : SymDur))
  let step ← str
  let alter ← opt int
  let octave ← int
  let tn ← bool
  let tp ← bool
  let dur ← nat
  pure { kind := kind, voice := voice, staff := staff, sym := sym, step := step, alter := alter, octave := octave,
         tieNext := tn, tiePrev := tp, dur := dur }

open Model.KernWrite in
def xel : P El := do
  let t ← tok
  if t = "N" then (do let n ← xnote; pure (El.note n))
  else if t = "C" then (do let st ← nat; let sg ← str; let ln ← nat; pure (El.clef st sg ln))
  else if t = "M" then (do let n ← int; pure (El.measure n))
  else if t = "T" then (do let b ← nat; let u ← nat; pure (El.tsig b u))
  else if t = "K" then (do let f ← int; pure (El.ksig f))
  else if t = "O" then pure El.other
  else P.fail

open Model.KernWrite in
def xpart : P XPart := do
  let divs ← nat
  let pts ← list (do let t ← nat; let els ← list xel; pure (t, els))
  pure { divs := divs, points := pts }

/-- the percent-encoding of `wire.s` (ASCII) -/
def encChar (c : Char) : List Char :=
  if c.isAlphanum || "_.#:+=<>!?@^&*;'\"|~`$".toList.contains c then [c]
  else
    let hex := "0123456789abcdef".toList
    ['%', hex.getD (c.toNat / 16 % 16) '0', hex.getD (c.toNat % 16) '0']

def encCell (cs : List Char) : String :=
  if cs = [] then "%" else if cs = ['-'] then "%2d" else String.ofList (cs.flatMap encChar)

def fmtRows (rows : List (List (List Char))) : String := fmtList (fmtList encCell) rows

def fmtFact (f : KernWrite.Fact) : String :=
  fmtTuple [fmtRat f.onset, fmtRat f.dur, kindStr f.kind, stepStr f.step, fmtInt f.alter, fmtInt f.octave, fmtNat f.staff]

/-- are all the facts among the notes the document denotes? (multiset inclusion, by removing one match per fact) -/
def removeFirst (f : KernWrite.Fact) : List KernWrite.Fact → Option (List KernWrite.Fact)
  | [] => none
  | g :: rest => if g = f then some rest else (removeFirst f rest).map (g :: ·)

def missing : List KernWrite.Fact → List KernWrite.Fact → List KernWrite.Fact
  | [], _ => []
  | f :: fs, pool => match removeFirst f pool with
    | some pool' => missing fs pool'
    | none => f :: missing fs pool

open Model.MeiWrite in
def mnote : P MNote := do
  let id ← str
  let start ← nat
  let n ← xnote
  pure ⟨id, start, n⟩

open Model.MeiWrite in
def mtuplet : P MTuplet := do
  let a ← str
  let b ← str
  let t1 ← nat
  let t2 ← nat
  let t3 ← nat
  let same ← bool
  let ratio ← opt (do let x ← nat; let y ← nat; pure (x, y))
  pure ⟨a, b, t1, t2, t3, same, ratio⟩

open Model.MeiWrite in
def keysig : P KeySig := do
  let t ← nat
  let f ← int
  let mode ← opt str
  let pname ← str
  pure ⟨t, f, mode, pname⟩

open Model.MeiWrite in
def mmeasure : P MMeasure := do
  let number ← int
  let start ← nat
  let end_ ← nat
  let notes ← list mnote
  let tuplets ← list mtuplet
  let keys ← list keysig
  let meters ← list (do let t ← nat; let b ← nat; let u ← nat; pure (t, b, u))
  pure ⟨number, start, end_, notes, tuplets, keys, meters⟩

open Model.MeiWrite in
def mpart : P MPart := do
  let title ← str
  let divs ← nat
  let nstaves ← nat
  let clefs ← list (do let st ← nat; let sg ← str; let ln ← nat; pure (st, sg, ln))
  let key0 ← opt keysig
  let meter0 ← opt (do let b ← nat; let u ← nat; pure (b, u))
  let measures ← list mmeasure
  pure ⟨title, divs, nstaves, clefs, key0, meter0, measures⟩

def encStr (s : String) : String := encCell s.toList

def fmtEv : Mei.Ev → String
  | .op tag attrs => fmtTuple ["O", encStr tag, fmtList (fun (kv : String × String) => fmtTuple [encStr kv.1, encStr kv.2]) attrs]
  | .cl => "C"

def orErr (o : Option String) : String := o.getD "err"

def handle (ts : List String) : String :=
  match ts with
  | "kern" :: what :: rest =>
    match run kernDoc rest with
    | none => "bad-request"
    | some doc => orErr ((Kern.denote doc).map (kernAnswer what))
  | "kpbv" :: what :: rest =>
    -- sub-spine bookkeeping: "code" = parse_by_voice as written, "sem" = the columns of the semantics
    match run kernDoc rest with
    | none => "bad-request"
    | some doc =>
      match what with
      | "code" => orErr ((Kern.pbvDoc doc).map (fmtList (fmtList fmtNat)))
      | "sem" => orErr ((Kern.colsDoc doc).map (fmtList (fmtList fmtNat)))
      | _ => "bad-request"
  | "mei" :: what :: rest =>
    match run meiDoc rest with
    | none => "bad-request"
    | some evs => orErr ((Mei.load evs).map (meiAnswer what))
  | "kval" :: rest =>
    orErr <| (run (do let r ← str; let d ← nat; pure (r, d)) rest).bind fun (r, d) =>
      ((Kern.parseRecip r.toList).bind fun rc => Kern.value rc d).map fmtRat
  | "kdur" :: rest =>
    -- element_parsing's duration arithmetic: start positions of the tokens (reciprocal, dots) of one spine in divisions
    orErr <| (run (do let dv ← nat; let l ← list (do let r ← str; let d ← nat; pure (r, d)); pure (dv, l)) rest).bind fun (dv, l) =>
      (l.mapM fun (rd : String × Nat) => (Kern.parseRecip rd.1.toList).map fun rc => (rc, rd.2)).bind fun toks =>
        (KernDur.spinePositions dv 0 toks).map fun (ps, e) => fmtTuple [fmtList fmtInt ps, fmtInt e]
  | "kpitch" :: rest =>
    orErr <| (run str rest).bind fun s =>
      (Kern.parseSub ('4' :: s.toList)).bind fun t =>
        t.pitch.map fun (st, o) => fmtTuple [st, fmtInt t.alter, fmtInt o]
  | "mval" :: rest =>
    orErr <| (run (do let v ← str; let d ← nat; let t ← opt (do let a ← nat; let b ← nat; pure (a, b)); pure (v, d, t)) rest).bind
      fun (v, d, t) => (Mei.durNumber v).bind fun x =>
        match t with
        | some (a, _) => if a = 0 then none else some (fmtRat (Mei.meiValue x d t))
        | none => some (fmtRat (Mei.meiValue x d t))
  | "ppq" :: rest =>
    orErr <| (run (do let e ← list durEl; let u ← list nat; pure (e, u)) rest).bind fun (els, us) => (Mei.inferPpq els us).map fmtRat
  | "wkern" :: what :: rest =>
    match run xpart rest with
    | none => "bad-request"
    | some p =>
      match what with
      | "rows" => orErr ((KernWrite.writeKern p).map fmtRows)
      | "exportable" => fmtBool (KernWrite.Exportable p)
      | "facts" => fmtList fmtFact (KernWrite.facts p)
      | "missing" =>
        -- the facts of the part that the denotation of the written document does not contain
        orErr <| (KernWrite.writeKern p).bind fun rows => (Kern.denote rows).map fun parts =>
          fmtList fmtFact (missing (KernWrite.facts p) ((parts.map fun q => q.notes.map KernWrite.factOfKernNote).flatten))
      | _ => "bad-request"
  | "wmei" :: what :: rest =>
    match run mpart rest with
    | none => "bad-request"
    | some p =>
      match what with
      | "evs" => orErr ((MeiWrite.writeMei p).map (fmtList fmtEv))
      | "exportable" => fmtBool (MeiWrite.Exportable p)
      | "facts" => fmtList fmtFact (MeiWrite.facts p)
      | "missing" =>
        orErr <| (MeiWrite.writeMei p).bind fun evs => (Mei.denote evs).map fun parts =>
          fmtList fmtFact (missing (MeiWrite.facts p) ((parts.map fun q => q.notes.map MeiWrite.factOfMeiNote).flatten))
      | _ => "bad-request"
  | "disp" :: rest =>
    orErr <| (run str rest).bind fun path => (LoadDispatch.dispatch path.toList).map (·.name)
  | ["dtab"] =>
    fmtList (fun (e : String × LoadDispatch.Reader) => fmtTuple [e.1, e.2.name]) LoadDispatch.table
  | ["ktab", "wdurs"] =>
    fmtList (fun (e : String × List Char) => fmtTuple [e.1, String.ofList e.2]) KernWrite.kernDursW
  | ["ktab", "wacc"] =>
    fmtList (fun (e : Int × List Char) => fmtTuple [fmtInt e.1, String.ofList e.2]) KernWrite.accToSign
  | ["ktab", "wnotes"] =>
    fmtList (fun (e : String × Char × Char) => fmtTuple [e.1, String.ofList [e.2.1], String.ofList [e.2.2]]) KernWrite.stepLetters
  | ["ktab", "wkeys"] => String.ofList KernWrite.keyLetters
  | ["ktab", "notes"] =>
    fmtList (fun (e : Char × String × Int) => fmtTuple [String.ofList [e.1], e.2.1, fmtInt e.2.2]) Kern.kernNotes
  | ["ktab", "durs"] =>
    fmtList (fun (e : String × String) => fmtTuple [e.1, e.2]) Kern.kernDurs
  | _ => "bad-request"

end C19Drv

def main : IO Unit := mainLoop C19Drv.handle
