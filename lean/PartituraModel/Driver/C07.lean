import PartituraModel.Wire
import PartituraModel.Model.MatchLine
import PartituraModel.Model.MatchHist
import PartituraModel.Gen.MatchTemplates

open Wire Model Model.Template Model.MatchCodec Model.MatchLine
open Model.MatchHist (HOp Obs)

def TS := Gen.matchTemplates
def CS := Gen.matchComposites

-- ---------------------------------------------------------------- request values

def pStr : P Str := do
  let s ← str
  pure s.toList

def pOptNat : P (Option Nat) := opt nat

def pComp : P (Nat × Nat × Option Nat) := do
  let n ← nat; let d ← nat; let t ← pOptNat
  pure (n, d, t)

def pFrac : P Frac := do
  let n ← nat; let d ← nat; let t ← pOptNat
  let ac ← opt (list pComp)
  pure { num := n, den := d, tdiv := t, add := ac }

def pMode : P Mode := do
  let t ← tok
  match t with
  | "major" => pure .major
  | "minor" => pure .minor
  | _ => P.fail

def pKey1 : P Key1 := do
  let f ← int; let m ← pMode; let fa ← opt int; let ma ← opt pMode
  match fa, ma with
  | some a, some b => pure { fifths := f, mode := m, alt := some (a, b) }
  | none, none => pure { fifths := f, mode := m, alt := none }
  | _, _ => P.fail

def pVal : P Val := do
  let t ← tok
  match t with
  | "N" => pure .none
  | "I" => do let i ← int; pure (.int i)
  | "S" => do let s ← pStr; pure (.str s)
  | "D" => do let q ← rat; pure (.dec q)
  | "F" => do let f ← pFrac; pure (.frac f)
  | "L" => do let l ← list pStr; pure (.strs l)
  | "J" => do let l ← list int; pure (.ints l)
  | "K" => do
    let k ← pKey1
    let o ← list pKey1
    pure (.key { main := k, others := o })
  | "T" => do
    let n ← nat; let d ← nat
    let o ← list pFrac
    pure (.tsig { num := n, den := d, others := o })
  | "V" => do let a ← nat; let b ← nat; let c ← nat; pure (.ver a b c)
  | "P" => do let s ← pStr; pure (.tempo s)
  | _ => P.fail

-- ---------------------------------------------------------------- canonical text

def isSafe (c : Char) : Bool :=
  (c.isAlphanum) || "_.#:+=<>!?@^&*;'\"|~`$".toList.contains c

def hexDigit (n : Nat) : Char := if n < 10 then Char.ofNat (48 + n) else Char.ofNat (87 + n)

/-- percent-encoding of the harness (`ws` in props/c07.py) -/
def encS (s : Str) : String :=
  if s.isEmpty then "%" else
  let body := s.foldr (fun c acc =>
    if isSafe c then c :: acc else '%' :: hexDigit (c.toNat / 16 % 16) :: hexDigit (c.toNat % 16) :: acc) []
  if body == ['-'] then "%2d" else String.ofList body

def fmtOptNat : Option Nat → String
  | none => "-"
  | some n => toString n

def fmtComp (c : Nat × Nat × Option Nat) : String :=
  "(" ++ toString c.1 ++ "," ++ toString c.2.1 ++ "," ++ fmtOptNat c.2.2 ++ ")"

def fmtFrac (f : Frac) : String :=
  "F(" ++ toString f.num ++ "," ++ toString f.den ++ "," ++ fmtOptNat f.tdiv ++ "," ++
    (match f.add with
     | none => "-"
     | some l => "[" ++ ",".intercalate (l.map fmtComp) ++ "]") ++ ")"

def fmtMode : Mode → String
  | .major => "major"
  | .minor => "minor"

def fmtKey1 (k : Key1) (others : List String) : String :=
  "K(" ++ toString k.fifths ++ "," ++ fmtMode k.mode ++ "," ++
    (match k.alt with | some (a, _) => toString a | none => "-") ++ "," ++
    (match k.alt with | some (_, m) => fmtMode m | none => "-") ++ ",[" ++ ",".intercalate others ++ "])"

def fmtVal : Val → String
  | .none => "-"
  | .int i => toString i
  | .str s => "S" ++ encS s
  | .dec q => "D" ++ fmtRat q
  | .frac f => fmtFrac f
  | .strs l => "[" ++ ",".intercalate (l.map fun s => "S" ++ encS s) ++ "]"
  | .ints l => "[" ++ ",".intercalate (l.map toString) ++ "]"
  | .key k => fmtKey1 k.main (k.others.map fun o => fmtKey1 o [])
  | .tsig t => "T(" ++ toString t.num ++ "," ++ toString t.den ++ ",[" ++ ",".intercalate (t.others.map fmtFrac) ++ "])"
  | .ver a b c => "V(" ++ toString a ++ "," ++ toString b ++ "," ++ toString c ++ ")"
  | .tempo s => "P" ++ encS s

def fmtVals (l : List Val) : String := " ".intercalate (l.map fmtVal)

def fmtErr : Err → String
  | .nomatch => "err:match"
  | .value => "err:value"
  | .unmodelled => "unmodelled"

def parseVer (s : String) : Option (Nat × Nat × Nat) :=
  match s.splitOn "." with
  | [a, b, c] => match a.toNat?, b.toNat?, c.toNat? with
    | some a, some b, some c => some (a, b, c)
    | _, _, _ => none
  | _ => none

/-- "v0.5.0/snote_note" -> (version, kind) -/
def splitName (n : String) : Option ((Nat × Nat × Nat) × String) :=
  match n.splitOn "/" with
  | [v, k] => (parseVer (v.drop 1).toString).map fun ver => (ver, k)
  | _ => none

def orErr (o : Option String) : String := o.getD "err"

def pVer : P (Nat × Nat × Nat) := do
  let t ← tok
  match parseVer t with
  | some v => pure v
  | none => P.fail

/-- one operation of a history: `B ver kind n vals…`, `P ver kind line`, `D ver line`, `T slot`, `W slot` -/
def pHOp : P HOp := do
  let t ← tok
  match t with
  | "B" => do let v ← pVer; let k ← tok; let vals ← list pVal; pure (.build v k vals)
  | "P" => do let v ← pVer; let k ← tok; let l ← pStr; pure (.parse v k l)
  | "D" => do let v ← pVer; let l ← pStr; pure (.dispatch v l)
  | "T" => do let i ← nat; pure (.tov1 i)
  | "W" => do let i ← nat; pure (.write i)
  | _ => P.fail

def fmtObs : Obs → String
  | .made i => "+" ++ toString i
  | .failed => "x"
  | .text (some s) => encS s
  | .text none => "err"

def handle (ts : List String) : String :=
  match ts with
  | "fmt" :: name :: rest =>
    orErr <| (run (list pVal) rest).map fun vals =>
      match formatLine TS CS name vals with
      | some l => encS l
      | none => "err"
  | ["parse", name, line] =>
    match parseLine TS CS name (decodeStr line).toList with
    | .ok vals => fmtVals vals
    | .error e => fmtErr e
  | ["refmt", name, line] =>
    match parseLine TS CS name (decodeStr line).toList with
    | .ok vals => (match formatLine TS CS name vals with | some l => encS l | none => "err")
    | .error e => fmtErr e
  | "tov1" :: name :: rest =>
    orErr <| (run (list pVal) rest).bind fun vals =>
      (splitName name).map fun (ver, kind) =>
        match toV1Line TS CS kind ver vals with
        | some (k, l) => k ++ " " ++ encS l
        | none => "none"
  | ["dispatch", ver, line] =>
    orErr <| (parseVer ver).map fun v =>
      let order := if v.1 ≥ 1 then Gen.dispatchOrderV1 else Gen.dispatchOrderV0
      match dispatch TS CS order v (decodeStr line).toList with
      | some (k, vals) => k ++ " " ++ fmtVals vals
      | none => "none"
  | ["offsets", name, line] =>
    " ".intercalate ((offsetsLine TS CS name (decodeStr line).toList).map fun o =>
      match o with | some k => toString k | none => "-")
  | "loadfile" :: lines =>
    (match loadFileV TS CS (lines.map fun l => (decodeStr l).toList) with
     | some ((a, b, c), parsed) =>
       "V(" ++ toString a ++ "," ++ toString b ++ "," ++ toString c ++ ")" ++
         String.join (parsed.map fun (k, vals) => " | " ++ k ++ " " ++ fmtVals vals)
     | none => "err")
  | ["version", line] =>
    match getVersion TS (decodeStr line).toList with
    | some (a, b, c) => "V(" ++ toString a ++ "," ++ toString b ++ "," ++ toString c ++ ")"
    | none => "err"
  | ["verparse", s] =>
    match decVersion (decodeStr s).toList with
    | some (a, b, c) => "V(" ++ toString a ++ "," ++ toString b ++ "," ++ toString c ++ ")"
    | none => "err:value"
  | "fracstr" :: rest =>
    orErr <| (run pFrac rest).map fun f => encS f.toStr
  | ["fracparse", s] =>
    match fracFromStringB (decodeStr s).toList with
    | .ok f => fmtFrac f
    | .error .value => "err:value"
    | .error .unmodelled => "unmodelled"
  | "fracadd" :: rest =>
    orErr <| (run (do let a ← pFrac; let b ← pFrac; pure (a, b)) rest).map fun (a, b) =>
      match Frac.addB a b with
      | some c => fmtFrac c
      | none => "err:value"
  | "fracmk" :: rest =>
    orErr <| (run (do let n ← nat; let d ← nat; let t ← pOptNat; pure (n, d, t)) rest).map fun (n, d, t) =>
      match Frac.mkB n d t with
      | some f => fmtFrac f
      | none => "err:value"
  | "hist" :: rest =>
    orErr <| (run (list pHOp) rest).map fun ops =>
      " ".intercalate ((Model.MatchHist.run TS CS [] ops).2.map fmtObs)
  | ["keystr", fmt, f, m] =>
    orErr <| do
      let kf ← match fmt with
        | "v1.0.0" => some KeyFmt.v100
        | "v0.3.0" => some KeyFmt.v030
        | "v0.1.0" => some KeyFmt.v010
        | _ => none
      let fi ← f.toInt?
      let mode ← match m with | "major" => some Mode.major | "minor" => some Mode.minor | _ => none
      pure (match encKey kf { main := { fifths := fi, mode := mode, alt := none }, others := [] } with
        | some s => encS s
        | none => "err")
  | ["keyparse", s] =>
    match decKey (decodeStr s).toList with
    | some (some k) => fmtVal (.key k)
    | some none => "-"
    | none => "err:value"
  | _ => "bad-request"

def main : IO Unit := mainLoop handle
