import PartituraModel.Wire
import PartituraModel.Model.Codec
import PartituraModel.Model.CodecHist
import PartituraModel.Model.CodecX
import PartituraModel.Model.CodecAl
import PartituraModel.Model.CodecSeq

open Wire Model Model.Codec

def fmtO (o : Option Rat) : String := match o with | some r => fmtRat r | none => "nan"
def fmtRats (l : List Rat) : String := fmtList fmtRat l
def orErr (o : Option String) : String := o.getD "err"

def parseNorm : P Norm := do
  let t ← tok
  match t with
  | "beat_period" => pure .bp
  | "beat_period_log" => pure .log
  | "beat_period_ratio" => pure .ratio
  | "beat_period_ratio_log" => pure .ratioLog
  | "beat_period_standardized" => pure .std
  | _ => P.fail

def pMNote : P MNote := do
  let so ← rat; let sd ← rat; let po ← rat; let pd ← rat
  pure ⟨so, sd, po, pd⟩

def pSRow : P SRow := do
  let id ← str; let od ← int; let pi ← int; let so ← rat; let sd ← rat
  pure ⟨id, od, pi, so, sd⟩

def pPRow : P PRow := do
  let id ← str; let po ← rat; let pd ← rat; let v ← int
  pure ⟨id, po, pd, v⟩

def pARow : P ARow := do
  let l ← str; let s ← opt str; let p ← opt str
  pure ⟨l, s, p⟩

def pIdVal : P (Option IdVal) := do
  let t ← tok
  match t with
  | "-" => pure none
  | "S" => do let s ← str; pure (some (.str s))
  | "I" => do let n ← int; pure (some (.int n))
  | "N" => pure (some .none)
  | _ => P.fail

def pAEntry : P AEntry := do
  let l ← opt str; let s ← pIdVal; let p ← pIdVal
  pure ⟨l, s, p⟩

def fmtIdVal : Option IdVal → String
  | none => "-"
  | some (.str s) => "S:" ++ s
  | some (.int n) => "I:" ++ fmtInt n
  | some .none => "N"

def fmtAEntry (a : AEntry) : String :=
  fmtTuple [match a.label with | some l => "L:" ++ l | none => "-", fmtIdVal a.sid, fmtIdVal a.pid]

def pTables : P (List SRow × List PRow × List ARow) := do
  let ss ← list pSRow; let ps ← list pPRow; let al ← list pARow
  pure (ss, ps, al)

def pParamRow : P (String × ParamRow) := do
  let id ← str; let ti ← rat; let ra ← rat; let v ← rat; let cols ← list rat
  pure (id, ⟨ti, ra, cols, v⟩)

def pKnot : P (Rat × Rat) := do
  let x ← rat; let y ← rat
  pure (x, y)

def pTRow : P TRow := do
  let so ← rat; let sd ← rat; let po ← rat
  pure (so, sd, po)

def fmtGroups {α : Type} (gs : List (Grp α)) : String :=
  fmtList (fun g => fmtList (fun (p : Nat × α) => fmtNat p.1) g) gs

def fmtPairs (l : List (Nat × Nat)) : String :=
  fmtList (fun (p : Nat × Nat) => fmtTuple [fmtNat p.1, fmtNat p.2]) l

def fmtMRow (r : MRow) : String :=
  fmtTuple [fmtNat r.sidx, fmtRat r.so, fmtRat r.sd, fmtInt r.pitch, fmtRat r.po, fmtRat r.pd, fmtInt r.vel]

def pMethod : P Method := do
  let t ← tok
  match t with
  | "average" => pure .average
  | "derivative" => pure .derivative
  | _ => P.fail

def pEdit : P SEdit := do
  let t ← tok
  match t with
  | "move" => do let id ← str; let od ← int; let so ← rat; let sd ← rat; pure (.move id od so sd)
  | "pitch" => do let id ← str; let p ← int; pure (.pitch id p)
  | "del" => do let id ← str; pure (.del id)
  | "add" => do let r ← pSRow; pure (.add r)
  | _ => P.fail

def pQuery : P Query := do
  let t ← tok
  match t with
  | "ms" => do let ps ← list pPRow; let al ← list pARow; pure (.ms ps al)
  | "enc" => do
    let n ← parseNorm; let m ← pMethod; let sd ← rat; let ps ← list pPRow; let al ← list pARow
    pure (.enc m n sd ps al)
  | "tm" => do let ro ← bool; let ps ← list pPRow; let al ← list pARow; pure (.tm ro ps al)
  | _ => P.fail

def pHOp : P HOp := do
  let t ← tok
  match t with
  | "e" => do let e ← pEdit; pure (.edit e)
  | "q" => do let q ← pQuery; pure (.query q)
  | _ => P.fail

def fmtKnots (ks : List (Rat × Rat)) : String :=
  fmtList (fun k : Rat × Rat => fmtTuple [fmtRat k.1, fmtRat k.2]) ks

def fmtEnc (r : List (TParam × Rat) × List String) : String :=
  fmtTuple [fmtList (fun s => s) r.2, fmtRats (r.1.map (·.1.bp)), fmtRats (r.1.map (·.1.timing)),
            fmtRats (r.1.map (·.1.ratio)), fmtList fmtRats (r.1.map (·.1.cols)), fmtRats (r.1.map (·.2))]

def fmtObs : Obs → String
  | .ms none => "err"
  | .ms (some (rows, ids)) =>
    fmtList (fun (p : MRow × String) =>
      fmtTuple [p.2, fmtRat p.1.so, fmtRat p.1.sd, fmtInt p.1.pitch, fmtRat p.1.po, fmtRat p.1.pd, fmtInt p.1.vel])
      (rows.zip ids)
  | .enc none => "err"
  | .enc (some r) => fmtEnc r
  | .tm none => "err"
  | .tm (some ks) => fmtKnots ks

def handle (ts : List String) : String :=
  match ts with
  | "ms" :: rest =>
    orErr <| (run pTables rest).bind fun (ss, ps, al) =>
      (toMatchedScore ss ps al).map fun rows => fmtList fmtMRow rows
  | "mn" :: rest =>
    orErr <| (run pTables rest).map fun (ss, ps, al) => fmtPairs (matchedNotes ss ps al)
  | "grp" :: "enc" :: rest =>
    orErr <| (run (list rat) rest).map fun so => fmtGroups (groupsBy encKey so)
  | "grp" :: "dec" :: rest =>
    orErr <| (run (list rat) rest).map fun so => fmtGroups (groupsBy (fun x => x) so)
  | "enc" :: rest =>
    orErr <| (run (do let n ← parseNorm; let bp ← opt (list rat); let sd ← rat; let ns ← list pMNote
                      pure (n, bp, sd, ns)) rest).bind fun (n, bp, sd, ns) =>
      let m := match bp with | some b => Method.given b | none => Method.average
      (encode m n sd ns).map fun ps =>
        fmtTuple [fmtRats (ps.map (·.bp)), fmtRats (ps.map (·.timing)), fmtRats (ps.map (·.ratio)),
                  fmtList fmtRats (ps.map (·.cols))]
  | "mono" :: rest =>
    orErr <| (run (do let xs ← list rat; let ss ← list rat; pure (xs, ss)) rest).map fun (xs, ss) =>
      fmtTuple [fmtList (fun k : Rat × Rat => fmtTuple [fmtRat k.1, fmtRat k.2]) (monoKnots (xs.zip ss)),
                fmtList (fun x => fmtO (monoFun xs ss x)) xs]
  | "tempo" :: rest =>
    orErr <| (run (do let m ← tok; let ns ← list pMNote; pure (m, ns)) rest).bind fun (m, ns) =>
      let gs := encGroups ns
      let r := match m with
        | "average" => tempoAverage ns gs
        | "derivative" => tempoDerivative ns gs
        | _ => none
      r.map fmtRats
  | "encm" :: rest =>
    orErr <| (run (do let n ← parseNorm; let m ← tok; let sd ← rat; let ns ← list pMNote
                      pure (n, m, sd, ns)) rest).bind fun (n, m, sd, ns) =>
      let m? : Option Method := match m with
        | "average" => some .average
        | "derivative" => some .derivative
        | _ => none
      m?.bind fun m =>
      (encode m n sd ns).map fun ps =>
        fmtTuple [fmtRats (ps.map (·.bp)), fmtRats (ps.map (·.timing)), fmtRats (ps.map (·.ratio)),
                  fmtList fmtRats (ps.map (·.cols))]
  | "encp" :: rest =>
    orErr <| (run (do let n ← parseNorm; let m ← tok; let sd ← rat; let t ← pTables
                      pure (n, m, sd, t)) rest).bind fun (n, m, sd, (ss, ps, al)) =>
      let m? : Option Method := match m with
        | "average" => some .average
        | "derivative" => some .derivative
        | _ => none
      m?.bind fun m =>
      (encodePerformance m n sd ss ps al).map fun (rows, ids) =>
        fmtTuple [fmtList (fun s => s) ids, fmtRats (rows.map (·.1.bp)), fmtRats (rows.map (·.1.timing)),
                  fmtRats (rows.map (·.1.ratio)), fmtList fmtRats (rows.map (·.1.cols)), fmtRats (rows.map (·.2))]
  | "hist" :: rest =>
    orErr <| (run (do let ss ← list pSRow; let h ← list pHOp; pure (ss, h)) rest).map fun (ss, h) =>
      fmtList fmtObs (hrun ss h).2
  | "tma" :: rest =>
    orErr <| (run (do let ro ← bool; let t ← pTables; let qs ← list rat; let qp ← list rat
                      pure (ro, t, qs, qp)) rest).bind fun (ro, (ss, ps, al), qs, qp) =>
      (alignmentKnots ro ss ps al).map fun ks =>
        fmtTuple [fmtList (fun k : Rat × Rat => fmtTuple [fmtRat k.1, fmtRat k.2]) ks,
                  fmtList (fun q => fmtO (stimeToPtime ks q)) qs,
                  fmtList (fun q => fmtO (ptimeToStime ks q)) qp]
  | "dec" :: rest =>
    orErr <| (run (do let n ← parseNorm; let ss ← list pSRow; let ps ← list pParamRow; pure (n, ss, ps)) rest).bind
      fun (n, ss, ps) =>
        (decodePerformance n ss (ps.map (·.1)) (ps.map (·.2))).map fun out =>
          fmtList (fun (r : String × Rat × Rat × Int) =>
            fmtTuple [r.1, fmtRat r.2.1, fmtRat r.2.2.1, fmtInt r.2.2.2]) out
  | "velenc" :: rest => orErr <| (run int rest).map fun v => fmtRat (encodeVel v)
  | "veldec" :: rest => orErr <| (run rat rest).map fun x => fmtInt (decodeVel x)
  | "scale" :: rest =>
    orErr <| (run (do let n ← parseNorm; let sd ← rat; let bps ← list rat; pure (n, sd, bps)) rest).map
      fun (n, sd, bps) => fmtList fmtRats (scale n sd bps)
  | "rescale" :: rest =>
    orErr <| (run (do let n ← parseNorm; let cols ← list rat; pure (n, cols)) rest).bind
      fun (n, cols) => (rescale n cols).map fmtRat
  | "tm" :: rest =>
    orErr <| (run (do let ro ← bool; let rows ← list pTRow; let qs ← list rat; pure (ro, rows, qs)) rest).map
      fun (ro, rows, qs) =>
        let ks := timeKnots ro rows
        fmtTuple [fmtList (fun k : Rat × Rat => fmtTuple [fmtRat k.1, fmtRat k.2]) ks,
                  fmtList (fun q => fmtO (stimeToPtime ks q)) qs]
  | "tmp" :: rest =>
    orErr <| (run (do let ro ← bool; let rows ← list pTRow; let qp ← list rat; pure (ro, rows, qp)) rest).map
      fun (ro, rows, qp) =>
        let ks := timeKnots ro rows
        fmtList (fun q => fmtO (ptimeToStime ks q)) qp
  -- ---- round 5
  | "zh" :: rest =>
    orErr <| (run (do let ks ← list pKnot; let lo ← rat; let hi ← rat; let qs ← list rat; pure (ks, lo, hi, qs)) rest).map
      fun (ks, lo, hi, qs) => fmtList (fun q => fmtO (zeroHold ks lo hi q)) qs
  | "tat" :: rest =>
    orErr <| (run (do let m ← tok; let idx ← opt (list (list nat)); let inp ← opt (list rat); let ns ← list pMNote
                      pure (m, idx, inp, ns)) rest).bind fun (m, idx, inp, ns) =>
      let gs? := match idx with
        | none => some (encGroups ns)
        | some ix => pickGroups ns ix
      gs?.bind fun gs =>
      let r := match m with
        | "average" => tempoAverageAt ns gs inp
        | "derivative" => tempoDerivativeAt ns gs inp
        | _ => none
      r.map fmtRats
  | "mono0" :: rest =>
    orErr <| (run (list rat) rest).bind fun ss =>
      (monotonizeDefault ss).map fun (m, x) => fmtTuple [fmtRats m, fmtRats x]
  | "uon" :: rest =>
    orErr <| (run (do let e ← rat; let ons ← list rat; pure (e, ons)) rest).map fun (e, ons) =>
      let r := uniqueOnsets e ons
      fmtTuple [fmtGroups r.1, fmtRats r.2]
  | "enct" :: rest =>
    orErr <| (run (do let n ← parseNorm; let m ← pMethod; let sdv ← rat; let so ← list rat; let po ← list rat
                      let sd ← list rat; let pd ← list rat; pure (n, m, sdv, so, po, sd, pd)) rest).bind
      fun (n, m, sdv, so, po, sd, pd) =>
        (encodeTempoArrays m n sdv so po sd pd).map fun ps =>
          fmtTuple [fmtRats (ps.map (·.bp)), fmtRats (ps.map (·.timing)), fmtRats (ps.map (·.ratio)),
                    fmtList fmtRats (ps.map (·.cols))]
  | "decf" :: rest =>
    orErr <| (run (do let n ← parseNorm; let ss ← list pSRow; let ids ← opt (list str); let ps ← list pParamRow
                      pure (n, ss, ids, ps)) rest).bind fun (n, ss, ids, ps) =>
      (decodeFull n ss ids (ps.map (·.2))).map fun (notes, al) =>
        fmtTuple [fmtList (fun (r : DNote) =>
                    fmtTuple [r.1, fmtInt r.2.1, fmtRat r.2.2.1, fmtRat r.2.2.2.1, fmtInt r.2.2.2.2]) notes,
                  fmtList (fun (a : String × String) => fmtTuple [a.1, a.2]) al]
  | "msx" :: rest =>
    orErr <| (run (do let mk ← bool; let arr ← bool; let fs ← list str; let vs ← list int; let t ← pTables
                      pure (mk, arr, fs, vs, t)) rest).bind fun (mk, arr, fs, vs, (ss, ps, al)) =>
      (toMatchedScoreX mk arr fs vs ss ps al).map fun (names, rows, ids, voices) =>
        fmtTuple [fmtList (fun s => s) names, fmtList fmtMRow rows, fmtList (fun s => s) ids,
                  fmtOpt (fmtList fmtInt) voices]
  | "n2o" :: rest =>
    orErr <| (run (do let v ← list rat; let gs ← list (list nat); pure (v, gs)) rest).bind fun (v, gs) =>
      (toOnsetwise v gs).map fmtRats
  | "o2n" :: rest =>
    orErr <| (run (do let w ← list rat; let gs ← list (list nat); pure (w, gs)) rest).bind fun (w, gs) =>
      (toNotewise w gs).map fmtRats
  -- ---- round 6: alignments of any form
  | "msa" :: rest =>
    orErr <| (run (do let ss ← list pSRow; let ps ← list pPRow; let al ← list pAEntry; pure (ss, ps, al)) rest).map
      fun (ss, ps, al) =>
        let r := toMatchedScoreA ss ps al
        fmtTuple [match r.1 with | some rows => fmtList fmtMRow rows | none => "err", fmtList fmtAEntry r.2]
  | "mna" :: rest =>
    orErr <| (run (do let ss ← list pSRow; let ps ← list pPRow; let al ← list pAEntry; pure (ss, ps, al)) rest).bind
      fun (ss, ps, al) => (matchedNotesA ss ps al).map fmtPairs
  | "decc" :: rest =>
    orErr <| (run (do let n ← parseNorm; let fields ← list str; let ss ← list pSRow; let ids ← opt (list str)
                      let ps ← list pParamRow; pure (n, fields, ss, ids, ps)) rest).bind fun (n, fields, ss, ids, ps) =>
      (decodeFullC n fields ss ids (ps.map (·.2))).map fun (notes, al) =>
        fmtTuple [fmtList (fun (r : DNote) =>
                    fmtTuple [r.1, fmtInt r.2.1, fmtRat r.2.2.1, fmtRat r.2.2.2.1, fmtInt r.2.2.2.2]) notes,
                  fmtList (fun (a : String × String) => fmtTuple [a.1, a.2]) al]
  | "useq" :: rest =>
    orErr <| (run (do let ons ← list rat; let offs ← list rat; let idx ← opt (list (list nat)); let rd ← bool
                      pure (ons, offs, idx, rd)) rest).bind fun (ons, offs, idx, rd) =>
      (uniqueSeq ons offs idx rd).map fun u =>
        fmtTuple [fmtRats u.uOnset, fmtRat u.totalDur, fmtList (fmtList fmtNat) u.groups, fmtOpt fmtRats u.diff]
  | "n2o2" :: rest =>
    orErr <| (run (do let cols ← list (list rat); let gs ← list (list nat); pure (cols, gs)) rest).bind fun (cols, gs) =>
      (toOnsetwise2 cols gs).map (fmtList fmtRats)
  | "o2n2" :: rest =>
    orErr <| (run (do let cols ← list (list rat); let gs ← list (list nat); pure (cols, gs)) rest).bind fun (cols, gs) =>
      (toNotewise2 cols gs).map (fmtList fmtRats)
  | _ => "bad-request"

def main : IO Unit := mainLoop handle
