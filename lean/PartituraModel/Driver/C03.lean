import PartituraModel.Wire
import PartituraModel.Model.XmlMeasure
import PartituraModel.Model.RangeNumbers
import PartituraModel.Model.XmlNote
import PartituraModel.Model.XmlDir
import PartituraModel.Model.Binary64
import PartituraModel.Model.XmlBar
import PartituraModel.Model.XmlPartList
import PartituraModel.Model.XmlTrace
import PartituraModel.Model.XmlAttrs

open Wire Model.Xml
open Model.Ranges (Mark TieNote)

def codePoints (s : String) : List Nat := s.toList.map Char.toNat

def pGraceRef : P GraceRef := do
  let i ← nat; let o ← nat; let st ← nat
  pure { idx := i, onset := o, staff := st }

def pNoteIn : P NoteIn := do
  let idx ← nat; let onset ← nat; let dur ← nat; let grace ← bool; let voice ← nat; let staff ← nat
  let pitch ← int; let step ← str; let gp ← bool; let seq ← list pGraceRef
  pure { idx := idx, onset := onset, dur := dur, grace := grace, voice := voice, staff := staff,
         pitch := pitch, step := codePoints step, gracePrev := gp, seq := seq }

def pOtherIn : P OtherIn := do
  let onset ← nat; let order ← nat; let sig ← tok
  pure { onset := onset, order := order, sig := sig }

def pSegment : P Segment := do
  let start ← nat; let stop ← nat; let notes ← list pNoteIn; let others ← list pOtherIn
  pure { start := start, stop := stop, notes := notes, others := others }

def pMeasure : P MeasureContent := do
  let ns ← nat; let segs ← list pSegment
  pure { nStaves := ns, segs := segs }

def pEv : P Ev := do
  let k ← tok
  match k with
  | "n" => do
    let idx ← nat; let dur ← nat; let chord ← bool; let grace ← bool; let voice ← nat; let staff ← nat
    pure (Ev.note idx dur chord grace voice staff)
  | "b" => do let d ← nat; pure (Ev.backup d)
  | "f" => do let d ← nat; pure (Ev.forward d)
  | "o" => do let o ← nat; let s ← tok; pure (Ev.other o s)
  | _ => P.fail

def fmtEv : Ev → String
  | .note idx dur chord grace voice staff =>
    ":".intercalate ["n", fmtNat idx, fmtNat dur, fmtBool chord, fmtBool grace, fmtNat voice, fmtNat staff]
  | .backup d => "b:" ++ fmtNat d
  | .forward d => "f:" ++ fmtNat d
  | .other o s => "o:" ++ fmtNat o ++ ":" ++ s

def fmtNoteOut (n : NoteOut) : String :=
  ":".intercalate [fmtNat n.idx, fmtNat n.onset, fmtNat n.dur, fmtNat n.voice, fmtNat n.staff]

def fmtVoices (l : List (Nat × List NoteIn)) : String :=
  fmtList (fun (e : Nat × List NoteIn) => fmtNat e.1 ++ "=" ++ fmtList (fun (n : NoteIn) => fmtNat n.idx) e.2) l


/-! ### element codecs (Model/XmlNote.lean) -/

namespace XmlWire
open Model.XmlNote

def articNames : List (String × Artic) :=
  [("accent", .accent), ("breath-mark", .breathMark), ("caesura", .caesura), ("detached-legato", .detachedLegato),
   ("doit", .doit), ("falloff", .falloff), ("plop", .plop), ("scoop", .scoop), ("soft-accent", .softAccent),
   ("spiccato", .spiccato), ("staccatissimo", .staccatissimo), ("staccato", .staccato), ("stress", .stress),
   ("strong-accent", .strongAccent), ("tenuto", .tenuto), ("unstress", .unstress)]

def tagNames : List (String × Tag) :=
  [("note", .note), ("grace", .grace), ("chord", .chord), ("pitch", .pitch), ("step", .step), ("alter", .alter),
   ("octave", .octave), ("unpitched", .unpitched), ("display-step", .displayStep), ("display-octave", .displayOctave),
   ("notehead", .notehead), ("rest", .rest), ("duration", .duration), ("tie", .tie), ("voice", .voice), ("stem", .stem),
   ("type", .type), ("dot", .dot), ("time-modification", .timeModification), ("actual-notes", .actualNotes),
   ("normal-notes", .normalNotes), ("staff", .staff), ("notations", .notations), ("tied", .tied), ("fermata", .fermata),
   ("articulations", .articulations), ("technical", .technical), ("fingering", .fingering), ("slur", .slur),
   ("tuplet", .tuplet), ("tuplet-actual", .tupletActual), ("tuplet-normal", .tupletNormal),
   ("tuplet-number", .tupletNumber), ("tuplet-type", .tupletType),
   ("direction", .direction), ("direction-type", .directionType), ("dynamics", .dynamics), ("wedge", .wedge),
   ("words", .words), ("dashes", .dashes), ("pedal", .pedal), ("sound", .sound),
   ("attributes", .attributes), ("divisions", .divisions), ("key", .key), ("fifths", .fifths), ("mode", .mode),
   ("time", .time), ("beats", .beats), ("beat-type", .beatType), ("staves", .staves), ("clef", .clef), ("sign", .sign),
   ("line", .line), ("clef-octave-change", .clefOctaveChange), ("staff-details", .staffDetails),
   ("staff-lines", .staffLines)] ++ articNames.map fun e => (e.1, Tag.artic e.2)

def attrNames : List (String × Attr) :=
  [("id", .id), ("slash", .slash), ("filled", .filled), ("type", .type), ("number", .number),
   ("placement", .placement), ("line", .line), ("sign", .sign), ("tempo", .tempo)]

def tagOfName (s : String) : Tag :=
  match tagNames.find? (·.1 == s) with
  | some e => e.2
  | none => .other s.toList

def tagName (t : Tag) : String :=
  match t with
  | .other s => String.ofList s
  | _ => match tagNames.find? (·.2 == t) with
    | some e => e.1
    | none => "?"

def attrOfName (s : String) : Attr :=
  match attrNames.find? (·.1 == s) with
  | some e => e.2
  | none => .other s.toList

def attrName (a : Attr) : String :=
  match a with
  | .other s => String.ofList s
  | _ => match attrNames.find? (·.2 == a) with
    | some e => e.1
    | none => "?"

def hexDigit (n : Nat) : Char := if n < 10 then Char.ofNat (48 + n) else Char.ofNat (87 + n)

/-- the harness's `_enc`: ASCII letters, digits, `_` and `.` stay, everything else is `%xx`; the empty string is `%` -/
def encS (s : Str) : String :=
  if s = [] then "%" else
  String.ofList (s.flatMap fun c =>
    if c.isAlphanum || c == '_' || c == '.' then [c] else ['%', hexDigit (c.toNat / 16 % 16), hexDigit (c.toNat % 16)])

def pStr : P Str := do let s ← str; pure s.toList

partial def pXml : P Xml := do
  let t ← tok
  let attrs ← list (do let a ← tok; let v ← pStr; pure (attrOfName a, v))
  let text ← pStr
  let kids ← list pXml
  pure (.el (tagOfName t) attrs text kids)

partial def fmtXml : Xml → String
  | .el t attrs text kids =>
    "(" ++ tagName t ++ ";" ++ ",".intercalate (attrs.map fun a => attrName a.1 ++ "=" ++ encS a.2) ++ ";" ++ encS text ++ ";" ++
      ",".intercalate (kids.map fmtXml) ++ ")"

def pGrace : P (Option GraceType) := do
  let t ← tok
  match t with
  | "-" => pure none
  | "g" => pure (some .grace)
  | "a" => pure (some .acciaccatura)
  | "p" => pure (some .appoggiatura)
  | _ => P.fail

def pBody : P Body := do
  let k ← tok
  match k with
  | "p" => do
    let step ← pStr; let alter ← opt int; let octave ← int; let g ← pGrace
    pure (.pitched step alter octave g)
  | "u" => do
    let step ← pStr; let octave ← int
    let nh ← opt (do let t ← pStr; let f ← bool; pure (t, f))
    pure (.unpitched step octave nh)
  | "r" => do let h ← bool; pure (.rest h)
  | _ => P.fail

def pArt : P ArtName := do
  let t ← tok
  match articNames.find? (·.1 == t) with
  | some e => pure (.known e.2)
  | none => pure .unknown

def pTech : P Tech := do
  let k ← tok
  match k with
  | "f" => do let n ← nat; pure (.fingering n)
  | "o" => pure .otherNotation
  | _ => P.fail

def pTupletStart : P TupletStart := do
  let k ← nat; let an ← opt int; let ta ← opt pStr; let nn ← opt int; let tn ← opt pStr
  pure { number := k, actualNotes := an, actualType := ta, normalNotes := nn, normalType := tn }

def pNoteAttrs : P NoteAttrs := do
  let id ← opt pStr; let body ← pBody; let dur ← nat; let chord ← bool; let tp ← bool; let tn ← bool
  let voice ← opt int; let stem ← opt pStr; let fermata ← bool; let arts ← list pArt; let tech ← list pTech
  let symType ← opt pStr; let dots ← nat; let an ← opt int; let nn ← opt int; let staff ← opt int; let ns ← nat
  let s0 ← list nat; let s1 ← list nat; let t0 ← list nat; let t1 ← list pTupletStart
  pure { id := id, body := body, dur := dur, chord := chord, tiePrev := tp, tieNext := tn, voice := voice, stem := stem,
         fermata := fermata, arts := arts, technical := tech, symType := symType, dots := dots, actualNotes := an,
         normalNotes := nn, staff := staff, nStaves := ns, slurStops := s0, slurStarts := s1, tupletStops := t0,
         tupletStarts := t1 }

def fmtGrace : Option GraceType → String
  | none => "-"
  | some .grace => "grace"
  | some .acciaccatura => "acciaccatura"
  | some .appoggiatura => "appoggiatura"

def fmtBodyR : BodyR → String
  | .pitched step alter octave g =>
    fmtTuple ["p", fmtOpt encS step, fmtOpt fmtInt alter, fmtOpt fmtInt octave, fmtGrace g]
  | .unpitched step octave nh filled =>
    fmtTuple ["u", fmtOpt encS step, fmtOpt fmtInt octave, fmtOpt encS nh, fmtBool filled]
  | .rest => "(r)"

def articName (a : Artic) : String :=
  match articNames.find? (·.2 == a) with
  | some e => e.1
  | none => "?"

def fmtInfo (i : TupletInfo) : String :=
  fmtTuple [fmtInt i.actualNotes, encS i.actualType, fmtInt i.normalNotes, encS i.normalType]

def fmtNoteRead (r : NoteRead) : String :=
  fmtTuple [fmtOpt encS r.id, fmtBodyR r.body, fmtInt r.duration, fmtBool r.chord, fmtInt r.staff, fmtInt r.voice,
    fmtOpt encS r.stem, fmtOpt encS r.symType, fmtNat r.dots, fmtOpt fmtInt r.actualNotes, fmtOpt fmtInt r.normalNotes,
    fmtList articName r.arts, fmtList fmtNat r.fingering, fmtBool r.fermata, fmtBool r.tieStop, fmtBool r.tieStart,
    fmtList (fun (m : Bool × Int) => fmtBool m.1 ++ ":" ++ fmtInt m.2) r.slurs,
    fmtList (fun (m : TupletMark) => fmtBool m.isStart ++ ":" ++ fmtInt m.number ++ ":" ++ fmtOpt fmtInt_info m.info) r.tuplets]
where fmtInt_info := fmtInfo

end XmlWire

namespace DirWire
open Model.XmlNote Model.XmlDir XmlWire

def pDirW : P DirW := do
  let k ← tok
  match k with
  | "dyn" => do let n ← pStr; let st ← opt int; pure (.dyn n st)
  | "wedge" => do let c ← bool; let n ← nat; let st ← opt int; pure (.wedgeStart c n st)
  | "words" => do let t ← pStr; let d ← opt nat; let st ← opt int; pure (.words t d st)
  | "stop" => do let w ← bool; let n ← nat; pure (.rangeStop w n)
  | "ped" => do let l ← bool; let st ← opt int; pure (.pedalStart l st)
  | "pedstop" => do let l ← bool; let st ← opt int; pure (.pedalStop l st)
  | _ => P.fail

def fmtRT : RangeType → String
  | .start => "start"
  | .stop => "stop"
  | .other => "other"

def fmtItem : DirItem → String
  | .dynamics names => "dyn" ++ fmtList encS names
  | .words texts => "words" ++ fmtList encS texts
  | .wedgeStart c n => "wedge:" ++ fmtBool c ++ ":" ++ fmtInt n
  | .wedgeStop n => "wedgestop:" ++ fmtInt n
  | .wedgeOther => "wedgeother"
  | .dashes t n => "dashes:" ++ fmtRT t ++ ":" ++ fmtInt n
  | .pedal t l n => "pedal:" ++ fmtRT t ++ ":" ++ fmtBool l ++ ":" ++ fmtInt n
  | .unsupported => "unsupported"

def fmtDirRead (d : DirRead) : String := fmtTuple [fmtOpt fmtInt d.staff, fmtList fmtItem d.items]

def fmtObj (o : DirObj) : String :=
  fmtTuple [fmtNat o.start, fmtNat o.kind, encS o.text, fmtBool o.line, fmtOpt fmtInt o.staff, fmtOpt fmtNat o.stop]

def pTempo : P TempoVal := do
  let k ← tok
  match k with
  | "i" => do let n ← nat; pure (.whole n)
  | "d" => do let ip ← nat; let fp ← pStr; pure (.dec ip fp)
  | _ => P.fail

def fmtTempo : TempoVal → String
  | .whole n => "i:" ++ fmtNat n
  | .dec ip fp => "d:" ++ fmtNat ip ++ ":" ++ encS fp

def pAttrItem : P AttrItem := do
  let k ← tok
  match k with
  | "div" => do let q ← int; pure (.divisions q)
  | "key" => do let f ← int; let m ← opt pStr; pure (.key f m)
  | "time" => do let a ← int; let b ← int; pure (.time a b)
  | "sd" => do let l ← opt int; pure (.staffDetails l)
  | "clef" => do let st ← opt int; let sg ← pStr; let l ← opt int; let oc ← opt int; pure (.clef st sg l oc)
  | _ => P.fail

def fmtClef (c : ClefRead) : String :=
  fmtTuple [fmtInt c.staff, fmtOpt encS c.sign, fmtOpt fmtInt c.line, fmtOpt fmtInt c.octaveChange]

def fmtAttrRead (a : AttrRead) : String :=
  fmtTuple [fmtOpt (fun (p : Int × Int) => fmtInt p.1 ++ "/" ++ fmtInt p.2) a.time,
    fmtOpt (fun (p : Option Int × Option Str) => fmtOpt fmtInt p.1 ++ "/" ++ fmtOpt encS p.2) a.key,
    fmtOpt fmtInt a.divisions, fmtList fmtClef a.clefs]

end DirWire

namespace BarWire
open Model.XmlNote Model.XmlBar Model.PartList XmlWire

def pFermRef : P FermRef := do
  let t ← tok
  match t with
  | "n" => pure .none
  | "l" => pure .left
  | "m" => pure .middle
  | "r" => pure .right
  | "o" => pure .object
  | _ => P.fail

def pBarSrc : P BarSrc := do
  let fi ← list (do let t ← nat; let r ← pFermRef; pure (t, r))
  let fa ← list (do let t ← nat; let r ← pFermRef; pure (t, r))
  let rs ← list nat
  let es ← list (do let t ← nat; let n ← pStr; pure (t, n))
  let re ← list nat
  let ee ← list (do let t ← nat; let n ← pStr; pure (t, n))
  pure { fermIn := fi, fermAfter := fa, repeatStart := rs, endingStart := es, repeatEnd := re, endingEnd := ee }

def pLoc : P Loc := do
  let t ← tok
  match t with
  | "l" => pure .left
  | "r" => pure .right
  | "m" => pure .middle
  | _ => P.fail

def pBarItem : P BarItem := do
  let t ← tok
  match t with
  | "F" => pure .fermata
  | "RF" => pure .repeatFwd
  | "RB" => pure .repeatBwd
  | "ES" => do let n ← pStr; pure (.endingStart n)
  | "EP" => do let n ← pStr; pure (.endingStop n)
  | _ => P.fail

def fmtBarItem : BarItem → String
  | .fermata => "F"
  | .repeatFwd => "RF"
  | .repeatBwd => "RB"
  | .endingStart n => "ES:" ++ encS n
  | .endingStop n => "EP:" ++ encS n

def pBarEv : P BarEv := do
  let k ← tok
  match k with
  | "b" => do let d ← nat; pure (.backup d)
  | "f" => do let d ← nat; pure (.forward d)
  | "x" => do let x ← pXml; pure (.barline (readBarline x))
  | _ => P.fail

def sortedTexts (l : List String) : String := "[" ++ ",".intercalate (l.mergeSort (fun a b => decide (a ≤ b))) ++ "]"

def fmtBarState (s : BarState) : String :=
  fmtTuple [
    sortedTexts (s.repeats.map fun r => fmtTuple [fmtOpt fmtNat r.start, fmtOpt fmtNat r.stop]),
    sortedTexts (s.endings.map fun e => fmtTuple [fmtOpt encS e.number, fmtOpt fmtNat e.start, fmtOpt fmtNat e.stop]),
    sortedTexts (s.fermatas.map fun f => fmtTuple [fmtNat f.1, fmtOpt encS f.2]),
    sortedTexts (s.styles.map fun f => fmtTuple [fmtNat f.1, encS f.2])]

def pHarmW : P HarmW := do
  let k ← tok
  match k with
  | "rn" => do let t ← pStr; pure (.roman t)
  | "cs" => do let r ← pStr; let kd ← opt pStr; let b ← opt pStr; pure (.chord r kd b)
  | "cad" => do let t ← pStr; pure (.cadence t)
  | _ => P.fail

def fmtHarmObj : HarmObj → String
  | .cadence t => "cad:" ++ fmtOpt encS t
  | .roman t => "rn:" ++ encS t
  | .chord r k b => "cs:" ++ encS r ++ ":" ++ fmtOpt encS k ++ ":" ++ fmtOpt encS b

def fmtPages (l : List PageObj) : String :=
  sortedTexts (l.map fun o => fmtTuple [fmtNat o.number, fmtNat o.start, fmtOpt fmtNat o.stop])

def pGroupW : P GroupW := do
  let gid ← nat; let number ← pStr; let sy ← opt pStr; let nm ← opt pStr
  pure { gid := gid, number := number, symbol := sy, name := nm }

def pPartW : P (PartW × List GroupW) := do
  let id ← pStr; let nm ← opt pStr; let ab ← opt pStr; let anc ← list pGroupW
  pure ({ id := id, name := nm, abbr := ab }, anc)

def fmtForest : Forest GroupR PartR → List String
  | .nil => []
  | .part p r => ("p" ++ fmtTuple [fmtOpt encS p.id, fmtOpt encS p.name, fmtOpt encS p.abbr]) :: fmtForest r
  | .group g c r =>
    ("g" ++ fmtTuple [fmtOpt fmtInt g.number, fmtOpt encS g.symbol, fmtOpt encS g.name] ++ "[" ++
      ",".intercalate (fmtForest c) ++ "]") :: fmtForest r

end BarWire

def handle (ts : List String) : String :=
  match ts with
  | "lin" :: rest =>
    match run pMeasure rest with
    | some m => fmtList fmtEv (linearize m)
    | none => "bad-request"
  | "stab" :: rest =>
    -- `remove_voice_polyphony` leaves every segment of the measure as it is (no note moves, no voice is added)
    match run pMeasure rest with
    | some m => fmtBool (m.segs.all fun s => decide (assignVoices s.notes = partitionVoices s.notes))
    | none => "bad-request"
  | "wf" :: rest =>
    match run pMeasure rest with
    | some m => fmtBool (decide (MeasureWF m))
    | none => "bad-request"
  | "int" :: rest =>
    match run (do let spec ← bool; let start ← nat; let evs ← list pEv; pure (spec, start, evs)) rest with
    | some (spec, start, evs) =>
      match interpretWith spec start evs with
      | some (notes, stop) => fmtTuple [fmtList fmtNoteOut notes, fmtNat stop]
      | none => "err"
    | none => "bad-request"
  | "snd" :: rest =>
    match run (do let start ← nat; let evs ← list pEv; pure (start, evs)) rest with
    | some (start, evs) =>
      match interpret start evs with
      | some (notes, stop) =>
        let sorted := isortBy (fun (a b : NoteOut) => decide (a.idx < b.idx)) notes
        fmtTuple [fmtList (fun (n : NoteOut) => ":".intercalate [fmtNat n.idx, fmtNat n.onset, fmtNat n.dur, fmtNat n.staff]) sorted,
                  fmtNat stop]
      | none => "err"
    | none => "bad-request"
  | "num" :: rest =>
    match run (list (do let l ← nat; let r ← nat; pure ((l, r) : Model.Ranges.Key))) rest with
    | some ks => fmtList fmtNat (Model.Ranges.numberAll [] ks)
    | none => "bad-request"
  | "numg" :: rest =>
    match run (list (do let l ← nat; let rs ← list nat; pure (l, rs))) rest with
    | some gs => fmtList (fmtList fmtNat) (Model.Ranges.numberGroups [] gs)
    | none => "bad-request"
  | "pair" :: rest =>
    match run (do
        let ct ← bool
        let ms ← list (do let n ← nat; let t ← nat; let st ← bool; let k ← nat
                          pure ({ note := n, time := t, isStart := st, number := k } : Mark))
        pure (ct, ms)) rest with
    | some (ct, ms) =>
      let s := Model.Ranges.readMarks ct ms
      let done := isortBy (fun (a b : Nat × Nat) => decide (a.1 < b.1) || (a.1 == b.1 && decide (a.2 < b.2))) s.done
      fmtTuple [fmtList (fun (p : Nat × Nat) => fmtTuple [fmtNat p.1, fmtNat p.2]) done, fmtNat s.lost.length]
    | none => "bad-request"
  | "tie" :: rest =>
    match run (list (do let n ← nat; let p ← int; let a ← nat; let b ← nat; let hs ← bool; let ha ← bool
                        pure ({ note := n, pitch := p, start := a, stop := b, hasStop := hs, hasStart := ha } : TieNote))) rest with
    | some ns => fmtList (fun (p : Nat × Nat) => fmtTuple [fmtNat p.1, fmtNat p.2]) (Model.Ranges.readTies ns)
    | none => "bad-request"
  | "voices" :: rest =>
    match run (list pNoteIn) rest with
    | some ns => fmtVoices (assignVoices ns)
    | none => "bad-request"
  | "wnote" :: rest =>
    match run XmlWire.pNoteAttrs rest with
    | some n => XmlWire.fmtXml (Model.XmlNote.writeNote n) ++ "/" ++ fmtBool (decide (Model.XmlNote.WellFormedNote n))
    | none => "bad-request"
  | "rnote" :: rest =>
    match run XmlWire.pXml rest with
    | some x =>
      match Model.XmlNote.readNote x with
      | some r => XmlWire.fmtNoteRead r
      | none => "err"
    | none => "bad-request"
  | "cnote" :: rest =>
    match run XmlWire.pNoteAttrs rest with
    | some n => XmlWire.fmtNoteRead (Model.XmlNote.canon n)
    | none => "bad-request"
  | "fnote" :: rest =>
    match run XmlWire.pNoteAttrs rest with
    | some n => XmlWire.fmtXml (Model.XmlNote.writeNote (Model.XmlNote.reexport (Model.XmlNote.canon n) n.nStaves))
    | none => "bad-request"
  | "evnote" :: rest =>
    match run (do let i ← nat; let x ← XmlWire.pXml; pure (i, x)) rest with
    | some (i, x) =>
      match Model.XmlNote.toEv i x with
      | some e => fmtEv e
      | none => "err"
    | none => "bad-request"
  | "wdir" :: rest =>
    match run DirWire.pDirW rest with
    | some d => XmlWire.fmtXml (Model.XmlDir.writeDir d) ++ "/" ++ fmtBool (decide (Model.XmlDir.WellFormedDir d))
    | none => "bad-request"
  | "cdir" :: rest =>
    match run DirWire.pDirW rest with
    | some d => DirWire.fmtDirRead (Model.XmlDir.canonDir d)
    | none => "bad-request"
  | "rdir" :: rest =>
    match run XmlWire.pXml rest with
    | some x =>
      match Model.XmlDir.readDir x with
      | some r => DirWire.fmtDirRead r
      | none => "err"
    | none => "bad-request"
  | "dirs" :: rest =>
    match run (list XmlWire.pXml) rest with
    | some xs =>
      match xs.mapM Model.XmlDir.readDir with
      | some ds =>
        -- the order of objects inside one time point is not observable: sorted text
        "[" ++ ",".intercalate (((Model.XmlDir.readDirections ds).objs.map DirWire.fmtObj).mergeSort (fun a b => decide (a ≤ b))) ++ "]"
      | none => "err"
    | none => "bad-request"
  | "slots" :: rest =>
    match run (list (do let n ← nat; let st ← bool; let k ← nat
                        pure ({ note := n, time := 0, isStart := st, number := k } : Mark))) rest with
    | some ms => fmtList (fun (p : Nat × Nat) => fmtTuple [fmtNat p.1, fmtNat p.2]) (Model.XmlDir.slotAll ms).2
    | none => "bad-request"
  | "dyns" :: rest =>
    fmtList (fun (n : String) => n ++ ":" ++ (match Model.XmlDir.dynClass n.toList with
      | some true => "I" | some false => "C" | none => "-")) rest
  | "wsound" :: rest =>
    match run DirWire.pTempo rest with
    | some t => XmlWire.fmtXml (Model.XmlDir.writeSound t) ++ "/" ++ fmtBool (decide (Model.XmlDir.WellFormedTempo t))
    | none => "bad-request"
  | "rsound" :: rest =>
    match run XmlWire.pXml rest with
    | some x =>
      match Model.XmlDir.readSound x with
      | some r => fmtOpt DirWire.fmtTempo r
      | none => "err"
    | none => "bad-request"
  | "wsci" :: rest =>
    -- the element written for a tempo whose `repr` has mantissa `t` and exponent `ex`
    match run (do let t ← DirWire.pTempo; let ex ← int; pure (t, ex)) rest with
    | some (t, ex) =>
      XmlWire.fmtXml (Model.Binary64.writeSoundSci t ex) ++ "/" ++ fmtBool (decide (Model.XmlDir.WellFormedTempo t))
    | none => "bad-request"
  | "fsound" :: rest =>
    -- `float(e.attrib["tempo"])`: the binary64 number the model reader makes of the text
    match run XmlWire.pXml rest with
    | some x =>
      match Model.Binary64.readSoundNum x with
      | some (some d) => fmtNat d.m ++ ":" ++ fmtInt d.e
      | some none => "-"
      | none => "err"
    | none => "bad-request"
  | "wfsound" :: rest =>
    -- hypotheses of tempo_number_roundtrip_exponent on an element written: the score's quarter tempo m·2^e is normal, the
    -- text is a well-formed literal, it lies inside the rounding interval of the tempo; and the conclusion
    match run (do let m ← nat; let e ← int; let x ← XmlWire.pXml; pure (m, e, x)) rest with
    | some (m, e, x) =>
      let d : Model.Binary64.Dbl := ⟨m, e⟩
      match (x.get .tempo).bind Model.Binary64.parseSci with
      | some p =>
        fmtBool (decide d.Normal) ++ "/" ++ fmtBool (decide (Model.XmlDir.WellFormedTempo p.1)) ++ "/" ++
          fmtBool (Model.Binary64.closeTo d (Model.Binary64.sciValue p)) ++ "/" ++
          fmtBool (decide (Model.Binary64.readSoundNum x = some (some d)))
      | none => "err"
    | none => "bad-request"
  | "wattr" :: rest =>
    match run (do let items ← list DirWire.pAttrItem; let st ← opt nat; pure (items, st)) rest with
    | some (items, st) =>
      XmlWire.fmtXml (Model.XmlDir.writeAttributes items st) ++ "/" ++ fmtBool (decide (Model.XmlDir.WellFormedAttrs items))
    | none => "bad-request"
  | "cattr" :: rest =>
    match run (list DirWire.pAttrItem) rest with
    | some items => DirWire.fmtAttrRead (Model.XmlDir.canonAttrs items)
    | none => "bad-request"
  | "rattr" :: rest =>
    match run XmlWire.pXml rest with
    | some x =>
      match Model.XmlDir.readAttributes x with
      | some r => DirWire.fmtAttrRead r
      | none => "err"
    | none => "bad-request"
  | "otr" :: rest =>
    -- where the importer's reader is when it meets the non-note children: position:rank:signature, and whether every
    -- position lies between the start and the furthest position reached, which is at most `stop`
    match run (do let start ← nat; let stop ← nat; let evs ← list pEv; pure (start, stop, evs)) rest with
    | some (start, stop, evs) =>
      let tr := readOthers false start evs
      fmtList (fun (e : OtherAt) => fmtNat e.pos ++ ":" ++ fmtNat e.order ++ ":" ++ e.sig) tr ++ "/" ++
        fmtBool (tr.all fun e => decide (e.pos ≤ e.maxt) && decide (e.maxt ≤ stop))
    | none => "bad-request"
  | "wattrs" :: rest =>
    -- `do_attributes(part, start, end)`: the `(t, <attributes>)` list from the results of its five iteration calls
    match run (do
        let qs ← list (do let t ← nat; let q ← int; pure (t, q))
        let ks ← list (do let t ← nat; let f ← int; let m ← opt XmlWire.pStr; pure (t, f, m))
        let ts ← list (do let t ← nat; let a ← int; let b ← int; pure (t, a, b))
        let ss ← list (do let t ← nat; let l ← opt int; pure (t, l))
        let cs ← list (do
          let t ← nat; let n ← int; let st ← opt int; let sg ← XmlWire.pStr; let l ← opt int; let oc ← opt int
          pure ({ t := t, number := n, staff := st, sign := sg, line := l, octaveChange := oc } : Model.XmlAttrs.ClefSrc))
        pure ({ quarters := qs, keys := ks, times := ts, staffs := ss, clefs := cs } : Model.XmlAttrs.AttrSrc)) rest with
    | some s =>
      fmtList (fun (e : Nat × Model.XmlNote.Xml) => fmtNat e.1 ++ ":" ++ XmlWire.fmtXml e.2) (Model.XmlAttrs.doAttributes s)
    | none => "bad-request"
  | "rsd" :: rest =>
    -- the `<staff-details>` loop of `_handle_attributes`: (number, lines) of every `score.Staff` added
    match run XmlWire.pXml rest with
    | some x =>
      match Model.XmlAttrs.readStaffs x with
      | some l => fmtList (fun (r : Model.XmlAttrs.StaffRead) => fmtTuple [fmtInt r.number, fmtOpt fmtInt r.lines]) l
      | none => "err"
    | none => "bad-request"
  | "fattr" :: rest =>
    -- an `<attributes>` element -> the element `writeAttributes` gives for what was read from it (attributes_fixpoint)
    match run (do let x ← XmlWire.pXml; let st ← opt nat; pure (x, st)) rest with
    | some (x, st) =>
      match Model.XmlDir.readAttributes x, Model.XmlAttrs.readStaffs x with
      | some r, some l => XmlWire.fmtXml (Model.XmlDir.writeAttributes (Model.XmlAttrs.reexportItems r l) st)
      | _, _ => "err"
    | none => "bad-request"
  | "wbar" :: rest =>
    -- `do_barlines(part, start, end)`: the `(onset, <barline>)` list
    match run (do let a ← nat; let b ← nat; let s ← BarWire.pBarSrc; pure (a, b, s)) rest with
    | some (a, b, s) =>
      fmtList (fun (e : Nat × Model.XmlNote.Xml) => fmtNat e.1 ++ ":" ++ XmlWire.fmtXml e.2) (Model.XmlBar.doBarlines a b s)
    | none => "bad-request"
  | "bars" :: rest =>
    -- `_handle_measure` on measures that hold only backup / forward / barline
    match run (list (list BarWire.pBarEv)) rest with
    | some ms => BarWire.fmtBarState (Model.XmlBar.readBarMeasures ms)
    | none => "bad-request"
  | "cbar" :: rest =>
    -- a written barline: the element, the hypothesis of barline_items_recovered, the children its reading accounts for
    match run (do let l ← BarWire.pLoc; let items ← list BarWire.pBarItem; pure (l, items)) rest with
    | some (l, items) =>
      let x := Model.XmlBar.writeBarline l items
      XmlWire.fmtXml x ++ "/" ++ fmtBool (decide (Model.XmlBar.BarSimple items)) ++ "/" ++
        fmtList BarWire.fmtBarItem (Model.XmlBar.itemsOfRead (Model.XmlBar.readBarline x))
    | none => "bad-request"
  | "wharm" :: rest =>
    match run BarWire.pHarmW rest with
    | some h => XmlWire.fmtXml (Model.XmlBar.writeHarmony h) ++ "/" ++ fmtBool (decide (Model.XmlBar.WellFormedHarm h))
    | none => "bad-request"
  | "rharm" :: rest =>
    match run XmlWire.pXml rest with
    | some x =>
      match Model.XmlBar.readHarmony x with
      | some l => fmtList BarWire.fmtHarmObj l
      | none => "err"
    | none => "bad-request"
  | "charm" :: rest =>
    match run BarWire.pHarmW rest with
    | some h =>
      match Model.XmlBar.canonHarmony h with
      | some l => fmtList BarWire.fmtHarmObj l
      | none => "err"
    | none => "bad-request"
  | "wprint" :: rest =>
    match run (do let ps ← list nat; let ss ← list nat; pure (ps, ss)) rest with
    | some (ps, ss) =>
      fmtList (fun (e : Nat × Model.XmlNote.Xml) => fmtNat e.1 ++ ":" ++ XmlWire.fmtXml e.2) (Model.XmlBar.doPrints ps ss)
    | none => "bad-request"
  | "prints" :: rest =>
    match run (list (do let t ← nat; let x ← XmlWire.pXml; pure (t, Model.XmlBar.readPrint x))) rest with
    | some ps =>
      let st := Model.XmlBar.readPrints ps
      fmtTuple [BarWire.fmtPages st.pages, BarWire.fmtPages st.systems]
    | none => "bad-request"
  | "wpl" :: rest =>
    match run (list BarWire.pPartW) rest with
    | some ps => fmtList XmlWire.fmtXml ((Model.PartList.writePartList ps).map Model.PartList.plXml)
    | none => "bad-request"
  | "rpl" :: rest =>
    match run (list XmlWire.pXml) rest with
    | some xs =>
      match Model.PartList.parsePartList (xs.map Model.PartList.readPL) with
      | some f => "[" ++ ",".intercalate (BarWire.fmtForest f) ++ "]"
      | none => "err"
    | none => "bad-request"
  | "arts" :: rest =>
    fmtList (fun (n : String) => n ++ ":" ++ fmtBool (XmlWire.articNames.any (·.1 == n))) rest
  | _ => "bad-request"

def main : IO Unit := mainLoop handle
