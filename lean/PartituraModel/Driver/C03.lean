import PartituraModel.Wire
import PartituraModel.Model.XmlMeasure
import PartituraModel.Model.RangeNumbers

open Wire Model.Xml
open Model.Ranges (Mark TieNote)

def codePoints (s : String) : List Nat := s.toList.map Char.toNat

def pGraceRef : P GraceRef := do
  let i ← nat; let o ← nat; let st ← nat
  pure { idx := i, onset := o, staff := st }

def pNoteIn : P NoteIn := do
  let idx ← nat; let onset ← nat; let dur ← nat; let grace ← bool; let voice ← nat; let staff ← nat
  let pitch ← int; let step ← str; let gp ← bool; let seq ← list pGraceRef
  pure { idx := idx, onset := onset, dur := dur, grace := grace, voice := voice, staff := staff,
         pitch := pitch, step := codePoints step, gracePrev := gp, seq := seq }

def pOtherIn : P OtherIn := do
  let onset ← nat; let order ← nat; let sig ← tok
  pure { onset := onset, order := order, sig := sig }

def pSegment : P Segment := do
  let start ← nat; let stop ← nat; let notes ← list pNoteIn; let others ← list pOtherIn
  pure { start := start, stop := stop, notes := notes, others := others }

def pMeasure : P MeasureContent := do
  let ns ← nat; let segs ← list pSegment
  pure { nStaves := ns, segs := segs }

def pEv : P Ev := do
  let k ← tok
  match k with
  | "n" => do
    let idx ← nat; let dur ← nat; let chord ← bool; let grace ← bool; let voice ← nat; let staff ← nat
    pure (Ev.note idx dur chord grace voice staff)
  | "b" => do let d ← nat; pure (Ev.backup d)
  | "f" => do let d ← nat; pure (Ev.forward d)
  | "o" => do let o ← nat; let s ← tok; pure (Ev.other o s)
  | _ => P.fail

def fmtEv : Ev → String
  | .note idx dur chord grace voice staff =>
    ":".intercalate ["n", fmtNat idx, fmtNat dur, fmtBool chord, fmtBool grace, fmtNat voice, fmtNat staff]
  | .backup d => "b:" ++ fmtNat d
  | .forward d => "f:" ++ fmtNat d
  | .other o s => "o:" ++ fmtNat o ++ ":" ++ s

def fmtNoteOut (n : NoteOut) : String :=
  ":".intercalate [fmtNat n.idx, fmtNat n.onset, fmtNat n.dur, fmtNat n.voice, fmtNat n.staff]

def fmtVoices (l : List (Nat × List NoteIn)) : String :=
  fmtList (fun (e : Nat × List NoteIn) => fmtNat e.1 ++ "=" ++ fmtList (fun (n : NoteIn) => fmtNat n.idx) e.2) l

def handle (ts : List String) : String :=
  match ts with
  | "lin" :: rest =>
    match run pMeasure rest with
    | some m => fmtList fmtEv (linearize m)
    | none => "bad-request"
  | "wf" :: rest =>
    match run pMeasure rest with
    | some m => fmtBool (decide (MeasureWF m))
    | none => "bad-request"
  | "int" :: rest =>
    match run (do let spec ← bool; let start ← nat; let evs ← list pEv; pure (spec, start, evs)) rest with
    | some (spec, start, evs) =>
      match interpretWith spec start evs with
      | some (notes, stop) => fmtTuple [fmtList fmtNoteOut notes, fmtNat stop]
      | none => "err"
    | none => "bad-request"
  | "snd" :: rest =>
    match run (do let start ← nat; let evs ← list pEv; pure (start, evs)) rest with
    | some (start, evs) =>
      match interpret start evs with
      | some (notes, stop) =>
        let sorted := isortBy (fun (a b : NoteOut) => decide (a.idx < b.idx)) notes
        fmtTuple [fmtList (fun (n : NoteOut) => ":".intercalate [fmtNat n.idx, fmtNat n.onset, fmtNat n.dur, fmtNat n.staff]) sorted,
                  fmtNat stop]
      | none => "err"
    | none => "bad-request"
  | "num" :: rest =>
    match run (list (do let l ← nat; let r ← nat; pure ((l, r) : Model.Ranges.Key))) rest with
    | some ks => fmtList fmtNat (Model.Ranges.numberAll [] ks)
    | none => "bad-request"
  | "numg" :: rest =>
    match run (list (do let l ← nat; let rs ← list nat; pure (l, rs))) rest with
    | some gs => fmtList (fmtList fmtNat) (Model.Ranges.numberGroups [] gs)
    | none => "bad-request"
  | "pair" :: rest =>
    match run (do
        let ct ← bool
        let ms ← list (do let n ← nat; let t ← nat; let st ← bool; let k ← nat
                          pure ({ note := n, time := t, isStart := st, number := k } : Mark))
        pure (ct, ms)) rest with
    | some (ct, ms) =>
      let s := Model.Ranges.readMarks ct ms
      let done := isortBy (fun (a b : Nat × Nat) => decide (a.1 < b.1) || (a.1 == b.1 && decide (a.2 < b.2))) s.done
      fmtTuple [fmtList (fun (p : Nat × Nat) => fmtTuple [fmtNat p.1, fmtNat p.2]) done, fmtNat s.lost.length]
    | none => "bad-request"
  | "tie" :: rest =>
    match run (list (do let n ← nat; let p ← int; let a ← nat; let b ← nat; let hs ← bool; let ha ← bool
                        pure ({ note := n, pitch := p, start := a, stop := b, hasStop := hs, hasStart := ha } : TieNote))) rest with
    | some ns => fmtList (fun (p : Nat × Nat) => fmtTuple [fmtNat p.1, fmtNat p.2]) (Model.Ranges.readTies ns)
    | none => "bad-request"
  | "voices" :: rest =>
    match run (list pNoteIn) rest with
    | some ns => fmtVoices (assignVoices ns)
    | none => "bad-request"
  | _ => "bad-request"

def main : IO Unit := mainLoop handle
