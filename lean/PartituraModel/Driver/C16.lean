import PartituraModel.Wire
import PartituraModel.Model.Transpose
import PartituraModel.Model.RomanRoot
import PartituraModel.Model.TransposeHeap
import PartituraModel.Model.LocalKey
import PartituraModel.Model.TransposeCall

open Wire Model

def orErr (o : Option String) : String := o.getD "err"

def parseDir : P Bool := do
  let t ← tok
  match t with
  | "up" => pure true
  | "down" => pure false
  | _ => P.fail

def fmtSpelling (r : String × Option Int × Int) : String :=
  fmtTuple [r.1, fmtOpt fmtInt r.2.1, fmtInt r.2.2]

/-- one heap cell: `S parts` | `P objects` | `N step alter octave refs payload` | `O refs payload` -/
def parseCell : P TH.Cell := do
  let t ← tok
  match t with
  | "S" => do let ps ← list nat; pure (.score ps)
  | "P" => do let os ← list nat; pure (.part os)
  | "N" => do
    let s ← str; let a ← opt int; let o ← int; let rs ← list nat; let p ← list int
    pure (.note s a o rs p)
  | "O" => do let rs ← list nat; let p ← list int; pure (.other rs p)
  | _ => P.fail

def fmtCell : TH.Cell → String
  | .score ps => "S" ++ fmtList fmtNat ps
  | .part os => "P" ++ fmtList fmtNat os
  | .note s a o rs p => "N" ++ fmtTuple [s, fmtOpt fmtInt a, fmtInt o, fmtList fmtNat rs, fmtList fmtInt p]
  | .other rs p => "O" ++ fmtTuple [fmtList fmtNat rs, fmtList fmtInt p]

def handle (ts : List String) : String :=
  match ts with
  | "tn" :: rest =>   -- one note: step alter|- octave quality number dir
    orErr <| (run (do let s ← str; let a ← opt int; let o ← int; let q ← str; let n ← nat; let d ← parseDir
                      pure (s, a, o, q, n, d)) rest).bind fun (s, a, o, q, n, d) =>
      (transposeSpelling s a o q n d).map fmtSpelling
  | "tp" :: rest =>   -- a part: quality number dir, then a list of notes
    orErr <| (run (do let q ← str; let n ← nat; let d ← parseDir
                      let notes ← list (do let s ← str; let a ← opt int; let o ← int; pure (s, a, o))
                      pure (q, n, d, notes)) rest).bind fun (q, n, d, notes) =>
      (notes.mapM fun (s, a, o) => transposeSpelling s a o q n d).map fun rs => fmtList fmtSpelling rs
  | "tno" :: rest =>  -- transpose_note: step alter quality number
    orErr <| (run (do let s ← str; let a ← int; let q ← str; let n ← nat; pure (s, a, q, n)) rest).bind
      fun (s, a, q, n) => (transposeNoteNoOctave s a q n).map fun (s, a) => fmtTuple [s, fmtInt a]
  | "rroot" :: rest =>  -- RomanNumeral.find_root_note (table path): local key, primary degree, secondary degree
    orErr <| (run (do let lk ← str; let p ← str; let s ← str; pure (lk, p, s)) rest).bind
      fun (lk, p, s) => (romanRoot lk p s).map fun (st, a) => fmtTuple [st, fmtInt a]
  | "ksa" :: rest =>  -- _key_step_alter(name)
    orErr <| (run str rest).bind fun nm => (keyStepAlter nm).map fun (s, a) => fmtTuple [s, fmtInt a]
  | "plk" :: rest =>  -- process_local_key(loc, glob, return_step_alter)
    orErr <| (run (do let l ← str; let g ← str; let f ← bool; pure (l, g, f)) rest).bind fun (l, g, f) =>
      (processLocalKey l g f).map fun r => match r with
        | .name nm => "N:" ++ nm
        | .stepAlter st a => fmtTuple [st, fmtInt a]
  | "rn" :: rest =>   -- RomanNumeral(inversion, local_key, primary, secondary, quality): (root, bass_note) | - (not computed)
    orErr <| (run (do let i ← nat; let lk ← str; let p ← str; let s ← str; let q ← str; pure (i, lk, p, s, q)) rest).bind
      fun (i, lk, p, s, q) => (romanRootBass i lk p s q).map fun r => fmtOpt (fun (x : String × String) => fmtTuple [x.1, x.2]) r
  | "th" :: rest =>   -- transpose(arg, Interval(number, quality, direction)) on a heap: quality number direction root cells;
                      -- answers the returned address and the heap after (err: the constructor or a note raised)
    orErr <| (run (do let q ← str; let n ← int; let d ← str; let r ← nat; let cells ← list parseCell
                      pure (q, n, d, r, cells)) rest).map fun (q, n, d, r, cells) =>
      match TH.transposeCallRun cells r n q d with
      | (h', some r') => fmtTuple [fmtNat r', fmtList fmtCell h']
      | (h', none) => fmtTuple ["err", fmtList fmtCell (h'.take cells.length)]   -- raised: the argument's cells after the raise
  | "ivn" :: rest =>  -- Interval(number, quality, direction) then _transpose_note_inplace on one note:
                      -- number quality direction step alter|- octave; answers A (AssertionError) | K (KeyError) | spelling
    orErr <| (run (do let n ← int; let q ← str; let d ← str; let s ← str; let a ← opt int; let o ← int
                      pure (n, q, d, s, a, o)) rest).map fun (n, q, d, s, a, o) =>
      match transposeNoteCall n q d s a o with
      | .assertion => "A"
      | .keyError => "K"
      | .moved s' a' o' => fmtSpelling (s', a', o')
  | "tnf" :: rest =>  -- transpose_note(step, alter, Interval(number, quality[, direction])): number quality direction|- step alter
    orErr <| (run (do let n ← int; let q ← str; let d ← opt str; let s ← str; let a ← int
                      pure (n, q, d, s, a)) rest).bind fun (n, q, d, s, a) =>
      ((match d with
        | some d => mkInterval n q d
        | none => mkIntervalDefault n q).bind fun iv => transposeNoteFn s a iv).map fun (s', a') => fmtTuple [s', fmtInt a']
  | "ivs" :: rest =>  -- Interval(number, quality, direction).semitones: A | K | size
    orErr <| (run (do let n ← int; let q ← str; let d ← str; pure (n, q, d)) rest).map fun (n, q, d) =>
      match mkInterval n q d with
      | none => "A"
      | some iv => match iv.semitones with
        | none => "K"
        | some z => fmtInt z
  | _ => "bad-request"

def main : IO Unit := mainLoop handle
