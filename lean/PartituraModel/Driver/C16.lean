import PartituraModel.Wire
import PartituraModel.Model.Transpose
import PartituraModel.Model.RomanRoot

open Wire Model

def orErr (o : Option String) : String := o.getD "err"

def parseDir : P Bool := do
  let t ← tok
  match t with
  | "up" => pure true
  | "down" => pure false
  | _ => P.fail

def fmtSpelling (r : String × Option Int × Int) : String :=
  fmtTuple [r.1, fmtOpt fmtInt r.2.1, fmtInt r.2.2]

def handle (ts : List String) : String :=
  match ts with
  | "tn" :: rest =>   -- one note: step alter|- octave quality number dir
    orErr <| (run (do let s ← str; let a ← opt int; let o ← int; let q ← str; let n ← nat; let d ← parseDir
                      pure (s, a, o, q, n, d)) rest).bind fun (s, a, o, q, n, d) =>
      (transposeSpelling s a o q n d).map fmtSpelling
  | "tp" :: rest =>   -- a part: quality number dir, then a list of notes
    orErr <| (run (do let q ← str; let n ← nat; let d ← parseDir
                      let notes ← list (do let s ← str; let a ← opt int; let o ← int; pure (s, a, o))
                      pure (q, n, d, notes)) rest).bind fun (q, n, d, notes) =>
      (notes.mapM fun (s, a, o) => transposeSpelling s a o q n d).map fun rs => fmtList fmtSpelling rs
  | "tno" :: rest =>  -- transpose_note: step alter quality number
    orErr <| (run (do let s ← str; let a ← int; let q ← str; let n ← nat; pure (s, a, q, n)) rest).bind
      fun (s, a, q, n) => (transposeNoteNoOctave s a q n).map fun (s, a) => fmtTuple [s, fmtInt a]
  | "rroot" :: rest =>  -- RomanNumeral.find_root_note (table path): local key, primary degree, secondary degree
    orErr <| (run (do let lk ← str; let p ← str; let s ← str; pure (lk, p, s)) rest).bind
      fun (lk, p, s) => (romanRoot lk p s).map fun (st, a) => fmtTuple [st, fmtInt a]
  | _ => "bad-request"

def main : IO Unit := mainLoop handle
