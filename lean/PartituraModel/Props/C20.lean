/-
C20 — container protocol half: scores and performances support len, indexing and iteration
consistently and re-entrantly.  (The non-mutation / repeatability half of C20 is a statement
about Python object graphs; it is decided by the frame checks of harness/props/c20.py and is
not a theorem — see DESIGN.md.)
-/
import PartituraModel.Model.IterProto

namespace C20
open Model Model.IterProto

def countNext (h : Nat) : List Op → Nat
  | [] => 0
  | Op.next h' :: ops => (if h' = h then 1 else 0) + countNext h ops
  | _ :: ops => countNext h ops

theorem expected_stop {α : Type} (parts : List α) (c : Nat) (hc : parts[c]? = none) (k : Nat) :
    expected parts (c + k) = Out.stop := by
  have : parts.length ≤ c := List.getElem?_eq_none_iff.mp hc
  have h2 : parts[c + k]? = none := List.getElem?_eq_none_iff.mpr (by omega)
  simp [expected, h2]

/-- **every handle sees the parts in order, whatever else happens**: for every container, every
    state in which handle `h` exists with cursor `c`, and EVERY interleaving `ops` of
    iter/next/len/getitem calls (on this and any number of other handles), the successive results
    of `next h` are parts[c], parts[c+1], … and then StopIteration for ever -/
theorem fresh_in_order {α : Type} (parts : List α) (h : Nat) (ops : List Op) :
    ∀ (s : State) (c : Nat), s.cursors[h]? = some c →
      nextOutputs h ops (run parts s ops).2 = (List.range (countNext h ops)).map (fun k => expected parts (c + k)) := by
  induction ops with
  | nil => intro s c _; simp [run, nextOutputs, countNext]
  | cons op ops ih =>
    intro s c hc
    cases op with
    | iter =>
      have hlt : h < s.cursors.length := by
        rcases Nat.lt_or_ge h s.cursors.length with hl | hl
        · exact hl
        · rw [List.getElem?_eq_none_iff.mpr hl] at hc; cases hc
      have hc' : (s.cursors ++ [0])[h]? = some c := by
        rw [List.getElem?_append_left hlt]; exact hc
      simpa [run, step, nextOutputs, countNext] using ih { cursors := s.cursors ++ [0] } c hc'
    | len => simpa [run, step, nextOutputs, countNext] using ih s c hc
    | getitem i =>
      cases hp : pyIndex parts i <;> simpa [run, step, nextOutputs, countNext, hp] using ih s c hc
    | next h' =>
      by_cases hh : h' = h
      · subst hh
        cases hp : parts[c]? with
        | none =>
          have := ih s c hc
          simp only [run, step, hc, hp, nextOutputs, if_true, countNext, this]
          rw [Nat.add_comm 1, List.range_succ_eq_map]
          simp only [List.map_cons, List.map_map, Nat.add_zero]
          congr 1
          · simp [expected, hp]
          · apply List.map_congr_left
            intro k _
            simp only [Function.comp]
            rw [expected_stop parts c hp, expected_stop parts c hp]
        | some a =>
          have hlt : h' < s.cursors.length := by
            rcases Nat.lt_or_ge h' s.cursors.length with hl | hl
            · exact hl
            · rw [List.getElem?_eq_none_iff.mpr hl] at hc; cases hc
          have hc' : (s.cursors.set h' (c + 1))[h']? = some (c + 1) := by
            simp [List.getElem?_set, hlt]
          have := ih { cursors := s.cursors.set h' (c + 1) } (c + 1) hc'
          simp only [run, step, hc, hp, nextOutputs, if_true, countNext, this]
          rw [Nat.add_comm 1, List.range_succ_eq_map]
          simp only [List.map_cons, List.map_map, Nat.add_zero]
          congr 1
          · simp [expected, hp]
          · apply List.map_congr_left
            intro k _
            simp only [Function.comp]
            congr 1
            omega
      · cases hc2 : s.cursors[h']? with
        | none =>
          have := ih s c hc
          simp [run, step, hc2, nextOutputs, hh, countNext, this]
        | some c2 =>
          cases hp : parts[c2]? with
          | none =>
            have := ih s c hc
            simp [run, step, hc2, hp, nextOutputs, hh, countNext, this]
          | some a =>
            have hc' : (s.cursors.set h' (c2 + 1))[h]? = some c := by
              rw [List.getElem?_set_ne hh]; exact hc
            have := ih { cursors := s.cursors.set h' (c2 + 1) } c hc'
            simp [run, step, hc2, hp, nextOutputs, hh, countNext, this]

/-- corollary: a handle obtained from `iter` yields parts[0], parts[1], …, then StopIteration,
    independently of every other handle (nested and interleaved iterations) -/
theorem fresh_visits_once {α : Type} (parts : List α) (s : State) (ops : List Op) :
    let s' := (step parts s Op.iter).1
    nextOutputs s.cursors.length ops (run parts s' ops).2
      = (List.range (countNext s.cursors.length ops)).map (expected parts) := by
  have h := fresh_in_order parts s.cursors.length ops { cursors := s.cursors ++ [0] } 0 (by simp)
  simpa [step] using h

/-- len and indexing: `c[i]` is parts[i] for 0 ≤ i < n, parts[n+i] for −n ≤ i < 0, IndexError otherwise;
    they do not touch any iterator -/
theorem len_getitem {α : Type} (parts : List α) (s : State) (i : Int) :
    (step parts s Op.len) = (s, Out.length parts.length) ∧
    (step parts s (Op.getitem i)).1 = s ∧
    (0 ≤ i → i < parts.length → (step parts s (Op.getitem i)).2 = expected parts i.toNat) ∧
    (i < 0 → -(parts.length : Int) ≤ i →
        (step parts s (Op.getitem i)).2 = expected parts (parts.length - (-i).toNat)) ∧
    ((i < -(parts.length : Int) ∨ (parts.length : Int) ≤ i) → (step parts s (Op.getitem i)).2 = Out.indexError) := by
  refine ⟨rfl, ?_, ?_, ?_, ?_⟩
  · simp only [step]; split <;> rfl
  · intro h0 h1
    have hlt : i.toNat < parts.length := by omega
    simp [step, pyIndex, h0, expected, List.getElem?_eq_getElem hlt]
  · intro h0 h1
    have hn : ¬ (0 ≤ i) := by omega
    have h2 : -i ≤ (parts.length : Int) := by omega
    have hlt : parts.length - (-i).toNat < parts.length := by omega
    simp [step, pyIndex, hn, h2, expected, List.getElem?_eq_getElem hlt]
  · intro h
    rcases h with h | h
    · have hn : ¬ (0 ≤ i) := by omega
      have h2 : ¬ (-i ≤ (parts.length : Int)) := by omega
      simp [step, pyIndex, hn, h2]
    · have h0 : 0 ≤ i := by omega
      have : parts[i.toNat]? = none := List.getElem?_eq_none_iff.mpr (by omega)
      simp [step, pyIndex, h0, this]

/-- **assignment is seen consistently by indexing, len and iteration**: after `c[i] = a` with a valid index,
    `c[i]` is `a`, every other index and the length are unchanged, and a fresh iteration yields exactly the new
    part list in order (whatever other calls are interleaved) -/
theorem set_consistent {α : Type} (parts ps : List α) (i : Int) (a : α) (h : setItem parts i a = some ps) :
    ps.length = parts.length ∧ pyIndex ps i = some a ∧
    (∀ s : State, ∀ ops : List Op,
      nextOutputs s.cursors.length ops (run ps (step ps s Op.iter).1 ops).2
        = (List.range (countNext s.cursors.length ops)).map (expected ps)) := by
  refine ⟨?_, ?_, fun s ops => fresh_visits_once ps s ops⟩
  · unfold setItem at h
    split at h
    · split at h
      · cases h; simp
      · cases h
    · split at h
      · cases h; simp
      · cases h
  · unfold setItem at h
    unfold pyIndex
    split at h
    · rename_i h0
      split at h
      · rename_i hlt
        cases h
        simp [h0, hlt]
      · cases h
    · rename_i h0
      split at h
      · rename_i hle
        cases h
        have hlt : parts.length - (-i).toNat < parts.length := by omega
        simp [h0, hle, hlt]
      · cases h

/-- an out-of-range assignment is rejected and changes nothing -/
theorem set_rejects {α : Type} (parts : List α) (i : Int) (a : α)
    (h : i < -(parts.length : Int) ∨ (parts.length : Int) ≤ i) : setItem parts i a = none := by
  unfold setItem
  rcases h with h | h
  · have h0 : ¬ (0 ≤ i) := by omega
    have h1 : ¬ (-i ≤ (parts.length : Int)) := by omega
    simp [h0, h1]
  · have h0 : 0 ≤ i := by omega
    have h1 : ¬ (i.toNat < parts.length) := by omega
    simp [h0, h1]

/-- the shared-cursor design (the code before the repair) violates the property: with two parts,
    an inner iteration started after the outer loop took its first item makes the outer loop
    lose parts[1] -/
theorem shared_violates :
    let ops := [Op.iter, Op.next 0, Op.iter, Op.next 1, Op.next 1, Op.next 0]
    nextOutputs 0 ops (srun [10, 20] {} ops).2 = [Out.item 10, Out.stop] ∧
    nextOutputs 0 ops (run [10, 20] {} ops).2 = [Out.item 10, Out.item 20] := by decide

/-- non-vacuity of `fresh_in_order`: a state with two live handles -/
example : ({ cursors := [1, 0] } : State).cursors[1]? = some 0 := by decide

end C20
