/-
C06 (round 2) — track numbers: `Performance.sanitize_track_numbers` (repaired: fixes/C06-3) and its
composition with the MIDI loader.
-/
import PartituraModel.Model.PerfMidi
import PartituraModel.Proofs.C06Tracks

namespace C06
open Model Model.PerfMidi C06Sort C06Stable C06Tracks

/-- the (part index, track number) pairs of the notes, controls and programs of all parts -/
def allPairs (parts : List (List Int)) : List (Nat × Int) :=
  parts.zipIdx.flatMap fun p => p.1.map fun t => (p.2, t)

/-- the new number of track `t` of part `i` -/
def newTrack (parts : List (List Int)) (i : Nat) (t : Int) : Option Nat :=
  indexOfKey (i, t) (sanitizeKeys (allPairs parts))

/-- `sanitize_track_numbers`: the new numbers are the positions in the key list (first
    conjunct, by definition); every (part, track) pair that occurs gets a number below the number of distinct
    pairs (a), the numbers follow the lexicographic order of (part index, old track number) (b) — so a number
    never occurs in two parts or for two old tracks of one part, the parts keep their relative order and
    the tracks of a part theirs (c, d, e) —, and every number below the count is used (f) -/
theorem sanitize_tracks (parts : List (List Int)) :
    (sanitize parts = parts.zipIdx.map fun p => p.1.map fun t => newTrack parts p.2 t) ∧
    (∀ k ∈ allPairs parts, ∃ n, newTrack parts k.1 k.2 = some n ∧ n < (sanitizeKeys (allPairs parts)).length) ∧
    (∀ a ∈ allPairs parts, ∀ b ∈ allPairs parts, ∀ n m, newTrack parts a.1 a.2 = some n →
        newTrack parts b.1 b.2 = some m → (n < m ↔ LexLt a b)) ∧
    (∀ a ∈ allPairs parts, ∀ b ∈ allPairs parts, ∀ n, newTrack parts a.1 a.2 = some n →
        newTrack parts b.1 b.2 = some n → a = b) ∧
    (∀ a ∈ allPairs parts, ∀ b ∈ allPairs parts, ∀ n m, newTrack parts a.1 a.2 = some n →
        newTrack parts b.1 b.2 = some m → a.1 < b.1 → n < m) ∧
    (∀ a ∈ allPairs parts, ∀ b ∈ allPairs parts, ∀ n m, newTrack parts a.1 a.2 = some n →
        newTrack parts b.1 b.2 = some m → a.1 = b.1 → a.2 < b.2 → n < m) ∧
    (∀ n < (sanitizeKeys (allPairs parts)).length, ∃ k ∈ allPairs parts, newTrack parts k.1 k.2 = some n) := by
  have hstrict := strict_sanitizeKeys (allPairs parts)
  have hb : ∀ a ∈ allPairs parts, ∀ b ∈ allPairs parts, ∀ n m, newTrack parts a.1 a.2 = some n →
      newTrack parts b.1 b.2 = some m → (n < m ↔ LexLt a b) := by
    intro a _ b _ n m hn hm
    exact indexOfKey_lt _ hstrict a b n m hn hm
  refine ⟨rfl, ?_, hb, ?_, ?_, ?_, ?_⟩
  · intro k hk
    obtain ⟨n, hn⟩ := indexOfKey_of_mem k _ ((mem_sanitizeKeys _ k).mpr hk)
    refine ⟨n, hn, ?_⟩
    have := indexOfKey_some k _ n hn
    exact (List.getElem?_eq_some_iff.mp this).1
  · intro a ha b hb' n hn hm
    have h1 := (hb a ha b hb' n n hn hm).not.mp (lt_irrefl n)
    have h2 := (hb b hb' a ha n n hm hn).not.mp (lt_irrefl n)
    unfold LexLt at h1 h2
    obtain ⟨a1, a2⟩ := a
    obtain ⟨b1, b2⟩ := b
    simp only [Prod.mk.injEq] at *
    omega
  · intro a ha b hb' n m hn hm hlt
    exact (hb a ha b hb' n m hn hm).mpr (Or.inl hlt)
  · intro a ha b hb' n m hn hm he hlt
    exact (hb a ha b hb' n m hn hm).mpr (Or.inr ⟨he, hlt⟩)
  · intro n hn
    have hk : (sanitizeKeys (allPairs parts))[n]? = some (sanitizeKeys (allPairs parts))[n] :=
      List.getElem?_eq_getElem hn
    generalize (sanitizeKeys (allPairs parts))[n] = k at hk
    have hmem : k ∈ sanitizeKeys (allPairs parts) := List.mem_of_getElem? hk
    refine ⟨k, (mem_sanitizeKeys _ k).mp hmem, ?_⟩
    obtain ⟨i, hi⟩ := indexOfKey_of_mem k _ hmem
    have hi' := indexOfKey_some k _ i hi
    have hil : i < (sanitizeKeys (allPairs parts)).length := (List.getElem?_eq_some_iff.mp hi').1
    have e1 : (sanitizeKeys (allPairs parts))[i] = k := (List.getElem?_eq_some_iff.mp hi').2
    have e2 : (sanitizeKeys (allPairs parts))[n] = k := (List.getElem?_eq_some_iff.mp hk).2
    have hp := List.pairwise_iff_getElem.mp hstrict
    have : i = n := by
      rcases Nat.lt_trichotomy i n with h | h | h
      · have := hp i n hil hn h
        rw [e1, e2] at this
        exact absurd this (lexLt_irrefl k)
      · exact h
      · have := hp n i hn hil h
        rw [e1, e2] at this
        exact absurd this (lexLt_irrefl k)
    unfold newTrack
    rw [hi, this]

/-- non-vacuity, and the witness of fixes/C06-3: part 0 uses tracks 7 and 2, part 1 track 2 -/
example : sanitize [[7, 2, 7], [2], []] = [[some 1, some 0, some 1], [some 2], []] := by decide

-- ------------------------------------------------------------------ composition with the loader

/-- parts that carry ONE track number each (part j: `c_j + 1` entries with track `t_j`, any `t_j`) are
    numbered by their position -/
theorem sanitize_single_track (ts : List (Int × Nat)) :
    sanitize (ts.map fun tc => List.replicate (tc.2 + 1) tc.1)
      = ts.zipIdx.map fun p => List.replicate (p.1.2 + 1) (some p.2) := by
  have hkeys : sanitizeKeys (allPairs (ts.map fun tc => List.replicate (tc.2 + 1) tc.1)) = keysFrom 0 ts := by
    unfold allPairs sanitizeKeys
    rw [pairs_map_replicate, sortBy_of_sorted pairLe _ (pairsFrom_sorted 0 ts), dedupAdj_pairsFrom]
  rw [(sanitize_tracks _).1]
  unfold newTrack
  rw [hkeys, List.zipIdx_map, List.map_map]
  refine List.map_congr_left ?_
  intro p hp
  have hget : ts[p.2]? = some p.1 := List.mem_zipIdx_iff_getElem?.mp hp
  simp only [Function.comp, Prod.map, id, List.map_replicate]
  have := indexOfKey_keysFrom 0 ts p.2 p.1 hget
  rw [Nat.zero_add] at this
  rw [this]

/-- The loader: every performed part is read from one file track and all its notes, controls and programs
    carry that track's index, so `Performance(...)`/`sanitize_track_numbers` gives the j-th performed part
    (the j-th file track that holds a note, a control or a program) the number j — for all its notes,
    controls and programs -/
theorem loader_renumbering (rts : List RTrack) (hk : ∀ t ∈ rts, t.kept = true) :
    loadNumbers rts = rts.zipIdx.map fun p =>
      List.replicate (p.1.notes.length + p.1.controls.length + p.1.programs.length) (some p.2) := by
  have hpos : ∀ t ∈ rts, 0 < t.notes.length + t.controls.length + t.programs.length := by
    intro t ht
    have := hk t ht
    unfold RTrack.kept at this
    by_contra hc
    have h0 : t.notes.length = 0 ∧ t.controls.length = 0 ∧ t.programs.length = 0 := by omega
    simp [List.length_eq_zero_iff.mp h0.1, List.length_eq_zero_iff.mp h0.2.1,
      List.length_eq_zero_iff.mp h0.2.2] at this
  have e : rts.map partTracks
      = (rts.map fun t => ((t.fileTrack : Int), t.notes.length + t.controls.length + t.programs.length - 1)).map
          fun tc => List.replicate (tc.2 + 1) tc.1 := by
    rw [List.map_map]
    refine List.map_congr_left ?_
    intro t ht
    have := hpos t ht
    simp only [Function.comp, partTracks]
    congr 1
    omega
  unfold loadNumbers
  rw [e, sanitize_single_track, List.zipIdx_map, List.map_map]
  refine List.map_congr_left ?_
  intro p hp
  have := hpos p.1 (List.mem_zipIdx_iff_getElem?.mp hp |> List.mem_of_getElem?)
  simp only [Function.comp, Prod.map, id]
  congr 1
  omega

/-- … in particular what `loadFile` returns (its parts are the kept tracks) -/
theorem loadFile_numbers (merge : Bool) (tracks : List Track) :
    (loadNumbers (loadFile merge tracks)).map partNumber
      = (loadFile merge tracks).zipIdx.map fun p => some p.2 := by
  have hk : ∀ t ∈ loadFile merge tracks, t.kept = true := by
    intro t ht
    unfold loadFile at ht
    exact (List.mem_filter.mp ht).2
  have hpos : ∀ t ∈ loadFile merge tracks, 0 < t.notes.length + t.controls.length + t.programs.length := by
    intro t ht
    have := hk t ht
    unfold RTrack.kept at this
    by_contra hc
    have h0 : t.notes.length = 0 ∧ t.controls.length = 0 ∧ t.programs.length = 0 := by omega
    simp [List.length_eq_zero_iff.mp h0.1, List.length_eq_zero_iff.mp h0.2.1,
      List.length_eq_zero_iff.mp h0.2.2] at this
  rw [loader_renumbering _ hk, List.map_map]
  refine List.map_congr_left ?_
  intro p hp
  have := hpos p.1 (List.mem_zipIdx_iff_getElem?.mp hp |> List.mem_of_getElem?)
  obtain ⟨c, hc⟩ : ∃ c, p.1.notes.length + p.1.controls.length + p.1.programs.length = c + 1 := ⟨_, (Nat.succ_pred_eq_of_pos this).symm⟩
  simp [partNumber, hc, List.replicate_succ]

/-- non-vacuity: three file tracks, the middle one (tempo only) makes no part: file tracks 0 and 2 become
    parts 0 and 1 -/
example : (loadFile false [[(0, Ev.noteOn 0 60 64), (10, Ev.noteOff 0 60 0)], [(0, Ev.tempo 400000)],
                           [(5, Ev.control 3 64 127), (1, Ev.program 3 9)]]).map (·.fileTrack) = [0, 2] ∧
    loadNumbers (loadFile false [[(0, Ev.noteOn 0 60 64), (10, Ev.noteOff 0 60 0)], [(0, Ev.tempo 400000)],
                           [(5, Ev.control 3 64 127), (1, Ev.program 3 9)]]) = [[some 0], [some 1, some 1]] := by
  decide +kernel

end C06
