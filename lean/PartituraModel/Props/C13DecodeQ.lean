/-
C13, round 5 — `pianoroll_to_notearray` on real-valued rolls (Model/PianoRollDecodeQ.lean).

The code takes every NON-ZERO cell as sounding and `int(cell)` (truncation toward zero) as its velocity.
`decodeQ_spec`: on every matrix of rationals the notes returned are, without repetition and sorted by (onset, pitch,
offset, velocity), exactly the maximal horizontal runs of non-zero cells of one integer part — velocity 0 for cells
strictly between -1 and 1.  `decodeQ_extends`: on integer rolls this is the decoder of `decode_spec`.
`storedQ_spec`: what is stored (int32 velocity / pitch or OverflowError, binary32 times).
-/
import PartituraModel.Props.C13Float
import PartituraModel.Props.C13Args
import PartituraModel.Proofs.C13DecodeQ

namespace C13
open Model Model.PianoRoll
open List

/-- **the real-valued decoder extends the integer decoder** -/
theorem decodeQ_extends (rows : Nat) (cols : List (List Int)) (td : Rat) :
    decodeRunsQ (cols.map fun c : List Int => c.map fun v : Int => (v : Rat)) = decodeRuns cols ∧
    decodeQ rows (cols.map fun c : List Int => c.map fun v : Int => (v : Rat)) td = decode rows cols td := by
  have h := decodeRunsQ_cast cols
  refine ⟨h, ?_⟩
  unfold decodeQ decode
  rw [h]
  cases Model.lookup rows Gen.C13_DEC_SHAPES <;> rfl

/-- **decoder, every real-valued matrix, every `time_div`**: 128 / 88 rows only; `time_div = 0` fails as soon as
    there is a note; the notes are the maximal runs of non-zero cells with one integer part (`truncRat`, Python's
    `int()`), `velocity` = that integer part -/
theorem decodeQ_spec (rows : Nat) (cols : List (List Rat)) (td : Rat) :
    ((rows ≠ 128 ∧ rows ≠ 88) → decodeQ rows cols td = none) ∧
    ∀ init, (rows = 128 ∧ init = 0) ∨ (rows = 88 ∧ init = 21) →
      (td = 0 → decodeRunsQ cols ≠ [] → decodeQ rows cols td = none) ∧
      (td ≠ 0 ∨ decodeRunsQ cols = [] → decodeQ rows cols td = some ((decodeRunsQ cols).map (outOf init td))) ∧
      (decodeRunsQ cols).Nodup ∧ (decodeRunsQ cols).Pairwise (fun a b => runLe a b = true) ∧
      ∀ x : Run, x ∈ decodeRunsQ cols ↔
        (x.on < x.off ∧ x.off ≤ cols.length ∧
          (∀ s, x.on ≤ s → s < x.off → cellAtQ cols x.pitch s ≠ 0 ∧ truncRat (cellAtQ cols x.pitch s) = x.vel) ∧
          (x.on = 0 ∨ cellAtQ cols x.pitch (x.on - 1) = 0 ∨ truncRat (cellAtQ cols x.pitch (x.on - 1)) ≠ x.vel) ∧
          (x.off = cols.length ∨ cellAtQ cols x.pitch x.off = 0 ∨ truncRat (cellAtQ cols x.pitch x.off) ≠ x.vel)) := by
  constructor
  · rintro ⟨h1, h2⟩
    simp [decodeQ, tbl_dec_shapes, Model.lookup, Ne.symm h1, Ne.symm h2]
  · intro init hinit
    obtain ⟨h1, h2, h3⟩ := decodeRunsQ_spec_aux cols
    refine ⟨?_, ?_, h1, h2, h3⟩
    · intro h0 hne
      subst h0
      unfold decodeQ
      split
      · rfl
      · simp [hne]
    · intro htd
      have hz : ¬ (td = 0 ∧ decodeRunsQ cols ≠ []) := by
        rintro ⟨a, b⟩
        rcases htd with h | h
        · exact h a
        · exact b h
      unfold decodeQ
      rcases hinit with ⟨a, b⟩ | ⟨a, b⟩ <;> subst a b
      · have : Model.lookup 128 Gen.C13_DEC_SHAPES = some 0 := by decide
        simp only [this, if_neg hz]; rfl
      · have : Model.lookup 88 Gen.C13_DEC_SHAPES = some 21 := by decide
        simp only [this, if_neg hz]; rfl

/-- the integer part: toward zero, less than 1 away; a cell strictly between -1 and 1 has velocity 0; integers are
    their own integer part -/
theorem int_part (q : Rat) :
    |q - (truncRat q : Rat)| < 1 ∧ (0 ≤ q → 0 ≤ truncRat q ∧ (truncRat q : Rat) ≤ q) ∧
    (q < 0 → truncRat q ≤ 0 ∧ q ≤ (truncRat q : Rat)) ∧ (-1 < q → q < 1 → truncRat q = 0) ∧
    (∀ v : Int, truncRat (v : Rat) = v) := by
  obtain ⟨h1, h2, _⟩ := trunc_spec q
  refine ⟨?_, fun h => ⟨(h1 h).1, (h1 h).2.1⟩, fun h => ⟨(h2 h).1, (h2 h).2.1⟩, ?_, truncRat_intCast⟩
  · rcases le_or_gt 0 q with h | h
    · obtain ⟨_, a, b⟩ := h1 h
      rw [abs_lt]; constructor <;> linarith
    · obtain ⟨_, a, b⟩ := h2 h
      rw [abs_lt]; constructor <;> linarith
  · intro ha hb
    rcases le_or_gt 0 q with h | h
    · obtain ⟨a, b, _⟩ := h1 h
      have : ((truncRat q : Int) : Rat) < ((1 : Int) : Rat) := by push_cast; linarith
      have : truncRat q < 1 := by exact_mod_cast this
      omega
    · obtain ⟨a, b, _⟩ := h2 h
      have : (((-1 : Int)) : Rat) < ((truncRat q : Int) : Rat) := by push_cast; linarith
      have : -1 < truncRat q := by exact_mod_cast this
      omega

/-- **what is stored**: a pitch / velocity outside the 32-bit column is an OverflowError; otherwise the exact
    decoder's pitches and velocities with the times rounded to binary64 and then to binary32 (`round_spec`) -/
theorem storedQ_spec (rows : Nat) (cols : List (List Rat)) (td : Option Rat) :
    (∀ v : Int, fitsIntCol v = true ↔ -2147483648 ≤ v ∧ v ≤ 2147483647) ∧
    (∀ q, storeCol q = storeF32 q) ∧
    (decodeQ rows cols (td.getD 8) = none → decodeStoredQ rows cols td = none) ∧
    ∀ l, decodeQ rows cols (td.getD 8) = some l →
      ((∃ x ∈ l, fitsIntCol x.2.2.2 = false ∨ fitsIntCol x.1 = false) → decodeStoredQ rows cols td = none) ∧
      ((∀ x ∈ l, fitsIntCol x.2.2.2 = true ∧ fitsIntCol x.1 = true) →
        decodeStoredQ rows cols td = some (l.map fun (p, on, du, v) => (p, storeF32 on, storeF32 du, v))) := by
  have hd : Gen.C13_DEC_DEFAULT_time_div = 8 := by decide
  refine ⟨?_, storeCol_eq, ?_, ?_⟩
  · intro v
    unfold fitsIntCol
    have : Gen.C13L_DEC_INT_BITS = 32 := by decide
    rw [this]
    simp only [Bool.and_eq_true, decide_eq_true_eq]
    constructor <;> rintro ⟨a, b⟩ <;> constructor <;> omega
  · intro h
    unfold decodeStoredQ
    rw [hd, h]
  · intro l hl
    constructor
    · rintro ⟨x, hx, hbad⟩
      unfold decodeStoredQ
      rw [hd, hl]
      simp only
      rw [if_neg]
      intro hall
      have := all_eq_true.mp hall x hx
      rw [Bool.and_eq_true] at this
      rcases hbad with hb | hb
      · rw [hb] at this; exact absurd this.1 (by decide)
      · rw [hb] at this; exact absurd this.2 (by decide)
    · intro hok
      unfold decodeStoredQ
      rw [hd, hl]
      simp only
      rw [if_pos]
      · rfl
      · rw [all_eq_true]
        intro x hx
        rw [Bool.and_eq_true]
        exact hok x hx

/-- cells 0.5, 0.7, -0.5 are one note of velocity 0; 1.2, 1.9 one note of velocity 1, then 2.0 another note -/
example : decodeQ 88 ([[(1 : Rat) / 2, 6 / 5] ++ List.replicate 86 0, [(7 : Rat) / 10, 19 / 10] ++ List.replicate 86 0,
    [(-1 : Rat) / 2, 2] ++ List.replicate 86 0]) 1 = some [(21, 0, 3, 0), (22, 0, 2, 1), (22, 2, 1, 2)] := by decide +kernel
/-- a velocity beyond int32 -/
example : decodeStoredQ 88 [[(3000000000 : Rat)] ++ List.replicate 87 0] (some 1) = none := by decide +kernel
example : decodeStoredQ 88 [[(5 : Rat) / 2] ++ List.replicate 87 0] (some 3) = some [(21, some 0, storeF32 (1 / 3), 2)] := by
  decide +kernel

end C13
