/-
C20 — "array views that copy": `slice_notearray_by_time` over a heap of numpy buffers (Model/ArrayView.lean).
For EVERY heap, every argument array, every window and every row semantics (the row predicates and the two in-place
rewritings are parameters): the call allocates one buffer and writes only into it —
* `slice_frame`        every buffer that existed before the call (the argument's among them) holds what it held;
* `slice_fresh`        the array returned shares memory with no array that existed before, in particular not the argument;
* `slice_result`       it holds the active rows in their order (clipped when asked);
* `slice_independent`  in-place operations on the RESULT do not reach the argument;
* `slice_repeatable`   a second call returns a new array with equal contents and leaves the first result alone.
The seeded variant C20-c (selection skipped when every row is active) is refuted by `example`.
That the live source binds the result by allocation (np.empty / integer-array indexing) and that every later
subscript-store targets the result is read from the source on every run (Props/C20Gen.lean `slice_steps_generated`).
-/
import PartituraModel.Proofs.C20Array

namespace C20Array
open Model.ArrayView C20Arr

variable {α : Type} (act early : α → Bool) (setAll clipDur : α → α) (clip : Bool)

/-- the call succeeds exactly on arrays of the heap -/
theorem slice_defined (bufs : Bufs α) (a : Nat) :
    (sliceByTime act early setAll clipDur clip bufs a).isSome = decide (a < bufs.length) := by
  cases h : bufs[a]? with
  | none =>
    have hlen : bufs.length ≤ a := List.getElem?_eq_none_iff.mp h
    have hnot : ¬ a < bufs.length := Nat.not_lt.mpr hlen
    simp [sliceByTime, sliceGen, hnot]
  | some rows =>
    have hlt : a < bufs.length := (List.getElem?_eq_some_iff.mp h).1
    rw [sliceByTime_eq act early setAll clipDur clip bufs a rows h]
    simp [hlt]

/-- **the argument (and every other existing array) is left exactly as it was** -/
theorem slice_frame (bufs : Bufs α) (a : Nat) (res : Bufs α × Nat)
    (h : sliceByTime act early setAll clipDur clip bufs a = some res) :
    (∀ i, i < bufs.length → res.1[i]? = bufs[i]?) ∧ res.1[a]? = bufs[a]? := by
  cases hr : bufs[a]? with
  | none => simp [sliceByTime, sliceGen, hr] at h
  | some rows =>
    rw [sliceByTime_eq act early setAll clipDur clip bufs a rows hr] at h
    cases h
    have hlt : a < bufs.length := (List.getElem?_eq_some_iff.mp hr).1
    have hall : ∀ i, i < bufs.length → (bufs ++ [sliceSpec act early setAll clipDur clip rows])[i]? = bufs[i]? :=
      fun i hi => List.getElem?_append_left hi
    exact ⟨hall, (hall a hlt).trans hr⟩

/-- **the result is a new array**: its buffer did not exist before the call, so it shares memory with no existing
    array — in particular it is not (a view of) the argument -/
theorem slice_fresh (bufs : Bufs α) (a : Nat) (res : Bufs α × Nat)
    (h : sliceByTime act early setAll clipDur clip bufs a = some res) :
    res.2 = bufs.length ∧ res.2 ≠ a ∧ res.1.length = bufs.length + 1 := by
  cases hr : bufs[a]? with
  | none => simp [sliceByTime, sliceGen, hr] at h
  | some rows =>
    rw [sliceByTime_eq act early setAll clipDur clip bufs a rows hr] at h
    cases h
    have hlt : a < bufs.length := (List.getElem?_eq_some_iff.mp hr).1
    exact ⟨rfl, by simp only [ne_eq]; omega, by simp⟩

/-- **what the result holds**: the active rows of the argument, in order; clipped when asked -/
theorem slice_result (bufs : Bufs α) (a : Nat) (rows : List α) (res : Bufs α × Nat) (hr : bufs[a]? = some rows)
    (h : sliceByTime act early setAll clipDur clip bufs a = some res) :
    res.1[res.2]? = some (sliceSpec act early setAll clipDur clip rows) := by
  rw [sliceByTime_eq act early setAll clipDur clip bufs a rows hr] at h
  cases h
  exact get_last _ _

/-- **results are independent objects**: rewriting the result in place (what a caller may do with an array it was
    handed) does not reach the argument -/
theorem slice_independent (g : α → α) (bufs : Bufs α) (a : Nat) (res : Bufs α × Nat)
    (h : sliceByTime act early setAll clipDur clip bufs a = some res) :
    (writeAll g res.1 res.2)[a]? = bufs[a]? := by
  cases hr : bufs[a]? with
  | none => simp [sliceByTime, sliceGen, hr] at h
  | some rows =>
    rw [sliceByTime_eq act early setAll clipDur clip bufs a rows hr] at h
    cases h
    have hlt : a < bufs.length := (List.getElem?_eq_some_iff.mp hr).1
    rw [writeAll_last, List.getElem?_append_left hlt, hr]

/-- **repeatable**: a second call on the same argument, in the heap the first call left, returns ANOTHER new array with
    the contents of the first result, and the first result is still what it was -/
theorem slice_repeatable (bufs : Bufs α) (a : Nat) (r1 r2 : Bufs α × Nat)
    (h1 : sliceByTime act early setAll clipDur clip bufs a = some r1)
    (h2 : sliceByTime act early setAll clipDur clip r1.1 a = some r2) :
    r2.1[r2.2]? = r1.1[r1.2]? ∧ r2.2 ≠ r1.2 ∧ r2.1[r1.2]? = r1.1[r1.2]? := by
  cases hr : bufs[a]? with
  | none => simp [sliceByTime, sliceGen, hr] at h1
  | some rows =>
    have hf := (slice_frame act early setAll clipDur clip bufs a r1 h1).2
    have hr1 : r1.1[a]? = some rows := hf.trans hr
    have e1 := slice_result act early setAll clipDur clip bufs a rows r1 hr h1
    have e2 := slice_result act early setAll clipDur clip r1.1 a rows r2 hr1 h2
    obtain ⟨f1, _, l1⟩ := slice_fresh act early setAll clipDur clip bufs a r1 h1
    obtain ⟨f2, _, _⟩ := slice_fresh act early setAll clipDur clip r1.1 a r2 h2
    refine ⟨e2.trans e1.symm, by rw [f2, f1, l1]; omega, ?_⟩
    exact (slice_frame act early setAll clipDur clip r1.1 a r2 h2).1 r1.2 (by rw [f1, l1]; omega)

/-- an argument that is not an array of the heap is rejected -/
theorem slice_rejects (bufs : Bufs α) (a : Nat) (h : bufs[a]? = none) :
    sliceByTime act early setAll clipDur clip bufs a = none := by
  simp [sliceByTime, sliceGen, h]

-- ------------------------------------------------------------------ non-vacuity and the seeded variant

/-- a window that covers the middle of three notes (ticks of a quarter beat; window [2, 12)): the first note started
    before the window — its row is overwritten by the scalar (all fields, as the code does) — the last is cut at the end;
    the argument is untouched and the result is buffer 1 -/
example :
    sliceRows true 2 12 4 [[⟨0, 8, 60⟩, ⟨4, 4, 62⟩, ⟨8, 16, 64⟩]] 0
      = some ([[⟨0, 8, 60⟩, ⟨4, 4, 62⟩, ⟨8, 16, 64⟩], [⟨2, 2, 0⟩, ⟨4, 4, 62⟩, ⟨8, 4, 64⟩]], 1) := by decide

/-- nothing active: a new EMPTY array -/
example : sliceRows true 40 50 4 [[⟨0, 8, 60⟩]] 0 = some ([[⟨0, 8, 60⟩], []], 1) := by decide

/-- the seeded variant C20-c: the window covers every note, the selection is skipped, the ARGUMENT is the slice and
    the clipping is written into the caller's array (last note cut from 16 to 4 ticks); the code as written returns a
    new array and leaves the argument alone -/
example :
    sliceSkipFull (Row.act (-4) 12) (Row.early (-4)) (Row.setAll (-4) 4) (Row.clipDur 12) true
        [[⟨0, 8, 60⟩, ⟨8, 16, 64⟩]] 0
      = some ([[⟨0, 8, 60⟩, ⟨8, 4, 64⟩]], 0) ∧
    sliceRows true (-4) 12 4 [[⟨0, 8, 60⟩, ⟨8, 16, 64⟩]] 0
      = some ([[⟨0, 8, 60⟩, ⟨8, 16, 64⟩], [⟨0, 8, 60⟩, ⟨8, 4, 64⟩]], 1) := by decide

end C20Array
