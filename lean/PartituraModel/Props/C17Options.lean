/-
C17 (round 2) — the options around the three estimators (Model/C17Wrap.lean): which fields of a
structured note array are read (`get_time_units_from_note_array`, `prepare_notearray`), the
`monophonic_voices` flag end to end on arrays, the profile names of `estimate_key` / `ks_kid`,
`return_sorted_keys`.  Tables come from Gen/C17Tables.lean (regenerated from the source on every run);
helper lemmas in Proofs/C17Wrap.lean.
-/
import PartituraModel.Props.C17
import PartituraModel.Props.C17Search
import PartituraModel.Proofs.C17Wrap

namespace C17
open Model Model.C17Wrap Gen

/-! ### which fields the estimators read -/

/-- the unit selection regenerated from the source is: beat, else quarter, else div (score units),
    else sec, else tick (performance units), else ValueError -/
theorem units_selection (fields : List String) : timeUnits fields = C17W.pick fields :=
  C17W.timeUnits_eq_pick fields

/-- "the score information will be preferred": performance fields added to an array that has score
    units change nothing -/
theorem units_score_preferred (fields extra : List String)
    (hs : "onset_beat" ∈ fields ∨ "onset_quarter" ∈ fields ∨ "onset_div" ∈ fields)
    (hx : ∀ f ∈ extra, f ∈ ["onset_sec", "duration_sec", "onset_tick", "duration_tick"]) :
    timeUnits (fields ++ extra) = timeUnits fields :=
  C17W.timeUnits_score_preferred fields extra hs hx

example : timeUnits (["pitch", "onset_div", "duration_div"] ++ ["onset_sec", "duration_sec"]) =
    some ("onset_div", "duration_div") := by decide

/-- the estimators reject an array exactly when it has none of the five onset fields -/
theorem units_none_iff (fields : List String) :
    timeUnits fields = none ↔
      "onset_beat" ∉ fields ∧ "onset_quarter" ∉ fields ∧ "onset_div" ∉ fields ∧
      "onset_sec" ∉ fields ∧ "onset_tick" ∉ fields :=
  C17W.timeUnits_none_iff fields

/-- `prepare_notearray`: the rows are (pitch, selected onset, selected duration) of the array, in
    row order (so the `id` column `np.arange(n)` IS the row number the wrapper scatters by) -/
theorem prepare_rows (a : NoteArray) (rows : List Voices.VNote) :
    prepare a = some rows ↔
      ∃ ou du p o d, timeUnits a.fields = some (ou, du) ∧ a.pitch = some p ∧ a.col ou = some o ∧
        a.col du = some d ∧ rows = zip3 p o d := by
  unfold prepare
  constructor
  · intro h
    cases hu : timeUnits a.fields with
    | none => simp [hu] at h
    | some u =>
      obtain ⟨ou, du⟩ := u
      cases hp : a.pitch with
      | none => simp [hu, hp] at h
      | some p =>
        cases ho : a.col ou with
        | none => simp [hu, hp, ho] at h
        | some o =>
          cases hd : a.col du with
          | none => simp [hu, hp, ho, hd] at h
          | some d =>
            simp [hu, hp, ho, hd] at h
            exact ⟨ou, du, p, o, d, rfl, rfl, ho, hd, h.symm⟩
  · rintro ⟨ou, du, p, o, d, hu, hp, ho, hd, rfl⟩
    simp [hu, hp, ho, hd]

/-- on the array level: the rows the three estimators read (voices: pitch/onset/duration; key:
    pitch/duration; spelling: onset/pitch) do not change when performance columns are added to an
    array that has score units -/
theorem array_score_preferred (a : NoteArray) (extra : List (String × List Rat))
    (hs : "onset_beat" ∈ a.fields ∨ "onset_quarter" ∈ a.fields ∨ "onset_div" ∈ a.fields)
    (hx : ∀ c ∈ extra, c.1 ∈ ["onset_sec", "duration_sec", "onset_tick", "duration_tick"]) :
    prepare { a with cols := a.cols ++ extra } = prepare a ∧
    keyRows { a with cols := a.cols ++ extra } = keyRows a ∧
    spellingRows { a with cols := a.cols ++ extra } = spellingRows a :=
  C17W.array_score_preferred a extra hs hx

example : "onset_beat" ∈ NoteArray.fields { pitch := some [60], cols := [("onset_beat", [0]), ("duration_beat", [1])] } := by
  decide

/-- a missing duration field of the selected unit is an error even when another unit is complete -/
example : prepare { pitch := some [60], cols := [("onset_beat", [0]), ("onset_sec", [0]), ("duration_sec", [1])] } = none := by
  decide

example : prepare { pitch := some [60, 64], cols := [("duration_sec", [1, 2]), ("onset_sec", [0, 1/2]), ("onset_tick", [0, 480])] } =
    some [(60, 0, 1), (64, 1/2, 2)] := by decide +kernel

/-- `estimate_voices` on a structured array, `monophonic_voices` either way, any unit: when the
    array has the selected fields and at least one row, every row gets one voice ≥ 1, numbered
    without gaps (nothing assumed about the search) -/
theorem voices_array_total (offs : List Rat) (mono : Bool) (a : NoteArray) (notes : List Voices.VNote)
    (hp : prepare a = some notes) (hne : notes ≠ []) (hl : offs.length = notes.length) :
    ∃ out, estimateVoicesArr offs mono a = some out ∧ out.length = notes.length ∧
      (∀ x ∈ out, 1 ≤ x) ∧ ∃ k : Int, ∀ x, x ∈ out ↔ 1 ≤ x ∧ x ≤ k := by
  obtain ⟨out, h1, h2⟩ := voices_total offs mono notes hne hl
  exact ⟨out, by simp [estimateVoicesArr, hp, h1], h2⟩

/-- chord mode on arrays: rows that agree in the SELECTED onset and duration fields share a voice -/
theorem voices_array_chord (offs : List Rat) (a : NoteArray) (notes : List Voices.VNote) (out : List Int)
    (hp : prepare a = some notes) (h : estimateVoicesArr offs false a = some out) (i j : Nat)
    (hi : i < notes.length) (hj : j < notes.length)
    (hon : notes[i].2.1 = notes[j].2.1) (hdu : notes[i].2.2 = notes[j].2.2) :
    out[i]? = out[j]? := by
  simp only [estimateVoicesArr, hp, Option.bind_some] at h
  exact chord_same_voice_modelled offs notes out h i j hi hj hon hdu

example : estimateVoicesArrExact false
    { pitch := some [60, 64, 67, 62], cols := [("onset_div", [0, 0, 0, 1]), ("duration_div", [1, 1, 2, 1])] } =
    some [2, 2, 1, 2] := by decide +kernel

/-- the array is rejected when a required field is missing (the code raises ValueError) -/
theorem voices_array_missing (offs : List Rat) (mono : Bool) (a : NoteArray) (h : prepare a = none) :
    estimateVoicesArr offs mono a = none := by
  simp [estimateVoicesArr, h]

/-! ### key profile names -/

/-- every name `VALID_KEY_PROFILES` lists is accepted by `ks_kid` (whole regenerated tables): the
    validation of `estimate_key` and the alias table of `ks_kid` agree (repaired defect C17-4) -/
theorem valid_profile_names_accepted :
    ∀ n ∈ VALID_KEY_PROFILES, (estimateKeySet (some n)).isSome = true := by
  decide

/-- a name outside `VALID_KEY_PROFILES` is rejected (ValueError) -/
theorem invalid_profile_name_rejected (n : String) (h : n ∉ VALID_KEY_PROFILES) :
    estimateKeySet (some n) = none := by
  simp [estimateKeySet, h]

example : "ks" ∉ VALID_KEY_PROFILES ∧ estimateKeySet (some "ks") = none ∧ ksKidSet "ks" = some .kk := by decide

/-- the aliases: `kk` / `krumhansl_kessler` / no argument select the Krumhansl-Kessler profiles,
    `tp` / `temperley` the Temperley (CBMS) profiles, `kp` / `kostka_payne` the Kostka-Payne profiles -/
theorem profile_aliases :
    estimateKeySet none = some .kk ∧
    estimateKeySet (some "kk") = some .kk ∧ estimateKeySet (some "krumhansl_kessler") = some .kk ∧
    estimateKeySet (some "tp") = some .cbms ∧ estimateKeySet (some "temperley") = some .cbms ∧
    estimateKeySet (some "kp") = some .kp ∧ estimateKeySet (some "kostka_payne") = some .kp := by
  decide

/-- each matrix of key_identification.py is built from the profile vectors the model uses for it,
    and `ks_kid`'s default matrix is the one `estimate_key`'s default name selects -/
theorem matrix_profiles :
    setOfMatrix "KRUMHANSL_KESSLER" = some .kk ∧ setOfMatrix "CMBS" = some .cbms ∧
    setOfMatrix "KOSTKA_PAYNE" = some .kp ∧ setOfMatrix KS_KID_DEFAULT = estimateKeySet none := by
  decide

/-- `p` and `q` are proportional (then they would correlate identically with every histogram) -/
def proportional (p q : List Rat) : Bool :=
  (List.range 12).all fun i => (List.range 12).all fun j => p.getD i 0 * q.getD j 0 == p.getD j 0 * q.getD i 0

/-- sanity: the three profile sets are pairwise different inputs — not even proportional, in
    either mode (whole tables, kernel-evaluated) -/
theorem profiles_pairwise_distinct :
    ∀ a b : KeyEst.ProfileSet, a ≠ b →
      proportional (KeyEst.majorProfile a) (KeyEst.majorProfile b) = false ∧
      proportional (KeyEst.minorProfile a) (KeyEst.minorProfile b) = false := by
  intro a b
  cases a <;> cases b <;> first | (intro h; exact absurd rfl h) | (intro _; decide +kernel)

/-! ### estimate_key on arrays, return_sorted_keys -/

/-- the fast path the driver runs (histogram evaluated once) is the model of the theorems -/
theorem key_fast_path (ps : KeyEst.ProfileSet) (notes : List KeyEst.KNote) :
    estimateKeyFast ps notes = KeyEst.estimateKey ps notes :=
  C17W.estimateKeyFast_eq ps notes

/-- `estimate_key` on a structured array with any accepted profile name: whenever it answers, the
    answer is a valid key name, and it answers whenever the name is accepted and the array has a
    pitch field and the selected duration field -/
theorem key_array_valid (arg : Option String) (a : NoteArray) :
    (∀ nm, estimateKeyArr arg a = some nm → (nm ∈ MAJOR_KEYS ∨ ∃ r ∈ MINOR_KEYS, nm = r ++ "m")) ∧
    (∀ ps rows, estimateKeySet arg = some ps → keyRows a = some rows → ∃ nm, estimateKeyArr arg a = some nm) := by
  constructor
  · intro nm h
    simp only [estimateKeyArr] at h
    cases hs : estimateKeySet arg with
    | none => simp [hs] at h
    | some ps =>
      cases hr : keyRows a with
      | none => simp [hs, hr] at h
      | some rows =>
        simp only [hs, hr, Option.bind_eq_bind, Option.bind_some, key_fast_path] at h
        obtain ⟨nm', h1, h2⟩ := key_estimate_valid ps rows
        rw [h1] at h; cases h; exact h2
  · intro ps rows hs hr
    obtain ⟨nm, h1, _⟩ := key_estimate_valid ps rows
    exact ⟨nm, by simp [estimateKeyArr, hs, hr, key_fast_path, h1]⟩

example : estimateKeyArr (some "tp")
    { pitch := some [60, 64, 67, 62, 72], cols := [("onset_beat", [0, 1, 2, 3, 4]), ("duration_beat", [1, 1, 1, 1/2, 2])] } = some "C" := by
  decide +kernel

/-- `return_sorted_keys=True`: the answer lists each of the 24 keys exactly once -/
theorem sorted_keys_perm (ps : KeyEst.ProfileSet) (notes : List KeyEst.KNote) :
    (sortedKeys ps notes).Perm ((List.finRange 24).map keyName) ∧ (sortedKeys ps notes).length = 24 := by
  have hp := C17W.sortedKeyIdx_perm ps (Tab.ofFun (KeyEst.hist notes)).get
  exact ⟨hp.map _, by simp [sortedKeys, hp.length_eq]⟩

/-- every entry is the name of its key, hence valid -/
theorem sorted_keys_valid (i : Fin 24) :
    KeyEst.keyNameAt i.val = some (keyName i) ∧
    (keyName i ∈ MAJOR_KEYS ∨ ∃ r ∈ MINOR_KEYS, keyName i = r ++ "m") := by
  have h1 : KeyEst.keyNameAt i.val = some (keyName i) := by
    simp [KeyEst.keyNameAt, keyName, List.getElem?_eq_getElem (show i.val < KEYS.length by
      have := KeyEst.keys_len; omega)]
  obtain ⟨nm, h2, h3⟩ := key_valid_name i.val i.isLt
  rw [h1] at h2; cases h2
  exact ⟨h1, h3⟩

/-- along the answer the correlation with the histogram never increases (non-constant histogram) -/
theorem sorted_keys_sorted (ps : KeyEst.ProfileSet) (h : Nat → Rat) (hv : KeyEst.cov12 h h ≠ 0) :
    (sortedKeyIdx ps h).Pairwise fun a b =>
      KeyEst.better (KeyEst.keyScore ps h b.val) (KeyEst.keyScore ps h a.val) = false :=
  C17W.sortedKeyIdx_sorted ps h hv

/-- with a unique best key the ranking starts with the key `estimate_key` answers -/
theorem sorted_keys_head (ps : KeyEst.ProfileSet) (notes : List KeyEst.KNote) (m : Nat)
    (hu : UniqueMax ps notes m) :
    (sortedKeys ps notes).head? = KeyEst.estimateKey ps notes := by
  have hu' : C17K.UniqueMaxH ps (Tab.ofFun (KeyEst.hist notes)).get m := by
    obtain ⟨h0, hm, hb⟩ := hu
    refine ⟨?_, hm, ?_⟩
    · rw [C17K.cov12_congr_both _ (KeyEst.hist notes) (fun j hj => C17W.tab_get _ j hj)]; exact h0
    · intro i hi hne
      rw [C17W.keyScore_congr ps _ (KeyEst.hist notes) (fun j hj => C17W.tab_get _ j hj),
        C17W.keyScore_congr ps _ (KeyEst.hist notes) (fun j hj => C17W.tab_get _ j hj) i]
      exact hb i hi hne
  obtain ⟨x, rest, hl, hx⟩ := C17W.sortedKeyIdx_head ps _ m hu'
  have hk := key_is_unique_max ps notes m hu
  simp only [sortedKeys, hl, List.map_cons, List.head?_cons, KeyEst.estimateKey, hk]
  rw [← hx, (sorted_keys_valid x).1]

/-- the hypotheses are satisfiable (a non-constant histogram; `UniqueMax` has its example in Props/C17.lean) -/
example : KeyEst.cov12 (KeyEst.hist [(60, 1), (64, 2)]) (KeyEst.hist [(60, 1), (64, 2)]) ≠ 0 := by decide +kernel

end C17
