/-
C05, round 5 — "every column equals what the score states": FALSY-BUT-VALID values, and the metrical columns of a
score-level table.

A voice 0, a staff 0, an alteration 0, an octave 0, an empty id are VALUES the score states; only `None` is "missing".
The model's row (`finalRow`, Proofs/C05Rows.lean) distinguishes the two, and these theorems say so for every table
`rows` returns.  (The seeded `note.voice or -1` reads voice 0 as missing: refuted by `example` below.)
-/
import PartituraModel.Props.C05

namespace C05
open NoteArray List

/-- The row of note `n`: a stated voice other than the marker -1 is kept as it is — 0 included —, a stated staff is
    kept (0 included), a stated alteration is kept (0 included), octave, step and id are the note's; only `None`
    is replaced (voice: largest voice + 1, staff: 0, alteration: 0). -/
theorem stated_values_are_kept (M : Maps) (dv : Int) (n : Note) (d pch m : Int) :
    let r := finalRow M dv n d pch m
    (∀ v, n.voice = some v → v ≠ -1 → r.voice = v) ∧
    (n.voice = none → r.voice = m + 1) ∧
    (∀ s, n.staff = some s → r.staff = s) ∧ (n.staff = none → r.staff = 0) ∧
    (∀ a, n.alter = some a → r.alter = a) ∧ (n.alter = none → r.alter = 0) ∧
    r.octave = n.octave ∧ r.step = n.step ∧ r.id = n.id := by
  intro r
  refine ⟨?_, ?_, ?_, ?_, ?_, ?_, rfl, rfl, rfl⟩
  · intro v hv hne
    show (if rawVoice n = -1 then m + 1 else rawVoice n) = v
    have : rawVoice n = v := by unfold rawVoice; rw [hv]
    rw [this, if_neg hne]
  · intro hv
    show (if rawVoice n = -1 then m + 1 else rawVoice n) = m + 1
    have : rawVoice n = -1 := by unfold rawVoice; rw [hv]
    rw [this, if_pos rfl]
  · intro s hs
    show (match n.staff with | some s => s | none => 0) = s
    rw [hs]
  · intro hs
    show (match n.staff with | some s => s | none => 0) = 0
    rw [hs]
  · intro a ha
    show alterOr0 n = a
    unfold alterOr0; rw [ha]
  · intro ha
    show alterOr0 n = 0
    unfold alterOr0; rw [ha]

/-- ... for every row of every table `rows` returns: the row belongs to a sounding note of the part whose stated
    voice / staff / alteration / octave / step / id it carries; a note WITH a voice never gets the replacement. -/
theorem table_states_the_score (p : Part) (o : Opts) (out : List Row) (h : rows p o = some out) :
    ∀ r ∈ out, ∃ n ∈ notesTied p.notes, ∃ m,
      maxList ((notesTied p.notes).map rawVoice) = some m ∧
      r.id = n.id ∧ r.octave = n.octave ∧ r.step = n.step ∧
      (∀ v, n.voice = some v → v ≠ -1 → r.voice = v) ∧ (n.voice = none → r.voice = m + 1) ∧
      (∀ s, n.staff = some s → r.staff = s) ∧ (n.staff = none → r.staff = 0) ∧
      (∀ a, n.alter = some a → r.alter = a) ∧ (n.alter = none → r.alter = 0) := by
  intro r hr
  obtain ⟨n, hn, dv, d, pch, m, _, _, _, hm, rfl⟩ := row_values p o out h r hr
  obtain ⟨h1, h2, h3, h4, h5, h6, h7, h8, h9⟩ := stated_values_are_kept p.maps dv n d pch m
  exact ⟨n, hn, m, hm, h9, h7, h8, h1, h2, h3, h4, h5, h6⟩

/-- the voices in a table with a voice 0: the replacement for a missing voice is larger than every stated voice, so
    it is never 0 when a voice 0 (or any non-negative voice) is stated -/
theorem replacement_is_not_a_stated_voice (l : List Note) (m : Int)
    (h : maxList (l.map rawVoice) = some m) : ∀ n ∈ l, ∀ v, n.voice = some v → v ≠ m + 1 := by
  intro n hn v hv
  have := missing_voice_above l m h n hn
  have hr : rawVoice n = v := by unfold rawVoice; rw [hv]
  omega

/-- SCORE-LEVEL TABLES.  `note_array_from_part_list` rescales onset_div, duration_div and divs_pq of every part to the
    common divisions and leaves the metrical columns as they are: `rel_onset_div` and `tot_measure_div` of a row of the
    merged table are in the divisions of the row's OWN part — `divs_pq / multiplier`. -/
theorem merged_metrical_columns_in_part_divisions (k : Int) (r : Row) :
    let s := scaleRow k r
    s.onsetDiv = r.onsetDiv * k ∧ s.durDiv = r.durDiv * k ∧ s.divsPq = r.divsPq * k ∧
    s.relOnset = r.relOnset ∧ s.totMeasure = r.totMeasure ∧ s.isDownbeat = r.isDownbeat ∧
    s.onsetBeat = r.onsetBeat ∧ s.onsetQuarter = r.onsetQuarter ∧ s.key = r.key := by
  intro s
  exact ⟨rfl, rfl, rfl, rfl, rfl, rfl, rfl, rfl, rfl⟩

section Examples

/-- two voices numbered from 0 and a note without voice: voice 0 stays 0, the missing voice becomes 2 -/
def exZero : List Note :=
  [ { id := "u", kind := .note, onset := 0, dur := 2, step := "E", alter := some 0, octave := 0, voice := some 0,
      staff := some 0, graceType := "", tieNext := none, tiePrev := none },
    { id := "l", kind := .note, onset := 0, dur := 2, step := "C", alter := none, octave := 4, voice := some 1,
      staff := some 2, graceType := "", tieNext := none, tiePrev := none },
    { id := "", kind := .note, onset := 2, dur := 2, step := "D", alter := some (-1), octave := 3, voice := none,
      staff := none, graceType := "", tieNext := none, tiePrev := none } ]

example : ((rows { exPart with notes := exZero } exOpts).map fun t =>
      t.map fun r => (r.id, r.voice, r.staff, r.alter, r.pitch)) =
    some [("u", 0, 0, 0, 16), ("l", 1, 2, 0, 60), ("", 2, 0, -1, 49)] := by decide +kernel
example : ((rows { exPart with notes := exZero } exOpts).map fun t => t.map fun r => (r.id, r.octave)) =
    some [("u", 0), ("l", 4), ("", 3)] := by decide +kernel

/-- the seeded `note.voice or -1` reads a stated voice 0 as the marker: the model's `rawVoice` does not -/
example : rawVoice exZero[0] = 0 ∧ rawVoice exZero[0] ≠ -1 ∧ rawVoice exZero[2] = -1 := by decide +kernel

/-- a rest in voice 0 next to a rest in voice 1 -/
example : ((restRows { exPart with notes :=
      [ { exZero[0] with kind := .rest, id := "r0" }, { exZero[1] with kind := .rest, id := "r1", onset := 2 } ] } false).map
      fun t => t.map fun r => (r.id, r.voice, r.staff)) = some [("r0", 0, 0), ("r1", 1, 2)] := by decide +kernel

end Examples

end C05
