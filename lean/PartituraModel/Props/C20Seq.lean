/-
C20 — the rest of the sequence protocol of `Score` / `Performance` (Model/IterProto.lean, `run3`): `reversed(c)`
(neither class defines `__reversed__`: Python falls back to `__len__` + `__getitem__`), `x in c` (no `__contains__`:
Python iterates), slices (`self.parts[index]` with a slice object), integer assignment BETWEEN `next` calls, and the
list methods the containers do not have.
-/
import PartituraModel.Proofs.C20Seq

namespace C20Seq
open Model Model.IterProto C20SeqAux

/-- **every handle, forward or reversed, sees the parts in its order, whatever else happens** (runs that do not
    assign): for every interleaving of iter / reversed / next / len / indexing / `in` / slicing / missing-method calls
    on any number of handles, the successive results of `next h` are view[c], view[c+1], … and then StopIteration for
    ever, where `view` is the part list for a forward handle and its reversal for a reversed one -/
theorem handles_in_order3 {α : Type} [DecidableEq α] (parts : List α) (h : Nat) (ops : List (Op3 α))
    (hns : noSet ops = true) :
    ∀ (s : State3) (rev : Bool) (c : Nat), s.cursors[h]? = some (rev, c) →
      nextOutputs3 h ops (run3 (parts, s) ops).2
        = (List.range (countNext3 h ops)).map (fun k => expected3 (view rev parts) (c + k)) :=
  handles_in_order3_aux parts h ops hns

/-- `reversed(c)` yields parts[n-1], …, parts[0], then StopIteration, independently of every other handle -/
theorem reversed_visits_once {α : Type} [DecidableEq α] (parts : List α) (s : State3) (ops : List (Op3 α))
    (hns : noSet ops = true) :
    nextOutputs3 s.cursors.length ops (run3 (step3 (parts, s) Op3.riter).1 ops).2
      = (List.range (countNext3 s.cursors.length ops)).map (expected3 parts.reverse) := by
  have h := handles_in_order3 parts s.cursors.length ops hns { cursors := s.cursors ++ [(true, 0)] } true 0 (by simp)
  simpa [step3, view] using h

/-- … and `iter(c)` parts[0], …, parts[n-1] (the statement of `C20.fresh_visits_once` in the extended protocol) -/
theorem forward_visits_once {α : Type} [DecidableEq α] (parts : List α) (s : State3) (ops : List (Op3 α))
    (hns : noSet ops = true) :
    nextOutputs3 s.cursors.length ops (run3 (step3 (parts, s) Op3.iter).1 ops).2
      = (List.range (countNext3 s.cursors.length ops)).map (expected3 parts) := by
  have h := handles_in_order3 parts s.cursors.length ops hns { cursors := s.cursors ++ [(false, 0)] } false 0 (by simp)
  simpa [step3, view] using h

/-- **the number of parts never changes** under any run of the extended protocol, assignments included -/
theorem run3_length {α : Type} [DecidableEq α] (ops : List (Op3 α)) :
    ∀ (ps : List α × State3), (run3 ps ops).1.1.length = ps.1.length := run3_length_aux ops

/-- **assignment between `next` calls**: what the code guarantees when `c[i] = part` is interleaved with running
    iterations — every handle (forward or reversed) that has delivered `c` items delivers exactly `n − c` more, one per
    position, and then StopIteration for ever; which object it delivers at a position is the one stored there at the
    time of the call (`step3`).  No part is skipped or delivered twice BY POSITION, no iteration ends early or late. -/
theorem next_count_with_sets {α : Type} [DecidableEq α] (h : Nat) (ops : List (Op3 α)) :
    ∀ (ps : List α) (s : State3) (rev : Bool) (c : Nat), s.cursors[h]? = some (rev, c) →
      (nextOutputs3 h ops (run3 (ps, s) ops).2).map isItem
        = (List.range (countNext3 h ops)).map (fun k => decide (c + k < ps.length)) :=
  next_count_aux h ops

/-- `x in c` is membership in the part list, and asking does not move any iterator -/
theorem contains_iff {α : Type} [DecidableEq α] (parts : List α) (s : State3) (a : α) :
    (step3 (parts, s) (Op3.contains a)) = ((parts, s), Out3.bool (contains parts a)) ∧
    (contains parts a = true ↔ a ∈ parts) := by
  refine ⟨rfl, ?_⟩
  simp [contains]

/-- slices: `c[:]` is the part list, `c[::-1]` its reversal, `c[a:b]` for 0 ≤ a ≤ b ≤ n the parts a … b−1, a zero
    step is a ValueError; slicing never moves an iterator -/
theorem slice_spec {α : Type} (l : List α) :
    pySlice l none none none = some l ∧
    pySlice l none none (some (-1)) = some l.reverse ∧
    (∀ a b : Nat, a ≤ b → b ≤ l.length →
        pySlice l (some (a : Int)) (some (b : Int)) none = some ((l.drop a).take (b - a))) ∧
    (∀ a b, pySlice l a b (some 0) = none) :=
  ⟨slice_all l, slice_rev l, slice_between l, fun a b => by simp [pySlice]⟩

/-- the list methods these classes do not have are AttributeErrors that change nothing -/
theorem noattr_frame {α : Type} [DecidableEq α] (ps : List α × State3) :
    step3 ps Op3.noattr = (ps, Out3.attributeError) := rfl

/-- non-vacuity of `handles_in_order3`, and a reversed iteration with an assignment in the middle: the reversed
    handle delivers the NEW part at position 0 -/
example : ({ cursors := [(true, 1), (false, 0)] } : State3).cursors[0]? = some (true, 1) := by decide

example :
    (run3 (([10, 20, 30] : List Nat), {}) [Op3.riter, Op3.next 0, Op3.set 0 99, Op3.next 0, Op3.next 0, Op3.next 0]).2
      = [Out3.handle 0, Out3.item 30, Out3.length 3, Out3.item 20, Out3.item 99, Out3.stop] := by decide

end C20Seq
