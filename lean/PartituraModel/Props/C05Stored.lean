/-
C05, round 5 — the float columns AS STORED, and the order of the table on exactly those values.

Model/NoteArrayF64.lean evaluates `beat_map` / `quarter_map` the way numpy and scipy do (binary64, one rounding per
operation) and stores the results the way `np.array(..., dtype="f4")` does (binary32).  The correspondence streams
`partf` / `restsf` compare these values with the real arrays with tolerance 0.  The theorems say, for every described
part and every option vector:
  * what each stored float cell is (`stored_columns`): `onset_* = f32 (map64 onset)`,
    `duration_* = f32 (f64 (map64 offset - map64 onset))`;
  * that the table is ordered by the stored `onset_beat` column itself, then pitch (`stored_table_sorted`) — the sort key
    of the model IS the stored column, not an exact beat value rounded separately;
  * one row per sounding note, every other column as in `C05.row_values` (`stored_rows_bijective`).
-/
import PartituraModel.Props.C05
import PartituraModel.Model.NoteArrayF64

namespace C05
open NoteArray List

/-- the part `rowsF` tabulates -/
def part64 (d : Desc) (notes : List Note) (o : Opts) : Part :=
  { notes := notes, qdurs := d.tm.qd.map fun x => (x.2 : Int), maps := d.maps64 o }

theorem rowsF_some (d : Desc) (notes : List Note) (o : Opts) (out : List Row) (h : rowsF d notes o = some out) :
    ∃ t, rows (part64 d notes o) o = some t ∧ out = t.map storeRow64 := by
  unfold rowsF at h
  split at h
  · cases h
  · split at h
    · simp only [Option.map_eq_some_iff] at h
      obtain ⟨t, ht, rfl⟩ := h
      exact ⟨t, ht, rfl⟩
    · cases h

/-- EVERY STORED FLOAT CELL: for every row of the table there is a sounding note with tied duration `dur` such that
    the four float cells are the binary32 roundings of the binary64 map values at its onset and of the binary64
    difference to the map value at its offset; the integer / string cells are untouched by the store. -/
theorem stored_columns (d : Desc) (notes : List Note) (o : Opts) (out : List Row) (h : rowsF d notes o = some out) :
    ∀ r ∈ out, ∃ n ∈ notesTied notes, ∃ dur,
      durationTied notes n = some dur ∧ r.id = n.id ∧ r.onsetDiv = n.onset ∧ r.durDiv = dur ∧
      r.onsetBeat = f32round ((d.beat64 n.onset).getD 0) ∧
      r.durBeat = f32round (f64round ((d.beat64 (n.onset + dur)).getD 0 - (d.beat64 n.onset).getD 0)) ∧
      r.onsetQuarter = f32round ((d.quarter64 n.onset).getD 0) ∧
      r.durQuarter = f32round (f64round ((d.quarter64 (n.onset + dur)).getD 0 - (d.quarter64 n.onset).getD 0)) ∧
      r.key = r.onsetBeat := by
  obtain ⟨t, ht, rfl⟩ := rowsF_some d notes o out h
  intro r hr
  obtain ⟨r0, hr0, rfl⟩ := mem_map.mp hr
  obtain ⟨n, hn, dv, dur, pch, m, _, hd, _, _, rfl⟩ := row_values (part64 d notes o) o t ht r0 hr0
  refine ⟨n, hn, dur, hd, rfl, rfl, ?_, rfl, rfl, rfl, rfl, rfl⟩
  show n.onset + dur - n.onset = dur
  omega

/-- THE ORDER, ON THE STORED VALUES: the table is ordered by the stored `onset_beat` column, then by pitch. -/
theorem stored_table_sorted (d : Desc) (notes : List Note) (o : Opts) (out : List Row) (h : rowsF d notes o = some out) :
    out.Pairwise (NoteArray.Lex (·.onsetBeat) (fun a b => a.pitch ≤ b.pitch)) := by
  have hcols := stored_columns d notes o out h
  obtain ⟨t, ht, rfl⟩ := rowsF_some d notes o out h
  have hs := table_sorted (part64 d notes o) o t ht
  rw [pairwise_map]
  apply hs.imp_of_mem
  intro a b ha hb hab
  have hka : (storeRow64 a).key = (storeRow64 a).onsetBeat := by
    obtain ⟨_, _, _, _, _, _, _, _, _, _, _, hk⟩ := hcols (storeRow64 a) (mem_map_of_mem ha)
    exact hk
  have hkb : (storeRow64 b).key = (storeRow64 b).onsetBeat := by
    obtain ⟨_, _, _, _, _, _, _, _, _, _, _, hk⟩ := hcols (storeRow64 b) (mem_map_of_mem hb)
    exact hk
  have ha' : (storeRow64 a).key = a.key := rfl
  have hb' : (storeRow64 b).key = b.key := rfl
  unfold NoteArray.Lex at hab ⊢
  simp only at hab ⊢
  rw [← hka, ← hkb, ha', hb']
  exact hab

/-- one row per sounding note -/
theorem stored_rows_bijective (d : Desc) (notes : List Note) (o : Opts) (out : List Row) (h : rowsF d notes o = some out) :
    out.map (·.id) ~ (notesTied notes).map (·.id) ∧ out.length = (notesTied notes).length := by
  obtain ⟨t, ht, rfl⟩ := rowsF_some d notes o out h
  obtain ⟨h1, h2⟩ := rows_bijective (part64 d notes o) o t ht
  refine ⟨?_, by rw [length_map]; exact h2⟩
  rw [map_map]
  exact h1

section Examples

/-- divisions 3 in 4/4 with a pickup of 2 divisions: binary64 computes beat 1/3 (division 3) as
    0.33333333333333326 = 1501199875790165 / 2^52, one unit in the last place below the binary64 number nearest to 1/3
    (the subtraction of the pickup 2/3 happens in binary64); the binary32 store rounds both to 11184811 / 2^25 -/
def exDesc3 : Desc :=
  { tm := { npoints := 4, first := 0, last := 14, qd := [(0, 3)], ts := [⟨0, 4, 4, 4⟩], m1 := some (0, 2), musical := false },
    kss := [], ms := [(0, 2), (2, 14)] }

def exNotes3 : List Note :=
  [ { id := "a", kind := .note, onset := 0, dur := 2, step := "C", alter := none, octave := 4, voice := some 1,
      staff := some 1, graceType := "", tieNext := none, tiePrev := none },
    { id := "b", kind := .note, onset := 2, dur := 1, step := "D", alter := none, octave := 4, voice := some 1,
      staff := some 1, graceType := "", tieNext := none, tiePrev := none },
    { id := "c", kind := .note, onset := 3, dur := 4, step := "E", alter := none, octave := 4, voice := some 1,
      staff := some 1, graceType := "", tieNext := none, tiePrev := none } ]

def noOpts : Opts := { spelling := false, ks := false, ts := false, metr := false, grace := false, staff := false, divs := false }

example : ((rowsF exDesc3 exNotes3 noOpts).map fun t => t.map fun r => (r.id, r.onsetBeat, r.durBeat)) =
    some [("a", (-11184811 : Rat) / 16777216, (11184811 : Rat) / 16777216), ("b", 0, (11184811 : Rat) / 33554432),
          ("c", (11184811 : Rat) / 33554432, (11184811 : Rat) / 8388608)] := by decide +kernel

example : exDesc3.beat64 3 = some ((1501199875790165 : Rat) / 4503599627370496) ∧
    f64round (1 / 3) = (6004799503160661 : Rat) / 18014398509481984 ∧
    (1501199875790165 : Rat) / 4503599627370496 < (6004799503160661 : Rat) / 18014398509481984 := by decide +kernel

example : f64round (1 / 2) = 1 / 2 ∧ f64round (-5) = -5 ∧ f64round 0 = 0 ∧
    f64round (f64round (14 / 3) / 14) ≠ f64round (1 / 3) := by decide +kernel

end Examples

end C05
