/-
C09 — unfolding repeats concatenates segments along a valid path and nothing else.
-/
import PartituraModel.Model.Unfold

namespace C09
open Model.Unfold

end C09
