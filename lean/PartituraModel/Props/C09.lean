/-
C09 — unfolding repeats concatenates segments along a valid path and nothing else.

Theorems over Model/Unfold.lean (`mkSegments` = add_segments, `getPaths`/`unfoldFrom` = get_paths /
unfold_paths with the per-path copy of rewritten segments (fixes/C09-1), `variant` = create_variant_part,
`suffixIds` = update_note_ids_after_unfolding).  Helper lemmas: Proofs/C09Walk, C09Variant, C09Shape.
-/
import PartituraModel.Proofs.C09Walk
import PartituraModel.Proofs.C09Variant
import PartituraModel.Proofs.C09Shape
import PartituraModel.Proofs.C09Volta

namespace C09
open Model.Unfold

/-! ## Paths -/

/-- Every enumerated path starts at the first segment, every step follows a destination the segment table
allows (immediately, or released by a leap), and the last segment can reach END — for every segment table,
every policy and every amount of fuel. -/
theorem paths_are_walks (g : List Seg) (nr ar il : Bool) (fuel : Nat) (ps : List (List Nat))
    (h : getPaths g nr ar il fuel = some ps) (p : List Nat) (hp : p ∈ ps) :
    p.head? = some 0 ∧ Walk g p ∧ ∃ l, p.getLast? = some l ∧ Edge g l .fin :=
  unfoldFrom_good g il fuel (initState g nr ar) ps (inv_init g nr ar) h p hp

/-- A result of the enumeration does not depend on the fuel: once it succeeds, any larger fuel gives the
same list of paths. -/
theorem enumeration_fuel_monotone (g : List Seg) (nr ar il : Bool) (fuel k : Nat) (ps : List (List Nat))
    (h : getPaths g nr ar il fuel = some ps) : getPaths g nr ar il (fuel + k) = some ps :=
  unfoldFrom_mono_add il fuel k _ ps h

-- non-vacuity: da capo al fine over two segments (A.to = [B], A.await = [END]; B.to = [A, END], leap)
example : getPaths
    [{ start := 0, stp := 8, to := [.seg 1], await := [.fin], ty := .leapEnd },
     { start := 8, stp := 16, to := [.seg 0, .fin], await := [.fin], ty := .leapStart }]
    false true true 10 = some [[0, 1, 0]] := by decide

/-! ## The unfolded part -/

/-- The offsets used for the visited segments are the running sums of the segment lengths, and the visits
are the segments of the path in order. -/
theorem offsets_are_prefix_sums (g : List Seg) (path : List Nat) (vs : List Visit)
    (h : visitsOf g path = some vs) :
    OffsetsOK 0 vs ∧ visitLens vs = path.map (segLen g) ∧
    (∀ (k i : Nat), path[k]? = some i →
        ∃ (s : Seg) (v : Visit), g[i]? = some s ∧ vs[k]? = some v ∧ v.s = s.start ∧ v.e = s.stp) :=
  visitsFrom_ok g path 0 vs h

/-- Length: the new part spans exactly the sum of the visited segments' lengths, provided the part is
well formed for its segmentation: segment starts are time points, ends are not before starts, no copied
object reaches beyond the end of its segment, and something that is copied ends at the end of the last
visited segment (with measures at the boundaries all of this holds). -/
theorem length_sum (p : APart) (vs : List Visit) (vl : Visit)
    (hoff : OffsetsOK 0 vs) (hpos : ∀ v ∈ vs, v.s < v.e) (hlast : vs.getLast? = some vl)
    (hstart : ∀ v, vs.head? = some v → v.s ∈ p.points)
    (hwf : ∀ o ∈ p.objs, ∀ e, o.stp = some e → o.start ≤ e)
    (hnocross : ∀ v ∈ vs, ∀ o ∈ p.objs, inWin v o = true → o.kind.dropped = false →
      ∀ e, o.stp = some e → e ≤ v.e)
    (hclose : ∃ o ∈ p.objs, inWin vl o = true ∧ o.kind.dropped = false ∧ o.kind.isSig = false ∧
      o.stp = some vl.e) :
    (variant p vs).duration = some (sumInt (visitLens vs)) := by
  obtain ⟨b1, b2, b3, b4⟩ := offsets_bounds vs 0 hoff hpos
  have hne : vs ≠ [] := by intro h; simp [h] at hlast
  obtain ⟨v0, hv0⟩ : ∃ v0, vs.head? = some v0 := by
    cases vs with
    | nil => exact absurd rfl hne
    | cons a _ => exact ⟨a, rfl⟩
  have hv0mem : v0 ∈ vs := List.mem_of_head? hv0
  have hvlmem : vl ∈ vs := List.mem_of_getLast? hlast
  -- bounds on every point
  have hb : ∀ t ∈ variantPoints p.points vs (variantObjs p.objs 0 vs []),
      0 ≤ t ∧ t ≤ sumInt (visitLens vs) := by
    intro t ht
    rw [variantPoints_mem] at ht
    rcases ht with ⟨v, hv, q, _, h1, h2, rfl⟩ | ⟨c, hc, hcase⟩
    · have := b1 v hv; have := hpos v hv; omega
    · rcases variantObjs_mem p.objs vs 0 [] c hc with h | ⟨n, v, out', hv, hcv⟩
      · simp at h
      · have hvm : v ∈ vs := List.mem_of_getElem? hv
        have hbv := b1 v hvm
        have hpv := hpos v hvm
        obtain ⟨_, hkind⟩ := visitCopies_mem p.objs v (0 + n) out' c hcv
        rcases hkind with ⟨hx, _, _, hs⟩ | ⟨hx, i, o, hio, hw, hd, hcore, _⟩
        · rcases hcase with ⟨_, rfl⟩ | ⟨hx', _⟩
          · rw [hs]; omega
          · rw [hx] at hx'; simp at hx'
        · rcases hcase with ⟨hx', _⟩ | ⟨_, hst⟩
          · rw [hx] at hx'; simp at hx'
          · have hom : o ∈ p.objs := List.mem_of_getElem? hio
            simp only [core, mkCopy, Prod.mk.injEq] at hcore
            have hstp := hcore.2.2.2.2.1
            rw [hst] at hstp
            cases hos : o.stp with
            | none => simp [hos] at hstp
            | some e0 =>
              simp only [hos, Option.map_some, Option.some.injEq] at hstp
              have h1 := hwf o hom e0 hos
              have h2 := hnocross v hvm o hom hw hd e0 hos
              simp only [inWin, Bool.and_eq_true, decide_eq_true_eq] at hw
              omega
  -- 0 is a point
  have h0 : (0 : Int) ∈ variantPoints p.points vs (variantObjs p.objs 0 vs []) := by
    rw [variantPoints_mem]
    refine Or.inl ⟨v0, hv0mem, v0.s, hstart v0 hv0, Int.le_refl _, hpos v0 hv0mem, ?_⟩
    have := b3 v0 hv0; omega
  -- the total is a point
  have hT : sumInt (visitLens vs) ∈ variantPoints p.points vs (variantObjs p.objs 0 vs []) := by
    rw [variantPoints_mem]
    obtain ⟨o, hom, hw, hd, hs, hst⟩ := hclose
    obtain ⟨i, hio⟩ := List.getElem?_of_mem hom
    obtain ⟨n, hn⟩ : ∃ n, vs[n]? = some vl := List.getElem?_of_mem hvlmem
    obtain ⟨out', hsub⟩ := variantObjs_block p.objs vs 0 [] n vl hn
    have hq : (i, o) ∈ (enum 0 p.objs).filter (copyable vl) := by
      rw [List.mem_filter]
      refine ⟨(enum_mem p.objs 0 i o).mpr ⟨Nat.zero_le _, by simpa using hio⟩, ?_⟩
      simp [copyable, hw, hd, hs]
    have hk := visitCopies_keep p.objs vl (0 + n) out'
    have hmem : core (mkCopy i (0 + n) o (vl.off - vl.s)) ∈
        ((visitCopies p.objs vl (0 + n) out').filter keepP).map core := by
      rw [hk]
      exact List.mem_map.mpr ⟨(i, o), hq, rfl⟩
    obtain ⟨c, hc, hcore⟩ := List.mem_map.mp hmem
    rw [List.mem_filter] at hc
    refine Or.inr ⟨c, hsub c hc.1, Or.inr ?_⟩
    simp only [core, mkCopy, Prod.mk.injEq] at hcore
    refine ⟨hcore.2.2.2.2.2.2.2, ?_⟩
    rw [hcore.2.2.2.2.1, hst]
    have := b2 vl hlast
    simp only [Option.map_some, Option.some.injEq]
    omega
  unfold Variant.duration variant
  simp only
  rw [listMin_eq _ 0 h0 (fun x hx => (hb x hx).1), listMax_eq _ _ hT (fun x hx => (hb x hx).2)]
  simp

/-- Copies per visit: leaving aside signatures and clefs (which the code copies only when they change), the
unfolded part consists, visit after visit, of one copy of every object that starts in the visited segment
and is not a repeat / ending / jump / segment / page / system object: at `start − s + offset(visit)`, with the
same end distance, kind, payload (pitch, voice, staff) and id.  In particular every note of a visited
segment occurs once per visit at the shifted position with unchanged pitch, duration, voice and staff. -/
theorem copies_per_visit (p : APart) (vs : List Visit) :
    (((variant p vs).objs.filter keepP).map core) =
      (enum 0 vs).flatMap fun nv =>
        ((enum 0 p.objs).filter (copyable nv.2)).map fun q => core (mkCopy q.1 nv.1 q.2 (nv.2.off - nv.2.s)) := by
  have := variantObjs_keep p.objs vs 0 []
  simpa [variant] using this

/-- what `mkCopy` preserves: position shifted by the offset, same length, kind, payload and id -/
theorem copy_fields (i k : Nat) (o : Obj) (d : Int) :
    (mkCopy i k o d).start = o.start + d ∧ (mkCopy i k o d).stp = o.stp.map (· + d) ∧
    (mkCopy i k o d).kind = o.kind ∧ (mkCopy i k o d).payload = o.payload ∧ (mkCopy i k o d).nid = o.nid ∧
    (mkCopy i k o d).orig = i ∧ (mkCopy i k o d).visit = k :=
  ⟨rfl, rfl, rfl, rfl, rfl, rfl, rfl⟩

/-- the number of copies of one object is the number of times its segment occurs in the path
(segments pairwise disjoint, as `mkSegments` builds them: see `segments_disjoint`) -/
theorem copies_count (g : List Seg) (path : List Nat) (vs : List Visit) (hvs : visitsOf g path = some vs)
    (hdis : DisjointSegs g) (p : APart) (i : Nat) (o : Obj) (hi : p.objs[i]? = some o)
    (hd : o.kind.dropped = false) (hs : o.kind.isSig = false)
    (j : Nat) (s : Seg) (hj : g[j]? = some s) (hin : s.start ≤ o.start ∧ o.start < s.stp) :
    (((variant p vs).objs.filter keepP).filter fun c => decide (c.orig = i)).length = path.count j :=
  copies_count_aux g path vs hvs hdis p i o hi hd hs j s hj hin

/-- the segments `add_segments` builds are the intervals between consecutive boundary times -/
theorem segments_disjoint (L : Layout) (g : List Seg) (h : mkSegments L = some g) : DisjointSegs g :=
  mkSegments_disjoint L g h

/-- Nothing of the repeat structure remains: no Repeat, Ending, DaCapo, DalSegno, ToCoda, Segment (nor
Page / System) object is part of any unfolded part. -/
theorem no_structure_left (p : APart) (vs : List Visit) (c : OObj) (hc : c ∈ (variant p vs).objs) :
    c.kind.dropped = false ∧ c.kind ≠ .repeat_ ∧ c.kind ≠ .ending ∧ c.kind ≠ .daCapo ∧ c.kind ≠ .dalSegno ∧
    c.kind ≠ .toCoda ∧ c.kind ≠ .segment := by
  have hdrop : c.kind.dropped = false := by
    rcases variantObjs_mem p.objs vs 0 [] c hc with h | ⟨n, v, out', _, hcv⟩
    · simp at h
    · obtain ⟨_, hkind⟩ := visitCopies_mem p.objs v (0 + n) out' c hcv
      rcases hkind with ⟨_, hk, _, _⟩ | ⟨_, i, o, _, _, hd, hcore, _⟩
      · rw [hk]; rfl
      · simp only [core, mkCopy, Prod.mk.injEq] at hcore
        rw [hcore.2.2.1]; exact hd
  refine ⟨hdrop, ?_, ?_, ?_, ?_, ?_, ?_⟩ <;> (intro hk; rw [hk] at hdrop; simp [Kind.dropped] at hdrop)

/-- References stay inside the copy: every reference of a copied object is either None or points to an
object that was copied in the same visit (and is part of the unfolded part); the reference lists keep
their shape, and a reference whose target is copied in the same visit is kept. -/
theorem refs_closed (p : APart) (vs : List Visit) (c : OObj) (hc : c ∈ (variant p vs).objs)
    (rl : List (Option Nat)) (hrl : rl ∈ c.refs) (j : Nat) (hj : some j ∈ rl) :
    ∃ c' ∈ (variant p vs).objs, c'.visit = c.visit ∧ c'.orig = j ∧ c'.extra = false := by
  rcases variantObjs_mem' p.objs vs 0 [] c hc with h | ⟨n, v, out', _, hcv, hsub⟩
  · simp at h
  · obtain ⟨hvis, hkind⟩ := visitCopies_mem p.objs v (0 + n) out' c hcv
    rcases hkind with ⟨_, _, hr, _⟩ | ⟨_, i, o, _, _, _, _, hrefs⟩
    · rw [hr] at hrl; simp at hrl
    · rw [hrefs, List.mem_map] at hrl
      obtain ⟨l0, _, rfl⟩ := hrl
      rw [List.mem_map] at hj
      obtain ⟨j0, _, hj0⟩ := hj
      split at hj0
      · rename_i hdom
        simp only [Option.some.injEq] at hj0
        subst hj0
        simp only [List.contains_eq_mem, List.mem_map, decide_eq_true_eq] at hdom
        obtain ⟨c0, hc0, hor⟩ := hdom
        -- the resolved image of c0 is in the block
        have hc0' : ({ c0 with refs := c0.refs.map (·.map (resolveRef ((copyPass v (0 + n) (enum 0 p.objs) out').map (·.orig)))) } : OObj)
            ∈ visitCopies p.objs v (0 + n) out' := by
          unfold visitCopies resolve
          exact List.mem_append_left _ (List.mem_map.mpr ⟨c0, hc0, rfl⟩)
        obtain ⟨hx, hv0⟩ := copyPass_notExtra v (0 + n) _ _ c0 hc0
        exact ⟨_, hsub _ hc0', by simp [hv0, hvis], hor, hx⟩
      · simp at hj0

/-- shape of the reference lists of a copy: those of the original, each target kept when it is copied in
the same visit, None otherwise -/
theorem refs_exact (p : APart) (vs : List Visit) (c : OObj) (hc : c ∈ (variant p vs).objs)
    (hx : c.extra = false) :
    ∃ (o : Obj) (dom : List Nat), p.objs[c.orig]? = some o ∧
      c.refs = o.refs.map (·.map fun j => if dom.contains j then some j else none) ∧
      ∀ j ∈ dom, ∃ c' ∈ (variant p vs).objs, c'.visit = c.visit ∧ c'.orig = j ∧ c'.extra = false := by
  rcases variantObjs_mem' p.objs vs 0 [] c hc with h | ⟨n, v, out', _, hcv, hsub⟩
  · simp at h
  · obtain ⟨hvis, hkind⟩ := visitCopies_mem p.objs v (0 + n) out' c hcv
    rcases hkind with ⟨hx', _⟩ | ⟨_, i, o, hio, _, _, hcore, hrefs⟩
    · rw [hx] at hx'; simp at hx'
    · simp only [core, mkCopy, Prod.mk.injEq] at hcore
      refine ⟨o, (copyPass v (0 + n) (enum 0 p.objs) out').map (·.orig), by rw [hcore.1]; exact hio, hrefs, ?_⟩
      intro j hj
      simp only [List.mem_map] at hj
      obtain ⟨c0, hc0, hor⟩ := hj
      have hc0' : ({ c0 with refs := c0.refs.map (·.map (resolveRef ((copyPass v (0 + n) (enum 0 p.objs) out').map (·.orig)))) } : OObj)
          ∈ visitCopies p.objs v (0 + n) out' := by
        unfold visitCopies resolve
        exact List.mem_append_left _ (List.mem_map.mpr ⟨c0, hc0, rfl⟩)
      obtain ⟨hx0, hv0⟩ := copyPass_notExtra v (0 + n) _ _ c0 hc0
      exact ⟨_, hsub _ hc0', by simp [hv0, hvis], hor, hx0⟩

/-- Neighbouring time points: the time points of the unfolded part form a strictly increasing sequence (each
point's `next`/`prev` is its neighbour in that sequence, no duplicates, nothing outside the part). -/
theorem points_strictly_sorted (p : APart) (vs : List Visit) : StrictSorted (variant p vs).points :=
  variantPoints_sorted p.points vs _

-- non-vacuity of `length_sum`: one bar with a measure and a note, played twice
example :
    (variant { points := [0, 2, 4], qd := [(0, 1)], objs :=
        [{ kind := .other, start := 0, stp := some 4, payload := [], nid := none, refs := [] },
         { kind := .note, start := 2, stp := some 4, payload := [60, 1, 1], nid := some "a", refs := [] }] }
      [⟨0, 4, 0⟩, ⟨0, 4, 4⟩]).duration = some (sumInt (visitLens [⟨0, 4, 0⟩, ⟨0, 4, 4⟩])) := by
  apply length_sum _ _ ⟨0, 4, 4⟩
  · exact ⟨rfl, rfl, trivial⟩
  · intro v hv; simp at hv; rcases hv with rfl | rfl <;> decide
  · rfl
  · intro v hv; simp at hv; subst hv; decide
  · intro o ho e he
    simp at ho
    rcases ho with rfl | rfl <;> simp at he <;> (subst he; decide)
  · intro v hv o ho _ _ e he
    simp at hv ho
    rcases hv with rfl | rfl <;> rcases ho with rfl | rfl <;> simp at he <;> (subst he; decide)
  · exact ⟨_, List.mem_cons_self, by decide, rfl, rfl, rfl⟩

-- non-vacuity of `copies_count`: the note of segment B in path A-B-B is copied twice
example :
    let g : List Seg := [{ start := 0, stp := 4, to := [.seg 1], await := [], ty := .leapEnd },
                         { start := 4, stp := 8, to := [.seg 1, .fin], await := [], ty := .dflt }]
    let p : APart := { points := [0, 4, 8], qd := [(0, 1)], objs :=
      [{ kind := .note, start := 0, stp := some 4, payload := [60, 1, 1], nid := some "a", refs := [] },
       { kind := .note, start := 4, stp := some 8, payload := [62, 1, 1], nid := some "b", refs := [] }] }
    visitsOf g [0, 1, 1] = some [⟨0, 4, 0⟩, ⟨4, 8, 4⟩, ⟨4, 8, 8⟩] ∧
    (((variant p [⟨0, 4, 0⟩, ⟨4, 8, 4⟩, ⟨4, 8, 8⟩]).objs.filter keepP).filter fun c => decide (c.orig = 1)).length = 2 ∧
    getPaths g false true true 9 = some [[0, 1, 1]] := by decide

-- non-vacuity of the part theorems: a tie from a note in segment [0,4) to a note in [4,8), path A-B-B
example :
    let p : APart := { points := [0, 2, 4, 8], qd := [(0, 1)], objs :=
      [{ kind := .note, start := 2, stp := some 4, payload := [60, 1, 1], nid := some "a", refs := [[1]] },
       { kind := .note, start := 4, stp := some 8, payload := [62, 1, 1], nid := some "b", refs := [[0]] },
       { kind := .repeat_, start := 4, stp := some 8, payload := [], nid := none, refs := [] }] }
    let vs : List Visit := [⟨0, 4, 0⟩, ⟨4, 8, 4⟩, ⟨4, 8, 8⟩]
    (variant p vs).duration = some 12 ∧ ((variant p vs).objs.map fun c => (c.orig, c.start, c.refs)) =
      [(0, 2, [[none]]), (1, 4, [[none]]), (1, 8, [[none]])] := by decide

/-- Ids on request (`update_ids`), what the code computes: a note with an id gets the suffix `-k` where `k` is its
rank (from 1) among the notes with the same id ordered by onset; nothing else changes.  That this rank is the
number of the visit of the note's segment is `ids_suffixed` (Props/C09Ext.lean). -/
theorem ids_suffixed_rank (out : List OObj) (pos : Nat) (c : OObj) (h : (enum 0 out)[pos]? = some (pos, c)) :
    ∃ c', (suffixIds out)[pos]? = some c' ∧
      c'.orig = c.orig ∧ c'.visit = c.visit ∧ c'.kind = c.kind ∧ c'.start = c.start ∧ c'.stp = c.stp ∧
      c'.payload = c.payload ∧ c'.refs = c.refs ∧
      c'.nid = (match c.kind, c.nid with
        | .note, some s => some (s ++ "-" ++ toString (idRank out pos c))
        | _, n => n) := by
  unfold suffixIds
  rw [List.getElem?_map, h]
  simp only [Option.map_some]
  refine ⟨_, rfl, ?_⟩
  cases hk : c.kind <;> cases hn : c.nid <;> simp_all

example : (suffixIds
    [{ orig := 0, visit := 0, kind := .note, start := 0, stp := some 1, payload := [], nid := some "n1", refs := [] },
     { orig := 0, visit := 1, kind := .note, start := 4, stp := some 5, payload := [], nid := some "n1", refs := [] }]).map (·.nid)
    = [some "n1-1", some "n1-2"] := by decide

/-! ## Shapes -/

/-- r pairwise disjoint simple repeats (no endings, no marks): the segment table is a chain in which the r
repeated sections offer `[themselves, next]`.  Then there are exactly 2^r paths (any fuel ≥ 2n+1 is enough,
so the enumeration terminates), the maximal unfolding plays every repeated section exactly twice, the minimal
one plays every section once. -/
theorem simple_repeats (flags : List Bool) (tys : List SegType) (times : List (Int × Int))
    (hty : ∀ t ∈ tys, t ≠ SegType.leapStart) (il : Bool) (fuel : Nat) (hf : 2 * flags.length + 1 ≤ fuel)
    (hne : flags ≠ []) :
    (∃ ps, getPaths (chainGraph flags tys times) false false il fuel = some ps ∧
        ps.length = 2 ^ (flags.count true) ∧ ps = allPaths 0 flags) ∧
    getPaths (chainGraph flags tys times) false true il fuel = some [maxPath 0 flags] ∧
    getPaths (chainGraph flags tys times) true false il fuel = some [minPath 0 flags] :=
  simple_repeats_aux flags tys times hty il fuel hf hne

-- non-vacuity: three sections, the last two repeated: 4 paths
example : getPaths (chainGraph [false, true, true] [] []) false false true 7 =
    some [[0, 1, 1, 2, 2], [0, 1, 1, 2], [0, 1, 2, 2], [0, 1, 2]] := by decide

/-- each repeated section occurs exactly twice in the maximal path and once in the minimal one; the other
sections once -/
theorem max_min_counts (flags : List Bool) (i : Nat) (b : Bool) (h : flags[i]? = some b) :
    (maxPath 0 flags).count i = (if b then 2 else 1) ∧ (minPath 0 flags).count i = 1 :=
  max_min_counts_aux flags 0 i b (by simpa using h) (Nat.zero_le _)

/-- One repeat with endings 1..k, one number per bracket, ANY k ≥ 1, with or without music before the repeat and
after the last ending: on the segment table of that shape (the section offers the brackets in order, every
bracket but the last jumps back to the section, the last one goes on) the maximal unfolding is the single path
"section, ending 1, section, ending 2, …, section, ending k" and the minimal one "section, ending k"; fuel
2k+4 suffices (the enumeration terminates). -/
theorem voltas (pre post : Bool) (k : Nat) (hk : 1 ≤ k) (tys : Nat → SegType) (tms : Nat → Int × Int)
    (hty : ∀ i, tys i ≠ SegType.leapStart) (il : Bool) (fuel : Nat) (hf : 2 * k + 4 ≤ fuel) :
    getPaths (voltaGraph pre k post tys tms) false true il fuel = some [voltaMaxPath pre k post] ∧
    getPaths (voltaGraph pre k post tys tms) true false il fuel = some [voltaMinPath pre k post] :=
  volta_paths_aux pre k post tys tms il hty hk fuel hf

/-- … where pass i (counting from 0) of the maximal path is the section followed by bracket i -/
theorem voltas_pass_order (pre post : Bool) (k i : Nat) (h : i < k) :
    (vPasses (vBody pre) 0 k)[2 * i]? = some (vBody pre) ∧
    (vPasses (vBody pre) 0 k)[2 * i + 1]? = some (vBody pre + 1 + i) := by
  have := vPasses_get (vBody pre) k 0 i h
  simpa using this

-- non-vacuity: four endings after one bar of lead-in
example : getPaths (voltaGraph true 4 false (fun _ => .dflt) (fun _ => (0, 0))) false true true 12 =
    some [[0, 1, 2, 1, 3, 1, 4, 1, 5]] := by decide

/-- No repeat structure: one segment, the single path `[A]`. -/
theorem no_repeats_single_path (first last : Int) (h : first < last) (nr ar il : Bool) (fuel : Nat) :
    (mkSegments { first := first, last := last }).bind (fun g => getPaths g nr ar il (fuel + 1)) = some [[0]] :=
  no_repeats_aux first last h nr ar il fuel

/-- … and the unfolded part is the original: every object that is not a signature/clef, page or system and
starts before the last time point appears exactly once, moved by `−first`, with kind, length, payload, id
unchanged (signatures and clefs: see `copies_per_visit`; only those that repeat the previous one are left out). -/
theorem no_repeats_id (p : APart) (first last : Int) :
    (((variant p [⟨first, last, 0⟩]).objs.filter keepP).map core) =
      ((enum 0 p.objs).filter (copyable ⟨first, last, 0⟩)).map fun q => core (mkCopy q.1 0 q.2 (0 - first)) := by
  have := copies_per_visit p [⟨first, last, 0⟩]
  simpa [enum] using this

end C09
