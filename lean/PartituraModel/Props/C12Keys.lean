/-
C12, round 6 — key names.

`key_name_to_fifths_mode` is characterised on EVERY string (not only on the thirty names of the two tables): it
rejects exactly the strings that do not begin with one of the seven letters of its list of fifths, and on every other
string it returns the position of that letter on the line of fifths (C = 0), three lower for a name that contains
an `m`, seven lower per `b` when there is a `b`, else seven higher per `#`.  From this closed form: the tonic named
by a key name has the pitch class twelve-tone arithmetic gives its number of fifths (BASE_PC / step2pc agree with the
key tables), for every number of accidentals; and the key table of the key estimator (globals.KEYS) agrees with
MAJOR_KEYS / MINOR_KEYS.
-/
import PartituraModel.Proofs.C12Keys
import PartituraModel.Props.C12Ext

namespace C12
open Model Gen Gen.C12 C12Bridge C12Keys

/-- closed form of `key_name_to_fifths_mode` -/
def keyNameValue (name : String) : Option (Int × Mode) :=
  match name.toList with
  | [] => none
  | c :: _ =>
    coreValue k2fFifthsList (String.ofList [c]) (name.toList.contains 'm') (name.toList.contains 'b')
      (countChar 'b' name) (countChar '#' name)

theorem contains_false_count (c : Char) : ∀ cs : List Char, cs.contains c = false → (cs.filter (· = c)).length = 0
  | [], _ => rfl
  | a :: t, h => by
    simp only [List.contains_cons, Bool.or_eq_false_iff, beq_eq_false_iff_ne, ne_eq] at h
    have hne : ¬ a = c := fun e => h.1 e.symm
    simp only [List.filter, hne, decide_false]
    exact contains_false_count c t h.2

/-- **every string**: the string algorithm of `key_name_to_fifths_mode` computes the closed form -/
theorem key_name_closed_form (name : String) : keyNameToFifthsModeG name = keyNameValue name := by
  unfold keyNameToFifthsModeG keyNameValue
  rw [keyNameL_core]
  cases hcs : name.toList with
  | nil => rfl
  | cons c rest =>
    simp only
    apply keyCore_value
    · -- name == "F"
      intro h
      have hn : name = "F" := by simpa using h
      subst hn
      have hl : c :: rest = "F".toList := hcs.symm
      rw [hl]
      decide
    · -- two characters, one of them `m`, the first a letter of the list
      intro hl hm hi
      unfold countChar
      rw [hcs] at *
      cases rest with
      | nil => simp at hl
      | cons d rest2 =>
        cases rest2 with
        | cons _ _ => simp at hl
        | nil =>
          by_cases e1 : c = '#'
          · subst e1; exact absurd hi (by decide)
          by_cases e2 : c = 'm'
          · subst e2; exact absurd hi (by decide)
          have hd : d = 'm' := by
            simp only [List.contains_cons, List.contains_nil, Bool.or_false, Bool.or_eq_true, beq_iff_eq] at hm
            rcases hm with h | h
            · exact absurd h.symm (fun e => e2 e)
            · exact h.symm
          subst hd
          simp [List.filter, e1]
    · intro hb
      unfold countChar
      rw [hcs] at *
      exact_mod_cast contains_false_count 'b' (c :: rest) hb

/-- position of a letter on the line of fifths (the regenerated `fifths_list`; C is the origin) -/
def fifthsOfLetter (c : Char) : Option Int := (indexOf (String.ofList [c]) k2fFifthsList).map fun (i : Nat) => (i : Int) - 1

/-- … read out: what the function returns for a string that begins with the letter `c` -/
theorem key_name_value (name : String) (c : Char) (rest : List Char) (b : Int) (h : name.toList = c :: rest)
    (hc : fifthsOfLetter c = some b) :
    keyNameToFifthsModeG name =
      some (b - (if name.toList.contains 'm' then 3 else 0)
              + (if (countChar 'b' name : Int) > 0 then -7 * (countChar 'b' name : Int) else 7 * (countChar '#' name : Int)),
            if name.toList.contains 'm' then Mode.minor else Mode.major) := by
  rw [key_name_closed_form]
  unfold keyNameValue coreValue
  unfold fifthsOfLetter at hc
  simp only [h]
  cases hi : indexOf (String.ofList [c]) k2fFifthsList with
  | none => rw [hi] at hc; simp at hc
  | some i =>
    rw [hi] at hc
    simp only [Option.map_some, Option.some.injEq] at hc
    subst hc
    simp only [Option.map_some, Option.some.injEq, Prod.mk.injEq, and_true]
    by_cases hb : (c :: rest).contains 'b' = true
    · have : (0 : Int) < (countChar 'b' name : Int) := by
        unfold countChar
        rw [h]
        have hmem : 'b' ∈ (c :: rest) := by simpa using hb
        have hm2 : 'b' ∈ (c :: rest).filter (· = 'b') := List.mem_filter.mpr ⟨hmem, by simp⟩
        exact_mod_cast List.length_pos_of_mem hm2
      rw [if_pos hb, if_pos this]
    · have hb' : (c :: rest).contains 'b' = false := by simpa using hb
      have : (countChar 'b' name : Int) = 0 := by
        unfold countChar
        rw [h]
        exact_mod_cast contains_false_count 'b' (c :: rest) hb'
      rw [if_neg hb, this]
      simp

/-- **rejection**: exactly the strings that do not begin with a letter of the list of fifths are rejected; every
    other string is read as SOME key (the function has no notion of an unknown key name) -/
theorem key_name_accepts_iff (name : String) :
    (keyNameToFifthsModeG name).isSome ↔ ∃ c rest, name.toList = c :: rest ∧ (fifthsOfLetter c).isSome := by
  rw [key_name_closed_form]
  unfold keyNameValue coreValue fifthsOfLetter
  cases h : name.toList with
  | nil => simp
  | cons c rest =>
    simp only [Option.isSome_map]
    constructor
    · intro hh; exact ⟨c, rest, rfl, hh⟩
    · rintro ⟨c', rest', he, hh⟩
      cases he
      exact hh

/-- the seven letters, and nothing else (lower case, `H`, digits, blanks …) -/
theorem fifths_letters :
    (∀ c ∈ ['F', 'C', 'G', 'D', 'A', 'E', 'B'], (fifthsOfLetter c).isSome = true) ∧
    fifthsOfLetter 'C' = some 0 ∧ fifthsOfLetter 'F' = some (-1) ∧ fifthsOfLetter 'B' = some 5 ∧
    fifthsOfLetter 'c' = none ∧ fifthsOfLetter 'H' = none ∧ fifthsOfLetter 'm' = none ∧ fifthsOfLetter ' ' = none := by
  decide

/-- the line of fifths and the pitch-class table agree: seven semitones per fifth -/
theorem fifths_pitch_class :
    ∀ c ∈ ['F', 'C', 'G', 'D', 'A', 'E', 'B'],
      ∃ b p : Int, fifthsOfLetter c = some b ∧ lookup (String.ofList [c]) BASE_PC = some p ∧ (7 * b) % 12 = p := by
  have key : ∀ c ∈ ['F', 'C', 'G', 'D', 'A', 'E', 'B'],
      ((fifthsOfLetter c).bind fun b => (lookup (String.ofList [c]) BASE_PC).map fun p => decide ((7 * b) % 12 = p))
        = some true := by decide
  intro c hc
  have h := key c hc
  cases hb : fifthsOfLetter c with
  | none => rw [hb] at h; simp at h
  | some b =>
    cases hp : lookup (String.ofList [c]) BASE_PC with
    | none => rw [hb, hp] at h; simp at h
    | some p =>
      rw [hb, hp] at h
      simp only [Option.bind_some, Option.map_some, Option.some.injEq, decide_eq_true_eq] at h
      exact ⟨b, p, rfl, rfl, h⟩

/-- **tonic**: for every key name with accidentals of one kind (any number of them), seven semitones per fifth
    lands on the pitch class of the named tonic (`step2pc` of its letter and accidentals); a minor key lies three
    fifths below the major key of the same tonic (9 semitones: its relative major is a minor third above) -/
theorem key_tonic_pitch_class (name : String) (c : Char) (rest : List Char) (f : Int) (m : Mode)
    (h : name.toList = c :: rest) (hc : c ∈ ['F', 'C', 'G', 'D', 'A', 'E', 'B'])
    (hone : countChar 'b' name = 0 ∨ countChar '#' name = 0)
    (hk : keyNameToFifthsModeG name = some (f, m)) :
    step2pc (String.ofList [c]) ((countChar '#' name : Int) - (countChar 'b' name : Int))
      = some ((7 * f + (if m = Mode.minor then 9 else 0)) % 12) := by
  obtain ⟨b, p, hb, hp, hbp⟩ := fifths_pitch_class c hc
  rw [key_name_value name c rest b h hb] at hk
  simp only [Option.some.injEq, Prod.mk.injEq] at hk
  obtain ⟨hf, hm⟩ := hk
  rw [step2pc_spec _ _ p hp]
  simp only [Option.some.injEq]
  subst hf
  subst hm
  have hone' : (countChar 'b' name : Int) = 0 ∨ (countChar '#' name : Int) = 0 := by
    rcases hone with h0 | h0 <;> simp [h0]
  have hnb : (0 : Int) ≤ (countChar 'b' name : Int) := Int.natCast_nonneg _
  have hns : (0 : Int) ≤ (countChar '#' name : Int) := Int.natCast_nonneg _
  clear hone
  generalize (countChar 'b' name : Int) = nb at *
  generalize (countChar '#' name : Int) = ns at *
  by_cases hmm : name.toList.contains 'm' = true
  · simp only [hmm, if_true]
    split <;> rcases hone' with h0 | h0 <;> omega
  · have hmm' : name.toList.contains 'm' = false := by simpa using hmm
    simp only [hmm', Bool.false_eq_true, if_false]
    have : ¬ (Mode.major = Mode.minor) := by decide
    simp only [this, if_false]
    split <;> rcases hone' with h0 | h0 <;> omega

/-- non-vacuity / instances: any number of accidentals, lower-case and unknown letters, `maj` / `min` suffixes -/
example : keyNameToFifthsModeG "F###" = some (20, Mode.major) ∧ keyNameToFifthsModeG "Cbbm" = some (-17, Mode.minor) ∧
    keyNameToFifthsModeG "Dm" = some (-1, Mode.minor) ∧ keyNameToFifthsModeG "Dmin" = some (-1, Mode.minor) ∧
    keyNameToFifthsModeG "Amaj" = some (0, Mode.minor) ∧ keyNameToFifthsModeG "Bb" = some (-2, Mode.major) ∧
    keyNameToFifthsModeG "c" = none ∧ keyNameToFifthsModeG "H" = none ∧ keyNameToFifthsModeG "" = none ∧
    keyNameToFifthsModeG " C" = none := by decide +kernel

/-! ### the thirty names: tonic pitch class, and the key table of the key estimator -/

/-- tonic pitch class of a key name: its letter with its accidentals -/
def tonicPc (name : String) : Option Int :=
  match name.toList with
  | [] => none
  | c :: _ => step2pc (String.ofList [c]) ((countChar '#' name : Int) - (countChar 'b' name : Int))

/-- every major key of the table sounds `7·fifths`, every minor key `7·fifths + 9` (mod 12): MAJOR_KEYS, MINOR_KEYS
    and BASE_PC agree -/
theorem key_tables_tonic :
    ∀ f ∈ [(-7 : Int), -6, -5, -4, -3, -2, -1, 0, 1, 2, 3, 4, 5, 6, 7],
      (fifthsModeToKeyNameG f (PyLit.str "major")).bind tonicPc = some ((7 * f) % 12) ∧
      (fifthsModeToKeyNameG f (PyLit.str "minor")).bind tonicPc = some ((7 * f + 9) % 12) := by
  decide +kernel

/-- `globals.KEYS` (the 24 keys of the key estimator, with their fifths) names the keys as MAJOR_KEYS / MINOR_KEYS
    do, and each of its entries reads back through `key_name_to_fifths_mode` -/
theorem keys_table_consistent :
    ∀ e ∈ KEYS,
      fifthsModeToKeyNameG e.2.2 (PyLit.str e.2.1) = some (e.1 ++ (if e.2.1 = "minor" then "m" else "")) ∧
      (keyNameToFifthsModeG (e.1 ++ (if e.2.1 = "minor" then "m" else ""))).map (fun r => (r.1, modeName r.2))
        = some (e.2.2, e.2.1) := by
  decide +kernel

end C12
