/-
C05, round 4 — the inverse direction gives the onsets back.

"Building a score from a note array and taking its note array returns the same onsets": for arrays
with division columns the triples are copied (Props/C05.lean: `from_to_array`).  For arrays with
beat columns only, `create_divs_from_beats` chooses the divisions AND may shift the onsets; these
theorems say exactly when and by how much (Model/NoteArray.lean: `beatShift`), where
`note_array_to_score` puts the pickup measure (Model/NoteArrayBack.lean: `anacrusisDivs`, repaired by
fixes/C05-9), and what the quarter / beat columns of the created part's note array then are
(`fromArrayBack`: pickup measure of `create_part`, first measure of `add_measures`, pickup rule of the
time maps).

* no negative onset  → no shift: a late entry, a leading rest, a slice of a piece stays where it is
  (`late_entry_not_moved`, `onsets_back_exact`, `onsets_back_late_entry`);
* a negative onset   → shift by exactly the earliest onset (`pickup_moved_to_zero`); with a time
  signature the pickup measure ends exactly at beat 0 (`pickup_measure_ends_at_beat_zero`) and every
  onset comes back as it went in (`onsets_back_pickup`); without one (barebones part) the onsets
  come back relative to the first note (`onsets_back_barebones_pickup`: the documented shift).
-/
import PartituraModel.Props.C05
import PartituraModel.Proofs.C05Back

namespace C05
open NoteArray List Model

/-- **A late entry is not moved.**  Beat-only array without a negative (denominator-limited) onset:
    the divisions are positive and every note sits exactly at divisions × its beat — no shift. -/
theorem late_entry_not_moved (ht : Bool) (a : List ARow) (d : Nat) (l : List (Int × Int × Int))
    (h : fromArray true false ht a none = .ok (d, l))
    (hnn : ∀ r ∈ a, 0 ≤ limitDen r.onsetBeat 256) :
    0 < d ∧ Forall₂ (fun (r : ARow) (x : Int × Int × Int) =>
        (x.1 : Rat) = (d : Rat) * limitDen r.onsetBeat 256 ∧
        (x.2.1 : Rat) = (d : Rat) * limitDen r.durBeat 256 ∧ x.2.2 = r.pitch) (sortArr false a) l := by
  obtain ⟨hd, hf⟩ := fromArray_beat_shift ht a d l h
  have hz : beatShift (beatRows a) = 0 := by
    apply beatShift_eq_zero
    intro x hx
    obtain ⟨r, hr, rfl⟩ := mem_beatRows a x hx
    exact hnn r hr
  refine ⟨by rw [hd]; exact beatDivs_pos _, ?_⟩
  refine hf.imp ?_
  intro r x hab
  refine ⟨?_, hab.2⟩
  rw [hab.1, hz]
  simp

/-- **The onsets that come back are the onsets that went in** (division columns of the new part,
    read on its own grid): beat-only array on the 1/256 grid without a negative onset. -/
theorem onsets_back_exact (ht : Bool) (a : List ARow) (d : Nat) (l : List (Int × Int × Int))
    (h : fromArray true false ht a none = .ok (d, l))
    (hgrid : ∀ r ∈ a, r.onsetBeat.den ≤ 256 ∧ r.durBeat.den ≤ 256 ∧ 0 ≤ r.onsetBeat) :
    Forall₂ (fun (r : ARow) (x : Int × Int × Int) =>
        (x.1 : Rat) / (d : Rat) = r.onsetBeat ∧ (x.2.1 : Rat) / (d : Rat) = r.durBeat ∧
        x.2.2 = r.pitch) (sortArr false a) l := by
  have hnn : ∀ r ∈ a, 0 ≤ limitDen r.onsetBeat 256 := by
    intro r hr
    rw [limitDen_of_den_le _ _ (hgrid r hr).1]
    exact (hgrid r hr).2.2
  obtain ⟨hd, hf⟩ := late_entry_not_moved ht a d l h hnn
  have hdq : (d : Rat) ≠ 0 := by
    have : (0 : Rat) < (d : Rat) := by exact_mod_cast hd
    exact ne_of_gt this
  refine forall₂_imp_mem hf ?_
  intro r hr x hab
  have hr' := (sortArr_perm false a).mem_iff.mp hr
  rw [limitDen_of_den_le _ _ (hgrid r hr').1] at hab
  rw [limitDen_of_den_le _ _ (hgrid r hr').2.1] at hab
  refine ⟨?_, ?_, hab.2.2⟩
  · rw [hab.1]; field_simp
  · rw [hab.2.1]; field_simp

/-- **A pickup is moved to time 0, by exactly its length.**  Beat-only array with a negative
    (limited) onset: there is an earliest note `y`; every note sits at divisions × (its beat − the
    beat of `y`): `y` at 0, all distances kept. -/
theorem pickup_moved_to_zero (ht : Bool) (a : List ARow) (d : Nat) (l : List (Int × Int × Int))
    (h : fromArray true false ht a none = .ok (d, l))
    (hneg : ∃ r ∈ a, limitDen r.onsetBeat 256 < 0) :
    ∃ y ∈ a, limitDen y.onsetBeat 256 < 0 ∧
      (∀ r ∈ a, limitDen y.onsetBeat 256 ≤ limitDen r.onsetBeat 256) ∧
      Forall₂ (fun (r : ARow) (x : Int × Int × Int) =>
        (x.1 : Rat) = (d : Rat) * (limitDen r.onsetBeat 256 - limitDen y.onsetBeat 256) ∧
        (x.2.1 : Rat) = (d : Rat) * limitDen r.durBeat 256 ∧ x.2.2 = r.pitch) (sortArr false a) l := by
  obtain ⟨hd, hf⟩ := fromArray_beat_shift ht a d l h
  obtain ⟨r0, hr0, hr0n⟩ := hneg
  obtain ⟨y', hy', hyneg, hyle, hsh⟩ := beatShift_of_neg (beatRows a) ⟨_, beatRows_mem a r0 hr0, hr0n⟩
  obtain ⟨y, hy, rfl⟩ := mem_beatRows a y' hy'
  refine ⟨y, hy, hyneg, fun r hr => hyle _ (beatRows_mem a r hr), ?_⟩
  refine hf.imp ?_
  intro r x hab
  refine ⟨?_, hab.2⟩
  rw [hab.1, hsh, ← hd]
  ring

-- ------------------------------------------------------------------ the note array of the new part

/-- **The pickup measure ends exactly at beat 0.**  Beat-only array (beats are quarters) on the
    1/256 grid with a negative onset, part with a time signature: `anacrusis_divs` (repaired:
    rounded) is divisions × the length of the pickup — the distance from the earliest note `y` to
    beat 0 — and it is the end of the measure that starts at time 0. -/
theorem pickup_measure_ends_at_beat_zero (a : List ARow) (s : Nat × Nat) (san : Bool) (b : Back)
    (h : fromArrayBack true false false a none (some s) san = .ok b)
    (hgrid : ∀ r ∈ a, r.onsetBeat.den ≤ 256)
    (hneg : ∃ r ∈ a, r.onsetBeat < 0) :
    ∃ y ∈ a, y.onsetBeat < 0 ∧ (∀ r ∈ a, y.onsetBeat ≤ r.onsetBeat) ∧
      (b.anacrusis : Rat) = (b.divs : Rat) * (0 - y.onsetBeat) ∧ b.anacrusis = beatShift (beatRows a) ∧
      b.m1 = some b.anacrusis := by
  obtain ⟨l, hdpos, hd, hf, hana, hm1, _, _⟩ := back_beat_core false a (some s) san b h hgrid
  obtain ⟨r0, hr0, hr0n⟩ := hneg
  have hlim : ∀ r ∈ a, limitDen r.onsetBeat 256 = r.onsetBeat := fun r hr => limitDen_of_den_le _ _ (hgrid r hr)
  obtain ⟨y', hy', hyneg, hyle, hsh⟩ := beatShift_of_neg (beatRows a)
    ⟨_, beatRows_mem a r0 hr0, by simpa [hlim r0 hr0] using hr0n⟩
  obtain ⟨y, hy, rfl⟩ := mem_beatRows a y' hy'
  simp only [hlim y hy] at hyneg hsh
  have ha : b.anacrusis = beatShift (beatRows a) := by
    rw [hana]
    apply anacrusis_beat_only _ _ _ _ hdpos (hf.imp fun _ _ hab => hab.1)
    exact ⟨r0, (sortArr_perm false a).mem_iff.mpr hr0, hr0n⟩
  have hq : (b.anacrusis : Rat) = (b.divs : Rat) * (0 - y.onsetBeat) := by
    rw [ha, hsh, ← hd]; ring
  refine ⟨y, hy, hyneg, ?_, hq, ha, ?_⟩
  · intro r hr
    have := hyle _ (beatRows_mem a r hr)
    simpa [hlim y hy, hlim r hr] using this
  · have hpos : (0 : Rat) < (b.anacrusis : Rat) := by
      rw [hq]
      have hdq : (0 : Rat) < (b.divs : Rat) := by exact_mod_cast hdpos
      exact mul_pos hdq (by linarith)
    have hpos' : 0 < b.anacrusis := by exact_mod_cast hpos
    rw [hm1]
    unfold firstMeasureEnd
    simp only [hpos', ↓reduceIte]

/-- **With a pickup shorter than a bar every onset comes back as it went in**: the quarter column of
    the new part's note array is the beat column of the array (documented: beats of a beat-only
    array are quarters), the beat column is that times `beat_type / 4`. -/
theorem onsets_back_pickup (a : List ARow) (s : Nat × Nat) (san : Bool) (b : Back)
    (h : fromArrayBack true false false a none (some s) san = .ok b)
    (hgrid : ∀ r ∈ a, r.onsetBeat.den ≤ 256)
    (hneg : ∃ r ∈ a, r.onsetBeat < 0)
    (hshort : (b.anacrusis : Rat) < barDivs s b.divs) :
    Forall₂ (fun (r : ARow) (n : (Int × Int × Int) × (Rat × Rat)) =>
        n.2.1 = r.onsetBeat ∧ n.2.2 = r.onsetBeat * ((s.2 : Rat) / 4) ∧ n.1.2.2 = r.pitch)
      (sortArr false a) b.notes := by
  obtain ⟨y, _, _, _, _, ha, hm1'⟩ := pickup_measure_ends_at_beat_zero a s san b h hgrid hneg
  obtain ⟨l, hdpos, _, hf, _, _, hpick, hnotes⟩ := back_beat_core false a (some s) san b h hgrid
  have hp : b.pick = b.anacrusis := by
    rw [hpick, hm1']
    unfold pickupDivs
    simp only [hshort, ↓reduceIte]
  have hdq : (b.divs : Rat) ≠ 0 := by
    have : (0 : Rat) < (b.divs : Rat) := by exact_mod_cast hdpos
    exact ne_of_gt this
  rw [hnotes, forall₂_map_right_iff]
  refine hf.imp ?_
  intro r x hab
  have hq : (backTime (some s) b.pick b.divs x.1).1 = r.onsetBeat := by
    rw [backTime_fst, hp, ha]
    push_cast
    rw [hab.1]
    field_simp
    ring
  refine ⟨hq, ?_, hab.2⟩
  rw [backTime_snd, hq]

/-- the created part has no pickup by the rule of its time maps: barebones, or not sanitized (no
    measures are added), or the piece reaches its first bar line (a whole number of divisions) -/
theorem no_pickup_without_short_bar (ht : Bool) (a : List ARow) (ts : Option (Nat × Nat)) (san : Bool)
    (b : Back) (h : fromArrayBack true false ht a none ts san = .ok b)
    (hnn : ∀ r ∈ a, 0 ≤ r.onsetBeat)
    (hfull : ts = none ∨ san = false ∨ ∃ s, ts = some s ∧
      barDivs s b.divs ≤ (partEnd (b.notes.map (·.1)) : Rat) ∧
      (((barDivs s b.divs).floor : Int) : Rat) = barDivs s b.divs) :
    b.anacrusis = 0 ∧ b.pick = 0 := by
  obtain ⟨l, _, hana, hm1, hpick, hnotes⟩ := fromArrayBack_ok true false ht a none ts san b h
  have ha : b.anacrusis = 0 := by
    rw [hana]
    simp only [↓reduceIte]
    apply anacrusis_zero_of_nonneg
    intro r hr
    exact hnn r ((sortArr_perm false a).mem_iff.mp hr)
  refine ⟨ha, ?_⟩
  have hl : b.notes.map (·.1) = l := by
    rw [hnotes, map_map]
    exact List.map_id l
  rw [hpick, hm1, ha]
  rcases hfull with rfl | rfl | ⟨s, rfl, hle, hint⟩
  · rfl
  · cases ts <;> simp [firstMeasureEnd, pickupDivs]
  · rw [hl] at hle
    unfold firstMeasureEnd pickupDivs
    simp only [lt_irrefl, ↓reduceIte]
    by_cases hs : (san && decide (0 < partEnd l)) = true
    · rw [if_pos hs]
      by_cases he : (partEnd l : Rat) ≤ barDivs s b.divs
      · rw [if_pos he]
        have : ¬ ((partEnd l : Rat) < barDivs s b.divs) := not_lt.mpr hle
        simp only [this, ↓reduceIte]
      · rw [if_neg he]
        have : ¬ ((((barDivs s b.divs).floor : Int) : Rat) < barDivs s b.divs) := by rw [hint]; exact lt_irrefl _
        simp only [this, ↓reduceIte]
    · rw [if_neg hs]

/-- **A late entry comes back where it went in.**  Beat-only array on the 1/256 grid without a
    negative onset, created part without a short first measure (`no_pickup_without_short_bar`):
    quarter column = the array's beat column, beat column = that times `beat_type / 4`
    (times 1 for a barebones part). -/
theorem onsets_back_late_entry (ht : Bool) (a : List ARow) (ts : Option (Nat × Nat)) (san : Bool) (b : Back)
    (h : fromArrayBack true false ht a none ts san = .ok b)
    (hgrid : ∀ r ∈ a, r.onsetBeat.den ≤ 256 ∧ 0 ≤ r.onsetBeat)
    (hp : b.pick = 0) :
    Forall₂ (fun (r : ARow) (n : (Int × Int × Int) × (Rat × Rat)) =>
        n.2.1 = r.onsetBeat ∧ n.2.2 = r.onsetBeat * beatFactor ts ∧ n.1.2.2 = r.pitch)
      (sortArr false a) b.notes := by
  obtain ⟨l, hdpos, _, hf, _, _, _, hnotes⟩ := back_beat_core ht a ts san b h (fun r hr => (hgrid r hr).1)
  have hz : beatShift (beatRows a) = 0 := by
    apply beatShift_eq_zero
    intro x hx
    obtain ⟨r, hr, rfl⟩ := mem_beatRows a x hx
    rw [limitDen_of_den_le _ _ (hgrid r hr).1]
    exact (hgrid r hr).2
  have hdq : (b.divs : Rat) ≠ 0 := by
    have : (0 : Rat) < (b.divs : Rat) := by exact_mod_cast hdpos
    exact ne_of_gt this
  rw [hnotes, forall₂_map_right_iff]
  refine hf.imp ?_
  intro r x hab
  have hq : (backTime ts b.pick b.divs x.1).1 = r.onsetBeat := by
    rw [backTime_fst, hp]
    simp only [Int.sub_zero]
    rw [hab.1, hz]
    field_simp
    simp
  refine ⟨hq, ?_, hab.2⟩
  rw [backTime_snd, hq]
  cases ts <;> rfl

/-- **Barebones part, negative first onset: the documented shift.**  Without a time signature there
    is no pickup measure; the onsets come back relative to the earliest note `y` (which is at 0). -/
theorem onsets_back_barebones_pickup (ht : Bool) (a : List ARow) (san : Bool) (b : Back)
    (h : fromArrayBack true false ht a none none san = .ok b)
    (hgrid : ∀ r ∈ a, r.onsetBeat.den ≤ 256)
    (hneg : ∃ r ∈ a, r.onsetBeat < 0) :
    ∃ y ∈ a, y.onsetBeat < 0 ∧ (∀ r ∈ a, y.onsetBeat ≤ r.onsetBeat) ∧
      Forall₂ (fun (r : ARow) (n : (Int × Int × Int) × (Rat × Rat)) =>
        n.2.1 = r.onsetBeat - y.onsetBeat ∧ n.2.2 = r.onsetBeat - y.onsetBeat ∧ n.1.2.2 = r.pitch)
      (sortArr false a) b.notes := by
  obtain ⟨l, hdpos, hd, hf, _, hm1, hpick, hnotes⟩ := back_beat_core ht a none san b h hgrid
  obtain ⟨r0, hr0, hr0n⟩ := hneg
  have hlim : ∀ r ∈ a, limitDen r.onsetBeat 256 = r.onsetBeat := fun r hr => limitDen_of_den_le _ _ (hgrid r hr)
  obtain ⟨y', hy', hyneg, hyle, hsh⟩ := beatShift_of_neg (beatRows a)
    ⟨_, beatRows_mem a r0 hr0, by simpa [hlim r0 hr0] using hr0n⟩
  obtain ⟨y, hy, rfl⟩ := mem_beatRows a y' hy'
  simp only [hlim y hy] at hyneg hsh
  have hp : b.pick = 0 := by rw [hpick]; rfl
  have hdq : (b.divs : Rat) ≠ 0 := by
    have : (0 : Rat) < (b.divs : Rat) := by exact_mod_cast hdpos
    exact ne_of_gt this
  refine ⟨y, hy, hyneg, ?_, ?_⟩
  · intro r hr
    have := hyle _ (beatRows_mem a r hr)
    simpa [hlim y hy, hlim r hr] using this
  rw [hnotes, forall₂_map_right_iff]
  refine hf.imp ?_
  intro r x hab
  have hq : (backTime none b.pick b.divs x.1).1 = r.onsetBeat - y.onsetBeat := by
    rw [backTime_fst, hp]
    simp only [Int.sub_zero]
    rw [hab.1, hsh, ← hd]
    field_simp
    ring
  refine ⟨hq, ?_, hab.2⟩
  rw [backTime_snd, hq]
  simp

end C05
