/-
C05, round 4 — the inverse direction gives the onsets back.

"Building a score from a note array and taking its note array returns the same onsets": for arrays
with division columns the triples are copied (Props/C05.lean: `from_to_array`).  For arrays with
beat columns only, `create_divs_from_beats` chooses the divisions AND may shift the onsets; these
theorems say exactly when and by how much (Model/NoteArray.lean: `beatShift`), where
`note_array_to_score` puts the pickup measure (Model/NoteArrayBack.lean: `anacrusisDivs`, repaired by
fixes/C05-9), and what the quarter / beat columns of the created part's note array then are
(`fromArrayBack`: pickup measure of `create_part`, first measure of `add_measures`, pickup rule of the
time maps).

* no negative onset  → no shift: a late entry, a leading rest, a slice of a piece stays where it is
  (`late_entry_not_moved`, `onsets_back_exact`, `onsets_back_late_entry`);
* a negative onset   → shift by exactly the earliest onset (`pickup_moved_to_zero`); with a time
  signature the pickup measure ends exactly at beat 0 (`pickup_measure_ends_at_beat_zero`) and every
  onset comes back as it went in (`onsets_back_pickup`); without one (barebones part) the onsets
  come back relative to the first note (`onsets_back_barebones_pickup`: the documented shift).
-/
import PartituraModel.Props.C05
import PartituraModel.Proofs.C05Back

namespace C05
open NoteArray List Model

/-- **A late entry is not moved.**  Beat-only array without a negative (denominator-limited) onset:
    the divisions are positive and every note sits exactly at divisions × its beat — no shift. -/
theorem late_entry_not_moved (ht : Bool) (a : List ARow) (d : Nat) (l : List (Int × Int × Int))
    (h : fromArray true false ht a none = .ok (d, l))
    (hnn : ∀ r ∈ a, 0 ≤ limitDen r.onsetBeat 256) :
    0 < d ∧ Forall₂ (fun (r : ARow) (x : Int × Int × Int) =>
        (x.1 : Rat) = (d : Rat) * limitDen r.onsetBeat 256 ∧
        (x.2.1 : Rat) = (d : Rat) * limitDen r.durBeat 256 ∧ x.2.2 = r.pitch) (sortArr false a) l := by
  obtain ⟨hd, hf⟩ := fromArray_beat_shift ht a d l h
  have hz : beatShift (beatRows a) = 0 := by
    apply beatShift_eq_zero
    intro x hx
    obtain ⟨r, hr, rfl⟩ := mem_beatRows a x hx
    exact hnn r hr
  refine ⟨by rw [hd]; exact beatDivs_pos _, ?_⟩
  refine hf.imp ?_
  intro r x hab
  refine ⟨?_, hab.2⟩
  rw [hab.1, hz]
  simp

/-- **The onsets that come back are the onsets that went in** (division columns of the new part,
    read on its own grid): beat-only array on the 1/256 grid without a negative onset. -/
theorem onsets_back_exact (ht : Bool) (a : List ARow) (d : Nat) (l : List (Int × Int × Int))
    (h : fromArray true false ht a none = .ok (d, l))
    (hgrid : ∀ r ∈ a, r.onsetBeat.den ≤ 256 ∧ r.durBeat.den ≤ 256 ∧ 0 ≤ r.onsetBeat) :
    Forall₂ (fun (r : ARow) (x : Int × Int × Int) =>
        (x.1 : Rat) / (d : Rat) = r.onsetBeat ∧ (x.2.1 : Rat) / (d : Rat) = r.durBeat ∧
        x.2.2 = r.pitch) (sortArr false a) l := by
  have hnn : ∀ r ∈ a, 0 ≤ limitDen r.onsetBeat 256 := by
    intro r hr
    rw [limitDen_of_den_le _ _ (hgrid r hr).1]
    exact (hgrid r hr).2.2
  obtain ⟨hd, hf⟩ := late_entry_not_moved ht a d l h hnn
  have hdq : (d : Rat) ≠ 0 := by
    have : (0 : Rat) < (d : Rat) := by exact_mod_cast hd
    exact ne_of_gt this
  refine forall₂_imp_mem hf ?_
  intro r hr x hab
  have hr' := (sortArr_perm false a).mem_iff.mp hr
  rw [limitDen_of_den_le _ _ (hgrid r hr').1] at hab
  rw [limitDen_of_den_le _ _ (hgrid r hr').2.1] at hab
  refine ⟨?_, ?_, hab.2.2⟩
  · rw [hab.1]; field_simp
  · rw [hab.2.1]; field_simp

/-- **A pickup is moved to time 0, by exactly its length.**  Beat-only array with a negative
    (limited) onset: there is an earliest note `y`; every note sits at divisions × (its beat − the
    beat of `y`): `y` at 0, all distances kept. -/
theorem pickup_moved_to_zero (ht : Bool) (a : List ARow) (d : Nat) (l : List (Int × Int × Int))
    (h : fromArray true false ht a none = .ok (d, l))
    (hneg : ∃ r ∈ a, limitDen r.onsetBeat 256 < 0) :
    ∃ y ∈ a, limitDen y.onsetBeat 256 < 0 ∧
      (∀ r ∈ a, limitDen y.onsetBeat 256 ≤ limitDen r.onsetBeat 256) ∧
      Forall₂ (fun (r : ARow) (x : Int × Int × Int) =>
        (x.1 : Rat) = (d : Rat) * (limitDen r.onsetBeat 256 - limitDen y.onsetBeat 256) ∧
        (x.2.1 : Rat) = (d : Rat) * limitDen r.durBeat 256 ∧ x.2.2 = r.pitch) (sortArr false a) l := by
  obtain ⟨hd, hf⟩ := fromArray_beat_shift ht a d l h
  obtain ⟨r0, hr0, hr0n⟩ := hneg
  obtain ⟨y', hy', hyneg, hyle, hsh⟩ := beatShift_of_neg (beatRows a) ⟨_, beatRows_mem a r0 hr0, hr0n⟩
  obtain ⟨y, hy, rfl⟩ := mem_beatRows a y' hy'
  refine ⟨y, hy, hyneg, fun r hr => hyle _ (beatRows_mem a r hr), ?_⟩
  refine hf.imp ?_
  intro r x hab
  refine ⟨?_, hab.2⟩
  rw [hab.1, hsh, ← hd]
  ring

-- ------------------------------------------------------------------ the note array of the new part

/-- **The pickup measure ends exactly at beat 0.**  Beat-only array (beats are quarters) on the
    1/256 grid with a negative onset, part with a time signature: `anacrusis_divs` (repaired:
    rounded) is divisions × the length of the pickup — the distance from the earliest note `y` to
    beat 0 — and it is the end of the measure that starts at time 0. -/
theorem pickup_measure_ends_at_beat_zero (a : List ARow) (s : Nat × Nat) (san : Bool) (b : Back)
    (h : fromArrayBack true false false a none (some s) san = .ok b)
    (hgrid : ∀ r ∈ a, r.onsetBeat.den ≤ 256)
    (hneg : ∃ r ∈ a, r.onsetBeat < 0) :
    ∃ y ∈ a, y.onsetBeat < 0 ∧ (∀ r ∈ a, y.onsetBeat ≤ r.onsetBeat) ∧
      (b.anacrusis : Rat) = (b.divs : Rat) * (0 - y.onsetBeat) ∧ b.anacrusis = beatShift (beatRows a) ∧
      b.m1 = some b.anacrusis := by
  obtain ⟨l, hdpos, hd, hf, hana, hm1, _, _⟩ := back_beat_core false a (some s) san b h hgrid
  obtain ⟨r0, hr0, hr0n⟩ := hneg
  have hlim : ∀ r ∈ a, limitDen r.onsetBeat 256 = r.onsetBeat := fun r hr => limitDen_of_den_le _ _ (hgrid r hr)
  obtain ⟨y', hy', hyneg, hyle, hsh⟩ := beatShift_of_neg (beatRows a)
    ⟨_, beatRows_mem a r0 hr0, by simpa [hlim r0 hr0] using hr0n⟩
  obtain ⟨y, hy, rfl⟩ := mem_beatRows a y' hy'
  simp only [hlim y hy] at hyneg hsh
  have ha : b.anacrusis = beatShift (beatRows a) := by
    rw [hana]
    apply anacrusis_beat_only _ _ _ _ hdpos (hf.imp fun _ _ hab => hab.1)
    exact ⟨r0, (sortArr_perm false a).mem_iff.mpr hr0, hr0n⟩
  have hq : (b.anacrusis : Rat) = (b.divs : Rat) * (0 - y.onsetBeat) := by
    rw [ha, hsh, ← hd]; ring
  refine ⟨y, hy, hyneg, ?_, hq, ha, ?_⟩
  · intro r hr
    have := hyle _ (beatRows_mem a r hr)
    simpa [hlim y hy, hlim r hr] using this
  · have hpos : (0 : Rat) < (b.anacrusis : Rat) := by
      rw [hq]
      have hdq : (0 : Rat) < (b.divs : Rat) := by exact_mod_cast hdpos
      exact mul_pos hdq (by linarith)
    have hpos' : 0 < b.anacrusis := by exact_mod_cast hpos
    rw [hm1]
    unfold firstMeasureEnd
    simp only [hpos', ↓reduceIte]

/-- **With a pickup shorter than a bar every onset comes back as it went in**: the quarter column of
    the new part's note array is the beat column of the array (documented: beats of a beat-only
    array are quarters), the beat column is that times `beat_type / 4`. -/
theorem onsets_back_pickup (a : List ARow) (s : Nat × Nat) (san : Bool) (b : Back)
    (h : fromArrayBack true false false a none (some s) san = .ok b)
    (hgrid : ∀ r ∈ a, r.onsetBeat.den ≤ 256)
    (hneg : ∃ r ∈ a, r.onsetBeat < 0)
    (hshort : (b.anacrusis : Rat) < barDivs s b.divs) :
    Forall₂ (fun (r : ARow) (n : (Int × Int × Int) × (Rat × Rat)) =>
        n.2.1 = r.onsetBeat ∧ n.2.2 = r.onsetBeat * ((s.2 : Rat) / 4) ∧ n.1.2.2 = r.pitch)
      (sortArr false a) b.notes := by
  obtain ⟨y, _, _, _, _, ha, hm1'⟩ := pickup_measure_ends_at_beat_zero a s san b h hgrid hneg
  obtain ⟨l, hdpos, _, hf, _, _, hpick, hnotes⟩ := back_beat_core false a (some s) san b h hgrid
  have hp : b.pick = b.anacrusis := by
    rw [hpick, hm1']
    unfold pickupDivs
    simp only [hshort, ↓reduceIte]
  have hdq : (b.divs : Rat) ≠ 0 := by
    have : (0 : Rat) < (b.divs : Rat) := by exact_mod_cast hdpos
    exact ne_of_gt this
  rw [hnotes, forall₂_map_right_iff]
  refine hf.imp ?_
  intro r x hab
  have hq : (backTime (some s) b.pick b.divs x.1).1 = r.onsetBeat := by
    rw [backTime_fst, hp, ha]
    push_cast
    rw [hab.1]
    field_simp
    ring
  refine ⟨hq, ?_, hab.2⟩
  rw [backTime_snd, hq]

/-- the created part has no pickup by the rule of its time maps: barebones, or not sanitized (no
    measures are added), or the piece reaches its first bar line (a whole number of divisions) -/
theorem no_pickup_without_short_bar (ht : Bool) (a : List ARow) (ts : Option (Nat × Nat)) (san : Bool)
    (b : Back) (h : fromArrayBack true false ht a none ts san = .ok b)
    (hnn : ∀ r ∈ a, 0 ≤ r.onsetBeat)
    (hfull : ts = none ∨ san = false ∨ ∃ s, ts = some s ∧
      barDivs s b.divs ≤ (partEnd (b.notes.map (·.1)) : Rat) ∧
      (((barDivs s b.divs).floor : Int) : Rat) = barDivs s b.divs) :
    b.anacrusis = 0 ∧ b.pick = 0 := by
  obtain ⟨l, _, hana, hm1, hpick, hnotes⟩ := fromArrayBack_ok true false ht a none ts san b h
  have ha : b.anacrusis = 0 := by
    rw [hana]
    simp only [↓reduceIte]
    apply anacrusis_zero_of_nonneg
    intro r hr
    exact hnn r ((sortArr_perm false a).mem_iff.mp hr)
  refine ⟨ha, ?_⟩
  have hl : b.notes.map (·.1) = l := by
    rw [hnotes, map_map]
    exact List.map_id l
  rw [hpick, hm1, ha]
  rcases hfull with rfl | rfl | ⟨s, rfl, hle, hint⟩
  · rfl
  · cases ts <;> simp [firstMeasureEnd, pickupDivs]
  · rw [hl] at hle
    unfold firstMeasureEnd pickupDivs
    simp only [lt_irrefl, ↓reduceIte]
    by_cases hs : (san && decide (0 < partEnd l)) = true
    · rw [if_pos hs]
      by_cases he : (partEnd l : Rat) ≤ barDivs s b.divs
      · rw [if_pos he]
        have : ¬ ((partEnd l : Rat) < barDivs s b.divs) := not_lt.mpr hle
        simp only [this, ↓reduceIte]
      · rw [if_neg he]
        have : ¬ ((((barDivs s b.divs).floor : Int) : Rat) < barDivs s b.divs) := by rw [hint]; exact lt_irrefl _
        simp only [this, ↓reduceIte]
    · rw [if_neg hs]

/-- **A late entry comes back where it went in.**  Beat-only array on the 1/256 grid without a
    negative onset, created part without a short first measure (`no_pickup_without_short_bar`):
    quarter column = the array's beat column, beat column = that times `beat_type / 4`
    (times 1 for a barebones part). -/
theorem onsets_back_late_entry (ht : Bool) (a : List ARow) (ts : Option (Nat × Nat)) (san : Bool) (b : Back)
    (h : fromArrayBack true false ht a none ts san = .ok b)
    (hgrid : ∀ r ∈ a, r.onsetBeat.den ≤ 256 ∧ 0 ≤ r.onsetBeat)
    (hp : b.pick = 0) :
    Forall₂ (fun (r : ARow) (n : (Int × Int × Int) × (Rat × Rat)) =>
        n.2.1 = r.onsetBeat ∧ n.2.2 = r.onsetBeat * beatFactor ts ∧ n.1.2.2 = r.pitch)
      (sortArr false a) b.notes := by
  obtain ⟨l, hdpos, _, hf, _, _, _, hnotes⟩ := back_beat_core ht a ts san b h (fun r hr => (hgrid r hr).1)
  have hz : beatShift (beatRows a) = 0 := by
    apply beatShift_eq_zero
    intro x hx
    obtain ⟨r, hr, rfl⟩ := mem_beatRows a x hx
    rw [limitDen_of_den_le _ _ (hgrid r hr).1]
    exact (hgrid r hr).2
  have hdq : (b.divs : Rat) ≠ 0 := by
    have : (0 : Rat) < (b.divs : Rat) := by exact_mod_cast hdpos
    exact ne_of_gt this
  rw [hnotes, forall₂_map_right_iff]
  refine hf.imp ?_
  intro r x hab
  have hq : (backTime ts b.pick b.divs x.1).1 = r.onsetBeat := by
    rw [backTime_fst, hp]
    simp only [Int.sub_zero]
    rw [hab.1, hz]
    field_simp
    simp
  refine ⟨hq, ?_, hab.2⟩
  rw [backTime_snd, hq]
  cases ts <;> rfl

/-- **Barebones part, negative first onset: the documented shift.**  Without a time signature there
    is no pickup measure; the onsets come back relative to the earliest note `y` (which is at 0). -/
theorem onsets_back_barebones_pickup (ht : Bool) (a : List ARow) (san : Bool) (b : Back)
    (h : fromArrayBack true false ht a none none san = .ok b)
    (hgrid : ∀ r ∈ a, r.onsetBeat.den ≤ 256)
    (hneg : ∃ r ∈ a, r.onsetBeat < 0) :
    ∃ y ∈ a, y.onsetBeat < 0 ∧ (∀ r ∈ a, y.onsetBeat ≤ r.onsetBeat) ∧
      Forall₂ (fun (r : ARow) (n : (Int × Int × Int) × (Rat × Rat)) =>
        n.2.1 = r.onsetBeat - y.onsetBeat ∧ n.2.2 = r.onsetBeat - y.onsetBeat ∧ n.1.2.2 = r.pitch)
      (sortArr false a) b.notes := by
  obtain ⟨l, hdpos, hd, hf, _, hm1, hpick, hnotes⟩ := back_beat_core ht a none san b h hgrid
  obtain ⟨r0, hr0, hr0n⟩ := hneg
  have hlim : ∀ r ∈ a, limitDen r.onsetBeat 256 = r.onsetBeat := fun r hr => limitDen_of_den_le _ _ (hgrid r hr)
  obtain ⟨y', hy', hyneg, hyle, hsh⟩ := beatShift_of_neg (beatRows a)
    ⟨_, beatRows_mem a r0 hr0, by simpa [hlim r0 hr0] using hr0n⟩
  obtain ⟨y, hy, rfl⟩ := mem_beatRows a y' hy'
  simp only [hlim y hy] at hyneg hsh
  have hp : b.pick = 0 := by rw [hpick]; rfl
  have hdq : (b.divs : Rat) ≠ 0 := by
    have : (0 : Rat) < (b.divs : Rat) := by exact_mod_cast hdpos
    exact ne_of_gt this
  refine ⟨y, hy, hyneg, ?_, ?_⟩
  · intro r hr
    have := hyle _ (beatRows_mem a r hr)
    simpa [hlim y hy, hlim r hr] using this
  rw [hnotes, forall₂_map_right_iff]
  refine hf.imp ?_
  intro r x hab
  have hq : (backTime none b.pick b.divs x.1).1 = r.onsetBeat - y.onsetBeat := by
    rw [backTime_fst, hp]
    simp only [Int.sub_zero]
    rw [hab.1, hsh, ← hd]
    field_simp
    ring
  refine ⟨hq, ?_, hab.2⟩
  rw [backTime_snd, hq]
  simp

/-- **An array with division AND beat columns that agree gives its beats back** (an array taken from
    a part with a pickup: `onset_div = divisions × quarters + neg`, beat 0 lies `neg` divisions after
    time 0, some beat is negative, the pickup is shorter than a bar): the pickup measure is `[0, neg)`,
    the triples are copied, and the beat column of the new part's note array is the beat column that
    went in (the quarter column its quarters).  `ht`: the array has time signature columns (then they
    hold the signature's beat type; without them the code takes 4). -/
theorem onsets_back_both (ht : Bool) (a : List ARow) (dv : Option Nat) (s : Nat × Nat) (san : Bool)
    (b : Back) (neg : Int)
    (h : fromArrayBack true true ht a dv (some s) san = .ok b)
    (hd : 0 < b.divs) (hs : 0 < s.2)
    (hcons : ∀ r ∈ a, (r.onsetDiv : Rat) = (b.divs : Rat) * (r.onsetBeat * (4 / (s.2 : Rat))) + (neg : Rat))
    (hcol : if ht then ∀ r ∈ a, r.tsBeatType = (s.2 : Int) else (s.2 : Int) = 4)
    (hneg : ∃ r ∈ a, r.onsetBeat < 0)
    (hshort : (neg : Rat) < barDivs s b.divs) :
    b.anacrusis = neg ∧ b.m1 = some neg ∧
    Forall₂ (fun (r : ARow) (n : (Int × Int × Int) × (Rat × Rat)) =>
        n.1 = divTriple r ∧ n.2.2 = r.onsetBeat ∧ n.2.1 = r.onsetBeat * (4 / (s.2 : Rat)))
      (sortArr true a) b.notes := by
  obtain ⟨l, hfa, hana, hm1, hpick, hnotes⟩ := fromArrayBack_ok true true ht a dv (some s) san b h
  have hl := fromArray_div_eq true ht a dv b.divs l hfa
  have hdq : (0 : Rat) < (b.divs : Rat) := by exact_mod_cast hd
  have hsq : (0 : Rat) < (s.2 : Rat) := by exact_mod_cast hs
  have hmem : ∀ r, r ∈ sortArr true a → r ∈ a := fun r hr => (sortArr_perm true a).mem_iff.mp hr
  have hf : Forall₂ (fun (r : ARow) (x : Int × Int × Int) =>
      (x.1 : Rat) = (b.divs : Rat) * (r.onsetBeat * (4 / (((s.2 : Nat) : Int) : Rat))) + (neg : Rat))
      (sortArr true a) l := by
    rw [hl, forall₂_map_right_iff, forall₂_same]
    intro r hr
    have := hcons r (hmem r hr)
    simpa [divTriple] using this
  have hcol' : if ht then ∀ r ∈ sortArr true a, r.tsBeatType = (s.2 : Int) else (s.2 : Int) = 4 := by
    cases ht with
    | false => simpa using hcol
    | true =>
      simp only [↓reduceIte] at hcol ⊢
      exact fun r hr => hcol r (hmem r hr)
  obtain ⟨r0, hr0, hr0n⟩ := hneg
  have ha : b.anacrusis = neg := by
    rw [hana]
    simp only [↓reduceIte]
    exact anacrusis_consistent ht _ l b.divs (s.2 : Int) neg hd (by exact_mod_cast hs) hf hcol'
      ⟨r0, (sortArr_perm true a).mem_iff.mpr hr0, hr0n⟩
  have hnegpos : 0 < neg := by
    have hx0 : divTriple r0 ∈ l := by
      rw [hl]
      exact mem_map_of_mem (f := divTriple) ((sortArr_perm true a).mem_iff.mpr hr0)
    have h0 := ((fromArray_div true ht a dv b.divs l hfa).2 _ hx0).1
    have h0q : (0 : Rat) ≤ (r0.onsetDiv : Rat) := by exact_mod_cast h0
    have hc := hcons r0 hr0
    have hprod : (b.divs : Rat) * (r0.onsetBeat * (4 / (s.2 : Rat))) < 0 := by
      apply mul_neg_of_pos_of_neg hdq
      apply mul_neg_of_neg_of_pos hr0n
      positivity
    have : (0 : Rat) < (neg : Rat) := by linarith
    exact_mod_cast this
  have hm1' : b.m1 = some neg := by
    rw [hm1, ha]
    unfold firstMeasureEnd
    simp only [hnegpos, ↓reduceIte]
  have hp : b.pick = neg := by
    rw [hpick, hm1']
    unfold pickupDivs
    simp only [hshort, ↓reduceIte]
  refine ⟨ha, hm1', ?_⟩
  rw [hnotes, hl, forall₂_map_right_iff, forall₂_map_right_iff, forall₂_same]
  intro r hr
  have hc := hcons r (hmem r hr)
  have hq : (backTime (some s) b.pick b.divs (divTriple r).1).1 = r.onsetBeat * (4 / (s.2 : Rat)) := by
    rw [backTime_fst, hp]
    push_cast
    show ((r.onsetDiv : Rat) - (neg : Rat)) / (b.divs : Rat) = _
    rw [hc]
    field_simp
    ring
  refine ⟨rfl, ?_, hq⟩
  rw [backTime_snd, hq]
  field_simp

-- ------------------------------------------------------------------ non-vacuity

section Examples

def exA (ob db : Rat) (p : Int) : ARow :=
  { onsetBeat := ob, durBeat := db, onsetDiv := 0, durDiv := 0, pitch := p, tsBeatType := 0 }

/-- a late entry: the voice comes in on the "and" of beat 3 -/
def exLate : List ARow := [exA (5/2) (1/2) 67, exA 3 1 72, exA 4 2 74, exA 6 2 79]

/-- a pickup of 5/6 of a beat -/
def exPickup : List ARow := [exA (-5/6) (5/6) 60, exA 0 1 62, exA 1 4 64, exA 5 2 65]

def summary (r : Except InvErr Back) : Option (Nat × Int × Option Int × Int × List Rat) :=
  match r with
  | .ok b => some (b.divs, b.anacrusis, b.m1, b.pick, b.notes.map (·.2.1))
  | .error _ => none

-- hypotheses of late_entry_not_moved / onsets_back_exact / onsets_back_late_entry are satisfiable:
example : fromArray true false false exLate none = .ok (2, [(5, 1, 67), (6, 2, 72), (8, 4, 74), (12, 4, 79)]) := by
  decide +kernel
example : ∀ r ∈ exLate, r.onsetBeat.den ≤ 256 ∧ r.durBeat.den ≤ 256 ∧ 0 ≤ r.onsetBeat := by decide +kernel
-- barebones, 4/4 sanitized (first bar complete: 8 divisions), 4/4 not sanitized: the onsets come back
example : summary (fromArrayBack true false false exLate none none true) = some (2, 0, none, 0, [5/2, 3, 4, 6]) := by
  decide +kernel
example : summary (fromArrayBack true false false exLate none (some (4, 4)) true) = some (2, 0, some 8, 0, [5/2, 3, 4, 6]) := by
  decide +kernel
example : summary (fromArrayBack true false false exLate none (some (4, 4)) false) = some (2, 0, none, 0, [5/2, 3, 4, 6]) := by
  decide +kernel
-- not covered by onsets_back_late_entry (hypothesis `b.pick = 0` fails): a piece that ends before its first
-- bar line; the only measure is short and the time maps read it as a pickup
example : summary (fromArrayBack true false false [exA (1/2) (1/2) 60] none (some (4, 4)) true) =
    some (2, 0, some 2, 2, [-1/2]) := by decide +kernel

-- hypotheses of pickup_moved_to_zero / pickup_measure_ends_at_beat_zero / onsets_back_pickup:
example : fromArray true false false exPickup none = .ok (6, [(0, 5, 60), (5, 6, 62), (11, 24, 64), (35, 12, 65)]) := by
  decide +kernel
example : summary (fromArrayBack true false false exPickup none (some (4, 4)) true) =
    some (6, 5, some 5, 5, [-5/6, 0, 1, 5]) := by decide +kernel
example : ((5 : Int) : Rat) < barDivs (4, 4) 6 := by decide +kernel
-- onsets_back_barebones_pickup: the documented shift
example : summary (fromArrayBack true false false exPickup none none true) =
    some (6, 5, none, 0, [0, 5/6, 11/6, 35/6]) := by decide +kernel

/-- the same pickup as float32 stores it (`np.float32(-5/6)`, nearer to 0 than -5/6): the divisions
    and onsets are those of -5/6 (limit_denominator), and the rounded rule still ends the pickup
    measure at 5; the truncating rule the code had (fixes/C05-9) ends it at 4 -/
def exPickup32 : List ARow := [exA (-13981013/16777216) (13981013/16777216) 60, exA 0 1 62, exA 1 4 64, exA 5 2 65]
example : summary (fromArrayBack true false false exPickup32 none (some (4, 4)) true) =
    some (6, 5, some 5, 5, [-5/6, 0, 1, 5]) := by decide +kernel
example : truncRat ((0 : Rat) + (0 - (-13981013/16777216)) * 6 * (4 / 4)) = 4 := by decide +kernel

/-- the seeded variant (round 4, change h): `onset_divs -= onset_divs.min()` whatever its sign -/
def beatShiftAlways (rows : List (Rat × Rat)) : Int :=
  match minList ((limited rows).map fun f => truncRat ((beatDivs rows : Rat) * f.1)) with
  | some m => -m
  | none => 0

-- it moves the late entry to time 0; `beatShift` does not (late_entry_not_moved)
example : beatShiftAlways (beatRows exLate) = -5 ∧ beatShift (beatRows exLate) = 0 := by decide +kernel
-- on arrays with a pickup the two agree, which is why the existing examples did not see it
example : beatShiftAlways (beatRows exPickup) = 5 ∧ beatShift (beatRows exPickup) = 5 := by decide +kernel

/-- an array with both kinds of columns taken from a part in 6/8 with a pickup of one eighth
    (2 divisions per quarter): hypotheses of onsets_back_both with neg = 1 -/
def exBoth : List ARow :=
  [{ onsetBeat := -1, durBeat := 1, onsetDiv := 0, durDiv := 1, pitch := 60, tsBeatType := 8 },
   { onsetBeat := 0, durBeat := 3, onsetDiv := 1, durDiv := 3, pitch := 62, tsBeatType := 8 },
   { onsetBeat := 3, durBeat := 3, onsetDiv := 4, durDiv := 3, pitch := 64, tsBeatType := 8 }]
example : summary (fromArrayBack true true true exBoth none (some (6, 8)) true) =
    some (2, 1, some 1, 1, [-1/2, 0, 3/2]) := by decide +kernel
example : (match fromArrayBack true true true exBoth none (some (6, 8)) true with
    | .ok b => some (b.notes.map (·.2.2))
    | .error _ => none) = some [-1, 0, 3] := by decide +kernel
example : ∀ r ∈ exBoth, (r.onsetDiv : Rat) = (2 : Rat) * (r.onsetBeat * (4 / 8)) + 1 := by decide +kernel

end Examples

end C05
