/-
C17 — obligations over the tables regenerated from the source on every run (Gen.Ps13Tables, Gen.C17Tables,
Gen.Tables): that the translators could READ the source, and whole-table facts the model relies on.
Every theorem here is a kernel evaluation of a whole finite table.
-/
import PartituraModel.Model.Ps13
import PartituraModel.Model.KeyEst
import PartituraModel.Model.C17Wrap

namespace C17
open Model Gen

/-! ### the translators understood the source -/

/-- every table of pitch_spelling.py was extracted from the live source (none holds a pinned, last known
    value): fails to build, naming this theorem, when compute_morph_array / ps13s1 no longer have a shape
    the translator can read -/
theorem ps13_tables_extracted : PS13_PINNED = [] := by decide

/-- the same for the option / name tables of the three wrappers -/
theorem c17_tables_extracted : C17_PINNED = [] := by decide

/-! ### ps13 tables -/

/-- `STEPS` are the seven letters from A, `UND_CHROMA` their chromas above A: strictly increasing inside
    one octave, starting at 0 — `p2pn`'s alteration is a displacement from the right natural -/
theorem ps13_step_tables :
    PS13_STEPS = ["A", "B", "C", "D", "E", "F", "G"] ∧ PS13_UND_CHROMA.length = 7 ∧
    PS13_UND_CHROMA.head? = some 0 ∧ PS13_UND_CHROMA.Pairwise (· < ·) ∧ ∀ x ∈ PS13_UND_CHROMA, 0 ≤ x ∧ x < 12 := by
  decide

/-- both morph tables have 12 entries, start at morph 0 for the unison, stay within the 7 morphs and never
    decrease; and they are NOT the same table: they differ exactly at the tritone (chroma 6 above A is E flat as
    a first note, morph 4, but an augmented fourth as an interval, 3 steps) — merging them is a change of
    behaviour -/
theorem ps13_morph_tables :
    PS13_INIT_MORPH.length = 12 ∧ PS13_MORPH_INT.length = 12 ∧
    PS13_INIT_MORPH.head? = some 0 ∧ PS13_MORPH_INT.head? = some 0 ∧
    (∀ x ∈ PS13_INIT_MORPH, 0 ≤ x ∧ x < 7) ∧ (∀ x ∈ PS13_MORPH_INT, 0 ≤ x ∧ x < 7) ∧
    PS13_INIT_MORPH.Pairwise (· ≤ ·) ∧ PS13_MORPH_INT.Pairwise (· ≤ ·) ∧
    (∀ k : Fin 12, Ps13.initMorph k.val = Ps13.morphInt k.val ↔ k.val ≠ 6) := by
  decide

/-- the first note is spelled with at most ONE accidental whatever its chroma (whole table):
    `init_morph` names a natural or a single sharp/flat -/
theorem ps13_first_note_single_acc : ∀ c : Fin 12,
    -1 ≤ (c.val : Int) - Ps13.undChroma (Ps13.initMorph c.val) ∧
    (c.val : Int) - Ps13.undChroma (Ps13.initMorph c.val) ≤ 1 := by
  decide

/-! ### key profile matrices -/

/-- the matrix a profile set stands for in key_identification.py -/
def matrixName : KeyEst.ProfileSet → String
  | .kk => "KRUMHANSL_KESSLER" | .cbms => "CMBS" | .kp => "KOSTKA_PAYNE"

/-- entry (i, j) of the live matrix of a profile set; `none` = the matrix or the entry does not exist -/
def liveEntry (ps : KeyEst.ProfileSet) (i j : Nat) : Option Rat :=
  (lookup (matrixName ps) KEY_MATRICES).bind fun m => (m[i]?).bind fun row => row[j]?

/-- the LIVE matrices (24 × 12, as `build_key_profile_matrix` left them at import) are, entry by entry, the
    rotations the model computes by formula: rows 0-11 the major profile and rows 12-23 the minor profile of the
    set, row i rotated so that its tonic sits at pitch class i mod 12 (all 3 × 24 × 12 entries, kernel-evaluated;
    `circulant(..).transpose()`, the `vstack` order and which vectors feed which matrix are no longer mirrored
    by hand) -/
theorem key_matrix_is_model : ∀ ps ∈ C17Wrap.allSets, ∀ i : Fin 24, ∀ j : Fin 12,
    liveEntry ps i.val j.val = some (KeyEst.keyProfile ps i.val j.val) := by
  decide +kernel

/-- and the matrices have no further rows or columns: exactly 24 rows of exactly 12 entries, three matrices -/
theorem key_matrix_shape :
    KEY_MATRICES.map (·.1) = KEY_MATRIX_ARGS.map (·.1) ∧
    ∀ m ∈ KEY_MATRICES, m.2.length = 24 ∧ ∀ row ∈ m.2, row.length = 12 := by
  decide +kernel

/-- every profile vector has 12 strictly positive entries (so no pitch class is ignored and the normalisation
    `key_prof /= sum` of build_key_profile_matrix never divides by zero) -/
theorem key_profiles_positive : ∀ ps ∈ C17Wrap.allSets,
    (KeyEst.majorProfile ps).length = 12 ∧ (KeyEst.minorProfile ps).length = 12 ∧
    (∀ x ∈ KeyEst.majorProfile ps, 0 < x) ∧ (∀ x ∈ KeyEst.minorProfile ps, 0 < x) := by
  decide +kernel

/-- `KEYS` lists 24 keys: 12 major then 12 minor -/
theorem keys_table_shape :
    KEYS.length = 24 ∧ (∀ k ∈ KEYS.take 12, k.2.1 = "major") ∧ (∀ k ∈ KEYS.drop 12, k.2.1 = "minor") := by
  decide

end C17
