/-
C08 (round 6) — the `OnsetInBeats` FALLBACK of `part_from_matchfile` in the composition, and defect F-C08-19.

`part_from_matchfile` computes every onset twice: from measure:beat + offset (`onset_divs`) and from the four-decimal
`OnsetInBeats` through the beats→quarters map (`onset_in_divs`); when the two differ by more than
`np.isclose(atol = divs/100)` allows it keeps the second.  `roundtrip_onsets` (Props/C08Compose.lean) speaks only about the
notes on which that fallback did not fire.  Here:

* `reconstruct_onset_spec`  for EVERY input: which two numbers the reader compares for each note, which it keeps, and the
                            flag it records;
* `fallback_quiet`          pure arithmetic: two positions whose beat times were rounded to four decimals pass the test;
* `roundtrip_onsets_exact`  end to end: under the hypotheses of `roundtrip_onsets` the fallback fires on NO note and every
                            loaded onset is exactly the saved distance from the loaded origin.

The first attempt at this proof needed one more hypothesis: that the first line in the reader's order (`sort_snotes`: by
measure, beat, offset) carries the smallest written beat time — the code said so in a comment
(`min_time = snotes[0].OnsetInBeats  # sorted by OnsetInBeats`).  It is true for scores whose time signatures change at
measure starts only (`first_line_is_earliest`) and FALSE otherwise (`first_line_not_earliest`: 6/8 changing to 4/4 inside a
bar - the beat number of a note is counted in the beat type in force at the note); there the unrepaired reader shifted
every note and the fallback replaced both onsets by wrong ones (witness corpus/C08/w-C08-19.json).  Fix C08-19 takes the
minimum; the model mirrors it, the hypothesis is gone, and `repair_conservative` states that on laid-out scores the
repaired reader computes what the unrepaired one did.
-/
import PartituraModel.Model.MatchTime
import PartituraModel.Proofs.C08
import PartituraModel.Proofs.C08Sort
import PartituraModel.Proofs.C08Compose
import PartituraModel.Proofs.C08Mixed
import PartituraModel.Proofs.C08Fallback
import PartituraModel.Props.C08
import PartituraModel.Props.C08Mixed
import PartituraModel.Props.C08Compose
import Mathlib.Tactic.Ring
import Mathlib.Tactic.FieldSimp
import Mathlib.Tactic.Linarith

namespace C08
open Model Model.MatchTime

/-- `onset_in_divs` of a line `n`: the beats→quarters map at its `OnsetInBeats`, relative to the smallest
    `OnsetInBeats` of the file (the fold starts from the first line in the reader's order), plus the padding before an earliest
    note that starts after beat 0 -/
def readerOid (raw : List SNote) (ts : List TSLine) (divs : Nat) (first n : SNote) : Rat :=
  (divs : Rat) * (beatsToQuarters ts n.onsetB
      - beatsToQuarters ts (((sortedNotes raw).map (·.2.onsetB)).foldl min first.onsetB))
    + (if beatsToQuarters ts (((sortedNotes raw).map (·.2.onsetB)).foldl min first.onsetB) > 0
       then beatsToQuarters ts (((sortedNotes raw).map (·.2.onsetB)).foldl min first.onsetB) * (divs : Rat) else 0)

/-- **reconstruct_onset_spec.**  Whenever `reconstruct` succeeds (any snotes, any signature lines), with `first` the first
    line in the reader's order and `nmin` the earliest line: the shift is `min(map(nmin), 0)`, and every loaded note `(i, onset, _)` is made from line
    `i` (`n`) and the first line `n₁` of its bar: the reader compares `round(divs · notePos …)` with `readerOid`, keeps
    the former iff `isClose` accepts the pair, and records in `r.fallback` (one flag per note) whether it did not. -/
theorem reconstruct_onset_spec (raw : List SNote) (ts : List TSLine) (ks : List (Rat × Int)) (r : Recon)
    (h : reconstruct raw ts ks = some r) :
    ∃ first nmin, (sortedNotes raw).head? = some first ∧ nmin ∈ raw
      ∧ ((sortedNotes raw).map (·.2.onsetB)).foldl min first.2.onsetB = nmin.onsetB
      ∧ r.shiftQ = min (beatsToQuarters ts nmin.onsetB) 0
      ∧ r.notes.length = r.fallback.length
      ∧ ∀ yb ∈ r.notes.zip r.fallback, ∃ n n₁ : SNote, raw[yb.1.1]? = some n
        ∧ firstOfBar (sortedNotes raw) n.measure = some n₁ ∧ n₁.measure = n.measure ∧ n₁ ∈ raw
        ∧ yb.2 = (!isClose ((roundHalfEven ((r.divs : Rat) * notePos (barTime ts (readerMaxTime raw ts) n₁) n.beat
                        (denAtBeats ts (readerMaxTime raw ts) n.onsetB) n.offset.val r.shiftQ) : Int) : Rat)
                      (readerOid raw ts r.divs first.2 n) ((r.divs : Rat) / 100))
        ∧ yb.1.2.1 = (if (!isClose ((roundHalfEven ((r.divs : Rat) * notePos (barTime ts (readerMaxTime raw ts) n₁) n.beat
                        (denAtBeats ts (readerMaxTime raw ts) n.onsetB) n.offset.val r.shiftQ) : Int) : Rat)
                      (readerOid raw ts r.divs first.2 n) ((r.divs : Rat) / 100)) = true
                   then readerOid raw ts r.divs first.2 n
                   else ((roundHalfEven ((r.divs : Rat) * notePos (barTime ts (readerMaxTime raw ts) n₁) n.beat
                        (denAtBeats ts (readerMaxTime raw ts) n.onsetB) n.offset.val r.shiftQ) : Int) : Rat)) := by
  unfold reconstruct at h
  simp only [Option.bind_eq_bind, Option.bind_eq_some_iff, Option.pure_def, Option.some.injEq] at h
  obtain ⟨first, hfirst, _, _, bars, hb, notesFb, hn, _, _, _, _, _, _, hr⟩ := h
  have hmax : closingTime ((sortSNotes ((List.range raw.length).zip raw)).map (·.2.offsetB)) first.2.offsetB ts
      = readerMaxTime raw ts := by
    unfold readerMaxTime sortedNotes
    rw [hfirst]
  simp only [hmax] at hb hn hr
  have hraw_of_sorted : ∀ p ∈ sortedNotes raw, raw[p.1]? = some p.2 ∧ p.2 ∈ raw := by
    intro p hp
    have hp' : p ∈ (List.range raw.length).zip raw := C08S.mem_sortBy.mp hp
    have h1 := C08C.mem_zip_range raw p.1 p.2 hp'
    exact ⟨h1, List.mem_of_getElem? h1⟩
  have hbars : ∀ bq ∈ bars, ∃ n₁, firstOfBar (sortedNotes raw) bq.1 = some n₁
      ∧ bq.2 = barTime ts (readerMaxTime raw ts) n₁ := by
    intro bq hbq
    obtain ⟨b, _, hfb⟩ := C08C.mapM_mem _ _ _ hb bq hbq
    cases hf : firstOfBar (sortSNotes ((List.range raw.length).zip raw)) b with
    | none => simp [hf] at hfb
    | some n₁ =>
      simp only [hf, Option.bind_some, Option.some.injEq] at hfb
      subst hfb
      exact ⟨n₁, hf, rfl⟩
  subst hr
  have hfraw := (hraw_of_sorted first (List.mem_of_mem_head? hfirst)).2
  obtain ⟨hin, _, _⟩ := C08F.foldl_min_spec ((sortedNotes raw).map (·.2.onsetB)) first.2.onsetB
  obtain ⟨nmin, hnmin, hminB⟩ : ∃ nmin, nmin ∈ raw
      ∧ ((sortedNotes raw).map (·.2.onsetB)).foldl min first.2.onsetB = nmin.onsetB := by
    rcases hin with h0 | h0
    · exact ⟨first.2, hfraw, h0⟩
    · obtain ⟨p, hp, hpe⟩ := List.mem_map.mp h0
      exact ⟨p.2, (hraw_of_sorted p hp).2, hpe.symm⟩
  refine ⟨first, nmin, hfirst, hnmin, hminB, ?_, ?_, ?_⟩
  · rw [← hminB]
    unfold sortedNotes
    simp only
    split
    · rename_i hpos; rw [min_eq_right (le_of_lt hpos)]
    · rename_i hnp; rw [min_eq_left (not_lt.mp hnp)]
  · show (notesFb.map (·.1)).length = (notesFb.map (·.2)).length
    simp only [List.length_map]
  · intro yf hyf
    change yf ∈ (notesFb.map (·.1)).zip (notesFb.map (·.2)) at hyf
    rw [C08F.zip_fst_snd] at hyf
    obtain ⟨p, hp, hfp⟩ := C08C.mapM_mem _ _ _ hn yf hyf
    obtain ⟨hrawp, _⟩ := hraw_of_sorted p hp
    cases hl : lookup p.2.measure bars with
    | none => simp [hl] at hfp
    | some bt =>
      simp only [hl, Option.bind_some, Option.some.injEq] at hfp
      obtain ⟨n₁, hf1, hbt⟩ := hbars _ (C08C.lookup_mem _ _ _ hl)
      obtain ⟨hm1, j, hj⟩ := C08C.firstOfBar_spec _ _ _ hf1
      have hn1raw := (hraw_of_sorted (j, n₁) hj).2
      simp only at hbt
      subst hbt
      subst hfp
      exact ⟨p.2, n₁, hrawp, hf1, hm1, hn1raw, rfl, rfl⟩

/-- **fallback_quiet.**  `D` divisions; a note truly `Qo` quarters and the first note truly `Qf` quarters from beat 0;
    the reader's map gives `Qo + eo` and `Qf + ef` (the four-decimal rounding of the two beat times, each at most
    `1/5000` quarter).  Then the position computed from measure:beat + offset, when it is the exact one, passes the
    reader's `isClose(atol = divs/100)` test against `onset_in_divs`: the fallback does not fire. -/
theorem fallback_quiet (D : Nat) (Qo Qf eo ef : Rat) (heo : |eo| ≤ 1 / 5000) (hef : |ef| ≤ 1 / 5000) :
    isClose ((D : Rat) * (Qo - min Qf 0))
      ((D : Rat) * ((Qo + eo) - (Qf + ef)) + (if Qf + ef > 0 then (Qf + ef) * (D : Rat) else 0))
      ((D : Rat) / 100) = true := by
  have hD : (0 : Rat) ≤ (D : Rat) := by positivity
  have hoid : (D : Rat) * ((Qo + eo) - (Qf + ef)) + (if Qf + ef > 0 then (Qf + ef) * (D : Rat) else 0)
      = (D : Rat) * ((Qo + eo) - min (Qf + ef) 0) := by
    split
    · rename_i hp; rw [min_eq_right (le_of_lt hp)]; ring
    · rename_i hp; rw [min_eq_left (not_lt.mp hp)]; ring
  rw [hoid]
  unfold isClose
  rw [decide_eq_true_eq, C08F.absR_eq_abs, C08F.absR_eq_abs]
  have hlip := C08M.min_zero_lipschitz (Qf + ef) Qf
  have hsimp : Qf + ef - Qf = ef := by ring
  rw [hsimp] at hlip
  have hdiff : (D : Rat) * (Qo - min Qf 0) - (D : Rat) * ((Qo + eo) - min (Qf + ef) 0)
      = (D : Rat) * ((min (Qf + ef) 0 - min Qf 0) - eo) := by ring
  rw [hdiff, abs_mul, abs_of_nonneg hD]
  have h1 : |min (Qf + ef) 0 - min Qf 0 - eo| ≤ 2 / 5000 := by
    have := abs_sub (min (Qf + ef) 0 - min Qf 0) eo
    linarith
  have h2 : (D : Rat) * |min (Qf + ef) 0 - min Qf 0 - eo| ≤ (D : Rat) * (2 / 5000) :=
    mul_le_mul_of_nonneg_left h1 hD
  have h3 : (0 : Rat) ≤ |(D : Rat) * ((Qo + eo) - min (Qf + ef) 0)| / 100000 := by positivity
  linarith

/-- **roundtrip_onsets_exact.**  End to end, under the hypotheses of `roundtrip_onsets` (nothing more, since fix C08-19): the `OnsetInBeats` fallback fires on NO note (every flag of
    `r.fallback`, one per note, is false), and EVERY loaded note sits exactly `reader's divisions × (saved distance in
    quarters from the loaded origin)`. -/
theorem roundtrip_onsets_exact (sc : Score) (wf : WrittenScore sc) (stored : List (Int × Int)) (ks : List (Int × Nat))
    (r : Recon) (h : sc.roundTrip stored ks = some r)
    (mnum : Int → Int) (hTS : sc.readTS = sc.tsLines mnum)
    (s0 : TSig) (rest : List TSig) (hts : sc.ts = s0 :: rest)
    (hafter : ∀ p ∈ stored, s0.t ≤ p.1)
    (hexact : ∀ x ∈ rest, dec4 (sc.beats x.t) = sc.beats x.t)
    (hD : r.divs < 1250)
    (hgrid : ∀ p ∈ stored, ∀ q ∈ stored, ∃ z : Int,
      (r.divs : Rat) * (sc.quarters p.1 - min (sc.quarters q.1) 0) = (z : Rat)) :
    ∃ of dfirst, (of, dfirst) ∈ stored ∧ r.notes.length = r.fallback.length
      ∧ ∀ yb ∈ r.notes.zip r.fallback, ∃ o d, stored[yb.1.1]? = some (o, d)
        ∧ yb.1.2.1 = (r.divs : Rat) * (sc.quarters o - min (sc.quarters of) 0) ∧ yb.2 = false := by
  obtain ⟨sts, hsts, hrec⟩ := roundTrip_lines sc stored ks r h
  obtain ⟨first, nmin, hfirsthead, hnminraw, hminB, hshift, hlen, hnotes⟩ := reconstruct_onset_spec _ _ _ r hrec
  set M := readerMaxTime (sts.map STime.toSNote) sc.readTS with hM
  have hMge : ∀ s, sc.ts.getLast? = some s → dec4 (sc.beats s.t) ≤ M := by
    intro s hs
    have hl : sc.readTS.getLast? = some (C08M.tsLineOf sc.beats mnum s) := by
      rw [hTS, C08M.tsLines_eq, List.getLast?_map, hs]; rfl
    have hge := closingTime_ge_last ((sortedNotes (sts.map STime.toSNote)).map (·.2.offsetB)) first.2.offsetB sc.readTS _ hl
    rw [hM]; unfold readerMaxTime; rw [hfirsthead]; exact hge
  have hend : ∀ p ∈ stored, ∀ sk, tsAt sc.ts p.1 = some sk → dec4 (sc.beats p.1) < M ∨ sc.ts.getLast? = some sk :=
    fun p hp sk hat => written_note_before_closing_point sc wf s0 rest hts p.1 (hafter p hp) sk hat M hMge
  have line_of : ∀ n : SNote, n ∈ sts.map STime.toSNote → ∃ (o d : Int) (mi : Nat) (m : Meas) (s : TSig), (o, d) ∈ stored ∧ sc.ms[mi]? = some m
      ∧ tsAt sc.ts o = some s ∧ n.measure = sc.firstMeasureNumber + mi
      ∧ n.beat = encBeat sc.divs s.den (o - m.s) + 1 ∧ n.offset = Frac.ofRat (encOffset sc.divs s.den (o - m.s))
      ∧ n.onsetB = dec4 (sc.beats o) := by
    intro n hn
    obtain ⟨st, hst, rfl⟩ := List.mem_map.mp hn
    obtain ⟨j, hj⟩ := List.mem_iff_getElem?.mp hst
    obtain ⟨o, d, mi, hsto, _, henc⟩ := stored_line sc stored sts hsts j st hj
    obtain ⟨m, s, hm, hs, h1, h2, h3, _, h5, _⟩ := encode_fields sc mi o d st henc
    exact ⟨o, d, mi, m, s, List.mem_of_getElem? hsto, hm, hs, h1, by simp [STime.toSNote, h2],
      by simp [STime.toSNote, h3], by simp [STime.toSNote, h5]⟩
  -- the earliest line
  obtain ⟨of, dfirst, _, _, sf, hofmem, _, hsf, _, _, _, hfon⟩ := line_of nmin hnminraw
  refine ⟨of, dfirst, hofmem, hlen, ?_⟩
  intro y hy
  obtain ⟨n, n₁, hraw, _, hmeas, hn1raw, hfb, honset⟩ := hnotes y hy
  have hnraw : n ∈ sts.map STime.toSNote := List.mem_of_getElem? hraw
  rw [List.getElem?_map] at hraw
  cases hst : sts[y.1.1]? with
  | none => simp [hst] at hraw
  | some st =>
    simp only [hst, Option.map_some, Option.some.injEq] at hraw
    obtain ⟨o, d, mi, hsto, _, henc⟩ := stored_line sc stored sts hsts y.1.1 st hst
    obtain ⟨m, s, hm, hs, hnm, hnb, hno, _, hnon, _⟩ := encode_fields sc mi o d st henc
    have homem : (o, d) ∈ stored := List.mem_of_getElem? hsto
    obtain ⟨o₁, d₁, mj, m₁, s₁, ho1mem, hm1, hs1, hn1m, hn1b, hn1o, hn1on⟩ := line_of n₁ hn1raw
    have hmij : mj = mi := by
      have : n.measure = sc.firstMeasureNumber + mi := by rw [← hraw]; simp [STime.toSNote, hnm]
      rw [hn1m, this] at hmeas
      omega
    subst hmij
    have hmm : m₁ = m := by rw [hm] at hm1; exact (Option.some.inj hm1).symm
    subst hmm
    refine ⟨o, d, hsto, ?_⟩
    have hon : n.onsetB = dec4 (sc.beats o) := by rw [← hraw]; simp [STime.toSNote, hnon]
    have hwritten : (roundHalfEven ((r.divs : Rat) * notePos (barTime sc.readTS M n₁) n.beat
        (denAtBeats sc.readTS M n.onsetB) n.offset.val r.shiftQ) : Int)
        = (roundHalfEven ((r.divs : Rat) * notePos (barTime (sc.tsLines mnum) M n₁) (encBeat sc.divs s.den (o - m₁.s) + 1) s.den
            (Frac.ofRat (encOffset sc.divs s.den (o - m₁.s))).val
            (min (beatsToQuarters (sc.tsLines mnum) (dec4 (sc.beats of))) 0)) : Int) := by
      have hb : n.beat = encBeat sc.divs s.den (o - m₁.s) + 1 := by rw [← hraw]; simp [STime.toSNote, hnb]
      have hoff : n.offset = Frac.ofRat (encOffset sc.divs s.den (o - m₁.s)) := by rw [← hraw]; simp [STime.toSNote, hno]
      rw [hshift, hTS, hb, hoff, hon, hfon,
        denAt_written sc wf mnum s0 rest hts o (hafter _ homem) s hs M (hend _ homem s hs)]
    obtain ⟨z, hz⟩ := hgrid (o, d) homem (of, dfirst) hofmem
    have hk1 : knotErr sc.beats sc.ts o₁ = 0 := by rw [hts]; exact C08M.knotErr_exact sc.beats rest s0 o₁ hexact
    have hkf : knotErr sc.beats sc.ts of = 0 := by rw [hts]; exact C08M.knotErr_exact sc.beats rest s0 of hexact
    have hko : knotErr sc.beats sc.ts o = 0 := by rw [hts]; exact C08M.knotErr_exact sc.beats rest s0 o hexact
    have hmem_of_at : ∀ (t : Int) (sk : TSig), s0.t ≤ t → tsAt sc.ts t = some sk → 0 < sk.den := by
      intro t sk ht hat
      have hpw := C08M.PW_score sc wf.sorted
      have hsorted := wf.sorted
      have hden := wf.den_pos
      have hat' := hat
      rw [hts] at hpw hsorted hden hat'
      have hats := C08M.hats_of_small_divs sc.divs wf.divs_pos wf.divs_small sc.beats rest s0 hsorted hpw hden
      have hseg := C08M.segOK_of_small_divs sc.divs wf.divs_pos wf.divs_small sc.beats rest s0 hsorted hpw hden t ht
      exact hden sk (C08M.seg_facts sc.beats rest s0 hats t (dec4 (sc.beats t)) sk hseg hat').1
    have hs1pos := hmem_of_at o₁ s₁ (hafter _ ho1mem) hs1
    have hsfpos := hmem_of_at of sf (hafter _ hofmem) hsf
    have hspos := hmem_of_at o s (hafter _ homem) hs
    have hbound : (r.divs : Rat) * ((1 / (5000 * (s₁.den : Rat)) + |knotErr sc.beats sc.ts o₁|)
        + (1 / (5000 * (sf.den : Rat)) + |knotErr sc.beats sc.ts of|)) < 1 / 2 := by
      rw [hk1, hkf, abs_zero, add_zero, add_zero]
      have h1 : (1 : Rat) / (5000 * (s₁.den : Rat)) ≤ 1 / 5000 := by
        apply div_le_div_of_nonneg_left (by norm_num) (by norm_num)
        have : (1 : Rat) ≤ (s₁.den : Rat) := by exact_mod_cast hs1pos
        linarith
      have h2 : (1 : Rat) / (5000 * (sf.den : Rat)) ≤ 1 / 5000 := by
        apply div_le_div_of_nonneg_left (by norm_num) (by norm_num)
        have : (1 : Rat) ≤ (sf.den : Rat) := by exact_mod_cast hsfpos
        linarith
      have hDr : (r.divs : Rat) < 1250 := by exact_mod_cast hD
      have hDnn : (0 : Rat) ≤ (r.divs : Rat) := by positivity
      nlinarith
    have hq : sc.quarters m₁.s + ((o - m₁.s : Int) : Rat) / (sc.divs : Rat) = sc.quarters o := by
      unfold Score.quarters
      rw [hts]
      simp only
      push_cast
      ring
    have hexactz := onset_roundtrip sc wf mnum s0 rest hts of (hafter _ hofmem) sf hsf m₁.s o₁ (hafter _ ho1mem) s₁ hs1 M n₁
      hn1b hn1o hn1on (by rw [hn1on]; exact hend _ ho1mem s₁ hs1) (o - m₁.s) s.den hspos r.divs hbound z (by rw [hq]; exact hz)
    -- what the reader compares it with
    have hqo := quarters_recovered sc wf mnum s0 rest hts o (hafter _ homem) s hs
    have hqf := quarters_recovered sc wf mnum s0 rest hts of (hafter _ hofmem) sf hsf
    rw [hko, add_zero] at hqo
    rw [hkf, add_zero] at hqf
    have hoid : readerOid (sts.map STime.toSNote) sc.readTS r.divs first.2 n
        = (r.divs : Rat) * ((sc.quarters o + 4 * (dec4 (sc.beats o) - sc.beats o) / (s.den : Rat))
            - (sc.quarters of + 4 * (dec4 (sc.beats of) - sc.beats of) / (sf.den : Rat)))
          + (if sc.quarters of + 4 * (dec4 (sc.beats of) - sc.beats of) / (sf.den : Rat) > 0
             then (sc.quarters of + 4 * (dec4 (sc.beats of) - sc.beats of) / (sf.den : Rat)) * (r.divs : Rat) else 0) := by
      unfold readerOid
      rw [hminB, hTS, hon, hfon, hqo, hqf]
    have hclose := fallback_quiet r.divs (sc.quarters o) (sc.quarters of)
      (4 * (dec4 (sc.beats o) - sc.beats o) / (s.den : Rat)) (4 * (dec4 (sc.beats of) - sc.beats of) / (sf.den : Rat))
      (C08F.beat_rounding_small _ _ hspos) (C08F.beat_rounding_small _ _ hsfpos)
    rw [← hoid, hz] at hclose
    rw [hwritten, hexactz, hclose] at honset hfb
    refine ⟨?_, by rw [hfb]; rfl⟩
    rw [honset, ← hz]
    simp

/-- the layout of the measures of a score as scores are written: the measures follow each other without overlap, and
    time signatures change at measure starts only (none strictly inside a measure) -/
structure LaidOut (sc : Score) : Prop where
  chain : sc.ms.Pairwise (fun a b => a.e ≤ b.s)
  ts_at_bars : ∀ m ∈ sc.ms, ∀ s ∈ sc.ts, s.t ≤ m.s ∨ m.e ≤ s.t

example : LaidOut exampleScore := ⟨by decide, by decide⟩

/-- **first_line_is_earliest.**  (What the unrepaired reader assumed: `snotes[0]` is the earliest note.)  For a written
    score whose measures are laid out as above and stored notes at or after the first time signature: the line that `sort_snotes` puts first
    (smallest measure number, then beat, then offset) is a note with the smallest onset, hence carries the smallest
    four-decimal beat time of the file. -/
theorem first_line_is_earliest (sc : Score) (wf : WrittenScore sc) (lo : LaidOut sc) (stored : List (Int × Int))
    (s0 : TSig) (rest : List TSig) (hts : sc.ts = s0 :: rest) (hafter : ∀ p ∈ stored, s0.t ≤ p.1) :
    ∀ sts first, sc.storedLines stored = some sts →
      (sortedNotes (sts.map STime.toSNote)).head? = some first → ∀ st ∈ sts, first.2.onsetB ≤ dec4 st.onsetB := by
  intro sts first hsts hhead st hst
  -- the line of `st` and the first line, as pairs of the reader's list
  obtain ⟨j, hj⟩ := List.mem_iff_getElem?.mp hst
  have hjmap : (sts.map STime.toSNote)[j]? = some (STime.toSNote st) := by rw [List.getElem?_map, hj]; rfl
  have hle := C08F.head_le_all _ first hhead (j, STime.toSNote st) (C08C.zip_range_mem _ j _ hjmap)
  have hfmem : first ∈ (List.range (sts.map STime.toSNote).length).zip (sts.map STime.toSNote) :=
    C08S.mem_sortBy.mp (List.mem_of_mem_head? hhead)
  have hf1 := C08C.mem_zip_range _ first.1 first.2 hfmem
  rw [List.getElem?_map] at hf1
  cases hstf : sts[first.1]? with
  | none => simp [hstf] at hf1
  | some stf =>
    simp only [hstf, Option.map_some, Option.some.injEq] at hf1
    obtain ⟨of, df, mif, hstof, hmof, hencf⟩ := stored_line sc stored sts hsts first.1 stf hstf
    obtain ⟨o, d, mi, hsto, hmo, henc⟩ := stored_line sc stored sts hsts j st hj
    obtain ⟨mf, sf, hmf, hsf, hfm, hfb, hfo, _, hfon, _⟩ := encode_fields sc mif of df stf hencf
    obtain ⟨m, s, hm, hs, hnm, hnb, hno, _, hnon, _⟩ := encode_fields sc mi o d st henc
    obtain ⟨mf', hmf', hmfs, hmfe⟩ := C08F.measureOf_spec sc of mif hmof
    obtain ⟨m', hm', hms, hme⟩ := C08F.measureOf_spec sc o mi hmo
    have e1 : mf' = mf := by rw [hmf] at hmf'; exact (Option.some.inj hmf').symm
    have e2 : m' = m := by rw [hm] at hm'; exact (Option.some.inj hm').symm
    subst e1; subst e2
    have hofa := hafter _ (List.mem_of_getElem? hstof)
    have hoa := hafter _ (List.mem_of_getElem? hsto)
    -- positive beat types
    have hmem_of_at : ∀ (t : Int) (sk : TSig), s0.t ≤ t → tsAt sc.ts t = some sk → 0 < sk.den := by
      intro t sk ht hat
      have hpw := C08M.PW_score sc wf.sorted
      have hsorted := wf.sorted
      have hden := wf.den_pos
      have hat' := hat
      rw [hts] at hpw hsorted hden hat'
      have hats := C08M.hats_of_small_divs sc.divs wf.divs_pos wf.divs_small sc.beats rest s0 hsorted hpw hden
      have hseg := C08M.segOK_of_small_divs sc.divs wf.divs_pos wf.divs_small sc.beats rest s0 hsorted hpw hden t ht
      exact hden sk (C08M.seg_facts sc.beats rest s0 hats t (dec4 (sc.beats t)) sk hseg hat').1
    have hspos := hmem_of_at o s hoa hs
    -- the order of the keys gives the order of the onsets
    have hoo : of ≤ o := by
      rw [C08F.snLe_iff] at hle
      simp only [← hf1, STime.toSNote, hfm, hnm, hfb, hnb, hfo, hno] at hle
      rcases hle with hlt | ⟨heq, hkey⟩
      · have hij : mif < mi := by omega
        have hlen : mi < sc.ms.length := by
          rcases Nat.lt_or_ge mi sc.ms.length with h | h
          · exact h
          · rw [List.getElem?_eq_none h] at hm; cases hm
        have hrel := (List.pairwise_iff_getElem.mp lo.chain) mif mi (by omega) hlen hij
        have g1 : sc.ms[mif]'(by omega) = mf' := by
          have := List.getElem?_eq_getElem (l := sc.ms) (i := mif) (by omega)
          rw [this] at hmf; exact Option.some.inj hmf
        have g2 : sc.ms[mi]'hlen = m' := by
          have := List.getElem?_eq_getElem (l := sc.ms) (i := mi) hlen
          rw [this] at hm; exact Option.some.inj hm
        rw [g1, g2] at hrel
        omega
      · have hij : mif = mi := by omega
        subst hij
        have e3 : mf' = m' := by rw [hmf] at hm; exact Option.some.inj hm
        subst e3
        have hconst := C08F.tsAt_const sc.ts mf'.s mf'.e of o
          (lo.ts_at_bars mf' (List.mem_of_getElem? hmf)) hmfs hmfe hms hme
        rw [hsf, hs] at hconst
        have e4 : sf = s := Option.some.inj hconst
        subst e4
        rw [C08P.Frac.ofRat_val _ (C08P.enc_offset_range sc.divs sf.den wf.divs_pos hspos _).1,
          C08P.Frac.ofRat_val _ (C08P.enc_offset_range sc.divs sf.den wf.divs_pos hspos _).1] at hkey
        have hrel := C08F.rel_le_of_key_le sc.divs sf.den wf.divs_pos hspos (of - mf'.s) (o - mf'.s)
          (by rcases hkey with h | ⟨h, h'⟩
              · left; omega
              · right; exact ⟨by omega, h'⟩)
        omega
    -- monotone beat count, monotone rounding
    have hpw := C08M.PW_score sc wf.sorted
    have hsorted := wf.sorted
    have hden := wf.den_pos
    rw [hts] at hpw hsorted hden
    have hmono := C08F.PW_mono sc.divs wf.divs_pos sc.beats rest s0 hsorted hpw hden of o hofa hoo
    have : first.2.onsetB = dec4 (sc.beats of) := by rw [← hf1]; simp [STime.toSNote, hfon]
    rw [this, hnon]
    exact C08M.dec4_mono hmono

/-- **roundtrip_onsets_all.**  The readable form of `roundtrip_onsets_exact`: no fallback flag is set, and every loaded
    note sits exactly at its saved distance from the loaded origin. -/
theorem roundtrip_onsets_all (sc : Score) (wf : WrittenScore sc)
    (stored : List (Int × Int)) (ks : List (Int × Nat))
    (r : Recon) (h : sc.roundTrip stored ks = some r)
    (mnum : Int → Int) (hTS : sc.readTS = sc.tsLines mnum)
    (s0 : TSig) (rest : List TSig) (hts : sc.ts = s0 :: rest)
    (hafter : ∀ p ∈ stored, s0.t ≤ p.1)
    (hexact : ∀ x ∈ rest, dec4 (sc.beats x.t) = sc.beats x.t)
    (hD : r.divs < 1250)
    (hgrid : ∀ p ∈ stored, ∀ q ∈ stored, ∃ z : Int,
      (r.divs : Rat) * (sc.quarters p.1 - min (sc.quarters q.1) 0) = (z : Rat)) :
    (∀ b ∈ r.fallback, b = false)
    ∧ ∃ of dfirst, (of, dfirst) ∈ stored ∧ ∀ y ∈ r.notes, ∃ o d, stored[y.1]? = some (o, d)
      ∧ y.2.1 = (r.divs : Rat) * (sc.quarters o - min (sc.quarters of) 0) := by
  obtain ⟨of, dfirst, hmem, hlen, hall⟩ := roundtrip_onsets_exact sc wf stored ks r h mnum hTS s0 rest hts hafter hexact hD
    hgrid
  constructor
  · intro b hb
    obtain ⟨y, hy⟩ := C08F.mem_zip_right r.notes r.fallback hlen b hb
    obtain ⟨_, _, _, _, hf⟩ := hall (y, b) hy
    exact hf
  · refine ⟨of, dfirst, hmem, ?_⟩
    intro y hy
    obtain ⟨b, hb⟩ := C08F.mem_zip_left r.notes r.fallback hlen y hy
    obtain ⟨o, d, h1, h2, _⟩ := hall (y, b) hb
    exact ⟨o, d, h1, h2⟩

/-- **repair_conservative.**  On a written score with laid-out measures the smallest written beat time IS the one of the
    first line in the reader's order: fix C08-19 (`min_time = min(OnsetInBeats)` instead of `snotes[0].OnsetInBeats`)
    changes nothing there. -/
theorem repair_conservative (sc : Score) (wf : WrittenScore sc) (lo : LaidOut sc) (stored : List (Int × Int))
    (s0 : TSig) (rest : List TSig) (hts : sc.ts = s0 :: rest) (hafter : ∀ p ∈ stored, s0.t ≤ p.1)
    (sts : List STime) (first : Nat × SNote) (hsts : sc.storedLines stored = some sts)
    (hhead : (sortedNotes (sts.map STime.toSNote)).head? = some first) :
    ((sortedNotes (sts.map STime.toSNote)).map (·.2.onsetB)).foldl min first.2.onsetB = first.2.onsetB := by
  apply C08F.foldl_min_eq
  intro x hx
  obtain ⟨p, hp, rfl⟩ := List.mem_map.mp hx
  have hp' : p ∈ (List.range (sts.map STime.toSNote).length).zip (sts.map STime.toSNote) := C08S.mem_sortBy.mp hp
  have h1 := C08C.mem_zip_range _ p.1 p.2 hp'
  obtain ⟨st, hst, hpst⟩ := List.mem_map.mp (List.mem_of_getElem? h1)
  rw [← hpst]
  exact first_line_is_earliest sc wf lo stored s0 rest hts hafter sts first hsts hhead st hst

/-- the witness of F-C08-19: one bar of 6/8 that changes to 4/4 after two beats (4 divisions per quarter); stored: the
    eighth before the change (beat 4 of the bar, counted in eighths) and the quarter at the change (beat 3, counted in
    quarters) -/
def midBarScore : Score := { divs := 4, ts := [⟨0, 6, 8⟩, ⟨8, 4, 4⟩], ms := [⟨0, 24⟩] }

/-- **first_line_not_earliest.**  Without `LaidOut.ts_at_bars` the claim of `first_line_is_earliest` fails: in the file of
    `midBarScore` the first line in the reader's order is the note AT the change (beat time 4), the earliest line is the
    note before it (beat time 3). -/
theorem first_line_not_earliest :
    (midBarScore.storedLines [(6, 2), (8, 4)]).map (fun sts =>
      ((sortedNotes (sts.map STime.toSNote)).head?.map (·.2.onsetB), sts.map (fun st => dec4 st.onsetB)))
      = some (some 4, [3, 4])
    ∧ ¬ LaidOut midBarScore := by
  refine ⟨by decide +kernel, ?_⟩
  intro h
  have := h.ts_at_bars ⟨0, 24⟩ (by decide) ⟨8, 4, 4⟩ (by decide)
  simp at this

/-- the repaired reader on the witness: no fallback, the two notes 24 and 32 sixteenth-divisions after beat 0 (1.5 and 2
    quarters, as saved); the unrepaired reader put them at 32 and 40 with both fallback flags set -/
example : ((midBarScore.roundTrip [(6, 2), (8, 4)] []).map fun r => (r.divs, r.fallback, r.notes.map (fun y => (y.1, y.2.1))))
    = some (16, [false, false], [(1, 32), (0, 24)]) := by
  decide +kernel

/-- non-vacuity of `roundtrip_onsets_all`: on `exampleScore` (3/4 pickup | 6/8 | 2/2, 4 divisions per quarter; stored: the
    pickup quarter, the first note of the 6/8 bar, a half note a quarter into the 2/2 bar) all hypotheses hold: the three
    loaded onsets are 16 × (distance in quarters from the pickup) — no "or the fallback fired" any more -/
example (r : Recon) (h : exampleScore.roundTrip [(0, 4), (4, 6), (20, 8)] [] = some r) :
    (∀ b ∈ r.fallback, b = false)
    ∧ ∃ of dfirst, (of, dfirst) ∈ [((0 : Int), (4 : Int)), (4, 6), (20, 8)] ∧ ∀ y ∈ r.notes, ∃ o d,
      [((0 : Int), (4 : Int)), (4, 6), (20, 8)][y.1]? = some (o, d)
      ∧ y.2.1 = (r.divs : Rat) * (exampleScore.quarters o - min (exampleScore.quarters of) 0) := by
  have hdivs : r.divs = 16 := by
    have h1 : (exampleScore.roundTrip [(0, 4), (4, 6), (20, 8)] []).map (·.divs) = some 16 := by decide +kernel
    rw [h] at h1
    simpa using h1
  apply roundtrip_onsets_all exampleScore ⟨by decide, by decide, by decide, by decide⟩ _ [] r h
    (fun t => if t = 0 then 0 else if t = 4 then 1 else 2) (by decide +kernel) ⟨0, 3, 4⟩ [⟨4, 6, 8⟩, ⟨16, 2, 2⟩] rfl
  · decide
  · decide +kernel
  · rw [hdivs]; norm_num
  · rw [hdivs]
    have hden : ∀ p ∈ [((0 : Int), (4 : Int)), (4, 6), (20, 8)], ∀ q ∈ [((0 : Int), (4 : Int)), (4, 6), (20, 8)],
        (((16 : Nat) : Rat) * (exampleScore.quarters p.1 - min (exampleScore.quarters q.1) 0)).den = 1 := by
      decide +kernel
    intro p hp q hq
    exact ⟨_, ((Rat.den_eq_one_iff _).mp (hden p hp q hq)).symm⟩

/-- the model's reader agrees on the example: no fallback, onsets 0, 16, 80 -/
example : ((exampleScore.roundTrip [(0, 4), (4, 6), (20, 8)] []).map fun r => (r.fallback, r.notes.map (·.2.1)))
    = some ([false, false, false], [0, 16, 80]) := by
  decide +kernel

/-! ### F-C08-20: the position fields of a signature line -/

/-- **sig_line_states_position.**  The repaired writer (fix C08-20): `measure:beat` and the offset of a time / key
    signature line state where the signature stands - the bar line plus `beat − 1` beats of the beat type in force plus a
    NON-NEGATIVE offset (in whole notes) of less than one beat - for a signature anywhere in its measure. -/
theorem sig_line_states_position (sc : Score) (hd : 0 < sc.divs) (mi : Nat) (t : Int) (l : SigLine)
    (h : sc.encodeSig mi t = some l) :
    ∃ m s, sc.ms[mi]? = some m ∧ tsAt sc.ts t = some s ∧ l.timeB = sc.beats t
      ∧ l.measure = sc.firstMeasureNumber + mi
      ∧ (0 < s.den → ((l.beat - 1 : Int) : Rat) * 4 / (s.den : Rat) + 4 * l.offset = ((t - m.s : Int) : Rat) / (sc.divs : Rat)
          ∧ 0 ≤ l.offset ∧ l.offset < 1 / (s.den : Rat)) := by
  unfold Score.encodeSig at h
  cases hm : sc.ms[mi]? with
  | none => simp [hm] at h
  | some m =>
    cases hs : tsAt sc.ts t with
    | none => simp [hm, hs] at h
    | some s =>
      simp [hm, hs] at h
      subst h
      refine ⟨m, s, rfl, rfl, rfl, rfl, ?_⟩
      intro hden
      have e : encBeat sc.divs s.den (t - m.s) + 1 - 1 = encBeat sc.divs s.den (t - m.s) := by omega
      simp only [e]
      exact ⟨C08P.enc_position sc.divs s.den hd hden (t - m.s), C08P.enc_offset_range sc.divs s.den hd hden (t - m.s)⟩

/-- the arithmetic of the unrepaired writer: `(t − bar line − beat · divisions per QUARTER) / (beat type · divisions)` -/
def quarterArithmeticOffset (divs den : Nat) (rel beat : Int) : Rat := mkRat (rel - beat * divs) (den * divs)

/-- **sig_offset_was_negative.**  The witness of F-C08-20: 180 divisions per quarter, a 3/8 written 59 divisions into a
    bar of 12/16 (one whole sixteenth-beat before it): the unrepaired arithmetic gives −121/1440 of a whole note, which the
    reader's line pattern does not accept; the repaired one beat 1 of the new metre plus 59/720 of a whole note. -/
theorem sig_offset_was_negative :
    quarterArithmeticOffset 180 8 59 1 < 0 ∧ encBeat 180 8 59 = 0 ∧ encOffset 180 8 59 = 59 / 720 := by
  decide +kernel

end C08
