/-
C06 (round 6) — "… and assigns ids in order of onset, pitch, offset, channel and track" for ANY sequence of
set_tempo events, also a tempo of 0 (fixes/C06-8).

Until round 5 the clause was proved (`ids_by_key`) for a conversion of ticks to seconds that is STRICTLY increasing,
i.e. for files all of whose tempi are positive, because the model (like the oracle) ordered the notes by their
ticks.  The code ordered them by the seconds it had accumulated while reading the track — before `adjust_time`
integrates the tempo map of the whole file.  After a `set_tempo` of 0 these provisional seconds stand still, and
the notes that follow were numbered by pitch although a tempo change in another track gives them different onsets
(`provisional_order_wrong`).  The repaired loader sorts by the final seconds; the theorems here have no
hypothesis on the tempo map:

  * `ids_by_seconds`, `ids_by_seconds_file`  the note with id n<i> is not after n<j>, i < j, in the lexicographic
        order of (note_on, midi_pitch, note_off, channel) in seconds — for every conversion `sec`;
  * `loadFileS_same_events`  the repaired loader returns the tracks of `loadFile` with the same controls, programs,
        signatures, meta events and a rearrangement of the same notes — every multiset theorem about `loadFile`
        (notes_kept_*, controls_kept, programs_exact, …) speaks about it as well, for every tempo map;
  * `seconds_strictly_increasing`, `loadFileS_eq_loadFile`, `loadFileExact_eq_loadFile`  when every tempo of the
        file (and the default) is positive the seconds are strictly increasing in the tick and the loader IS
        `loadFile`, ids included: the hypothesis `hsec` of `ids_by_key` is discharged from the file;
  * `written_file_loader`  for every file the exporter writes (any performance with an event and no negative tick, any
        ppq / mpq / default tempo > 0, merged or not on either side) the repaired loader IS `loadFile`: all
        round-trip theorems of the other Props files speak about the repaired loader, ids included;
  * `load_merged_notes_ids`  the merged round trip stated for the repaired loader with ANY conversion to seconds.
-/
import PartituraModel.Model.PerfIds
import PartituraModel.Proofs.C06Order
import PartituraModel.Props.C06
import PartituraModel.Props.C06Merge

namespace C06
open Model Model.PerfMidi C06Sort C06Adjust C06Pair C06Lists C06Export C06Ids C06Notes C06Stable C06Merged C06Order

/-- Ids, any tempo map: the loaded notes are a rearrangement of the paired notes and follow the lexicographic
    order of (onset, pitch, offset, channel) with the times in the seconds `sec` the loader gave them — whatever
    `sec` is (no monotonicity: a tempo of 0, binary64 ties) -/
theorem ids_by_seconds (sec : Int → Rat) (l : List RNote) :
    (sortNotesSec sec l).Perm l ∧ (sortNotesSec sec l).Pairwise (KeyLe sec) := by
  refine ⟨perm_sortBy _ _, ?_⟩
  have hs := sorted_sortBy (secLe sec) (secLe_total sec) (secLe_trans sec) l
  unfold sortNotesSec
  exact hs.imp (fun h => (secLe_iff sec _ _).mp h)

/-- … for every performed part of every file, merged or not -/
theorem ids_by_seconds_file (sec : Int → Rat) (merge : Bool) (tracks : List Track) :
    ∀ rt ∈ loadFileS sec merge tracks, ∃ T ∈ loaderTracks merge tracks,
      rt.notes.Perm (pairNotes T) ∧ rt.notes.Pairwise (KeyLe sec) := by
  intro rt hrt
  unfold loadFileS at hrt
  obtain ⟨p, hp, rfl⟩ := List.mem_map.mp (List.mem_filter.mp hrt).1
  refine ⟨p.1, ?_, ids_by_seconds sec (pairNotes p.1)⟩
  obtain ⟨T, i⟩ := p
  exact (List.mem_zipIdx hp).2.2 ▸ List.getElem_mem _

/-- what the two loaders may differ in: the order (and so the ids) of the notes of a part -/
def SameEvents (a b : RTrack) : Prop :=
  a.fileTrack = b.fileTrack ∧ a.notes.Perm b.notes ∧ a.controls = b.controls ∧ a.programs = b.programs ∧
    a.timeSigs = b.timeSigs ∧ a.keySigs = b.keySigs ∧ a.metas = b.metas

theorem readTrackS_same (sec : Int → Rat) (i : Nat) (T : Track) : SameEvents (readTrackS sec i T) (readTrack i T) :=
  ⟨rfl, (perm_sortBy _ _).trans (perm_sortBy _ _).symm, rfl, rfl, rfl, rfl, rfl⟩

theorem kept_of_same (a b : RTrack) (h : SameEvents a b) : a.kept = b.kept := by
  obtain ⟨_, hn, hc, hp, _⟩ := h
  unfold RTrack.kept
  rw [hc, hp]
  have : a.notes.isEmpty = b.notes.isEmpty := by
    have hl := hn.length_eq
    cases ha : a.notes <;> cases hb : b.notes <;> simp_all
  rw [this]

/-- The repaired loader and `loadFile`: the same performed parts from the same file tracks, each with the same
    controls, programs, signatures and meta events and with the same notes in a possibly different order — for
    every conversion to seconds.  All theorems that speak about the notes of `loadFile` as a multiset (per channel
    and pitch: `notesOf` is a filter) hold for the repaired loader on every tempo map. -/
theorem loadFileS_same_events (sec : Int → Rat) (merge : Bool) (tracks : List Track) :
    List.Forall₂ SameEvents (loadFileS sec merge tracks) (loadFile merge tracks) := by
  unfold loadFileS loadFile
  induction (loaderTracks merge tracks).zipIdx with
  | nil => exact List.Forall₂.nil
  | cons p L ih =>
    have hs := readTrackS_same sec p.2 p.1
    have hk := kept_of_same _ _ hs
    simp only [List.map_cons, List.filter_cons]
    rw [hk]
    split
    · exact List.Forall₂.cons hs ih
    · exact ih

/-- Seconds are strictly increasing in the tick when the default tempo and every `set_tempo` of the file are
    positive (ticks of the file non-negative: its delta times are) -/
theorem seconds_strictly_increasing (d ppq : Nat) (hd : 0 < d) (hp : 0 < ppq) (tracks : List Track)
    (hpos : ∀ e ∈ tracks.flatMap temposOf, 0 ≤ e.1 ∧ 0 < e.2) : StrictOn (secondsAt d tracks ppq) := by
  intro x y hx hxy
  have h0 : ∀ e ∈ tracks.flatMap temposOf, 0 ≤ e.1 := fun e he => (hpos e he).1
  rw [(adjust_any_track d tracks ppq x hx h0).2.2, (adjust_any_track d tracks ppq y (by omega) h0).2.2]
  have hsorted := sorted_sortBy tempoLe tempoLe_total tempoLe_trans (tracks.flatMap temposOf)
  exact integral_strictMono ppq hp x y hxy (0, d) _ hx hd
    (sortedFrom_of_pairwise 0 _ (fun c hc => h0 c ((mem_sortBy _ _ _).mp hc)) hsorted)
    (fun c hc => (hpos c ((mem_sortBy _ _ _).mp hc)).2)

/-- With strictly increasing seconds the repaired loader is `loadFile` — the order by seconds is the order by
    ticks (no negative tick in the tracks the loader sees) -/
theorem loadFileS_eq_loadFile_of_ticks (sec : Int → Rat) (hsec : StrictOn sec) (merge : Bool) (tracks : List Track)
    (hT : ∀ T ∈ loaderTracks merge tracks, NonnegTicks T) : loadFileS sec merge tracks = loadFile merge tracks := by
  unfold loadFileS loadFile
  congr 1
  apply List.map_congr_left
  intro p hp
  have hmem : p.1 ∈ loaderTracks merge tracks := by
    obtain ⟨T, i⟩ := p
    exact (List.mem_zipIdx hp).2.2 ▸ List.getElem_mem _
  unfold readTrackS readTrack
  rw [sortNotesSec_eq sec hsec _ (pairNotes_nonneg p.1 (hT p.1 hmem))]

/-- … in particular for every file whose delta times are non-negative (what a MIDI file can hold) -/
theorem loadFileS_eq_loadFile (sec : Int → Rat) (hsec : StrictOn sec) (merge : Bool) (tracks : List Track)
    (hd : ∀ t ∈ tracks, NonnegTicks t) : loadFileS sec merge tracks = loadFile merge tracks :=
  loadFileS_eq_loadFile_of_ticks sec hsec merge tracks (loaderTracks_nonneg merge tracks hd)

/-- End to end: a file with non-negative delta times all of whose tempi are positive, any default tempo > 0, any
    resolution > 0, merged or not — the loader with the seconds of the file's own tempo map is `loadFile`, so
    `ids_by_key` and every theorem about `loadFile` hold with no hypothesis about `sec` left -/
theorem loadFileExact_eq_loadFile (d ppq : Nat) (hd0 : 0 < d) (hp : 0 < ppq) (merge : Bool) (tracks : List Track)
    (hd : ∀ t ∈ tracks, NonnegTicks t)
    (htempo : ∀ t ∈ tracks, ∀ c ∈ temposOf (toAbs t), 0 < c.2) :
    loadFileExact d ppq merge tracks = loadFile merge tracks := by
  unfold loadFileExact
  apply loadFileS_eq_loadFile _ _ merge tracks hd
  apply seconds_strictly_increasing d ppq hd0 hp
  intro e he
  obtain ⟨T, hT, heT⟩ := List.mem_flatMap.mp he
  have hm := mem_temposOf T e heT
  refine ⟨loaderTracks_nonneg merge tracks hd T hT _ hm, ?_⟩
  obtain ⟨t, ht, hmt⟩ := loaderTracks_tempo_mem merge tracks T hT e.1 e.2 hm
  exact htempo t ht e (temposOf_mem _ e.1 e.2 hmt)

-- ------------------------------------------------------------------ the written file; composition with the round trip

/-- a non-negative time is written on a non-negative tick -/
theorem quant_nonneg (mpq ppq : Nat) (t : Rat) (ht : 0 ≤ t) : 0 ≤ quant mpq ppq t := by
  have h0 : (0 : Rat) ≤ 1000000 * (ppq : Rat) * t / (mpq : Rat) := by positivity
  have := Round.roundHalfEven_mono h0
  rw [show ((0 : Rat)) = ((0 : Int) : Rat) by norm_num, Round.roundHalfEven_int] at this
  exact this

/-- **The written file, read by the repaired loader.**  Whatever the performance (at least one event, every time
    on a non-negative tick), the resolution, the tempo written, the default tempo of the loader (all positive) and
    the merging on either side: the loader of fixes/C06-8, sorting by the seconds of the file's own tempo map, is
    `loadFile` — every round-trip theorem stated for `loadFile` (notes_kept_*, load_merged_notes, controls_kept,
    programs_exact, history_roundtrip, …) is a theorem about the repaired loader, ids included -/
theorem written_file_loader (q : Rat → Int) (mpq ppq d : Nat) (hm : 0 < mpq) (hp : 0 < ppq) (hd : 0 < d)
    (ms ml : Bool) (parts : List PPart) (hne : usedTracks q parts ≠ []) (hq : ∀ p ∈ parts, TicksNonneg q p) :
    loadFileExact d ppq ml ((savedAbs q mpq ms parts).map toDelta)
      = loadFile ml ((savedAbs q mpq ms parts).map toDelta) := by
  unfold loadFileExact
  apply loadFileS_eq_loadFile_of_ticks _ ?_ ml _ (loaderTracks_written_nonneg q mpq ms ml parts hq)
  apply seconds_strictly_increasing d ppq hd hp
  intro e he
  have h1 := sel_file gTempo rfl q mpq ms ml parts
  rw [tempos_exportAbs _ _ _ hne] at h1
  have h2 : (loaderTracks ml ((savedAbs q mpq ms parts).map toDelta)).flatMap temposOf = [(0, mpq)] := by
    have : temposOf = sel gTempo := funext temposOf_eq
    rw [this]
    exact List.perm_singleton.mp h1
  rw [h2, List.mem_singleton] at he
  subst he
  exact ⟨le_refl _, hm⟩

/-- the hypothesis on the ticks holds for the exporter's conversion when no time of the part is negative -/
theorem ticksNonneg_quant (mpq ppq : Nat) (p : PPart)
    (h : (∀ m ∈ p.metaOther, 0 ≤ m.time) ∧ (∀ m ∈ p.keySigs, 0 ≤ m.time) ∧ (∀ m ∈ p.timeSigs, 0 ≤ m.time) ∧
      (∀ m ∈ p.controls, 0 ≤ m.time) ∧ (∀ n ∈ p.notes, 0 ≤ n.on ∧ 0 ≤ n.off) ∧ (∀ m ∈ p.programs, 0 ≤ m.time)) :
    TicksNonneg (quant mpq ppq) p := by
  obtain ⟨h1, h2, h3, h4, h5, h6⟩ := h
  exact ⟨fun m hm => quant_nonneg _ _ _ (h1 m hm), fun m hm => quant_nonneg _ _ _ (h2 m hm),
    fun m hm => quant_nonneg _ _ _ (h3 m hm), fun m hm => quant_nonneg _ _ _ (h4 m hm),
    fun n hn => ⟨quant_nonneg _ _ _ (h5 n hn).1, quant_nonneg _ _ _ (h5 n hn).2⟩, fun m hm => quant_nonneg _ _ _ (h6 m hm)⟩

/-- non-vacuity of `written_file_loader`: a part with a note and a control -/
example : loadFileExact 500000 480 false ((savedAbs (quant 500000 480) 500000 false
      [⟨[], [], [], [⟨1/2, 64, 127, 0, 0⟩], [⟨60, 64, 0, 0, 0, 1⟩], []⟩]).map toDelta)
    = loadFile false ((savedAbs (quant 500000 480) 500000 false
      [⟨[], [], [], [⟨1/2, 64, 127, 0, 0⟩], [⟨60, 64, 0, 0, 0, 1⟩], []⟩]).map toDelta) :=
  written_file_loader _ 500000 480 500000 (by decide) (by decide) (by decide) false false _ (by decide +kernel)
    (by
      intro p hp
      rw [List.mem_singleton] at hp
      subst hp
      exact ticksNonneg_quant _ _ _ (by simp))

/-- **Round trip with the repaired loader, any seconds.**  Under merging on either side and `MergeOk`, the
    loader of fixes/C06-8 — whatever conversion of ticks to seconds it sorts by — returns at most one part, read
    from file track 0, whose notes are those of the performance on the tick grid, numbered in the lexicographic
    order of (onset, pitch, offset, channel) of their seconds -/
theorem load_merged_notes_ids (q : Rat → Int) (hq : ∀ a b, a ≤ b → q a ≤ q b) (mpq : Nat) (ms ml : Bool)
    (parts : List PPart)
    (hm : ml = true ∨ (ms = true ∧ 1 < (usedTracks q parts).length))
    (hwf : ∀ p ∈ parts, ∀ n ∈ p.notes, n.on ≤ n.off ∧ 0 < n.vel)
    (hno : ∀ κ, (mergedKeyNotes q parts κ).Pairwise (MergeOk q)) (sec : Int → Rat) :
    (loadFileS sec ml ((savedAbs q mpq ms parts).map toDelta)).length ≤ 1 ∧
    ∀ rt ∈ loadFileS sec ml ((savedAbs q mpq ms parts).map toDelta), rt.fileTrack = 0 ∧
      rt.notes.Perm ((parts.flatMap (·.notes)).map (toR q)) ∧ rt.notes.Pairwise (KeyLe sec) := by
  have hsame := loadFileS_same_events sec ml ((savedAbs q mpq ms parts).map toDelta)
  obtain ⟨hlen, hall⟩ := load_merged_notes q hq mpq ms ml parts hm hwf hno
  refine ⟨by rw [hsame.length_eq]; exact hlen, ?_⟩
  intro rt hrt
  obtain ⟨rt', hrt', hs⟩ := forall₂_exists_left hsame rt hrt
  obtain ⟨h0, hperm, _⟩ := hall rt' hrt'
  obtain ⟨T, _, _, hpw⟩ := ids_by_seconds_file sec ml _ rt hrt
  exact ⟨hs.1.trans h0, hs.2.1.trans hperm, hpw⟩

-- ------------------------------------------------------------------ non-vacuity, and the inputs that separate the orders

/-- the witness of fixes/C06-8 (corpus/C06/tempo_zero_ids.json): track 0 sets the tempo to 0 and plays pitch 70 at
    tick 300 and pitch 60 at tick 610; track 1 sets the tempo to 500000 at tick 200 -/
def witness : List Track :=
  [[(0, Ev.tempo 0), (300, Ev.noteOn 0 70 64), (10, Ev.noteOff 0 70 0), (300, Ev.noteOn 0 60 64), (10, Ev.noteOff 0 60 0)],
   [(200, Ev.tempo 500000)]]

/-- the repaired loader: pitch 70 (onset 5/48 s) is n0, pitch 60 (onset 41/96 s) is n1 -/
example : (loadFileExact 500000 480 false witness).map (·.notes) = [[⟨70, 300, 310, 64, 0⟩, ⟨60, 610, 620, 64, 0⟩]] := by
  decide +kernel

example : secondsAt 500000 (witness.map toAbs) 480 300 = 5 / 48 ∧ secondsAt 500000 (witness.map toAbs) 480 610 = 41 / 96 := by
  decide +kernel

/-- NOT the code any more: sorted by the seconds accumulated while track 0 was read (all 0 after its tempo of 0)
    the later and lower note comes first -/
theorem provisional_order_wrong :
    (readTrackProvisional 480 (500000 / (480 * 1000000)) 0 (toAbs witness.head!)).notes
      = [⟨60, 610, 620, 64, 0⟩, ⟨70, 300, 310, 64, 0⟩] := by decide +kernel

/-- where seconds tie the order by seconds is NOT the order by ticks: both notes at 0 s under a tempo of 0 — the
    key goes on to the pitch (the hypothesis `StrictOn` of `loadFileS_eq_loadFile` cannot be dropped) -/
example : (loadFileExact 500000 480 false [[(0, Ev.tempo 0), (300, Ev.noteOn 0 70 64), (10, Ev.noteOff 0 70 0),
      (300, Ev.noteOn 0 60 64), (10, Ev.noteOff 0 60 0)]]).map (·.notes) = [[⟨60, 610, 620, 64, 0⟩, ⟨70, 300, 310, 64, 0⟩]]
    ∧ (loadFile false [[(0, Ev.tempo 0), (300, Ev.noteOn 0 70 64), (10, Ev.noteOff 0 70 0),
      (300, Ev.noteOn 0 60 64), (10, Ev.noteOff 0 60 0)]]).map (·.notes) = [[⟨70, 300, 310, 64, 0⟩, ⟨60, 610, 620, 64, 0⟩]] := by
  decide +kernel

/-- the hypotheses of `loadFileExact_eq_loadFile` are satisfiable by a file with tempo changes in two tracks -/
example : loadFileExact 500000 480 false [[(0, Ev.tempo 600000), (300, Ev.noteOn 0 70 64), (10, Ev.noteOff 0 70 0)],
      [(200, Ev.tempo 250000), (0, Ev.noteOn 1 60 1), (5, Ev.noteOff 1 60 0)]]
    = loadFile false [[(0, Ev.tempo 600000), (300, Ev.noteOn 0 70 64), (10, Ev.noteOff 0 70 0)],
      [(200, Ev.tempo 250000), (0, Ev.noteOn 1 60 1), (5, Ev.noteOff 1 60 0)]] := by
  apply loadFileExact_eq_loadFile 500000 480 (by decide) (by decide)
  · simp only [NonnegTicks]; decide
  · decide

end C06
