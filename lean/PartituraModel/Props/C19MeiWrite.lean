/-
C19 — the writers, MEI.  `export_import` for partitura's MEI exporter: the document `save_mei` writes for an
exportable part (model: `Model/MeiWrite.lean`, compared element by element with the real output on every run)
denotes, under the semantics of `Model/Mei.lean` (the one `load_mei` is compared against), every note and grace
note of the part with its onset and duration in quarters, its spelling and its staff.
Helper lemmas: `Proofs/C19MeiWrite.lean`.  All statements are for every part; nothing is bounded.
-/
import PartituraModel.Proofs.C19MeiWrite

namespace C19
open Model Model.Mei Model.MeiWrite

/-- `export_import` (MEI): for every exportable part the writer succeeds, the written document is well formed
    under the denotational semantics (one part per `staffDef`), and the notes it denotes include every note and
    grace note of the part (onset, duration, kind, step, alteration, octave, staff).
    `Exportable` (decidable, `Model/MeiWrite.lean`): a positive number of divisions, at least one staff, a time
    signature at time 0, measures that follow one another from time 0, and in every measure: at least one note
    or rest, every note on one of the staves, every layer (a voice, written on the staff that holds most of its
    notes) gapless from the start of the measure — each event starts where the previous one ended, chords are
    notes of one length, every note, rest and chord has a symbolic duration (type of `MEI_DURS_TO_SYMBOLIC`,
    dots) worth exactly its length after the ratio of the `tuplet` element it is written in (written for a Tuplet
    object whose first and last note lie in the measure, in one voice and staff), step A–G, octave ≥ 0,
    alteration −2…2 or none — no layer running over the end of the measure and one reaching it. -/
theorem export_import_mei (p : MPart) (h : Exportable p = true) :
    ∃ evs parts, writeMei p = some evs ∧ Mei.denote evs = some parts ∧
      ∀ f ∈ facts p, ∃ part ∈ parts, ∃ x ∈ part.notes, factOfMeiNote x = f :=
  C19M.export_import_mei_aux p h

/-- a single written event read back: the `note` / `rest` element written for an exportable event, met by the
    state machine inside a layer (possibly inside one `tuplet`), is read where the layer stands, lasts what the
    event lasts (a grace note nothing) and moves the layer on by that; pitched events keep their spelling and staff
    (`@accid.ges`, an `accid` child or no accidental, as the key signature in force decides) -/
theorem mei_event_roundtrip (divs : Nat) (tup : Option (Nat × Nat)) (ks : List String) (m : MNote)
    (hok : noteOkM divs tup m = true) (evs : List Ev) (d : String) (hev : noteEl ks m = some (evs, d))
    (st : Mei.St) (hc : C19M.Ctx st tup) :
    ∃ de r, runEvs st evs =
        some { st with notes := r :: st.notes,
                       cursor := st.cursor + (if m.n.kind = 1 then 0 else (m.n.dur : Rat) / (divs : Rat)), durEls := de } ∧
      (m.n.kind ≠ 2 → r.onset = st.cursor ∧ r.dur = (if m.n.kind = 1 then 0 else (m.n.dur : Rat) / (divs : Rat)) ∧
        r.kind = m.n.kind ∧ r.step = m.n.step ∧ r.alter = m.n.alter.getD 0 ∧ r.octave = m.n.octave ∧ r.staff = m.n.staff) := by
  obtain ⟨de, r, h1, _, h3⟩ := C19M.single_spec divs tup ks m hok evs d hev st hc
  refine ⟨de, r, h1, fun hk => ?_⟩
  have := h3 hk
  simp only [C19M.rfact, C19M.qOf, KernWrite.Fact.mk.injEq] at this
  exact this

/-- every duration name the exporter can write is one the importer reads, as the same number of quarters
    (whole finite table of symbolic types, incl. the aliases h, e, q) -/
theorem mei_durs_inverse :
    ∀ e ∈ Gen.MEI_DURS_TO_SYMBOLIC, (meiDurOf e.2).bind durNumber = durNumber e.1 ∧ (durNumber e.1).isSome = true := by
  decide +kernel

/-! ### non-vacuity -/

/-- two staves; a voice with a chord, a dotted note, an altered note the key signature explains (B flat in F major)
    and one it does not (C sharp), a grace note, a triplet wrapped for its Tuplet object, a rest; a second measure
    in which the upper staff is silent -/
def demoMei : MPart :=
  let nt (id : String) (start kind voice staff : Nat) (ty : String) (dots : Nat) (step : String)
      (alter : Option Int) (oct : Int) (dur : Nat) : MNote :=
    ⟨id, start, { kind := kind, voice := voice, staff := staff, sym := some ⟨ty, dots, none⟩, step := step, alter := alter,
                  octave := oct, tieNext := false, tiePrev := false, dur := dur }⟩
  { title := "P1", divs := 6, nstaves := 2, clefs0 := [(1, "G", 2), (2, "F", 4)],
    key0 := some ⟨0, -1, some "major", "f"⟩, meter0 := some (2, 4),
    measures := [
      { number := 1, start := 0, end_ := 12,
        notes := [nt "a" 0 0 1 1 "quarter" 1 "B" (some (-1)) 4 9, nt "b" 0 0 1 1 "quarter" 1 "D" none 5 9,
                  nt "g" 9 1 1 1 "eighth" 0 "E" none 5 0, nt "c" 9 0 1 1 "eighth" 0 "C" (some 1) 5 3,
                  nt "t1" 0 0 2 2 "eighth" 0 "F" none 3 2, nt "t2" 2 0 2 2 "eighth" 0 "A" none 3 2,
                  nt "t3" 4 2 2 2 "eighth" 0 "" none 0 2, nt "d" 6 0 2 2 "quarter" 0 "C" none 3 6],
        tuplets := [⟨"t1", "t3", 0, 4, 6, true, some (3, 2)⟩], keys := [⟨0, -1, some "major", "f"⟩], meters := [(0, 2, 4)] },
      { number := 2, start := 12, end_ := 24,
        notes := [nt "e" 12 0 2 2 "half" 0 "F" none 2 12],
        tuplets := [], keys := [], meters := [] }] }

example : Exportable demoMei = true := by decide +kernel

example : ((writeMei demoMei).map fun evs => (evs.filterMap fun e => match e with
      | .op tag as => if tag = "note" ∨ tag = "rest" ∨ tag = "chord" ∨ tag = "tuplet" ∨ tag = "accid" ∨ tag = "layer"
          then some (tag, (as.filter fun kv => kv.1 ≠ "xml:id" ∧ kv.1 ≠ "oct" ∧ kv.1 ≠ "staff").map fun kv => kv.1 ++ "=" ++ kv.2) else none
      | .cl => none)) = some [
    ("layer", ["n=1"]),
    ("chord", ["dur=4", "dots=1"]),
    ("note", ["dur=4", "dots=1", "pname=b", "accid.ges=f"]), ("note", ["dur=4", "dots=1", "pname=d"]),
    ("note", ["dur=8", "pname=e", "grace=acc"]), ("note", ["dur=8", "pname=c"]), ("accid", ["accid=s"]),
    ("layer", ["n=2"]),
    ("tuplet", ["num=3", "numbase=2"]), ("note", ["dur=8", "pname=f"]), ("note", ["dur=8", "pname=a"]), ("rest", ["dur=8"]),
    ("note", ["dur=4", "pname=c"]),
    ("layer", ["n=2"]), ("note", ["dur=2", "pname=f"])] := by decide +kernel

/-- a voice that pauses without a rest is not exportable: the writer has no `space`, the next note moves up -/
def gapMei : MPart :=
  { demoMei with measures := [
      { number := 1, start := 0, end_ := 12,
        notes := [⟨"a", 0, { kind := 0, voice := 1, staff := 1, sym := some ⟨"quarter", 0, none⟩, step := "C", alter := none,
                             octave := 4, tieNext := false, tiePrev := false, dur := 6 }⟩,
                  ⟨"b", 6, { kind := 0, voice := 2, staff := 2, sym := some ⟨"quarter", 0, none⟩, step := "D", alter := none,
                             octave := 3, tieNext := false, tiePrev := false, dur := 6 }⟩],
        tuplets := [], keys := [], meters := [] }] }

example : Exportable gapMei = false := by decide +kernel

/-- … and there the D3 that the part has at quarter 1 is written at the start of its layer: read at quarter 0 -/
example : (facts gapMei).map (fun f => (f.onset, f.step)) = [(0, "C"), (1, "D")] ∧
    ((writeMei gapMei).bind fun evs => (runEvs {} evs).map fun st => st.notes.reverse.map fun r => (r.onset, r.step))
      = some [(0, "C"), (0, "D")] := by
  decide +kernel

end C19
