/-
C19 — MEI and Humdrum **kern files load to the notes their notation denotes.

Property theorems about the denotational semantics `Model/Kern.lean`, `Model/Mei.lean`
(the semantics the importers are compared against on every run).  Helper lemmas are in
`Proofs/C19.lean`.  All statements quantify over every reciprocal, dot count, repetition
count, token list and element list; nothing is bounded.
-/
import PartituraModel.Proofs.C19
import PartituraModel.Gen.Tables

namespace C19
open Model.Kern Model.Mei C19P

/-! ## kern durations -/

/-- `kern_duration`: a reciprocal `n` with `d` dots lasts `4/n · (2 − 1/2^d)` quarters -/
theorem kern_duration (n : Nat) (hn : n ≠ 0) (d : Nat) :
    value (.num n) d = some (4 / (n : Rat) * (2 - 1 / (2 : Rat) ^ d)) := by
  simp [value, baseValue, hn, dotted_closed]

/-- `0`, `00`, `000`: breve, long, maxima (each zero doubles), dotted the same way -/
theorem kern_duration_zeros (k d : Nat) :
    value (.zeros k) d = some (4 * (2 : Rat) ^ k * (2 - 1 / (2 : Rat) ^ d)) := by
  simp [value, baseValue, dotted_closed]

/-- `a%b`: `b/a` of a whole note -/
theorem kern_duration_rational (a b : Nat) (ha : a ≠ 0) (hb : b ≠ 0) (d : Nat) :
    value (.frac a b) d = some (4 * (b : Rat) / (a : Rat) * (2 - 1 / (2 : Rat) ^ d)) := by
  simp [value, baseValue, ha, hb, dotted_closed]

/-- a value is refused exactly when the reciprocal would divide by zero -/
theorem kern_duration_none (r : Recip) (d : Nat) :
    value r d = none ↔ (r = .num 0 ∨ ∃ a b, r = .frac a b ∧ (a = 0 ∨ b = 0)) := by
  cases r with
  | zeros k => simp [value, baseValue]
  | num n => by_cases h : n = 0 <;> simp [value, baseValue, h]
  | frac a b => by_cases h : a = 0 ∨ b = 0 <;> simp [value, baseValue, h]

example : value (.num 8) 1 = some (3 / 4) := by rw [kern_duration 8 (by decide)]; norm_num
example : value (.zeros 1) 0 = some 8 := by rw [kern_duration_zeros]; norm_num
example : value (.frac 3 2) 0 = some (8 / 3) := by rw [kern_duration_rational 3 2 (by decide) (by decide)]; norm_num

/-- the reciprocals of partitura's `KERN_DURS` table denote the quarter lengths of `LABEL_DURS`
    (whole finite table; `maxima` has no entry in `LABEL_DURS`) -/
theorem kern_durs_table :
    ∀ e ∈ kernDurs, e.2 ≠ "maxima" →
      ((parseRecip e.1.toList).bind fun r => value r 0) = Model.lookup e.2 Gen.LABEL_DURS := by
  decide +kernel

/-! ## a spine is additive -/

/-- `kern_duration` (second half): reading a spine from `c`, the notes of the k-th token start at the
    spine's start plus the sum of the values of the k tokens before it, and afterwards the spine stands
    at start + total -/
theorem kern_spine_additive (c : Col) (p : Nat) (ts : List (List SubTok)) (r : List (List RawNote)) (c' : Col)
    (h : spineRun c p ts = some (r, c')) :
    (∃ s, advTotal ts = some s ∧ c'.cursor = c.cursor + s ∧ r.length = ts.length) ∧
    (∀ k ns, r[k]? = some ns → ∃ s, advTotal (ts.take k) = some s ∧ ∀ n ∈ ns, n.onset = c.cursor + s) :=
  ⟨spineRun_cursor c p ts r c' h, fun k ns hk => spineRun_onsets c p ts r c' h k ns hk⟩

/-- the state machine of the driver reads a cell of a one-column document exactly as `spineRun` does -/
theorem dataRow_single (st : Model.Kern.St) (c : Col) (cell : List Char) (toks : List SubTok) (ns : List RawNote) (adv : Rat)
    (hk : c.kern = true) (hdot : cell ≠ ['.']) (hbang : startsWith cell "!" = false) (hstar : startsWith cell "*" = false)
    (hp : parseToken cell = some toks) (ht : tokenNotes c 0 toks = some (ns, adv)) :
    dataRow st [(c, 0)] [cell] [] [] =
      some ({ st with notes := ns.reverse ++ st.notes }, [{ c with cursor := c.cursor + adv }]) := by
  simp [dataRow, hk, hdot, hbang, hstar, hp, Model.lookup, ht]

def qC : SubTok := { recip := some (.num 4), dots := 0, pitch := some ("C", 4), alter := 0, grace := false,
                     tOpen := false, tCont := false, tClose := false }
def col0 : Col := { main := 0, kern := true, cursor := 0, staff := 1 }

example : ∃ r c', spineRun col0 0 [[qC], [qC, qC], [qC]] = some (r, c') ∧ c'.cursor = 3 := by
  refine ⟨_, _, rfl, ?_⟩
  decide +kernel

/-! ## pitch letters -/

/-- `kern_pitch`: for every row (letter, step, base octave) of the letter table and every repetition
    count: `c` ↦ C4 and each doubling raises; `C` ↦ C3 and each doubling lowers -/
theorem kern_pitch (e : Char × String × Int) (he : e ∈ kernNotes) (n : Nat) :
    pitchOf (List.replicate (n + 1) e.1) = some (e.2.1, if e.2.2 = 4 then 4 + (n : Int) else 3 - (n : Int)) :=
  pitchOf_replicate e he n

example : pitchOf ['c'] = some ("C", 4) := kern_pitch ('c', "C", 4) (by simp [kernNotes]) 0
example : pitchOf ['c', 'c', 'c'] = some ("C", 6) := kern_pitch ('c', "C", 4) (by simp [kernNotes]) 2
example : pitchOf ['C'] = some ("C", 3) := kern_pitch ('C', "C", 3) (by simp [kernNotes]) 0
example : pitchOf ['G', 'G', 'G'] = some ("G", 1) := kern_pitch ('G', "G", 3) (by simp [kernNotes]) 2

/-- the table has exactly the seven steps in both cases -/
theorem kern_notes_table :
    kernNotes.map (·.1) = "CDEFGABcdefgab".toList ∧
    ∀ e ∈ kernNotes, e.2.1 = String.ofList [e.1.toUpper] ∧ e.2.2 = (if e.1.isUpper then 3 else 4) := by
  decide +kernel

/-- each accidental sign moves the alteration by one semitone -/
theorem kern_accidentals (cs : List Char) (k : Nat) :
    alterOf (cs ++ List.replicate k '#') = alterOf cs + (k : Int) ∧
    alterOf (cs ++ List.replicate k '-') = alterOf cs - (k : Int) :=
  ⟨alterOf_sharps cs k, alterOf_flats cs k⟩

/-- the driver's token parser on a quarter note: letters and accidentals combine as stated -/
theorem kern_token_pitch (e : Char × String × Int) (he : e ∈ kernNotes) (n k : Nat) :
    (parseSub ('4' :: (List.replicate (n + 1) e.1 ++ List.replicate k '#'))).map
        (fun t => (t.recip, t.dots, t.pitch, t.alter, t.grace, t.tOpen || t.tCont || t.tClose))
      = some (some (Recip.num 4), 0, some (e.2.1, if e.2.2 = 4 then 4 + (n : Int) else 3 - (n : Int)), (k : Int), false, false)
    ∧
    (parseSub ('4' :: (List.replicate (n + 1) e.1 ++ List.replicate k '-'))).map
        (fun t => (t.recip, t.dots, t.pitch, t.alter, t.grace, t.tOpen || t.tCont || t.tClose))
      = some (some (Recip.num 4), 0, some (e.2.1, if e.2.2 = 4 then 4 + (n : Int) else 3 - (n : Int)), -(k : Int), false, false) :=
  ⟨parseSub_quarter_sharps e he n k, parseSub_quarter_flats e he n k⟩

/-! ## ties -/

/-- `ties_join`: a chain `[ … _ … ]` of one pitch denotes one sounding note that starts with the first
    note and lasts the sum of the durations -/
theorem ties_join (first : TNote) (mids : List TNote) (last : TNote)
    (hf : first.tOpen = true ∧ first.tCont = false ∧ first.tClose = false)
    (hm : ∀ m ∈ mids, samePitch (soundOf first) m = true ∧ m.tCont = true)
    (hl : samePitch (soundOf first) last = true ∧ last.tClose = true ∧ last.tCont = false ∧ last.tOpen = false) :
    joinFold (first :: (mids ++ [last])) [] =
      [⟨first.onset, first.dur + (mids.map (·.dur)).sum + last.dur, first.step, first.alter, first.octave⟩] := by
  obtain ⟨ho, hc, hcl⟩ := hf
  have := joinFold_chain_aux mids last (soundOf first) hm hl
  simp only [joinFold, hc, hcl, ho, Bool.or_self, Bool.false_eq_true, if_false, if_true]
  simpa [soundOf] using this

/-- notes without tie marks sound as they are -/
theorem ties_untied (ns : List TNote) (h : ∀ n ∈ ns, n.tOpen = false ∧ n.tCont = false ∧ n.tClose = false) :
    joinFold ns [] = ns.map soundOf := by
  induction ns with
  | nil => rfl
  | cons n rest ih =>
    obtain ⟨a, b, c⟩ := h n (by simp)
    simp [joinFold, a, b, c, ih (fun x hx => h x (by simp [hx]))]

def tn (on du : Rat) (o c cl : Bool) : TNote := ⟨on, du, "G", 1, 5, o, c, cl⟩

example : joinFold [tn 2 (1/2) true false false, tn (5/2) (1/2) false true false, tn 3 1 false false true] []
    = [⟨2, 2, "G", 1, 5⟩] := by
  have := ties_join (tn 2 (1/2) true false false) [tn (5/2) (1/2) false true false] (tn 3 1 false false true)
    (by simp [tn]) (by simp [tn, samePitch, soundOf]) (by simp [tn, samePitch, soundOf])
  simp [tn] at this ⊢
  rw [this]
  norm_num

/-- the semantics joins ties note by note, also inside chords: `[2c [2e` / `2c] 2e]` denotes two sounding
    notes of four quarters (open finding F-C19-kern-chord-ties: `load_kern` leaves these four notes untied) -/
example :
    joinFold [⟨0, 2, "C", 0, 4, true, false, false⟩, ⟨0, 2, "E", 0, 4, true, false, false⟩,
              ⟨2, 2, "C", 0, 4, false, false, true⟩, ⟨2, 2, "E", 0, 4, false, false, true⟩] []
      = [⟨0, 4, "C", 0, 4⟩, ⟨0, 4, "E", 0, 4⟩] := by decide +kernel

/-! ## grace notes -/

/-- `grace_zero`: a `q` token has duration 0 and does not advance its spine -/
theorem grace_zero (t : SubTok) (h : t.grace = true) :
    subValue t = some 0 ∧ ∀ toks a, t ∈ toks → tokAdv toks = some a → a = 0 := by
  refine ⟨subValue_grace t h, fun toks a hmem ha => tokAdv_grace toks a ?_ ha⟩
  exact List.any_eq_true.mpr ⟨t, hmem, h⟩

example : tokAdv [{ qC with grace := true, recip := none }] = some 0 := by decide +kernel

/-! ## divisions -/

/-- `divisions_exact`: with divs := lcm of the denominators of all values (in quarters), every value
    times divs is a whole number; holds for every list of values, kern or MEI -/
theorem divisions_exact (l : List Rat) :
    0 < lcmDen l ∧ ∀ v ∈ l, ∃ n : Int, v * (lcmDen l : Rat) = (n : Rat) :=
  ⟨foldl_lcm_pos l 1 Nat.one_pos, fun v hv => mul_den_multiple v _ (foldl_lcm_mem_dvd l 1 v hv)⟩

/-- every onset and duration of a denoted kern part is a whole number of the part's divisions -/
theorem kern_part_divisions_exact (p : Model.Kern.Part) (n : Model.Kern.Note) (hn : n ∈ p.notes) :
    (∃ k : Int, n.dur * (partDivs p : Rat) = (k : Rat)) ∧ (∃ k : Int, n.onset * (partDivs p : Rat) = (k : Rat)) := by
  constructor
  · exact (divisions_exact _).2 n.dur (List.mem_append.mpr (Or.inl (List.mem_map.mpr ⟨n, hn, rfl⟩)))
  · exact (divisions_exact _).2 n.onset (List.mem_append.mpr (Or.inr (List.mem_map.mpr ⟨n, hn, rfl⟩)))

example : lcmDen [1 / 3, 3 / 4, 1 / 2] = 12 := by decide +kernel

/-! ## MEI -/

/-- `mei_duration`: `@dur` = v, d dots, inside a tuplet of `num` in the time of `numbase` -/
theorem mei_duration (v : Rat) (d num numbase : Nat) :
    meiValue v d (some (num, numbase)) = 4 / v * (2 - 1 / (2 : Rat) ^ d) * (numbase : Rat) / (num : Rat) ∧
    meiValue v d none = 4 / v * (2 - 1 / (2 : Rat) ^ d) :=
  ⟨meiValue_closed v d num numbase, meiValue_closed_plain v d⟩

example : meiValue 8 0 (some (3, 2)) = 1 / 3 := by rw [(mei_duration 8 0 3 2).1]; norm_num
example : meiValue 4 2 none = 7 / 4 := by rw [(mei_duration 4 2 0 0).2]; norm_num

/-- the `@dur` values partitura accepts denote the reciprocals of its own table (whole finite table) -/
theorem mei_durs_table :
    ∀ e ∈ Gen.MEI_DURS_TO_SYMBOLIC, durNumber e.1 = Model.lookup e.2 Gen.SYMBOLIC_TO_INT_DURS := by
  decide +kernel

/-- `mei_inferPpq_exact`: when no element declares `@dur.ppq`, the inferred divisions (numerator of the
    reduced tuplet fraction, doubled per dot, lcm with 4 and the beat units, / 4) are a positive whole
    number that makes every written value and every measure-rest length a whole number of divisions.
    For all element lists, dot counts and tuplet ratios. -/
theorem mei_inferPpq_exact (els : List DurEl) (units : List Nat) (ppq : Rat)
    (hno : ∀ e ∈ els, e.durppq = none) (h : inferPpq els units = some ppq) :
    (∃ m : Nat, 0 < m ∧ ppq = (m : Rat)) ∧
    (∀ e ∈ els, WellFormed e → ∃ n : Int, ppq * meiValue e.v e.dots e.tup = (n : Rat)) ∧
    (∀ u ∈ units, u ≠ 0 → ∀ beats : Nat, ∃ n : Int, ppq * (4 * (beats : Rat) / (u : Rat)) = (n : Rat)) := by
  simp only [inferPpq] at h
  cases hk : allKeys els with
  | none => simp [hk] at h
  | some keys =>
    simp only [hk] at h
    have hfind : (els.zip keys).find? (fun ek => ek.1.durppq.isSome) = none := by
      apply List.find?_eq_none.mpr
      intro x hx
      have := hno x.1 (List.of_mem_zip hx).1
      simp [this]
    simp only [hfind, Option.some.injEq] at h
    subst h
    set ks := keys ++ units.map (fun (u : Nat) => (u : Rat)) with hks
    have hL : lcmKeys ks = ks.foldl F 4 := rfl
    refine ⟨?_, ?_, ?_⟩
    · obtain ⟨t, ht⟩ := fold_acc_dvd ks 4
      have hpos := fold_pos ks 4 (by decide)
      refine ⟨t, by omega, ?_⟩
      rw [hL, ht]; push_cast; field_simp
    · intro e he hw
      obtain ⟨k, hkm, hd⟩ := allKeys_mem els keys hk e he
      rw [hL]
      exact elem_exact ks e k hd (List.mem_append.mpr (Or.inl hkm)) hw
    · intro u hu hu0 beats
      have hmem : ((u : Rat)) ∈ ks := List.mem_append.mpr (Or.inr (List.mem_map.mpr ⟨u, hu, rfl⟩))
      have hdvd := fold_mem_dvd ks 4 u (Nat.one_le_iff_ne_zero.mpr hu0) hmem
      rw [hL]
      refine exact_of_key _ u hdvd (Nat.pos_of_ne_zero hu0) _ (beats : Int) ?_
      have : (u : Rat) ≠ 0 := by exact_mod_cast hu0
      push_cast
      field_simp

/-- non-vacuity: a dotted quarter, a triplet eighth, a double-dotted breve and a 5/8 meter -/
example : inferPpq [⟨4, 1, none, none⟩, ⟨8, 0, some (3, 2), none⟩, ⟨1 / 2, 2, none, none⟩] [8] = some 6 := by
  decide +kernel

example : WellFormed ⟨8, 0, some (3, 2), none⟩ ∧ WellFormed ⟨1 / 2, 2, none, none⟩ ∧ WellFormed ⟨4, 1, none, none⟩ := by
  refine ⟨by simp [WellFormed], ?_, ?_⟩
  · exact Or.inr ⟨1, by norm_num⟩
  · exact Or.inl ⟨4, by norm_num, by norm_num⟩

/-- with `@dur.ppq` present the first such element fixes the divisions: its `@dur.ppq` is then exactly its value -/
theorem mei_ppq_from_dur_ppq (e : DurEl) (rest : List DurEl) (units : List Nat) (q : Nat) (ppq : Rat)
    (hq : e.durppq = some q) (h : inferPpq (e :: rest) units = some ppq) :
    ppq * meiValue e.v e.dots e.tup = (q : Rat) := by
  simp only [inferPpq] at h
  cases hk : allKeys (e :: rest) with
  | none => simp [hk] at h
  | some keys =>
    simp only [hk] at h
    simp only [allKeys] at hk
    split at hk
    · rename_i k ks hk1 hk2
      simp only [Option.some.injEq] at hk
      subst hk
      simp only [List.zip_cons_cons, List.find?_cons, hq, Option.isSome_some] at h
      by_cases h0 : meiValue e.v e.dots e.tup = 0
      · simp [h0] at h
      · simp only [h0, if_false, Option.some.injEq, Option.getD_some] at h
        subst h
        field_simp
    · simp at hk

end C19
