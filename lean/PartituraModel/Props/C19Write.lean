/-
C19 — the writers.  `export_import` for partitura's **kern exporter: the document `save_kern` writes for an
exportable part (model: `Model/KernWrite.lean`, compared cell by cell with the real output on every run)
denotes, under the semantics of `Model/Kern.lean` (the one `load_kern` is compared against), every note and
grace note of the part with its onset and duration in quarters, its spelling and its staff.
Helper lemmas: `Proofs/C19Write.lean`.  All statements are for every part; nothing is bounded.
-/
import PartituraModel.Proofs.C19Write

namespace C19
open Model Model.Kern Model.KernWrite

/-- `export_import` (kern): for every exportable part the writer succeeds, the written document is well formed
    under the denotational semantics, and the notes it denotes include every note and grace note of the part
    (onset, duration, kind, step, alteration, octave, staff).
    `Exportable` (decidable, `Model/KernWrite.lean`): a positive number of divisions, at least one note or rest,
    every note with a step A–G and an alteration −2…2 or none, every note and rest with a symbolic duration
    (type of `KERN_DURS`, dots, tuplet ratio) worth exactly its length, clef signs G/F/C, and every
    (voice, staff) column complete: whatever starts at a time point in a column starts where the column's
    previous token ended. -/
theorem export_import_kern (p : XPart) (h : Exportable p = true) :
    ∃ rows parts, writeKern p = some rows ∧ Kern.denote rows = some parts ∧
      ∀ f ∈ facts p, ∃ part ∈ parts, ∃ x ∈ part.notes, factOfKernNote x = f :=
  C19W.export_import_kern_aux p h

/-- the token written for one exportable note, grace note or rest reads back as that event: its value in quarters
    (0 for a grace note), its spelling, and no other meaning (character level, every octave, dot count and
    tuplet ratio) -/
theorem kern_token_roundtrip (divs : Nat) (n : XNote) (h : noteOk divs n = true) :
    ∃ cs t, noteTok n = some cs ∧ parseSub cs = some t ∧
      subValue t = some (if n.kind = 1 then 0 else (n.dur : Rat) / (divs : Rat)) ∧
      t.grace = decide (n.kind = 1) ∧
      t.pitch = (if n.kind = 2 then none else some (n.step, n.octave)) ∧
      (n.kind ≠ 2 → t.alter = n.alter.getD 0) ∧ ' ' ∉ cs := by
  obtain ⟨cs, t, hs⟩ := C19W.noteTok_spec divs n h
  exact ⟨cs, t, hs.tok, hs.parse, hs.value, hs.grace, hs.pitch, hs.alter, hs.nosp⟩

/-- the exporter's duration table is the inverse of the importer's (whole finite tables) -/
theorem kern_durs_inverse :
    (∀ e ∈ kernDursW, Model.lookup (String.ofList e.2) kernDurs = some e.1) ∧
    (∀ e ∈ kernDurs, Model.lookup e.2 kernDursW = some e.1.toList) := by
  decide +kernel

/-- the exporter's letters are the importer's: the letter of octave 3 / 4 of every step (whole finite tables) -/
theorem kern_letters_inverse :
    ∀ e ∈ stepLetters, lookupNote e.2.1 kernNotes = some (e.1, 3) ∧ lookupNote e.2.2 kernNotes = some (e.1, 4) := by
  decide +kernel

/-! ### non-vacuity -/

/-- two voices on one staff and a second staff; a chord entered in alternating order with the other voice,
    a tie, a dotted note, a triplet, a grace note, rests, a clef for one staff only, meter and key -/
def demoPart : XPart :=
  let nt (kind voice staff : Nat) (ty : String) (dots : Nat) (tup : Option (Nat × Nat)) (step : String)
      (alter : Option Int) (oct : Int) (tn tp : Bool) (dur : Nat) : El :=
    .note { kind := kind, voice := voice, staff := staff, sym := some ⟨ty, dots, tup⟩, step := step, alter := alter,
            octave := oct, tieNext := tn, tiePrev := tp, dur := dur }
  { divs := 6,
    points := [
      (0, [.clef 1 "G" 2, .clef 2 "F" 4, .tsig 2 4, .ksig (-2), .measure 1,
           nt 1 1 1 "eighth" 0 none "D" none 5 false false 0,
           nt 0 1 1 "quarter" 1 none "C" none 4 true false 9,
           nt 0 2 1 "quarter" 0 none "C" (some 1) 3 false false 6,
           nt 0 1 1 "quarter" 1 none "E" (some (-1)) 4 false false 9,
           nt 2 3 2 "half" 0 none "" none 0 false false 12]),
      (6, [nt 0 2 1 "eighth" 0 (some (3, 2)) "B" (some 0) 2 false false 2]),
      (8, [nt 0 2 1 "eighth" 0 (some (3, 2)) "A" none 6 false false 2]),
      (9, [nt 0 1 1 "eighth" 0 none "C" none 4 false true 3]),
      (10, [nt 2 2 1 "eighth" 0 (some (3, 2)) "" none 0 false false 2]),
      (12, [.other])] }

example : Exportable demoPart = true := by decide +kernel

example : (writeKern demoPart).map (fun rows => rows.map fun r => r.map String.ofList) = some [
    ["**kern", "**kern", "**kern"], ["*staff1", "*staff1", "*staff2"],
    ["*clefG2", "*clefG2", "."], [".", ".", "*clefF4"], ["*M2/4", "*M2/4", "*M2/4"],
    ["*k[f-c-g-d-a]", "*k[f-c-g-d-a]", "*k[f-c-g-d-a]"], ["=1", "=1", "=1"],
    ["qdd", ".", "."], ["4.c[ 4.e-", "4C#", "2r"], [".", "12BBn", "."], [".", "12aaa", "."], ["8c]", ".", "."],
    [".", "12r", "."], ["*-", "*-", "*-"]] := by decide +kernel

/-- a voice with a gap is not exportable: the writer has no way to say "nothing here", the next token moves up -/
def gapPart : XPart :=
  { divs := 1, points := [
      (0, [.note { kind := 0, voice := 1, staff := 1, sym := some ⟨"quarter", 0, none⟩, step := "C", alter := none,
                   octave := 4, tieNext := false, tiePrev := false, dur := 1 }]),
      (2, [.note { kind := 0, voice := 1, staff := 1, sym := some ⟨"quarter", 0, none⟩, step := "D", alter := none,
                   octave := 4, tieNext := false, tiePrev := false, dur := 1 }])] }

example : Exportable gapPart = false := by decide +kernel

/-- … and there the conclusion of `export_import_kern` indeed fails: the part has its D4 at quarter 2, the
    document written for it has it at quarter 1 (read by the state machine before the notes are sorted into parts) -/
example : (facts gapPart).map (fun f => (f.onset, f.step)) = [(0, "C"), (2, "D")] ∧
    ((writeKern gapPart).bind run).map (fun st => st.notes.reverse.map fun r => (r.onset, r.step)) = some [(0, "C"), (1, "D")] := by
  decide +kernel

end C19
