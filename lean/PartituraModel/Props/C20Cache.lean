/-
C20 — a read that writes: `Part.number_of_staves` fills the memo `_number_of_staves` (Model/StavesCache.lean).
Proved for ALL histories of documented operations (add / remove / read / compute, in any order and number): a read
never changes the objects, the memo is always absent or right, and every result is the result of the memo-free
machine — so it cannot matter whether, when or how often the part was read before (the `warm` histories of the
generators are instances).  The guarantee stops at attribute assignment behind the part's back (`example`).
-/
import PartituraModel.Model.StavesCache

namespace C20Cache
open Model.StavesCache

/-- the memo is absent or holds what a computation would give now -/
def Coherent (p : PartS) : Prop := p.memo = none ∨ p.memo = some (maxStaves p.staves)

/-- **reading does not change the objects**: `number_of_staves` and `compute_number_of_staves` leave every staff
    attribute (and the number and order of the objects) as it was; only the memo may be filled -/
theorem read_frame (p : PartS) :
    (step p Op.read).1.staves = p.staves ∧ (step p Op.compute).1.staves = p.staves := by
  constructor
  · simp only [step]
    cases p.memo <;> rfl
  · rfl

/-- the memo stays coherent under every documented operation -/
theorem coherent_step (p : PartS) (op : Op) (hd : documented [op] = true) (h : Coherent p) :
    Coherent (step p op).1 := by
  cases op with
  | add s => exact Or.inl rfl
  | remove i => exact Or.inl rfl
  | compute => exact Or.inr rfl
  | setStaff i s => simp [documented] at hd
  | read =>
    simp only [step]
    cases hm : p.memo with
    | none => exact Or.inr rfl
    | some m => simpa [hm] using h

/-- a read of a coherent part returns what a fresh computation returns -/
theorem read_correct (p : PartS) (h : Coherent p) : (step p Op.read).2 = some (maxStaves p.staves) := by
  simp only [step]
  cases hm : p.memo with
  | none => rfl
  | some m =>
    rcases h with h | h
    · rw [hm] at h; cases h
    · rw [hm] at h; simpa using h

/-- **no result depends on the memo**: started from any coherent state, every history of documented operations
    returns, call by call, what the memo-free machine returns, and leaves the same objects -/
theorem memo_irrelevant (ops : List Op) :
    ∀ (p : PartS), documented ops = true → Coherent p →
      (run p ops).2 = (runRef p.staves ops).2 ∧ (run p ops).1.staves = (runRef p.staves ops).1 ∧
      Coherent (run p ops).1 := by
  induction ops with
  | nil => intro p _ h; exact ⟨rfl, rfl, h⟩
  | cons op ops ih =>
    intro p hd h
    have hd1 : documented [op] = true := by
      cases op <;> simp_all [documented]
    have hd2 : documented ops = true := by
      cases op <;> simp_all [documented]
    have hc := coherent_step p op hd1 h
    have hst : (step p op).1.staves = (stepRef p.staves op).1 := by
      cases op with
      | read => exact (read_frame p).1
      | compute => rfl
      | add s => rfl
      | remove i => rfl
      | setStaff i s => rfl
    have hout : (step p op).2 = (stepRef p.staves op).2 := by
      cases op with
      | read => exact read_correct p h
      | compute => rfl
      | add s => rfl
      | remove i => rfl
      | setStaff i s => rfl
    obtain ⟨h1, h2, h3⟩ := ih (step p op).1 hd2 hc
    simp only [run, runRef]
    rw [hout, h1, h2, hst]
    exact ⟨rfl, rfl, h3⟩

/-- **history independence**: two parts holding the same objects — one never read, one read any number of times
    (any coherent memo) — give identical results for every further history of documented operations -/
theorem history_independent (p q : PartS) (ops : List Op) (hs : p.staves = q.staves)
    (hp : Coherent p) (hq : Coherent q) (hd : documented ops = true) :
    (run p ops).2 = (run q ops).2 ∧ (run p ops).1.staves = (run q ops).1.staves := by
  obtain ⟨a1, a2, _⟩ := memo_irrelevant ops p hd hp
  obtain ⟨b1, b2, _⟩ := memo_irrelevant ops q hd hq
  rw [a1, a2, b1, b2, hs]
  exact ⟨rfl, rfl⟩

/-- every state reached from a new part by documented operations is coherent (`Part.__init__` sets the memo to None) -/
theorem reachable_coherent (ops : List Op) (hd : documented ops = true) : Coherent (run init ops).1 :=
  (memo_irrelevant ops init hd (Or.inl rfl)).2.2

/-- non-vacuity: a part that was read is coherent with a filled memo -/
example : Coherent { staves := [some 2, none], memo := some 2 } := Or.inr (by decide)

/-- where the guarantee stops: `note.staff = 3` on a note that is already on the timeline does not go through the
    part, the memo is not cleared, and the next read is stale (1 instead of 3) -/
example :
    (run init [Op.add (some 1), Op.read, Op.setStaff 0 (some 3), Op.read]).2 = [none, some 1, none, some 1] ∧
    (runRef [] [Op.add (some 1), Op.read, Op.setStaff 0 (some 3), Op.read]).2 = [none, some 1, none, some 3] := by
  decide

end C20Cache
