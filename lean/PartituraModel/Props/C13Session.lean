/-
C13, round 3 — the roll is a function of the VALUES of its arguments only.

A session is a store of argument objects (numbers, numpy scalars, 0-d arrays, arrays, lists — what callers bind
`time_div`, `time_margin`, `end_time` to) and a sequence of `compute_pianoroll` /
`compute_pitch_class_pianoroll` calls naming them by address (`Model/PianoRollSession.lean`).

* `session_frame`: after any sequence of calls every argument object holds the value it had before;
* `session_pure`: the result of every call is the result that call has on its own — no call history matters;
* `session_repeat`: the same call made twice in a session returns the same result;
* `args_by_value` / `pc_args_by_value`: the result depends on `time_div` only through `int(time_div)` and on
  `end_time` only through its single element, whatever the container;
* `container_value`: a Python number, a numpy scalar, a 0-d array, a one-element array and a one-element list
  holding the same number are the same `end_time`; a number and a 0-d array are the same `time_div` / `time_margin`;
* `session_by_value`: two stores whose objects are pairwise equivalent (same values, containers may differ)
  give the same results for every sequence of calls.

The harness runs whole sessions against the implementation and compares every result and the final store.
-/
import PartituraModel.Props.C13Args
import PartituraModel.Proofs.C13Session

namespace C13
open Model Model.PianoRoll
open List

/-! ### the store is never written; no result depends on the history -/

/-- **frame**: whatever calls are made, in whatever order, the caller's argument objects are unchanged -/
theorem session_frame (kind : String) (a : NoteArray) (st : Store) (cs : List Call) :
    (runSession kind a st cs).2 = st := by
  induction cs generalizing st with
  | nil => rfl
  | cons c cs ih =>
    show (runSession kind a (step kind a st c).2 cs).2 = st
    rw [ih]; rfl

/-- **no history**: the results of a session are the results each call has when it is the only call made -/
theorem session_pure (kind : String) (a : NoteArray) (st : Store) (cs : List Call) :
    (runSession kind a st cs).1 = cs.map (evalCall kind a st) := by
  induction cs generalizing st with
  | nil => rfl
  | cons c cs ih =>
    show (step kind a st c).1 :: (runSession kind a (step kind a st c).2 cs).1 = _
    rw [ih]; rfl

/-- **a repeated call repeats its result**, however many other calls were made in between -/
theorem session_repeat (kind : String) (a : NoteArray) (st : Store) (cs : List Call) (i j : Nat) (c : Call)
    (hi : cs[i]? = some c) (hj : cs[j]? = some c) :
    (runSession kind a st cs).1[i]? = (runSession kind a st cs).1[j]? := by
  rw [session_pure, List.getElem?_map, List.getElem?_map, hi, hj]

/-- a prefix of a session leaves the store as a fresh session finds it: a session can be cut anywhere -/
theorem session_append (kind : String) (a : NoteArray) (st : Store) (cs ds : List Call) :
    (runSession kind a st (cs ++ ds)).1 = (runSession kind a st cs).1 ++ (runSession kind a st ds).1 := by
  rw [session_pure, session_pure, session_pure, List.map_append]

/-! a session like the documented use: two renderings to a common `end_time = part.beat_map([t])`, silence removed
    (first onset 2), then one with the silence kept, then the first again -/

def sessArray : NoteArray :=
  { units := ["beat"], hasVel := false, hasChan := false,
    rows := [⟨60, [(2, 1)], none, none⟩, ⟨64, [(3, 1)], none, none⟩, ⟨67, [(4, 2)], none, none⟩] }
def sessStore : Store := [.arr0 4, .num 0, .arr [10]]
def sessCall (rs : Bool) : Call :=
  .pr { kw := { KwArgs.empty with removeSilence := some rs }, td := some 0, tm := some 1, et := some 2 }
def outShape : Out → Option (Int × Int)
  | .roll r _ => some (r.rows, r.cols)
  | .pc p => some (12, p.cols)
  | _ => none

example : (runSession "array" sessArray sessStore [sessCall true, sessCall true, sessCall false, sessCall true]).1.map outShape
    = [some (128, 32), some (128, 32), some (128, 40), some (128, 32)] := by decide +kernel
example : (runSession "array" sessArray sessStore [sessCall true, sessCall false]).2 = sessStore := by decide +kernel
/-- an array with two elements is no end time, a dangling address is outside the model -/
example : (runSession "array" sessArray [.arr0 4, .num 0, .arr [10, 11]] [sessCall true]).1.map outShape = [none] := by
  decide +kernel

/-! ### values, not containers -/

/-- **`time_div` counts through `int()`, `end_time` through its single element** -/
theorem args_by_value (kind : String) (a : NoteArray) (kw : KwArgs) (td' : Option TimeDivArg) (et' : Option EndTimeArg)
    (htd : resolveTimeDiv td' = resolveTimeDiv kw.timeDiv) (het : resolveEndTime et' = resolveEndTime kw.endTime) :
    computePianorollKw kind a { kw with timeDiv := td', endTime := et' } = computePianorollKw kind a kw := by
  unfold computePianorollKw resolveArgs
  simp only [htd, het]

/-- the same for the pitch-class roll -/
theorem pc_args_by_value (kind : String) (a : NoteArray) (kw : PcKw) (td' : TimeDivArg) (et' : EndTimeArg)
    (td : TimeDivArg) (et : EndTimeArg) (hk : kw.timeDiv = some td) (he : kw.endTime = some et)
    (htd : resolveTimeDiv (some td') = resolveTimeDiv (some td)) (het : resolveEndTime (some et') = resolveEndTime (some et)) :
    computePcKw kind a { kw with timeDiv := some td', endTime := some et' } = computePcKw kind a kw := by
  have h : computePianorollKw kind a (pcInnerKw { kw with timeDiv := some td', endTime := some et' })
      = computePianorollKw kind a (pcInnerKw kw) := by
    have := args_by_value kind a (pcInnerKw kw) (some td') (some et')
      (by simp only [pcInnerKw, hk, Option.getD_some]; exact htd)
      (by simp only [pcInnerKw, he]; exact het)
    rw [← this]
    simp only [pcInnerKw, Option.getD_some]
  unfold computePcKw
  rw [h]

/-- **one value, many containers**: as `end_time`, the Python number / numpy scalar `q`, the 0-d array holding `q`,
    the one-element array `[q]` (of any dtype and shape `(1,)`, `(1,1)`, …) and the list / tuple `[q]` all stand for
    `q`; as `time_div` and `time_margin` a number and a 0-d array are the same -/
theorem container_value (q : Rat) :
    (resolveEndTime (some (ArgObj.num q).asEndTime) = some (some q) ∧
     resolveEndTime (some (ArgObj.arr0 q).asEndTime) = some (some q) ∧
     resolveEndTime (some (ArgObj.arr [q]).asEndTime) = some (some q) ∧
     resolveEndTime (some (ArgObj.seq [q]).asEndTime) = some (some q)) ∧
    (ArgObj.arr0 q).asTimeDiv = (ArgObj.num q).asTimeDiv ∧
    (ArgObj.arr0 q).asTimeMargin = (ArgObj.num q).asTimeMargin :=
  ⟨⟨rfl, rfl, rfl, rfl⟩, rfl, rfl⟩

/-- `time_div = 8`, `8.0` and `8.7` are the same resolution (Python's `int()`) -/
theorem time_div_by_int (q q' : Rat) (h : truncRat q = truncRat q') :
    resolveTimeDiv (some (.num q)) = resolveTimeDiv (some (.num q')) := by
  unfold resolveTimeDiv; simp only [h]

example : ArgObj.Equiv (.num 8) (.arr0 8) := ⟨rfl, rfl, rfl⟩
example : ¬ ArgObj.Equiv (.num 8) (.arr [8]) := by
  intro h; have := h.2.1; simp [ArgObj.asTimeMargin] at this


/-- one call on two equivalent stores -/
theorem evalCall_by_value (kind : String) (a : NoteArray) {st st' : Store} (h : StoreEquiv st st') (c : Call) :
    evalCall kind a st c = evalCall kind a st' c := by
  cases c with
  | pr r =>
    rcases binds_equiv h r.td r.tm r.et r.kw.timeDiv r.kw.timeMargin r.kw.endTime with ⟨n1, n2⟩ |
      ⟨x, x', m, e, e', a1, a2, b1, b2, c1, c2, hx, he⟩
    · simp only [evalCall, derefKw_none n1, derefKw_none n2]
    · have d1 : derefKw st r = some { r.kw with timeDiv := x, timeMargin := m, endTime := e } := by
        simp only [derefKw, a1, b1, c1]
      have d2 : derefKw st' r = some { r.kw with timeDiv := x', timeMargin := m, endTime := e' } := by
        simp only [derefKw, a2, b2, c2]
      have := cpk_congr kind a { r.kw with timeDiv := x, timeMargin := m, endTime := e }
        { r.kw with timeDiv := x', timeMargin := m, endTime := e' } rfl rfl rfl rfl rfl rfl rfl rfl rfl rfl
        (resolve_of_rel_td hx) (resolve_of_rel_et he)
      simp only [evalCall, d1, d2, this]
  | pc r =>
    rcases binds_equiv h r.td r.tm r.et r.kw.timeDiv r.kw.timeMargin r.kw.endTime with ⟨n1, n2⟩ |
      ⟨x, x', m, e, e', a1, a2, b1, b2, c1, c2, hx, he⟩
    · simp only [evalCall, derefPc_none n1, derefPc_none n2]
    · have d1 : derefPc st r = some { r.kw with timeDiv := x, timeMargin := m, endTime := e } := by
        simp only [derefPc, a1, b1, c1]
      have d2 : derefPc st' r = some { r.kw with timeDiv := x', timeMargin := m, endTime := e' } := by
        simp only [derefPc, a2, b2, c2]
      have inner : computePianorollKw kind a (pcInnerKw { r.kw with timeDiv := x, timeMargin := m, endTime := e })
          = computePianorollKw kind a (pcInnerKw { r.kw with timeDiv := x', timeMargin := m, endTime := e' }) := by
        apply cpk_congr <;> try rfl
        · show resolveTimeDiv (some (x.getD _)) = resolveTimeDiv (some (x'.getD _))
          rcases hx with rfl | ⟨t, t', rfl, rfl, ht⟩
          · rfl
          · exact ht
        · show resolveEndTime (match e with | some z => some z | none => _) =
            resolveEndTime (match e' with | some z => some z | none => _)
          rcases he with rfl | ⟨t, t', rfl, rfl, ht⟩
          · rfl
          · exact ht
      simp only [evalCall, d1, d2, computePcKw, inner]

/-- **values, not containers, for whole sessions**: two stores whose objects are pairwise read the same way (a
    one-element array where the other has a number as `end_time`, a 0-d array for a number, `8.0` for `8` as
    `time_div`, …) give the same results for every sequence of calls -/
theorem session_by_value (kind : String) (a : NoteArray) {st st' : Store} (h : StoreEquiv st st') (cs : List Call) :
    (runSession kind a st cs).1 = (runSession kind a st' cs).1 := by
  rw [session_pure, session_pure]
  exact List.map_congr_left fun c _ => evalCall_by_value kind a h c

/-- a session on `[8 (0-d array), 1/2, [10] (one-element array)]` and one on `[8, 1/2 (0-d array), [10] (list)]`;
    an object that is a number in one store and a one-element array in the other is equivalent as `end_time` only
    (`container_value`, `args_by_value`), not as `time_div` / `time_margin`, where the array is rejected -/
example : StoreEquiv [.arr0 8, .num (1/2), .arr [10]] [.num 8, .arr0 (1/2), .seq [10]] :=
  ⟨⟨rfl, rfl, rfl⟩, ⟨rfl, rfl, rfl⟩, ⟨rfl, rfl, rfl⟩, trivial⟩

end C13
