/-
C08 — bar starts and onsets survive writing and reading for time signatures of MIXED beat types
(any number of changes of beat count and beat type).  Property theorems over Model/MatchTime.lean.

The file holds the position of a time-signature change only as a beat time with four decimals.  The importer's
beats→quarters map therefore has its kinks up to 1/20000 beat away from the true ones; `knotErr` is exactly what
that costs.  The theorems give the importer's values EXACTLY (true value + rounding of the note's own beat time
+ `knotErr`) and conclude that the loaded positions in divisions are exact whenever
`divisions × (1/(5000·beat type) + |knotErr|) < 1/2`; `knotErr = 0` when the changes fall on beat times that four
decimals hold exactly (whole beats: every change at the start of a bar after complete bars), and
`|knotErr| ≤ (number of changes)/5000` always.
-/
import PartituraModel.Model.MatchTime
import PartituraModel.Proofs.C08
import PartituraModel.Proofs.C08Mixed
import PartituraModel.Proofs.Round
import PartituraModel.Props.C08

namespace C08
open Model Model.MatchTime C08P C08M

/-- a score as the exporter accepts it: a positive divisions value below 2500 (so that beat times one division
    apart differ in the fourth decimal), time signatures at strictly increasing times, positive beat types -/
structure WrittenScore (sc : Score) : Prop where
  divs_pos : 0 < sc.divs
  divs_small : sc.divs < 2500
  sorted : sc.ts.Pairwise (fun a b => a.t < b.t)
  den_pos : ∀ s ∈ sc.ts, 0 < s.den

/-- non-vacuity: 3/4, then 6/8 from division 12, then 2/2 from division 24, 4 divisions per quarter,
    a pickup of one quarter -/
def exampleScore : Score :=
  { divs := 4, ts := [⟨0, 3, 4⟩, ⟨4, 6, 8⟩, ⟨16, 2, 2⟩], ms := [⟨0, 4⟩, ⟨4, 16⟩, ⟨16, 32⟩] }

example : WrittenScore exampleScore :=
  ⟨by decide, by decide, by decide, by decide⟩

/-- **quarters_recovered.**  For every written score, every time `o` at or after the first time signature:
    the importer's beats→quarters map, built from the time-signature lines of the file and evaluated at the
    four-decimal beat time of `o`, is the true position of `o` in quarters plus the rounding of that beat
    time (at the slope `4/beat type` of the signature in force) plus `knotErr`. -/
theorem quarters_recovered (sc : Score) (wf : WrittenScore sc) (mnum : Int → Int)
    (s0 : TSig) (rest : List TSig) (hts : sc.ts = s0 :: rest) (o : Int) (ho : s0.t ≤ o)
    (sk : TSig) (hat : tsAt sc.ts o = some sk) :
    beatsToQuarters (sc.tsLines mnum) (dec4 (sc.beats o))
      = sc.quarters o + 4 * (dec4 (sc.beats o) - sc.beats o) / (sk.den : Rat) + knotErr sc.beats sc.ts o := by
  have hpw := PW_score sc wf.sorted
  have hsorted := wf.sorted
  have hden := wf.den_pos
  rw [hts] at hpw hsorted hden hat
  have hats := hats_of_small_divs sc.divs wf.divs_pos wf.divs_small sc.beats rest s0 hsorted hpw hden
  have hseg := segOK_of_small_divs sc.divs wf.divs_pos wf.divs_small sc.beats rest s0 hsorted hpw hden o ho
  have hls := C08M.lines_sorted sc.beats mnum (s0 :: rest) hats
  rw [tsLines_eq, hts]
  rw [List.map_cons] at hls ⊢
  rw [beatsToQuarters_rec _ _ hls]
  have hex := btq_exact sc.divs wf.divs_pos sc.beats mnum rest s0 hsorted hpw hden o (dec4 (sc.beats o))
    ((tsLineOf sc.beats mnum s0).timeB * 4 / ((tsLineOf sc.beats mnum s0).den : Rat)) sk ho hseg hat
  rw [List.map_cons] at hex
  rw [hex]
  unfold Score.quarters
  rw [hts]
  simp only [tsLineOf]
  ring

/-- non-vacuity and a check of the statement on numbers: in `exampleScore` the note at division 20 (in the
    2/2 stretch, after two changes of beat type) is 4 quarters after beat 0, and the importer's map says so -/
example : beatsToQuarters (exampleScore.tsLines fun _ => 1) (dec4 (exampleScore.beats 20)) = 4
    ∧ exampleScore.quarters 20 = 4 ∧ knotErr exampleScore.beats exampleScore.ts 20 = 0 := by
  decide +kernel

/-- **bars_recovered.**  (All beat types; supersedes `bars_recovered_partial`.)  A bar starts at `ms`; its first
    stored note starts at `o ≥ ms` under the time signature `sk`, and is written as the exporter writes it (beat
    and offset counted in `sk`'s beat type from the bar line, beat time with four decimals).  Then the bar start
    the importer computes from that note is the true one, `sc.quarters ms`, plus the two rounding terms; it is
    within `1/(5000·beat type) + |knotErr|` of it; and with importer divisions `D` such that
    `D·(1/(5000·beat type) + |knotErr|) < 1/2` and the bar line on the division grid the loaded bar line is exact.
    `hend`: the note does not sit exactly at the end of the last stored note (`maxTime`), or it lies in the
    stretch of the last time signature (the importer's beat-type map carries an extra point there). -/
theorem bars_recovered (sc : Score) (wf : WrittenScore sc) (mnum : Int → Int)
    (s0 : TSig) (rest : List TSig) (hts : sc.ts = s0 :: rest) (ms o : Int) (ho : s0.t ≤ o)
    (sk : TSig) (hat : tsAt sc.ts o = some sk) (maxTime : Rat) (n : SNote)
    (hbeat : n.beat = encBeat sc.divs sk.den (o - ms) + 1)
    (hoff : n.offset = Frac.ofRat (encOffset sc.divs sk.den (o - ms)))
    (hon : n.onsetB = dec4 (sc.beats o))
    (hend : n.onsetB < maxTime ∨ sc.ts.getLast? = some sk) :
    barTime (sc.tsLines mnum) maxTime n
        = sc.quarters ms + 4 * (dec4 (sc.beats o) - sc.beats o) / (sk.den : Rat) + knotErr sc.beats sc.ts o
    ∧ |barTime (sc.tsLines mnum) maxTime n - sc.quarters ms|
        ≤ 1 / (5000 * (sk.den : Rat)) + |knotErr sc.beats sc.ts o|
    ∧ ∀ (D : Nat) (shiftQ : Rat) (z : Int),
        (D : Rat) * (1 / (5000 * (sk.den : Rat)) + |knotErr sc.beats sc.ts o|) < 1 / 2 →
        (D : Rat) * (sc.quarters ms - shiftQ) = (z : Rat) →
        roundHalfEven ((D : Rat) * (barTime (sc.tsLines mnum) maxTime n - shiftQ)) = z := by
  have hq := quarters_recovered sc wf mnum s0 rest hts o ho sk hat
  have hpw := PW_score sc wf.sorted
  have hsorted := wf.sorted
  have hden := wf.den_pos
  have hat' := hat
  rw [hts] at hpw hsorted hden hat'
  have hats := hats_of_small_divs sc.divs wf.divs_pos wf.divs_small sc.beats rest s0 hsorted hpw hden
  have hseg := segOK_of_small_divs sc.divs wf.divs_pos wf.divs_small sc.beats rest s0 hsorted hpw hden o ho
  obtain ⟨hmem, hkb, hmax⟩ := seg_facts sc.beats rest s0 hats o (dec4 (sc.beats o)) sk hseg hat'
  have hskpos : 0 < sk.den := hden sk hmem
  -- the beat type looked up for the note
  have hdenAt : denAtBeats (sc.tsLines mnum) maxTime n.onsetB = sk.den := by
    rw [tsLines_eq, hts, List.map_cons, hon]
    apply denAtBeats_seg (tsLineOf sc.beats mnum s0) (rest.map (tsLineOf sc.beats mnum)) maxTime (dec4 (sc.beats o))
      (tsLineOf sc.beats mnum sk)
    · rw [← List.map_cons]; exact List.mem_map.mpr ⟨sk, hmem, rfl⟩
    · exact hkb
    · intro x hx hxb
      rw [← List.map_cons] at hx
      obtain ⟨y, hy, rfl⟩ := List.mem_map.mp hx
      exact hmax y hy hxb
    · rcases hend with h | h
      · left; rw [← hon]; exact h
      · right
        rw [← List.map_cons, getLast?_getD_map, ← hts, h]
        rfl
  have hrange := C08P.enc_offset_range sc.divs sk.den wf.divs_pos hskpos (o - ms)
  have hpos := C08P.enc_position sc.divs sk.den wf.divs_pos hskpos (o - ms)
  have hqms : sc.quarters o - ((o - ms : Int) : Rat) / (sc.divs : Rat) = sc.quarters ms := by
    unfold Score.quarters
    rw [hts]
    simp only
    push_cast
    ring
  have hbar : barTime (sc.tsLines mnum) maxTime n
      = sc.quarters ms + 4 * (dec4 (sc.beats o) - sc.beats o) / (sk.den : Rat) + knotErr sc.beats sc.ts o := by
    unfold barTime
    rw [hdenAt, hon, hq, hbeat, hoff, C08P.Frac.ofRat_val _ hrange.1, ← hqms, ← hpos]
    simp only [add_sub_cancel_right]
    ring
  have hd0 : (0 : Rat) < (sk.den : Rat) := by exact_mod_cast hskpos
  have herr : |barTime (sc.tsLines mnum) maxTime n - sc.quarters ms|
      ≤ 1 / (5000 * (sk.den : Rat)) + |knotErr sc.beats sc.ts o| := by
    rw [hbar]
    have e : sc.quarters ms + 4 * (dec4 (sc.beats o) - sc.beats o) / (sk.den : Rat) + knotErr sc.beats sc.ts o
        - sc.quarters ms = (dec4 (sc.beats o) - sc.beats o) * (4 / (sk.den : Rat)) + knotErr sc.beats sc.ts o := by ring
    rw [e]
    have h4d : (0 : Rat) < 4 / (sk.den : Rat) := div_pos (by norm_num) hd0
    have hclose := C08P.dec4_close (sc.beats o)
    have h1 : |(dec4 (sc.beats o) - sc.beats o) * (4 / (sk.den : Rat))| ≤ 1 / (5000 * (sk.den : Rat)) := by
      rw [abs_mul, abs_of_pos h4d]
      calc |dec4 (sc.beats o) - sc.beats o| * (4 / (sk.den : Rat)) ≤ (1 / 20000) * (4 / (sk.den : Rat)) :=
            mul_le_mul_of_nonneg_right hclose (le_of_lt h4d)
        _ = 1 / (5000 * (sk.den : Rat)) := by field_simp; ring
    exact (abs_add_le _ _).trans (add_le_add h1 (le_refl _))
  refine ⟨hbar, herr, ?_⟩
  intro D shiftQ z hD hz
  apply roundHalfEven_near
  have e : (D : Rat) * (barTime (sc.tsLines mnum) maxTime n - shiftQ) - (z : Rat)
      = (D : Rat) * (barTime (sc.tsLines mnum) maxTime n - sc.quarters ms) := by
    rw [← hz]; ring
  have hDnn : (0 : Rat) ≤ (D : Rat) := by positivity
  rw [e, abs_mul, abs_of_nonneg hDnn]
  exact lt_of_le_of_lt (mul_le_mul_of_nonneg_left herr hDnn) hD

/-- non-vacuity: in `exampleScore` the bar starting at division 16 (2/2), first stored note a quarter later -/
example : ∃ n : SNote, n.beat = encBeat 4 2 (20 - 16) + 1 ∧ n.offset = Frac.ofRat (encOffset 4 2 (20 - 16))
    ∧ n.onsetB = dec4 (exampleScore.beats 20) ∧ tsAt exampleScore.ts 20 = some ⟨16, 2, 2⟩
    ∧ exampleScore.ts.getLast? = some ⟨16, 2, 2⟩
    ∧ barTime (exampleScore.tsLines fun _ => 1) 12 n = exampleScore.quarters 16 :=
  ⟨{ measure := 2, beat := encBeat 4 2 (20 - 16) + 1, offset := Frac.ofRat (encOffset 4 2 (20 - 16)), dur := ⟨1, 4, 1⟩,
     comps := [], onsetB := dec4 (exampleScore.beats 20), offsetB := 0 }, rfl, rfl, rfl, by decide, by decide,
   by decide +kernel⟩

/-- the common case: every change of the time signature falls on a beat time that four decimals hold exactly
    (whole beats — a change at the start of a bar after complete bars).  Then the kinks cost nothing and the
    loaded bar line is exact for every importer divisions value below `2500 · beat type`. -/
theorem bars_recovered_exact_changes (sc : Score) (wf : WrittenScore sc) (mnum : Int → Int)
    (s0 : TSig) (rest : List TSig) (hts : sc.ts = s0 :: rest)
    (hexact : ∀ x ∈ rest, dec4 (sc.beats x.t) = sc.beats x.t)
    (ms o : Int) (ho : s0.t ≤ o)
    (sk : TSig) (hat : tsAt sc.ts o = some sk) (maxTime : Rat) (n : SNote)
    (hbeat : n.beat = encBeat sc.divs sk.den (o - ms) + 1)
    (hoff : n.offset = Frac.ofRat (encOffset sc.divs sk.den (o - ms)))
    (hon : n.onsetB = dec4 (sc.beats o))
    (hend : n.onsetB < maxTime ∨ sc.ts.getLast? = some sk)
    (D : Nat) (hD : (D : Rat) < 2500 * (sk.den : Rat)) (shiftQ : Rat) (z : Int)
    (hz : (D : Rat) * (sc.quarters ms - shiftQ) = (z : Rat)) :
    roundHalfEven ((D : Rat) * (barTime (sc.tsLines mnum) maxTime n - shiftQ)) = z := by
  have h := (bars_recovered sc wf mnum s0 rest hts ms o ho sk hat maxTime n hbeat hoff hon hend).2.2 D shiftQ z
  apply h _ hz
  have hk : knotErr sc.beats sc.ts o = 0 := by rw [hts]; exact knotErr_exact sc.beats rest s0 o hexact
  rw [hk, abs_zero, add_zero]
  have hmem : sk ∈ sc.ts := by
    have hat' := hat
    have hsorted := wf.sorted
    have hden := wf.den_pos
    have hpw := PW_score sc wf.sorted
    rw [hts] at hat' hsorted hden hpw ⊢
    have hats := hats_of_small_divs sc.divs wf.divs_pos wf.divs_small sc.beats rest s0 hsorted hpw hden
    have hseg := segOK_of_small_divs sc.divs wf.divs_pos wf.divs_small sc.beats rest s0 hsorted hpw hden o ho
    exact (seg_facts sc.beats rest s0 hats o (dec4 (sc.beats o)) sk hseg hat').1
  have hd0 : (0 : Rat) < (sk.den : Rat) := by exact_mod_cast (wf.den_pos sk hmem)
  calc (D : Rat) * (1 / (5000 * (sk.den : Rat))) < (2500 * (sk.den : Rat)) * (1 / (5000 * (sk.den : Rat))) :=
        mul_lt_mul_of_pos_right hD (div_pos one_pos (by linarith))
    _ = 1 / 2 := by field_simp; ring

/-- the general bound: every change of the time signature costs at most 1/5000 quarter -/
theorem knotErr_le (sc : Score) (wf : WrittenScore sc) (s0 : TSig) (rest : List TSig) (hts : sc.ts = s0 :: rest)
    (o : Int) : |knotErr sc.beats sc.ts o| ≤ (rest.length : Rat) / 5000 := by
  have hden := wf.den_pos
  rw [hts] at hden ⊢
  exact knotErr_bound sc.beats rest s0 o hden

/-- **onset_roundtrip.**  (All beat types; supersedes `onset_roundtrip_partial`.)  The first stored note of the
    piece starts at `of` (signature `sf`); a bar starts at `ms`, its first stored note at `o₁` (signature `s₁`);
    a stored note of that bar starts `rel` divisions after the bar line and is written with the beat type `den`
    of ITS signature.  The importer shifts all positions by `min(map(first note), 0)`.  If the importer's
    divisions `D` satisfy `D·(E₁ + E_f) < 1/2` with `E = 1/(5000·beat type) + |knotErr|` for the two notes the
    positions are derived from, and the true distance of the note from the loaded origin (the first stored note
    if it is not after beat 0, else beat 0) is on the division grid, then the loaded onset is exactly that
    distance in divisions. -/
theorem onset_roundtrip (sc : Score) (wf : WrittenScore sc) (mnum : Int → Int)
    (s0 : TSig) (rest : List TSig) (hts : sc.ts = s0 :: rest)
    (of : Int) (hof : s0.t ≤ of) (sf : TSig) (hatf : tsAt sc.ts of = some sf)
    (ms o₁ : Int) (ho : s0.t ≤ o₁) (s₁ : TSig) (hat : tsAt sc.ts o₁ = some s₁) (maxTime : Rat) (n : SNote)
    (hbeat : n.beat = encBeat sc.divs s₁.den (o₁ - ms) + 1)
    (hoff : n.offset = Frac.ofRat (encOffset sc.divs s₁.den (o₁ - ms)))
    (hon : n.onsetB = dec4 (sc.beats o₁))
    (hend : n.onsetB < maxTime ∨ sc.ts.getLast? = some s₁)
    (rel : Int) (den : Nat) (hden : 0 < den) (D : Nat)
    (hD : (D : Rat) * ((1 / (5000 * (s₁.den : Rat)) + |knotErr sc.beats sc.ts o₁|)
                      + (1 / (5000 * (sf.den : Rat)) + |knotErr sc.beats sc.ts of|)) < 1 / 2)
    (z : Int)
    (hgrid : (D : Rat) * (sc.quarters ms + (rel : Rat) / (sc.divs : Rat) - min (sc.quarters of) 0) = (z : Rat)) :
    roundHalfEven ((D : Rat) * notePos (barTime (sc.tsLines mnum) maxTime n) (encBeat sc.divs den rel + 1) den
        (Frac.ofRat (encOffset sc.divs den rel)).val
        (min (beatsToQuarters (sc.tsLines mnum) (dec4 (sc.beats of))) 0)) = z := by
  have hbar := (bars_recovered sc wf mnum s0 rest hts ms o₁ ho s₁ hat maxTime n hbeat hoff hon hend).2.1
  have hqf := quarters_recovered sc wf mnum s0 rest hts of hof sf hatf
  -- the first note's position: same bound
  have hmemf : sf ∈ sc.ts := by
    have hat' := hatf
    have hsorted := wf.sorted
    have hden' := wf.den_pos
    have hpw := PW_score sc wf.sorted
    rw [hts] at hat' hsorted hden' hpw ⊢
    have hats := hats_of_small_divs sc.divs wf.divs_pos wf.divs_small sc.beats rest s0 hsorted hpw hden'
    have hseg := segOK_of_small_divs sc.divs wf.divs_pos wf.divs_small sc.beats rest s0 hsorted hpw hden' of hof
    exact (seg_facts sc.beats rest s0 hats of (dec4 (sc.beats of)) sf hseg hat').1
  have hdf : (0 : Rat) < (sf.den : Rat) := by exact_mod_cast (wf.den_pos sf hmemf)
  have herrf : |beatsToQuarters (sc.tsLines mnum) (dec4 (sc.beats of)) - sc.quarters of|
      ≤ 1 / (5000 * (sf.den : Rat)) + |knotErr sc.beats sc.ts of| := by
    rw [hqf]
    have e : sc.quarters of + 4 * (dec4 (sc.beats of) - sc.beats of) / (sf.den : Rat) + knotErr sc.beats sc.ts of
        - sc.quarters of = (dec4 (sc.beats of) - sc.beats of) * (4 / (sf.den : Rat)) + knotErr sc.beats sc.ts of := by ring
    rw [e]
    have h4d : (0 : Rat) < 4 / (sf.den : Rat) := div_pos (by norm_num) hdf
    have hclose := C08P.dec4_close (sc.beats of)
    have h1 : |(dec4 (sc.beats of) - sc.beats of) * (4 / (sf.den : Rat))| ≤ 1 / (5000 * (sf.den : Rat)) := by
      rw [abs_mul, abs_of_pos h4d]
      calc |dec4 (sc.beats of) - sc.beats of| * (4 / (sf.den : Rat)) ≤ (1 / 20000) * (4 / (sf.den : Rat)) :=
            mul_le_mul_of_nonneg_right hclose (le_of_lt h4d)
        _ = 1 / (5000 * (sf.den : Rat)) := by field_simp; ring
    exact (abs_add_le _ _).trans (add_le_add h1 (le_refl _))
  have hmin : |min (beatsToQuarters (sc.tsLines mnum) (dec4 (sc.beats of))) 0 - min (sc.quarters of) 0|
      ≤ |beatsToQuarters (sc.tsLines mnum) (dec4 (sc.beats of)) - sc.quarters of| := C08M.min_zero_lipschitz _ _
  apply position_roundtrip D sc.divs den wf.divs_pos hden rel (barTime (sc.tsLines mnum) maxTime n)
    (min (beatsToQuarters (sc.tsLines mnum) (dec4 (sc.beats of))) 0) (sc.quarters ms) (min (sc.quarters of) 0) z hgrid
  have hDnn : (0 : Rat) ≤ (D : Rat) := by positivity
  have htri : |barTime (sc.tsLines mnum) maxTime n - min (beatsToQuarters (sc.tsLines mnum) (dec4 (sc.beats of))) 0
        - (sc.quarters ms - min (sc.quarters of) 0)|
      ≤ (1 / (5000 * (s₁.den : Rat)) + |knotErr sc.beats sc.ts o₁|)
        + (1 / (5000 * (sf.den : Rat)) + |knotErr sc.beats sc.ts of|) := by
    have e : barTime (sc.tsLines mnum) maxTime n - min (beatsToQuarters (sc.tsLines mnum) (dec4 (sc.beats of))) 0
        - (sc.quarters ms - min (sc.quarters of) 0)
        = (barTime (sc.tsLines mnum) maxTime n - sc.quarters ms)
          - (min (beatsToQuarters (sc.tsLines mnum) (dec4 (sc.beats of))) 0 - min (sc.quarters of) 0) := by ring
    rw [e]
    exact (abs_sub _ _).trans (add_le_add hbar (hmin.trans herrf))
  exact lt_of_le_of_lt (mul_le_mul_of_nonneg_left htri hDnn) hD

/-- non-vacuity: the theorem applied to `exampleScore` (3/4 pickup, 6/8, 2/2): first stored note the pickup at
    division 0; the 2/2 bar starts at division 16, its first stored note a quarter later; the note a half note
    into that bar, loaded with 8 divisions per quarter, sits 8·(3 + 8/4 − (−1)) = 48 divisions after the
    first note -/
example : roundHalfEven (((8 : Nat) : Rat) * notePos
      (barTime (exampleScore.tsLines fun _ => 1) 12
        { measure := 2, beat := encBeat 4 2 (20 - 16) + 1, offset := Frac.ofRat (encOffset 4 2 (20 - 16)),
          dur := ⟨1, 4, 1⟩, comps := [], onsetB := dec4 (exampleScore.beats 20), offsetB := 0 })
      (encBeat 4 2 8 + 1) 2 (Frac.ofRat (encOffset 4 2 8)).val
      (min (beatsToQuarters (exampleScore.tsLines fun _ => 1) (dec4 (exampleScore.beats 0))) 0)) = 48 := by
  have hk1 : knotErr exampleScore.beats exampleScore.ts 20 = 0 := by decide +kernel
  have hk0 : knotErr exampleScore.beats exampleScore.ts 0 = 0 := by decide +kernel
  have hq16 : exampleScore.quarters 16 = 3 := by decide +kernel
  have hq0 : exampleScore.quarters 0 = -1 := by decide +kernel
  apply onset_roundtrip exampleScore ⟨by decide, by decide, by decide, by decide⟩ (fun _ => 1) ⟨0, 3, 4⟩
    [⟨4, 6, 8⟩, ⟨16, 2, 2⟩] rfl 0 (by decide) ⟨0, 3, 4⟩ (by decide) 16 20 (by decide) ⟨16, 2, 2⟩ (by decide) 12 _
    rfl rfl rfl (Or.inr (by decide)) 8 2 (by decide) 8 ?_ 48 ?_
  · rw [hk1, hk0]; norm_num
  · rw [hq16, hq0, min_eq_left (by norm_num : (-1 : Rat) ≤ 0)]
    show ((8 : Nat) : Rat) * (3 + ((8 : Int) : Rat) / ((4 : Nat) : Rat) - -1) = ((48 : Int) : Rat)
    norm_num

end C08
