/-
C05 — "a tie chain is one row ... whose duration in divisions equals the timeline values": the duration of the
row is the SUM of the durations of the members of the chain (anchor: "tie_prev/tie_next chains that decide
which notes produce rows and their summed duration"), which is the span from the first start to the last end
(`end_tied.t - start.t`) exactly when the chain has no gap.  Missed seed C05-k replaced one by the other.
-/
import PartituraModel.Props.C05
import PartituraModel.Proofs.C05Tie

namespace C05
open NoteArray List

/-- `end_tied` is the end of the last note of the chain that `duration_tied` sums over. -/
theorem end_tied_is_last_end (notes : List Note) (n : Note) (e : Int) (h : endTied notes n = some e) :
    ∃ c, chainFrom notes notes.length n = some (n :: c) ∧ Linked notes (n :: c) ∧
      e = lastEnd (n :: c) n.onset := by
  unfold endTied at h
  simp only [Option.map_eq_some_iff] at h
  obtain ⟨c, hc, he⟩ := h
  obtain ⟨t, rfl⟩ := chainFrom_head _ _ _ _ hc
  refine ⟨t, hc, chainFrom_linked _ _ _ _ hc, ?_⟩
  rw [← he, chainEnd_eq_lastEnd]; rfl

/-- `duration_tied` and `end_tied` are defined on the same notes (both follow the same links). -/
theorem end_tied_defined_iff (notes : List Note) (n : Note) :
    (endTied notes n).isSome = (durationTied notes n).isSome := by
  unfold endTied durationTied
  cases chainFrom notes notes.length n <;> rfl

/-- For EVERY chain: span (last end - first start) = summed duration + the silence inside the chain. -/
theorem span_is_sum_plus_gaps (a : Note) (c : List Note) :
    lastEnd (a :: c) a.onset - a.onset = durSum (a :: c) + gapSum (a :: c) :=
  span_eq_sum_add_gaps c a

/-- A chain that runs forward in time: the summed duration never exceeds the span, and equals it exactly when
    the chain is contiguous (the converse of `chain_contig`). -/
theorem sum_eq_span_iff_contiguous (a : Note) (c : List Note) (h : Forward (a :: c)) :
    durSum (a :: c) ≤ lastEnd (a :: c) a.onset - a.onset ∧
    (durSum (a :: c) = lastEnd (a :: c) a.onset - a.onset ↔ Contiguous (a :: c)) := by
  have hs := span_eq_sum_add_gaps c a
  have hn := gapSum_nonneg c a h
  have hz := gapSum_zero_iff c a h
  refine ⟨by omega, ?_⟩
  rw [← hz]
  constructor <;> intro h' <;> omega

/-- a gap anywhere in a forward chain makes the span strictly longer than the sounding duration -/
theorem gap_makes_span_longer (a : Note) (c : List Note) (h : Forward (a :: c)) (hg : ¬ Contiguous (a :: c)) :
    durSum (a :: c) < lastEnd (a :: c) a.onset - a.onset := by
  obtain ⟨hle, hiff⟩ := sum_eq_span_iff_contiguous a c h
  rcases Int.lt_or_eq_of_le hle with hlt | heq
  · exact hlt
  · exact absurd (hiff.mp heq) hg

/-- The table: the duration_div cell of every row is the summed duration of the chain that starts at its note,
    and the offset used for the beat / quarter durations is onset + that sum; it is `end_tied - start` iff the
    chain (running forward) has no gap. -/
theorem row_duration_is_chain_sum (p : Part) (o : Opts) (out : List Row) (h : rows p o = some out) :
    ∀ r ∈ out, ∃ n ∈ notesTied p.notes, ∃ c e,
      chainFrom p.notes p.notes.length n = some (n :: c) ∧
      endTied p.notes n = some e ∧
      r.id = n.id ∧ r.onsetDiv = n.onset ∧ r.durDiv = durSum (n :: c) ∧
      r.durBeat = p.maps.beat (n.onset + durSum (n :: c)) - p.maps.beat n.onset ∧
      r.durQuarter = p.maps.quarter (n.onset + durSum (n :: c)) - p.maps.quarter n.onset ∧
      r.durDiv + gapSum (n :: c) = e - n.onset ∧
      (Forward (n :: c) → (r.durDiv = e - n.onset ↔ Contiguous (n :: c))) := by
  intro r hr
  obtain ⟨n, hn, dv, d, pch, m, _, hd, _, _, hrow⟩ := row_values p o out h r hr
  obtain ⟨c, hc, _, hsum⟩ := duration_is_chain_sum p.notes n d hd
  have hcols := row_columns p.maps dv n d pch m
  have he : endTied p.notes n = some (lastEnd (n :: c) n.onset) := by
    unfold endTied; rw [hc]; simp only [Option.map_some]; rw [chainEnd_eq_lastEnd]; rfl
  have hspan := span_eq_sum_add_gaps c n
  refine ⟨n, hn, c, _, hc, he, ?_, ?_, ?_, ?_, ?_, ?_, ?_⟩
  · rw [hrow]; exact hcols.1
  · rw [hrow]; exact hcols.2.1
  · rw [hrow, hcols.2.2.1, hsum]
  · rw [hrow, hcols.2.2.2.2.2.1, hsum]
  · rw [hrow, hcols.2.2.2.2.2.2.2.1, hsum]
  · rw [hrow, hcols.2.2.1, hsum]; omega
  · intro hf
    rw [hrow, hcols.2.2.1, hsum]
    exact (sum_eq_span_iff_contiguous n c hf).2

-- ------------------------------------------------------------------ non-vacuity / the witness of seed C05-k

/-- G4 at the end of bar 1, tied over the first ending -/
def voltaG1 : Note :=
  { id := "n2", kind := .note, onset := 8, dur := 8, step := "G", alter := none, octave := 4, voice := some 1,
    staff := some 1, graceType := "", tieNext := some 3, tiePrev := none }

/-- G4 at the start of the second ending (tie stop) -/
def voltaG2 : Note :=
  { id := "n4", kind := .note, onset := 32, dur := 8, step := "G", alter := none, octave := 4, voice := some 1,
    staff := some 1, graceType := "", tieNext := none, tiePrev := some 1 }

def mkN (id : String) (onset dur : Int) (step : String) : Note :=
  { id := id, kind := .note, onset := onset, dur := dur, step := step, alter := none, octave := 4, voice := some 1,
    staff := some 1, graceType := "", tieNext := none, tiePrev := none }

/-- bar 1: A4, G4 (tie start) | first ending: F4 | second ending: G4 (tie stop), E4; divisions 4 -/
def voltaNotes : List Note :=
  [mkN "n1" 0 8 "A", voltaG1, mkN "n3" 16 16 "F", voltaG2, mkN "n5" 40 8 "E"]

/-- the tied G sounds 16 divisions (8 + 8); the span to the end of its last member is 32 -/
example : durationTied voltaNotes voltaG1 = some 16 ∧ spanTied voltaNotes voltaG1 = some 32 ∧
    endTied voltaNotes voltaG1 = some 40 := by decide

/-- the hypotheses of `gap_makes_span_longer` are satisfiable: the chain G4 -> G4 runs forward and has a gap -/
example : chainFrom voltaNotes voltaNotes.length voltaG1 = some [voltaG1, voltaG2] ∧
    Forward [voltaG1, voltaG2] ∧ ¬ Contiguous [voltaG1, voltaG2] ∧ gapSum [voltaG1, voltaG2] = 16 := by
  refine ⟨rfl, ⟨by decide, trivial⟩, ?_, by decide⟩
  intro h; exact absurd h.1 (by decide)

/-- a contiguous chain satisfies `Forward` too (then sum = span) -/
example : Forward [mkN "a" 0 4 "C", mkN "b" 4 2 "C"] ∧ Contiguous [mkN "a" 0 4 "C", mkN "b" 4 2 "C"] :=
  ⟨⟨by decide, trivial⟩, ⟨by decide, trivial⟩⟩

end C05
