/-
C14 (round 5) — the tie between the model and the constants of the live source.

`Gen/C14Tables.lean` is regenerated from /repo on every run by harness/translate_c14.py (keyword defaults through
`inspect.signature`, everything else by calling the live functions on probes).  The model USES those constants
where the property does not fix a value (default threshold / ppq / mpq, defaults of missing note keys, defaults of
missing columns, the id prefix, the number a missing `track` counts under): editing such a value in the source
changes the model with it.  Where the property — or the shape of the model — fixes the value, the theorems below
state it, so that an edit of the source stops them from building.
-/
import PartituraModel.Proofs.C14Dict
import PartituraModel.Model.PedalHist

namespace C14
open Model Model.Pedal C14P

/-- every constant could be obtained from the live source -/
theorem tables_extracted : Gen.C14.extractionOk = true ∧ Gen.C14.extractionNotes = [] := by decide

/-- "track numbers of a performance's parts are made unique": `Performance(parts)` renumbers unless told not to;
    "ids prefixed when there are several parts": `note_array()` prefixes unless told not to -/
theorem unique_by_default : Gen.C14.ensureUniqueDefault = true ∧ Gen.C14.uniqueIdDefault = true := by decide

/-- "the sustain pedal": MIDI controller 64, and no other controller number holds a note -/
theorem sustain_cc_is_64 : sustainCC = 64 ∧ Gen.C14.pedalNumbers = [64] := by decide

/-- "at or below the threshold" is up: a value equal to the threshold does not hold a note, one above it does —
    which is the test `thr < value` of `pedalEvents` -/
theorem pedal_strictly_above (thr : Int) :
    Gen.C14.pedalDownAtThreshold = false ∧ Gen.C14.pedalDownAbove = true
    ∧ pedalEvents [⟨sustainCC, 0, thr, none⟩, ⟨sustainCC, 1, thr + 1, none⟩] thr = [(0, false), (1, true)] := by
  refine ⟨by decide, by decide, ?_⟩
  simp [pedalEvents]

/-- the closing sentinel of the pedal table lies one second after the last pedal event / the last release
    (`pedalTable`, `closing`) -/
theorem closing_pads : Gen.C14.closePadPedal = 1 ∧ Gen.C14.closePadOff = 1 := by decide

/-- the validators accept exactly the MIDI ranges: pitch and velocity 0..127, `note_on` and `note_on_tick` from 0 on —
    the ranges of `okRange` / `validInit` -/
theorem midi_ranges (v : Int) :
    (okRange v = true ↔ Gen.C14.pitchLo ≤ v ∧ v ≤ Gen.C14.pitchHi)
    ∧ (okRange v = true ↔ Gen.C14.velLo ≤ v ∧ v ≤ Gen.C14.velHi)
    ∧ Gen.C14.onLo = 0 ∧ Gen.C14.onTickLo = 0 := by
  refine ⟨?_, ?_, by decide, by decide⟩
  · rw [okRange_iff]
    show _ ↔ (0 : Int) ≤ v ∧ v ≤ 127
    exact Iff.rfl
  · rw [okRange_iff]
    show _ ↔ (0 : Int) ≤ v ∧ v ≤ 127
    exact Iff.rfl

/-- what the constructor fills in structurally (not as numbers): a missing `id` is `None`, a missing `sound_off` is
    the release, each pitch key is filled from the other; a missing onset / release is a negative number, so that
    the validators reject it (`init_accepts_iff`) -/
theorem note_defaults_shape :
    Gen.C14.idDefaultIsNone = true ∧ Gen.C14.soundOffFollowsOff = true ∧ Gen.C14.pitchFromMidi = true
    ∧ Gen.C14.midiFromPitch = true ∧ Gen.C14.missingOn < 0 ∧ Gen.C14.missingOff < 0 := by decide

/-- the key of an assignment `note[key] = value` -/
def SetOp.key : SetOp → String
  | .id _ => "id" | .pitch _ => "pitch" | .noteOn _ => "note_on" | .noteOff _ => "note_off"
  | .soundOff _ => "sound_off" | .velocity _ => "velocity" | .track _ => "track" | .channel _ => "channel"
  | .noteOnTick _ => "note_on_tick" | .noteOffTick _ => "note_off_tick" | .midiPitch _ => "midi_pitch"
  | .other => "foo"

/-- `__setitem__` raises `KeyError` exactly for the keys outside the live `_accepted_keys` (probed on the universe
    of keys that occur anywhere in the code: every one of them is the key of a `SetOp`, the rest is `other`) -/
theorem accepted_keys_table (n : PNote) (op : SetOp) :
    setItem n op = .error .key ↔ SetOp.key op ∉ Gen.C14.acceptedKeys := by
  cases op <;> simp only [setItem, SetOp.key, Gen.C14.acceptedKeys] <;> first
    | decide
    | (split <;> simp)
    | (simp; try decide)

theorem accepted_keys_are_setops :
    ∀ k ∈ Gen.C14.acceptedKeys, k ∈ ["id", "pitch", "note_on", "note_off", "sound_off", "velocity", "track", "channel",
                                      "note_on_tick", "note_off_tick"] := by decide

/-- the columns of `PerformedPart.note_array()` are the fields of `ARow` in this order; seconds are float32, the
    integers int32 (the harness keeps every compared time on a grid both hold exactly) -/
theorem note_array_columns :
    Gen.C14.noteArrayFields = [("onset_sec", "f4"), ("duration_sec", "f4"), ("onset_tick", "i4"), ("duration_tick", "i4"),
                               ("pitch", "i4"), ("velocity", "i4"), ("track", "i4"), ("channel", "i4"), ("id", "U256")] := by
  decide

/-- `from_note_array`: the mandatory columns are the ones `ArrFields.sec` / `.vel` (and `pitch`) stand for, the
    optional ones `track`, `channel`, `id`; the TICK columns are ignored — removing them changes nothing in the
    rebuilt part (`fromArray` never reads `Row.onsetTick` / `Row.durTick`: `from_array_ignores_ticks`) -/
theorem from_array_columns :
    (∀ k, k ∈ Gen.C14.fromArrayMandatory ↔ k ∈ ["onset_sec", "duration_sec", "pitch", "velocity"])
    ∧ (∀ k, k ∈ Gen.C14.fromArrayOptional ↔ k ∈ ["track", "channel", "id"])
    ∧ (∀ k, k ∈ Gen.C14.fromArrayIgnored ↔ k ∈ ["onset_tick", "duration_tick"]) := by
  refine ⟨?_, ?_, ?_⟩ <;> intro k <;> simp [Gen.C14.fromArrayMandatory, Gen.C14.fromArrayOptional, Gen.C14.fromArrayIgnored]

/-- the model of `from_note_array` does not look at the tick columns of the rows it is given -/
theorem from_array_ignores_ticks (f : ArrFields) (rows : List ARow) (g : Row → Int × Int) :
    fromArray f (rows.map (fun r => { r with row := { r.row with onsetTick := (g r.row).1, durTick := (g r.row).2 } }))
      = fromArray f rows := by
  generalize hh : (fun r : ARow => ({ r with row := { r.row with onsetTick := (g r.row).1, durTick := (g r.row).2 } } : ARow)) = h
  have hid : ∀ r, (h r).id = r.id := by intro r; rw [← hh]
  have hrow : ∀ (id : String) (r : ARow), rawOfRow f id (h r).row = rawOfRow f id r.row := by intro id r; rw [← hh]; rfl
  have hids : arrayIds f (rows.map h) = arrayIds f rows := by
    unfold arrayIds
    cases rows with
    | nil => simp
    | cons r0 rest => simp [List.all_map, Function.comp_def, hid]
  have hemp : (rows.map h).isEmpty = rows.isEmpty := by cases rows <;> rfl
  have hz : ((arrayIds f rows).zip (rows.map h)).map (fun ir => rawOfRow f ir.1 ir.2.row)
      = ((arrayIds f rows).zip rows).map (fun ir => rawOfRow f ir.1 ir.2.row) := by
    rw [List.zip_map_right, List.map_map]
    apply List.map_congr_left
    intro ir _
    exact hrow ir.1 ir.2
  unfold fromArray
  rw [hids, hemp, hz]

/-- a missing `track` key counts as a track of its own that no renumbered track can collide with: the number it is
    counted under is negative, the new numbers are not -/
theorem missing_track_negative : Gen.C14.missingTrack < 0 := by decide

end C14
