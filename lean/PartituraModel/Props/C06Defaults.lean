/-
C06 (round 5) — the default programs of the exporter, exactly: how many, on which (track, channel), at which tick;
and the programs of the whole written file as an exact multiset (`programs_kept` said "plus default programs only").

`save_performance_midi`, for a performed part WITHOUT programs:
    channels_and_tracks = set of (channel, track) of its controls and notes
    timepoints          = every tick present in `track_events` so far (all parts up to this one, all tracks)
    for every track, for every channel used on it:  track_events[track][min(timepoints)].append(program_change 0)
-/
import PartituraModel.Model.PerfMidi
import PartituraModel.Proofs.C06Defaults
import PartituraModel.Props.C06
import PartituraModel.Props.C06Merge

namespace C06
open Model Model.PerfMidi C06Sort C06Lists C06Export C06Stable C06Merged C06Defaults

/-- **One part.**  When the exporter reaches the default-program step of a part without programs, with `acc` the
    appends made so far (the part's own events included) and `m` the smallest tick among them, it appends exactly
    one `program_change 0` per DISTINCT (channel, track) pair of the part's notes and controls — no pair twice, none
    missing — all at tick `m`; `m` is a tick that is present and no present tick is smaller. -/
theorem default_programs_one_part (acc : List Ins) (p : PPart) (hnil : p.programs = []) (m : Int)
    (hm : minTick (acc.map (fun i => i.2.1)) = some m) :
    (defaultPrograms acc p).Perm ((chanTracks p).dedup.map (dflt m)) ∧
    (defaultPrograms acc p).length = (chanTracks p).dedup.length ∧
    (∃ i ∈ acc, i.2.1 = m) ∧ ∀ i ∈ acc, m ≤ i.2.1 := by
  have hP := defaultPrograms_perm acc p hnil m hm
  obtain ⟨h1, h2⟩ := minTick_spec _ m hm
  refine ⟨hP, by simpa using hP.length_eq, ?_, ?_⟩
  · obtain ⟨i, hi, he⟩ := List.mem_map.mp h1
    exact ⟨i, hi, he⟩
  · intro i hi
    exact h2 _ (List.mem_map_of_mem hi)

/-- a part with a program gets none; nothing has been written yet (a first part without any event) — none -/
theorem default_programs_none (acc : List Ins) (p : PPart) (h : p.programs ≠ [] ∨ acc = []) :
    defaultPrograms acc p = [] := by
  rcases h with h | h
  · exact defaultPrograms_of_programs acc p h
  · subst h
    exact defaultPrograms_none [] p rfl

/-- **All appends of the exporter** are, as a multiset, the events of the parts and the default programs
    `defaultsFrom q [] parts`: for every part without programs one per distinct (channel, track), at the smallest
    tick of any event of this or an earlier part. -/
theorem exporter_appends (q : Rat → Int) (parts : List PPart) :
    (insertAll q parts).Perm (parts.flatMap (partEvents q) ++ defaultsFrom q [] parts) :=
  insertAll_defaults q parts

/-- the closed form of `defaultsFrom`: every default program belongs to a part `p` without programs, sits on a
    (channel, track) of a note or control of `p`, at the smallest tick of the events of the parts up to `p` -/
theorem defaults_closed_form (q : Rat → Int) (parts : List PPart) (seen : List Ins) :
    ∀ x ∈ defaultsFrom q seen parts, ∃ pre p post, parts = pre ++ p :: post ∧ p.programs = [] ∧
      minTick ((seen ++ (pre ++ [p]).flatMap (partEvents q)).map fun i => i.2.1) = some x.2.1 ∧
      ∃ ct ∈ chanTracks p, x = dflt x.2.1 ct := by
  induction parts generalizing seen with
  | nil => intro x hx; simp [defaultsFrom] at hx
  | cons p rest ih =>
    intro x hx
    simp only [defaultsFrom, List.mem_append] at hx
    rcases hx with hx | hx
    · by_cases hnil : p.programs = []
      · simp only [hnil, List.isEmpty_nil, if_true] at hx
        cases hm : minTick ((seen ++ partEvents q p).map fun i => i.2.1) with
        | none => rw [hm] at hx; exact absurd hx List.not_mem_nil
        | some m =>
          rw [hm] at hx
          obtain ⟨ct, hct, rfl⟩ := List.mem_map.mp hx
          refine ⟨[], p, rest, rfl, hnil, ?_, ct, List.mem_dedup.mp hct, rfl⟩
          simpa [dflt] using hm
      · have : p.programs.isEmpty = false := by
          cases hp : p.programs with
          | nil => exact absurd hp hnil
          | cons _ _ => rfl
        simp [this] at hx
    · obtain ⟨pre, p', post, hparts, hnil, hmin, hct⟩ := ih (seen ++ partEvents q p) x hx
      refine ⟨p :: pre, p', post, by rw [hparts]; rfl, hnil, ?_, hct⟩
      simpa [List.flatMap_cons, List.append_assoc] using hmin

/-- **The programs of the whole file, exactly** — with or without merging on either side: what the loader reads
    is the multiset of the programs of the performance (at ticks `q time`) plus the default programs, each
    `(tick, 0, channel)` — nothing else, none missing, each the right number of times. -/
theorem programs_exact (q : Rat → Int) (mpq : Nat) (ms ml : Bool) (parts : List PPart) :
    ((loaderTracks ml ((savedAbs q mpq ms parts).map toDelta)).flatMap programsOf).Perm
      ((parts.flatMap fun p => p.programs.map fun c => (q c.time, c.prog, c.ch))
        ++ progsOfIns (defaultsFrom q [] parts)) := by
  have hc : programsOf = sel gProg := funext programsOf_eq
  rw [hc]
  refine (sel_file gProg rfl q mpq ms ml parts).trans ?_
  refine (progs_exportAbs q mpq parts).trans ?_
  have h := (insertAll_defaults q parts).filterMap (fun i : Ins => (gProg i.2.2).map fun b => (i.2.1, b))
  have e : progsOfIns (insertAll q parts) = (insertAll q parts).filterMap (fun i : Ins => (gProg i.2.2).map fun b => (i.2.1, b)) := rfl
  rw [e]
  refine h.trans (List.Perm.of_eq ?_)
  rw [List.filterMap_append]
  congr 1
  exact progsOfIns_flatMap q parts

/-- non-vacuity (the two parts of `programs_kept`'s example, merged on save and on load): part 1 has no program and
    uses channel 0 on track 0 and channel 1 on tracks 0 and 2 — three defaults at tick 0 (its control at 0 s); part 2
    has a program — none added -/
example : let p1 : PPart := { metaOther := [], keySigs := [], timeSigs := [],
                              controls := [⟨1/3, 64, 127, 1, 2⟩, ⟨0, 7, 100, 0, 0⟩],
                              notes := [⟨60, 64, 1, 0, 1/2, 1⟩, ⟨61, 64, 1, 0, 1/2, 1⟩], programs := [] }
          let p2 : PPart := { metaOther := [], keySigs := [], timeSigs := [], controls := [],
                              notes := [⟨62, 64, 5, 1, 1/4, 1⟩], programs := [⟨1, 40, 5, 1⟩] }
    progsOfIns (defaultsFrom (quant 500000 480) [] [p1, p2]) = [(0, 0, 1), (0, 0, 0), (0, 0, 1)] ∧
    (loaderTracks true ((savedAbs (quant 500000 480) 500000 true [p1, p2]).map toDelta)).flatMap programsOf
      = [(0, 0, 0), (0, 0, 1), (0, 0, 1), (960, 40, 5)] := by decide +kernel

/-- the tick is the smallest of ALL parts so far, not of the part: the second part starts at 1 s, the first has an
    event at 1/4 s — the second part's default program sits at tick 240 -/
example : let p1 : PPart := { metaOther := [], keySigs := [], timeSigs := [], controls := [],
                              notes := [⟨60, 64, 0, 0, 1/4, 1⟩], programs := [⟨1/2, 5, 0, 0⟩] }
          let p2 : PPart := { metaOther := [], keySigs := [], timeSigs := [], controls := [],
                              notes := [⟨62, 64, 3, 1, 1, 2⟩], programs := [] }
    defaultsFrom (quant 500000 480) [] [p1, p2] = [(1, 240, Ev.program 3 0)] := by decide +kernel

end C06
