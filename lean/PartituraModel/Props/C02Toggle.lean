/-
C02 (round 6) — `use_notated_beat` after `use_musical_beat`, and what the maps do NOT depend on.

* the notated beat map and the quarter map (forward and inverse, pickup test included) do not read the musical
  beats of the signatures: any rewriting of the `musical_beats` attributes leaves them unchanged
  (`maps_ignore_musical_beats`);
* hence switching to musical beats with ANY table and back to notated beats gives back the beat map, the inverse
  beat map and both quarter maps the part had before (`toggle_restores_maps`), although the musical beats stored on
  the signatures are now the defaults and no longer what an earlier `set_musical_beat_per_ts` had stored;
* the quarter maps do not read the musical-beat switch at all (`quarter_maps_ignore_switch`).
-/
import PartituraModel.Props.C02Api

namespace C02
open Model.TimeMap C02Proofs

/-- a rewriting of signatures that touches the musical beats only -/
def MbOnly (f : TSig → TSig) : Prop := ∀ s, (f s).t = s.t ∧ (f s).beats = s.beats ∧ (f s).beatType = s.beatType

theorem assignMB_mbOnly (tbl : List ((Nat × Nat) × Nat)) : MbOnly (assignMB tbl) := by
  intro s
  unfold assignMB
  split <;> exact ⟨rfl, rfl, rfl⟩

theorem facAssign_mbOnly (m : Mode) (hm : m ≠ .musical) (f : TSig → TSig) (hf : MbOnly f) (ts : List TSig) :
    facAssign m (ts.map f) = facAssign m ts := by
  cases m with
  | musical => exact absurd rfl hm
  | quarter => rfl
  | notated =>
    simp only [facAssign, List.map_map]
    apply List.map_congr_left
    intro s _
    simp only [Function.comp, factorOf, (hf s).1, (hf s).2.2]

theorem normalDur_mbOnly (m : Mode) (hm : m ≠ .musical) (f : TSig → TSig) (hf : MbOnly f) (s : TSig) :
    normalDur m (f s) = normalDur m s := by
  cases m with
  | musical => exact absurd rfl hm
  | quarter => simp only [normalDur, (hf s).2.1, (hf s).2.2]
  | notated => simp only [normalDur, (hf s).2.1]

theorem find_mbOnly (f : TSig → TSig) (hf : MbOnly f) (ts : List TSig) (t : Int) :
    (ts.map f).find? (fun s => decide (s.t = t)) = (ts.find? (fun s => decide (s.t = t))).map f := by
  induction ts with
  | nil => rfl
  | cons a as ih =>
    simp only [List.map_cons, List.find?_cons, (hf a).1]
    split
    · rfl
    · exact ih

/-- the knots of the notated beat map and of the quarter map do not read the musical beats -/
theorem finalKnots_mbOnly (p : Part) (m : Mode) (hm : m ≠ .musical) (f : TSig → TSig) (hf : MbOnly f) :
    finalKnots { p with ts := p.ts.map f } m = finalKnots p m := by
  have hk : keypoints { p with ts := p.ts.map f } m = keypoints p m := by
    unfold keypoints keyTimes
    simp only [facAssign_mbOnly m hm f hf]
  unfold finalKnots
  simp only [hk]
  congr 1
  unfold pickupShift
  simp only
  cases p.m1 with
  | none => rfl
  | some m1 =>
    simp only
    cases actualDur (knots (keypoints p m) 0) m1 with
    | none => rfl
    | some a =>
      simp only
      rw [find_mbOnly f hf]
      cases p.ts.find? (fun s => decide (s.t = m1.1)) with
      | none => rfl
      | some s => simp only [Option.map_some, normalDur_mbOnly m hm f hf]

/-- **The notated beat map and the quarter map, forward and inverse, ignore the musical beats of the signatures.** -/
theorem maps_ignore_musical_beats (p : Part) (m : Mode) (hm : m ≠ .musical) (f : TSig → TSig) (hf : MbOnly f) (x : Rat) :
    fwd { p with ts := p.ts.map f } m x = fwd p m x ∧ inv { p with ts := p.ts.map f } m x = inv p m x := by
  unfold fwd inv
  simp only [finalKnots_mbOnly p m hm f hf]
  exact ⟨trivial, trivial⟩

/-- the quarter maps do not read the musical-beat switch -/
theorem quarter_maps_ignore_switch (p : Part) (b : Bool) (x : Rat) :
    quarterMap { p with musical := b } x = quarterMap p x ∧ invQuarterMap { p with musical := b } x = invQuarterMap p x :=
  ⟨rfl, rfl⟩

/-- **`use_musical_beat(tbl)` followed by `use_notated_beat()` gives back every map the part had in notated mode**
(beat map, inverse beat map, quarter map, inverse quarter map), whatever the table — only the musical beats stored on
the signatures are now the defaults. -/
theorem toggle_restores_maps (p : Part) (hn : p.musical = false) (tbl : List ((Nat × Nat) × Nat)) (x : Rat) :
    ∃ ts', step (step ⟨p.musical, p.ts⟩ (.useMusical tbl)) .useNotated = ⟨false, ts'⟩ ∧
      (∀ t ∈ ts', t.mb = defaultMB t.beats) ∧
      beatMap { p with ts := ts' } x = beatMap p x ∧ invBeatMap { p with ts := ts' } x = invBeatMap p x ∧
      quarterMap { p with ts := ts' } x = quarterMap p x ∧ invQuarterMap { p with ts := ts' } x = invQuarterMap p x := by
  have hs : step (step ⟨p.musical, p.ts⟩ (.useMusical tbl)) .useNotated =
      ⟨false, (if tbl.isEmpty then p.ts else p.ts.map (assignMB tbl)).map (assignMB [])⟩ := by
    simp [step, hn]
  refine ⟨_, hs, ?_, ?_⟩
  · intro t ht
    simp only [List.mem_map] at ht
    obtain ⟨u, _, rfl⟩ := ht
    exact assignMB_empty u
  have hf : ∃ f, MbOnly f ∧ (if tbl.isEmpty then p.ts else p.ts.map (assignMB tbl)).map (assignMB []) = p.ts.map f := by
    by_cases he : tbl.isEmpty
    · exact ⟨assignMB [], assignMB_mbOnly [], by simp [he]⟩
    · refine ⟨assignMB [] ∘ assignMB tbl, ?_, by simp [he, List.map_map]⟩
      intro s
      have h1 := assignMB_mbOnly tbl s
      have h2 := assignMB_mbOnly [] (assignMB tbl s)
      exact ⟨h2.1.trans h1.1, h2.2.1.trans h1.2.1, h2.2.2.trans h1.2.2⟩
  obtain ⟨f, hmb, hfe⟩ := hf
  rw [hfe]
  have hb := maps_ignore_musical_beats p .notated (by decide) f hmb x
  have hq := maps_ignore_musical_beats p .quarter (by decide) f hmb x
  have hbm : beatMode p = .notated := by simp [beatMode, hn]
  have hbm' : beatMode { p with ts := p.ts.map f } = .notated := by simp [beatMode, hn]
  unfold beatMap invBeatMap quarterMap invQuarterMap
  rw [hbm, hbm']
  exact ⟨hb.1, hb.2, hq.1, hq.2⟩

/-- non-vacuity: 6/8 with a user table of 3 musical beats — the musical beat map differs, and after switching back
the notated beat map is the old one -/
example :
    beatMap { exPart with musical := true, ts := exPart.ts.map (assignMB [((6, 8), 3)]) } 23 ≠ beatMap exPart 23 ∧
    beatMap { exPart with ts := (exPart.ts.map (assignMB [((6, 8), 3)])).map (assignMB []) } 23 = beatMap exPart 23 := by
  decide +kernel

end C02
