/-
C12, round 6 — arrays, totals, remaining tables.

  * "for scalars and arrays alike": the array forms of the tick conversions are the scalar forms element by element
    (same defaults, same rejection), they keep the length, and ticks → seconds → ticks is the identity on whole
    arrays, with the keyword defaults left out or given;
  * `symbolic_to_numeric_duration` on EVERY argument (absent / zero tuplet counts, unknown types, too many dots):
    value and exact rejection set, without the side conditions of `C12.symbolic_numeric`;
  * `Interval`: an interval `validate` accepts with a number 1..7 has a size (the key set of INTERVAL_TO_SEMITONES is
    INTERVALCLASSES), and a changed quality keeps that;
  * the tables the first rounds did not touch: STEPS (both directions), MEI_DURS_TO_SYMBOLIC, ALTER_SIGNS against
    SIGN_TO_ALTER.
-/
import PartituraModel.Model.ConversionsArr
import PartituraModel.Props.C12Ext
import Mathlib.Tactic.IntervalCases

namespace C12
open Model Gen Gen.C12 C12Bridge

/-! ### scalars and arrays alike -/

/-- element by element the array result IS the scalar result (same arguments, same defaults) -/
theorem sec_to_tick_alike (ts : List Rat) (mpq ppq : Option Nat) (r : List Int) (h : secToTickArr ts mpq ppq = some r) :
    ts.map (fun t => secToTickG t mpq ppq) = r.map some := by
  unfold secToTickArr at h
  unfold secToTickG
  simp only at h ⊢
  split at h
  · simp at h
  · rename_i hm
    simp only [Option.some.injEq] at h
    subst h
    simp [hm]

theorem tick_to_sec_alike (ks : List Rat) (mpq ppq : Option Nat) (r : List Rat) (h : tickToSecArr ks mpq ppq = some r) :
    ks.map (fun k => tickToSecG k mpq ppq) = r.map some := by
  unfold tickToSecArr at h
  unfold tickToSecG
  simp only at h ⊢
  split at h
  · simp at h
  · rename_i hp
    simp only [Option.some.injEq] at h
    subst h
    simp [hp]

/-- the array call is rejected exactly when the scalar call is, and the result has one entry per element -/
theorem arrays_defined (ts : List Rat) (mpq ppq : Option Nat) :
    ((secToTickArr ts mpq ppq).isSome ↔ ∀ t : Rat, (secToTickG t mpq ppq).isSome) ∧
    ((tickToSecArr ts mpq ppq).isSome ↔ ∀ k : Rat, (tickToSecG k mpq ppq).isSome) ∧
    (∀ r, secToTickArr ts mpq ppq = some r → r.length = ts.length) ∧
    (∀ r, tickToSecArr ts mpq ppq = some r → r.length = ts.length) := by
  unfold secToTickArr tickToSecArr secToTickG tickToSecG
  refine ⟨?_, ?_, ?_, ?_⟩
  · by_cases hm : mpq.getD s2tDefaultMpq = 0 <;> simp [hm]
  · by_cases hp : ppq.getD t2sDefaultPpq = 0 <;> simp [hp]
  · intro r h
    by_cases hm : mpq.getD s2tDefaultMpq = 0
    · simp [hm] at h
    · simp only [hm, if_false, Option.some.injEq] at h
      subst h
      simp
  · intro r h
    by_cases hp : ppq.getD t2sDefaultPpq = 0
    · simp [hp] at h
    · simp only [hp, if_false, Option.some.injEq] at h
      subst h
      simp

/-- **arrays**: ticks → seconds → ticks is the identity on a whole array of ticks, for every ppq and mpq, given or
    left to the (equal) defaults of the two functions -/
theorem tick_sec_tick_arr (ks : List Int) (mpq ppq : Option Nat) (hm : mpq ≠ some 0) (hp : ppq ≠ some 0) :
    (tickToSecArr (ks.map fun (k : Int) => (k : Rat)) mpq ppq).bind (fun ts => secToTickArr ts mpq ppq) = some ks := by
  have d1 : s2tDefaultMpq ≠ 0 := by decide
  have d4 : t2sDefaultPpq ≠ 0 := by decide
  have hm0 : mpq.getD s2tDefaultMpq ≠ 0 := by
    cases mpq with
    | none => exact d1
    | some m => simpa using hm
  have hp0 : ppq.getD t2sDefaultPpq ≠ 0 := by
    cases ppq with
    | none => exact d4
    | some p => simpa using hp
  have elt : ∀ k : Int, (tickToSecG (k : Rat) mpq ppq).bind (fun t => secToTickG t mpq ppq) = some k :=
    fun k => tick_sec_tick_src k mpq ppq hm hp
  unfold tickToSecG secToTickG at elt
  simp only [hp0, hm0, if_false, Option.bind_some, Option.some.injEq] at elt
  unfold tickToSecArr secToTickArr
  simp only [hp0, hm0, if_false, Option.bind_some, Option.some.injEq, List.map_map]
  conv => rhs; rw [← List.map_id ks]
  apply List.map_congr_left
  intro k _
  exact elt k

example : secToTickArr [1/3, 0, 2] none none = some [320, 0, 1920] ∧
    tickToSecArr [320, 0] (some 500000) (some 480) = some [1/3, 0] ∧ secToTickArr [1] (some 0) none = none ∧
    secToTickArr [] none none = some [] := by decide +kernel

/-! ### symbolic → numeric on every argument -/

/-- `x or 1` of a tuplet count that may be absent -/
def orOne : Option Nat → Rat
  | none => 1
  | some n => if n = 0 then 1 else (n : Rat)

/-- value on EVERY symbolic duration: an absent tuplet count and the count 0 both stand for 1 -/
theorem symbolic_numeric_total (ty : String) (d : Nat) (a n : Option Nat) (divs : Rat) :
    symbolicToNumeric (ty, d, a, n) divs =
      match lookup ty LABEL_DURS, DOT_MULTIPLIERS[d]? with
      | some v, some m => some (divs * v * m * (orOne n / orOne a))
      | _, _ => none := by
  unfold symbolicToNumeric orOne
  cases a <;> cases n <;> simp only [Option.getD_none, Option.getD_some] <;>
    (split <;> simp_all)

/-- rejected exactly for a type that is not a note value or more than three dots -/
theorem symbolic_numeric_defined (ty : String) (d : Nat) (a n : Option Nat) (divs : Rat) :
    (symbolicToNumeric (ty, d, a, n) divs).isSome ↔ (lookup ty LABEL_DURS).isSome ∧ d ≤ 3 := by
  rw [symbolic_numeric_total]
  have hl : DOT_MULTIPLIERS.length = 4 := by decide
  cases h1 : lookup ty LABEL_DURS with
  | none => simp
  | some v =>
    by_cases hd : d ≤ 3
    · have : d < DOT_MULTIPLIERS.length := by omega
      rw [List.getElem?_eq_getElem this]
      simp [hd]
    · have : DOT_MULTIPLIERS.length ≤ d := by omega
      rw [List.getElem?_eq_none this]
      simp [hd]

example : symbolicToNumeric ("quarter", 1, some 0, none) 480 = some 720 ∧
    symbolicToNumeric ("quarter", 4, none, none) 480 = none ∧ symbolicToNumeric ("foo", 0, none, none) 480 = none ∧
    symbolicToNumeric ("eighth", 0, some 3, some 2) 6 = some 2 := by decide +kernel

/-! ### intervals: an accepted simple interval has a size -/

/-- the key set of INTERVAL_TO_SEMITONES is INTERVALCLASSES (in order), without repetition -/
theorem interval_keys : INTERVAL_TO_SEMITONES.map Prod.fst = INTERVALCLASSES ∧ INTERVALCLASSES.Nodup := by
  decide +kernel

theorem lookup_isSome_of_mem {β : Type} (k : String) : ∀ l : List (String × β), k ∈ l.map Prod.fst → (lookup k l).isSome
  | [], h => by simp at h
  | (a, b) :: t, h => by
    unfold lookup
    by_cases e : a = k
    · simp [e]
    · simp only [e, if_false]
      apply lookup_isSome_of_mem k t
      simp only [List.map_cons, List.mem_cons] at h
      rcases h with h | h
      · exact absurd h.symm e
      · exact h

/-- an interval that `Interval.validate` accepts, with a number 1..7, has a size -/
theorem valid_interval_has_size (q : String) (n : Nat) (d : String) (h1 : 1 ≤ n) (h7 : n ≤ 7)
    (hv : intervalValid q n d = true) : (intervalSemitones q n).isSome := by
  unfold intervalSemitones
  apply lookup_isSome_of_mem
  rw [interval_keys.1]
  unfold intervalValid at hv
  simp only [Bool.and_eq_true] at hv
  have hc := hv.1
  interval_cases n <;> simpa using hc

/-- … a compound interval is accepted too (its class is taken modulo 7) but has NO size: `Interval(9, "M")` is built,
    `.semitones` raises KeyError (compared by the stream `iv`; the property speaks of interval classes only) -/
example : intervalValid "M" 9 "up" = true ∧ intervalSemitones "M" 9 = none ∧ intervalValid "P" 8 "down" = true ∧
    intervalSemitones "P" 8 = none := by decide +kernel

/-! ### the remaining tables -/

/-- STEPS (both directions of the one dict of the source): letter → index → letter and back, seven entries, and the
    index order is the order of the scale (ascending base pitch class) -/
theorem steps_bijection :
    (∀ e ∈ STEPS_TO_INT, lookup e.2 INT_TO_STEPS = some e.1) ∧
    (∀ e ∈ INT_TO_STEPS, lookup e.2 STEPS_TO_INT = some e.1) ∧
    INT_TO_STEPS.map Prod.fst = List.range 7 ∧
    INT_TO_STEPS.map (fun e => lower e.2) = MIDI_BASE_CLASS.map Prod.fst ∧
    (MIDI_BASE_CLASS.map Prod.snd).Pairwise (· < ·) := by
  decide +kernel

/-- MEI duration names: a word names itself, a number `n ≠ 0` names the note value of 4/n quarters, `0` the breve -/
theorem mei_durs_defined :
    ∀ e ∈ MEI_DURS_TO_SYMBOLIC,
      (lookup e.2 LABEL_DURS).isSome ∧
      (if e.1.toList.all Char.isDigit then
        (if e.1 = "0" then e.2 = "breve" else lookup e.2 LABEL_DURS = some (4 / (digitsToNat e.1.toList : Rat)))
       else e.1 = e.2) := by
  decide +kernel

/-- every accidental `Note.alter_sign` can print is a sign `ensure_pitch_spelling_format` reads back as the same
    alteration (the empty sign is the natural `n`) -/
theorem alter_signs_read_back :
    ∀ e ∈ ALTER_SIGNS, lookup (if e.2 = "" then "n" else e.2) SIGN_TO_ALTER = some (some (e.1.getD 0)) := by
  decide +kernel

end C12
