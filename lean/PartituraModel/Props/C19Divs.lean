/-
C19 — "the divisions chosen represent every duration exactly", END TO END, and the staff of every note.

`C19.mei_inferPpq_exact` (Props/C19.lean) is about an abstract list of written values.  Here the list is the one
the state machine of `Model/Mei.lean` collects while it reads a document, and the statements are about the notes,
rests and measures the document denotes:

* every element that carries `@dur` — whatever its NAME (note, chord, rest, space, …) — enters that list;
* for every document without declared divisions (no `@ppq`, no `@dur.ppq`) the inferred divisions make every onset
  and duration of every denoted note and rest, and every measure boundary, a whole number — with no side condition
  on the document (well-formedness of the recorded values is established by the machine itself);
* a note stands on its own `@staff`, else on the `@staff` of its `<chord>`, else on the enclosing `<staff>`, and a note's
  own `@staff` is not inherited by the notes that follow it.

Helper lemmas: `Proofs/C19Divs.lean`.  All statements quantify over every event list.
-/
import PartituraModel.Proofs.C19Divs
import PartituraModel.Props.C19

namespace C19
open Model Model.Mei C19S C19P C19D

/-! ## which elements enter the inferred divisions -/

/-- `mei_every_dur_enters`: in ANY document that is read to the end, every element with a `@dur` attribute — `tag`
    is arbitrary: `note`, `chord`, `rest`, `space`, anything — is in the list from which `inferPpq` computes the
    divisions, with its value, its dots, its `@dur.ppq` and the tuplet it stands in. -/
theorem mei_every_dur_enters (pre post : List Ev) (tag : String) (as : List (String × String)) (ds : String) (st : St)
    (hd : attr as "dur" = some ds) (h : runEvs {} (pre ++ .op tag as :: post) = some st) :
    ∃ e ∈ st.durEls, durNumber ds = some e.v ∧ e.dots = (natAttr as "dots").getD 0 ∧ e.durppq = natAttr as "dur.ppq" := by
  rw [runEvs_append] at h
  cases h1 : runEvs {} pre with
  | none => simp [h1] at h
  | some s1 =>
    simp only [h1, Option.bind_some, runEvs] at h
    cases h2 : stepEv s1 (.op tag as) with
    | none => simp [h2] at h
    | some s2 =>
      simp only [h2] at h
      obtain ⟨e, he, hv, hdots, hppq, _⟩ := step_enters s1 s2 tag as ds h2 hd
      obtain ⟨⟨nd, hnd⟩, _⟩ := run_mono post s2 st h
      exact ⟨e, by rw [hnd, he]; simp, hv, hdots, hppq⟩

/-- the seeded change of round 5 (`_find_ppq` looking at `note`, `chord`, `rest` only): an eighth `<space>` between
    quarter notes is in the list, and the divisions inferred are 2, not 1 -/
example :
    let evs : List Ev := [.op "layer" [], .op "space" [("dur", "8")], .cl, .op "note" [("dur", "4"), ("pname", "g"), ("oct", "4")], .cl, .cl]
    ((runEvs {} evs).map fun st => (st.durEls.map (·.v), inferPpq st.durEls.reverse st.units.reverse)) = some ([4, 8], some 2) := by
  decide +kernel

/-! ## the inferred divisions are exact for the whole document -/

/-- `mei_document_divisions_exact`: read ANY event list to the end; if no element carries `@dur.ppq` and `q` is what
    `inferPpq` makes of the values collected on the way, then `q` is a positive whole number and every onset and
    duration of every note and rest read, and the start and end of every measure, is a whole number of `1/q`. -/
theorem mei_document_divisions_exact (evs : List Ev) (st : St) (q : Rat) (h : runEvs {} evs = some st)
    (hno : ∀ e ∈ st.durEls, e.durppq = none) (hq : inferPpq st.durEls.reverse st.units.reverse = some q) :
    (∃ m : Nat, 0 < m ∧ q = (m : Rat)) ∧
    (∀ n ∈ st.notes, (∃ k : Int, q * n.onset = (k : Rat)) ∧ ∃ k : Int, q * n.dur = (k : Rat)) ∧
    (∀ m ∈ st.measures, (∃ k : Int, q * m.2.2.2.1 = (k : Rat)) ∧ ∃ k : Int, q * m.2.2.2.2 = (k : Rat)) := by
  obtain ⟨hpos, hels, hunits⟩ := mei_inferPpq_exact st.durEls.reverse st.units.reverse q
    (fun e he => hno e (List.mem_reverse.mp he)) hq
  have hg := run_good q evs st h (fun e he hw => hels e (List.mem_reverse.mpr he) hw)
    (fun u hu h0 b => hunits u (List.mem_reverse.mpr hu) h0 b)
  exact ⟨hpos, hg.notes, hg.measures⟩

/-- `mei_parts_divisions_exact`: the same for the parts `denote` assembles: in a document whose staffDefs declare no
    `@ppq` and whose elements carry no `@dur.ppq`, the divisions of every part are a positive whole number that
    represents the onset and duration of each of its notes and rests, and its measure boundaries, exactly. -/
theorem mei_parts_divisions_exact (evs : List Ev) (st : St) (parts : List Part)
    (hrun : runEvs {} evs = some st) (hden : denote evs = some parts)
    (hnodur : ∀ e ∈ st.durEls, e.durppq = none) (hnoppq : ∀ d ∈ st.defs, d.ppq = none)
    (p : Part) (hp : p ∈ parts) (q : Rat) (hq : p.ppq = some q) :
    (∃ m : Nat, 0 < m ∧ q = (m : Rat)) ∧
    (∀ n ∈ p.notes, (∃ k : Int, q * n.onset = (k : Rat)) ∧ ∃ k : Int, q * n.dur = (k : Rat)) ∧
    (∀ m ∈ p.measures, (∃ k : Int, q * m.2.2.1 = (k : Rat)) ∧ ∃ k : Int, q * m.2.2.2 = (k : Rat)) := by
  rw [denote_eq, hrun] at hden
  simp only [Option.bind_some, partsOf] at hden
  obtain ⟨⟨d, i⟩, hdi, hmk⟩ := mapM_mem _ _ _ hden p hp
  have hd : d ∈ st.defs := by
    have := List.fst_mem_of_mem_zipIdx hdi
    simpa [partsInOrder] using this
  simp only [mkPart] at hmk
  cases hrm : resolveMeter st d with
  | none => simp [hrm] at hmk
  | some bu =>
    obtain ⟨mb, mu⟩ := bu
    simp only [hrm, Option.some.injEq] at hmk
    subst hmk
    simp only [hnoppq d hd] at hq
    obtain ⟨h1, h2, h3⟩ := mei_document_divisions_exact evs st q hrun hnodur hq
    refine ⟨h1, ?_, ?_⟩
    · intro n hn
      simp only [List.mem_mergeSort, List.mem_map, List.mem_filter, List.mem_reverse] at hn
      obtain ⟨r, ⟨hr, _⟩, rfl⟩ := hn
      exact h2 r hr
    · intro m hm
      simp only [List.mem_map, List.mem_filter, List.mem_reverse] at hm
      obtain ⟨r, ⟨hr, _⟩, rfl⟩ := hm
      exact h3 r hr

/-- non-vacuity: the document of the round-5 change — two layers, the second one `space 8, g 4, space 8, a 2` against
    four quarter notes, no ppq declared: divisions 2, the `g` starts at 1/2 -/
def fineDoc : List Ev :=
  [.op "score" [], .op "scoreDef" [("meter.count", "4"), ("meter.unit", "4")], .op "staffGrp" [],
   .op "staffDef" [("xml:id", "P1"), ("n", "1")], .cl, .cl, .cl, .op "section" [],
   .op "measure" [("n", "1")], .op "staff" [("n", "1")],
   .op "layer" [("n", "1")],
   .op "note" [("xml:id", "n1"), ("dur", "4"), ("pname", "c"), ("oct", "5")], .cl,
   .op "note" [("xml:id", "n2"), ("dur", "4"), ("pname", "d"), ("oct", "5")], .cl,
   .op "note" [("xml:id", "n3"), ("dur", "4"), ("pname", "e"), ("oct", "5")], .cl,
   .op "note" [("xml:id", "n4"), ("dur", "4"), ("pname", "f"), ("oct", "5")], .cl, .cl,
   .op "layer" [("n", "2")],
   .op "space" [("xml:id", "s1"), ("dur", "8")], .cl,
   .op "note" [("xml:id", "n5"), ("dur", "4"), ("pname", "g"), ("oct", "4")], .cl,
   .op "space" [("xml:id", "s2"), ("dur", "8")], .cl,
   .op "note" [("xml:id", "n6"), ("dur", "2"), ("pname", "a"), ("oct", "4")], .cl, .cl,
   .cl, .cl, .cl, .cl]

example : ((runEvs {} fineDoc).map fun st =>
      (st.durEls.all (fun e => e.durppq.isNone) && st.defs.all (fun d => d.ppq.isNone),
       inferPpq st.durEls.reverse st.units.reverse)) = some (true, some 2) := by
  decide +kernel

example : ((runEvs {} fineDoc).map fun st => st.notes.reverse.map fun n => (n.xmlid, n.onset, n.dur))
    = some [("n1", 0, 1), ("n2", 1, 1), ("n3", 2, 1), ("n4", 3, 1), ("n5", 1 / 2, 1), ("n6", 2, 2)] := by
  decide +kernel

/-! ## the staff a note stands on (cross-staff notation) -/

/-- `mei_chord_staff`: opening a `<chord>` inside a layer makes its `@staff` (or none) the default of its notes and
    leaves the enclosing staff, the notes read so far and the cursor alone -/
theorem mei_chord_staff (st s : St) (as : List (String × String)) (hl : inLayer st.stack = true)
    (h : stepEv st (.op "chord" as) = some s) :
    ∃ d, s.chord = some (d, natAttr as "staff") ∧ s.staffN = st.staffN ∧ s.notes = st.notes ∧ s.cursor = st.cursor := by
  rw [stepEv_op] at h
  cases hr : openCore (ctxOf st.stack) (core st) "chord" as with
  | none => simp [hr] at h
  | some r =>
    simp only [hr, Option.map_some, Option.some.injEq] at h
    subst h
    exact openCore_chord (ctxOf st.stack) (core st) as r hl hr

/-- `mei_chord_note_staff`: a `<note>` directly inside a `<chord>` is read at the chord's onset with the chord's
    duration and stands on its own `@staff`, else on the `@staff` of the chord, else on the enclosing `<staff>`; the
    chord's default and the enclosing staff are the same for the notes that follow (the round-5 change made the
    first note's own `@staff` the default of the later notes of the chord). -/
theorem mei_chord_note_staff (st s : St) (as : List (String × String)) (d : Rat) (cstaff : Option Nat)
    (hl : inLayer st.stack = true) (hp : ptagOf st.stack = "chord") (hch : st.chord = some (d, cstaff))
    (h : stepEv st (.op "note" as) = some s) :
    ∃ n, s.notes = n :: st.notes ∧ n.staff = (natAttr as "staff").getD (cstaff.getD st.staffN) ∧
      n.onset = st.cursor ∧ n.dur = d ∧ n.voice = st.voice ∧
      s.chord = st.chord ∧ s.staffN = st.staffN ∧ s.cursor = st.cursor := by
  rw [stepEv_op] at h
  cases hr : openCore (ctxOf st.stack) (core st) "note" as with
  | none => simp [hr] at h
  | some r =>
    simp only [hr, Option.map_some, Option.some.injEq] at h
    subst h
    exact openCore_chord_note (ctxOf st.stack) (core st) as r hl hp d cstaff hch hr

/-- `mei_single_staff`: a `<note>`, `<rest>`, `<mRest>` or `<multiRest>` of a layer (not inside a chord) stands on its
    own `@staff`, else on the enclosing `<staff>`; it starts at the cursor, the cursor moves on by its duration, and the
    enclosing staff stays what it is for the elements that follow. -/
theorem mei_single_staff (st s : St) (tag : String) (as : List (String × String))
    (hl : inLayer st.stack = true) (hp : ptagOf st.stack ≠ "chord")
    (ht : tag = "note" ∨ tag = "rest" ∨ tag = "mRest" ∨ tag = "multiRest")
    (h : stepEv st (.op tag as) = some s) :
    ∃ n, s.notes = n :: st.notes ∧ n.staff = (natAttr as "staff").getD st.staffN ∧ n.onset = st.cursor ∧
      n.voice = st.voice ∧ s.staffN = st.staffN ∧ s.cursor = st.cursor + n.dur := by
  rw [stepEv_op] at h
  cases hr : openCore (ctxOf st.stack) (core st) tag as with
  | none => simp [hr] at h
  | some r =>
    simp only [hr, Option.map_some, Option.some.injEq] at h
    subst h
    exact openCore_single (ctxOf st.stack) (core st) tag as r hl hp ht hr

/-- non-vacuity: the chord of the round-5 change inside `<staff n="1">`: `g3` on staff 2, then `e4` and `c5` without
    `@staff` — they stay on staff 1; a chord with `@staff="3"` whose middle note goes to staff 2 -/
example :
    let pre : List Ev := [.op "staff" [("n", "1")], .op "layer" [("n", "1")]]
    let ch1 : List Ev := [.op "chord" [("dur", "2")],
      .op "note" [("pname", "g"), ("oct", "3"), ("staff", "2")], .cl,
      .op "note" [("pname", "e"), ("oct", "4")], .cl, .op "note" [("pname", "c"), ("oct", "5")], .cl, .cl]
    let ch2 : List Ev := [.op "chord" [("dur", "2"), ("staff", "3")],
      .op "note" [("pname", "g"), ("oct", "3")], .cl,
      .op "note" [("pname", "e"), ("oct", "4"), ("staff", "2")], .cl, .op "note" [("pname", "c"), ("oct", "5")], .cl, .cl]
    ((runEvs { stack := [⟨"measure", [], none, none, none⟩] } (pre ++ ch1 ++ ch2)).map fun st =>
        st.notes.reverse.map fun n => (n.step, n.onset, n.staff))
      = some [("G", 0, 2), ("E", 0, 1), ("C", 0, 1), ("G", 2, 3), ("E", 2, 2), ("C", 2, 3)] := by
  decide +kernel

end C19
