/-
C03 — MusicXML export then import returns the same score; re-export is a fixpoint.
Property theorems over Model/XmlMeasure.lean and Model/RangeNumbers.lean.
-/
import PartituraModel.Model.XmlMeasure

namespace C03
open Model.Xml

end C03
