/-
C03 — MusicXML export then import returns the same score; re-export is a fixpoint.

Property theorems over the executable models
  Model/XmlMeasure.lean   writer `linearize` (partitura/io/exportmusicxml.py, repaired), readers `interpret`
                          (MusicXML semantics) and `readMeasure` (partitura/io/importmusicxml.py)
  Model/RangeNumbers.lean range numbering (writer), pairing by number and tie pairing (reader)
The models are tied to the code by harness/props/c03.py (streams lin / int / snd / numg / num / pair / tie).
-/
import PartituraModel.Proofs.C03Perm
import PartituraModel.Proofs.C03Ranges
import PartituraModel.Proofs.C03Ties
import PartituraModel.Proofs.C03Order

namespace C03
open Model.Xml Model.Ranges

/-! ### the written measure, read back -/

/-- **reader_writer.**  For every well-formed measure content — any number of divisions segments, voices,
    chords, grace sequences, gaps, other elements anywhere in the measure — reading what `linearize` wrote
    (with the independent MusicXML reader `interpret` when `spec = true`, with the importer's bookkeeping
    `readMeasure` when `spec = false`) succeeds, ends the measure exactly at its end, and returns a
    permutation of the notes of the measure: each with its identity, onset, duration (none for a grace
    note), staff (a missing staff read as 1) and the voice `remove_voice_polyphony` left it in (a missing
    voice read as 1). -/
theorem reader_writer (m : MeasureContent) (hwf : MeasureWF m) (spec : Bool) :
    ∃ out, interpretWith spec m.start (linearize m) = some (out, m.stop) ∧
      out.Perm (m.segs.flatMap fun s => (assignVoices s.notes).flatMap fun vn => vn.2.map (NoteIn.out vn.1)) :=
  ⟨C03.Main.measureOut m, C03.Main.interpret_linearize spec m hwf, C03.Perm.measureOut_perm m hwf⟩

/-- the order too is determined: segment by segment, voice by voice, each voice in document order -/
theorem reader_writer_order (m : MeasureContent) (hwf : MeasureWF m) (spec : Bool) :
    interpretWith spec m.start (linearize m) =
      some (m.segs.flatMap fun s => ((segPlaced m.nStaves s).flatMap (·.2)).map Placed.out, m.stop) :=
  C03.Main.interpret_linearize spec m hwf

/-- **segments_compose.**  Mid-measure changes of divisions: the measure is read back as its segments one
    after the other, each starting where the previous one ended (the reader is exactly at the boundary when
    the `<attributes>` of the next segment are met). -/
theorem segments_compose (nStaves : Nat) (segs1 segs2 : List Segment)
    (hwf : MeasureWF { nStaves := nStaves, segs := segs1 ++ segs2 }) (h1 : segs1 ≠ []) (spec : Bool) :
    interpretWith spec (MeasureContent.start { nStaves := nStaves, segs := segs1 }) (linearize { nStaves := nStaves, segs := segs1 ++ segs2 }) =
      some (segs1.flatMap (C03.Main.segOut nStaves) ++ segs2.flatMap (C03.Main.segOut nStaves),
        MeasureContent.stop { nStaves := nStaves, segs := segs1 ++ segs2 }) := by
  have := C03.Main.interpret_linearize spec _ hwf
  obtain ⟨a, r, ha⟩ := List.exists_cons_of_ne_nil h1
  subst ha
  simpa [C03.Main.measureOut, MeasureContent.start, List.flatMap_append] using this

/-- the independent reader and the importer's reader agree on everything the exporter writes -/
theorem readers_agree (m : MeasureContent) (hwf : MeasureWF m) :
    interpret m.start (linearize m) = readMeasure m.start (linearize m) := by
  unfold interpret readMeasure
  rw [C03.Main.interpret_linearize true m hwf, C03.Main.interpret_linearize false m hwf]

/-! ### voices -/

/-- **polyphony_removed.**  `remove_voice_polyphony` keeps every note exactly once; a voice that was there
    before keeps its number and a part of its notes, and what it keeps MusicXML can hold in one voice (one
    duration per onset among the non-grace notes, no note running past the next onset); a voice that is new
    has a number above every voice in use and holds no two notes that sound at the same time. -/
theorem polyphony_removed (notes : List NoteIn) (hnd : (notes.map (·.idx)).Nodup) :
    ((assignVoices notes).flatMap (·.2)).Perm notes ∧
    ∀ vn ∈ assignVoices notes,
      (C03.Voices.Monophonic vn.2 ∧ (∃ ns, (vn.1, ns) ∈ partitionVoices notes ∧ ∀ n ∈ vn.2, n ∈ ns ∧ n.voice = vn.1)) ∨
      ((∀ e ∈ partitionVoices notes, e.1 < vn.1) ∧ vn.2.Pairwise C03.Voices.NonOverlap) := by
  refine ⟨C03.Voices.assignVoices_perm notes hnd, ?_⟩
  intro vn hvn
  rw [C03.Voices.assignVoices_eq, List.mem_append] at hvn
  have hp := C03.Voices.partition_perm notes
  have hnd' : ∀ vn ∈ partitionVoices notes, (vn.2.map (·.idx)).Nodup :=
    C03.Voices.nodup_of_flat ((hp.map _).nodup_iff.mpr hnd)
  rcases hvn with hvn | hvn
  · left
    obtain ⟨hm, ns, hns, hsub⟩ := C03.Voices.kept_voices _ _ [] hnd' vn hvn
    exact ⟨hm, ns, hns, fun n hn => ⟨hsub n hn, C03.Voices.partition_voice notes _ hns n (hsub n hn)⟩⟩
  · right
    obtain ⟨hfresh, hapart⟩ := C03.Voices.new_voices_fresh notes vn hvn
    exact ⟨fun e he => Nat.lt_of_le_of_lt (C03.Voices.le_maxVoice he) hfresh, hapart⟩

/-! ### range numbers -/

/-- the number handed to a new range is the smallest positive number that no open range of its label uses -/
theorem number_is_smallest_free (used : List Nat) :
    smallestFree used ∉ used ∧ 1 ≤ smallestFree used ∧ ∀ m, 1 ≤ m → m < smallestFree used → m ∈ used :=
  C03.Ranges.smallestFree_spec used

/-- **numbers_distinct.**  After any sequence of start/stop elements (any prefix of any document, in whatever
    order the exporter meets them), two different ranges of one label that are open carry different numbers. -/
theorem numbers_distinct (ks : List Key) {l r1 r2 n1 n2 : Nat}
    (h1 : ((l, r1), n1) ∈ counterAfter [] ks) (h2 : ((l, r2), n2) ∈ counterAfter [] ks) (hr : r1 ≠ r2) : n1 ≠ n2 :=
  C03.Ranges.distinct_of_cinv (C03.Ranges.cinv_counterAfter ks C03.Ranges.cinv_nil) h1 h2 hr

/-- The core of `ranges_paired`: reading the elements in the order the exporter numbers them.  Whatever the order in which
    the starts and stops of the ranges of one kind come (a stop may precede its start), as long as every
    range is met at most once as a start and once as a stop and ends no earlier than it starts: pairing the
    written numbers the way `handle_slurs` (`checkTime = true`) / `handle_tuplets` does gives back, for every
    range that was closed, its own start note and stop note, loses nothing, and leaves open exactly what the
    exporter's counter still holds. -/
theorem ranges_paired_in_numbering_order (label : Nat) (tbl : Nat → C03.Ranges.Rng) (htime : C03.Ranges.TimeOK tbl)
    (checkTime : Bool) (evs : List C03.Ranges.REv) (hwf : C03.Ranges.WFEvs [] [] evs) :
    let st := pairAll checkTime { ongoing := fun _ => none, done := [], lost := [] }
      (C03.Ranges.marksOf label tbl [] evs)
    st.done = (C03.Ranges.closedBy [] evs).map (fun r => ((tbl r).sN, (tbl r).eN)) ∧ st.lost = [] ∧
      st.ongoing = C03.Ranges.ongoingOf tbl (C03.Ranges.finalS [] evs) := by
  have := C03.Ranges.pairAll_marksOf label tbl checkTime htime evs [] []
    { ongoing := fun _ => none, done := [], lost := [] } ⟨by simp, by simp⟩ (by funext k; simp [C03.Ranges.ongoingOf]) hwf
  simpa [C03.Ranges.cOf] using this

/-- **ranges_paired.**  The importer as it is (`readMarks`: the elements of a note are gathered, sorted stops-first and
    then by number, and paired through `ongoing`) on the elements as the exporter writes them (per note its
    stops sorted by number, then its starts sorted by number), where the numbers are the ones the exporter's
    counter hands out in the order it meets the ranges (per note `g.1 ++ g.2`): every range that was closed
    comes back with its own start note and stop note, nothing is lost or half recovered, and what stays open is
    what the exporter still has open. -/
theorem ranges_paired (label : Nat) (tbl : Nat → C03.Ranges.Rng) (htime : C03.Ranges.TimeOK tbl) (checkTime : Bool)
    (evs : List C03.Ranges.REv) (hwf : C03.Ranges.WFEvs [] [] evs)
    (notes : List (List Mark × List Mark))
    (hmarks : (notes.map C03.Order.toggled).flatten = C03.Ranges.marksOf label tbl [] evs)
    (hruns : C03.Order.GroupsOK (notes.map C03.Order.toggled))
    (hkind : ∀ g ∈ notes, (∀ a ∈ g.1, a.isStart = false) ∧ (∀ b ∈ g.2, b.isStart = true)) :
    let st := readMarks checkTime (notes.map C03.Order.written).flatten
    st.done.Perm ((C03.Ranges.closedBy [] evs).map (fun r => ((tbl r).sN, (tbl r).eN))) ∧ st.lost = [] ∧
      st.ongoing = C03.Ranges.ongoingOf tbl (C03.Ranges.finalS [] evs) := by
  have h1 := C03.Order.readMarks_written checkTime notes hruns hkind
  have h2 := ranges_paired_in_numbering_order label tbl htime checkTime evs hwf
  rw [hmarks] at h1
  obtain ⟨ho, hd, hl⟩ := h1
  simp only at h2 ⊢
  rw [h2.1] at hd
  rw [h2.2.1] at hl
  exact ⟨hd, List.Perm.eq_nil hl, ho.trans h2.2.2⟩

/-! ### ties -/

/-- **ties_paired.**  The notes that carry `<tie>` elements, in document order (voices one after the other, so
    not in time order), and the tie links `L` of the score.  If every link joins a note with a tie start to a
    later note (in the document) of the same pitch that starts where the first ends, every note with a tie stop
    ends exactly one link, no note is continued twice, and — the hypothesis of the property, *concurrently tied
    notes have distinct pitches* — no two notes of one pitch that both carry a tie start end at the same time,
    then the importer's pairing by pitch returns exactly the links of the score. -/
theorem ties_paired (ns : List TieNote) (L : List (Nat × Nat))
    (hids : (ns.map (·.note)).Nodup)
    (hstops : L.map (·.2) = (ns.filter (·.hasStop)).map (·.note))
    (honce : (L.map (·.1)).Nodup)
    (hlink : ∀ ab ∈ L, ∃ A B, A.note = ab.1 ∧ B.note = ab.2 ∧ A.hasStart = true ∧ A.pitch = B.pitch ∧
      A.stop = B.start ∧ C03.Ties.Before A B ns)
    (hdistinct : ∀ A ∈ ns, ∀ A' ∈ ns, A.hasStart = true → A'.hasStart = true → A.pitch = A'.pitch →
      A.stop = A'.stop → A = A') :
    readTies ns = L := by
  cases ns with
  | nil =>
    have : L = [] := by simpa using hstops
    simp [readTies, this]
  | cons n rest =>
    have := C03.Ties.readTies_spec rest n [] L []
      { ids := by simpa using hids
        stops := by simpa using hstops
        once := honce
        link := by
          intro ab hab
          obtain ⟨A, B, hA, hB, h1, h2, h3, hbef⟩ := hlink ab hab
          have hBm : B ∈ n :: rest := by
            obtain ⟨l1, l2, l3, h⟩ := hbef
            rw [h]; simp
          exact ⟨B, hBm, hB, Or.inr ⟨A, hA, h1, h2, h3, hbef⟩⟩
        apart := by
          intro e he e' he' hp hs
          simp only [C03.Ties.pool, List.nil_append, List.mem_map, List.mem_filter] at he he'
          obtain ⟨A, ⟨hA, hAs⟩, rfl⟩ := he
          obtain ⟨A', ⟨hA', hAs'⟩, rfl⟩ := he'
          rw [hdistinct A hA A' hA' hAs hAs' hp hs] }
    simpa [readTies] using this

/-! ### the hypotheses are satisfiable, and the witnesses of the repaired defects -/

section examples

private def nt (idx onset dur voice : Nat) (pitch : Int) : NoteIn :=
  { idx := idx, onset := onset, dur := dur, grace := false, voice := voice, staff := 1, pitch := pitch,
    step := [67], gracePrev := false, seq := [] }

private def gr (idx onset voice : Nat) (pitch : Int) (prev : Bool) (seq : List GraceRef) : NoteIn :=
  { idx := idx, onset := onset, dur := 0, grace := true, voice := voice, staff := 2, pitch := pitch,
    step := [65], gracePrev := prev, seq := seq }

/-- F-C03-1/F-C03-2 witness: voice 2 has a gap (4..8) and stops short of the end of the measure; voice 1 holds
    a chord whose members differ in duration (the longer one has to move to a new voice) -/
private def w1 : MeasureContent :=
  { nStaves := 1,
    segs := [{ start := 0, stop := 16,
               notes := [nt 0 0 16 1 60, nt 1 0 4 2 64, nt 2 8 4 2 67, nt 3 0 8 1 72],
               others := [{ onset := 0, order := 1, sig := "attributes" }, { onset := 8, order := 2, sig := "direction" }] }] }

example : MeasureWF w1 := by decide

example : linearize w1 =
    [.other 1 "attributes", .note 3 8 false false 1 0, .other 2 "direction", .backup 8,
     .note 1 4 false false 2 0, .forward 4, .note 2 4 false false 2 0, .backup 12, .note 0 16 false false 3 0] := by
  decide

example : interpret 0 (linearize w1) =
    some ([⟨3, 0, 8, 1, 1⟩, ⟨1, 0, 4, 2, 1⟩, ⟨2, 8, 4, 2, 1⟩, ⟨0, 0, 16, 3, 1⟩], 16) := by decide

/-- the unrepaired exporter wrote the second voice without the `<forward>` and stopped at the last note:
    an independent reader then finds note 2 at 4 instead of 8 — the negation of the property at the witness -/
example : interpret 0 [.other 1 "attributes", .note 3 8 false false 1 0, .other 2 "direction", .backup 8,
      .note 1 4 false false 2 0, .note 2 4 false false 2 0, .backup 8, .note 0 16 false false 3 0] ≠
    some ([⟨3, 0, 8, 1, 1⟩, ⟨1, 0, 4, 2, 1⟩, ⟨2, 8, 4, 2, 1⟩, ⟨0, 0, 16, 3, 1⟩], 16) := by decide

/-- two divisions segments, a grace run of two before a chord on staff 2 of two staves, a voice without number,
    a trailing gap -/
private def w2 : MeasureContent :=
  { nStaves := 2,
    segs := [{ start := 10, stop := 14,
               notes := [gr 0 10 0 70 false [⟨0, 10, 2⟩, ⟨1, 10, 2⟩], gr 1 10 0 71 true [⟨1, 10, 2⟩],
                         nt 2 10 2 0 60, nt 3 10 2 0 64],
               others := [{ onset := 10, order := 0, sig := "barline" }] },
             { start := 14, stop := 20,
               notes := [nt 4 14 3 0 62],
               others := [{ onset := 14, order := 1, sig := "attributes" }, { onset := 20, order := 2, sig := "direction" }] }] }

example : MeasureWF w2 := by decide

example : interpret 10 (linearize w2) =
    some ([⟨0, 10, 0, 1, 2⟩, ⟨1, 10, 0, 1, 2⟩, ⟨3, 10, 2, 1, 1⟩, ⟨2, 10, 2, 1, 1⟩, ⟨4, 14, 3, 1, 1⟩], 20) := by decide

example : readMeasure 10 (linearize w2) = interpret 10 (linearize w2) := by decide

/-- F-C03-4 witness: slurs A = (n0..n2), B = (n1..n4), C = (n3..n5) overlap pairwise; the unrepaired exporter numbered
    them 1, 2, 2.  Elements in document order: A+ B+ A- C+ B- C-. -/
example : numberAll [] [(0, 0), (0, 1), (0, 0), (0, 2), (0, 1), (0, 2)] = [1, 2, 1, 1, 2, 1] := by decide

private def tblEx : Nat → C03.Ranges.Rng
  | 0 => ⟨0, 0, 2, 8⟩
  | 1 => ⟨1, 4, 4, 16⟩
  | _ => ⟨3, 12, 5, 20⟩

example : C03.Ranges.WFEvs [] [] [(0, true), (1, true), (0, false), (2, true), (1, false), (2, false)] := by
  simp [C03.Ranges.WFEvs, C03.Ranges.stepS, C03.Ranges.lookupS, C03.Ranges.eraseS]

example : C03.Ranges.TimeOK tblEx := by
  intro r
  match r with
  | 0 => decide
  | 1 => decide
  | (n + 2) => show (12 : Nat) ≤ 20; decide

/-- a stop that comes before its start in the document (the slur ends in voice 1 and starts in voice 2) -/
example : C03.Ranges.WFEvs [] [] [(0, false), (1, true), (0, true), (1, false)] := by
  simp [C03.Ranges.WFEvs, C03.Ranges.stepS, C03.Ranges.lookupS, C03.Ranges.eraseS]

example : (readMarks true [⟨0, 0, true, 1⟩, ⟨1, 4, true, 2⟩, ⟨2, 8, false, 1⟩, ⟨3, 12, true, 1⟩, ⟨4, 16, false, 2⟩,
    ⟨5, 20, false, 1⟩]).done = [(0, 2), (1, 4), (3, 5)] := by decide

/-- F-C03-12 witness (corpus 12c): voice 2 ties a (12..16) to b (16..20) over the barline, voice 1 ties c (24..32)
    to d (32..36) over the next one, all C4.  In the document: a | c b | d — the ties cross.  The unrepaired importer
    kept one open note per pitch and returned (c, b) and nothing for d. -/
example : readTies [⟨0, 60, 12, 16, false, true⟩, ⟨1, 60, 24, 32, false, true⟩, ⟨2, 60, 16, 20, true, false⟩,
    ⟨3, 60, 32, 36, true, false⟩] = [(0, 2), (1, 3)] := by decide

example : C03.Ties.Before (⟨0, 60, 12, 16, false, true⟩ : TieNote) ⟨2, 60, 16, 20, true, false⟩
    [⟨0, 60, 12, 16, false, true⟩, ⟨1, 60, 24, 32, false, true⟩, ⟨2, 60, 16, 20, true, false⟩,
      ⟨3, 60, 32, 36, true, false⟩] :=
  ⟨[], [⟨1, 60, 24, 32, false, true⟩], [⟨3, 60, 32, 36, true, false⟩], rfl⟩

end examples

end C03
