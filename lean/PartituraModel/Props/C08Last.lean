/-
C08 (round 4) — the END of the loaded score and the exactness of written ticks.  Property theorems over
Model/MatchTime.lean.

* `last_bar_closed`: the measure of the last bar that holds a stored note ends where the written bar ends — for every
  written score (any number of changes of beat count and beat type), when the bar is complete under its time
  signature.  The importer closes the bar with the signature looked up AT THE FIRST STORED NOTE of the bar, by its
  position in beats (fix C08-17).  `last_bar_old_rule` is the witness against the rule before the fix (signature
  looked up at the reconstructed bar line in quarters), `last_bar_wrong_key` against a quarter-position lookup in a
  map keyed on positions in beats (the family of seeded change C08-g).
* `tick_stable` / `tick_moves`: a written tick is `round(10^6·ppq·t/mpq)` of the seconds the performed part holds;
  replacing `t` by a nearby `t'` (e.g. its float32 rounding, the `onset_sec` column of a note array) is harmless on
  the tick grid exactly as long as `|t' − t|` stays below half a tick, and changes the tick as soon as it exceeds
  half a tick.  `tick_float32_witness`: 40 minutes into a recording on the clock of the Vienna 4x22 files
  (4000 ticks per quarter of 0.5 s) the float32 rounding of an onset is already 61/64 of a tick off.
-/
import PartituraModel.Model.MatchTime
import PartituraModel.Proofs.C08
import PartituraModel.Proofs.C08Mixed
import PartituraModel.Proofs.C08Last
import PartituraModel.Proofs.Round
import PartituraModel.Props.C08Mixed

namespace C08
open Model Model.MatchTime C08P C08M C08L

/-- **last_bar_closed.**  A bar `[ms, me)` of a written score is complete under the time signature `sk` in force at
    its first stored note `o` (its length is `4·num/den` quarters).  The note is written as the exporter writes it.
    Then the importer looks up exactly `sk`'s beats and beat type at that note, and — with importer divisions `D`
    that resolve the bar line (`hD`, as in `bars_recovered`) and both bar lines on the division grid — the closing
    bar line `round(D·(bar start − shift)) + round(D·beats·4/beat type)` is exactly the written end of the bar. -/
theorem last_bar_closed (sc : Score) (wf : WrittenScore sc) (mnum : Int → Int)
    (s0 : TSig) (rest : List TSig) (hts : sc.ts = s0 :: rest) (ms me o : Int) (ho : s0.t ≤ o)
    (sk : TSig) (hat : tsAt sc.ts o = some sk) (maxTime : Rat) (n : SNote)
    (hbeat : n.beat = encBeat sc.divs sk.den (o - ms) + 1)
    (hoff : n.offset = Frac.ofRat (encOffset sc.divs sk.den (o - ms)))
    (hon : n.onsetB = dec4 (sc.beats o))
    (hend : n.onsetB < maxTime ∨ sc.ts.getLast? = some sk)
    (hcomplete : ((me - ms : Int) : Rat) / (sc.divs : Rat) = 4 * (sk.num : Rat) / (sk.den : Rat))
    (D : Nat) (shiftQ : Rat) (z w : Int)
    (hD : (D : Rat) * (1 / (5000 * (sk.den : Rat)) + |knotErr sc.beats sc.ts o|) < 1 / 2)
    (hz : (D : Rat) * (sc.quarters ms - shiftQ) = (z : Rat))
    (hw : (D : Rat) * (sc.quarters me - shiftQ) = (w : Rat)) :
    numAtBeats (sc.tsLines mnum) maxTime n.onsetB = sk.num
    ∧ denAtBeats (sc.tsLines mnum) maxTime n.onsetB = sk.den
    ∧ roundHalfEven ((D : Rat) * (barTime (sc.tsLines mnum) maxTime n - shiftQ))
        + barLenDivs D (numAtBeats (sc.tsLines mnum) maxTime n.onsetB) (denAtBeats (sc.tsLines mnum) maxTime n.onsetB)
      = w := by
  have hbar := (bars_recovered sc wf mnum s0 rest hts ms o ho sk hat maxTime n hbeat hoff hon hend).2.2 D shiftQ z hD hz
  have hpw := PW_score sc wf.sorted
  have hsorted := wf.sorted
  have hden := wf.den_pos
  have hat' := hat
  rw [hts] at hpw hsorted hden hat'
  have hats := hats_of_small_divs sc.divs wf.divs_pos wf.divs_small sc.beats rest s0 hsorted hpw hden
  have hseg := segOK_of_small_divs sc.divs wf.divs_pos wf.divs_small sc.beats rest s0 hsorted hpw hden o ho
  obtain ⟨hmem, hkb, hmax⟩ := seg_facts sc.beats rest s0 hats o (dec4 (sc.beats o)) sk hseg hat'
  have hinj := pairwise_lt_inj (fun x : TSig => dec4 (sc.beats x.t)) (s0 :: rest) hats
  have hdenAt : denAtBeats (sc.tsLines mnum) maxTime n.onsetB = sk.den := by
    rw [tsLines_eq, hts, List.map_cons, hon]
    apply denAtBeats_seg (tsLineOf sc.beats mnum s0) (rest.map (tsLineOf sc.beats mnum)) maxTime (dec4 (sc.beats o))
      (tsLineOf sc.beats mnum sk)
    · rw [← List.map_cons]; exact List.mem_map.mpr ⟨sk, hmem, rfl⟩
    · exact hkb
    · intro x hx hxb
      rw [← List.map_cons] at hx
      obtain ⟨y, hy, rfl⟩ := List.mem_map.mp hx
      exact hmax y hy hxb
    · rcases hend with h | h
      · left; rw [← hon]; exact h
      · right
        rw [← List.map_cons, getLast?_getD_map, ← hts, h]
        rfl
  have hnumAt : numAtBeats (sc.tsLines mnum) maxTime n.onsetB = sk.num := by
    rw [tsLines_eq, hts, List.map_cons, hon]
    apply numAtBeats_seg (tsLineOf sc.beats mnum s0) (rest.map (tsLineOf sc.beats mnum)) maxTime (dec4 (sc.beats o))
      (tsLineOf sc.beats mnum sk)
    · rw [← List.map_cons]; exact List.mem_map.mpr ⟨sk, hmem, rfl⟩
    · exact hkb
    · intro x hx hxb
      rw [← List.map_cons] at hx
      obtain ⟨y, hy, rfl⟩ := List.mem_map.mp hx
      refine ⟨(hmax y hy hxb).1, ?_⟩
      intro he
      have : y = sk := hinj y hy sk hmem he
      rw [this]
    · rcases hend with h | h
      · left; rw [← hon]; exact h
      · right
        rw [← List.map_cons, getLast?_getD_map_num, ← hts, h]
        rfl
  refine ⟨hnumAt, hdenAt, ?_⟩
  rw [hbar, hnumAt, hdenAt]
  -- the bar is `4·num/den` quarters long: `D` times that is the whole number `w − z`
  have hq : sc.quarters me - sc.quarters ms = ((me - ms : Int) : Rat) / (sc.divs : Rat) := by
    unfold Score.quarters
    rw [hts]
    simp only
    push_cast
    ring
  have hlen : (D : Rat) * (sk.num : Rat) * 4 / (sk.den : Rat) = ((w - z : Int) : Rat) := by
    have h1 : (D : Rat) * (sc.quarters me - sc.quarters ms) = (w : Rat) - (z : Rat) := by
      rw [← hw, ← hz]; ring
    rw [hq, hcomplete] at h1
    push_cast
    rw [← h1]
    ring
  unfold barLenDivs
  rw [hlen, Round.roundHalfEven_int]
  omega

/-- non-vacuity: in `exampleScore` (3/4 pickup | 6/8 | 2/2, 4 divisions per quarter) the 2/2 bar `[16, 32)` is
    complete; its first stored note a quarter after the bar line; 8 importer divisions; origin the pickup at −1:
    bar line at 8·(3+1) = 32, closing bar line at 8·(7+1) = 64 -/
example : roundHalfEven (((8 : Nat) : Rat) * (barTime (exampleScore.tsLines fun _ => 1) 12
        { measure := 2, beat := encBeat 4 2 (20 - 16) + 1, offset := Frac.ofRat (encOffset 4 2 (20 - 16)),
          dur := ⟨1, 4, 1⟩, comps := [], onsetB := dec4 (exampleScore.beats 20), offsetB := 0 } - (-1)))
      + barLenDivs 8
          (numAtBeats (exampleScore.tsLines fun _ => 1) 12 (dec4 (exampleScore.beats 20)))
          (denAtBeats (exampleScore.tsLines fun _ => 1) 12 (dec4 (exampleScore.beats 20))) = 64 := by
  have hk1 : knotErr exampleScore.beats exampleScore.ts 20 = 0 := by decide +kernel
  have hq16 : exampleScore.quarters 16 = 3 := by decide +kernel
  have hq32 : exampleScore.quarters 32 = 7 := by decide +kernel
  refine (last_bar_closed exampleScore ⟨by decide, by decide, by decide, by decide⟩ (fun _ => 1) ⟨0, 3, 4⟩
    [⟨4, 6, 8⟩, ⟨16, 2, 2⟩] rfl 16 32 20 (by decide) ⟨16, 2, 2⟩ (by decide) 12 _ rfl rfl rfl (Or.inr (by decide))
    ?_ 8 (-1) 32 64 ?_ ?_ ?_).2.2
  · show (((32 - 16 : Int) : Rat)) / ((4 : Nat) : Rat) = 4 * ((2 : Nat) : Rat) / ((2 : Nat) : Rat)
    norm_num
  · rw [hk1]; norm_num
  · rw [hq16]; norm_num
  · rw [hq32]; norm_num

/-- the file of the witness of F-C08-17: 2/4 | 3/2, 3 divisions per quarter, the only stored note a triplet quarter
    that starts 2/3 quarter into the 3/2 bar -/
def lastBarWitness : Score := { divs := 3, ts := [⟨0, 2, 4⟩, ⟨6, 3, 2⟩], ms := [⟨0, 6⟩, ⟨6, 24⟩] }

/-- **last_bar_old_rule** (witness of F-C08-17).  The note is written at beat time 2.3333; the bar line the importer
    reconstructs from it lies at 2 − 1/15000 quarters, a rounding error BEFORE the change to 3/2 at 2 quarters.  The rule
    before the fix looked the closing signature up at that bar line, in quarters, and found 2/4: the 3/2 bar
    `[2, 8)` was closed at 4.  Looked up at the note's position in beats the signature is 3/2, and the model's
    write-then-read closes the bar at 6·(2 + 6) = 48 of its 6 divisions per quarter. -/
theorem last_bar_old_rule :
    let ts := lastBarWitness.readTS
    let n : Option SNote := (lastBarWitness.storedLines [(8, 4)]).bind fun l => l.head?.map STime.toSNote
    n.map (·.onsetB) = some (23333 / 10000)
    ∧ n.map (barTime ts (dec4 (lastBarWitness.beats 12))) = some (2 - 1 / 15000)
    ∧ (n.map fun n => (closingSigByQuarters ts (dec4 (lastBarWitness.beats 12)) (barTime ts (dec4 (lastBarWitness.beats 12)) n)).den)
        = some 4
    ∧ (n.map fun n => (numAtBeats ts (dec4 (lastBarWitness.beats 12)) n.onsetB,
                        denAtBeats ts (dec4 (lastBarWitness.beats 12)) n.onsetB)) = some (3, 2)
    ∧ ((lastBarWitness.roundTrip [(8, 4)] []).map fun r => (r.divs, r.barlines, r.lastBarEnd)) = some (6, [(2, 12)], 48) := by
  decide +kernel

/-- the family of seeded change C08-g: 6/8 6/8 | 3/4, two divisions per quarter -/
def eighthsThenQuarters : Score := { divs := 2, ts := [⟨0, 6, 8⟩, ⟨12, 3, 4⟩], ms := [⟨0, 6⟩, ⟨6, 12⟩, ⟨12, 18⟩] }

/-- **last_bar_wrong_key.**  In 6/8 6/8 | 3/4 the change to 3/4 lies at BEAT 12 but at QUARTER 6.  A beat-type map
    keyed on positions in beats, asked at the quarter position 6 of the last bar line, still answers 8 (the last bar
    would be closed after 3·4/8 = 1.5 quarters); asked at the first note's position in beats it answers 4, and the
    model's write-then-read closes the bar at quarter 9 (144 of its 16 divisions per quarter). -/
theorem last_bar_wrong_key :
    let ts := eighthsThenQuarters.readTS
    ts.map (fun s => (s.timeB, s.num, s.den)) = [(0, 6, 8), (12, 3, 4)]
    ∧ denAtBeats ts 15 6 = 8
    ∧ denAtBeats ts 15 12 = 4
    ∧ ((eighthsThenQuarters.roundTrip [(0, 1), (6, 1), (12, 2), (16, 2)] []).map fun r => (r.divs, r.barlines, r.lastBarEnd))
        = some (16, [(1, 0), (2, 48), (3, 96)], 144) := by
  decide +kernel

/-! ### written ticks -/

/-- **tick_stable.**  `t` lies on the tick grid of the clock (`10^6·ppq·t/mpq = k`).  Any `t'` less than half a tick
    away from it is written as the same tick. -/
theorem tick_stable (t t' : Rat) (mpq ppq : Nat) (k : Int)
    (hk : 1000000 * (ppq : Rat) * t / (mpq : Rat) = (k : Rat))
    (hδ : |t' - t| * (1000000 * (ppq : Rat) / (mpq : Rat)) < 1 / 2) :
    secToTick t' mpq ppq = k := by
  unfold secToTick
  apply roundHalfEven_near
  have hr : (0 : Rat) ≤ 1000000 * (ppq : Rat) / (mpq : Rat) :=
    div_nonneg (mul_nonneg (by norm_num) (Nat.cast_nonneg _)) (Nat.cast_nonneg _)
  have e : 1000000 * (ppq : Rat) * t' / (mpq : Rat) - (k : Rat)
      = (t' - t) * (1000000 * (ppq : Rat) / (mpq : Rat)) := by
    rw [← hk]; ring
  rw [e, abs_mul, abs_of_nonneg hr]
  exact hδ

/-- **tick_moves.**  Any `t'` MORE than half a tick away from the grid time `t` is written as another tick: the
    seconds a tick is computed from must be the performed part's own binary64 seconds, not a copy of fewer bits. -/
theorem tick_moves (t t' : Rat) (mpq ppq : Nat) (k : Int)
    (hk : 1000000 * (ppq : Rat) * t / (mpq : Rat) = (k : Rat))
    (hδ : 1 / 2 < |t' - t| * (1000000 * (ppq : Rat) / (mpq : Rat))) :
    secToTick t' mpq ppq ≠ k := by
  unfold secToTick
  intro hround
  have hclose := Round.roundHalfEven_close (1000000 * (ppq : Rat) * t' / (mpq : Rat))
  rw [hround] at hclose
  have hr : (0 : Rat) ≤ 1000000 * (ppq : Rat) / (mpq : Rat) :=
    div_nonneg (mul_nonneg (by norm_num) (Nat.cast_nonneg _)) (Nat.cast_nonneg _)
  have e : (k : Rat) - 1000000 * (ppq : Rat) * t' / (mpq : Rat)
      = -((t' - t) * (1000000 * (ppq : Rat) / (mpq : Rat))) := by
    rw [← hk]; ring
  rw [e, abs_neg, abs_mul, abs_of_nonneg hr] at hclose
  linarith

/-- **tick_float32_witness.**  Tick 19200001 of the clock 4000 / 500000 (40 minutes and one tick): the time
    19200001/8000 s rounded to float32 (24 bits) is 9830401/4096 s, 61/64 of a tick later; it is written as tick
    19200002.  Both theorems above apply (non-vacuity): the exact time is stable, the float32 copy moves. -/
theorem tick_float32_witness :
    secToTick (19200001 / 8000) 500000 4000 = 19200001
    ∧ secToTick (9830401 / 4096) 500000 4000 = 19200002
    ∧ |(9830401 / 4096 : Rat) - 19200001 / 8000| * (1000000 * ((4000 : Nat) : Rat) / ((500000 : Nat) : Rat)) = 61 / 64 := by
  refine ⟨by decide +kernel, by decide +kernel, ?_⟩
  norm_num [abs_of_nonneg]

example : secToTick (9830401 / 4096) 500000 4000 ≠ 19200001 := by
  apply tick_moves (19200001 / 8000) (9830401 / 4096) 500000 4000 19200001
  · norm_num
  · have h := tick_float32_witness.2.2
    rw [h]; norm_num

example : secToTick (19200001 / 8000 + 1 / 100000) 500000 4000 = 19200001 := by
  apply tick_stable (19200001 / 8000) _ 500000 4000 19200001
  · norm_num
  · norm_num [abs_of_nonneg]

end C08
