/-
C06 (round 5) — the tick the exporter writes, as it computes it: `int(np.round(10**6 * ppq * t / mpq))` in binary64
(`quantF`, Model/PerfFloat.lean; compared with the code exactly, also at the x.5 boundaries).

* `tick_float_near`: the written tick is within 1/2 + 5·2^-53·X of the exact image X = 10^6·ppq·t/mpq — "the nearest
  tick" up to the four binary64 roundings of the expression;
* `tick_float_exact`: away from the x.5 boundaries (by more than that margin) it IS the exact nearest tick `quant`;
* `quantF_mono`: the conversion is monotone — the hypothesis `hq` of every notes theorem of C06 holds for the
  conversion the code really uses, so these theorems speak about the written file itself
  (`notes_kept_tracks_float`, `load_merged_notes_float`, `history_roundtrip_float`).
-/
import PartituraModel.Model.PerfFloat
import PartituraModel.Proofs.C06Float
import PartituraModel.Props.C06
import PartituraModel.Props.C06Merge
import PartituraModel.Props.C06History

namespace C06
open Model Model.PerfMidi Round C06Float C06Export C06Notes C06Merged C06Pair

/-- **The binary64 conversion is monotone**: later seconds are never written on an earlier tick. -/
theorem quantF_mono (mpq ppq : Nat) (hm : 0 < mpq) (a b : Rat) (h : a ≤ b) : quantF mpq ppq a ≤ quantF mpq ppq b := by
  unfold quantF tickImageF fdiv fmul
  apply roundHalfEven_mono
  apply b64_mono
  have hM : 0 < b64 (mpq : Rat) := b64_pos_pos _ (by exact_mod_cast hm)
  apply div_le_div_of_nonneg_right _ (le_of_lt hM)
  apply b64_mono
  have hK : 0 ≤ b64 ((1000000 * ppq : Nat) : Rat) := b64_nonneg _ (by positivity)
  exact mul_le_mul_of_nonneg_left h hK

/-- the image `10**6 * ppq * t / mpq` evaluated in binary64 is within relative error 5·2^-53 of the exact one -/
theorem tickImageF_near (mpq ppq : Nat) (hm : 0 < mpq) (t : Rat) (ht : 0 ≤ t) :
    |tickImageF mpq ppq t - 1000000 * (ppq : Rat) * t / (mpq : Rat)|
      ≤ 5 / (2 : Rat) ^ 53 * (1000000 * (ppq : Rat) * t / (mpq : Rat)) := by
  have hm' : (0 : Rat) < (mpq : Rat) := by exact_mod_cast hm
  set u : Rat := 1 / (2 : Rat) ^ 53 with hu
  have hu0 : 0 < u := by rw [hu]; positivity
  have hu1 : u < 1 := by rw [hu]; norm_num
  set K : Rat := ((1000000 * ppq : Nat) : Rat) with hK
  have hK0 : 0 ≤ K := by rw [hK]; positivity
  have hKe : K = 1000000 * (ppq : Rat) := by rw [hK]; push_cast; ring
  -- the four roundings
  obtain ⟨a1, a2⟩ := b64_rel K hK0
  have hA0 : 0 ≤ b64 K := b64_nonneg K hK0
  have hP0 : 0 ≤ b64 K * t := mul_nonneg hA0 ht
  obtain ⟨b1, b2⟩ := b64_rel (b64 K * t) hP0
  have hB0 : 0 ≤ b64 (b64 K * t) := b64_nonneg _ hP0
  obtain ⟨m1, m2⟩ := b64_rel (mpq : Rat) (le_of_lt hm')
  have hM : 0 < b64 (mpq : Rat) := b64_pos_pos _ hm'
  have hQ0 : 0 ≤ b64 (b64 K * t) / b64 (mpq : Rat) := div_nonneg hB0 (le_of_lt hM)
  obtain ⟨c1, c2⟩ := b64_rel _ hQ0
  set A := b64 K
  set B := b64 (A * t)
  set M := b64 (mpq : Rat)
  set Q := B / M with hQ
  set C := b64 Q
  have hC : tickImageF mpq ppq t = C := rfl
  have hQM : Q * M = B := by rw [hQ]; field_simp
  set m : Rat := (mpq : Rat)
  -- upper chain:  C·m·(1-u) ≤ K·t·(1+u)^3
  have up1 : Q * (m * (1 - u)) ≤ B := by
    rw [← hQM]; exact mul_le_mul_of_nonneg_left m1 hQ0
  have up2 : B ≤ K * t * ((1 + u) * (1 + u)) := by
    calc B ≤ A * t * (1 + u) := b2
      _ ≤ (K * (1 + u)) * t * (1 + u) := by
          apply mul_le_mul_of_nonneg_right _ (by linarith)
          exact mul_le_mul_of_nonneg_right a2 ht
      _ = K * t * ((1 + u) * (1 + u)) := by ring
  have up3 : C * (m * (1 - u)) ≤ K * t * ((1 + u) * (1 + u) * (1 + u)) := by
    calc C * (m * (1 - u)) ≤ (Q * (1 + u)) * (m * (1 - u)) := by
          apply mul_le_mul_of_nonneg_right c2
          exact mul_nonneg (le_of_lt hm') (by linarith)
      _ = (Q * (m * (1 - u))) * (1 + u) := by ring
      _ ≤ B * (1 + u) := mul_le_mul_of_nonneg_right up1 (by linarith)
      _ ≤ (K * t * ((1 + u) * (1 + u))) * (1 + u) := mul_le_mul_of_nonneg_right up2 (by linarith)
      _ = K * t * ((1 + u) * (1 + u) * (1 + u)) := by ring
  have num_up : (1 + u) * (1 + u) * (1 + u) ≤ (1 + 5 * u) * (1 - u) := by rw [hu]; norm_num
  have up4 : C * m ≤ K * t * (1 + 5 * u) := by
    have h1 : C * (m * (1 - u)) ≤ K * t * ((1 + 5 * u) * (1 - u)) :=
      le_trans up3 (mul_le_mul_of_nonneg_left num_up (mul_nonneg hK0 ht))
    have h2 : (C * m) * (1 - u) ≤ (K * t * (1 + 5 * u)) * (1 - u) := by
      calc (C * m) * (1 - u) = C * (m * (1 - u)) := by ring
        _ ≤ K * t * ((1 + 5 * u) * (1 - u)) := h1
        _ = (K * t * (1 + 5 * u)) * (1 - u) := by ring
    exact le_of_mul_le_mul_right h2 (by linarith)
  -- lower chain:  K·t·(1-u)^3 ≤ C·m·(1+u)
  have lo1 : B ≤ Q * (m * (1 + u)) := by
    rw [← hQM]; exact mul_le_mul_of_nonneg_left m2 hQ0
  have lo2 : K * t * ((1 - u) * (1 - u)) ≤ B := by
    calc K * t * ((1 - u) * (1 - u)) = (K * (1 - u)) * t * (1 - u) := by ring
      _ ≤ A * t * (1 - u) := by
          apply mul_le_mul_of_nonneg_right _ (by linarith)
          exact mul_le_mul_of_nonneg_right a1 ht
      _ ≤ B := b1
  have lo3 : K * t * ((1 - u) * (1 - u) * (1 - u)) ≤ C * (m * (1 + u)) := by
    calc K * t * ((1 - u) * (1 - u) * (1 - u)) = (K * t * ((1 - u) * (1 - u))) * (1 - u) := by ring
      _ ≤ B * (1 - u) := mul_le_mul_of_nonneg_right lo2 (by linarith)
      _ ≤ (Q * (m * (1 + u))) * (1 - u) := mul_le_mul_of_nonneg_right lo1 (by linarith)
      _ = (Q * (1 - u)) * (m * (1 + u)) := by ring
      _ ≤ C * (m * (1 + u)) := by
          apply mul_le_mul_of_nonneg_right c1
          exact mul_nonneg (le_of_lt hm') (by linarith)
  have num_lo : (1 - 5 * u) * (1 + u) ≤ (1 - u) * (1 - u) * (1 - u) := by rw [hu]; norm_num
  have lo4 : K * t * (1 - 5 * u) ≤ C * m := by
    have h1 : K * t * ((1 - 5 * u) * (1 + u)) ≤ C * (m * (1 + u)) :=
      le_trans (mul_le_mul_of_nonneg_left num_lo (mul_nonneg hK0 ht)) lo3
    have h2 : (K * t * (1 - 5 * u)) * (1 + u) ≤ (C * m) * (1 + u) := by
      calc (K * t * (1 - 5 * u)) * (1 + u) = K * t * ((1 - 5 * u) * (1 + u)) := by ring
        _ ≤ C * (m * (1 + u)) := h1
        _ = (C * m) * (1 + u) := by ring
    exact le_of_mul_le_mul_right h2 (by linarith)
  -- divide by m
  rw [hC, ← hKe]
  have e5 : 5 / (2 : Rat) ^ 53 = 5 * u := by rw [hu]; ring
  rw [e5, abs_le]
  have hX : K * t / m * m = K * t := by field_simp
  constructor
  · have : (K * t / m - 5 * u * (K * t / m)) * m ≤ C * m := by
      calc (K * t / m - 5 * u * (K * t / m)) * m = (K * t / m * m) * (1 - 5 * u) := by ring
        _ = K * t * (1 - 5 * u) := by rw [hX]
        _ ≤ C * m := lo4
    have := le_of_mul_le_mul_right this hm'
    linarith
  · have : C * m ≤ (K * t / m + 5 * u * (K * t / m)) * m := by
      calc C * m ≤ K * t * (1 + 5 * u) := up4
        _ = (K * t / m * m) * (1 + 5 * u) := by rw [hX]
        _ = (K * t / m + 5 * u * (K * t / m)) * m := by ring
    have := le_of_mul_le_mul_right this hm'
    linarith

/-- **The written tick is the nearest tick up to binary64 rounding**: with X = 10^6·ppq·t/mpq the exact image of a
    time t ≥ 0, `|tick − X| ≤ 1/2 + 5·2^-53·X`. -/
theorem tick_float_near (mpq ppq : Nat) (hm : 0 < mpq) (t : Rat) (ht : 0 ≤ t) :
    |((quantF mpq ppq t : Int) : Rat) - 1000000 * (ppq : Rat) * t / (mpq : Rat)|
      ≤ 1 / 2 + 5 / (2 : Rat) ^ 53 * (1000000 * (ppq : Rat) * t / (mpq : Rat)) := by
  have h1 := roundHalfEven_close (tickImageF mpq ppq t)
  have h2 := tickImageF_near mpq ppq hm t ht
  unfold quantF
  calc |((roundHalfEven (tickImageF mpq ppq t) : Int) : Rat) - 1000000 * (ppq : Rat) * t / (mpq : Rat)|
      = |(((roundHalfEven (tickImageF mpq ppq t) : Int) : Rat) - tickImageF mpq ppq t)
          + (tickImageF mpq ppq t - 1000000 * (ppq : Rat) * t / (mpq : Rat))| := by ring_nf
    _ ≤ |((roundHalfEven (tickImageF mpq ppq t) : Int) : Rat) - tickImageF mpq ppq t|
          + |tickImageF mpq ppq t - 1000000 * (ppq : Rat) * t / (mpq : Rat)| := abs_add_le _ _
    _ ≤ 1 / 2 + 5 / (2 : Rat) ^ 53 * (1000000 * (ppq : Rat) * t / (mpq : Rat)) := add_le_add h1 h2

/-- **Away from the x.5 boundaries the written tick IS the exact nearest tick**: if the exact image X is closer to
    its nearest integer than 1/2 by more than the rounding margin 5·2^-53·X, binary64 and exact arithmetic agree. -/
theorem tick_float_exact (mpq ppq : Nat) (hm : 0 < mpq) (t : Rat) (ht : 0 ≤ t)
    (h : |1000000 * (ppq : Rat) * t / (mpq : Rat) - ((quant mpq ppq t : Int) : Rat)|
          + 5 / (2 : Rat) ^ 53 * (1000000 * (ppq : Rat) * t / (mpq : Rat)) < 1 / 2) :
    quantF mpq ppq t = quant mpq ppq t := by
  unfold quantF
  apply C07Float.roundHalfEven_near
  have h2 := tickImageF_near mpq ppq hm t ht
  calc |tickImageF mpq ppq t - ((quant mpq ppq t : Int) : Rat)|
      = |(tickImageF mpq ppq t - 1000000 * (ppq : Rat) * t / (mpq : Rat))
          + (1000000 * (ppq : Rat) * t / (mpq : Rat) - ((quant mpq ppq t : Int) : Rat))| := by ring_nf
    _ ≤ |tickImageF mpq ppq t - 1000000 * (ppq : Rat) * t / (mpq : Rat)|
          + |1000000 * (ppq : Rat) * t / (mpq : Rat) - ((quant mpq ppq t : Int) : Rat)| := abs_add_le _ _
    _ < 1 / 2 := by linarith

/-- non-vacuity: 0.3 s at 480 ticks per 0.5 s — both arithmetics give tick 288; and a time ON a boundary
    (tick image 288.5 exactly: 0.30052083… is no binary64 number, 1154/3840 s is used as the rational) -/
example : quantF 500000 480 (3 / 10) = 288 ∧ quant 500000 480 (3 / 10) = 288 ∧
    quant 500000 480 (577 / 1920) = 288 := by decide +kernel

-- ====================================================================== the notes theorems for the written file

/-- `notes_kept_tracks` for the conversion the code uses: no hypothesis on the conversion is left -/
theorem notes_kept_tracks_float (mpq ppq : Nat) (hm : 0 < mpq) (parts : List PPart)
    (hwf : ∀ p ∈ parts, ∀ n ∈ p.notes, n.on ≤ n.off ∧ 0 < n.vel)
    (hno : ∀ tr κ, (keyNotes parts tr κ).Pairwise (fun a b => a.off ≤ b.on)) :
    List.Forall₂ (fun tr t => ∀ κ, notesOf κ (pairNotes t) = (keyNotes parts tr κ).map (toR (quantF mpq ppq)))
      (usedTracks (quantF mpq ppq) parts)
      (loaderTracks false ((savedAbs (quantF mpq ppq) mpq false parts).map toDelta)) :=
  notes_kept_tracks (quantF mpq ppq) (quantF_mono mpq ppq hm) mpq parts hwf hno

/-- `load_merged_notes` for the conversion the code uses -/
theorem load_merged_notes_float (mpq ppq : Nat) (hm : 0 < mpq) (ms ml : Bool) (parts : List PPart)
    (hmg : ml = true ∨ (ms = true ∧ 1 < (usedTracks (quantF mpq ppq) parts).length))
    (hwf : ∀ p ∈ parts, ∀ n ∈ p.notes, n.on ≤ n.off ∧ 0 < n.vel)
    (hno : ∀ κ, (mergedKeyNotes (quantF mpq ppq) parts κ).Pairwise (MergeOk (quantF mpq ppq))) :
    (loadFile ml ((savedAbs (quantF mpq ppq) mpq ms parts).map toDelta)).length ≤ 1 ∧
    ∀ rt ∈ loadFile ml ((savedAbs (quantF mpq ppq) mpq ms parts).map toDelta), rt.fileTrack = 0 ∧
      rt.notes.Perm ((parts.flatMap (·.notes)).map (toR (quantF mpq ppq))) ∧
      rt.notes.Pairwise (fun a b => rnoteLe a b = true) :=
  load_merged_notes (quantF mpq ppq) (quantF_mono mpq ppq hm) mpq ms ml parts hmg hwf hno

/-- `history_roundtrip` for the file the code writes: any history of uses of the written file or the returned
    object, every load returns the performance's controls, programs and (merged) notes at the ticks the code writes -/
theorem history_roundtrip_float (ppq mpq : Nat) (hm : 0 < mpq) (ms : Bool) (parts : List PPart) (f : MidiObj)
    (hf : f.saved = writtenObj (quantF mpq ppq) ppq mpq ms parts) (us : List Use) :
    (runUses f us).1 = f ∧
    ∀ (i : Nat) (p : Bool) (d : Nat) (ml : Bool), us[i]? = some (.load p d ml) →
      ∃ r ps, (runUses f us).2[i]? = some (.loaded r) ∧ r.parts = some ps ∧ ps.length = r.kept.length ∧
        (r.kept.flatMap (·.controls)).Perm
          ((usedTracks (quantF mpq ppq) parts).flatMap (perfControls (quantF mpq ppq) parts)) :=
  ⟨(history_roundtrip (quantF mpq ppq) (quantF_mono mpq ppq hm) ppq mpq ms parts f hf us).1, fun i p d ml hu => by
    obtain ⟨r, ps, h1, h2, h3, h4, _⟩ :=
      (history_roundtrip (quantF mpq ppq) (quantF_mono mpq ppq hm) ppq mpq ms parts f hf us).2 i p d ml hu
    exact ⟨r, ps, h1, h2, h3, h4⟩⟩

end C06
