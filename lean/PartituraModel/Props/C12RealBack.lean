/-
C12, round 6 — the other direction of "frequency and MIDI pitch invert each other in equal temperament", over ℝ:
frequency → pitch → frequency.  No inverse exists there (a pitch number is an integer), so the statement is the one
`C12.sec_tick_sec_close` makes for seconds → ticks → seconds: the frequency that comes back is the equal-tempered
frequency NEAREST to the one given — it differs from it by at most half a semitone (a factor 2^(±1/24)) — for every
positive frequency and tuning, with the constants of the two source lines as regenerated.
-/
import PartituraModel.Proofs.C12FreqBack
import PartituraModel.Props.C12Real

namespace C12
open Gen.C12

/-- the pitch number before rounding -/
noncomputable def pitchNumber (f a4 : ℝ) : ℝ :=
  ((f2mOctave : ℚ) : ℝ) * Real.logb 2 (((f2mMul : ℚ) : ℝ) * f / a4) + ((f2mRef : ℚ) : ℝ)

theorem freqToMidi_round (f a4 : ℝ) : freqToMidi f a4 = round (pitchNumber f a4) := rfl

/-- frequency → pitch → frequency: the result is `f · 2^(e/12)` where `e`, the rounding error of the pitch number,
    is at most half a semitone -/
theorem pitch_freq_close (f a4 : ℝ) (hf : 0 < f) (ha : 0 < a4) :
    ∃ e : ℝ, |e| ≤ 1 / 2 ∧ e = (freqToMidi f a4 : ℝ) - pitchNumber f a4 ∧
      midiToFreq (freqToMidi f a4) a4 = f * (2 : ℝ) ^ (e / 12) := by
  obtain ⟨h1, h2, h3, h4, h5, h6⟩ := freq_consts_real
  have ho : ((m2fOctave : ℚ) : ℝ) = 12 := by rw [octave_twelve.1]; norm_num
  have hD : (0 : ℝ) < ((m2fDiv : ℚ) : ℝ) := by exact_mod_cast octave_twelve.2
  refine ⟨(freqToMidi f a4 : ℝ) - pitchNumber f a4, ?_, rfl, ?_⟩
  · rw [freqToMidi_round, abs_sub_comm]
    exact abs_sub_round _
  · unfold midiToFreq pitchNumber
    rw [h1, h2]
    have := C12Freq.back _ _ _ _ _ freqShift hD h3 h5 h6 f a4 hf ha (freqToMidi f a4 : ℝ)
    rw [this, ho]

/-- … hence within a quarter tone of the frequency given: between f·2^(−1/24) and f·2^(1/24) -/
theorem pitch_freq_quarter_tone (f a4 : ℝ) (hf : 0 < f) (ha : 0 < a4) :
    f * (2 : ℝ) ^ (-(1 : ℝ) / 24) ≤ midiToFreq (freqToMidi f a4) a4 ∧
    midiToFreq (freqToMidi f a4) a4 ≤ f * (2 : ℝ) ^ ((1 : ℝ) / 24) := by
  obtain ⟨e, he, _, hv⟩ := pitch_freq_close f a4 hf ha
  rw [hv]
  have h12 : (1 : ℝ) ≤ 2 := by norm_num
  have hb := abs_le.mp he
  constructor
  · apply mul_le_mul_of_nonneg_left _ (le_of_lt hf)
    apply Real.rpow_le_rpow_of_exponent_le h12
    linarith [hb.1]
  · apply mul_le_mul_of_nonneg_left _ (le_of_lt hf)
    apply Real.rpow_le_rpow_of_exponent_le h12
    linarith [hb.2]

/-- an equal-tempered frequency comes back exactly (the composition is idempotent on its image) -/
theorem pitch_freq_fixed (p : ℤ) (a4 : ℝ) (ha : 0 < a4) :
    midiToFreq (freqToMidi (midiToFreq p a4) a4) a4 = midiToFreq p a4 := by
  rw [freq_pitch p a4 ha]

end C12
