/-
C07 — `importmatch.validate_match_ids`, the last step of `load_matchfile`: what it removes and what it keeps.
Model/MatchLine.lean `validateIds` / `loadFileV`; compared with the real loader on synthesised files with
repeated score-note and performed-note ids (stream `loadfile`).
-/
import PartituraModel.Model.MatchLine

namespace C07
open Model Model.Template Model.MatchCodec Model.MatchLine

/-- the lines come out in file order, none is invented -/
theorem validate_sublist (nS : Nat) (recs : List (String × List Val)) : (validateIds nS recs).Sublist recs := by
  unfold validateIds
  exact (List.filter_sublist).trans List.filter_sublist

/-- **exactly what is removed**: a line is kept iff it is not a deletion with a repeated score id and not an
    insertion whose performed-note id is repeated among the lines kept by the first step -/
theorem validate_mem (nS : Nat) (recs : List (String × List Val)) (r : String × List Val) :
    r ∈ validateIds nS recs ↔
      r ∈ recs ∧ dupDeletion (recs.filterMap scoreId) r = false ∧
        dupInsertion nS ((recs.filter fun x => !dupDeletion (recs.filterMap scoreId) x).filterMap (noteId nS)) r = false := by
  unfold validateIds
  simp only [List.mem_filter, Bool.not_eq_true', and_assoc]

/-- **every line that is neither a deletion nor an insertion is kept** (note pairs, ornaments, pedal, info,
    meta, score properties, sections, time lines), in file order -/
theorem validate_keeps_others (nS : Nat) (recs : List (String × List Val)) :
    (validateIds nS recs).filter (fun r => !isDeletionKind r.1 && !isInsertionKind r.1) =
      recs.filter (fun r => !isDeletionKind r.1 && !isInsertionKind r.1) := by
  unfold validateIds
  simp only [List.filter_filter]
  apply List.filter_congr
  intro r _
  unfold dupDeletion dupInsertion
  cases hd : isDeletionKind r.1 <;> cases hi : isInsertionKind r.1 <;> simp

/-- **distinct ids: nothing is removed** (what the synthesised files of the earlier rounds relied on) -/
theorem validate_distinct (nS : Nat) (recs : List (String × List Val))
    (hs : ∀ a, countOf a (recs.filterMap scoreId) ≤ 1) (hp : ∀ a, countOf a (recs.filterMap (noteId nS)) ≤ 1) :
    validateIds nS recs = recs := by
  have h1 : recs.filter (fun r => !dupDeletion (recs.filterMap scoreId) r) = recs := by
    rw [List.filter_eq_self]
    intro r _
    unfold dupDeletion
    cases scoreId r with
    | none => simp
    | some a =>
      have := hs a
      have hd : decide (countOf a (recs.filterMap scoreId) > 1) = false := by
        simp only [decide_eq_false_iff_not]; omega
      simp [hd]
  unfold validateIds
  simp only [h1]
  rw [List.filter_eq_self]
  intro r _
  unfold dupInsertion
  cases noteId nS r with
  | none => simp
  | some a =>
    have := hp a
    have hd : decide (countOf a (recs.filterMap (noteId nS)) > 1) = false := by
      simp only [decide_eq_false_iff_not]; omega
    simp [hd]

/-- a deletion that is kept has a score id that no other line with a score note carries -/
theorem validate_deletion_unique (nS : Nat) (recs : List (String × List Val)) (r : String × List Val) (a : Val)
    (hr : r ∈ validateIds nS recs) (hk : isDeletionKind r.1 = true) (ha : scoreId r = some a) :
    countOf a (recs.filterMap scoreId) = 1 := by
  have hm := (validate_mem nS recs r).mp hr
  have hd := hm.2.1
  unfold dupDeletion at hd
  simp only [hk, ha, Bool.true_and, decide_eq_false_iff_not] at hd
  have hin : a ∈ recs.filterMap scoreId := List.mem_filterMap.mpr ⟨r, hm.1, ha⟩
  have hpos : 0 < countOf a (recs.filterMap scoreId) := by
    unfold countOf
    apply List.length_pos_of_mem (a := a)
    simp [List.mem_filter, hin]
  omega

/-- a deletion whose score id also stands in a note pair (or in another deletion) is removed; the note pair stays -/
example : validateIds 2
    [("snote_note", [.str "n1".toList, .int 0, .str "p1".toList]), ("deletion", [.str "n1".toList, .int 0]),
     ("deletion", [.str "n2".toList, .int 0]), ("insertion", [.str "p1".toList]), ("insertion", [.str "p2".toList]),
     ("trill", [.str "n9".toList, .str "p2".toList]), ("sustain", [.int 1, .int 2])]
    = [("snote_note", [.str "n1".toList, .int 0, .str "p1".toList]), ("deletion", [.str "n2".toList, .int 0]),
       ("trill", [.str "n9".toList, .str "p2".toList]), ("sustain", [.int 1, .int 2])] := by decide +kernel

/-- the loader with validation reads the same version and a sub-list of what the loader without it reads -/
theorem loadFileV_spec (ts : List Template) (cs : List Composite) (lines : List Str) (v : Nat × Nat × Nat)
    (recs : List (String × List Val)) (h : loadFile ts cs lines = some (v, recs)) :
    ∃ recs', loadFileV ts cs lines = some (v, recs') ∧ recs'.Sublist recs ∧
      recs'.filter (fun r => !isDeletionKind r.1 && !isInsertionKind r.1) =
        recs.filter (fun r => !isDeletionKind r.1 && !isInsertionKind r.1) := by
  unfold loadFileV
  rw [h]
  exact ⟨_, rfl, validate_sublist _ _, validate_keeps_others _ _⟩

/-- with distinct score-note ids and distinct performed-note ids the loader with validation returns exactly the
    parsed lines (composes with `loadFile_written`, Props/C07Dispatch.lean, to the whole `load_matchfile`) -/
theorem loadFileV_distinct (ts : List Template) (cs : List Composite) (lines : List Str) (v : Nat × Nat × Nat)
    (recs : List (String × List Val)) (h : loadFile ts cs lines = some (v, recs))
    (hs : ∀ a, countOf a (recs.filterMap scoreId) ≤ 1)
    (hp : ∀ nS a, countOf a (recs.filterMap (noteId nS)) ≤ 1) :
    loadFileV ts cs lines = some (v, recs) := by
  unfold loadFileV
  rw [h]
  simp only [Option.map_some, validate_distinct _ recs hs (hp _)]

end C07
