import PartituraModel.Proofs.C15Order

namespace C15
open Model.Merge

end C15
