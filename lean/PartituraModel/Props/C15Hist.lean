/-
C15, round 3 - the argument of `merge_parts` as the caller sees it at the time of the call.

  * a Score object is merged through the list `score.parts` it holds THEN - after any history of item assignments,
    assignments to `.parts` (what `unfold_part_maximal` / `unfold_part_minimal` do to the copy they return), appends,
    pops and reversals - and never through `part_structure`, which no step of a history changes
    (`Model.Merge.AScore`, `ScoreOp`, `runOps`, `Arg`, `mergeArg`)
  * the renumbered voices (staves) of a later part lie strictly above those of every earlier part, and the offset of
    a part is the LEAST number that achieves this: the highest voice (staff) of part i and voice (staff) 1 of part
    i + 1 become neighbours.  Hence every element must be counted with the voice / staff it carries at the time of
    the call - `allElems`: the elements and the objects that are on the timeline by their end only - and a count that
    misses one (a number of staves remembered from before an in-place edit, a scan that skips end-only objects) makes
    two inputs share a staff (`staff_offset_tight`, `stale_count_collides`).
Histories of a PART (reads, in-place attribute edits) do not occur in the model: `mergeParts` is a function of the
elements as they are, which is the statement; the harness reads them from the objects after the history.
-/
import PartituraModel.Proofs.C15Order

namespace C15
open Model.Merge

-- ================================================================ Score objects and their history

theorem mkScore_parts (s : Shape) : (mkScore s).parts = iterParts s := by
  cases s <;> rfl

theorem runOps_append (sc : AScore) (a b : List ScoreOp) :
    runOps sc (a ++ b) = (runOps sc a).bind fun sc' => runOps sc' b := by
  induction a generalizing sc with
  | nil => simp [runOps]
  | cons o os ih =>
    simp only [List.cons_append, runOps]
    cases o.run sc with
    | none => simp
    | some sc1 => simpa using ih sc1

/-- a fresh Score is merged like what it was built from -/
theorem score_fresh (m : Mode) (s : Shape) : mergeArg m (.score s []) = merge m s := by
  simp [mergeArg, argParts, runOps, mkScore_parts, merge]

/-- no step of a history touches `part_structure` - which is why it cannot be what `merge_parts` merges -/
theorem score_structure_fixed (sc sc' : AScore) (ops : List ScoreOp) (h : runOps sc ops = some sc') :
    sc'.partStructure = sc.partStructure := by
  induction ops generalizing sc with
  | nil => simp [runOps] at h; rw [← h]
  | cons o os ih =>
    simp only [runOps] at h
    cases ho : o.run sc with
    | none => simp [ho] at h
    | some sc1 =>
      simp only [ho, Option.bind_some] at h
      rw [ih sc1 h]
      cases o <;> simp only [ScoreOp.run] at ho
      · split at ho
        · simp only [Option.some.injEq] at ho; rw [← ho]
        · cases ho
      · simp only [Option.some.injEq] at ho; rw [← ho]
      · simp only [Option.some.injEq] at ho; rw [← ho]
      · split at ho
        · simp only [Option.some.injEq] at ho; rw [← ho]
        · cases ho
      · simp only [Option.some.injEq] at ho; rw [← ho]

/-- Whatever a Score was built from and whatever happened to it since: `merge_parts(score)` is the merge of the list
`score.parts` as it is at the time of the call. -/
theorem score_sees_parts (m : Mode) (s : Shape) (ops : List ScoreOp) (sc : AScore)
    (h : runOps (mkScore s) ops = some sc) :
    mergeArg m (.score s ops) = mergeParts m (distinctParts sc.parts) := by
  simp [mergeArg, argParts, h]

/-- ... in particular after `score.parts = ps` (the Score returned by `unfold_part_maximal` / `unfold_part_minimal`
is a copy whose `.parts` were assigned the unfolded parts): exactly `ps` are merged, whatever came before -/
theorem score_assign_last (m : Mode) (s : Shape) (ops : List ScoreOp) (sc : AScore)
    (h : runOps (mkScore s) ops = some sc) (ps : List APart) :
    mergeArg m (.score s (ops ++ [.assign ps])) = mergeParts m (distinctParts ps) := by
  simp [mergeArg, argParts, runOps_append, h, runOps, ScoreOp.run]

/-- ... and after `score[i] = p`: the part at position `i` is `p`, the others are the ones that were there -/
theorem score_setitem_last (m : Mode) (s : Shape) (ops : List ScoreOp) (sc : AScore)
    (h : runOps (mkScore s) ops = some sc) (i : Nat) (p : APart) (hi : i < sc.parts.length) :
    mergeArg m (.score s (ops ++ [.setItem i p])) = mergeParts m (distinctParts (sc.parts.set i p)) := by
  simp [mergeArg, argParts, runOps_append, h, runOps, ScoreOp.run, hi]

/-- The merged part of a Score describes the parts the caller sees through `score.parts` (each Part object once:
`ps = distinctParts sc.parts`, which is `sc.parts` itself unless a part was put there twice): it holds exactly the
images of the kept elements of THOSE parts (every element of the first, the non-discarded classes of the others), with
the least common multiple of THEIR divisions.  All statements of Props/C15.lean and Props/C15Ext.lean about
`mergeParts m ps` apply with that `ps`. -/
theorem score_merged_contents (m : Mode) (s : Shape) (ops : List ScoreOp) (L : Nat) (es : List Elem)
    (h : mergeArg m (.score s ops) = some (.merged L es)) :
    ∃ sc ps, runOps (mkScore s) ops = some sc ∧ ps = distinctParts sc.parts
      ∧ ((sc.parts.map (·.pid)).Nodup → ps = sc.parts)
      ∧ mergeParts m ps = some (.merged L es)
      ∧ L = lcmList (ps.map (·.divs))
      ∧ ∀ e', e' ∈ es ↔ ∃ i p e, ps[i]? = some p ∧ e ∈ p.elems ∧ keep m (i == 0) e = true
                        ∧ e' = image m L ps i p e := by
  cases hr : runOps (mkScore s) ops with
  | none => simp [mergeArg, argParts, hr] at h
  | some sc =>
    have h' : mergeParts m (distinctParts sc.parts) = some (.merged L es) := by
      rw [← score_sees_parts m s ops sc hr]; exact h
    obtain ⟨_, _, _, hL, _⟩ := mergeParts_merged_iff.mp h'
    have hperm := merged_perm h'
    exact ⟨sc, _, rfl, rfl, distinctParts_of_nodup, h', hL, fun e' => by rw [hperm.mem_iff, mem_merged]⟩

/-- a Score that is left with one part is that part, however many parts it was built from -/
theorem score_single (m : Mode) (s : Shape) (ops : List ScoreOp) (sc : AScore)
    (h : runOps (mkScore s) ops = some sc) (p : APart) (hp : distinctParts sc.parts = [p]) :
    mergeArg m (.score s ops) = some (.same p) := by
  rw [score_sees_parts m s ops sc h, hp]; simp [mergeParts]

/-- what the examples compare of a result: the divisions and (identity, voice, staff) of every element in order
(0 and the elements of the part when an input part is returned) -/
def outcome (r : Option Result) : Option (Nat × List (Nat × Option Nat × Option Nat)) :=
  r.map fun
    | .merged L es => (L, es.map fun e => (e.oid, e.voice, e.staff))
    | .same p => (0, p.elems.map fun e => (e.oid, e.voice, e.staff))

/-- Non-vacuity, and the reason `part_structure` must not be used: `score = Score([A, B]); score[1] = D` is merged
as [A, D] (2 notes of D's voice above A's two voices) - which differs from the merge of [A, B], the parts
`part_structure` still holds. -/
theorem stale_structure_witness :
    outcome (mergeArg .voice (.score (.many [.part exA, .part exB]) [.setItem 1 exD]))
        = outcome (mergeParts .voice [exA, exD])
      ∧ (runOps (mkScore (.many [.part exA, .part exB])) [.setItem 1 exD]).map (·.partStructure.length) = some 2
      ∧ outcome (mergeParts .voice [exA, exD]) ≠ outcome (merge .voice (.many [.part exA, .part exB])) := by
  refine ⟨by decide, by decide, by decide⟩

/-- the other steps: an assignment (as the unfold functions do), append, pop down to one part, reverse -/
example : outcome (mergeArg .staff (.score (.one (.group [.part exA, .part exB])) [.reverse, .assign [exD, exA]]))
    = outcome (mergeParts .staff [exD, exA]) := by decide
example : outcome (mergeArg .auto (.score (.many [.part exA]) [.append exD]))
    = outcome (mergeParts .auto [exA, exD]) := by decide
example : (runOps (mkScore (.many [.part exA, .part exB])) [.pop 0]).map (·.parts.map (·.pid)) = some [1] := by decide
example : (runOps (mkScore (.many [.part exA, .part exB])) [.reverse]).map (·.parts.map (·.pid)) = some [1, 0] := by
  decide
/-- an item assignment outside the list raises -/
example : (runOps (mkScore (.many [.part exA])) [.setItem 1 exD]).isNone = true := by decide

-- ================================================================ the offsets are exact

theorem sumBefore_step (f : APart → Nat) {ps : List APart} {i : Nat} {p : APart} (hp : ps[i]? = some p) :
    sumBefore f ps (i + 1) = sumBefore f ps i + f p := by
  induction ps generalizing i with
  | nil => simp at hp
  | cons q qs ih =>
    cases i with
    | zero =>
      simp at hp; subst hp
      rw [sumBefore_succ, sumBefore_zero, sumBefore_zero]; omega
    | succ i =>
      simp only [List.getElem?_cons_succ] at hp
      rw [sumBefore_succ, sumBefore_succ, ih hp]; omega

theorem foldr_max_mem : ∀ (l : List Nat), l ≠ [] → l.foldr max 0 ∈ l
  | [], h => absurd rfl h
  | [x], _ => by simp
  | x :: y :: ys, _ => by
    have ih := foldr_max_mem (y :: ys) (by simp)
    simp only [List.foldr_cons] at ih ⊢
    rcases Nat.le_total x (max y (List.foldr max 0 ys)) with h | h
    · rw [Nat.max_eq_right h]; exact List.mem_cons_of_mem _ ih
    · rw [Nat.max_eq_left h]; exact List.mem_cons_self

theorem maxOr1_mem {l : List Nat} (h : l ≠ []) : maxOr1 l ∈ l := by
  cases l with
  | nil => exact absurd rfl h
  | cons x xs => exact foldr_max_mem (x :: xs) (by simp)

/-- a part that has an element carrying a staff has one on its highest staff (a missing staff counting as 1) -/
theorem maxStaff_attained (p : APart) (h : ∃ e ∈ allElems p, withStaff e.cls = true) :
    ∃ a ∈ allElems p, withStaff a.cls = true ∧ a.staff.getD 1 = maxStaff p := by
  obtain ⟨e, he, hs⟩ := h
  have hne : uStaves p ≠ [] := List.ne_nil_of_mem (staff_mem_uStaves he hs)
  have hm := maxOr1_mem hne
  rw [uStaves, mem_uniq, stavesOf, List.mem_map] at hm
  obtain ⟨a, ha, hv⟩ := hm
  obtain ⟨ha1, ha2⟩ := List.mem_filter.mp ha
  exact ⟨a, ha1, by simpa using ha2, hv⟩

/-- a part that has a note or rest with a voice has one in its highest voice -/
theorem maxVoice_attained (p : APart) (h : ∃ e ∈ allElems p, isGeneric e.cls = true ∧ e.voice.isSome) :
    ∃ a ∈ allElems p, isGeneric a.cls = true ∧ a.voice = some (maxVoice p) := by
  obtain ⟨e, he, hg, hv⟩ := h
  obtain ⟨v, hv⟩ := Option.isSome_iff_exists.mp hv
  have hne : uVoices p ≠ [] := List.ne_nil_of_mem (voice_mem_uVoices he hg hv)
  have hm := maxOr1_mem hne
  rw [uVoices, mem_uniq, voicesOf, List.mem_filterMap] at hm
  obtain ⟨a, ha, hav⟩ := hm
  by_cases hga : isGeneric a.cls = true
  · simp only [hga, if_true] at hav
    exact ⟨a, ha, hga, hav⟩
  · simp [hga] at hav

/-- staff mode: the staves of a later input lie strictly above those of every earlier input (which is more than
`staves_disjoint`: the inputs keep their order from top to bottom) -/
theorem staves_ordered (L : Nat) (ps : List APart) (hnum : NumberedFrom1 ps) (i j : Nat) (p q : APart)
    (hp : ps[i]? = some p) (hq : ps[j]? = some q) (hij : i < j) (a b : Elem) (ha : a ∈ allElems p)
    (hb : b ∈ allElems q) (hsa : withStaff a.cls = true) (hsb : withStaff b.cls = true) :
    ∃ sa sb, (image .staff L ps i p a).staff = some sa ∧ (image .staff L ps j q b).staff = some sb ∧ sa < sb := by
  have h1b : 1 ≤ b.staff.getD 1 := by
    cases hs : b.staff with
    | none => simp
    | some s => simpa using (hnum q (List.mem_of_getElem? hq) b hb).2 s hs
  refine ⟨_, _, ?_, ?_, staff_lt hij hp ha hsa h1b⟩
  · simp only [image, staff_mode_staff _ _ hsa, ctxAt_sOff]
  · simp only [image, staff_mode_staff _ _ hsb, ctxAt_sOff]

/-- staff mode: the offset of a part is the least possible.  The element `a` on the highest staff of part `i` - be
it a note, a clef, a direction, or an object that is on the timeline by its end only - and an element `b` on staff
1 (or without staff) of part `i + 1` end up on neighbouring staves. -/
theorem staff_offset_tight (L : Nat) (ps : List APart) (i : Nat) (p q : APart) (hp : ps[i]? = some p)
    (a b : Elem) (hsa : withStaff a.cls = true) (hsb : withStaff b.cls = true)
    (hmax : a.staff.getD 1 = maxStaff p) (hone : b.staff.getD 1 = 1) :
    (image .staff L ps (i + 1) q b).staff = (image .staff L ps i p a).staff.map (· + 1) := by
  simp only [image, staff_mode_staff _ _ hsa, staff_mode_staff _ _ hsb, ctxAt_sOff, Option.map_some,
    Option.some.injEq, sumBefore_step maxStaff hp, hmax, hone]
  omega

/-- Therefore a count of the staves of part `i` that misses its highest staff - `k < maxStaff p`: a number
remembered from before `a.staff` was assigned, or a scan that does not reach `a` - puts `b` of the next part on a
staff that part `i` uses: the offset `sumBefore maxStaff ps i + k` (what the loop would add with that count) gives
`b` a staff that is at most the staff of `a`. -/
theorem stale_count_collides (L : Nat) (ps : List APart) (i : Nat) (p : APart) (a b : Elem)
    (hsa : withStaff a.cls = true) (hmax : a.staff.getD 1 = maxStaff p) (hone : b.staff.getD 1 = 1)
    (k : Nat) (hk : k < maxStaff p) :
    ∃ sa, (image .staff L ps i p a).staff = some sa ∧ b.staff.getD 1 + (sumBefore maxStaff ps i + k) ≤ sa := by
  exact ⟨a.staff.getD 1 + sumBefore maxStaff ps i, by simp only [image, staff_mode_staff _ _ hsa, ctxAt_sOff],
    by omega⟩

/-- voice mode: the voices of a later input lie strictly above those of every earlier input -/
theorem voices_ordered (L : Nat) (ps : List APart) (hnum : NumberedFrom1 ps) (i j : Nat) (p q : APart)
    (hp : ps[i]? = some p) (hq : ps[j]? = some q) (hij : i < j) (a b : Elem) (ha : a ∈ allElems p)
    (hb : b ∈ allElems q) (hga : isGeneric a.cls = true) (hgb : isGeneric b.cls = true) (va vb : Nat)
    (hva : a.voice = some va) (hvb : b.voice = some vb) :
    ∃ wa wb, (image .voice L ps i p a).voice = some wa ∧ (image .voice L ps j q b).voice = some wb ∧ wa < wb := by
  have h1b := (hnum q (List.mem_of_getElem? hq) b hb).1 vb hvb
  refine ⟨_, _, ?_, ?_, voice_lt hij hp ha hga hva h1b⟩
  · simp only [image, voice_mode_voice _ _ hga, hva, Option.map_some, ctxAt_vOff]
  · simp only [image, voice_mode_voice _ _ hgb, hvb, Option.map_some, ctxAt_vOff]

/-- voice mode: the offset of a part is the least possible - the highest voice of part `i` and voice 1 of part
`i + 1` become neighbours -/
theorem voice_offset_tight (L : Nat) (ps : List APart) (i : Nat) (p q : APart) (hp : ps[i]? = some p)
    (a b : Elem) (hga : isGeneric a.cls = true) (hgb : isGeneric b.cls = true)
    (hmax : a.voice = some (maxVoice p)) (hone : b.voice = some 1) :
    (image .voice L ps (i + 1) q b).voice = (image .voice L ps i p a).voice.map (· + 1) := by
  simp only [image, voice_mode_voice _ _ hga, voice_mode_voice _ _ hgb, ctxAt_vOff, hmax, hone, Option.map_some,
    Option.some.injEq, sumBefore_step maxVoice hp]
  omega

-- ---------------------------------------------------------------- non-vacuity

/-- part F, divisions 2: one note on staff 1 and a wedge that began before the excerpt - it is on the timeline by
its end only - on staff 3 -/
def exF : APart := { pid := 5, divs := 2, elems := [
  { oid := 50, cls := classId "Note", start := 0, stop := some 2, voice := some 1, staff := some 1, pitch := some 60, tiePrev := false, chain := [] }], tails := [
  { oid := 51, cls := classId "DecreasingLoudnessDirection", start := 0, stop := some 2, voice := none, staff := some 3, pitch := none, tiePrev := false, chain := [] }] }

/-- the highest staff of F is that of its end-only wedge; merged before D, D's note (staff 1) goes to staff 4, next
to the wedge on staff 3 - hypotheses of `maxStaff_attained`, `staff_offset_tight`, `staves_ordered` at a non-trivial
value -/
example : maxStaff exF = 3 ∧ (∃ e ∈ allElems exF, withStaff e.cls = true)
    ∧ NumberedFrom1 [exF, exD]
    ∧ (mergedTails .staff [exF, exD]).map (fun t => (t.oid, t.staff)) = [(51, some 3)]
    ∧ outcome (mergeParts .staff [exF, exD]) = some (2, [(50, some 1, some 1), (30, some 1, some 4)]) := by
  unfold NumberedFrom1
  decide

/-- hypotheses of `maxVoice_attained` / `voice_offset_tight`: A's highest voice is 2 (a rest), D's note of voice 1
becomes voice 3 -/
example : maxVoice exA = 2 ∧ (∃ e ∈ allElems exA, isGeneric e.cls = true ∧ e.voice.isSome)
    ∧ (exD.elems.map fun b => (image .voice 6 [exA, exD] 1 exD b).voice) = [some 3] := by decide

end C15
