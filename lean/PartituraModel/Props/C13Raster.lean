/-
C13, round 5 — the rasteriser as the code computes it: in binary64.

`makeWith fl` (Model/PianoRollFloat.lean) is `_make_pianoroll` with a rounding function `fl` applied to the result of
every floating-point operation; `makePianorollF = makeWith f64` is the code, `makeWith id` is the exact-rational
model of Props/C13.lean (`makeWith_id`).

* `raster_*`: the clauses of the property that do not depend on how a product was rounded — at least one frame,
  separation, onset mode, cell = maximum velocity of the covering notes, non-zero iff covered, nothing outside the
  matrix, order independence, index rows in input order designating exactly the non-zero cells — hold for EVERY `fl`,
  hence for the binary64 code on all inputs, with the frames the code computed (`onFrameG f64`, `offCellG f64`).
* `frames_stable`, `frame_margin`, `float_agrees`, `float_exact`: those frames are the frames of the exact reading
  whenever the rounding error of the products does not reach a half-frame point — in particular whenever the
  products are binary64 numbers themselves (`f64_dyadic`), which is what the harness checks per case before it lets
  its exact oracle judge.  `float_differs` is a concrete tie the rounding moves.
* `lits_spec`: the literals of the frame arithmetic, regenerated from the live code by probing.
-/
import PartituraModel.Props.C13Args
import PartituraModel.Proofs.C13Raster

namespace C13
open Model Model.PianoRoll
open List

/-! ### the generated literals -/

/-- every literal could be read off the live functions -/
theorem lits_extracted : Gen.C13L_OK = true := by decide

/-- a note has at least one frame; note separation takes one frame, no separation none; at least one frame is
    shown; frames are rounded half to even; `int(time_div)` and `int(cell)` truncate; the decoder's time columns are
    binary32, its pitch / velocity columns 32 bits wide; a non-zero cell with integer part 0 is a note -/
theorem lits_spec :
    Gen.C13L_MIN_FRAMES = 1 ∧ Gen.C13L_SEP_ON = 1 ∧ Gen.C13L_SEP_OFF = 0 ∧ Gen.C13L_MIN_SHOWN = 1 ∧
    Gen.C13L_HALF_EVEN = true ∧ Gen.C13L_TRUNC_DIV = true ∧ Gen.C13L_DEC_PREC = 24 ∧ Gen.C13L_DEC_EMIN = -149 ∧
    Gen.C13L_DEC_INT_BITS = 32 ∧ Gen.C13L_DEC_TRUNC = true ∧ Gen.C13L_DEC_ZERO_ACTIVE = true := by decide

/-! ### the two instances -/

/-- without rounding, `makeWith` is the exact model: every theorem of Props/C13.lean is about `makeWith id` -/
theorem makeWith_id (o : Opts) (notes : List Note) : makeWith id o notes = makePianoroll o notes :=
  makeWith_id_aux o notes

/-- the code: binary64 after every operation -/
theorem makePianorollF_def (o : Opts) (notes : List Note) : makePianorollF o notes = makeWith f64 o notes := rfl

/-! ### what holds whatever the rounding -/

/-- every note occupies at least one frame, in every mode; note separation removes exactly the last frame of a
    note that has more than one; onset mode keeps exactly the onset frame -/
theorem raster_min_one_frame (fl : Rat → Rat) (o : Opts) (t0 : Rat) (n : Note) :
    onFrameG fl o t0 n < offCellG fl o t0 n ∧ offCellG fl o t0 n ≤ offFullG fl o t0 n ∧
    (o.onsetOnly = true → offCellG fl o t0 n = onFrameG fl o t0 n + 1) ∧
    (o.onsetOnly = false → o.noteSep = false → offCellG fl o t0 n = offFullG fl o t0 n) ∧
    (o.onsetOnly = false → o.noteSep = true →
      offCellG fl o t0 n = max (onFrameG fl o t0 n + 1) (offFullG fl o t0 n - 1)) := by
  refine ⟨onFrameG_lt_offCellG fl o t0 n, offCellG_le_offFullG fl o t0 n, ?_, ?_, ?_⟩
  · intro h; simp [offCellG, h]
  · intro h1 h2
    have := onFrameG_lt_offFullG fl o t0 n
    simp only [offCellG, offIdxG, h1, h2, Bool.false_eq_true, if_false, lit_min_shown, lit_sep_off]
    split <;> omega
  · intro h1 h2
    simp only [offCellG, offIdxG, h1, h2, Bool.false_eq_true, if_false, if_true, lit_min_shown, lit_sep_on]
    split <;> omega

/-! ### cells -/

/-- **cell value**: a cell no note covers is 0; a covered cell holds the velocity of a covering note that is
    the maximum over all covering notes (1 instead in binary mode) — whatever the order of the rows -/
theorem raster_cell_value (fl : Rat → Rat) (o : Opts) (notes : List Note) (r : Roll) (h : makeWith fl o notes = some r)
    (p j : Int) (hp0 : 0 ≤ p) (hp1 : p < r.rows) :
    ((¬ ∃ n ∈ notes, CoversG fl o notes n (p + r.rowStart) j) → r.cell p j = 0) ∧
    ((∃ n ∈ notes, CoversG fl o notes n (p + r.rowStart) j) →
      ∃ n ∈ notes, CoversG fl o notes n (p + r.rowStart) j ∧
        (∀ n' ∈ notes, CoversG fl o notes n' (p + r.rowStart) j → n'.vel ≤ n.vel) ∧
        r.cell p j = if o.binary = true ∧ n.vel ≠ 0 then 1 else n.vel) :=
  cell_valueG_aux fl o notes r h p j hp0 hp1

/-- **cell (p, j) is non-zero exactly when a note of that row sounds during frame j** (at its onset frame only
    in onset mode, without its last frame under note separation, never less than one frame: `raster_min_one_frame`),
    for MIDI velocities (> 0; a note array without velocity column has velocity 1 everywhere) -/
theorem raster_cell_iff (fl : Rat → Rat) (o : Opts) (notes : List Note) (r : Roll) (h : makeWith fl o notes = some r)
    (hv : ∀ n ∈ notes, 0 < n.vel) (p j : Int) (hp0 : 0 ≤ p) (hp1 : p < r.rows) :
    r.cell p j ≠ 0 ↔ ∃ n ∈ notes, CoversG fl o notes n (p + r.rowStart) j := by
  obtain ⟨h1, h2⟩ := raster_cell_value fl o notes r h p j hp0 hp1
  constructor
  · intro hne
    by_contra hc
    exact hne (h1 hc)
  · intro hc
    obtain ⟨n, hn, _, _, he⟩ := h2 hc
    have := hv n hn
    rw [he]
    split <;> omega

/-- in binary mode, and without velocities, the covered cells hold 1 -/
theorem raster_cell_binary (fl : Rat → Rat) (o : Opts) (notes : List Note) (r : Roll) (h : makeWith fl o notes = some r)
    (hv : ∀ n ∈ notes, 0 < n.vel) (hb : o.binary = true ∨ ∀ n ∈ notes, n.vel = 1)
    (p j : Int) (hp0 : 0 ≤ p) (hp1 : p < r.rows)
    (hc : ∃ n ∈ notes, CoversG fl o notes n (p + r.rowStart) j) : r.cell p j = 1 := by
  obtain ⟨n, hn, _, _, he⟩ := (raster_cell_value fl o notes r h p j hp0 hp1).2 hc
  have := hv n hn
  rw [he]
  rcases hb with hb | hb
  · rw [if_pos ⟨hb, by omega⟩]
  · split
    · rfl
    · exact hb n hn

/-- nothing is drawn outside the matrix: every sounding frame of every note is a cell of the (un-sliced) roll -/
theorem raster_cells_in_range (fl : Rat → Rat) (o : Opts) (notes : List Note) (r : Roll) (h : makeWith fl o notes = some r)
    (n : Note) (hn : n ∈ notes) (q j : Int) (hc : CoversG fl o notes n q j) :
    0 ≤ q ∧ q < rowsFull o notes ∧ 0 ≤ j ∧ j < r.cols :=
  cells_in_rangeG_aux fl o notes r h n hn q j hc

/-! ### order independence -/

/-- **whatever the order of the input rows**: a permutation of the rows is accepted or rejected alike and
    gives the same shape and the same matrix; the index rows are permuted along -/
theorem raster_order_indep (fl : Rat → Rat) (o : Opts) {notes notes' : List Note} (hp : notes ~ notes') :
    (makeWith fl o notes = none ↔ makeWith fl o notes' = none) ∧
    ∀ r r', makeWith fl o notes = some r → makeWith fl o notes' = some r' →
      r.rows = r'.rows ∧ r.cols = r'.cols ∧ (∀ p j, r.cell p j = r'.cell p j) ∧ r.idx ~ r'.idx := by
  have key : ∀ {a b : List Note}, a ~ b → ∀ r, makeWith fl o a = some r →
      ∃ r', makeWith fl o b = some r' ∧ r.rows = r'.rows ∧ r.cols = r'.cols ∧
        (∀ p j, r.cell p j = r'.cell p j) ∧ r.idx ~ r'.idx := by
    intro a b hab r hr
    obtain ⟨hne, hd, N, hN, hb, rfl⟩ := (makeWith_eq_some fl o a r).mp hr
    refine ⟨rollOfG fl o b N, ?_, ?_, rfl, ?_, ?_⟩
    · rw [makeWith_eq_some]
      refine ⟨fun hnil => hne (by subst hnil; exact hab.eq_nil), fun n hn => hd n (hab.mem_iff.mpr hn), N,
        by rw [← colsOfG_perm fl o hab]; exact hN, ?_, rfl⟩
      intro e he
      rw [← rowsFull_perm o hab]
      exact hb e ((fillOfG_perm fl o hab).mem_iff.mpr he)
    · simp only [rollOfG, rowsFull_perm o hab]
    · apply cell_congr
      · simp only [rollOfG, rowsFull_perm o hab]
      · rfl
      · rfl
      · rfl
      · intro p j
        exact keyMax_perm (fillOfG_perm fl o hab) p j
    · simp only [rollOfG, idxOfG_eq]
      rw [lowestOf_perm o hab, t0Of_perm o hab]
      exact hab.map _
  constructor
  · constructor
    · intro hn
      cases hr : makeWith fl o notes' with
      | none => rfl
      | some r' =>
        obtain ⟨r, hr2, _⟩ := key hp.symm r' hr
        rw [hn] at hr2; cases hr2
    · intro hn
      cases hr : makeWith fl o notes with
      | none => rfl
      | some r =>
        obtain ⟨r', hr2, _⟩ := key hp r hr
        rw [hn] at hr2; cases hr2
  · intro r r' hr hr'
    obtain ⟨r'', hr2, h1, h2, h3, h4⟩ := key hp r hr
    rw [hr'] at hr2
    cases hr2
    exact ⟨h1, h2, h3, h4⟩

/-! ### index rows -/

/-- **the index rows are in input order**: row `i` is `(row, onset frame, offset frame, midi pitch)` of the
    `i`-th input note -/
theorem raster_idx_rows (fl : Rat → Rat) (o : Opts) (notes : List Note) (r : Roll) (h : makeWith fl o notes = some r) :
    r.idx = notes.map fun n =>
      (rowOf o (lowestOf o notes) n - r.rowStart, onFrameG fl o (t0Of o notes) n, offIdxG fl o (t0Of o notes) n, n.pitch) := by
  obtain ⟨_, _, N, _, _, rfl⟩ := (makeWith_eq_some fl o notes r).mp h
  simp only [rollOfG, idxOfG_eq, idxStartOf_eq]
  rfl

/-- **the index rows designate exactly the non-zero cells**: cell `(p, j)` is non-zero iff some index row has
    vertical position `p` and `onset ≤ j < offset` (in onset mode: `j = onset`) -/
theorem raster_idx_designate (fl : Rat → Rat) (o : Opts) (notes : List Note) (r : Roll) (h : makeWith fl o notes = some r)
    (hv : ∀ n ∈ notes, 0 < n.vel) (p j : Int) (hp0 : 0 ≤ p) (hp1 : p < r.rows) :
    r.cell p j ≠ 0 ↔
      ∃ row ∈ r.idx, row.1 = p ∧ row.2.1 ≤ j ∧ j < (if o.onsetOnly then row.2.1 + 1 else row.2.2.1) := by
  rw [raster_cell_iff fl o notes r h hv p j hp0 hp1, raster_idx_rows fl o notes r h]
  simp only [mem_map, CoversG]
  constructor
  · rintro ⟨n, hn, h1, h2, h3⟩
    refine ⟨_, ⟨n, hn, rfl⟩, by simp only; omega, h2, ?_⟩
    unfold offCellG at h3
    simpa using h3
  · rintro ⟨row, ⟨n, hn, rfl⟩, h1, h2, h3⟩
    refine ⟨n, hn, by simp only at h1; omega, h2, ?_⟩
    unfold offCellG
    simpa using h3

/-! ### the frames of the code and the frames of the exact reading -/

/-- **a frame is stable**: when `y` (the binary64 result) is nearer to `x` (the exact product) than every
    half-frame point `k + 1/2` is, both round to the same frame -/
theorem frames_stable (x y : ℚ) (h : ∀ k : ℤ, |y - x| < |x - ((k : ℚ) + 1 / 2)|) :
    roundHalfEven y = roundHalfEven x := roundHalfEven_stable x y h

/-- one binary64 operation: exact on binary64 numbers (`m * 2^k`, `|m| < 2^53`, `k ≥ -1074`), relative error at
    most `2^-53` in the normal range, and the product of `time_div` with a rounded difference is within
    `2^-51` (relative) of the exact product -/
theorem f64_spec (q c s : ℚ) :
    (∀ m k : Int, m.natAbs < 2 ^ 53 → -1074 ≤ k → f64 ((m : ℚ) * (2 : ℚ) ^ k) = (m : ℚ) * (2 : ℚ) ^ k) ∧
    ((q = 0 ∨ (2 : ℚ) ^ (-1022 : Int) ≤ |q|) → |f64 q - q| ≤ |q| * (2 : ℚ) ^ (-53 : Int)) ∧
    ((s = 0 ∨ (2 : ℚ) ^ (-1022 : Int) ≤ |s|) → (c * f64 s = 0 ∨ (2 : ℚ) ^ (-1022 : Int) ≤ |c * f64 s|) →
      |f64 (c * f64 s) - c * s| ≤ |c * s| * (2 : ℚ) ^ (-51 : Int)) :=
  ⟨f64_dyadic, f64_err q, f64_mul_err c s⟩

/-- **the onset frame of the code is the onset frame of the exact reading** whenever the exact product
    `time_div * (onset - min_time)` keeps a distance of more than `2^-51` of its size from every half-frame point
    (no underflow), and the margin product agrees; likewise the length for `time_div * duration` (`2^-53`) -/
theorem frame_margin (o : Opts) (t0 : Rat) (n : Note)
    (hm : marginFramesG f64 o = marginFrames o) :
    (let s := n.onset - t0
     (s = 0 ∨ (2 : ℚ) ^ (-1022 : Int) ≤ |s|) →
     ((o.timeDiv : ℚ) * f64 s = 0 ∨ (2 : ℚ) ^ (-1022 : Int) ≤ |(o.timeDiv : ℚ) * f64 s|) →
     (∀ k : ℤ, |(o.timeDiv : ℚ) * s| * (2 : ℚ) ^ (-51 : Int) < |(o.timeDiv : ℚ) * s - ((k : ℚ) + 1 / 2)|) →
     onFrameG f64 o t0 n = onFrame o t0 n) ∧
    (let d := (o.timeDiv : ℚ) * n.dur
     (d = 0 ∨ (2 : ℚ) ^ (-1022 : Int) ≤ |d|) →
     (∀ k : ℤ, |d| * (2 : ℚ) ^ (-53 : Int) < |d - ((k : ℚ) + 1 / 2)|) →
     durFramesG f64 o n = durFrames o n) := by
  constructor
  · intro s hs hp hk
    unfold onFrameG onFrame
    rw [hm]
    congr 1
    apply roundHalfEven_stable
    intro k
    exact lt_of_le_of_lt (f64_mul_err _ _ hs hp) (hk k)
  · intro d hd hk
    have : roundHalfEven (f64 d) = roundHalfEven d := by
      apply roundHalfEven_stable
      intro k
      exact lt_of_le_of_lt (f64_err _ hd) (hk k)
    unfold durFramesG durFrames
    simp only [lit_min_frames]
    rw [this]

/-- **the code computes the roll of the exact reading** whenever it computes the exact reading's frames: the same
    onset frame and length for every note and the same number of columns for the last offset frame -/
theorem float_agrees (o : Opts) (notes : List Note)
    (hf : ∀ n ∈ notes, onFrameG f64 o (t0Of o notes) n = onFrame o (t0Of o notes) n ∧ durFramesG f64 o n = durFrames o n)
    (hc : colsFrom f64 o (t0Of o notes) (maxOffOf o notes) = colsOf o notes) :
    makePianorollF o notes = makePianoroll o notes := by
  rw [← makeWith_id]
  exact makeWith_congr f64 id o notes hf hc

/-- every product / difference / sum the rasteriser forms is a binary64 number (what `floats_exact` of the harness
    checks on each case before the exact oracle judges it) -/
def FloatExact (o : Opts) (notes : List Note) : Prop :=
  let td : ℚ := (o.timeDiv : ℚ)
  let t0 := t0Of o notes
  (∀ n ∈ notes, f64 (n.onset - t0) = n.onset - t0 ∧ f64 (td * (n.onset - t0)) = td * (n.onset - t0) ∧
    f64 (td * n.dur) = td * n.dur) ∧
  f64 (o.timeMargin * td) = o.timeMargin * td ∧
  match o.endTime with
  | none => f64 (td * o.timeMargin + (maxOffOf o notes : ℚ)) = td * o.timeMargin + (maxOffOf o notes : ℚ)
  | some e => f64 e = e ∧ f64 (e - t0) = e - t0 ∧ f64 ((e - t0) * td) = (e - t0) * td ∧
      f64 (td * (e - t0)) = td * (e - t0) ∧
      f64 (td * o.timeMargin + td * (e - t0)) = td * o.timeMargin + td * (e - t0)

/-- **on exact products the code is the exact model**: then every theorem of Props/C13.lean, C13Args, C13Session
    speaks about the code's own result -/
theorem float_exact (o : Opts) (notes : List Note) (h : FloatExact o notes) :
    makePianorollF o notes = makePianoroll o notes := by
  obtain ⟨hn, hm, he⟩ := h
  have hcomm : (o.timeDiv : ℚ) * o.timeMargin = o.timeMargin * (o.timeDiv : ℚ) := mul_comm _ _
  apply float_agrees
  · intro n hn'
    obtain ⟨h1, h2, h3⟩ := hn n hn'
    constructor
    · unfold onFrameG onFrame marginFramesG marginFrames
      rw [h1, h2, hm]
    · unfold durFramesG durFrames
      simp only [lit_min_frames]
      rw [h3]
  · unfold colsFrom colsOf trailMarginG trailMargin
    cases het : o.endTime with
    | none =>
      rw [het] at he
      simp only at he ⊢
      rw [hcomm, hm, ← hcomm, he]
    | some e =>
      rw [het] at he
      obtain ⟨e1, e2, e3, e4, e5⟩ := he
      simp only
      rw [e1, e2, e3, e4, hcomm, hm, ← hcomm, e5]

/-- lifted to the public entry points: where the rasteriser agrees on the prepared notes, so do
    `compute_pianoroll` and `compute_pitch_class_pianoroll` -/
theorem kw_float_agrees (kind : String) (a : NoteArray) (kw : KwArgs)
    (h : ∀ arr g ri o notes, ensureNotearray kind a = some arr → resolveArgs kw = some (g, ri) →
      prepare arr g = some (o, notes) → makePianorollF o notes = makePianoroll o notes) :
    computePianorollKwF kind a kw = computePianorollKw kind a kw := by
  unfold computePianorollKwF computePianorollKw computePianoroll
  cases h1 : ensureNotearray kind a with
  | none => rfl
  | some arr =>
    cases h2 : resolveArgs kw with
    | none => rfl
    | some gr =>
      obtain ⟨g, ri⟩ := gr
      simp only
      cases h3 : prepare arr g with
      | none => rfl
      | some on =>
        obtain ⟨o, notes⟩ := on
        simp only
        rw [h arr g ri o notes h1 h2 h3]
        cases makePianoroll o notes <;> rfl

theorem pc_float_agrees (kind : String) (a : NoteArray) (kw : PcKw)
    (h : computePianorollKwF kind a (pcInnerKw kw) = computePianorollKw kind a (pcInnerKw kw)) :
    computePcKwF kind a kw = computePcKw kind a kw := by
  unfold computePcKwF computePcKw
  rw [h]
  rfl

/-! ### examples -/

def exF : Opts := { exOpts with timeDiv := 10 }
/-- 0.05 as a binary64 number: slightly more than 1/20 -/
def exOnset : ℚ := 3602879701896397 / 72057594037927936

/-- **a tie the rounding moves**: `10 * 0.05` is `0.5` in binary64 (frame 0, half to even) but slightly more than
    `1/2` exactly (frame 1): the hypothesis of `float_agrees` cannot be dropped, and the driver's binary64 model — not
    the exact one — is what the code does here -/
theorem float_differs :
    f64 exOnset = exOnset ∧
    onFrameG f64 exF 0 ⟨60, exOnset, 1, 1⟩ = 0 ∧ onFrame exF 0 ⟨60, exOnset, 1, 1⟩ = 1 ∧
    (makePianorollF exF [⟨60, 0, 1, 1⟩, ⟨62, exOnset, 1, 1⟩]).map (fun r => (r.cols, r.cell 62 0)) = some (10, 1) ∧
    (makePianoroll exF [⟨60, 0, 1, 1⟩, ⟨62, exOnset, 1, 1⟩]).map (fun r => (r.cols, r.cell 62 0)) = some (11, 0) := by
  decide +kernel

/-- dyadic inputs on a power-of-two grid are exact: the hypotheses of `float_exact` are satisfiable -/
theorem exNotes_exact : FloatExact exOpts exNotes := by
  unfold FloatExact
  intro td t0
  refine ⟨?_, by decide +kernel, ?_⟩
  · have : ∀ n ∈ exNotes, (f64 (n.onset - t0Of exOpts exNotes) = n.onset - t0Of exOpts exNotes ∧
        f64 ((exOpts.timeDiv : ℚ) * (n.onset - t0Of exOpts exNotes)) = (exOpts.timeDiv : ℚ) * (n.onset - t0Of exOpts exNotes) ∧
        f64 ((exOpts.timeDiv : ℚ) * n.dur) = (exOpts.timeDiv : ℚ) * n.dur) := by decide +kernel
    exact this
  · show f64 ((exOpts.timeDiv : ℚ) * exOpts.timeMargin + (maxOffOf exOpts exNotes : ℚ)) = _
    decide +kernel

example : makePianorollF exOpts exNotes = makePianoroll exOpts exNotes := float_exact _ _ exNotes_exact

end C13
