/-
C14 (round 2) — the dictionary protocol of `PerformedNote` and histories of a `PerformedPart`.

`RawNote` = the dictionary handed to `PerformedNote` (absent keys are `none`), `initNote` = `PerformedNote(d)`,
`setItem` = `note[key] = value`, `buildRaw` = `PerformedPart(dicts, controls, thr)`, `step` / `runOps` = one /
a history of statements (threshold assignment, `pp.notes[i][key] = v`, `pp.notes.append(PerformedNote(d))`).
`PNote.toNote` is what `adjust_offsets_w_sustain` and `note_array` read (`midi_pitch` as the pitch), so every
theorem of Props/C14.lean about `soundOffAt` speaks about the states reached here (`state_sound`).
-/
import PartituraModel.Proofs.C14Dict
import PartituraModel.Props.C14

namespace C14
open Model Model.Pedal C14P

/-! ### `PerformedNote(d)` -/

/-- the default velocity (regenerated from the source) is itself a valid velocity -/
theorem velDefault_ok : 0 ≤ Gen.C14.velDefault ∧ Gen.C14.velDefault ≤ 127 := by decide

/-- what the constructor fills in: `pitch` from `pitch`, else from `midi_pitch`; `midi_pitch` from `midi_pitch`, else
    from `pitch` (fixes/C14-4); `note_on` / `note_off` must be given; `sound_off` defaults to `note_off`,
    `velocity` to 60, `track` to 0, `channel` to 1; ticks stay as given -/
theorem init_defaults (r : RawNote) (n : PNote) (h : initNote r = some n) :
    n.id = r.id ∧ r.pitch.or r.midiPitch = some n.pitch ∧ n.midiPitch = r.midiPitch.getD n.pitch
    ∧ r.on = some n.on ∧ r.off = some n.off ∧ n.soundOff = r.soundOff.getD n.off
    ∧ n.vel = r.vel.getD Gen.C14.velDefault ∧ n.track = r.track.getD Gen.C14.trackDefault
    ∧ n.chan = r.chan.getD Gen.C14.chanDefault
    ∧ n.onTick = r.onTick ∧ n.offTick = r.offTick ∧ validInit n = true := by
  unfold initNote at h
  split at h
  · cases h
  · rename_i p hp
    split at h
    · rename_i hv
      have := Option.some.inj h
      subst this
      obtain ⟨_, hon, hoff, _, _, _, _⟩ := (validInit_iff _).mp hv
      simp only [defaulted] at hon hoff
      have hron : ∃ x, r.on = some x := by
        cases hr : r.on with
        | none => rw [hr] at hon; simp only [Option.getD_none, Gen.C14.missingOn] at hon; norm_num at hon
        | some x => exact ⟨x, rfl⟩
      obtain ⟨x, hx⟩ := hron
      have hroff : ∃ y, r.off = some y := by
        cases hr : r.off with
        | none =>
          rw [hr] at hoff
          simp only [Option.getD_none, Gen.C14.missingOff] at hoff
          rcases hoff with h1 | ⟨h2, _⟩
          · exact absurd hon (not_le.mpr h1)
          · norm_num at h2
        | some y => exact ⟨y, rfl⟩
      obtain ⟨y, hy⟩ := hroff
      refine ⟨rfl, hp, rfl, ?_, ?_, ?_, rfl, rfl, rfl, rfl, rfl, hv⟩
      · simp [defaulted, hx]
      · simp [defaulted, hy]
      · simp [defaulted, hy]
    · cases h

/-- the notes the constructor accepts, exactly: a pitch under one of the two keys, onset and release present, and
    every validator of a present key passes — MIDI ranges, 0 ≤ onset ≤ release, a given `sound_off` not before the
    release, a given `note_on_tick` not negative, a given `note_off_tick` not before a given `note_on_tick` -/
theorem init_accepts_iff (r : RawNote) :
    (∃ n, initNote r = some n) ↔
      ∃ p on off, r.pitch.or r.midiPitch = some p ∧ r.on = some on ∧ r.off = some off
        ∧ 0 ≤ p ∧ p ≤ 127 ∧ 0 ≤ on ∧ on ≤ off
        ∧ (∀ v, r.vel = some v → 0 ≤ v ∧ v ≤ 127)
        ∧ (∀ s, r.soundOff = some s → off ≤ s)
        ∧ (∀ t, r.onTick = some t → 0 ≤ t)
        ∧ (∀ t u, r.onTick = some t → r.offTick = some u → t ≤ u) := by
  constructor
  · rintro ⟨n, hn⟩
    obtain ⟨_, hp, _, hon, hoff, hso, hvel, _, _, hot, hoft, hv⟩ := init_defaults r n hn
    obtain ⟨⟨hp1, hp2⟩, h0on, hno, ⟨hv1, hv2⟩, hs, hot', hoft'⟩ := (validInit_iff n).mp hv
    have honoff : 0 ≤ n.off ∧ n.on ≤ n.off := by
      rcases hno with h | h
      · exact absurd h0on (not_le.mpr h)
      · exact h
    refine ⟨n.pitch, n.on, n.off, hp, hon, hoff, hp1, hp2, h0on, honoff.2, ?_, ?_, ?_, ?_⟩
    · intro v hv
      rw [hv] at hvel
      simp only [Option.getD_some] at hvel
      rw [← hvel]
      exact ⟨hv1, hv2⟩
    · intro s hs'
      rw [hs'] at hso
      simp only [Option.getD_some] at hso
      rw [← hso]
      rcases hs with h | h
      · exact absurd honoff.1 (not_le.mpr h)
      · exact h.2
    · intro t ht
      exact hot' t (by rw [hot]; exact ht)
    · intro t u ht hu
      have h0 := hot' t (by rw [hot]; exact ht)
      have h1 := hoft' u (by rw [hoft]; exact hu)
      rw [hot, ht] at h1
      simp only [Option.getD_some] at h1
      rcases h1 with h | h
      · omega
      · exact h.2
  · rintro ⟨p, on, off, hp, hon, hoff, hp1, hp2, h0on, honoff, hvel, hso, hot, hoft⟩
    unfold initNote
    rw [hp]
    simp only
    have h0off : 0 ≤ off := le_trans h0on honoff
    have hv : validInit (defaulted r p) = true := by
      apply (validInit_iff _).mpr
      simp only [defaulted, hon, hoff, Option.getD_some]
      refine ⟨⟨hp1, hp2⟩, h0on, Or.inr ⟨h0off, honoff⟩, ?_, ?_, hot, ?_⟩
      · cases hr : r.vel with
        | none => simpa using velDefault_ok
        | some v => simpa using hvel v hr
      · cases hr : r.soundOff with
        | none => exact Or.inr ⟨h0off, le_refl _⟩
        | some s => exact Or.inr ⟨le_trans h0off (hso s hr), hso s hr⟩
      · intro u hu
        cases ht : r.onTick with
        | none => left; simp
        | some t =>
          have h1 := hot t ht
          have h2 := hoft t u ht hu
          right
          simp only [Option.getD_some]
          exact ⟨by omega, h2⟩
    rw [if_pos hv]
    exact ⟨_, rfl⟩

-- the documented form (key `pitch`, no velocity / track / channel) and the loaders' form; rejections
example : initNote ⟨none, some 60, none, some 10, some 20, none, none, none, none, none, none⟩
    = some ⟨none, 60, 60, 10, 20, 20, Gen.C14.velDefault, Gen.C14.trackDefault, Gen.C14.chanDefault, none, none⟩ := by decide +kernel
example : initNote ⟨some "n0", none, some 60, some 0, some 1, some 3, some 64, some 2, some 9, some 5, none⟩
    = some ⟨some "n0", 60, 60, 0, 1, 3, 64, 2, 9, some 5, none⟩ := by decide +kernel
example : initNote ⟨none, none, none, some 0, some 1, none, none, none, none, none, none⟩ = none := by decide +kernel
example : initNote ⟨none, some 60, none, some 10, some 20, some 15, none, none, none, none, none⟩ = none := by
  decide +kernel
example : initNote ⟨none, some 60, none, some 10, none, none, none, none, none, none, none⟩ = none := by decide +kernel
example : initNote ⟨none, some 60, none, some 0, some 1, none, none, none, none, some 7, some 3⟩ = none := by
  decide +kernel

/-- a note of the property's domain (a pitch 0..127 under either key or the same one under both, 0 ≤ onset ≤
    release, nothing else or a valid velocity / a `sound_off` at or after the release) is accepted, and what
    `adjust_offsets_w_sustain` reads of it is a well-formed note of Props/C14.lean -/
theorem init_valid (r : RawNote) (n : PNote) (h : initNote r = some n)
    (hk : ∀ a b, r.pitch = some a → r.midiPitch = some b → a = b) :
    n.midiPitch = n.pitch ∧ validNote n.toNote = true := by
  obtain ⟨_, hp, hmp, hon, hoff, _, hvel, _, _, _, _, _⟩ := init_defaults r n h
  obtain ⟨p, on, off, hp', hon', hoff', hp1, hp2, h0on, honoff, hv, _, _, _⟩ := (init_accepts_iff r).mp ⟨n, h⟩
  have e1 : p = n.pitch := by rw [hp] at hp'; exact (Option.some.inj hp').symm
  have e2 : on = n.on := by rw [hon] at hon'; exact (Option.some.inj hon').symm
  have e3 : off = n.off := by rw [hoff] at hoff'; exact (Option.some.inj hoff').symm
  subst e1 e2 e3
  have hm : n.midiPitch = n.pitch := by
    cases hb : r.midiPitch with
    | none => rw [hmp, hb]; rfl
    | some b =>
      rw [hmp, hb]
      simp only [Option.getD_some]
      cases ha : r.pitch with
      | none => rw [ha, hb] at hp; simpa using hp
      | some a =>
        rw [ha, hb] at hp
        simp only [Option.or_some] at hp
        have h1 := hk a b ha hb
        have h2 := Option.some.inj hp
        simp only [Option.getD_some] at h2
        rw [← h2, h1]
  refine ⟨hm, (validNote_iff _).mpr ?_⟩
  simp only [PNote.toNote, hm]
  refine ⟨hp1, hp2, h0on, honoff, ?_⟩
  cases hr : r.vel with
  | none => rw [hvel, hr]; simpa using velDefault_ok
  | some v =>
    rw [hvel, hr]
    exact hv v hr

/-! ### `PerformedPart(dicts, controls, thr)` -/

/-- building a performed part from note dictionaries the constructor of `PerformedNote` accepts never fails,
    whatever the controls and the threshold; the `sound_off` column is `adjust_offsets_w_sustain` of the notes —
    it does not depend on any `sound_off` the dictionaries carried — and everything else is as constructed -/
theorem raw_total (rs : List RawNote) (cs : List Control) (thr : Int) (h : ∀ r ∈ rs, ∃ n, initNote r = some n) :
    ∃ ns p, mapM' initNote rs = some ns ∧ buildRaw rs cs thr = some p
      ∧ p.notes.map PNote.toNote = ns.map PNote.toNote
      ∧ soundOffs (ns.map PNote.toNote) cs thr = some (p.notes.map (·.soundOff))
      ∧ p.notes.map (fun n => (n.id, n.pitch, n.offTick)) = ns.map (fun n => (n.id, n.pitch, n.offTick))
      ∧ p.controls = cs ∧ p.thr = thr := by
  obtain ⟨ns, hns⟩ := mapM'_exists initNote rs h
  obtain ⟨q, so, hq, hso, hnotes, hlen, hc, ht⟩ := assignThr_spec { notes := ns, controls := cs, thr := thr } thr
  refine ⟨ns, q, hns, ?_, ?_, ?_, ?_, hc, ht⟩
  · unfold buildRaw
    rw [hns]
    exact hq
  · rw [hnotes]
    exact storeSound_frame PNote.toNote (fun _ _ => rfl) ns so hlen
  · rw [hnotes, storeSound_sound ns so hlen]
    exact hso
  · rw [hnotes]
    exact storeSound_frame _ (fun _ _ => rfl) ns so hlen

/-- one rejected dictionary makes the construction fail -/
theorem raw_rejects (rs : List RawNote) (cs : List Control) (thr : Int) (r : RawNote) (hr : r ∈ rs)
    (h : initNote r = none) : buildRaw rs cs thr = none := by
  unfold buildRaw
  rw [mapM'_none_of_mem initNote rs r hr h]

example : buildRaw [⟨none, some 60, none, some 0, some 2, none, none, none, none, none, none⟩,
                    ⟨none, some 60, none, some 0, some 2, some 1, none, none, none, none, none⟩] [] 64 = none := by
  decide +kernel

/-- with consistent pitch keys the part is the one Props/C14.lean speaks about: `buildPart` of the notes as read -/
theorem raw_build_refines (rs : List RawNote) (cs : List Control) (thr : Int) (p : PPart)
    (hk : ∀ r ∈ rs, ∀ a b, r.pitch = some a → r.midiPitch = some b → a = b)
    (hp : buildRaw rs cs thr = some p) :
    ∃ ns, mapM' initNote rs = some ns ∧ buildPart (ns.map PNote.toNote) cs thr = some p.toPart := by
  unfold buildRaw at hp
  cases hns : mapM' initNote rs with
  | none => simp only [hns] at hp; cases hp
  | some ns =>
    simp only [hns] at hp
    obtain ⟨q, so, hq, hso, hnotes, hlen, hc, ht⟩ := assignThr_spec { notes := ns, controls := cs, thr := thr } thr
    rw [hq] at hp
    have := Option.some.inj hp
    subst this
    refine ⟨ns, rfl, ?_⟩
    have hall : (ns.map PNote.toNote).all validNote = true := by
      apply List.all_eq_true.mpr
      intro x hx
      obtain ⟨n, hn, rfl⟩ := List.mem_map.mp hx
      obtain ⟨r, hr, hrn⟩ := forall₂_mem_right ((mapM'_some_iff _ _ _).mp hns) n hn
      exact (init_valid r n hrn (hk r hr)).2
    unfold buildPart
    rw [if_pos hall]
    unfold setThreshold
    simp only at hso ⊢
    rw [hso]
    simp only [PPart.toPart, hnotes, hc, ht, Option.some.injEq, Part.mk.injEq, and_true, true_and]
    exact ⟨(storeSound_frame PNote.toNote (fun _ _ => rfl) ns so hlen).symm, (storeSound_sound ns so hlen).symm⟩

example : buildRaw [⟨some "a", some 60, none, some 0, some 2, some 9, none, none, none, none, none⟩,
                    ⟨some "b", none, some 60, some 3, some 4, none, some 64, none, some 2, none, none⟩]
    [⟨64, 1/2, 100, none⟩, ⟨64, 5, 0, none⟩] 64
    = some ⟨[⟨some "a", 60, 60, 0, 2, 3, Gen.C14.velDefault, Gen.C14.trackDefault, Gen.C14.chanDefault, none, none⟩,
             ⟨some "b", 60, 60, 3, 4, 5, 64, Gen.C14.trackDefault, 2, none, none⟩],
            [⟨64, 1/2, 100, none⟩, ⟨64, 5, 0, none⟩], 64⟩ := by decide +kernel

/-! ### `note[key] = value` -/

/-- the key test comes before the validator: a key outside the accepted ones is a `KeyError` whatever the value
    (`midi_pitch` is such a key) -/
theorem setitem_key_first (n : PNote) (v : Int) :
    setItem n (.midiPitch v) = .error .key ∧ setItem n .other = .error .key := ⟨rfl, rfl⟩

/-- the accepted assignments, key by key: the validator looks at the *stored* neighbours (`note_off` against the
    stored `note_on`, `sound_off` against the stored `note_off`, `note_off_tick` against the stored `note_on_tick`);
    `note_on`, `track`, `channel`, `id` are not compared with anything -/
theorem setitem_accepts_iff (n : PNote) :
    (∀ v, (∃ m, setItem n (.pitch v) = .ok m) ↔ 0 ≤ v ∧ v ≤ 127)
    ∧ (∀ v, (∃ m, setItem n (.velocity v) = .ok m) ↔ 0 ≤ v ∧ v ≤ 127)
    ∧ (∀ v, (∃ m, setItem n (.noteOn v) = .ok m) ↔ 0 ≤ v)
    ∧ (∀ v, (∃ m, setItem n (.noteOff v) = .ok m) ↔ n.on < 0 ∨ (0 ≤ v ∧ n.on ≤ v))
    ∧ (∀ v, (∃ m, setItem n (.soundOff v) = .ok m) ↔ n.off < 0 ∨ (0 ≤ v ∧ n.off ≤ v))
    ∧ (∀ v, (∃ m, setItem n (.noteOnTick v) = .ok m) ↔ 0 ≤ v)
    ∧ (∀ v, (∃ m, setItem n (.noteOffTick v) = .ok m) ↔ n.onTick.getD (-1) < 0 ∨ (0 ≤ v ∧ n.onTick.getD (-1) ≤ v))
    ∧ (∀ v, ∃ m, setItem n (.track v) = .ok m) ∧ (∀ v, ∃ m, setItem n (.channel v) = .ok m)
    ∧ (∀ v, ∃ m, setItem n (.id v) = .ok m) := by
  refine ⟨?_, ?_, ?_, ?_, ?_, ?_, ?_, fun v => ⟨_, rfl⟩, fun v => ⟨_, rfl⟩, fun v => ⟨_, rfl⟩⟩
  · intro v
    by_cases h : okRange v = true
    · have h' := h
      simp only [okRange, Bool.not_eq_true', Bool.or_eq_false_iff, decide_eq_false_iff_not, not_lt] at h'
      simp [setItem, h, h'.1, h'.2]
    · have h' := h
      simp only [okRange, Bool.not_eq_true', Bool.or_eq_false_iff, decide_eq_false_iff_not, not_lt] at h'
      simp only [setItem, h, if_false]
      constructor
      · rintro ⟨m, hm⟩; cases hm
      · rintro ⟨a, b⟩; exact absurd ⟨b, a⟩ h'
  · intro v
    by_cases h : okRange v = true
    · have h' := h
      simp only [okRange, Bool.not_eq_true', Bool.or_eq_false_iff, decide_eq_false_iff_not, not_lt] at h'
      simp [setItem, h, h'.1, h'.2]
    · have h' := h
      simp only [okRange, Bool.not_eq_true', Bool.or_eq_false_iff, decide_eq_false_iff_not, not_lt] at h'
      simp only [setItem, h, if_false]
      constructor
      · rintro ⟨m, hm⟩; cases hm
      · rintro ⟨a, b⟩; exact absurd ⟨b, a⟩ h'
  · intro v
    by_cases h : 0 ≤ v
    · simp [setItem, h]
    · simp [setItem, h]
  · intro v
    by_cases h : okNoteOff n.on v = true
    · have h' := h
      simp only [okNoteOff, Bool.or_eq_true, decide_eq_true_eq, Bool.not_eq_true', Bool.or_eq_false_iff,
        decide_eq_false_iff_not, not_lt] at h'
      simp only [setItem, h, if_true]
      exact ⟨fun _ => h', fun _ => ⟨_, rfl⟩⟩
    · have h' := h
      simp only [okNoteOff, Bool.or_eq_true, decide_eq_true_eq, Bool.not_eq_true', Bool.or_eq_false_iff,
        decide_eq_false_iff_not, not_lt] at h'
      simp only [setItem, h, if_false]
      constructor
      · rintro ⟨m, hm⟩; cases hm
      · intro a; exact absurd a h'
  · intro v
    by_cases h : okSoundOff n.off v = true
    · have h' := h
      simp only [okSoundOff, Bool.or_eq_true, decide_eq_true_eq, Bool.not_eq_true', Bool.or_eq_false_iff,
        decide_eq_false_iff_not, not_lt] at h'
      simp only [setItem, h, if_true]
      exact ⟨fun _ => h', fun _ => ⟨_, rfl⟩⟩
    · have h' := h
      simp only [okSoundOff, Bool.or_eq_true, decide_eq_true_eq, Bool.not_eq_true', Bool.or_eq_false_iff,
        decide_eq_false_iff_not, not_lt] at h'
      simp only [setItem, h, if_false]
      constructor
      · rintro ⟨m, hm⟩; cases hm
      · intro a; exact absurd a h'
  · intro v
    by_cases h : 0 ≤ v
    · simp [setItem, h]
    · simp [setItem, h]
  · intro v
    by_cases h : okOffTick n.onTick v = true
    · have h' := h
      simp only [okOffTick, Bool.or_eq_true, decide_eq_true_eq, Bool.not_eq_true', Bool.or_eq_false_iff,
        decide_eq_false_iff_not, not_lt] at h'
      simp only [setItem, h, if_true]
      exact ⟨fun _ => h', fun _ => ⟨_, rfl⟩⟩
    · have h' := h
      simp only [okOffTick, Bool.or_eq_true, decide_eq_true_eq, Bool.not_eq_true', Bool.or_eq_false_iff,
        decide_eq_false_iff_not, not_lt] at h'
      simp only [setItem, h, if_false]
      constructor
      · rintro ⟨m, hm⟩; cases hm
      · intro a; exact absurd a h'

/-- an accepted assignment of the pitch reaches the key the readers use (fixes/C14-5); nothing else changes -/
theorem setitem_pitch (n m : PNote) (v : Int) (h : setItem n (.pitch v) = .ok m) :
    m = { n with pitch := v, midiPitch := v } ∧ m.toNote = { n.toNote with pitch := v } := by
  simp only [setItem] at h
  split at h
  · have := Except.ok.inj h
    subst this
    exact ⟨rfl, rfl⟩
  · cases h

/-- what `adjust_offsets_w_sustain` and `note_array` read of a note after an accepted assignment: only the assigned
    field moved; `sound_off`, `id`, `note_off_tick` are not part of it -/
def readsAfter (x : Note) : SetOp → Note
  | .pitch v => { x with pitch := v }
  | .noteOn v => { x with «on» := v }
  | .noteOff v => { x with off := v }
  | .velocity v => { x with vel := v }
  | .track v => { x with track := v }
  | .channel v => { x with chan := v }
  | .noteOnTick v => { x with onTick := some v }
  | _ => x

theorem setitem_reads (n m : PNote) (op : SetOp) (h : setItem n op = .ok m) : m.toNote = readsAfter n.toNote op := by
  cases op <;> simp only [setItem] at h <;>
    first
      | (have := Except.ok.inj h; subst this; rfl)
      | (split at h
         · have := Except.ok.inj h; subst this; rfl
         · cases h)
      | cases h

example : setItem ⟨none, 60, 60, 1, 2, 2, 60, 0, 1, none, none⟩ (.noteOn 5)
    = .ok ⟨none, 60, 60, 5, 2, 2, 60, 0, 1, none, none⟩ := by decide +kernel
example : setItem ⟨none, 60, 60, 1, 2, 2, 60, 0, 1, none, none⟩ (.noteOff (1/2)) = .error .value := by decide +kernel
example : setItem ⟨none, 60, 60, 1, 2, 2, 60, 0, 1, none, none⟩ (.midiPitch 61) = .error .key := by decide +kernel
example : setItem ⟨none, 60, 60, 1, 2, 2, 60, 0, 1, none, none⟩ (.pitch 200) = .error .value := by decide +kernel

/-- what an assignment does NOT re-establish: after `note["note_off"] = v` the stored `sound_off` may lie before
    the release (until the next threshold assignment), and `note["note_on"] = v` may pass the release -/
theorem set_off_can_pass_sound_off :
    ∃ n m : PNote, n.on ≤ n.off ∧ n.off ≤ n.soundOff ∧ setItem n (.noteOff 7) = .ok m ∧ m.soundOff < m.off :=
  ⟨⟨none, 60, 60, 1, 2, 2, 60, 0, 1, none, none⟩, ⟨none, 60, 60, 1, 7, 2, 60, 0, 1, none, none⟩,
    by decide +kernel, by decide +kernel, by decide +kernel, by decide +kernel⟩

/-! ### histories -/

/-- a statement that raises leaves the part exactly as it was -/
theorem step_error_unchanged (p : PPart) (o : Op) (h : (step p o).2 ≠ .ok) : (step p o).1 = p := by
  cases o with
  | thr t =>
    simp only [step] at h ⊢
    split <;> simp_all
  | set i op =>
    simp only [step] at h ⊢
    split
    · rfl
    · split <;> simp_all
  | append r =>
    simp only [step] at h ⊢
    split <;> simp_all

/-- assigning the threshold in ANY state of the part (after any edits and appended notes): it never fails, the
    notes are as they were except for `sound_off`, and the `sound_off` column is `adjust_offsets_w_sustain` of the
    notes that are in the part now — all of them -/
theorem step_thr (p : PPart) (t : Int) :
    ∃ q, step p (.thr t) = (q, .ok) ∧ q.thr = t ∧ q.controls = p.controls
      ∧ q.notes.length = p.notes.length
      ∧ q.notes.map PNote.toNote = p.notes.map PNote.toNote
      ∧ q.notes.map (fun n => (n.id, n.pitch, n.offTick)) = p.notes.map (fun n => (n.id, n.pitch, n.offTick))
      ∧ soundOffs (q.notes.map PNote.toNote) q.controls t = some (q.notes.map (·.soundOff)) := by
  obtain ⟨q, so, hq, hso, hnotes, hlen, hc, ht⟩ := assignThr_spec p t
  have hread : q.notes.map PNote.toNote = p.notes.map PNote.toNote := by
    rw [hnotes]; exact storeSound_frame PNote.toNote (fun _ _ => rfl) p.notes so hlen
  refine ⟨q, ?_, ht, hc, ?_, hread, ?_, ?_⟩
  · simp only [step, hq]
  · rw [hnotes]; exact storeSound_length p.notes so hlen
  · rw [hnotes]; exact storeSound_frame _ (fun _ _ => rfl) p.notes so hlen
  · rw [hread, hc, hnotes, storeSound_sound p.notes so hlen]
    exact hso

/-- … so every theorem of Props/C14.lean about `soundOffAt` (never before the release, equal to the release with
    the pedal up, the least later moment with the pedal down, antitone in the threshold) holds for every note of
    the state reached by a threshold assignment, with the fields the note has then -/
theorem state_sound (p : PPart) (t : Int) (q : PPart) (h : step p (.thr t) = (q, .ok)) (i : Nat) (n : PNote)
    (hn : q.notes[i]? = some n) :
    soundOffAt (q.notes.map PNote.toNote) q.controls t i = some n.soundOff ∧ n.off ≤ n.soundOff := by
  obtain ⟨q', hq', _, _, _, _, _, hs⟩ := step_thr p t
  rw [h] at hq'
  have : q = q' := (Prod.mk.inj hq').1
  subst this
  have h1 : soundOffAt (q.notes.map PNote.toNote) q.controls t i = some n.soundOff := by
    unfold soundOffAt
    rw [hs]
    simp [List.getElem?_map, hn]
  refine ⟨h1, ?_⟩
  obtain ⟨x, hx, hge⟩ := ge_release (q.notes.map PNote.toNote) q.controls t i n.toNote (by simp [List.getElem?_map, hn])
  rw [h1] at hx
  have := Option.some.inj hx
  subst this
  exact hge

/-- an accepted `pp.notes[i][key] = v` replaces note `i` and nothing else -/
theorem step_set (p q : PPart) (i : Nat) (op : SetOp) (h : step p (.set i op) = (q, .ok)) :
    ∃ n m, p.notes[i]? = some n ∧ setItem n op = .ok m ∧ q.notes[i]? = some m
      ∧ q.notes.length = p.notes.length ∧ (∀ j, j ≠ i → q.notes[j]? = p.notes[j]?)
      ∧ q.controls = p.controls ∧ q.thr = p.thr := by
  simp only [step] at h
  split at h
  · cases h
  · rename_i n hn
    split at h
    · rename_i m hm
      have hq := (Prod.mk.inj h).1
      subst hq
      have hi : i < p.notes.length := (List.getElem?_eq_some_iff.mp hn).1
      exact ⟨n, m, hn, hm, setAt_get_self _ _ _ hi, setAt_length _ _ _, fun j hj => setAt_get_other _ _ _ _ hj, rfl, rfl⟩
    · cases h
    · cases h

/-- `pp.notes.append(PerformedNote(d))` succeeds exactly when the constructor accepts `d`; the note goes to the end
    with the `sound_off` the constructor gave it (the release, or the one it carried) -/
theorem step_append (p : PPart) (r : RawNote) :
    (∀ n, initNote r = some n → step p (.append r) = ({ p with notes := p.notes ++ [n] }, .ok))
    ∧ (initNote r = none → step p (.append r) = (p, .valErr)) := by
  constructor
  · intro n hn
    simp only [step, hn]
  · intro hn
    simp only [step, hn]

/-- the invariant of every note under every history: MIDI ranges of pitch and velocity, no negative time -/
def NoteInv (n : PNote) : Prop :=
  0 ≤ n.pitch ∧ n.pitch ≤ 127 ∧ 0 ≤ n.vel ∧ n.vel ≤ 127 ∧ 0 ≤ n.on ∧ 0 ≤ n.off ∧ 0 ≤ n.soundOff

theorem init_inv (r : RawNote) (n : PNote) (h : initNote r = some n) : NoteInv n := by
  obtain ⟨_, hp, _, hon, hoff, hso, hvel, _, _, _, _, _⟩ := init_defaults r n h
  obtain ⟨p, on, off, hp', hon', hoff', hp1, hp2, h0on, honoff, hv, hs, _, _⟩ := (init_accepts_iff r).mp ⟨n, h⟩
  have e1 : p = n.pitch := by rw [hp] at hp'; exact (Option.some.inj hp').symm
  have e2 : on = n.on := by rw [hon] at hon'; exact (Option.some.inj hon').symm
  have e3 : off = n.off := by rw [hoff] at hoff'; exact (Option.some.inj hoff').symm
  subst e1 e2 e3
  have h0off : 0 ≤ n.off := le_trans h0on honoff
  refine ⟨hp1, hp2, ?_, ?_, h0on, h0off, ?_⟩
  · cases hr : r.vel with
    | none => rw [hvel, hr]; simpa using velDefault_ok.1
    | some v => rw [hvel, hr]; exact (hv v hr).1
  · cases hr : r.vel with
    | none => rw [hvel, hr]; simpa using velDefault_ok.2
    | some v => rw [hvel, hr]; exact (hv v hr).2
  · cases hr : r.soundOff with
    | none => rw [hso, hr]; exact h0off
    | some s => rw [hso, hr]; exact le_trans h0off (hs s hr)

theorem setitem_inv (n m : PNote) (op : SetOp) (hn : NoteInv n) (h : setItem n op = .ok m) : NoteInv m := by
  obtain ⟨a1, a2, a3, a4, a5, a6, a7⟩ := hn
  cases op with
  | midiPitch v => cases h
  | other => cases h
  | id v => have := Except.ok.inj h; subst this; exact ⟨a1, a2, a3, a4, a5, a6, a7⟩
  | track v => have := Except.ok.inj h; subst this; exact ⟨a1, a2, a3, a4, a5, a6, a7⟩
  | channel v => have := Except.ok.inj h; subst this; exact ⟨a1, a2, a3, a4, a5, a6, a7⟩
  | pitch v =>
    obtain ⟨b1, b2⟩ := ((setitem_accepts_iff n).1 v).mp ⟨m, h⟩
    obtain ⟨hm, _⟩ := setitem_pitch n m v h
    subst hm
    exact ⟨b1, b2, a3, a4, a5, a6, a7⟩
  | velocity v =>
    obtain ⟨b1, b2⟩ := ((setitem_accepts_iff n).2.1 v).mp ⟨m, h⟩
    simp only [setItem] at h
    split at h
    · have := Except.ok.inj h; subst this; exact ⟨a1, a2, b1, b2, a5, a6, a7⟩
    · cases h
  | noteOn v =>
    have b := ((setitem_accepts_iff n).2.2.1 v).mp ⟨m, h⟩
    simp only [setItem, b, if_true] at h
    have := Except.ok.inj h; subst this; exact ⟨a1, a2, a3, a4, b, a6, a7⟩
  | noteOff v =>
    have b := ((setitem_accepts_iff n).2.2.2.1 v).mp ⟨m, h⟩
    have b0 : 0 ≤ v := by
      rcases b with b | b
      · exact absurd a5 (not_le.mpr b)
      · exact b.1
    simp only [setItem] at h
    split at h
    · have := Except.ok.inj h; subst this; exact ⟨a1, a2, a3, a4, a5, b0, a7⟩
    · cases h
  | soundOff v =>
    have b := ((setitem_accepts_iff n).2.2.2.2.1 v).mp ⟨m, h⟩
    have b0 : 0 ≤ v := by
      rcases b with b | b
      · exact absurd a6 (not_le.mpr b)
      · exact b.1
    simp only [setItem] at h
    split at h
    · have := Except.ok.inj h; subst this; exact ⟨a1, a2, a3, a4, a5, a6, b0⟩
    · cases h
  | noteOnTick v =>
    simp only [setItem] at h
    split at h
    · have := Except.ok.inj h; subst this; exact ⟨a1, a2, a3, a4, a5, a6, a7⟩
    · cases h
  | noteOffTick v =>
    simp only [setItem] at h
    split at h
    · have := Except.ok.inj h; subst this; exact ⟨a1, a2, a3, a4, a5, a6, a7⟩
    · cases h

/-- the two pitch keys stay in step under every assignment (fixes/C14-5) -/
theorem setitem_keys_agree (n m : PNote) (op : SetOp) (hn : n.midiPitch = n.pitch) (h : setItem n op = .ok m) :
    m.midiPitch = m.pitch := by
  cases op <;> simp only [setItem] at h <;>
    first
      | (have := Except.ok.inj h; subst this; exact hn)
      | (split at h
         · have := Except.ok.inj h; subst this; first | exact hn | rfl
         · cases h)
      | cases h

/-- one statement preserves every property of notes that the constructor establishes, accepted assignments keep,
    and a stored sounding end at or after the release keeps -/
theorem step_preserves (P : PNote → Prop) (p : PPart) (o : Op)
    (hinit : ∀ r n, o = .append r → initNote r = some n → P n)
    (hset : ∀ n m op, P n → setItem n op = .ok m → P m)
    (hsound : ∀ (n : PNote) (s : Rat), P n → n.off ≤ s → P { n with soundOff := s })
    (hp : ∀ n ∈ p.notes, P n) : ∀ n ∈ (step p o).1.notes, P n := by
  cases o with
  | thr t =>
    obtain ⟨q, so, hq, hso, hnotes, hlen, _, _⟩ := assignThr_spec p t
    simp only [step, hq]
    rw [hnotes]
    intro x hx
    obtain ⟨k, n, s, hn, hs, rfl⟩ := mem_storeSound p.notes so x hx
    apply hsound n s (hp n (List.mem_of_getElem? hn))
    obtain ⟨y, hy, hge⟩ := ge_release (p.notes.map PNote.toNote) p.controls t k n.toNote
      (by simp [List.getElem?_map, hn])
    unfold soundOffAt at hy
    rw [hso] at hy
    simp only at hy
    rw [hs] at hy
    have := Option.some.inj hy
    subst this
    exact hge
  | set i op =>
    simp only [step]
    split
    · exact hp
    · rename_i n0 hn0
      split
      · rename_i m hm
        intro n hn
        rcases mem_setAt _ _ _ _ hn with rfl | h
        · exact hset n0 _ op (hp n0 (List.mem_of_getElem? hn0)) hm
        · exact hp n h
      · exact hp
      · exact hp
  | append r =>
    simp only [step]
    split
    · rename_i n0 hn0
      intro n hn
      rcases List.mem_append.mp hn with h | h
      · exact hp n h
      · rw [List.mem_singleton.mp h]
        exact hinit r n0 rfl hn0
    · exact hp

theorem history_preserves (P : PNote → Prop) (hinit : ∀ r n, initNote r = some n → P n)
    (hset : ∀ n m op, P n → setItem n op = .ok m → P m)
    (hsound : ∀ (n : PNote) (s : Rat), P n → n.off ≤ s → P { n with soundOff := s })
    (p : PPart) (ops : List Op) (hp : ∀ n ∈ p.notes, P n) : ∀ x ∈ runOps p ops, ∀ n ∈ x.1.notes, P n := by
  induction ops generalizing p with
  | nil => intro x hx; cases hx
  | cons o rest ih =>
    intro x hx
    simp only [runOps, List.mem_cons] at hx
    have h1 := step_preserves P p o (fun r n _ h => hinit r n h) hset hsound hp
    rcases hx with rfl | hx
    · exact h1
    · exact ih (step p o).1 h1 x hx

/-- in every state a history of statements can reach from a constructed part, every note keeps the MIDI ranges of
    pitch and velocity and has no negative time -/
theorem history_note_inv (rs : List RawNote) (cs : List Control) (thr : Int) (p : PPart)
    (hp : buildRaw rs cs thr = some p) (ops : List Op) : ∀ x ∈ runOps p ops, ∀ n ∈ x.1.notes, NoteInv n := by
  have hsound : ∀ (n : PNote) (s : Rat), NoteInv n → n.off ≤ s → NoteInv { n with soundOff := s } := by
    rintro n s ⟨a1, a2, a3, a4, a5, a6, _⟩ hs
    exact ⟨a1, a2, a3, a4, a5, a6, le_trans a6 hs⟩
  apply history_preserves NoteInv init_inv (fun n m op hn h => setitem_inv n m op hn h) hsound
  -- the constructed part
  unfold buildRaw at hp
  cases hns : mapM' initNote rs with
  | none => simp only [hns] at hp; cases hp
  | some ns =>
    simp only [hns] at hp
    have hns' : ∀ n ∈ ns, NoteInv n := by
      intro n hn
      obtain ⟨r, _, hrn⟩ := forall₂_mem_right ((mapM'_some_iff _ _ _).mp hns) n hn
      exact init_inv r n hrn
    have := step_preserves NoteInv { notes := ns, controls := cs, thr := thr } (.thr thr)
      (fun r n _ h => init_inv r n h) (fun n m op hn h => setitem_inv n m op hn h) hsound hns'
    simp only [step, hp] at this
    exact this

/-- … and with consistent pitch keys in the dictionaries the two keys agree in every reachable state -/
theorem history_keys_agree (rs : List RawNote) (cs : List Control) (thr : Int) (p : PPart)
    (hk : ∀ r ∈ rs, ∀ a b, r.pitch = some a → r.midiPitch = some b → a = b)
    (hp : buildRaw rs cs thr = some p) (ops : List Op)
    (hko : ∀ o ∈ ops, ∀ r, o = .append r → ∀ a b, r.pitch = some a → r.midiPitch = some b → a = b) :
    ∀ x ∈ runOps p ops, ∀ n ∈ x.1.notes, n.midiPitch = n.pitch := by
  -- the property "the keys agree or the note stems from a dictionary outside rs / ops" is not needed: appended
  -- dictionaries are consistent by hypothesis, so we carry the plain property and restrict `hinit` to them
  have hgen : ∀ (ops : List Op) (p : PPart),
      (∀ o ∈ ops, ∀ r, o = .append r → ∀ a b, r.pitch = some a → r.midiPitch = some b → a = b) →
      (∀ n ∈ p.notes, n.midiPitch = n.pitch) → ∀ x ∈ runOps p ops, ∀ n ∈ x.1.notes, n.midiPitch = n.pitch := by
    intro ops
    induction ops with
    | nil => intro p _ _ x hx; cases hx
    | cons o rest ih =>
      intro p hko hp x hx
      have h1 : ∀ n ∈ (step p o).1.notes, n.midiPitch = n.pitch :=
        step_preserves (fun n => n.midiPitch = n.pitch) p o
          (fun r n ho hn => (init_valid r n hn (hko o List.mem_cons_self r ho)).1)
          (fun n m op hn h => setitem_keys_agree n m op hn h) (fun _ _ h _ => h) hp
      simp only [runOps, List.mem_cons] at hx
      rcases hx with rfl | hx
      · exact h1
      · exact ih (step p o).1 (fun o' ho' => hko o' (List.mem_cons_of_mem _ ho')) h1 x hx
  apply hgen ops p hko
  unfold buildRaw at hp
  cases hns : mapM' initNote rs with
  | none => simp only [hns] at hp; cases hp
  | some ns =>
    simp only [hns] at hp
    obtain ⟨q, so, hq, _, hnotes, hlen, _, _⟩ := assignThr_spec { notes := ns, controls := cs, thr := thr } thr
    rw [hq] at hp
    have := Option.some.inj hp
    subst this
    rw [hnotes]
    intro x hx
    obtain ⟨k, n, s, hn, _, rfl⟩ := mem_storeSound ns so x hx
    obtain ⟨r, hr, hrn⟩ := forall₂_mem_right ((mapM'_some_iff _ _ _).mp hns) n (List.mem_of_getElem? hn)
    exact (init_valid r n hrn (hk r hr)).1

theorem step_controls (p : PPart) (o : Op) : (step p o).1.controls = p.controls := by
  cases o with
  | thr t =>
    obtain ⟨q, so, hq, _, _, _, hc, _⟩ := assignThr_spec p t
    simp only [step, hq, hc]
  | set i op =>
    simp only [step]
    split
    · rfl
    · split <;> rfl
  | append r =>
    simp only [step]
    split <;> rfl

/-- no statement removes a note; an accepted `append` adds exactly one -/
theorem step_length (p : PPart) (o : Op) :
    p.notes.length ≤ (step p o).1.notes.length
    ∧ (∀ r n, o = .append r → initNote r = some n → (step p o).1.notes.length = p.notes.length + 1) := by
  cases o with
  | thr t =>
    obtain ⟨q, hq, _, _, hl, _, _, _⟩ := step_thr p t
    rw [hq]
    exact ⟨by simp only; omega, fun r n h _ => by cases h⟩
  | set i op =>
    refine ⟨?_, fun r n h _ => by cases h⟩
    simp only [step]
    split
    · exact le_refl _
    · split
      · simp only [setAt_length]; exact le_refl _
      · exact le_refl _
      · exact le_refl _
  | append r =>
    constructor
    · simp only [step]
      split
      · simp
      · exact le_refl _
    · intro r' n h hn
      cases h
      simp [step, hn]

/-- "setting it recomputes every note", over all histories: whenever statement `k` of a history of threshold
    assignments, accepted or rejected item assignments and appended notes is the assignment of `t`, it succeeds, and
    afterwards the `sound_off` column is `adjust_offsets_w_sustain` of all the notes the part holds at that moment
    (edited and appended ones included), the controls being the ones of the construction -/
theorem history_recompute (p : PPart) (ops : List Op) (k : Nat) (t : Int) (h : ops[k]? = some (.thr t)) :
    ∃ q, (runOps p ops)[k]? = some (q, .ok) ∧ q.thr = t ∧ q.controls = p.controls
      ∧ soundOffs (q.notes.map PNote.toNote) q.controls t = some (q.notes.map (·.soundOff))
      ∧ ∀ (i : Nat) (n : PNote), q.notes[i]? = some n → n.off ≤ n.soundOff := by
  induction ops generalizing p k with
  | nil => simp at h
  | cons o rest ih =>
    cases k with
    | zero =>
      simp only [List.getElem?_cons_zero, Option.some.injEq] at h
      subst h
      obtain ⟨q, hq, ht, hc, _, _, _, hs⟩ := step_thr p t
      refine ⟨q, ?_, ht, hc, hs, ?_⟩
      · simp only [runOps, List.getElem?_cons_zero, hq]
      · intro i n hn
        exact (state_sound p t q hq i n hn).2
    | succ k' =>
      simp only [List.getElem?_cons_succ] at h
      obtain ⟨q, hq, ht, hc, hs, hge⟩ := ih (step p o).1 k' h
      refine ⟨q, ?_, ht, ?_, hs, hge⟩
      · simp only [runOps, List.getElem?_cons_succ]
        exact hq
      · rw [hc, step_controls]

-- pedal down from 1/2 to 5; a note of the same pitch appended after construction cuts the first note at its onset
-- once the threshold is assigned again (same value), and is itself extended to the pedal release; rejected
-- statements in between change nothing; after the pitch of the appended note is assigned away the cut disappears
example : (buildRaw [⟨some "a", some 60, none, some 0, some 2, none, none, none, none, none, none⟩]
      [⟨64, 1/2, 100, none⟩, ⟨64, 5, 0, none⟩] 64).map (fun p =>
        (runOps p [.append ⟨some "b", none, some 60, some 3, some 4, none, none, none, none, none, none⟩,
                   .thr 64, .set 1 (.midiPitch 61), .set 1 (.pitch 200), .set 7 (.velocity 1), .thr 127, .thr 64,
                   .set 1 (.pitch 61), .thr 64]).map
          (fun x => (x.2, x.1.notes.map (·.soundOff))))
    = some [(.ok, [5, 4]), (.ok, [3, 5]), (.keyErr, [3, 5]), (.valErr, [3, 5]), (.idxErr, [3, 5]), (.ok, [2, 4]),
            (.ok, [3, 5]), (.ok, [3, 5]), (.ok, [5, 5])] := by decide +kernel

end C14
