/-
C10 (round 2) — the measure maps as functions of the part description alone.

`divs_per_beat = inv_beat_map(1 + beat_map(0))` is no longer a parameter: Model/StepMapPart.lean computes it with
the beat maps of Model/TimeMap.lean (property C02), in notated and in musical beat mode, and the time-signature
map reads the musical beats STORED on each signature.  Helper lemmas: Proofs/C10Part.lean.

Vocabulary: `PartD` the part description; `timePart p` the part the beat maps see; `tsTbl ts` the signatures keyed
by start time; `C02Proofs.WF` at least two time points, positive divisions and signature numbers;
`TimeMap.keypoints` the key points of the beat map (first/last point, quarter-duration changes, signature starts).
-/
import PartituraModel.Proofs.C10Part

namespace C10
open Model Model.StepMap Gen

/-! ### time signatures: the stored musical beats -/

/-- `ts_spec_stored`: on the timeline the map returns beats, beat type and the musical beats STORED on the time
    signature in force, of the first one before it, and 4/4 (4 musical beats) when there is none -/
theorem ts_spec_stored (f l x : Int) (hx : f ≤ x) (ts : List TimeMap.TSig) (hs : SortedLT (tsTbl ts)) :
    (ts = [] → tsMapE (some (f, l)) ts x = some (4, 4, 4)) ∧
    (∀ e, InForce (tsTbl ts) x e → tsMapE (some (f, l)) ts x = some (e.2.beats, e.2.beatType, e.2.mb)) ∧
    (∀ s rest, ts = s :: rest → x < s.t → tsMapE (some (f, l)) ts x = some (s.beats, s.beatType, s.mb)) := by
  refine ⟨?_, ?_, ?_⟩
  · rintro rfl
    exact tsMapE_default (some (f, l)) x hx
  · intro e he
    have hne : ts ≠ [] := by intro h; rw [h] at he; exact absurd he.1 (by simp [tsTbl])
    rw [tsMapE_eq_lookupPrev f l x ts hne hx, tsRowsE_eq]
    exact lookupPrev_of_inForce _ x (sortedLT_mapVal _ _ hs) _ (inForce_mapVal _ _ x e he)
  · rintro s rest rfl hlt
    rw [tsMapE_eq_lookupPrev f l x _ (by simp) hx]
    exact lookupPrev_before _ _ _ x hlt

/-- with the default table on every signature this is the round-1 map (`ts_spec`, `musical_beats_spec`) -/
theorem ts_stored_default (span : Span) (tss : List (Int × Nat × Nat)) (x : Int) :
    tsMapE span (tss.map fun e => ⟨e.1, e.2.1, e.2.2, musicalBeats e.2.1⟩) x = tsMap span tss x := by
  unfold tsMapE tsMap
  rw [tsTable_eq_tableOf]
  congr 2
  unfold tsRowsE tsRows
  rw [List.map_map]
  rfl

example : tsMapE (some (0, 20)) [⟨0, 6, 8, 3⟩, ⟨12, 9, 8, 3⟩] 5 = some (6, 8, 3)
    ∧ tsMapE (some (0, 20)) [⟨4, 6, 8, 6⟩] 1 = some (6, 8, 6)
    ∧ InForce (tsTbl [⟨0, 6, 8, 3⟩, ⟨12, 9, 8, 3⟩]) 5 (0, ⟨0, 6, 8, 3⟩) := by
  refine ⟨by decide, by decide, by simp [tsTbl], by decide, ?_⟩
  intro e' he' hle
  simp only [tsTbl, List.map_cons, List.map_nil, List.mem_cons, List.mem_nil_iff, or_false] at he'
  rcases he' with rfl | rfl <;> simp_all

/-! ### the order of the tables -/

/-- the executable check the correspondence applies to the start times the real `iter_all` delivers is exactly
    the hypothesis of `lookup_spec`: the table builders need nothing else of `iter_all` -/
theorem sorted_check_sound {α : Type} (tbl : Tbl α) :
    sortedTimes (tbl.map (·.1)) = true ↔ SortedLE tbl := by
  rw [sortedTimes_iff]
  unfold SortedLE
  rw [List.pairwise_map]

example : sortedTimes [0, 3, 3, 8] = true ∧ sortedTimes [0, 4, 3] = false := by decide

/-! ### divs_per_beat -/

/-- `divs_per_beat_spec`: whenever it is a number, `divs_per_beat` is the position exactly one beat (of the beat
    mode in use) after position 0 — for every well-formed part, pickup or not, any changes inside the first beat -/
theorem divs_per_beat_spec (p : PartD) (h : C02Proofs.WF (timePart p) (TimeMap.beatMode (timePart p))) (b0 d : Rat)
    (h0 : TimeMap.beatMap (timePart p) 0 = some b0) (hd : divsPerBeat p = some d) :
    TimeMap.beatMap (timePart p) d = some (b0 + 1) :=
  divsPerBeat_fwd p h b0 d h0 hd

/-- closed form: when the first stretch of the beat map is at least one beat long, `divs_per_beat` is the quarter
    duration in force at 0 divided by the beat factor in force at 0 (beats per quarter) -/
theorem divs_per_beat_closed (p : PartD) (h : C02Proofs.WF (timePart p) (TimeMap.beatMode (timePart p)))
    (k k' : TimeMap.KP) (post : List TimeMap.KP)
    (hk : TimeMap.keypoints (timePart p) (TimeMap.beatMode (timePart p)) = k :: k' :: post)
    (hk0 : k.t = 0) (hreach : k.divs / k.fac ≤ (k'.t : Rat)) :
    divsPerBeat p = some (k.divs / k.fac)
    ∧ C02Proofs.InForce (TimeMap.qdAssign p.qd) 1 0 k.divs
    ∧ C02Proofs.InForce (TimeMap.facAssign (TimeMap.beatMode (timePart p)) p.ts) 1 0 k.fac := by
  have hkm : k ∈ TimeMap.keypoints (timePart p) (TimeMap.beatMode (timePart p)) := by rw [hk]; simp
  refine ⟨divsPerBeat_closed p h k k' post hk hk0 hreach, ?_, ?_⟩
  · have := C02.keypoint_divs_inforce _ _ k hkm
    rw [hk0] at this
    exact this
  · have := C02.keypoint_fac_inforce _ _ k hkm
    rw [hk0] at this
    exact this

/-! ### the pickup rule as a statement about the part description -/

/-- the hypotheses of `pickup_spec_composed`: the timeline starts at 0, the first time signature `s0` starts there
    and the others later, the quarter duration set at 0 is `q0`, and the first stretch of the beat map (up to the
    next quarter-duration change, signature start or the end of the timeline: key point `k'`) is at least one beat
    (of the beat mode in use) long -/
structure SimpleStart (p : PartD) (l : Int) (s0 : TimeMap.TSig) (rest : List TimeMap.TSig) (q0 : Nat)
    (k k' : TimeMap.KP) (post : List TimeMap.KP) : Prop where
  span : p.span = some (0, l)
  wf : C02Proofs.WF (timePart p) (TimeMap.beatMode (timePart p))
  ts : p.ts = s0 :: rest
  s0t : s0.t = 0
  later : ∀ s ∈ rest, 0 < s.t
  qd0 : TimeMap.lastAssoc (TimeMap.qdAssign p.qd) 0 = some (q0 : Rat)
  kps : TimeMap.keypoints (timePart p) (TimeMap.beatMode (timePart p)) = k :: k' :: post
  k0 : k.t = 0
  reach : (q0 : Rat) / TimeMap.factorOf (TimeMap.beatMode (timePart p)) s0 ≤ (k'.t : Rat)

/-- the length of a full bar of `s0` in divisions: `beats · 4/beat_type` quarters of `q0` divisions -/
def fullBar (s0 : TimeMap.TSig) (q0 : Nat) : Rat := (s0.beats : Rat) * (q0 : Rat) * 4 / (s0.beatType : Rat)

/-- **`pickup_spec_composed`** — the pickup rule as a theorem about the part description alone: for a part that
    starts simply (`SimpleStart`), in notated AND in musical beat mode (whatever musical beats are stored),
    `beats_per_bar · divs_per_beat` is the length of a full bar of the first signature in divisions, and the first
    measure `(s, e)` keeps its start when it is at least that long and otherwise starts at
    `round(e − full bar)`, "ending a full bar". -/
theorem pickup_spec_composed (p : PartD) (l : Int) (s0 : TimeMap.TSig) (rest : List TimeMap.TSig) (q0 : Nat)
    (k k' : TimeMap.KP) (post : List TimeMap.KP) (H : SimpleStart p l s0 rest q0 k k' post) :
    (∃ b d, beatsPerBar p = some b ∧ divsPerBeat p = some d ∧ b * d = fullBar s0 q0) ∧
    ∀ s e : Int, pickupStart s e (beatsPerBar p) (divsPerBeat p)
      = if ((e - s : Int) : Rat) < fullBar s0 q0 then roundHalfEven ((e : Rat) - fullBar s0 q0) else s := by
  obtain ⟨hspan, hwf, hts, hs0, hlater, hq, hk, hk0, hreach⟩ := H
  have hkm : k ∈ TimeMap.keypoints (timePart p) (TimeMap.beatMode (timePart p)) := by rw [hk]; simp
  -- quarter duration and factor at the first key point
  have hdiv : k.divs = (q0 : Rat) := by
    have := C02.keypoint_divs_inforce _ _ k hkm
    rw [hk0] at this
    exact inforce_at_assigned _ _ _ _ _ this hq
  have hfac : k.fac = TimeMap.factorOf (TimeMap.beatMode (timePart p)) s0 := by
    have := C02.keypoint_fac_inforce _ _ k hkm
    rw [hk0] at this
    have hts' : (timePart p).ts = s0 :: rest := hts
    rw [hts'] at this
    exact inforce_at_assigned _ _ _ _ _ this
      (facAssign_at_zero _ (beatMode_ne_quarter _) s0 rest hs0 hlater)
  have hd : divsPerBeat p = some ((q0 : Rat) / TimeMap.factorOf (TimeMap.beatMode (timePart p)) s0) := by
    rw [← hdiv, ← hfac]
    exact divsPerBeat_closed p hwf k k' post hk hk0 (by rw [hdiv, hfac]; exact hreach)
  have hb := beatsPerBar_simple p l s0 rest hspan hts hs0 hlater
  -- positivity of the signature numbers
  have hs0mem : s0 ∈ (timePart p).ts := by
    have hts' : (timePart p).ts = s0 :: rest := hts
    rw [hts']; exact List.mem_cons_self
  obtain ⟨hbeats, hbt, hmb⟩ := hwf.2.2.2 (beatMode_ne_quarter _) s0 hs0mem
  have hbeats' : ((s0.beats : Nat) : Rat) ≠ 0 := by exact_mod_cast (Nat.pos_iff_ne_zero.mp hbeats)
  have hbt' : ((s0.beatType : Nat) : Rat) ≠ 0 := by exact_mod_cast (Nat.pos_iff_ne_zero.mp hbt)
  have hprod : (if p.musical then (s0.mb : Rat) else (s0.beats : Rat))
      * ((q0 : Rat) / TimeMap.factorOf (TimeMap.beatMode (timePart p)) s0) = fullBar s0 q0 := by
    unfold fullBar
    have hmode : TimeMap.beatMode (timePart p) = if p.musical then TimeMap.Mode.musical else TimeMap.Mode.notated := rfl
    cases hmus : p.musical with
    | false =>
      rw [hmode, hmus]
      simp only [Bool.false_eq_true, if_false, TimeMap.factorOf]
      field_simp
    | true =>
      have hmb0 : 0 < s0.mb := hmb (by rw [hmode, hmus]; rfl)
      have hmb' : ((s0.mb : Nat) : Rat) ≠ 0 := by exact_mod_cast (Nat.pos_iff_ne_zero.mp hmb0)
      rw [hmode, hmus]
      simp only [if_true, TimeMap.factorOf]
      field_simp
  refine ⟨⟨_, _, hb, hd, hprod⟩, ?_⟩
  intro s e
  rw [hb, hd]
  unfold pickupStart
  simp only [hprod]


/-- non-vacuity: 6/8 with musical beats in use (2 dotted beats), divisions 4, a pickup of 4 divisions, a second
    signature and a quarter-duration change later on -/
def exPart : PartD :=
  { npoints := 5, span := some (0, 52), qd := [(0, 4), (28, 8)], ts := [⟨0, 6, 8, 2⟩, ⟨28, 3, 4, 3⟩], musical := true,
    ms := [(0, 4, some 0), (4, 28, some 1), (28, 52, some 2)] }

example : SimpleStart exPart 52 ⟨0, 6, 8, 2⟩ [⟨28, 3, 4, 3⟩] 4 ⟨0, 4, 2/3⟩ ⟨28, 8, 1⟩ [⟨52, 8, 1⟩] :=
  ⟨rfl, by decide, rfl, rfl, by decide, by decide +kernel, by decide +kernel, rfl, by decide +kernel⟩

example : fullBar ⟨0, 6, 8, 2⟩ 4 = 12 ∧ beatsPerBar exPart = some 2 ∧ divsPerBeat exPart = some 6
    ∧ measureMapP exPart 2 = some (some (-8, 4))
    ∧ measureMapP { exPart with musical := false } 2 = some (some (-8, 4)) := by decide +kernel

/-- the pickup rule does not depend on the beat mode or on the musical beats stored on the signatures
    (the defect F-C10-9 as a theorem): two descriptions that start simply with the same signature numbers and quarter
    duration give the first measure the same start -/
theorem pickup_beat_mode_invariant (p p' : PartD) (l l' : Int) (s0 s0' : TimeMap.TSig) (rest rest' : List TimeMap.TSig)
    (q0 : Nat) (k k' k2 k2' : TimeMap.KP) (post post' : List TimeMap.KP)
    (H : SimpleStart p l s0 rest q0 k k' post) (H' : SimpleStart p' l' s0' rest' q0 k2 k2' post')
    (hb : s0.beats = s0'.beats) (hbt : s0.beatType = s0'.beatType) (s e : Int) :
    pickupStart s e (beatsPerBar p) (divsPerBeat p) = pickupStart s e (beatsPerBar p') (divsPerBeat p') := by
  rw [(pickup_spec_composed p l s0 rest q0 k k' post H).2, (pickup_spec_composed p' l' s0' rest' q0 k2 k2' post' H').2]
  unfold fullBar
  rw [hb, hbt]

/-! ### the three measure maps of a description -/

/-- the maps raise only when musical beats are in use and a signature has 0 beats (`ZeroDivisionError`) -/
theorem raises_iff (p : PartD) :
    raisesP p = true ↔ p.ms ≠ [] ∧ 2 ≤ p.npoints ∧ p.musical = true ∧ ∃ s ∈ p.ts, s.beats = 0 := by
  unfold raisesP TimeMap.raises TimeMap.beatMode
  have h1 : (timePart p).npoints = p.npoints := rfl
  have h2 : (timePart p).musical = p.musical := rfl
  have h3 : (timePart p).ts = p.ts := rfl
  rw [h1, h2, h3]
  cases hm : p.musical <;> cases hms : p.ms <;> simp [List.any_eq_true]

/-- `measure_spec_composed`: `measure_spec` for the map of a description — no parameter left -/
theorem measure_spec_composed (p : PartD) (x : Int) (hr : raisesP p = false) (ht : Ordered (bars p))
    (i : Nat) (s e : Int) (hi : (bars p)[i]? = some (s, e)) (hs : s ≤ x) (he : x < e) :
    measureMapP p x = some (some (if i = 0 then pickupStart s e (beatsPerBar p) (divsPerBeat p) else s, e)) := by
  unfold measureMapP measureTableP
  rw [hr]
  simp only [Bool.false_eq_true, if_false, Option.some.injEq]
  rw [measureTbl_tiles p.span (bars p) _ _ x ht i s e hi hs he]
  exact (corrected_get (bars p) _ _ i s e hi).1

/-- `number_spec_composed` -/
theorem number_spec_composed (p : PartD) (x : Int) (hr : raisesP p = false) (ht : Ordered (bars p))
    (filled : List Int) (hf : allSome (fillNumbers (p.ms.map (·.2.2))) = some filled)
    (i : Nat) (s e n : Int) (hi : p.ms[i]? = some (s, e, some n)) (hs : s ≤ x) (he : x < e) :
    measureNumberMapP p x = some (some n) := by
  unfold measureNumberMapP
  rw [hr]
  simp only [Bool.false_eq_true, if_false]
  exact measureNumberTbl_tiles p.span p.ms _ _ x ht filled hf i s e n hi hs he

/-- `metrical_spec_composed`: distance from the (pickup-corrected) start and the measure length -/
theorem metrical_spec_composed (p : PartD) (x : Int) (hr : raisesP p = false) (ht : Tiles (bars p))
    (i : Nat) (s e : Int) (hi : (bars p)[i]? = some (s, e)) (hs : s ≤ x) (he : x < e) :
    metricalMapP p x
      = some (x - (if i = 0 then pickupStart s e (beatsPerBar p) (divsPerBeat p) else s),
              some (e - (if i = 0 then pickupStart s e (beatsPerBar p) (divsPerBeat p) else s))) := by
  unfold metricalMapP measureTableP
  rw [hr]
  simp only [Bool.false_eq_true, if_false]
  exact metricalTbl_tiles p.span (bars p) _ _ x ht i s e hi hs he

/-- with gaps between the measures the position component still holds -/
theorem metrical_position_composed_no_tiling (p : PartD) (x : Int) (hr : raisesP p = false) (ht : Ordered (bars p))
    (i : Nat) (s e : Int) (hi : (bars p)[i]? = some (s, e)) (hs : s ≤ x) (he : x < e) :
    (metricalMapP p x).map (·.1)
      = some (x - (if i = 0 then pickupStart s e (beatsPerBar p) (divsPerBeat p) else s)) := by
  unfold metricalMapP measureTableP
  rw [hr]
  simp only [Bool.false_eq_true, if_false]
  exact metricalTbl_ordered p.span (bars p) _ _ x ht i s e hi hs he

/-- no measures: the documented defaults, whatever the rest of the description -/
theorem measure_defaults_composed (p : PartD) (hm : p.ms = []) (x : Int) :
    measureMapP p x = some (some (spanOrZero p.span)) ∧ measureNumberMapP p x = some (some 1)
    ∧ metricalMapP p x = some (0, some 0) := by
  have hr : raisesP p = false := by unfold raisesP; rw [hm]; rfl
  have hb : bars p = [] := by unfold bars; rw [hm]; rfl
  unfold measureMapP measureNumberMapP metricalMapP measureTableP
  rw [hr, hb, hm]
  cases p.span <;> exact ⟨rfl, rfl, rfl⟩

example : raisesP exPart = false ∧ Tiles (bars exPart) ∧ (bars exPart)[0]? = some (0, 4)
    ∧ metricalMapP exPart 2 = some (10, some 12) ∧ measureNumberMapP exPart 30 = some (some 2) := by
  refine ⟨by decide, by simp [Tiles, bars, exPart], by decide, by decide +kernel, by decide +kernel⟩

/-- the composed maps are the round-1 maps at the computed parameter (notated mode, default table) -/
theorem composed_is_parametric (p : PartD) (tss : List (Int × Nat × Nat)) (hr : raisesP p = false)
    (hmus : p.musical = false) (hts : p.ts = tss.map fun e => ⟨e.1, e.2.1, e.2.2, musicalBeats e.2.1⟩) (x : Int) :
    measureMapP p x = some (measureMap p.span tss (bars p) (divsPerBeat p) x)
    ∧ metricalMapP p x = metricalMap p.span tss (bars p) (divsPerBeat p) x := by
  have hb : beatsPerBar p = beatsAtZero p.span tss := by
    unfold beatsPerBar beatsAtZero
    rw [hts, ts_stored_default, hmus]
    simp
  unfold measureMapP metricalMapP measureTableP measureMap metricalMap
  rw [hr, hb]
  simp

end C10
