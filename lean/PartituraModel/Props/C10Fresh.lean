/-
C10 (round 6) — "every part": an edited part answers like a fresh build of what is on its timeline, for ALL SIX maps,
also when the quarter-duration table carries redundant entries that a fresh build does not reproduce.

`rebuild_same_maps` (Props/C10Hist.lean) leaves one side condition for the three measure maps: the fresh build
measures the same `divs_per_beat`.  Here it is discharged on the domain where the property says what the pickup rule
does (`DescribedStart`, Props/C10Start.lean: first signature and quarter duration at 0, nothing changing inside the
first beat, a timeline of at least one beat): there `divs_per_beat` is a function of the first signature and the first
quarter duration alone (`divs_per_beat_described`), the fresh build starts in the same way (`rebuild_described_start`:
its quarter-duration table keeps the entry at 0 and holds nothing but entries of the old table), hence
**`rebuild_same_maps_described`**: all six maps of the fresh build are the maps of the edited part - for every history.
-/
import PartituraModel.Props.C10Hist
import PartituraModel.Props.C10Start

namespace C10
open Model Model.StepMap

/-- the beat mode is read off the `musical` flag -/
theorem beatMode_congr (P R : PartD) (emu : R.musical = P.musical) :
    TimeMap.beatMode (timePart R) = TimeMap.beatMode (timePart P) := by
  unfold TimeMap.beatMode timePart
  simp only [emu]

/-- `DescribedStart` only looks at the span, the number of time points, the signatures, the beat mode and the
    quarter-duration table - and survives dropping later entries of that table -/
theorem described_start_transfer (P R : PartD) (l : Int) (s0 : TimeMap.TSig) (rest : List TimeMap.TSig) (q0 : Nat)
    (qrest qrest' : List (Int × Nat)) (H : DescribedStart P l s0 rest q0 qrest)
    (ets : R.ts = P.ts) (emu : R.musical = P.musical) (enp : R.npoints = P.npoints) (esp : R.span = P.span)
    (hrq : R.qd = (0, q0) :: qrest') (hsub : ∀ e ∈ qrest', e ∈ qrest) : DescribedStart R l s0 rest q0 qrest' := by
  obtain ⟨hspan, hwf, hts, hs0, hlater, hqd, hqlater, hbl, hbts, hbqd⟩ := H
  have hmode := beatMode_congr P R emu
  refine ⟨?_, ?_, ?_, hs0, hlater, hrq, fun e he => hqlater e (hsub e he), ?_, ?_, ?_⟩
  · rw [esp]; exact hspan
  · obtain ⟨w1, w2, w3, w4⟩ := hwf
    rw [hmode]
    refine ⟨?_, ?_, ?_, ?_⟩
    · show 2 ≤ R.npoints
      rw [enp]; exact w1
    · show (spanOrZero R.span).1 < (spanOrZero R.span).2
      rw [esp]; exact w2
    · intro e he
      have he' : e ∈ R.qd := he
      rw [hrq] at he'
      apply w3
      show e ∈ P.qd
      rw [hqd]
      rcases List.mem_cons.mp he' with h | h
      · rw [h]; exact List.mem_cons_self ..
      · exact List.mem_cons_of_mem _ (hsub e h)
    · intro hm sg hsg
      have hsg' : sg ∈ R.ts := hsg
      rw [ets] at hsg'
      exact w4 hm sg hsg'
  · rw [ets]; exact hts
  · rw [hmode]; exact hbl
  · rw [hmode]; exact hbts
  · rw [hmode]; exact fun e he => hbqd e (hsub e he)

/-- **`rebuild_described_start`**: when the part a history left starts simply, so does its fresh build -/
theorem rebuild_described_start (s : HPart) (l : Int) (s0 : TimeMap.TSig) (rest : List TimeMap.TSig) (q0 : Nat)
    (qrest : List (Int × Nat)) (H : DescribedStart (describe s).part l s0 rest q0 qrest) :
    ∃ qrest', DescribedStart (describe (hpRun q0 (rebuildOps (describe s)))).part l s0 rest q0 qrest' := by
  obtain ⟨ets, _, _, _, _, emu, enp, esp⟩ := rebuild_same_tables q0 s
  have hsq : s.qd = (0, q0) :: qrest := H.qd
  have hrq : (describe (hpRun q0 (rebuildOps (describe s)))).part.qd = replayQD [(0, q0)] qrest :=
    rebuild_qd_replay s q0 qrest hsq
  obtain ⟨qrest', hrep, hsub⟩ := replayQD_head q0 qrest [] H.qlater
  rw [hrep] at hrq
  have hsub' : ∀ e ∈ qrest', e ∈ qrest := fun e he => by
    rcases hsub e he with h | h
    · simp at h
    · exact h
  generalize (describe (hpRun q0 (rebuildOps (describe s)))).part = R at ets emu enp esp hrq
  exact ⟨qrest', described_start_transfer _ R l s0 rest q0 qrest qrest' H ets emu enp esp hrq hsub'⟩

/-- **`rebuild_same_maps_described`**: for the part ANY history leaves - redundant quarter-duration entries or not -
    that starts simply, all six maps of a fresh build of what is on the timeline are the maps of the edited part -/
theorem rebuild_same_maps_described (s : HPart) (l : Int) (s0 : TimeMap.TSig) (rest : List TimeMap.TSig) (q0 : Nat)
    (qrest : List (Int × Nat)) (H : DescribedStart (describe s).part l s0 rest q0 qrest) (x : Int) :
    tsMapE (describe (hpRun q0 (rebuildOps (describe s)))).part.span
        (describe (hpRun q0 (rebuildOps (describe s)))).part.ts x
      = tsMapE (describe s).part.span (describe s).part.ts x ∧
    ksMap (describe (hpRun q0 (rebuildOps (describe s)))).part.span
        (describe (hpRun q0 (rebuildOps (describe s)))).kss x
      = ksMap (describe s).part.span (describe s).kss x ∧
    clefMap (describe (hpRun q0 (rebuildOps (describe s)))).part.span
        (describe (hpRun q0 (rebuildOps (describe s)))).clefs
        (otherStaffs (describe (hpRun q0 (rebuildOps (describe s)))).others) x
      = clefMap (describe s).part.span (describe s).clefs (otherStaffs (describe s).others) x ∧
    measureMapP (describe (hpRun q0 (rebuildOps (describe s)))).part x = measureMapP (describe s).part x ∧
    measureNumberMapP (describe (hpRun q0 (rebuildOps (describe s)))).part x
      = measureNumberMapP (describe s).part x ∧
    metricalMapP (describe (hpRun q0 (rebuildOps (describe s)))).part x = metricalMapP (describe s).part x := by
  obtain ⟨qrest', H'⟩ := rebuild_described_start s l s0 rest q0 qrest H
  have hmode := beatMode_congr (describe s).part (describe (hpRun q0 (rebuildOps (describe s)))).part
    (rebuild_same_tables q0 s).2.2.2.2.2.1
  have hd : divsPerBeat (describe (hpRun q0 (rebuildOps (describe s)))).part = divsPerBeat (describe s).part := by
    rw [divs_per_beat_described _ l s0 rest q0 qrest' H', divs_per_beat_described _ l s0 rest q0 qrest H, hmode]
  obtain ⟨h1, h2, h3, h4⟩ := rebuild_same_maps q0 s x
  obtain ⟨h5, h6, h7⟩ := h4 hd
  exact ⟨h1, h2, h3, h5, h6, h7⟩

/-- non-vacuity: 3/4 at 4 divisions, a pickup of 4 and two bars; the quarter duration at 16 is set to 8 and back to
    4 (a redundant entry the fresh build drops), a measure is removed and re-added -/
def exFresh : List HistOp :=
  [.new 0 0 (.ts 3 4) none, .new 1 0 (.measure 4 (some 0)) none, .new 2 4 (.measure 16 (some 1)) none,
   .new 3 16 (.measure 28 (some 2)) none, .setQD 16 8, .query, .setQD 16 4, .remove 2, .readd 2]

example : (hpRun 4 exFresh).qd = [(0, 4), (16, 4)]
    ∧ (hpRun 4 (rebuildOps (describe (hpRun 4 exFresh)))).qd = [(0, 4)]
    ∧ DescribedStart (describe (hpRun 4 exFresh)).part 28 ⟨0, 3, 4, 3⟩ [] 4 [(16, 4)]
    ∧ measureMapP (describe (hpRun 4 exFresh)).part 2 = some (some (-8, 4)) := by
  refine ⟨by decide, by decide,
    ⟨by decide, by decide, by decide, rfl, by decide, by decide, by decide, by decide +kernel, by decide +kernel,
     by decide +kernel⟩, by decide +kernel⟩

end C10
