/-
C16 — the CALL as the user writes it: `transpose(arg, Interval(number, quality, direction))` with the number a Python
int and the direction a string (Model/TransposeCall.lean: the constructor with `validate`, `Interval.semitones`,
`_transpose_note_inplace` / `_transpose_step` on the Interval object).

What is proved here: which intervals the constructor accepts; that an accepted interval has a size exactly for the
numbers 1..7 (for EVERY quality string and EVERY integer — zero, negative and compound numbers raise KeyError); that
the object-level function is the (quality, ℕ, Bool) function of Model/Transpose.lean for every integer number, so the
theorems of Props/C16.lean and Props/C16Heap.lean hold for the call with the hypothesis "the interval is one of the 39
classes" replaced by "the constructor accepted it and 1 ≤ number ≤ 7".
-/
import PartituraModel.Proofs.C16Call
import PartituraModel.Props.C16Heap

namespace C16Call
open Model Model.TH Gen

/-- **`Interval.semitones` is defined exactly for simple numbers**: whatever the quality string, a size exists only
    for 1 ≤ number ≤ 7 (the code's "TODO work for arbitrary octave": compound intervals pass `validate`, then raise) -/
theorem size_only_for_simple_numbers (iv : IntervalObj) (z : Int) (h : iv.semitones = some z) :
    1 ≤ iv.number ∧ iv.number ≤ 7 := sized_int h

/-- the number `validate` looks up: the simple interval of a compound one, 7 for multiples of 7 -/
theorem validate_reduces_number (iv : IntervalObj) :
    iv.validate = (INTERVALCLASSES.contains (iv.quality ++ showInt ((iv.number - 1) % 7 + 1)) &&
      (iv.direction == "up" || iv.direction == "down")) := by
  unfold IntervalObj.validate
  have : (if iv.number % 7 = 0 then 7 else iv.number % 7) = (iv.number - 1) % 7 + 1 := by
    split <;> omega
  simp only [this, INTERVAL_DIRECTIONS]
  simp only [List.contains_cons, List.contains_nil, Bool.or_false]

/-- **the constructor accepts exactly** the valid class of the reduced number with direction "up" or "down", and
    then stores its three arguments unchanged -/
theorem constructor_accepts_iff (number : Int) (quality direction : String) :
    (mkInterval number quality direction).isSome ↔
      (quality ++ showInt ((number - 1) % 7 + 1) ∈ INTERVALCLASSES ∧ (direction = "up" ∨ direction = "down")) := by
  unfold mkInterval
  simp only []
  rw [validate_reduces_number]
  split <;> rename_i hv <;> simp_all

theorem constructor_stores {number : Int} {quality direction : String} {iv : IntervalObj}
    (h : mkInterval number quality direction = some iv) : iv = ⟨number, quality, direction⟩ := by
  unfold mkInterval at h
  simp only [] at h
  split at h
  · exact (Option.some.inj h).symm
  · cases h

private theorem digit_inj : ∀ m ∈ List.range 8, ∀ k ∈ List.range 8,
    natDigits m = natDigits k → m = k := by decide +kernel

private theorem digit_single : ∀ m ∈ List.range 8, (natDigits m).length = 1 := by decide +kernel

/-- `quality + str(number)` determines quality and number (numbers 1..7: one digit) -/
private theorem key_inj {q q' : String} {m k : Nat} (hm : m ≤ 7) (hk : k ≤ 7)
    (h : q' ++ showNat m = q ++ showNat k) : q' = q ∧ m = k := by
  have h' := congrArg String.toList h
  simp only [showNat] at h'
  rw [toList_key, toList_key] at h'
  have hm' := digit_single m (List.mem_range.mpr (by omega))
  have hk' := digit_single k (List.mem_range.mpr (by omega))
  obtain ⟨h1, h2⟩ := List.append_inj' h' (by rw [hm', hk'])
  exact ⟨String.toList_inj.mp h1, digit_inj m (List.mem_range.mpr (by omega)) k (List.mem_range.mpr (by omega)) h2⟩

/-- **an accepted interval with a simple number is one of the 39 classes** — the hypothesis of `note_moved`,
    `every_note_moved`, `transpose_total`, … discharged from the constructor -/
theorem accepted_simple_is_class {number : Int} {quality direction : String}
    (h : (mkInterval number quality direction).isSome) (h1 : 1 ≤ number) (h7 : number ≤ 7) :
    (quality, number.toNat) ∈ C16.classPairs ∧ (direction = "up" ∨ direction = "down") := by
  obtain ⟨hc, hd⟩ := (constructor_accepts_iff number quality direction).mp h
  refine ⟨?_, hd⟩
  have hn : (number - 1) % 7 + 1 = ((number.toNat : Nat) : Int) := by omega
  rw [hn, showInt_natCast, ← C16.class_pairs_are_the_classes] at hc
  obtain ⟨e, he, hk⟩ := List.mem_map.mp hc
  have hb := C16.class_facts e he
  have he7 : e.2 ≤ 7 := by
    unfold C16.classOK at hb
    split at hb
    · simp only [Bool.and_eq_true, decide_eq_true_eq] at hb; exact hb.1.2
    · cases hb
  obtain ⟨hq, hm⟩ := key_inj he7 (by omega) hk
  have : e = (quality, number.toNat) := Prod.ext hq hm
  exact this ▸ he

/-- a key without a size is not the unison key -/
private theorem not_unison {q : String} {n : Int} (hn : ¬ (1 ≤ n ∧ n ≤ 7)) :
    q ++ showInt n ≠ "P1" ∧ lookup (q ++ showInt n) INTERVAL_TO_SEMITONES = none := by
  have hnone : lookup (q ++ showInt n) INTERVAL_TO_SEMITONES = none := by
    cases hl : lookup (q ++ showInt n) INTERVAL_TO_SEMITONES with
    | none => rfl
    | some z => exact absurd (sized_int hl) hn
  refine ⟨fun hP => ?_, hnone⟩
  rw [hP] at hnone
  have : lookup "P1" INTERVAL_TO_SEMITONES = some 0 := by decide +kernel
  rw [this] at hnone
  cases hnone

private theorem stepObj_up (i : Nat) (n : Nat) (hn : 1 ≤ n) :
    transposeStepObj i (n : Int) "up" = transposeStepIdx i n true := by
  unfold transposeStepObj transposeStepIdx
  simp only [if_true]
  omega

private theorem stepObj_down (i : Nat) (n : Nat) :
    transposeStepObj i (n : Int) "down" = transposeStepIdx i n false := by
  unfold transposeStepObj transposeStepIdx
  have : ¬ ("down" = "up") := by decide
  simp only [this, if_false, Bool.false_eq_true]

/-- **the object-level function IS the modelled arithmetic, for every integer number**:
    `_transpose_note_inplace(note, iv)` on an Interval object with direction "up" / "down" equals `transposeSpelling`
    on (quality, number as a natural number, direction as a flag); zero, negative and compound numbers raise in both -/
theorem note_obj_refines (iv : IntervalObj) (hd : iv.direction = "up" ∨ iv.direction = "down")
    (s : String) (al : Option Int) (o : Int) :
    transposeNoteObj iv s al o = transposeSpelling s al o iv.quality iv.number.toNat (iv.direction == "up") := by
  obtain ⟨number, quality, direction⟩ := iv
  simp only at hd ⊢
  by_cases hs : 1 ≤ number ∧ number ≤ 7
  · obtain ⟨n, rfl⟩ := Int.eq_ofNat_of_zero_le (by omega : 0 ≤ number)
    have hn : 1 ≤ n := by omega
    simp only [Int.toNat_natCast]
    unfold transposeNoteObj transposeSpelling IntervalObj.semitones
    simp only [showInt_natCast]
    split
    · rfl
    · cases h1 : lookup (upper s) STEPS_TO_INT with
      | none => rfl
      | some i =>
        cases h2 : lookup (quality ++ showNat n) INTERVAL_TO_SEMITONES with
        | none => rfl
        | some sz =>
          simp only
          rcases hd with rfl | rfl
          · have hu : ("up" == "up") = true := by decide
            simp only [stepObj_up i n hn, hu, transposeIdx, and_true, if_true]
            have : ¬ ("up" = "down") := by decide
            simp only [this, and_false, if_false]
            cases hL : lookup (transposeStepIdx i n true) INT_TO_STEPS <;> cases hB : basePcIdx i <;>
              cases hC : basePcIdx (transposeStepIdx i n true) <;> simp [hL]
          · have hu : ("down" == "up") = false := by decide
            have hne : ¬ ("down" = "up") := by decide
            simp only [stepObj_down i n, hu, transposeIdx, hne, and_false, if_false, and_true,
              Bool.false_eq_true]
            cases hL : lookup (transposeStepIdx i n false) INT_TO_STEPS <;> cases hB : basePcIdx i <;>
              cases hC : basePcIdx (transposeStepIdx i n false) <;> simp [hL]
  · obtain ⟨hP, hN⟩ := not_unison (q := quality) hs
    have hs' : ¬ (1 ≤ ((number.toNat : Nat) : Int) ∧ ((number.toNat : Nat) : Int) ≤ 7) := by omega
    obtain ⟨hP', hN'⟩ := not_unison (q := quality) hs'
    rw [showInt_natCast] at hP' hN'
    unfold transposeNoteObj transposeSpelling IntervalObj.semitones
    simp only [hP, hP', if_false, hN, hN']
    cases lookup (upper s) STEPS_TO_INT <;> rfl

/-- **one note, the call end to end**: `Interval(number, quality, direction)` accepted and 1 ≤ number ≤ 7 — then
    for every step name, alteration (also `None`) and octave the note does not raise, sounds the interval's
    semitones higher (lower) and stands number − 1 staff steps higher (lower) -/
theorem note_call_moved {number : Int} {quality direction : String} {iv : IntervalObj}
    (hc : mkInterval number quality direction = some iv) (h1 : 1 ≤ number) (h7 : number ≤ 7)
    (s : String) (hs : s ∈ C16.steps7) (al : Option Int) (o : Int) :
    ∃ s' al' o' sz m d, transposeNoteObj iv s al o = some (s', al', o') ∧ s' ∈ C16.steps7 ∧
      iv.semitones = some sz ∧
      spellingToMidi s al o = some m ∧
      spellingToMidi s' al' o' = some (if direction = "up" then m + sz else m - sz) ∧
      C16.staffPos s o = some d ∧
      C16.staffPos s' o' = some (if direction = "up" then d + (number - 1) else d - (number - 1)) := by
  obtain ⟨hcl, hd⟩ := accepted_simple_is_class (by rw [hc]; rfl) h1 h7
  obtain rfl := constructor_stores hc
  obtain ⟨s', al', o', sz, ht, hs', hz, ⟨m, hm, hm'⟩, ⟨d, hd0, hd'⟩⟩ :=
    C16.note_moved s hs _ hcl al o (direction == "up")
  have hnum : ((number.toNat : Nat) : Int) = number := by omega
  refine ⟨s', al', o', sz, m, d, ?_, hs', ?_, hm, ?_, hd0, ?_⟩
  · rw [note_obj_refines _ hd]; exact ht
  · unfold IntervalObj.semitones
    simp only
    rw [← hnum, showInt_natCast]
    exact hz
  · rw [hm']; simp
  · rw [hd']; simp [hnum]

/-- **zero, negative and compound numbers**: the constructor may accept them (M9 is "a major second"), but no note
    can be transposed by them — `_transpose_note_inplace` raises for every note -/
theorem sizeless_number_raises (iv : IntervalObj) (hn : ¬ (1 ≤ iv.number ∧ iv.number ≤ 7))
    (s : String) (al : Option Int) (o : Int) : transposeNoteObj iv s al o = none := by
  obtain ⟨hP, hN⟩ := not_unison (q := iv.quality) hn
  unfold transposeNoteObj IntervalObj.semitones
  simp only [hP, if_false, hN]
  cases lookup (upper s) STEPS_TO_INT <;> rfl

/-! ### the branch constants, regenerated by RUNNING the live functions (Gen/C16Consts.lean) -/

/-- **the constants the models write as literals are the ones the code has today**: the default direction is "up";
    of the 16 candidate strings the constructor accepts exactly "up" and "down"; the only interval class that
    `_transpose_note_inplace` treats as "nothing to do" is P1; `transpose_note` lets through exactly the alterations
    −2..2 and the numbers 1..7.  (Editing any of these in the source regenerates the file and this theorem fails.) -/
theorem regenerated_constants :
    INTERVAL_DEFAULT_DIRECTION = "up" ∧ INTERVAL_DIRECTIONS = ["up", "down"] ∧ UNISON_KEYS = ["P1"] ∧
    TN_ALTERS = [-2, -1, 0, 1, 2] ∧ TN_NUMBERS = [1, 2, 3, 4, 5, 6, 7] := by decide +kernel

/-- the early exit of the model (`key = "P1"`) is the regenerated one on every interval class -/
theorem unison_branch : ∀ k ∈ INTERVAL_TO_SEMITONES.map (·.1), UNISON_KEYS.contains k = decide (k = "P1") := by
  decide +kernel

/-- the guards of `transpose_note` in the model (`-3 < alter < 3`, `number < 8`) are the regenerated sets, for
    EVERY integer alteration and every number ≥ 1 -/
theorem transpose_note_guards (a : Int) (n : Nat) (hn : 1 ≤ n) :
    ((-3 < a ∧ a < 3) ↔ a ∈ TN_ALTERS) ∧ (n < 8 ↔ n ∈ TN_NUMBERS) := by
  simp only [TN_ALTERS, TN_NUMBERS, List.mem_cons, List.not_mem_nil, or_false]
  constructor <;> omega

/-- `Interval(number, quality)` is `Interval(number, quality, "up")` -/
theorem default_is_up (number : Int) (quality : String) :
    mkIntervalDefault number quality = mkInterval number quality "up" := rfl

/-- **`transpose_note` refuses every direction but "up"** and otherwise is the octave-free arithmetic that
    `octave_free_agrees` ties to the full transposition -/
theorem transpose_note_only_up (s : String) (a : Int) (iv : IntervalObj) :
    (iv.direction ≠ "up" → transposeNoteFn s a iv = none) ∧
    (iv.direction = "up" → transposeNoteFn s a iv = transposeNoteNoOctave s a iv.quality iv.number.toNat) := by
  unfold transposeNoteFn
  constructor <;> intro h <;> simp [h]

/-! ### the whole call on a heap -/

/-- **the call on a score or part, end to end**: if `transpose(arg, Interval(number, quality, direction))` returns,
    the argument is untouched and the result is new; if moreover 1 ≤ number ≤ 7 and the argument is valid, every
    pitched note of the result has moved by the interval (semitones and staff steps) and kept references and payload -/
theorem call_moves_every_note {h h' : Heap} {root r' : Nat} {number : Int} {quality direction : String}
    (e : transposeCall h root number quality direction = some (h', r')) :
    (r' = root + h.length ∧ h'.length = h.length + h.length ∧ ∀ a, a < h.length → h'[a]? = h[a]?) ∧
    (1 ≤ number → number ≤ 7 → C16Heap.ValidArg h root → ∀ a ∈ C16Heap.visited h root,
      ∃ s al o rs p s' al' o' sz m d, h[a]? = some (Cell.note s al o rs p) ∧
        h'[a + h.length]? = some (Cell.note s' al' o' (rs.map (· + h.length)) p) ∧
        intervalSemitones quality number.toNat = some sz ∧
        spellingToMidi s al o = some m ∧
        spellingToMidi s' al' o' = some (if direction = "up" then m + sz else m - sz) ∧
        C16.staffPos s o = some d ∧
        C16.staffPos s' o' = some (if direction = "up" then d + (number - 1) else d - (number - 1))) := by
  unfold transposeCall at e
  simp only [Option.bind_eq_some_iff] at e
  obtain ⟨iv, hc, e⟩ := e
  refine ⟨C16Heap.argument_untouched e, fun h1 h7 v a ha => ?_⟩
  obtain ⟨hcl, -⟩ := accepted_simple_is_class (by rw [hc]; rfl) h1 h7
  obtain rfl := constructor_stores hc
  have hnum : ((number.toNat : Nat) : Int) = number := by omega
  obtain ⟨s, al, o, rs, p, s', al', o', sz, m, d, x1, x2, x3, x4, x5, x6, x7⟩ :=
    C16Heap.every_note_moved e v hcl a ha
  refine ⟨s, al, o, rs, p, s', al', o', sz, m, d, x1, x2, x3, x4, ?_, x6, ?_⟩
  · rw [x5]; simp [ofObj]
  · rw [x7]; simp [ofObj, hnum]

/-- **the call does not raise** on a valid argument when the constructor accepts the interval and 1 ≤ number ≤ 7 —
    however often a note is listed -/
theorem call_total {h : Heap} {root : Nat} {number : Int} {quality direction : String}
    (hc : (mkInterval number quality direction).isSome) (h1 : 1 ≤ number) (h7 : number ≤ 7)
    (parts : ∀ p ∈ partsOf h root, ∃ os, h[p]? = some (Cell.part os))
    (steps : ∀ a ∈ C16Heap.visited h root, ∀ s al o rs p, h[a]? = some (Cell.note s al o rs p) → s ∈ C16.steps7) :
    (transposeCall h root number quality direction).isSome := by
  obtain ⟨hcl, -⟩ := accepted_simple_is_class hc h1 h7
  obtain ⟨iv, hiv⟩ := Option.isSome_iff_exists.mp hc
  obtain rfl := constructor_stores hiv
  unfold transposeCall
  rw [hiv]
  exact C16Heap.transpose_total_listed_anyhow parts steps hcl

/-- **the call raises for every other number** as soon as there is one pitched note to move (and returns the plain
    deep copy when there is none): compound intervals are not transposed wrongly, they are refused -/
theorem call_sizeless {h h' : Heap} {root r' : Nat} {number : Int} {quality direction : String}
    (hn : ¬ (1 ≤ number ∧ number ≤ 7))
    (e : transposeCall h root number quality direction = some (h', r')) :
    C16Heap.visited h root = [] ∧ (h', r') = deepcopy h root := by
  unfold transposeCall at e
  simp only [Option.bind_eq_some_iff] at e
  obtain ⟨iv, hc, e⟩ := e
  obtain ⟨-, hd⟩ := (constructor_accepts_iff number quality direction).mp (by rw [hc]; rfl)
  obtain rfl := constructor_stores hc
  refine C16Heap.sizeless_interval (fun c => ?_) e
  cases c with
  | note s a o rs p =>
    have := note_obj_refines ⟨number, quality, direction⟩ hd s a o
    rw [sizeless_number_raises _ hn] at this
    simp [Cell.transposed, ofObj, ← this]
  | score ps => rfl
  | part os => rfl
  | other rs p => rfl

/-- the run the driver answers with is the call: same result, the heap kept on a raise -/
theorem callRun_is_call (h : Heap) (root : Nat) (number : Int) (quality direction : String) :
    transposeCall h root number quality direction =
      (transposeCallRun h root number quality direction).2.map fun r =>
        ((transposeCallRun h root number quality direction).1, r) := by
  unfold transposeCall transposeCallRun
  cases mkInterval number quality direction with
  | none => rfl
  | some iv => exact C16Heap.run_is_transpose h root (ofObj iv)

/-- **the argument itself is not modified by ANY call** — accepted or refused interval, with or without a size, valid
    or invalid argument, returning or raising: no hypothesis -/
theorem call_never_touches_the_argument (h : Heap) (root : Nat) (number : Int) (quality direction : String) :
    ∀ a, a < h.length → (transposeCallRun h root number quality direction).1[a]? = h[a]? := by
  intro a ha
  unfold transposeCallRun
  cases mkInterval number quality direction with
  | none => rfl
  | some iv => exact C16Heap.argument_untouched_even_if_raised h root (ofObj iv) a ha

/-- **up and then down (down and then up) by the same interval restores the original spelling** — the two calls as
    the user writes them: same number and quality, directions "up" and "down" in either order -/
theorem call_there_and_back {h h' h'' : Heap} {root r' r'' : Nat} {number : Int} {quality d1 d2 : String}
    (hd : (d1 = "up" ∧ d2 = "down") ∨ (d1 = "down" ∧ d2 = "up"))
    (e1 : transposeCall h root number quality d1 = some (h', r'))
    (e2 : transposeCall h' r' number quality d2 = some (h'', r''))
    (h1 : 1 ≤ number) (h7 : number ≤ 7) (v : C16Heap.ValidArg h root) (a : Nat) (ha : a ∈ C16Heap.visited h root) :
    ∃ s al o rs p al'', h[a]? = some (Cell.note s al o rs p) ∧
      h''[a + h.length + h'.length]? =
        some (Cell.note s al'' o ((rs.map (· + h.length)).map (· + h'.length)) p) ∧
      al''.getD 0 = al.getD 0 := by
  unfold transposeCall at e1 e2
  simp only [Option.bind_eq_some_iff] at e1 e2
  obtain ⟨iv1, hc1, e1⟩ := e1
  obtain ⟨iv2, hc2, e2⟩ := e2
  obtain ⟨hcl, -⟩ := accepted_simple_is_class (by rw [hc1]; rfl) h1 h7
  obtain rfl := constructor_stores hc1
  obtain rfl := constructor_stores hc2
  have hflip : (d2 == "up") = !(d1 == "up") := by
    rcases hd with ⟨rfl, rfl⟩ | ⟨rfl, rfl⟩ <;> decide
  simp only [ofObj] at e1 e2
  rw [hflip] at e2
  exact C16Heap.up_then_down_restores e1 e2 v hcl a ha

/-- non-vacuity: M9 is accepted and refused by the note; M2 down moves C4 to B♭3; "P-6" passes `validate` -/
example : (mkInterval 9 "M" "up").isSome ∧ transposeNoteCall 9 "M" "up" "C" none 4 = .keyError ∧
    transposeNoteCall 2 "M" "down" "C" none 4 = .moved "B" (some (-1)) 3 ∧
    transposeNoteCall (-6) "P" "up" "C" none 4 = .keyError ∧
    transposeNoteCall 1 "M" "up" "C" none 4 = .assertion ∧
    transposeNoteCall 2 "M" "Up" "C" none 4 = .assertion := by decide +kernel

example : transposeCall C16Heap.demo 0 9 "M" "up" = none ∧
    (transposeCall C16Heap.demo 0 2 "M" "up").isSome := by decide +kernel

end C16Call
