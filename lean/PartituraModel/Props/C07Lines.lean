/-
C07 — whole lines, every generated template: lines whose fields depend on each other (the value codec
of info / meta / scoreprop is chosen by the Attribute; NoteName / Modifier / Octave of a score note or a
pre-1.0 performed note are post-processed together), and composite lines with a STRUCTURAL condition
(decided for the whole generated table) replacing the per-line `noEarly` check.
Helper lemmas: Proofs/C07Full.lean, C07Pitch.lean, C07Comp.lean, C07Early.lean.
-/
import PartituraModel.Model.MatchLine
import PartituraModel.Gen.MatchTemplates
import PartituraModel.Proofs.C07Full
import PartituraModel.Proofs.C07Pitch
import PartituraModel.Proofs.C07Comp
import PartituraModel.Proofs.C07Early
import PartituraModel.Props.C07
import PartituraModel.Props.C07Codecs

namespace C07
open Model Model.Template Model.MatchCodec Model.MatchLine C07Line C07Comp

-- ---------------------------------------------------------------- single-component lines

/-- the dependencies between the fields of a template are the modelled ones (decidable): either no codec
    depends on the Attribute, or there is no post-processing and `Attribute` is a plain string field -/
def DepsOK (t : Template) : Prop := depsOK t = true

/-- every generated template has only the modelled dependencies -/
theorem deps_ok : ∀ t ∈ Gen.matchTemplates, DepsOK t := by
  unfold DepsOK
  decide +kernel

/-- **parse (format x) = x, and formatting is a fixpoint, for EVERY well-formed template** - the
    dependencies between fields stated explicitly:

    * the codec of a field is `codecFor t attr f`: the field table's own pair, or - for the Value of an
      info / meta / scoreprop line - the pair the class's table lists under the line's Attribute
      (`attr = attrOf t vals` when writing, the text of the Attribute group when reading; `DepsOK` makes
      the two agree);
    * `raws` are the values the interpreters return and `applyPost t raws = vals` is the class's
      post-processing (`ensure_pitch_spelling_format` on NoteName / Modifier / Octave and, for a pre-1.0
      performed note, the MIDI pitch computation; the identity for all other lines).

    If every value is written to a text its selected interpreter reads back as the raw value (`RTA`), the
    texts satisfy the side condition `FieldsOKGen` for what follows the line (`tail`), and no anchored
    match starts in what precedes it (`pre`, empty for a line of its own), then the line is written, the
    search over `pre ++ line ++ tail` returns `vals`, and writing those again gives the identical text. -/
theorem line_roundtrip (t : Template) (vals raws : List Val) (es : List (String × Str)) (pre tail : List Char)
    (ht : TemplateOK t) (hd : DepsOK t)
    (hrt : RTA t (attrOf t vals) t.fields vals raws es) (hpost : applyPost t raws = .ok vals)
    (hv : FieldsOKGen t (textOf es) tail)
    (hpre : noEarly t.pat pre (render t.out (textOf es) ++ tail) = true) :
    ∃ line, formatT t vals = some line ∧ parseT t (pre ++ (line ++ tail)) = .ok vals ∧
      ((parseT t (pre ++ (line ++ tail))).toOption.bind (formatT t)) = some line := by
  obtain ⟨h1, h2⟩ := line_roundtrip_gen t vals raws es pre tail ht hd hrt hpost hv hpre
  exact ⟨_, h1, h2, by rw [h2]; exact h1⟩

/-- the same for the generated table (well-formedness and dependencies discharged by `templates_ok`,
    `deps_ok`), for a line of its own followed by arbitrary text -/
theorem line_roundtrip_generated (t : Template) (hmem : t ∈ Gen.matchTemplates) (vals raws : List Val)
    (es : List (String × Str)) (tail : List Char)
    (hrt : RTA t (attrOf t vals) t.fields vals raws es) (hpost : applyPost t raws = .ok vals)
    (hv : FieldsOKGen t (textOf es) tail) :
    ∃ line, formatT t vals = some line ∧ parseT t (line ++ tail) = .ok vals ∧
      ((parseT t (line ++ tail)).toOption.bind (formatT t)) = some line := by
  have := line_roundtrip t vals raws es [] tail (templates_ok t hmem) (deps_ok t hmem) hrt hpost hv (noEarly_nil _ _)
  simpa using this

instance (t : Template) (v : String → List Char) (tail : List Char) : Decidable (FieldsOKGen t v tail) :=
  inferInstanceAs (Decidable (_ = true))

-- non-vacuity (Attribute-dependent codec): a 1.0.0 key signature line and a 0.5.0 info line
def exKeyVals : List Val := [.str "keySignature".toList, .key ⟨⟨-2, .minor, none⟩, []⟩, .int 3, .int 1,
  .frac ⟨1, 8, none, none⟩, .dec (5 / 2)]
def exKeyTexts : List (String × Str) := [("Attribute", "keySignature".toList), ("Value", "Gm".toList),
  ("Measure", "3".toList), ("Beat", "1".toList), ("Offset", "1/8".toList), ("TimeInBeats", "2.5000".toList)]

example : ∃ t ∈ Gen.matchTemplates, t.name = "v1.0.0/scoreprop" ∧
    rtaB t (attrOf t exKeyVals) t.fields exKeyVals exKeyVals exKeyTexts = true ∧
    (match applyPost t exKeyVals with | .ok v => v == exKeyVals | .error _ => false) = true ∧
    FieldsOKGen t (textOf exKeyTexts) [] ∧
    formatT t exKeyVals = some "scoreprop(keySignature,Gm,3:1,1/8,2.5000).".toList := by
  decide +kernel

def exTsVals : List Val := [.str "timeSignature".toList, .tsig ⟨6, 8, []⟩]
def exTsTexts : List (String × Str) := [("Attribute", "timeSignature".toList), ("Value", "[6/8]".toList)]

example : ∃ t ∈ Gen.matchTemplates, t.name = "v0.5.0/info" ∧
    rtaB t (attrOf t exTsVals) t.fields exTsVals exTsVals exTsTexts = true ∧ FieldsOKGen t (textOf exTsTexts) [] ∧
    formatT t exTsVals = some "info(timeSignature,[6/8]).".toList := by
  decide +kernel

-- ---------------------------------------------------------------- pitch post-processing

/-- every generated template with pitch post-processing (score note of every version, performed note of
    versions < 1.0.0) has the pitch layout, and for EVERY step (and `R` for a rest in a score note) and
    every accidental (None, -2 … 2) the texts its formatters write are read back as that step and
    accidental by `ensure_pitch_spelling_format`; whole table, by kernel evaluation -/
theorem pitch_ok : ∀ t ∈ Gen.matchTemplates, t.post ≠ Post.none →
    pitchLayout t = true ∧ ∀ step ∈ stepsOf t.post, ∀ alter ∈ alters,
      pitchTextOK t step alter = true ∧ (t.post = Post.pitchSpellingNote → midiOK step alter = true) := by
  decide +kernel

example : (Gen.matchTemplates.filter (fun t => t.post != Post.none)).length = 11 := by decide +kernel

/-- **score notes and pre-1.0 performed notes**: for every generated template with pitch post-processing,
    every step, every accidental and EVERY octave (any integer; None for a rest or an unpitched score
    note), if the other fields are written and read back one by one (`RTP`: the three pitch fields need
    only be written) and the texts satisfy the side condition, the line is written, found behind `pre`,
    interpreted and post-processed to exactly `x, step, alter, octave, rest…`, and written again
    identically -/
theorem pitch_line_roundtrip (t : Template) (hmem : t ∈ Gen.matchTemplates) (hp : t.post ≠ Post.none)
    (v0 : Val) (step : Str) (alter octave : Option Int) (rest : List Val)
    (es : List (String × Str)) (pre tail : List Char)
    (hstep : step ∈ stepsOf t.post) (halter : alter ∈ alters)
    (hoct : t.post = Post.pitchSpellingNote → octave.isSome = true)
    (hrt : RTP t.fields (v0 :: .str step :: optInt alter :: optInt octave :: rest) es)
    (hv : FieldsOKGen t (textOf es) tail)
    (hpre : noEarly t.pat pre (render t.out (textOf es) ++ tail) = true) :
    ∃ line, formatT t (v0 :: .str step :: optInt alter :: optInt octave :: rest) = some line ∧
      parseT t (pre ++ (line ++ tail)) = .ok (v0 :: .str step :: optInt alter :: optInt octave :: rest) ∧
      ((parseT t (pre ++ (line ++ tail))).toOption.bind (formatT t)) = some line := by
  obtain ⟨hl, hall⟩ := pitch_ok t hmem hp
  obtain ⟨htext, hmid⟩ := hall step hstep alter halter
  obtain ⟨h1, h2⟩ := pitch_line t (templates_ok t hmem) hp hl v0 step alter octave rest es pre tail htext
    (fun hn => ⟨hoct hn, hmid hn⟩) hrt hv hpre
  exact ⟨_, h1, h2, by rw [h2]; exact h1⟩

-- non-vacuity: a 0.5.0 score note (C double-flat, octave -1) in front of its performed note
def exSnoteTexts : List (String × Str) := [("Anchor", "1-1".toList), ("NoteName", "C".toList), ("Modifier", "bb".toList),
  ("Octave", "-1".toList), ("Measure", "1".toList), ("Beat", "2".toList), ("Offset", "1/8".toList),
  ("Duration", "1/4/3".toList), ("OnsetInBeats", "0.5".toList), ("OffsetInBeats", "1.25".toList),
  ("ScoreAttributesList", "staff1,s".toList)]

example : ∃ t ∈ Gen.matchTemplates, t.name = "v0.5.0/snote" ∧ t.post ≠ Post.none ∧
    "C".toList ∈ stepsOf t.post ∧ some (-2 : Int) ∈ alters ∧
    FieldsOKGen t (textOf exSnoteTexts) "-note(n1,[C,b],4,100,200,210,60).".toList ∧
    render t.out (textOf exSnoteTexts) = "snote(1-1,[C,bb],-1,1:2,1/8,1/4/3,0.5,1.25,[staff1,s])".toList := by
  decide +kernel

-- ---------------------------------------------------------------- lines of admissible values

/-- every field value is admissible (`Adm`, Props/C07Codecs.lean) for the codec selected for its field -/
def AdmFields (t : Template) (attr : Option Str) : List (String × Enc × Dec) → List Val → Prop
  | [], [] => True
  | f :: fs, v :: vs => (∃ c, codecFor t attr f = some c ∧ Adm c.1 c.2 v) ∧ AdmFields t attr fs vs
  | _, _ => False

private theorem rta_of_adm (t : Template) (attr : Option Str) : ∀ (fs : List (String × Enc × Dec)) (vs : List Val),
    AdmFields t attr fs vs → ∃ es, RTA t attr fs vs vs es := by
  intro fs
  induction fs with
  | nil => intro vs h; cases vs with
    | nil => exact ⟨[], trivial⟩
    | cons v vs => simp [AdmFields] at h
  | cons f fs ih =>
    intro vs h
    cases vs with
    | nil => simp [AdmFields] at h
    | cons v vs =>
      obtain ⟨⟨c, hc, ha⟩, hr⟩ := h
      obtain ⟨text, he, hd⟩ := codec_roundtrip c.1 c.2 v ha
      obtain ⟨es, hes⟩ := ih vs hr
      exact ⟨(f.1, text) :: es, rfl, ⟨c, hc, he, hd⟩, hes⟩

/-- **every generated line class without pitch post-processing, every admissible field assignment**
    (info, meta, scoreprop with the codec chosen by the Attribute; section, stime, ptime, the 1.0.0
    performed note, pedal lines, ornament / trill heads): the fields are written to texts `es`, and
    whenever these satisfy the side condition for what follows (and nothing matches early in what
    precedes) the line is written, parsed back to exactly `vals`, and written again identically -/
theorem line_roundtrip_adm (t : Template) (hmem : t ∈ Gen.matchTemplates) (hp : t.post = Post.none) (vals : List Val)
    (hadm : AdmFields t (attrOf t vals) t.fields vals) :
    ∃ es, encodeFields t (attrOf t vals) t.fields vals = some es ∧
      ∀ pre tail, FieldsOKGen t (textOf es) tail → noEarly t.pat pre (render t.out (textOf es) ++ tail) = true →
        ∃ line, formatT t vals = some line ∧ parseT t (pre ++ (line ++ tail)) = .ok vals ∧
          ((parseT t (pre ++ (line ++ tail))).toOption.bind (formatT t)) = some line := by
  obtain ⟨es, hes⟩ := rta_of_adm t _ t.fields vals hadm
  refine ⟨es, encodeFields_of_RTA t _ _ _ _ _ hes, ?_⟩
  intro pre tail hv hpre
  have hpost : applyPost t vals = .ok vals := by
    unfold applyPost
    rw [hp]
    rfl
  exact line_roundtrip t vals vals es pre tail (templates_ok t hmem) (deps_ok t hmem) hes hpost hv hpre

private theorem rtp_of_rta (t : Template) (a : Option Str) : ∀ (fs : List (String × Enc × Dec)) (vs : List Val)
    (es : List (String × Str)), fs.all plainField = true → RTA t a fs vs vs es → RTP fs vs es := by
  intro fs
  induction fs with
  | nil => intro vs es _ h; cases vs <;> cases es <;> simp_all [RTA, RTP]
  | cons f fs ih =>
    intro vs es hp h
    cases vs with
    | nil => simp [RTA] at h
    | cons v vs =>
      cases es with
      | nil => simp [RTA] at h
      | cons e es =>
        simp only [List.all_cons, Bool.and_eq_true] at hp
        obtain ⟨hn, ⟨c, hc, he, hd⟩, hr⟩ := h
        rw [codecFor_plain t a f hp.1] at hc
        injection hc with hc
        subst hc
        exact ⟨hn, he, Or.inr hd, ih vs es hp.2 hr⟩

/-- **score notes and pre-1.0 performed notes, every admissible field assignment**: for every generated
    template with pitch post-processing, every step / accidental / octave and admissible values of all the
    other fields, the fields are written to texts `es` (`RTP`: each by its own formatter), and whenever these satisfy the side condition the
    line is written, parsed back (search, interpreters, post-processing) to exactly the values, and written
    again identically -/
theorem pitch_line_roundtrip_adm (t : Template) (hmem : t ∈ Gen.matchTemplates) (hp : t.post ≠ Post.none)
    (v0 : Val) (step : Str) (alter octave : Option Int) (rest : List Val)
    (hstep : step ∈ stepsOf t.post) (halter : alter ∈ alters)
    (hoct : t.post = Post.pitchSpellingNote → octave.isSome = true)
    (hadm : match t.fields with
      | f0 :: _ :: _ :: _ :: fr => AdmFields t none (f0 :: fr) (v0 :: rest)
      | _ => False) :
    ∃ es, RTP t.fields (v0 :: .str step :: optInt alter :: optInt octave :: rest) es ∧
     ∀ pre tail, FieldsOKGen t (textOf es) tail → noEarly t.pat pre (render t.out (textOf es) ++ tail) = true →
      ∃ line, formatT t (v0 :: .str step :: optInt alter :: optInt octave :: rest) = some line ∧
        parseT t (pre ++ (line ++ tail)) = .ok (v0 :: .str step :: optInt alter :: optInt octave :: rest) ∧
        ((parseT t (pre ++ (line ++ tail))).toOption.bind (formatT t)) = some line := by
  obtain ⟨hl, hall⟩ := pitch_ok t hmem hp
  obtain ⟨htext, _⟩ := hall step hstep alter halter
  have hl' := hl
  unfold pitchLayout at hl
  split at hl
  · rename_i f0 fN fM fO fr hf
    rw [hf] at hadm
    simp only at hadm
    simp only [Bool.and_eq_true, Bool.not_eq_true', beq_iff_eq] at hl
    obtain ⟨⟨⟨⟨⟨⟨⟨⟨⟨⟨⟨_, hp0⟩, hN⟩, _⟩, _⟩, hM⟩, _⟩, _⟩, hO⟩, hOe⟩, _⟩, hr⟩ := hl
    have hplain : (f0 :: fr).all plainField = true := by
      simp only [List.all_cons, hp0, Bool.true_and]
      rw [List.all_eq_true] at hr ⊢
      intro f hfm
      have := hr f hfm
      simp only [Bool.and_eq_true] at this
      exact this.2
    obtain ⟨es0, hes0⟩ := rta_of_adm t none (f0 :: fr) (v0 :: rest) hadm
    have hrtp := rtp_of_rta t none _ _ _ hplain hes0
    cases es0 with
    | nil => simp [RTP] at hrtp
    | cons e0 esr =>
      obtain ⟨hn0, he0, hd0, hrr⟩ := hrtp
      unfold pitchTextOK at htext
      rw [hf] at htext
      simp only at htext
      cases h1 : encode fN.2.1 (.str step) with
      | none => simp [h1] at htext
      | some x1 =>
        cases h2 : encode fM.2.1 (optInt alter) with
        | none => simp [h1, h2] at htext
        | some x2 =>
          have hrtp' : RTP t.fields (v0 :: .str step :: optInt alter :: optInt octave :: rest)
              (e0 :: (fN.1, x1) :: (fM.1, x2) :: (fO.1, encInt octave) :: esr) := by
            rw [hf]
            refine ⟨hn0, he0, hd0, rfl, h1, Or.inl (by rw [hN]; simp [pitchNames]), rfl, h2,
              Or.inl (by rw [hM]; simp [pitchNames]), rfl, ?_, Or.inl (by rw [hO]; simp [pitchNames]), hrr⟩
            rw [hOe]
            cases octave <;> rfl
          refine ⟨e0 :: (fN.1, x1) :: (fM.1, x2) :: (fO.1, encInt octave) :: esr, hrtp', ?_⟩
          intro pre tail hv hpre
          exact pitch_line_roundtrip t hmem hp v0 step alter octave rest _ pre tail hstep halter hoct hrtp' hv hpre
  · simp at hl

-- non-vacuity: the fields of a pedal line are admissible
example : ∃ t ∈ Gen.matchTemplates, t.name = "v0.1.0/sustain" ∧ t.post = Post.none ∧
    AdmFields t (attrOf t [.int 10, .int 64]) t.fields [.int 10, .int 64] :=
  ⟨Gen.matchTemplates[3]'(by decide +kernel), List.getElem_mem _, by decide +kernel, by decide +kernel,
    ⟨⟨(.int, .int), by decide +kernel, trivial⟩, ⟨(.int, .int), by decide +kernel, trivial⟩, trivial⟩⟩

-- ---------------------------------------------------------------- composite lines

/-- the four shapes of composite lines and their structural check -/
def shapeNames (ts : List Template) (c : Composite) : Option (List String) :=
  match c.parts with
  | [.tpl x, .lit s, .tpl y] =>
    (match findTpl ts x, findTpl ts y with
     | some a, some b => earlyNames (a.out ++ [.lit s]) b
     | _, _ => none)
  | [.tpl x, .tpl y] =>
    (match findTpl ts x, findTpl ts y with
     | some a, some b => earlyNames a.out b
     | _, _ => none)
  | [.tpl x, .lit _] => (findTpl ts x).map fun _ => []
  | [.lit s, .tpl y] => (findTpl ts y).bind fun b => earlyNames [.lit s] b
  | _ => none

/-- **every generated composite line passes the structural check** (whole table, by kernel evaluation):
    it has one of the four shapes component-literal-component, component-component, component-literal,
    literal-component, and in front of its last component no anchored match of that component's pattern
    can start - `note(` inside `snote(` is refuted by the comma count, every other offset by a clash of
    known characters or by the missing `(` -/
theorem composites_struct_ok : ∀ c ∈ Gen.matchComposites, (shapeNames Gen.matchTemplates c).isSome = true := by
  decide +kernel

/-- the fields whose texts must hold no separator, for a note pair of 0.5.0 / 1.0.0 / 0.1.0: the score-note
    fields up to the piece in which the performed note's `)` would have to stand -/
example : (Gen.matchComposites.filter (fun c => c.kind == "snote_note")).map
      (fun c => (c.name, shapeNames Gen.matchTemplates c)) =
    [("v0.1.0/snote_note", some ["Anchor", "NoteName", "Modifier", "Octave", "Measure", "Beat", "Offset", "Duration"]),
     ("v0.2.0/snote_note", some ["Anchor", "NoteName", "Modifier", "Octave", "Measure", "Beat", "Offset", "Duration"]),
     ("v0.3.0/snote_note", some ["Anchor", "NoteName", "Modifier", "Octave", "Measure", "Beat", "Offset", "Duration", "OnsetInBeats"]),
     ("v0.4.0/snote_note", some ["Anchor", "NoteName", "Modifier", "Octave", "Measure", "Beat", "Offset", "Duration", "OnsetInBeats"]),
     ("v0.5.0/snote_note", some ["Anchor", "NoteName", "Modifier", "Octave", "Measure", "Beat", "Offset", "Duration", "OnsetInBeats"]),
     ("v1.0.0/snote_note", some ["Anchor", "NoteName", "Modifier", "Octave", "Measure", "Beat", "Offset", "Duration"])] := by
  decide +kernel

private theorem idents_ok (c : Composite) (hc : c ∈ Gen.matchComposites) :
    c.idents.all (fun i => c.parts.contains (.lit i)) = true := by
  have := composites_ok c hc
  unfold compositeOK at this
  simp only [Bool.and_eq_true] at this
  exact this.2

/-- a component's own round trip, in the form the line theorems (`line_roundtrip`, `pitch_line_roundtrip`)
    deliver it: written as `render t.out v`; found behind any `pre` in which no anchored match starts -/
def CompRT (t : Template) (vals : List Val) (v : String → List Char) (tail : List Char) : Prop :=
  formatT t vals = some (render t.out v) ∧
    ∀ pre, noEarly t.pat pre (render t.out v ++ tail) = true → parseT t (pre ++ (render t.out v ++ tail)) = .ok vals

/-- **component - literal - component** (`snote(…)-note(…).`, `stime(…)-ptime(…).`): the round trips of
    the two components plus the structural check give the round trip of the composite line - the second
    component's search over the whole line cannot stop in front of it when the first component's field
    texts hold no `(` and the walked ones no `,` `)` -/
theorem composite_pair (c : Composite) (hc : c ∈ Gen.matchComposites) (x y sep : String) (a b : Template)
    (names : List String) (hparts : c.parts = [.tpl x, .lit sep, .tpl y])
    (hfa : findTpl Gen.matchTemplates x = some a) (hfb : findTpl Gen.matchTemplates y = some b)
    (hn : earlyNames (a.out ++ [.lit sep]) b = some names)
    (valsA valsB : List Val) (vA vB : String → List Char) (tail : List Char)
    (hA : CompRT a valsA vA (sep.toList ++ (render b.out vB ++ tail))) (hB : CompRT b valsB vB tail)
    (hm : ∀ n ∈ symFields (flat a.out), marker ∉ vA n) (hclean : ∀ n ∈ names, CleanText closer (vA n)) :
    ∃ line, formatC Gen.matchTemplates c (valsA ++ valsB) = some line ∧
      parseC Gen.matchTemplates c (line ++ tail) = .ok (valsA ++ valsB) ∧
      ((parseC Gen.matchTemplates c (line ++ tail)).toOption.bind (formatC Gen.matchTemplates c)) = some line := by
  have hne := early_of_names (a.out ++ [.lit sep]) b names vA (render b.out vB ++ tail) hn
    (by
      intro n hn'
      apply hm n
      have : flat (a.out ++ [OSeg.lit sep]) = flat a.out ++ sep.toList.map Sym.ch := by
        induction a.out with
        | nil => simp [flat]
        | cons s o ih => cases s <;> simp [flat, ih]
      rw [this] at hn'
      have h2 : ∀ (l : List Char) (r : List Sym), symFields (r ++ l.map Sym.ch) = symFields r := by
        intro l r
        induction r with
        | nil => induction l with
          | nil => rfl
          | cons c l ih => simpa [symFields] using ih
        | cons s r ih => cases s <;> simp [symFields, ih]
      rw [h2] at hn'
      exact hn') hclean
  rw [render_append] at hne
  simp only [render, List.append_nil] at hne
  have hpB := hB.2 (render a.out vA ++ sep.toList) hne
  have hpA := hA.2 [] (noEarly_nil _ _)
  have hparts' : PartsOK Gen.matchTemplates [] c.parts [valsA, [], valsB]
      [render a.out vA, sep.toList, render b.out vB] tail := by
    rw [hparts]
    refine ⟨⟨a, hfa, formatT_length _ _ _ hA.1, hA.1, ?_⟩, ⟨rfl, rfl⟩, ⟨b, hfb, formatT_length _ _ _ hB.1, hB.1, ?_⟩, trivial⟩
    · simpa using hpA
    · simpa using hpB
  obtain ⟨h1, h2⟩ := composite_ok Gen.matchTemplates c _ _ tail (idents_ok c hc) hparts'
  simp only [List.flatten_cons, List.flatten_nil, List.nil_append, List.append_nil] at h1 h2
  exact ⟨_, h1, h2, by rw [h2]; exact h1⟩

/-- **component - component** (`trill(…)-note(…).`, `ornament(…)-note(…).`) -/
theorem composite_pair0 (c : Composite) (hc : c ∈ Gen.matchComposites) (x y : String) (a b : Template)
    (names : List String) (hparts : c.parts = [.tpl x, .tpl y])
    (hfa : findTpl Gen.matchTemplates x = some a) (hfb : findTpl Gen.matchTemplates y = some b)
    (hn : earlyNames a.out b = some names)
    (valsA valsB : List Val) (vA vB : String → List Char) (tail : List Char)
    (hA : CompRT a valsA vA (render b.out vB ++ tail)) (hB : CompRT b valsB vB tail)
    (hm : ∀ n ∈ symFields (flat a.out), marker ∉ vA n) (hclean : ∀ n ∈ names, CleanText closer (vA n)) :
    ∃ line, formatC Gen.matchTemplates c (valsA ++ valsB) = some line ∧
      parseC Gen.matchTemplates c (line ++ tail) = .ok (valsA ++ valsB) ∧
      ((parseC Gen.matchTemplates c (line ++ tail)).toOption.bind (formatC Gen.matchTemplates c)) = some line := by
  have hne := early_of_names a.out b names vA (render b.out vB ++ tail) hn hm hclean
  have hpB := hB.2 (render a.out vA) hne
  have hpA := hA.2 [] (noEarly_nil _ _)
  have hparts' : PartsOK Gen.matchTemplates [] c.parts [valsA, valsB] [render a.out vA, render b.out vB] tail := by
    rw [hparts]
    refine ⟨⟨a, hfa, formatT_length _ _ _ hA.1, hA.1, ?_⟩, ⟨b, hfb, formatT_length _ _ _ hB.1, hB.1, ?_⟩, trivial⟩
    · simpa using hpA
    · simpa using hpB
  obtain ⟨h1, h2⟩ := composite_ok Gen.matchTemplates c _ _ tail (idents_ok c hc) hparts'
  simp only [List.flatten_cons, List.flatten_nil, List.append_nil] at h1 h2
  exact ⟨_, h1, h2, by rw [h2]; exact h1⟩

/-- **component - literal** (`snote(…)-deletion.` and its pre-1.0 variants): the identifier literal is
    found because it is written, the score note is found at offset 0 -/
theorem composite_suffix (c : Composite) (hc : c ∈ Gen.matchComposites) (x lit : String) (a : Template)
    (hparts : c.parts = [.tpl x, .lit lit]) (hfa : findTpl Gen.matchTemplates x = some a)
    (valsA : List Val) (vA : String → List Char) (tail : List Char)
    (hA : CompRT a valsA vA (lit.toList ++ tail)) :
    ∃ line, formatC Gen.matchTemplates c valsA = some line ∧
      parseC Gen.matchTemplates c (line ++ tail) = .ok valsA ∧
      ((parseC Gen.matchTemplates c (line ++ tail)).toOption.bind (formatC Gen.matchTemplates c)) = some line := by
  have hpA := hA.2 [] (noEarly_nil _ _)
  have hparts' : PartsOK Gen.matchTemplates [] c.parts [valsA, []] [render a.out vA, lit.toList] tail := by
    rw [hparts]
    refine ⟨⟨a, hfa, formatT_length _ _ _ hA.1, hA.1, ?_⟩, ⟨rfl, rfl⟩, trivial⟩
    simpa using hpA
  obtain ⟨h1, h2⟩ := composite_ok Gen.matchTemplates c _ _ tail (idents_ok c hc) hparts'
  simp only [List.flatten_cons, List.flatten_nil, List.append_nil] at h1 h2
  exact ⟨_, h1, h2, by rw [h2]; exact h1⟩

/-- **literal - component** (`insertion-note(…).` and its pre-1.0 variants): purely structural - no
    condition on any field text -/
theorem composite_prefix (c : Composite) (hc : c ∈ Gen.matchComposites) (y lit : String) (b : Template)
    (names : List String) (hparts : c.parts = [.lit lit, .tpl y]) (hfb : findTpl Gen.matchTemplates y = some b)
    (hn : earlyNames [.lit lit] b = some names)
    (valsB : List Val) (vB : String → List Char) (tail : List Char) (hB : CompRT b valsB vB tail) :
    ∃ line, formatC Gen.matchTemplates c valsB = some line ∧
      parseC Gen.matchTemplates c (line ++ tail) = .ok valsB ∧
      ((parseC Gen.matchTemplates c (line ++ tail)).toOption.bind (formatC Gen.matchTemplates c)) = some line := by
  have hsf : symFields (flat [OSeg.lit lit]) = [] := by
    simp only [flat, List.append_nil]
    induction lit.toList with
    | nil => rfl
    | cons c l ih => simpa [symFields] using ih
  -- the text in front holds no field: the check can be instantiated with empty field texts
  have hne := early_of_names [.lit lit] b names (fun _ => []) (render b.out vB ++ tail) hn
    (by rw [hsf]; intro n h; simp at h) (by intro n _ d hd; simp at hd)
  simp only [render, List.append_nil] at hne
  have hpB := hB.2 lit.toList hne
  have hparts' : PartsOK Gen.matchTemplates [] c.parts [[], valsB] [lit.toList, render b.out vB] tail := by
    rw [hparts]
    refine ⟨⟨rfl, rfl⟩, ⟨b, hfb, formatT_length _ _ _ hB.1, hB.1, ?_⟩, trivial⟩
    simpa using hpB
  obtain ⟨h1, h2⟩ := composite_ok Gen.matchTemplates c _ _ tail (idents_ok c hc) hparts'
  simp only [List.flatten_cons, List.flatten_nil, List.nil_append, List.append_nil] at h1 h2
  exact ⟨_, h1, h2, by rw [h2]; exact h1⟩

-- non-vacuity, end to end: a 0.5.0 note pair is written and read back through the composite functions
example : ∃ c ∈ Gen.matchComposites, c.name = "v0.5.0/snote_note" ∧
    (parseC Gen.matchTemplates c "snote(1-1,[C,bb],-1,1:2,1/8,1/4/3,0.5,1.25,[staff1,s])-note(n1,[C,b],4,100,200,210,60).".toList).toOption.bind
      (formatC Gen.matchTemplates c)
      = some "snote(1-1,[C,bb],-1,1:2,1/8,1/4/3,0.5,1.25,[staff1,s])-note(n1,[C,b],4,100,200,210,60).".toList := by
  decide +kernel

-- non-vacuity: the shapes occur (6 + 1 pairs with a literal, 5 + 1 without, 15 + 1 suffix, 15 + 1 prefix lines)
example : (Gen.matchComposites.filter (fun c => match c.parts with | [.tpl _, .lit _, .tpl _] => true | _ => false)).length = 7
    ∧ (Gen.matchComposites.filter (fun c => match c.parts with | [.tpl _, .tpl _] => true | _ => false)).length = 6
    ∧ (Gen.matchComposites.filter (fun c => match c.parts with | [.tpl _, .lit _] => true | _ => false)).length = 16
    ∧ (Gen.matchComposites.filter (fun c => match c.parts with | [.lit _, .tpl _] => true | _ => false)).length = 16 := by
  decide +kernel

end C07
