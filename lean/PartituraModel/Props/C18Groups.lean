/-
C18 — round 6: the tempo curves on a CALLER-GIVEN `unique_onset_idxs` (until now modelled and compared, but covered by
no theorem: positivity was proved for the built-in grouping only).

* `GoodGroups`            the condition on a grouping: at least one group, no empty group, members are notes of the table,
                          mean score onsets strictly increasing in the order the groups are listed
* `builtin_groups_good`   the grouping the codec computes itself satisfies it (so the theorems below contain the old ones)
* `picked_groups_good`    for index lists handed to `tempo_by_average(…, unique_onset_idxs=idx)` membership is automatic:
                          only "non-empty groups, increasing mean onsets" is asked of the caller
* `tempo_average_groups_pos`, `tempo_average_groups_at_pos`, `tempo_derivative_groups_pos`
                          on every good grouping both curves are defined and POSITIVE, one value per group (default
                          sampling) or per sampling point (any `input_onsets`), whatever the performed onsets are
* `groups_order_needed`   the condition cannot be dropped: the same groups listed backwards give negative beat periods
-/
import PartituraModel.Props.C18Ext
import PartituraModel.Proofs.C18Groups

namespace C18
open Model Model.Codec C18P

theorem builtin_groups_good (ns : List MNote) (hne : ns ≠ []) : GoodGroups ns (encGroups ns) :=
  goodGroups_enc ns hne

/-- index lists as the caller passes them: every index inside the table (else `pickGroups` is an `IndexError`),
    no empty list, at least one list, mean score onsets increasing -/
theorem picked_groups_good (ns : List MNote) (idx : List (List Nat)) (gs : List (Grp MNote))
    (hpick : pickGroups ns idx = some gs) (h0 : gs ≠ []) (hne : ∀ g ∈ gs, g ≠ [])
    (hinc : (groupMeans (·.so) gs).Pairwise (· < ·)) : GoodGroups ns gs :=
  ⟨h0, hne, fun g hg p hp => (pickGroups_mem ns idx gs hpick g hg p hp).1, hinc⟩

/-- `tempo_by_average(…, unique_onset_idxs)` without `input_onsets`: one positive beat period per group of the caller -/
theorem tempo_average_groups_pos (ns : List MNote) (gs : List (Grp MNote)) (hg : GoodGroups ns gs) (hne : ns ≠ [])
    (hsd : ∀ x ∈ ns, 0 ≤ x.sd) (hpd : ∀ x ∈ ns, 0 ≤ x.pd) :
    ∃ bp, tempoAverageAt ns gs none = some bp ∧ tempoAverage ns gs = some bp ∧ bp.length = gs.length ∧ ∀ b ∈ bp, 0 < b :=
  tempoAverageAt_none_groups ns gs hg hne hsd hpd

/-- … sampled at any `input_onsets` -/
theorem tempo_average_groups_at_pos (ns : List MNote) (gs : List (Grp MNote)) (hg : GoodGroups ns gs) (hne : ns ≠ [])
    (hsd : ∀ x ∈ ns, 0 ≤ x.sd) (hpd : ∀ x ∈ ns, 0 ≤ x.pd) (inputs : List Rat) :
    ∃ out, tempoAverageAt ns gs (some inputs) = some out ∧ out.length = inputs.length ∧ ∀ b ∈ out, 0 < b :=
  tempoAverageAt_pos_groups ns gs hg hne hsd hpd inputs

/-- `tempo_by_derivative(…, unique_onset_idxs, input_onsets)`: positive at the group means (default) and at any
    sampling points -/
theorem tempo_derivative_groups_pos (ns : List MNote) (gs : List (Grp MNote)) (hg : GoodGroups ns gs) (hne : ns ≠ [])
    (hsd : ∀ x ∈ ns, 0 ≤ x.sd) (hpd : ∀ x ∈ ns, 0 ≤ x.pd) (inputs : Option (List Rat)) :
    ∃ out, tempoDerivativeAt ns gs inputs = some out ∧
      out.length = (inputs.getD (groupMeans (·.so) gs)).length ∧ ∀ b ∈ out, 0 < b :=
  tempoDerivativeAt_pos_groups ns gs hg hne hsd hpd inputs

/-- non-vacuity: a coarser grouping of `demoSwapped` (non-monotone performed onsets) given by the caller is good … -/
example : ∃ gs, pickGroups demoSwapped [[0, 1], [2], [3]] = some gs ∧ GoodGroups demoSwapped gs
    ∧ tempoAverageAt demoSwapped gs none = some [1, 1/8, 1/8] := by
  refine ⟨[[(0, ⟨0, 1, 2, 1/2⟩), (1, ⟨1, 1, 1, 1/2⟩)], [(2, ⟨2, 1, 3, 1/4⟩)], [(3, ⟨3, 1, 5/2, 1/2⟩)]], by decide +kernel, ?_,
    by decide +kernel⟩
  exact picked_groups_good demoSwapped [[0, 1], [2], [3]] _ (by decide +kernel) (by decide) (by decide)
    (by decide +kernel)

/-- … and the order of the groups matters: listed backwards (mean onsets decreasing) the same groups give negative
    beat periods under both methods -/
theorem groups_order_needed :
    (pickGroups demoSwapped [[3], [2], [0, 1]]).bind (fun gs => tempoAverageAt demoSwapped gs none)
      = some [-1/2, -1/2, -1/7]
    ∧ (pickGroups demoSwapped [[3], [2], [0, 1]]).bind (fun gs => tempoDerivativeAt demoSwapped gs none)
      = some [1/8, -1/2, -1/2] := by
  decide +kernel

end C18
