/-
C18 — round 2: the tempo curves, `monotonize_times`, `decode_performance`'s bookkeeping, the whole
pipeline `encode_performance` → `decode_performance`, time maps straight from an alignment.

* `tempo_average_pos`, `tempo_derivative_pos`   both built-in tempo curves return one POSITIVE beat period
                          per onset group — for ANY performed onsets (no monotonicity needed: the last
                          point `last_time` always survives `monotonize_times`, so the interpolant has two
                          knots and is strictly increasing)
* `tempo_average_exact`   with strictly increasing mean performed onsets it is the plain difference quotient
* `monotonize_times_spec` kept points = subsequence with strictly increasing values; output strictly
                          increasing through the kept points / identity on increasing input / constant
* `codec_roundtrip_builtin`  `timing_roundtrip` + durations for the two built-in methods (no `bp` parameter)
* `decode_ids_in_order`, `decode_ids`, `decode_selects`   `decode_performance`: re-sort is the identity on the
                          encoder's `snote_ids`; note `k` carries `snote_ids[k]` and is decoded from the score
                          row with that id (any subset of the score)
* `performance_roundtrip` the whole pipeline on note arrays + alignment: onset (common shift), duration
                          (non-grace, ≥ 0.075 s), velocity, id of every matched note; the logarithms enter as
                          a hypothesis `E (L r) = r` on positive `r`, proved for log2 / 2^· in `exp2_log2`
                          (Props/C18Real)
* `alignment_time_maps`   `get_time_maps_from_alignment` = `get_matched_notes` ∘ knots; never raises
-/
import PartituraModel.Props.C18
import PartituraModel.Proofs.C18Decode

namespace C18
open Model Model.Codec C18P

-- ------------------------------------------------------------------ tempo curves

/-- `tempo_by_average` returns one positive beat period per onset group, whatever the performed
    onsets are, as long as no score or performed duration is negative.  (The hypothesis "performed
    onsets of successive score onsets strictly increasing" is NOT needed.) -/
theorem tempo_average_pos (ns : List MNote) (hne : ns ≠ []) (hsd : ∀ x ∈ ns, 0 ≤ x.sd) (hpd : ∀ x ∈ ns, 0 ≤ x.pd) :
    ∃ bp, tempoAverage ns (encGroups ns) = some bp ∧ bp.length = (encGroups ns).length ∧ ∀ b ∈ bp, 0 < b :=
  tempoAverage_pos ns hne hsd hpd

/-- the same for `tempo_by_derivative` (central differences of the interpolated monotonized times) -/
theorem tempo_derivative_pos (ns : List MNote) (hne : ns ≠ []) (hsd : ∀ x ∈ ns, 0 ≤ x.sd) (hpd : ∀ x ∈ ns, 0 ≤ x.pd) :
    ∃ bp, tempoDerivative ns (encGroups ns) = some bp ∧ bp.length = (encGroups ns).length ∧ ∀ b ∈ bp, 0 < b :=
  tempoDerivative_pos ns hne hsd hpd

/-- when the mean performed onsets of successive score onsets are strictly increasing,
    `monotonize_times` changes nothing and `tempo_by_average` is
    `diff(mean performed onsets ++ [last]) / diff(unique score onsets ++ [last])` -/
theorem tempo_average_exact (ns : List MNote) (hne : ns ≠ []) (hsd : ∀ x ∈ ns, 0 ≤ x.sd) (hpd : ∀ x ∈ ns, 0 ≤ x.pd)
    (hinc : (groupMeans (·.po) (encGroups ns)).Pairwise (· < ·)) :
    ∃ ls lp, lastTime (ns.map (·.so)) (ns.map fun n => n.so + n.sd) = some ls ∧
      lastTime (ns.map (·.po)) (ns.map fun n => n.po + n.pd) = some lp ∧
      tempoAverage ns (encGroups ns) = some (List.zipWith (· / ·)
        (diffs (groupMeans (·.po) (encGroups ns) ++ [lp])) (diffs (groupMeans (·.so) (encGroups ns) ++ [ls]))) :=
  tempoAverage_exact ns hne hsd hpd hinc

/-- four onsets played in the order 2nd, 1st, 4th, 3rd -/
def demoSwapped : List MNote := [⟨0, 1, 2, 1/2⟩, ⟨1, 1, 1, 1/2⟩, ⟨2, 1, 3, 1/4⟩, ⟨3, 1, 5/2, 1/2⟩]

example : demoNotes ≠ [] ∧ (∀ x ∈ demoNotes, 0 ≤ x.sd) ∧ (∀ x ∈ demoNotes, 0 ≤ x.pd) := by decide +kernel
example : tempoAverage demoNotes (encGroups demoNotes) = some [15/32, 3/4, 1/8]
    ∧ tempoDerivative demoNotes (encGroups demoNotes) = some [15/32, 39/64, 7/16] := by decide +kernel
example : (groupMeans (·.po) (encGroups demoNotes)).Pairwise (· < ·) := by decide +kernel
/-- performed onsets far from monotone: the beat periods are positive all the same -/
example : demoSwapped ≠ [] ∧ (∀ x ∈ demoSwapped, 0 ≤ x.sd) ∧ (∀ x ∈ demoSwapped, 0 ≤ x.pd)
    ∧ ¬ (groupMeans (·.po) (encGroups demoSwapped)).Pairwise (· < ·)
    ∧ tempoAverage demoSwapped (encGroups demoSwapped) = some [1/2, 1/2, 1/8, 1/8]
    ∧ tempoDerivative demoSwapped (encGroups demoSwapped) = some [1/2, 1/2, 5/16, 1/8] := by decide +kernel

-- ------------------------------------------------------------------ monotonize_times

/-- `monotonize_times(s, x)` for strictly increasing `x`.  The points it keeps are a subsequence of
    the input whose values are strictly increasing.  The output
    (a) is the input when the input is strictly increasing already,
    (b) with at least two kept points: is strictly increasing and equals the input at every kept point,
    (c) with one kept point (nothing exceeds the first value): is constant. -/
theorem monotonize_times_spec (xs ss : List Rat) (hx : xs.Pairwise (· < ·)) (hlen : xs.length = ss.length) :
    (monoKnots (xs.zip ss)).Sublist (xs.zip ss) ∧ IncY (monoKnots (xs.zip ss)) ∧
    (ss.Pairwise (· < ·) → monotonize xs ss = some ss) ∧
    (2 ≤ (monoKnots (xs.zip ss)).length →
      ∃ mono, monotonize xs ss = some mono ∧ mono.length = xs.length ∧ mono.Pairwise (· < ·) ∧
        List.Forall₂ (fun (k : Rat × Rat) y => k ∈ monoKnots (xs.zip ss) → y = k.2) (xs.zip ss) mono) ∧
    (∀ k0, monoKnots (xs.zip ss) = [k0] → monotonize xs ss = some (xs.map fun _ => k0.2)) :=
  ⟨monoKnots_sublist _, monoKnots_incY _, fun hs => monotonize_id xs ss hx hs hlen,
    monotonize_strict xs ss hx hlen, fun k0 h => monotonize_const xs ss k0 h⟩

example : monoKnots ([0, 1, 2, 3, 4].zip [2, 1, 3, 5/2, 13/4]) = [(0, 2), (2, 3), (4, 13/4)]
    ∧ monotonize [0, 1, 2, 3, 4] [2, 1, 3, 5/2, 13/4] = some [2, 5/2, 3, 25/8, 13/4] := by decide +kernel
example : monoKnots ([0, 1, 2].zip [2, 1, 2]) = [(0, 2)] ∧ monotonize [0, 1, 2] [2, 1, 2] = some [2, 2, 2] := by
  decide +kernel

-- ------------------------------------------------------------------ codec with the built-in methods

/-- `timing_roundtrip` and `duration_roundtrip_partial` for the two built-in tempo curves: nothing is
    assumed about the beat periods any more (the standard deviation handed to `standardized` must be
    that of the curve).  Durations: 0 for notes without score duration (open finding F-C18-2). -/
theorem codec_roundtrip_builtin (m : Method) (hm : m = .average ∨ m = .derivative) (n : Norm) (sd : Rat)
    (ns : List MNote) (hne : ns ≠ []) (hsd : ∀ x ∈ ns, 0 ≤ x.sd) (hpd : ∀ x ∈ ns, 0 ≤ x.pd)
    (hstd : ∀ bp, tempoOf m ns = some bp → StdOk n sd bp) :
    ∃ ps, encode m n sd ns = some ps ∧ ps.length = ns.length ∧
      decodeTime n (List.zipWith toDRow ns ps) =
        some (ns.map fun x => (x.po - minPo ns, if x.sd = 0 then 0 else x.pd)) := by
  obtain ⟨bp, hbp, hlen, hpos⟩ := tempoOf_pos m hm ns hne hsd hpd
  rw [encode_eq_given m n sd ns bp hbp hlen]
  exact codec_roundtrip n sd ns bp hne hlen hpos hsd (scale_rescale n sd bp hpos (hstd bp hbp))

example : ∀ bp, tempoOf .derivative demoSwapped = some bp → StdOk .ratioLog 0 bp := by
  intro bp _ h; cases h
example : ∃ ps, encode .derivative .ratioLog 0 demoSwapped = some ps ∧
    decodeTime .ratioLog (List.zipWith toDRow demoSwapped ps) = some [(1, 1/2), (0, 1/2), (2, 1/4), (3/2, 1/2)] := by
  decide +kernel

-- ------------------------------------------------------------------ decode_performance

/-- `decode_performance(score, parameters, snote_ids)` when the score rows selected by `snote_ids` are
    ordered by (onset_div, pitch) — as the `snote_ids` returned by `encode_performance` are
    (`performance_roundtrip`): the stable re-sort moves nothing; note `k` of the result carries
    `snote_ids[k]` and is decoded from the score row selected for that id and row `k` of the parameters. -/
theorem decode_ids_in_order (n : Norm) (ss : List SRow) (ids : List String) (ps : List ParamRow)
    (info : List SRow) (hinfo : selectRows ss ids = some info) (hlen : info.length = ps.length)
    (hsorted : info.Pairwise (fun a b => lexLe (a.odiv, a.pitch) (b.odiv, b.pitch) = true)) :
    decodePerformance n ss ids ps =
      (decodeTime n (List.zipWith mkDRow info ps)).map fun od =>
        zipWith3 (fun id (x : Rat × Rat) (p : ParamRow) => (id, x.1, x.2, decodeVel p.vel)) ids od ps :=
  decodePerformance_sorted n ss ids ps info hinfo hlen hsorted

/-- … so the decoded notes carry exactly `snote_ids`, in order (seeded change C18-a broke this) -/
theorem decode_ids (n : Norm) (ss : List SRow) (ids : List String) (ps : List ParamRow)
    (info : List SRow) (hinfo : selectRows ss ids = some info) (hlen : info.length = ps.length)
    (hsorted : info.Pairwise (fun a b => lexLe (a.odiv, a.pitch) (b.odiv, b.pitch) = true))
    (out : List (String × Rat × Rat × Int)) (h : decodePerformance n ss ids ps = some out) :
    out.map Prod.fst = ids :=
  decodePerformance_ids n ss ids ps info hinfo hlen hsorted out h

/-- the selected rows: one row of the score per id of `snote_ids` (any subset, any multiplicity),
    carrying that id -/
theorem decode_selects (ss : List SRow) (ids : List String) (info : List SRow) (h : selectRows ss ids = some info) :
    List.Forall₂ (fun id (s : SRow) => s ∈ ss ∧ s.id = id) ids info :=
  selectRows_spec ss ids info h

example : selectRows demoScore ["n1", "n2"] = some [⟨"n1", 0, 55, 0, 2⟩, ⟨"n2", 4, 62, 1, 1⟩]
    ∧ selectRows demoScore ["n1", "zz"] = none := by decide +kernel
example : (decodePerformance .bp demoScore ["n1", "n2"] [⟨0, 1, [1/2], 64/127⟩, ⟨1/8, 2, [1/4], 1/127⟩]).map
    (fun out => out.map Prod.fst) = some ["n1", "n2"] := by decide +kernel

-- ------------------------------------------------------------------ the whole pipeline

/-- THE ROUND TRIP on note arrays and an alignment, for both built-in tempo curves and all five
    normalisations.  `L`/`E` stand for `log2`/`2 ** ·` (`articulation_log`, `beat_period_log`,
    `beat_period_ratio_log` are stored through `L` and read through `E`); all that is used of them is
    `E (L r) = r` for positive `r` (`C18.exp2_log2` over ℝ).

    If `to_matched_score` returns (no match points to an unknown performance id) and something is
    matched, the score ids are unique, no score duration is negative and the velocities are MIDI
    velocities, then `encode_performance` returns parameters and `snote_ids`, and
    `decode_performance` of these returns one note per match of the alignment whose ids exist on both
    sides (`pairs`, ordered by (onset_div, pitch)), carrying the score id, the performed onset minus
    one common shift, the velocity, and — for a note with positive score duration played for at
    least 0.075 s — the performed duration.  (Grace notes and shorter notes: open findings
    F-C18-2 / F-C18-4, see `duration_roundtrip_partial`, `matched_row_duration_partial`.) -/
theorem performance_roundtrip (L E : Rat → Rat) (hLE : ∀ r, 0 < r → E (L r) = r)
    (m : Method) (hm : m = .average ∨ m = .derivative) (n : Norm) (sd : Rat)
    (ss : List SRow) (ps : List PRow) (al : List ARow) (rows : List MRow)
    (hrows : toMatchedScore ss ps al = some rows) (hne : matchedNotes ss ps al ≠ [])
    (hnd : (ss.map (·.id)).Nodup) (hsd : ∀ s ∈ ss, 0 ≤ s.sd) (hvel : ∀ p ∈ ps, 1 ≤ p.vel ∧ p.vel ≤ 127)
    (hstd : ∀ bp, tempoOf m (rows.map toMNote) = some bp → StdOk n sd bp) :
    ∃ params ids pairs shift out,
      encodePerformance m n sd ss ps al = some (params, ids) ∧
      decodePerformance n ss ids (params.map (viaLog (fun r => E (L r)) n)) = some out ∧
      pairs.Perm (matchedNotes ss ps al) ∧
      pairs.Pairwise (fun a b => lexLe (sKey ss a.1) (sKey ss b.1) = true) ∧
      List.Forall₂ (fun (ij : Nat × Nat) (o : String × Rat × Rat × Int) =>
        ∃ s p, ss[ij.1]? = some s ∧ ps[ij.2]? = some p ∧
          o.1 = s.id ∧ o.2.1 = p.po - shift ∧ o.2.2.2 = p.vel ∧
          (0 < s.sd → 3 / 40 ≤ p.pd → o.2.2.1 = p.pd)) pairs out := by
  obtain ⟨pairs, hperm, hsorted, hpairs⟩ := matched_table ss ps al rows hrows
  have hrne : rows ≠ [] := by
    intro h0
    have h1 := hpairs.length_eq
    have h2 := hperm.length_eq
    rw [h0] at h1
    simp only [List.length_nil] at h1
    exact hne (List.length_eq_zero_iff.mp (by omega))
  obtain ⟨params, info, henc, hinfo, hdec⟩ := pipeline_roundtrip (fun r => E (L r)) hLE m hm n sd ss ps al rows pairs
    hrows hrne hpairs hsorted hnd hsd hvel hstd
  refine ⟨params, info.map (·.id), pairs, minPo (rows.map toMNote), _, henc, hdec, hperm, hsorted, ?_⟩
  rw [List.forall₂_iff_get]
  have l1 := hpairs.length_eq
  have l2 := hinfo.length_eq
  refine ⟨by simp; omega, ?_⟩
  intro k h1 h2
  have hk : k < rows.length := by omega
  have hki : k < info.length := by omega
  have a1 := (List.forall₂_iff_get.mp hpairs).2 k h1 hk
  have a2 := (List.forall₂_iff_get.mp hinfo).2 k hk hki
  simp only [List.get_eq_getElem] at a1 a2 ⊢
  obtain ⟨s, p, b1, b2, b3⟩ := mkRow_spec ss ps _ _ a1
  have hse : info[k] = s := by
    rw [b3] at a2
    simp only at a2
    rw [b1] at a2
    exact (Option.some.inj a2).symm
  refine ⟨s, p, b1, b2, ?_⟩
  simp only [List.getElem_zipWith, hse]
  refine ⟨trivial, by rw [b3], by rw [b3], ?_⟩
  intro hpos hge
  rw [b3]
  simp only
  rw [if_neg (ne_of_gt hpos)]
  have hn : ¬ (clipDur > p.pd) := by unfold clipDur; exact not_lt.mpr hge
  rw [if_neg hn]

/-- `demoScore` / `demoPerf` / `demoAl` satisfy the hypotheses (with the identity for `L`, `E`) … -/
example : toMatchedScore demoScore demoPerf demoAl = some [⟨0, 0, 1, 60, 1, 3/40, 70⟩, ⟨2, 1, 1, 62, 17/16, 1, 60⟩]
    ∧ matchedNotes demoScore demoPerf demoAl ≠ [] ∧ (demoScore.map (·.id)).Nodup
    ∧ (∀ s ∈ demoScore, 0 ≤ s.sd) ∧ (∀ p ∈ demoPerf, 1 ≤ p.vel ∧ p.vel ≤ 127) := by decide +kernel
example : ∀ bp, tempoOf .derivative [] = some bp → StdOk .ratio 0 bp := by intro bp _ h; cases h
/-- … and this is what the pipeline computes on them: ids, onsets (shift 1), durations (the first note,
    played for 3/64 s, comes back with 3/40 s — F-C18-4), velocities -/
example : (encodePerformance .derivative .ratio 0 demoScore demoPerf demoAl).bind (fun pi =>
      decodePerformance .ratio demoScore pi.2 (pi.1.map (viaLog (fun r => r) .ratio)))
      = some [("n0", 0, 3/40, 70), ("n2", 1/16, 1, 60)] := by decide +kernel

-- ------------------------------------------------------------------ time maps from an alignment

/-- `get_time_maps_from_alignment(ppart, spart, alignment, remove_ornaments)`: it reads one row
    (score onset, score duration, performed onset) per pair of `get_matched_notes` (`matched_notes`),
    never fails, and its knots are `timeKnots` of these rows — characterised by `time_maps_knots`,
    interpolated in both directions as `time_maps_interp` says, for `remove_ornaments` True and False -/
theorem alignment_time_maps (ro : Bool) (ss : List SRow) (ps : List PRow) (al : List ARow) :
    ∃ rows, timeMapRows ss ps al = some rows ∧
      List.Forall₂ (fun (ij : Nat × Nat) (r : TRow) => ∃ s p, ss[ij.1]? = some s ∧ ps[ij.2]? = some p ∧
        r = (s.so, s.sd, p.po)) (matchedNotes ss ps al) rows ∧
      alignmentKnots ro ss ps al = some (timeKnots ro rows) ∧
      IncX (timeKnots ro rows) ∧
      (∀ u m, (u, m) ∈ timeKnots ro rows → stimeToPtime (timeKnots ro rows) u = some m) := by
  obtain ⟨rows, h1, h2⟩ := timeMapRows_spec ss ps al
  refine ⟨rows, h1, h2, ?_, (time_maps_knots ro rows).1, (time_maps_interp ro rows).1⟩
  unfold alignmentKnots
  rw [h1]
  rfl

example : alignmentKnots true demoScore demoPerf demoAl = some [(0, 1), (1, 17/16)]
    ∧ alignmentKnots false demoScore demoPerf demoAl = some [(0, 1), (1, 17/16)] := by decide +kernel

end C18
