/-
C20 — `Performance(...)` / `sanitize_track_numbers` (documented in-place; Model/ArgForms.lean): the renumbering of the
`track` entries reaches a fixed point after ONE pass, for every list of performed parts and all track entries (missing
keys, negative numbers, gaps).  This is what makes the seeded change C20-i invisible on canonical arguments and is
why the frame check needs arguments whose tracks are NOT already 0..k−1: an export that wraps its argument in a
`Performance` rewrites the caller's dictionaries exactly when `sanitize pps ≠ pps`.
-/
import PartituraModel.Proofs.C20Sanitize

namespace C20Perf
open Model.ArgForms C20San

/-- **one pass is enough**: renumbering the tracks of already renumbered parts changes nothing (so
    `Performance(perf.performedparts)`, or loading, wrapping and wrapping again, is harmless after the first time) -/
theorem sanitize_idempotent (pps : List PPart) : sanitize (sanitize pps) = sanitize pps :=
  sanitizeWith_idem Gen.C20.sanitizeDefault (by decide) pps

/-- after the pass the track ids are (part of the k-th id, k) for k = 0, 1, …: consecutive numbers from 0, ordered
    by part and then by old track; in particular the number of tracks is unchanged -/
theorem tracks_canonical_after (pps : List PPart) :
    trackIds Gen.C20.sanitizeDefault (sanitize pps) = relabel 0 (trackIds Gen.C20.sanitizeDefault pps) ∧
    numTracks (sanitize pps) = numTracks pps := by
  have h := trackIds_after Gen.C20.sanitizeDefault pps
  refine ⟨h, ?_⟩
  have hd : Gen.C20.numTracksDefault = Gen.C20.sanitizeDefault := by decide
  unfold numTracks
  rw [hd]
  show (trackIds Gen.C20.sanitizeDefault (sanitizeWith Gen.C20.sanitizeDefault pps)).length = _
  rw [h]
  have : ∀ (l : List (Nat × Int)) (s : Nat), (relabel s l).length = l.length := by
    intro l
    induction l with
    | nil => intro s; rfl
    | cons a as ih => intro s; simp [relabel, ih]
  exact this _ 0

/-- the constructor on an argument that a constructor has already normalised hands the same entries back: a second
    `Performance(...)` around the same parts is not observable -/
theorem ctor_twice (pps : List PPart) :
    perfCtor true (PerfArg.seq (sanitize pps)) = some (sanitize pps) := by
  simp [perfCtor, sanitize_idempotent]

/-- non-vacuity / the exposing inputs of C20-i: a part on track 1, and a part whose pedal has no `track` key, are NOT
    fixed points — a canonical part is -/
example :
    sanitize [{ notes := [some 1], controls := [some 1], programs := [], metas := [] }]
      ≠ [{ notes := [some 1], controls := [some 1], programs := [], metas := [] }] ∧
    sanitize [{ notes := [some 0], controls := [none], programs := [], metas := [] }]
      ≠ [{ notes := [some 0], controls := [none], programs := [], metas := [] }] ∧
    sanitize [{ notes := [some 0], controls := [some 0], programs := [], metas := [none] }]
      = [{ notes := [some 0], controls := [some 0], programs := [], metas := [none] }] := by decide

end C20Perf
