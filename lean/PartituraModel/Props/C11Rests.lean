/-
C11 — `fill_rests` never changes what sounds, fills exactly the gaps, and the symbolic durations it assigns last as
long as the rests that carry them.

Property theorems over Model/Rests.lean (the live `fill_rests`, both modes, with the repairs C11-5/6/7).
Helper lemmas are in Proofs/C11Rests.lean.
-/
import PartituraModel.Proofs.C11Rests
import PartituraModel.Proofs.C11RestsX

namespace C11
open Model Model.Dur Model.Meas Model.Rests Gen

/-- **rests_sound_same** (measure-wise mode, any measures — also overlapping ones —, any objects, any times):
    after `fill_rests` every object that was in the part is still there, unchanged and in the same iteration order
    (so the note array, a function of the notes, is identical), and everything else is a `Rest` made by `mkRests`
    for some stretch, with the divisions in force at the start of that stretch -/
theorem rests_sound_same (qd : List (Int × Nat)) (nstaves : Nat) (measures : List (Rat × Rat)) (ns out : List GNote)
    (hold : ∀ n ∈ ns, n.added = none) (h : fillRests qd nstaves measures ns = some out) :
    out.filter (fun n => n.added.isNone) = ns ∧
    ∀ x ∈ out, x ∈ ns ∨ (x.added.isSome = true ∧ C11Rests.Made qd x) := by
  obtain ⟨h1, h2⟩ := C11Rests.fillRests_ok qd nstaves measures ns out h
  refine ⟨?_, ?_⟩
  · rw [h1, List.filter_eq_self]
    intro n hn; rw [hold n hn]; rfl
  · intro x hx
    rcases h2 x hx with hx | hx
    · exact Or.inl hx
    · exact Or.inr ⟨C11Rests.made_added qd x hx, hx⟩

/-- the same for `fill_rests(part, measurewise=False)` -/
theorem rests_sound_same_global (qd : List (Int × Nat)) (uvs : List (Int × Int)) (measures : List (Rat × Rat))
    (ns out : List GNote) (hold : ∀ n ∈ ns, n.added = none) (h : fillRestsG qd uvs measures ns = some out) :
    out.filter (fun n => n.added.isNone) = ns ∧
    ∀ x ∈ out, x ∈ ns ∨ (x.added.isSome = true ∧ C11Rests.Made qd x) := by
  obtain ⟨h1, h2⟩ := C11Rests.fillRestsG_ok qd uvs measures ns out h
  refine ⟨?_, ?_⟩
  · rw [h1, List.filter_eq_self]
    intro n hn; rw [hold n hn]; rfl
  · intro x hx
    rcases h2 x hx with hx | hx
    · exact Or.inl hx
    · exact Or.inr ⟨C11Rests.made_added qd x hx, hx⟩

/-- **rest_symdur**: the rests made for a stretch `[a, b)` with integer ends, under divisions `div ≤ 2⁴⁰`, in either
    mode (`com` = whether composite durations are asked for): they are consecutive from `a` to `b`, none of negative
    length; each carries the voice asked for and either no value (`{}`: no single notated value exists) or ONE
    symbolic duration that lasts exactly as long as the rest under `div` — also the members of a composite rest,
    whose ends need not be integral -/
theorem rest_symdur (com : Bool) (a b : Nat) (hab : a ≤ b) (div : Nat) (hbig : div ≤ 1099511627776) (v staff : Int)
    (staffOf : Nat → Int) (rests : List GNote) (h : mkRests com (a : Rat) (b : Rat) div v staff staffOf = some rests) :
    C11Rests.RTiles (a : Rat) (b : Rat) rests ∧
    ∀ r ∈ rests, r.voice = v ∧ (r.added = some .empty ∨
      ∃ sd, r.added = some (.single sd) ∧ symbolicToNumeric sd div = some (r.stop - r.start)) :=
  C11Rests.mkRests_spec com a b hab div hbig v staff staffOf rests h

/-- consecutive rests cover exactly their stretch -/
theorem rest_tiles_cover (l : List GNote) (a b : Rat) (h : C11Rests.RTiles a b l) (t : Rat) :
    (∃ r ∈ l, r.start ≤ t ∧ t < r.stop) ↔ (a ≤ t ∧ t < b) :=
  C11Rests.rtiles_cover l a b h t

/-- the divisions `fill_rests` uses are never above the largest quarter duration of the part -/
theorem fill_divisions_bounded (qd : List (Int × Nat)) (B : Nat) (hB : 1 ≤ B) (h : ∀ e ∈ qd, e.2 ≤ B) (t : Rat) :
    divsAt qd t ≤ B :=
  C11Rests.divsAt_le qd B hB h t

/-- **rest_stretches_exact** (any rational times): the stretches a voice gets rests for in a measure `[S, E)` —
    before its first start, after its last end, and from the `(i-1)`-th smallest end to the `i`-th smallest start
    where that is later — contain a time of the measure iff no object of the voice covers it -/
theorem rest_stretches_exact (S E : Rat) (nv : List GNote) (hne : nv ≠ []) (hord : ∀ n ∈ nv, n.start ≤ n.stop)
    (t : Rat) (hS : S ≤ t) (hE : t < E) :
    (∃ sp ∈ C11Rests.voiceSpans S E nv, sp.1 ≤ t ∧ t < sp.2) ↔ ∀ n ∈ nv, ¬ (n.start ≤ t ∧ t < n.stop) :=
  C11Rests.voiceSpans_exact S E nv hne hord t hS hE

/-- **rests_fill_gaps** (measure-wise mode; integer times, quarter durations up to 2⁴⁰): in a measure `[S, E)`, for
    every voice that has something starting in the measure, the added rests of that voice cover a time of the
    measure iff no object of the voice that starts in the measure covers it.  (The code groups by voice, not by
    voice and staff, and looks only at objects that START in the measure.) -/
theorem rests_fill_gaps (qd : List (Int × Nat)) (hbig : ∀ e ∈ qd, e.2 ≤ 1099511627776) (nstaves : Nat) (ns : List GNote)
    (S E : Nat)
    (hnat : ∀ n ∈ window (S : Rat) (E : Rat) ns, C11Rests.IsNat n.start ∧ C11Rests.IsNat n.stop)
    (hord : ∀ n ∈ window (S : Rat) (E : Rat) ns, n.start ≤ n.stop)
    (rests : List GNote) (h : measureRests qd nstaves ns (S : Rat) (E : Rat) = some rests)
    (v : Int) (hv : ∃ n ∈ window (S : Rat) (E : Rat) ns, n.voice = v) (t : Rat) (hS : (S : Rat) ≤ t) (hE : t < (E : Rat)) :
    (∃ r ∈ rests, r.voice = v ∧ r.start ≤ t ∧ t < r.stop) ↔
      ∀ n ∈ window (S : Rat) (E : Rat) ns, n.voice = v → ¬ (n.start ≤ t ∧ t < n.stop) :=
  C11Rests.measure_gaps qd (C11Rests.divsAt_le qd _ (by norm_num) hbig) nstaves ns _ _ ⟨S, rfl⟩ ⟨E, rfl⟩ hnat hord
    rests h v hv t hS hE

/-- **rests_fill_staves**: when fewer distinct staff values occur in the measure than the part has staves, every
    staff `1 .. nstaves` on which nothing starts is covered over the whole measure by rests in one voice above all
    voices of the measure — in a measure where nothing starts at all (repair C11-7): every staff -/
theorem rests_fill_staves (qd : List (Int × Nat)) (hbig : ∀ e ∈ qd, e.2 ≤ 1099511627776) (nstaves : Nat) (ns : List GNote)
    (S E : Nat) (hSE : S ≤ E) (rests : List GNote) (h : measureRests qd nstaves ns (S : Rat) (E : Rat) = some rests)
    (hfew : (TimeMap.sortedKeys ((window (S : Rat) (E : Rat) ns).map (·.staff))).length < nstaves)
    (s : Nat) (hs1 : 1 ≤ s) (hsk : s ≤ nstaves) (hempty : ∀ n ∈ window (S : Rat) (E : Rat) ns, n.staff ≠ (s : Int)) :
    ∃ free : Int, (∀ n ∈ window (S : Rat) (E : Rat) ns, n.voice < free) ∧
      ∀ t : Rat, (S : Rat) ≤ t → t < (E : Rat) →
        ∃ r ∈ rests, r.staff = (s : Int) ∧ r.voice = free ∧ r.start ≤ t ∧ t < r.stop :=
  C11Rests.staff_gaps qd (C11Rests.divsAt_le qd _ (by norm_num) hbig) nstaves ns S E hSE rests h hfew s hs1 hsk hempty

/-- `fill_rests(part, measurewise=True)` is the left fold of the per-measure step over `part.measures` -/
theorem fillRests_eq (qd : List (Int × Nat)) (nstaves : Nat) (measures : List (Rat × Rat)) (ns : List GNote) :
    fillRests qd nstaves measures ns = measures.foldl (fillMeasure qd nstaves) (some ns) := rfl

-- non-vacuity: 4 divisions per quarter, one measure [0, 16), notes [4, 8) and [10, 16): a quarter rest and an eighth rest
def exG1 : GNote := ⟨4, 8, 1, 1, none⟩
def exG2 : GNote := ⟨10, 16, 1, 1, none⟩

example : fillRests [(0, 4)] 1 [(0, 16)] [exG1, exG2] =
    some [⟨0, 4, 1, 1, some (.single ("quarter", 0, none, none))⟩, exG1,
          ⟨8, 10, 1, 1, some (.single ("eighth", 0, none, none))⟩, exG2] := by decide +kernel

example : measureRests [(0, 4)] 1 [exG1, exG2] ((0 : Nat) : Rat) ((16 : Nat) : Rat) =
    some [⟨0, 4, 1, 1, some (.single ("quarter", 0, none, none))⟩,
          ⟨8, 10, 1, 1, some (.single ("eighth", 0, none, none))⟩] := by decide +kernel

example : ∀ n ∈ window ((0 : Nat) : Rat) ((16 : Nat) : Rat) [exG1, exG2], C11Rests.IsNat n.start ∧ C11Rests.IsNat n.stop := by
  intro n hn
  have hn' := List.mem_of_mem_filter hn
  simp only [List.mem_cons, List.not_mem_nil, or_false] at hn'
  rcases hn' with rfl | rfl
  · exact ⟨⟨4, by norm_num [exG1]⟩, ⟨8, by norm_num [exG1]⟩⟩
  · exact ⟨⟨10, by norm_num [exG2]⟩, ⟨16, by norm_num [exG2]⟩⟩

example : ∃ n ∈ window ((0 : Nat) : Rat) ((16 : Nat) : Rat) [exG1, exG2], n.voice = 1 :=
  ⟨exG1, by decide +kernel, rfl⟩

-- a composite rest with a non-integral inner end: 5 divisions at 3 per quarter = dotted quarter (4.5) + triplet 16th (0.5)
example : mkRests true ((0 : Nat) : Rat) ((5 : Nat) : Rat) 3 1 1 (fun _ => 1) =
    some [⟨0, 9 / 2, 1, 1, some (.single ("quarter", 1, none, none))⟩,
          ⟨9 / 2, 5, 1, 1, some (.single ("16th", 0, some 3, some 2))⟩] := by decide +kernel

-- the same stretch without composite durations (global mode): one rest without a value
example : mkRests false ((0 : Nat) : Rat) ((5 : Nat) : Rat) 3 1 1 (fun _ => 1) = some [⟨0, 5, 1, 1, some .empty⟩] := by
  decide +kernel

-- repair C11-7: nothing starts in [0, 4): both staves get a whole rest in voice 1; in [4, 8) staff 2 is empty
example : fillRests [(0, 1)] 2 [(0, 4), (4, 8)] [⟨4, 8, 1, 1, none⟩] =
    some [⟨0, 4, 1, 1, some (.single ("whole", 0, none, none))⟩, ⟨0, 4, 1, 2, some (.single ("whole", 0, none, none))⟩,
          ⟨4, 8, 1, 1, none⟩, ⟨4, 8, 2, 2, some (.single ("whole", 0, none, none))⟩] := by decide +kernel

example : (TimeMap.sortedKeys ((window ((4 : Nat) : Rat) ((8 : Nat) : Rat) [(⟨4, 8, 1, 1, none⟩ : GNote)]).map (·.staff))).length < 2 := by
  decide +kernel

-- global mode: before the first start and after the last end only, and whole-measure rests for absent (voice, staff)
example : fillRestsG [(0, 4)] [(1, 1), (2, 2)] [(0, 16), (16, 32)] [⟨4, 8, 1, 1, none⟩, ⟨20, 32, 2, 2, none⟩] =
    some [⟨0, 4, 1, 1, some (.single ("quarter", 0, none, none))⟩, ⟨0, 16, 2, 2, some (.single ("whole", 0, none, none))⟩,
          ⟨4, 8, 1, 1, none⟩, ⟨8, 16, 1, 1, some (.single ("half", 0, none, none))⟩,
          ⟨16, 20, 2, 2, some (.single ("quarter", 0, none, none))⟩, ⟨16, 32, 1, 1, some (.single ("whole", 0, none, none))⟩,
          ⟨20, 32, 2, 2, none⟩] := by decide +kernel

/-! ### the whole part (round 5) -/

/-- **fill_rests_decomposes**: over pairwise disjoint, non-empty measures (integer times, divisions up to 2⁴⁰) the fold of
    `fill_rests` adds, for every measure, exactly the rests `_fill_rests_within_measure` computes from the ORIGINAL
    objects of the part: the rests added for one measure start and end inside it, so the window of another measure never
    sees them.  Afterwards the part holds the old objects and those rests, nothing else. -/
theorem fill_rests_decomposes (qd : List (Int × Nat)) (hbig : ∀ e ∈ qd, e.2 ≤ 1099511627776) (nstaves : Nat)
    (ns out : List GNote) (ms : List (Nat × Nat)) (hsep : C11RestsX.Sep ms) (hne : ∀ m ∈ ms, m.1 < m.2)
    (hwin : C11RestsX.WindowsOK ms ns) (h : fillRests qd nstaves (C11RestsX.castM ms) ns = some out) :
    (∀ m ∈ ms, ∃ rests, measureRests qd nstaves ns (m.1 : Rat) (m.2 : Rat) = some rests ∧
        ∀ r ∈ rests, (m.1 : Rat) ≤ r.start ∧ r.start < r.stop ∧ r.stop ≤ (m.2 : Rat)) ∧
    ∀ x, x ∈ out ↔ x ∈ ns ∨ ∃ m ∈ ms, ∃ rests, measureRests qd nstaves ns (m.1 : Rat) (m.2 : Rat) = some rests ∧ x ∈ rests := by
  have hb := C11Rests.divsAt_le qd _ (by norm_num) hbig
  obtain ⟨j1, j2⟩ := C11RestsX.fillRests_decomposes qd hb nstaves ns ms ns out hsep hne hwin (fun _ _ => rfl) h
  refine ⟨?_, j2⟩
  intro m hm
  obtain ⟨rests, hr⟩ := j1 m hm
  have hw := hwin m hm
  exact ⟨rests, hr, C11RestsX.measureRests_inside qd hb nstaves ns m.1 m.2 (hne m hm) (fun n hn => (hw n hn).1)
    (fun n hn => (hw n hn).2) rests hr⟩

/-- **rests_fill_gaps_all**: `rests_fill_gaps` for the part AFTER `fill_rests(part)` — over pairwise disjoint non-empty
    measures, for every measure and every voice that has something starting in it, the rests that were ADDED in that
    voice cover a time of the measure iff no object of the voice that starts in the measure covers it -/
theorem rests_fill_gaps_all (qd : List (Int × Nat)) (hbig : ∀ e ∈ qd, e.2 ≤ 1099511627776) (nstaves : Nat)
    (ns out : List GNote) (ms : List (Nat × Nat)) (hsep : C11RestsX.Sep ms) (hne : ∀ m ∈ ms, m.1 < m.2)
    (hwin : C11RestsX.WindowsOK ms ns) (hold : ∀ n ∈ ns, n.added = none)
    (h : fillRests qd nstaves (C11RestsX.castM ms) ns = some out)
    (m : Nat × Nat) (hm : m ∈ ms) (v : Int) (hv : ∃ n ∈ window (m.1 : Rat) (m.2 : Rat) ns, n.voice = v)
    (t : Rat) (hS : (m.1 : Rat) ≤ t) (hE : t < (m.2 : Rat)) :
    (∃ r ∈ out, r.added.isSome = true ∧ r.voice = v ∧ r.start ≤ t ∧ t < r.stop) ↔
      ∀ n ∈ window (m.1 : Rat) (m.2 : Rat) ns, n.voice = v → ¬ (n.start ≤ t ∧ t < n.stop) :=
  C11RestsX.fill_gaps_all qd (C11Rests.divsAt_le qd _ (by norm_num) hbig) nstaves ns out ms hsep hne hwin hold h m hm v hv
    t hS hE

-- non-vacuity: the two measures [0, 4), [4, 8) of the example above
example : C11RestsX.Sep [(0, 4), (4, 8)] ∧ (∀ m ∈ [((0 : Nat), (4 : Nat)), (4, 8)], m.1 < m.2) := by
  constructor
  · unfold C11RestsX.Sep; decide
  · decide
example : C11RestsX.WindowsOK [(0, 4), (4, 8)] [⟨4, 8, 1, 1, none⟩] := by
  intro m _ n hn
  have hmem : n ∈ [(⟨4, 8, 1, 1, none⟩ : GNote)] := (List.mem_filter.mp hn).1
  simp only [List.mem_singleton] at hmem
  subst hmem
  exact ⟨⟨⟨4, by norm_num⟩, ⟨8, by norm_num⟩⟩, by norm_num⟩
example : C11RestsX.castM [(0, 4), (4, 8)] = [(0, 4), (4, 8)] := by
  simp [C11RestsX.castM]

-- the stretches of rest_stretches_exact on overlapping objects and a grace note: [0,2) [1,3) | 5 | [6,8) in [0, 10)
example : C11Rests.voiceSpans 0 10 [⟨0, 2, 1, 1, none⟩, ⟨6, 8, 1, 1, none⟩, ⟨1, 3, 1, 1, none⟩, ⟨5, 5, 1, 1, none⟩] =
    [(8, 10), (3, 5), (5, 6)] := by decide +kernel

end C11
