/-
C12, round 6 (after seed C12-k) — "values outside −7..7 … are rejected rather than mapped to another key", for the
number of fifths as a Python NUMBER (Model/ConversionsNum.lean): an integer-typed number or a number of any other real
type (float, NumPy floats, Fraction, Decimal) carrying its exact value.  The earlier theorems quantify over `Int`
only, which is why a coercion `int(fifths)` in front of the range check was invisible to them.
-/
import PartituraModel.Props.C12Ext
import PartituraModel.Model.ConversionsNum
import Mathlib.Tactic.Linarith
import Mathlib.Tactic.NormNum

namespace C12
open Model Gen Gen.C12

/-- on integer-typed numbers the function is the one of the earlier rounds -/
theorem key_num_int (i : Int) (m : PyLit) : fifthsModeToKeyNameN (.int i) m = fifthsModeToKeyNameG i m := by
  unfold fifthsModeToKeyNameN fifthsModeToKeyNameG
  cases chainFind m f2kModes with
  | none => rfl
  | some r =>
    obtain ⟨isMinor, suffix⟩ := r
    have h : ((fifthsLo : Rat) ≤ (PyNum.int i).val ∧ (PyNum.int i).val ≤ (fifthsHi : Rat)) ↔ (fifthsLo ≤ i ∧ i ≤ fifthsHi) := by
      simp only [PyNum.val]
      constructor
      · rintro ⟨a, b⟩; exact ⟨by exact_mod_cast a, by exact_mod_cast b⟩
      · rintro ⟨a, b⟩; exact ⟨by exact_mod_cast a, by exact_mod_cast b⟩
    simp only [h]

/-- a number of a type that cannot index a list is rejected WHATEVER its value: 2.0 and 2.5 as much as 7.5 -/
theorem key_num_rejects_real (q : Rat) (m : PyLit) : fifthsModeToKeyNameN (.real q) m = none := by
  unfold fifthsModeToKeyNameN
  cases chainFind m f2kModes with
  | none => rfl
  | some r => obtain ⟨isMinor, suffix⟩ := r; simp only []; split <;> rfl

/-- **every value outside −7..7 is rejected**, in whatever number type it comes and whatever the mode: 7.5, 7.001,
    −7.999, 15/2 are not pulled back into the range by a coercion -/
theorem key_num_rejects_outside (n : PyNum) (m : PyLit) (h : n.val < -7 ∨ 7 < n.val) :
    fifthsModeToKeyNameN n m = none := by
  cases n with
  | real q => exact key_num_rejects_real q m
  | int i =>
    rw [key_num_int]
    have hi : i < -7 ∨ 7 < i := by
      simp only [PyNum.val] at h
      rcases h with h | h
      · left; exact_mod_cast h
      · right; exact_mod_cast h
    cases hk : fifthsModeToKeyNameG i m with
    | none => rfl
    | some nm =>
      have := (key_accepts_iff i m).mp (by rw [hk]; rfl)
      omega

/-- a name is produced EXACTLY for an integer-typed number in −7..7 with an accepted mode -/
theorem key_num_accepts_iff (n : PyNum) (m : PyLit) :
    (fifthsModeToKeyNameN n m).isSome ↔ ∃ i : Int, n = .int i ∧ (-7 ≤ i ∧ i ≤ 7) ∧ (modeOfLit m).isSome := by
  cases n with
  | real q => simp [key_num_rejects_real]
  | int i =>
    rw [key_num_int, key_accepts_iff]
    constructor
    · intro h; exact ⟨i, rfl, h⟩
    · rintro ⟨j, hj, h⟩
      cases hj
      exact h

/-- … and the name produced is never the name of ANOTHER key: read back, it gives the value that was passed (so no
    two numbers of different value share a name: the map is injective on everything it accepts) -/
theorem key_num_same_key (n : PyNum) (m : PyLit) (nm : String) (h : fifthsModeToKeyNameN n m = some nm) :
    ∃ (f : Int) (mo : Mode), keyNameToFifthsModeG nm = some (f, mo) ∧ (f : Rat) = n.val ∧ modeOfLit m = some mo := by
  have hs := (key_num_accepts_iff n m).mp (by rw [h]; rfl)
  obtain ⟨i, rfl, ⟨h1, h2⟩, hm⟩ := hs
  obtain ⟨mo, hmo⟩ := Option.isSome_iff_exists.mp hm
  have hb := (key_bijection_src i h1 h2 m mo hmo).2
  rw [key_num_int] at h
  rw [h] at hb
  exact ⟨i, mo, by simpa using hb, rfl, hmo⟩

/-- non-vacuity: the values of the seeded change, and accepted ones -/
example : fifthsModeToKeyNameN (.real (15 / 2)) (PyLit.str "major") = none ∧
    fifthsModeToKeyNameN (.real (-7001 / 1000)) (PyLit.num (-1)) = none ∧
    fifthsModeToKeyNameN (.real 2) (PyLit.str "major") = none ∧
    fifthsModeToKeyNameN (.int 7) (PyLit.str "major") = some "C#" ∧
    fifthsModeToKeyNameN (.int (-7)) (PyLit.str "minor") = some "Abm" ∧
    fifthsModeToKeyNameN (.int 8) PyLit.none = none ∧
    (PyNum.real (15 / 2)).val > 7 := by decide +kernel

end C12
