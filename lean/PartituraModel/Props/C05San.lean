/-
C05, round 5 — `note_array_to_score(..., sanitize=True)`: the hypothesis of `from_to_array_sanitized` discharged.

`create_part` adds one untied `Note` per row of the array (positive duration) and then, when the part has a time
signature and `sanitize` is set, runs `add_measures`, `tie_notes`, `find_tuplets`, `sanitize_part`.  Property C11 proves
that these keep the note array of ANY part whose note list has distinct keys, ties with back links, chains that end and
contiguous links (`C11.normalise_note_array_same`).  Here those four side conditions are PROVED for the notes
`create_part` adds (Proofs/C05San.lean), so for every array, every division value, every set of measures and every
tolerance the sounding notes (onset, tied duration, pitch, voice, id) after the whole sanitize sequence are the ones
that were added — no side condition left.  (The correspondence stream `invx` compares the pieces `tie_notes` leaves,
through C11's executable model, with the `Note` objects of the real part.)
-/
import PartituraModel.Proofs.C05San

namespace C05
open NoteArray List Model Model.Meas

/-- SANITIZE KEEPS WHAT SOUNDS: for every list of (onset, duration, pitch) triples `create_part` is given, whatever the
    divisions `d`, the part `p` (its measures: those of `add_measures`, or any others), and the tie tolerance: after
    `tie_notes`, `find_tuplets` and `sanitize_part` the rows (onset, tied duration, pitch, voice, id) of the plain
    notes are exactly the rows of the notes that were added. -/
theorem sanitize_keeps_created_notes (d : Nat) (l : List (Int × Int × Int)) (p : PartM) (tol : Nat) :
    sounding (sanitizeTies (Tup.findTuplets p.qd (tieNotes p (createdMeasNotes d 0 l))).notes tol)
      = sounding (createdMeasNotes d 0 l) :=
  (C11.normalise_note_array_same p (createdMeasNotes d 0 l) tol (createdMeasNotes_keysOK d l 0)
    (createdMeasNotes_linksOK d l 0) (createdMeasNotes_walkable d l 0) (createdMeasNotes_contig d l 0)).2

/-- ... and what the added notes sound like is what the array said: every note its own onset and duration -/
theorem created_notes_sound_as_given (d : Nat) (l : List (Int × Int × Int)) :
    (sounding (createdMeasNotes d 0 l)).map (fun r => (r.1, r.2.1)) =
      (createdMeasNotes d 0 l).map fun n => (n.start, n.stop - n.start) :=
  sounding_createdMeasNotes d l 0

/-- the side conditions of C11's theorems hold for the created notes (what makes the composition unconditional) -/
theorem created_notes_well_formed (d : Nat) (l : List (Int × Int × Int)) :
    C11Rows.KeysOK (createdMeasNotes d 0 l) ∧ C11Rows.LinksOK (createdMeasNotes d 0 l) ∧
    C11Sound.Walkable (createdMeasNotes d 0 l) ∧ C11Walk.ContigAll (createdMeasNotes d 0 l) :=
  ⟨createdMeasNotes_keysOK d l 0, createdMeasNotes_linksOK d l 0, createdMeasNotes_walkable d l 0,
   createdMeasNotes_contig d l 0⟩

section Examples

/-- a note of 12 divisions from 6 in 4/4 at 2 divisions per quarter crosses the bar lines at 8 and 16: `tie_notes`
    cuts it into 6-8, 8-16, 16-18; what sounds is still one note 6-18 -/
example : createdPieces 2 (some [(0, (4, 4))]) true [(0, 8), (8, 16), (16, 18)] [(0, 2, 60), (6, 12, 62)] =
    [(0, 2), (6, 8), (8, 16), (16, 18)] := by decide +kernel

def exSanPart : PartM :=
  { first := 0, last := 18, npoints := 2, qd := [(0, 2)], ts := [],
    measures := [{ start := 0, stop := 8, number := none }, { start := 8, stop := 16, number := none },
                 { start := 16, stop := 18, number := none }] }

example : (sounding (tieNotes exSanPart (createdMeasNotes 2 0 [(0, 2, 60), (6, 12, 62)]))).map
      (fun r => (r.1, r.2.1)) = [(0, 2), (6, 12)] := by decide +kernel

end Examples

end C05
