/-
C01, round 6 — end-to-end statements about the REACHABLE states of the round-6 machine: the hypotheses `WInv`,
`CacheOk` and `ClsOk` of the query theorems are discharged from the history, so that the only conditions left are
about the user's arguments (quarter durations set at times ≥ 0; the objects handed over are instances of timed
classes of partitura).
-/
import PartituraModel.Proofs.C01YCls
import PartituraModel.Proofs.C01YInv
import PartituraModel.Props.C01Y

namespace C01
open TL

/-- the class ids of the object records stay inside the generated class table along every history of the
round-6 machine whose objects are instances of timed classes -/
theorem clsOkY_reachable (staff : ObjRef → Option Nat) (q : Nat) (ops : List OpY) (hq : ∀ op ∈ ops, op.qdNonneg)
    (ho : ∀ op ∈ ops, op.clsOk) : ClsOk (runY staff (YPart.init q) ops).c.part :=
  runY_clsOk (y := YPart.init q) (by
    show XInv (CPart.init q)
    rw [memo_init]; exact xinv_lift (winv_init q)) (init_clsOk q) ops hq ho

/-- `iter_all` in every argument form, asked in ANY state reachable by timeline operations, direct `TimePoint`
calls, Slur and Tuplet setters: one duplicate-free segment per time point with `a ≤ t < b`, in increasing time
order, each holding exactly the matching objects that point lists — no hypothesis on the state -/
theorem iterAllX_reachable (staff : ObjRef → Option Nat) (q : Nat) (ops : List OpY) (hq : ∀ op ∈ ops, op.qdNonneg)
    (ho : ∀ op ∈ ops, op.clsOk) (cls : Option Nat) (a b : Bound) (incl : Option Bool) (mode : Option String) :
    let s := (runY staff (YPart.init q) ops).c.part
    ∃ segs : List (Int × List ObjRef), iterAllX s cls a b incl mode = segs.flatMap (·.2)
      ∧ (segs.map (·.1)).Pairwise (· < ·)
      ∧ (∀ τ, τ ∈ segs.map (·.1) ↔ τ ∈ s.times ∧ inRangeQ a.key b.key τ)
      ∧ (∀ seg ∈ segs, seg.2.Nodup
          ∧ ∀ o, o ∈ seg.2 ↔ Listed s (modeOfString (mode.getD "starting")).side seg.1 o
              ∧ ClassSpecRT cls (inclEff cls (incl.getD false)) o.cls) :=
  iterAllX_any_history (winvY_reachable staff q ops hq).1 (clsOkY_reachable staff q ops hq ho) cls a b incl mode

/-- `part.notes`, `part.measures`, … read in ANY reachable state -/
theorem view_reachable (staff : ObjRef → Option Nat) (q : Nat) (ops : List OpY) (hq : ∀ op ∈ ops, op.qdNonneg)
    (ho : ∀ op ∈ ops, op.clsOk) {name : String} {l : List ObjRef}
    (h : partView (runY staff (YPart.init q) ops).c.part name = some l) :
    let s := (runY staff (YPart.init q) ops).c.part
    ∃ c incl, (name, c, incl) ∈ Gen.C01Views.views
      ∧ ∃ segs : List (Int × List ObjRef), l = segs.flatMap (·.2)
        ∧ (segs.map (·.1)).Pairwise (· < ·)
        ∧ (∀ τ, τ ∈ segs.map (·.1) ↔ τ ∈ s.times)
        ∧ (∀ seg ∈ segs, seg.2.Nodup
            ∧ ∀ o, o ∈ seg.2 ↔ Listed s .start seg.1 o ∧ ClassSpecRT (some c) (incl.getD false) o.cls) :=
  view_any_history (winvY_reachable staff q ops hq).1 (clsOkY_reachable staff q ops hq ho) h

/-- `o.duration` read in ANY reachable state -/
theorem duration_reachable (staff : ObjRef → Option Nat) (q : Nat) (ops : List OpY) (hq : ∀ op ∈ ops, op.qdNonneg)
    (o : ObjRef) {d : Int} (h : durationOf (runY staff (YPart.init q) ops).c.part o = some d) :
    ∃ a b, Listed (runY staff (YPart.init q) ops).c.part .start a o
      ∧ Listed (runY staff (YPart.init q) ops).c.part .stop b o ∧ d = b - a :=
  duration_any_history (winvY_reachable staff q ops hq).1 o h

/-- the cached quarter map is the fresh one in every reachable state of the round-6 machine as well -/
theorem cached_map_is_fresh_Y (staff : ObjRef → Option Nat) (q : Nat) (ops : List OpY) (hq : ∀ op ∈ ops, op.qdNonneg)
    (x : Rat) :
    qdAtQ (runY staff (YPart.init q) ops).c.qcache x = qdAtQ (runY staff (YPart.init q) ops).c.part.qtab x := by
  have hc : CacheOk (runY staff (YPart.init q) ops).c := (winvY_reachable staff q ops hq).2
  rw [hc]
  exact interpTable_same _ x

/-- along histories whose timeline operations are `Valid` (and whose direct `TimePoint` calls hit a free side /
the referenced point) and whose Tuplet setter calls find the tuplet registered where its previous note starts
(ends) — the way the importers use them —: the FULL invariant of the property, with a point emptied by a setter
counted as an allowed empty point -/
theorem invY_reachable (staff : ObjRef → Option Nat) (q : Nat) (ops : List OpY)
    (hv : ValidHistoryY staff (YPart.init q) ops) : Inv (runY staff (YPart.init q) ops).c.part :=
  runY_inv (y := YPart.init q) (by
    show Inv (CPart.init q).part
    rw [memo_init]; exact inv_init q) (by
    show CacheOk (CPart.init q)
    rw [memo_init]; exact cacheOk_lift _) ops hv

/-- a tuplet that follows its notes: registered with the first note, moved by the setter, re-registered by `add` -/
def yvalid : List OpY :=
  [.base (.base (.add yN (some 0) (some 4))), .base (.base (.add yM (some 4) (some 6))),
   .base (.base (.add yT (some 0) none)), .tupletStart yT (some yN), .tupletStart yT (some yM),
   .base (.base (.add yT (some 4) none)), .view "notes", .staves, .tupletStart yT none]
example : ValidHistoryY (fun _ => none) (YPart.init 1) yvalid := by decide +kernel
/-- outside: the tuplet sits at 4 while its previous note starts at 0 — the setter clears `tuplet.start` and leaves
the listing at 4 behind (`WInv` still holds, `Inv` does not) -/
def ywrong : List OpY :=
  [.base (.base (.add yN (some 0) (some 4))), .base (.base (.add yM (some 4) (some 6))),
   .base (.base (.add yT (some 4) none)), .tupletStart yT (some yN), .tupletStart yT (some yM)]
example : ¬ ValidHistoryY (fun _ => none) (YPart.init 1) ywrong := by decide +kernel
example : ¬ Inv (runY (fun _ => none) (YPart.init 1) ywrong).c.part :=
  fun h => absurd ((invB_iff _).mpr h) (by decide +kernel)
example : WInv (runY (fun _ => none) (YPart.init 1) ywrong).c.part := (winvB_iff _).mp (by decide +kernel)
example : (getObj (runY (fun _ => none) (YPart.init 1) yvalid).c.part.objs yT).start = some 4 := by decide +kernel

example : (∀ op ∈ yhist, op.clsOk) ∧ (∀ op ∈ yhist2, op.clsOk) := by decide +kernel
example : ClsOk (runY (fun _ => none) (YPart.init 1) yhist).c.part := by
  intro e he
  revert e
  decide +kernel

end C01
