/-
C07 — `importmatch.parse_matchline`: a written line of kind k is REJECTED BY EVERY PARSER TRIED BEFORE k's own,
proved from the generated templates (whole table by kernel evaluation), so the ordered dispatch returns what
k's own parser returns.

`lineSyms` is the symbolic text of a written line of a kind (the out_pattern of its template, or of the parts of
its composite, literal characters known, field texts unknown; the fields of the first / second component are
named `a:Name` / `b:Name`).  `dispatchConds` checks, for every parser that stands before k in
FROM_MATCHLINE_METHODS, that one of its component patterns matches at no offset of that text or that one of its
identifier literals occurs nowhere in it, and returns the conditions on the field texts under which this holds:
the score-note fields that must hold no `,` `)` (comma count where `note(` stands inside `snote(`) and the
identifiers (`-deletion.`, `insertion-`, …) no field text may contain; in addition no field text holds `(`.
-/
import PartituraModel.Proofs.C07Dispatch
import PartituraModel.Gen.MatchTemplates
import PartituraModel.Props.C07Files

namespace C07
open Model Model.Template Model.MatchCodec Model.MatchLine Gen

def allVersions : List (Nat × Nat × Nat) := [(0, 1, 0), (0, 2, 0), (0, 3, 0), (0, 4, 0), (0, 5, 0), (1, 0, 0)]

def orderOf (ver : Nat × Nat × Nat) : List String := if ver.1 ≥ 1 then dispatchOrderV1 else dispatchOrderV0

/-- the conditions under which the parsers tried before `k` reject a written line of kind `k` -/
def condsFor (ver : Nat × Nat × Nat) (k : String) : Option (List String × List String) :=
  match lineSyms matchTemplates matchComposites (verName ver ++ "/" ++ k) with
  | none => none
  | some syms => dispatchConds matchTemplates matchComposites ver syms ((orderOf ver).takeWhile (· != k))

/-- **the whole dispatch table passes the structural check**: for every format version and every line kind of
    its parser list that exists in that version (70 kinds), every earlier parser provably rejects the written
    line (kernel evaluation over the generated templates, re-checked whenever a pattern, an out_pattern, an
    identifier literal or the order of FROM_MATCHLINE_METHODS changes) -/
theorem dispatch_table_ok : ∀ ver ∈ allVersions, ∀ k ∈ orderOf ver,
    (lineSyms matchTemplates matchComposites (verName ver ++ "/" ++ k)).isSome = true →
    (condsFor ver k).isSome = true := by
  decide +kernel

example : (allVersions.flatMap fun ver => (orderOf ver).filter fun k =>
    (lineSyms matchTemplates matchComposites (verName ver ++ "/" ++ k)).isSome).length = 68 := by decide +kernel

-- the conditions, for the kinds that need any: deletions walk the comma count of the performed note over the
-- score-note fields; the variants of deletion / insertion are told apart by their identifier literal only
example : condsFor (0, 5, 0) "no_played" = some
    (["a:Anchor", "a:NoteName", "a:Modifier", "a:Octave", "a:Measure", "a:Beat", "a:Offset", "a:Duration", "a:OnsetInBeats"],
     ["-deletion.", "-trailing_score_note."]) := by decide +kernel
example : condsFor (0, 5, 0) "trill" = some ([], ["insertion-", "hammer_bounce-", "trailing_played_note-"]) ∧
    condsFor (1, 0, 0) "ornament" = some ([], ["insertion-"]) ∧ condsFor (1, 0, 0) "stime_ptime" = some ([], []) ∧
    condsFor (0, 3, 0) "meta" = some ([], []) ∧ condsFor (1, 0, 0) "section" = some ([], []) := by decide +kernel

theorem split_at_mem : ∀ (l : List String) (k : String), k ∈ l →
    l = l.takeWhile (· != k) ++ k :: (l.dropWhile (· != k)).drop 1 := by
  intro l
  induction l with
  | nil => intro k h; simp at h
  | cons x l ih =>
    intro k h
    by_cases hx : x = k
    · subst hx; simp
    · have hk : k ∈ l := by
        rcases List.mem_cons.mp h with e | h'
        · exact absurd e.symm hx
        · exact h'
      have hb : (x != k) = true := by simpa using hx
      simp only [List.takeWhile_cons, List.dropWhile_cons, hb, if_true, List.cons_append]
      rw [← ih k hk]

/-- **ordered dispatch of a written line** (`parse_matchline`): let the line be a written line of kind `k` of
    version `ver` - the rendering of `k`'s symbolic text under ANY field texts `v` that hold no `(`, no `,` `)`
    in the fields `names` and none of the identifiers `ids`.  Then every parser tried before `k` rejects it,
    and `parse_matchline` returns `k` with exactly the values `k`'s own parser reads (which the round-trip
    theorems `line_roundtrip*`, `composite_*` identify with the written values). -/
theorem dispatch_written (ver : Nat × Nat × Nat) (k : String) (syms : List Sym) (names ids : List String)
    (v : String → List Char) (vals : List Val)
    (hk : k ∈ orderOf ver)
    (hs : lineSyms matchTemplates matchComposites (verName ver ++ "/" ++ k) = some syms)
    (hc : condsFor ver k = some (names, ids))
    (hm : ∀ n ∈ symFields syms, marker ∉ v n) (hclean : ∀ n ∈ names, CleanText closer (v n))
    (hid : ∀ i ∈ ids, ∀ n ∈ symFields syms, findLit i.toList (v n) = false)
    (hp : parseLine matchTemplates matchComposites (verName ver ++ "/" ++ k) (renderS v syms) = .ok vals) :
    dispatch matchTemplates matchComposites (orderOf ver) ver (renderS v syms) = some (k, vals) := by
  unfold condsFor at hc
  rw [hs] at hc
  simp only at hc
  have hsplit := split_at_mem (orderOf ver) k hk
  rw [hsplit]
  exact dispatch_struct matchTemplates matchComposites ver syms v _ _ k names ids vals hc hm hclean hid hp

/-- **a written single-component line** (`sustain(…).`, `info(…).`, `scoreprop(…).`, `section(…).`, `meta(…).`):
    the text `render t.out v` that `matchline` writes for the template of kind `k`, with field texts holding no
    `(` (and satisfying the kind's conditions), is dispatched to `k`'s own parser -/
theorem dispatch_template_line (ver : Nat × Nat × Nat) (k : String) (t : Template) (names ids : List String)
    (v : String → List Char) (vals : List Val) (hk : k ∈ orderOf ver)
    (ht : findTpl matchTemplates (verName ver ++ "/" ++ k) = some t)
    (hc : condsFor ver k = some (names, ids))
    (hm : ∀ n ∈ symFields (flat t.out), marker ∉ v n) (hclean : ∀ n ∈ names, CleanText closer (v n))
    (hid : ∀ i ∈ ids, ∀ n ∈ symFields (flat t.out), findLit i.toList (v n) = false)
    (hp : parseT t (render t.out v) = .ok vals) :
    dispatch matchTemplates matchComposites (orderOf ver) ver (render t.out v) = some (k, vals) := by
  have hs : lineSyms matchTemplates matchComposites (verName ver ++ "/" ++ k) = some (flat t.out) := by
    simp only [lineSyms, ht]
  have hp' : parseLine matchTemplates matchComposites (verName ver ++ "/" ++ k) (renderS v (flat t.out)) = .ok vals := by
    simp only [parseLine, ht, renderS_flat, hp]
  have := dispatch_written ver k (flat t.out) names ids v vals hk hs hc hm hclean hid hp'
  rwa [renderS_flat] at this

/-- **a written composite line** of any of the four shapes: `line` is the text of the parts (`hline`, discharged
    by `partsSyms_pair / _pair0 / _suffix / _prefix` of Proofs/C07Dispatch.lean with the field texts `vA`, `vB`
    of the components); under the kind's conditions on the field texts it is dispatched to its own parser -/
theorem dispatch_composite_line (ver : Nat × Nat × Nat) (k : String) (c : Composite) (syms : List Sym)
    (names ids : List String) (vA vB : String → List Char) (vals : List Val) (hk : k ∈ orderOf ver)
    (ht : findTpl matchTemplates (verName ver ++ "/" ++ k) = none)
    (hcomp : findComp matchComposites (verName ver ++ "/" ++ k) = some c)
    (hsyms : partsSyms matchTemplates c.parts 0 = some syms)
    (hc : condsFor ver k = some (names, ids))
    (hm : ∀ n ∈ symFields syms, marker ∉ pairVal vA vB n)
    (hclean : ∀ n ∈ names, CleanText closer (pairVal vA vB n))
    (hid : ∀ i ∈ ids, ∀ n ∈ symFields syms, findLit i.toList (pairVal vA vB n) = false)
    (hp : parseC matchTemplates c (renderS (pairVal vA vB) syms) = .ok vals) :
    dispatch matchTemplates matchComposites (orderOf ver) ver (renderS (pairVal vA vB) syms) = some (k, vals) := by
  have hs : lineSyms matchTemplates matchComposites (verName ver ++ "/" ++ k) = some syms := by
    simp only [lineSyms, ht, hcomp, hsyms]
  have hp' : parseLine matchTemplates matchComposites (verName ver ++ "/" ++ k) (renderS (pairVal vA vB) syms) = .ok vals := by
    simp only [parseLine, ht, hcomp, hp]
  exact dispatch_written ver k syms names ids (pairVal vA vB) vals hk hs hc hm hclean hid hp'

-- the text of a note pair is the rendering of its symbolic text under the field texts of the two components
example (vA vB : String → List Char) : ∃ a b syms, findTpl matchTemplates "v0.5.0/snote" = some a ∧
    findTpl matchTemplates "v0.5.0/note" = some b ∧
    partsSyms matchTemplates [.tpl "v0.5.0/snote", .lit "-", .tpl "v0.5.0/note"] 0 = some syms ∧
    renderS (pairVal vA vB) syms = render a.out vA ++ ("-".toList ++ render b.out vB) := by
  obtain ⟨syms, h1, h2⟩ := partsSyms_pair matchTemplates "v0.5.0/snote" "v0.5.0/note" "-" _ _ vA vB rfl rfl
  exact ⟨_, _, syms, rfl, rfl, h1, h2⟩

-- ---------------------------------------------------------------- whole files

theorem eraseDups_nodup : ∀ (n : Nat) (l : List Str), l.length = n → l.Nodup → l.eraseDups = l := by
  intro n
  induction n with
  | zero => intro l hl _; cases l with | nil => rfl | cons a l => simp at hl
  | succ n ih =>
    intro l hl hnd
    cases l with
    | nil => simp at hl
    | cons a l =>
      rw [List.eraseDups_cons]
      have ha : a ∉ l := (List.nodup_cons.mp hnd).1
      have hf : l.filter (fun b => !b == a) = l := by
        rw [List.filter_eq_self]
        intro b hb
        have : b ≠ a := fun e => ha (e ▸ hb)
        simpa using this
      rw [hf, ih l (by simpa using hl) (List.nodup_cons.mp hnd).2]

/-- the version line of each of the six format versions is dispatched to the info parser of that version -/
theorem version_line_dispatch : ∀ ver ∈ allVersions,
    dispatch matchTemplates matchComposites (orderOf ver) ver (versionLine ver.1 ver.2.1 ver.2.2) =
      some ("info", [.str "matchFileVersion".toList, .ver ver.1 ver.2.1 ver.2.2]) := by
  decide +kernel

/-- **a whole written file** (`load_matchfile` up to the list of parsed lines): the version line of one of the
    six format versions followed by distinct non-empty lines, each of which `parse_matchline` reads as its record
    (what `dispatch_template_line` / `dispatch_composite_line` establish for written lines), is loaded as that
    version with exactly these records, in file order - the version line first -/
theorem loadFile_written (ver : Nat × Nat × Nat) (hv : ver ∈ allVersions) (body : List Str)
    (recs : List (String × List Val))
    (hnd : (versionLine ver.1 ver.2.1 ver.2.2 :: body).Nodup) (hne : ∀ l ∈ body, l ≠ [])
    (hd : List.Forall₂ (fun l r => dispatch matchTemplates matchComposites (orderOf ver) ver l = some r) body recs) :
    loadFile matchTemplates matchComposites (versionLine ver.1 ver.2.1 ver.2.2 :: body) =
      some (ver, ("info", [.str "matchFileVersion".toList, .ver ver.1 ver.2.1 ver.2.2]) :: recs) := by
  have hfil : (versionLine ver.1 ver.2.1 ver.2.2 :: body).filter (fun l => !l.isEmpty) =
      versionLine ver.1 ver.2.1 ver.2.2 :: body := by
    rw [List.filter_eq_self]
    intro l hl
    rcases List.mem_cons.mp hl with e | hl
    · subst e
      have hne' : versionLine ver.1 ver.2.1 ver.2.2 ≠ [] := by
        unfold versionLine
        have h0 : ").".toList ≠ [] := by decide
        exact List.append_ne_nil_of_right_ne_nil _ h0
      cases hvl : versionLine ver.1 ver.2.1 ver.2.2 with
      | nil => exact absurd hvl hne'
      | cons c l => rfl
    · have := hne l hl
      cases l with
      | nil => exact absurd rfl this
      | cons c l => rfl
  rw [loadFile_version _ body ver.1 ver.2.1 ver.2.2 (by simp) hfil]
  rw [eraseDups_nodup _ _ rfl hnd]
  have hfm : ∀ (ls : List Str) (rs : List (String × List Val)),
      List.Forall₂ (fun l r => dispatch matchTemplates matchComposites (orderOf ver) ver l = some r) ls rs →
      ls.filterMap (dispatch matchTemplates matchComposites (orderOf ver) ver) = rs := by
    intro ls rs h
    induction h with
    | nil => rfl
    | cons h1 _ ih => simp [List.filterMap_cons, h1, ih]
  have hord : (if ver.1 ≥ 1 then dispatchOrderV1 else dispatchOrderV0) = orderOf ver := rfl
  rw [hord]
  simp only [List.filterMap_cons, version_line_dispatch ver hv, hfm body recs hd]

-- non-vacuity: a written 0.5.0 `trailing_score_note` line is the rendering of its symbolic text and is
-- dispatched to its own parser although the `snote_note` and `deletion` parsers are tried first
example : ∃ syms, lineSyms matchTemplates matchComposites "v0.5.0/trailing_score" = some syms ∧
    (dispatch matchTemplates matchComposites dispatchOrderV0 (0, 5, 0)
      "snote(n1,[C,n],4,1:1,0,1/4,0.0,1.0,[v1])-trailing_score_note.".toList).map (·.1) = some "trailing_score" := by
  refine ⟨_, rfl, ?_⟩
  decide +kernel

end C07
