/-
C04 — score -> MIDI -> score preserves every note's timing and pitch exactly.

Property theorems about the executable models `Model.Ticks`, `Model.MidiPair`, `Model.MidiModes`
(the models are tied to partitura/io/exportmidi.py and importmidi.py by harness/props/c04.py).
Helper lemmas live in Proofs/C04*.lean.
-/
import PartituraModel.Proofs.C04Ticks
import PartituraModel.Proofs.C04Sort
import PartituraModel.Proofs.C04Pair
import PartituraModel.Proofs.C04Modes
import PartituraModel.Model.ScoreMidi

namespace C04
open Model Model.Ticks Model.MidiPair Model.MidiModes

-- ====================================================================== ticks per quarter

/-- `ppq` is the least common multiple of all quarter durations times the smallest power of two
    that reaches the requested minimum; every quarter duration divides it. -/
theorem ppq_minimal (qds : List Nat) (minimum : Nat) (hpos : ∀ d ∈ qds, 0 < d) :
    natLcm qds ∣ ppq qds minimum ∧ minimum ≤ ppq qds minimum ∧
    (∀ d ∈ qds, d ∣ ppq qds minimum) ∧
    (∀ m, (∀ d ∈ qds, d ∣ m) → natLcm qds ∣ m) ∧
    ∃ k, ppq qds minimum = natLcm qds * 2 ^ k ∧ ∀ j, j < k → natLcm qds * 2 ^ j < minimum := by
  obtain ⟨k, h1, h2, h3⟩ := C04T.doubleUntil_spec (natLcm qds) minimum (C04T.natLcm_pos qds hpos)
  have hd : natLcm qds ∣ ppq qds minimum := by unfold ppq; rw [h1]; exact Nat.dvd_mul_right _ _
  exact ⟨hd, h2, fun d hdm => Nat.dvd_trans (C04T.dvd_natLcm qds d hdm) hd,
    fun m hm => C04T.natLcm_dvd qds m hm, k, h1, h3⟩

example : ppq [3, 6, 24, 5] 96 = 120 ∧ ppq [3, 6, 24, 5] 480 = 480 ∧ ppq [7, 12] 0 = 84 := by
  refine ⟨?_, ?_, ?_⟩ <;> (unfold ppq; simp [natLcm, Nat.lcm, doubleUntil])

-- ====================================================================== integer ticks

/-- With `shift` or `time_sig_change`, when every quarter duration of every part divides the ticks
    per quarter (in particular for `ppq = lcm * 2^k`), every timeline position of every part has an
    integer exact tick image, and the written tick (`int(np.round(.))`, fix C04-1) is that image. -/
theorem ticks_integral (P : Nat) (a : Anacrusis) (parts : List TimeBase) (o : Rat)
    (hdiv : ∀ b ∈ parts, ∀ d ∈ divisions b, d ∣ P) (ha : a ≠ .padBar) (ho : origin a parts = some o)
    (b : TimeBase) (hb : b ∈ parts) (t : Nat) :
    (toTick P b o t).den = 1 ∧ ((tick P b o t : Int) : Rat) = toTick P b o t := by
  have h : C04T.IsInt (toTick P b o t) := by
    unfold toTick
    rw [mul_sub]
    exact (C04T.quarter_isInt P b (hdiv b hb) t).sub (C04T.origin_isInt P a parts o hdiv ha ho)
  refine ⟨h.den, ?_⟩
  obtain ⟨z, hz⟩ := h
  unfold tick
  rw [hz, Round.roundHalfEven_int]

/-- the instance the exporter uses: `P = ppq (all quarter durations) minimum` -/
theorem ticks_integral_ppq (minimum : Nat) (a : Anacrusis) (parts : List TimeBase) (o : Rat)
    (hpos : ∀ b ∈ parts, ∀ d ∈ divisions b, 0 < d) (ha : a ≠ .padBar) (ho : origin a parts = some o)
    (b : TimeBase) (hb : b ∈ parts) (t : Nat) :
    (toTick (ppq (parts.flatMap divisions) minimum) b o t).den = 1 := by
  have hp : ∀ d ∈ parts.flatMap divisions, 0 < d := by
    intro d hd
    obtain ⟨b', hb', hd'⟩ := List.mem_flatMap.mp hd
    exact hpos b' hb' d hd'
  have := (ppq_minimal (parts.flatMap divisions) minimum hp).2.2.1
  exact (ticks_integral _ a parts o (fun b' hb' d hd => this d (List.mem_flatMap.mpr ⟨b', hb', hd⟩)) ha ho b hb t).1

/-- `pad_bar`: the origin is minus one bar of the first time signature, which is a whole number of
    ticks only if `beat_type ∣ 4 * beats * ppq`.  PARTIAL: this extra hypothesis is not implied by
    `ppq = lcm * 2^k` (counter-example below: 3/8 with one division per quarter). It holds whenever a
    full bar of that signature is representable in some division of the score. -/
theorem ticks_integral_pad_partial (P : Nat) (parts : List TimeBase) (o : Rat)
    (hdiv : ∀ b ∈ parts, ∀ d ∈ divisions b, d ∣ P) (ho : origin .padBar parts = some o)
    (hbar : ∀ b ∈ parts, ∀ beats bt, tsAt b 0 = some (beats, bt) → bt ∣ 4 * beats * P)
    (b : TimeBase) (hb : b ∈ parts) (t : Nat) :
    (toTick P b o t).den = 1 ∧ ((tick P b o t : Int) : Rat) = toTick P b o t := by
  have hO : C04T.IsInt ((P : Rat) * o) := by
    rcases C04T.origin_pad_cases parts o ho with rfl | ⟨b', hb', beats, bt, hts, hbt, rfl⟩
    · simpa using C04T.IsInt.zero
    · exact C04T.pad_origin_isInt P beats bt hbt (hbar b' hb' beats bt hts)
  have h : C04T.IsInt (toTick P b o t) := by
    unfold toTick
    rw [mul_sub]
    exact (C04T.quarter_isInt P b (hdiv b hb) t).sub hO
  refine ⟨h.den, ?_⟩
  obtain ⟨z, hz⟩ := h
  unfold tick
  rw [hz, Round.roundHalfEven_int]

/-- a bar that fits the grid of some division of the score is a whole number of ticks -/
theorem pad_bar_on_grid (P d beats bt : Nat) (hd : d ∣ P) (hgrid : bt ∣ 4 * beats * d) : bt ∣ 4 * beats * P := by
  obtain ⟨c, rfl⟩ := hd
  obtain ⟨e, he⟩ := hgrid
  exact ⟨e * c, by rw [← Nat.mul_assoc, he, Nat.mul_assoc]⟩

/-- a part in 3/8 with one division per quarter and a one-quarter pickup measure -/
def padWitness : TimeBase := ⟨1, [], 0, 4, some (0, 1), [(0, 3, 8)]⟩

/-- the counter-example to `ticks_integral` for `pad_bar`: ppq = lcm = 1, origin -3/2, and the tick
    image of time 0 is 1/2 -/
example : ppq (divisions padWitness) 0 = 1 ∧ origin .padBar [padWitness] = some (-3/2) ∧
    (toTick 1 padWitness (-3/2) 0).den = 2 := by
  refine ⟨by unfold ppq; simp [divisions, padWitness, natLcm, Nat.lcm, doubleUntil], by decide +kernel, by decide +kernel⟩

/-- non-vacuity: a part with divisions 3 then 7, a pickup, and a second part; origin -2/3 -/
example : origin .shift [⟨3, [(11, 7)], 0, 39, some (0, 2), [(0, 3, 4)]⟩, ⟨1, [], 0, 4, none, [(0, 3, 4)]⟩]
    = some (-2/3) := by decide +kernel

-- ====================================================================== monotone, exact differences

/-- the tick image is the ticks per quarter times the quarter distance -/
theorem ticks_diff (P : Nat) (b : TimeBase) (o : Rat) (x y : Nat) :
    toTick P b o y - toTick P b o x = (P : Rat) * (quarter b y - quarter b x) := by
  unfold toTick; ring

/-- the tick image is monotone in the timeline position, strictly when there is at least one tick
    per quarter -/
theorem ticks_mono (P : Nat) (b : TimeBase) (o : Rat) (hw : C04T.WellFormed b) (x y : Nat) :
    (x ≤ y → toTick P b o x ≤ toTick P b o y) ∧ (0 < P → x < y → toTick P b o x < toTick P b o y) := by
  constructor
  · intro hxy
    have h := C04T.quarterRaw_mono b hw x y hxy
    have hP : (0 : Rat) ≤ (P : Rat) := by exact_mod_cast Nat.zero_le P
    unfold toTick quarter
    apply mul_le_mul_of_nonneg_left _ hP
    linarith
  · intro hP hxy
    have h := C04T.quarterRaw_strictMono b hw x y hxy
    have hP' : (0 : Rat) < (P : Rat) := by exact_mod_cast hP
    unfold toTick quarter
    apply mul_lt_mul_of_pos_left _ hP'
    linarith

example : C04T.WellFormed ⟨3, [(11, 7), (25, 12)], 0, 39, some (0, 2), [(0, 3, 4)]⟩ := by
  refine ⟨by decide, by decide, ?_⟩
  simp [C04T.Asc, qRates]

-- ====================================================================== track assembly

/-- reading the delta times back gives the absolute ticks that were written, for every event list -/
theorem delta_roundtrip {α : Type} (prev : Int) (evs : List (Int × α)) :
    absoluteFrom prev (deltasFrom prev evs) = evs ∧ deltasFrom prev (absoluteFrom prev evs) = evs :=
  ⟨C04S.absolute_deltas prev evs, C04S.deltas_absolute prev evs⟩

/-- the written track read back is the sorted content: ascending ticks, the same events, and within
    a tick the tempo first, then time/key signatures, note offs, zero-duration notes, note ons,
    each kind in insertion order; the delta times are non-negative when no tick is negative -/
theorem track_order (e : TrackEvents) :
    absoluteFrom 0 (writeTrack e) = trackOrder e ∧
    (trackOrder e).Pairwise (fun a b => a.1 ≤ b.1) ∧
    (trackOrder e).Perm (e.tempos ++ e.metas ++ e.offs ++ e.zeros ++ e.ons) ∧
    (∀ t, (trackOrder e).filter (fun x => x.1 = t) =
      e.tempos.filter (fun x => x.1 = t) ++ e.metas.filter (fun x => x.1 = t) ++ e.offs.filter (fun x => x.1 = t) ++
      e.zeros.filter (fun x => x.1 = t) ++ e.ons.filter (fun x => x.1 = t)) ∧
    ((∀ x ∈ trackOrder e, 0 ≤ x.1) → ∀ x ∈ writeTrack e, 0 ≤ x.1) := by
  refine ⟨C04S.absolute_deltas 0 _, C04S.sortEv_sorted _, C04S.sortEv_perm _, ?_, ?_⟩
  · intro t
    unfold trackOrder
    rw [C04S.sortEv_stable]
    simp [List.filter_append]
  · intro h
    exact C04S.deltas_nonneg 0 _ (C04S.sortEv_sorted _) h

-- ====================================================================== pairing

/-- If no two notes of equal channel and pitch overlap (touching notes and zero-duration notes on a
    boundary allowed), the reader's pairing automaton run over the written note stream returns
    exactly the notes: as a multiset, and concretely in the order of their note offs. -/
theorem pairing_sound (notes : List NoteRec) (hno : C04P.NoOverlap notes) (hv : ∀ n ∈ notes, C04P.Valid n) :
    (pairAbs (encode notes)).Perm notes ∧
    pairTrack (deltasFrom 0 (encode notes)) = pairAbs (encode notes) := by
  have c : C04P.Ctx (C04P.tag 0 notes) :=
    ⟨C04P.tag_idx_lt 0 notes, C04P.tag_compat 0 notes hno, by
      intro p hp
      have : p.2 ∈ (C04P.tag 0 notes).map (·.2) := List.mem_map.mpr ⟨p, hp, rfl⟩
      rw [C04P.tag_map_snd] at this
      exact hv p.2 this⟩
  constructor
  · rw [C04P.encode_eq, C04P.pairAbs_stream _ c]
    have := C04P.outOf_perm (C04P.tag 0 notes)
    rwa [C04P.tag_map_snd] at this
  · unfold pairTrack
    rw [C04S.absolute_deltas]

/-- The same for a whole written track (`Model.ScoreMidi.trackEvents`): with the tempo and time/key
    signature events of the track sorted in, reading the delta-time messages of the track back returns
    exactly the notes of the track. -/
theorem track_pairing_sound (tempos metas : List (Int × Msg)) (notes : List NoteRec)
    (ht : ∀ x ∈ tempos, C04P.isNoteMsg x = false) (hm : ∀ x ∈ metas, C04P.isNoteMsg x = false)
    (hno : C04P.NoOverlap notes) (hv : ∀ n ∈ notes, C04P.Valid n) :
    (pairTrack (writeTrack (Model.ScoreMidi.trackEvents tempos metas notes))).Perm notes := by
  unfold pairTrack writeTrack Model.ScoreMidi.trackEvents
  rw [C04S.absolute_deltas, C04P.pairAbs_track tempos metas notes ht hm]
  exact (pairing_sound notes hno hv).1

/-- non-vacuity: touching notes of one pitch, a grace note on the boundary with that pitch, a chord -/
example : C04P.NoOverlap [⟨0, 4, 1, 60, 64⟩, ⟨4, 8, 1, 60, 64⟩, ⟨4, 4, 1, 60, 64⟩, ⟨0, 8, 1, 64, 64⟩, ⟨2, 6, 2, 60, 64⟩] := by
  unfold C04P.NoOverlap
  decide

/-- the hypothesis cannot be dropped: two overlapping notes of one pitch are not recovered -/
example : ¬ (pairAbs (encode [⟨0, 8, 1, 60, 64⟩, ⟨4, 6, 1, 60, 64⟩])).Perm [⟨0, 8, 1, 60, 64⟩, ⟨4, 6, 1, 60, 64⟩] := by
  decide +kernel

/-- before fix C04-5 the events of a tick were written in dictionary order: with the on of the second
    note before the off of the first, touching notes are not recovered -/
example : pairAbs [(0, .noteOn 1 60 64), (4, .noteOn 1 60 64), (4, .noteOff 1 60 64), (8, .noteOff 1 60 64)]
    = [⟨4, 4, 1, 60, 64⟩] := by decide +kernel

-- ====================================================================== the six modes

/-- what exporting with mode `m` and importing with the same mode retains of the grouping of the
    notes into (part, voice): mode 0 and 5 part and voice, modes 1 and 3 the part, modes 2 and 4 nothing
    (export mode 2 puts the parts on channels of one track, import mode 2 reads voices from tracks) -/
def Retained (mode : Nat) (a b : Key) : Prop :=
  match mode with
  | 0 => kPart a = kPart b ∧ kVoice a = kVoice b
  | 1 => kPart a = kPart b
  | 2 => True
  | 3 => kPart a = kPart b
  | 4 => True
  | _ => kPart a = kPart b ∧ kVoice a = kVoice b

/-- `map_to_track_channel`: which note keys share a track and which share a (track, channel), for each
    of the six modes and every key list -/
theorem mode_export (mode : Nat) (hm : mode ≤ 5) (keys : List Key) (tcs : List (Nat × Nat))
    (h : mapToTrackChannel mode keys = some tcs) :
    tcs.length = keys.length ∧
    ∀ a ∈ keys.zip tcs, ∀ b ∈ keys.zip tcs,
      (a.2.1 = b.2.1 ↔ C04M.SameTrack mode a.1 b.1) ∧ (a.2 = b.2 ↔ C04M.SameTC mode a.1 b.1) := by
  refine ⟨?_, C04M.export_modes mode hm keys tcs h⟩
  have r1 : ∀ {α : Type} [DecidableEq α] (xs : List α), (ranks xs).length = xs.length := fun xs => C04M.rankLoop_length [] xs
  have r2 : ∀ {α β : Type} [DecidableEq α] [DecidableEq β] (xs : List (α × β)), (nranks xs).length = xs.length :=
    fun xs => C04M.nestedLoop_length [] xs
  match mode, hm with
  | 0, _ | 1, _ | 2, _ | 3, _ | 4, _ | 5, _ =>
    simp only [mapToTrackChannel, Option.some.injEq] at h
    subst h
    simp [r1, r2]

/-- an unsupported mode is rejected as soon as there is a note -/
theorem mode_export_rejects (mode : Nat) (hm : 5 < mode) (k : Key) (keys : List Key) :
    mapToTrackChannel mode (k :: keys) = none := by
  match mode, hm with
  | n + 6, _ => simp [mapToTrackChannel]

/-- `assign_group_part_voice`: which (track, channel) pairs come back in the same (part, voice) cell, and
    for mode 1 in the same part group -/
theorem mode_import (mode : Nat) (hm : mode ≤ 5) (trch : List (Nat × Nat)) :
    (assignGroupPartVoice mode trch).length = trch.length ∧
    ∀ a ∈ trch.zip (assignGroupPartVoice mode trch), ∀ b ∈ trch.zip (assignGroupPartVoice mode trch),
      ((a.2.2.1 = b.2.2.1 ∧ a.2.2.2 = b.2.2.2) ↔ C04M.SameCellIn mode a.1 b.1) ∧
      (mode = 1 → (a.2.1 = b.2.1 ↔ a.1.1 = b.1.1)) :=
  ⟨C04M.assign_length mode trch, C04M.import_modes mode hm trch⟩

/-- Recovery: export with mode `m`, import the (track, channel) pairs that occur (sorted, as the
    importer does) with the same mode.  Two note keys come back in the same (part, voice) cell exactly when
    `Retained m` relates them; with mode 1 they come back in the same part group exactly when they were in
    the same group.  `hg`: a part belongs to one group. -/
theorem mode_recovery (mode : Nat) (hm : mode ≤ 5) (keys : List Key) (tcs : List (Nat × Nat))
    (hg : ∀ a ∈ keys, ∀ b ∈ keys, kPart a = kPart b → kGroup a = kGroup b)
    (h : mapToTrackChannel mode keys = some tcs) :
    (∀ a ∈ keys.zip tcs, ∃ c, (a.2, c) ∈ (sortedTC tcs).zip (assignGroupPartVoice mode (sortedTC tcs))) ∧
    ∀ a ∈ keys.zip tcs, ∀ b ∈ keys.zip tcs,
      ∀ ca, (a.2, ca) ∈ (sortedTC tcs).zip (assignGroupPartVoice mode (sortedTC tcs)) →
      ∀ cb, (b.2, cb) ∈ (sortedTC tcs).zip (assignGroupPartVoice mode (sortedTC tcs)) →
        ((ca.2.1 = cb.2.1 ∧ ca.2.2 = cb.2.2) ↔ Retained mode a.1 b.1) ∧
        (mode = 1 → (ca.1 = cb.1 ↔ kGroup a.1 = kGroup b.1)) := by
  constructor
  · intro a ha
    exact C04M.assign_total mode (sortedTC tcs) a.2 ((C04M.mem_sortedTC _ _).mpr (List.of_mem_zip ha).2)
  · intro a ha b hb ca hca cb hcb
    obtain ⟨e1, e2⟩ := C04M.export_modes mode hm keys tcs h a ha b hb
    obtain ⟨i1, i2⟩ := C04M.import_modes mode hm (sortedTC tcs) (a.2, ca) hca (b.2, cb) hcb
    have hka := (List.of_mem_zip ha).1
    have hkb := (List.of_mem_zip hb).1
    simp only at i1 i2
    match mode, hm with
    | 0, _ =>
      refine ⟨?_, fun h => absurd h (by decide)⟩
      rw [i1]; simpa [C04M.SameCellIn, C04M.SameTC, Retained] using e2
    | 1, _ =>
      constructor
      · rw [i1]
        simp only [C04M.SameCellIn, C04M.SameTC, Retained] at e2 ⊢
        rw [e2]
        exact ⟨fun h => h.2, fun h => ⟨hg a.1 hka b.1 hkb h, h⟩⟩
      · intro _
        rw [i2 rfl]
        simpa [C04M.SameTrack] using e1
    | 2, _ =>
      refine ⟨?_, fun h => absurd h (by decide)⟩
      rw [i1]; simpa [C04M.SameCellIn, C04M.SameTrack, Retained] using e1
    | 3, _ =>
      refine ⟨?_, fun h => absurd h (by decide)⟩
      rw [i1]; simpa [C04M.SameCellIn, C04M.SameTrack, Retained] using e1
    | 4, _ =>
      refine ⟨?_, fun h => absurd h (by decide)⟩
      rw [i1]; simp [C04M.SameCellIn, Retained]
    | 5, _ =>
      refine ⟨?_, fun h => absurd h (by decide)⟩
      rw [i1]; simpa [C04M.SameCellIn, C04M.SameTC, Retained] using e2

/-- non-vacuity: two groups, three parts, voices 1, 2 and None -/
example : mapToTrackChannel 1 [(0, 0, some 1), (0, 1, some 1), (0, 0, some 2), (1, 2, none), (0, 1, some 1)]
    = some [(0, 1), (0, 2), (0, 1), (1, 1), (0, 2)] := by decide +kernel

/-- before fix C04-6 import mode 1 ranked the part by the channel alone: (track 0, channel 1) and
    (track 1, channel 1) came back as one part.  With the fix they are parts 0 and 2 of groups 0 and 1. -/
example : assignGroupPartVoice 1 [(0, 1), (0, 2), (1, 1)] =
    [(some 0, some 0, none), (some 0, some 1, none), (some 1, some 2, none)] := by decide +kernel

-- ====================================================================== tied notes

/-- a note without a tie to a following note contributes its own duration; a tied note its duration
    plus the tied duration of the note it is tied to (`GenericNote.duration_tied`) -/
theorem tied_merged (notes : List ScoreNote) (fuel i : Nat) (n : ScoreNote) (hn : notes[i]? = some n) :
    durationTied notes (fuel + 1) i =
      match n.tieNext with
      | none => n.dur
      | some j => n.dur + durationTied notes fuel j := by
  simp only [durationTied, hn]
  cases n.tieNext <;> rfl

/-- one row per note that is not a continuation (`Part.notes_tied`): the rows are exactly the chain heads -/
theorem tied_rows (notes : List ScoreNote) :
    (notesTied notes).length = (notes.filter (fun n => !n.tiePrev)).length := by
  unfold notesTied
  have : ∀ (k : Nat) (l : List ScoreNote), notes = (notes.take k) ++ l → 
      ((List.range' k l.length).filterMap fun i =>
        match notes[i]? with
        | none => none
        | some n => if n.tiePrev then none else some (n.start, durationTied notes notes.length i, n.pitch)).length
      = (l.filter (fun n => !n.tiePrev)).length := by
    intro k l
    induction l generalizing k with
    | nil => intro _; simp
    | cons x xs ih =>
      intro hk
      have hlen : k = (notes.take k).length := by
        have := congrArg List.length hk
        simp only [List.length_append, List.length_take, List.length_cons] at this
        simp only [List.length_take]
        omega
      have hx : notes[k]? = some x := by
        rw [hk, List.getElem?_append_right (by omega)]
        simp [← hlen]
      have hk' : notes = notes.take (k + 1) ++ xs := by
        rw [List.take_add_one, hx]
        simp only [Option.toList_some, List.append_assoc, List.singleton_append]
        exact hk
      simp only [List.length_cons, List.range'_succ, List.filterMap_cons, hx, List.filter_cons]
      cases x.tiePrev with
      | true => simpa using ih (k + 1) hk'
      | false => simpa using ih (k + 1) hk'
  have h0 := this 0 notes (by simp)
  rw [List.range_eq_range']
  exact h0

example : notesTied [⟨0, 4, 60, false, some 1⟩, ⟨4, 2, 60, true, some 3⟩, ⟨4, 4, 64, false, none⟩, ⟨6, 1, 60, true, none⟩]
    = [(0, 7, 60), (4, 4, 64)] := by decide +kernel

end C04
