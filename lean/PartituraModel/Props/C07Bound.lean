/-
C07 — `FractionalSymbolicDuration.bound_integers(1024)`: the bound of symbolic durations.

The constructor of every duration (every `Offset` / `Duration` field of a score note, score time, score
property, every further component of a time signature, every partial sum of an additive duration) passes
through `bound_integers`.  Model/MatchCodec.lean `boundInts` mirrors it completely: within the bound -
1024 ITSELF INCLUDED - nothing changes; beyond it the binary64 quotient is approximated over the best of the
22 candidate denominators (binary64 arithmetic modelled exactly with rationals, `np.argmin` = first minimum).
The bound and the candidate table are re-read from the live class on every run (Gen/C07Bound.lean).
-/
import PartituraModel.Model.MatchCodec
import PartituraModel.Gen.C07Bound
import PartituraModel.Proofs.C07Bound

namespace C07
open Model Model.MatchCodec

/-- the model's bound, candidate table and constructor defaults are those of the live class (probed by
    harness/translate_c07.py on every run; a moved bound - `>=` for `>` - or an edited table stops this
    theorem from building) -/
theorem bound_table_matches_source :
    BOUND = Gen.C07Bound.fracBoundNum ∧ BOUND = Gen.C07Bound.fracBoundDen ∧ BOUND_DENS = Gen.C07Bound.boundDens ∧
    Gen.C07Bound.fracDefaultDen = 1 ∧ Gen.C07Bound.fracDefaultTdivNone = true ∧ Gen.C07Bound.fracDefaultAddNone = true := by
  decide

/-- **within the bound the constructor keeps numerator and denominator** - every n, d ≤ 1024, the boundary
    value 1024 included (a 1024th note `1/1024`, `1024/3`), with any tuplet divisor -/
theorem bound_identity (n d : Nat) (t : Option Nat) (hn : n ≤ 1024) (hd : d ≤ 1024) :
    Frac.mkB n d t = some { num := n, den := d, tdiv := t, add := none } := by
  unfold Frac.mkB
  rw [C07Bound.boundInts_in n d t hn hd]
  rfl

/-- so such a duration keeps its value -/
theorem bound_identity_value (n d : Nat) (t : Option Nat) (hn : n ≤ 1024) (hd : d ≤ 1024) :
    (Frac.mkB n d t).map Frac.value = some ((n : Rat) / ((d * t.getD 1 : Nat) : Rat)) := by
  rw [bound_identity n d t hn hd]
  rfl

example : Frac.mkB 1 1024 none = some ⟨1, 1024, none, none⟩ ∧ Frac.mkB 1024 3 (some 3) = some ⟨1024, 3, some 3, none⟩ ∧
    Frac.mkB 1024 1024 none = some ⟨1024, 1024, none, none⟩ :=
  ⟨bound_identity _ _ _ (by decide) (by decide), bound_identity _ _ _ (by decide) (by decide),
   bound_identity _ _ _ (by decide) (by decide)⟩

/-- the constructor raises only for a zero denominator under a numerator beyond the bound -/
theorem bound_total (n d : Nat) (t : Option Nat) (hd : d ≠ 0) : (Frac.mkB n d t).isSome = true := by
  unfold Frac.mkB boundInts
  split
  · simp
  · simp

/-- **beyond the bound** the new denominator is one of the 22 candidates (so between 2 and 128), the numerator
    of a non-zero duration is at least 1, and the tuplet divisor is kept -/
theorem bound_approx (n d : Nat) (t : Option Nat) (f : Frac) (hb : 1024 < n ∨ 1024 < d)
    (h : Frac.mkB n d t = some f) :
    f.den ∈ BOUND_DENS ∧ 2 ≤ f.den ∧ f.den ≤ 128 ∧ f.tdiv = t ∧ f.add = none ∧
      (n ≠ 0 → t ≠ some 0 → 1 ≤ f.num) := by
  unfold Frac.mkB boundInts at h
  have hb' : n > BOUND ∨ d > BOUND := hb
  simp only [hb', if_true] at h
  split at h
  · simp at h
  · rename_i hd
    simp only [Option.map_some, Option.some.injEq] at h
    subst h
    have hm := C07Bound.chooseDen_mem (toBinary64 ((n : Rat) / (d : Rat))) BOUND_DENS (by decide)
    have hall : ∀ x ∈ BOUND_DENS, 2 ≤ x ∧ x ≤ 128 := by decide
    refine ⟨hm, (hall _ hm).1, (hall _ hm).2, rfl, rfl, ?_⟩
    intro hn ht
    have hs : boundSign n d t = 1 := by
      unfold boundSign
      simp [hn, hd, ht]
    simp only [hs]
    split
    · exact Nat.le_refl 1
    · rename_i hk
      have : (1 : Int) ≤ roundHalfEven (toBinary64 (toBinary64 ((n : Rat) / (d : Rat)) *
          ((chooseDen (toBinary64 ((n : Rat) / (d : Rat))) BOUND_DENS : Nat) : Rat))) := by omega
      omega

/-- **the approximation is `np.argmin` over the table**: the chosen denominator has the least error of all
    candidates, and every candidate that stands before it in the table is strictly worse (first minimum) -/
theorem bound_first_minimum (n d : Nat) (t : Option Nat) (f : Frac) (hb : 1024 < n ∨ 1024 < d)
    (h : Frac.mkB n d t = some f) :
    (∀ c ∈ BOUND_DENS, boundDif (toBinary64 ((n : Rat) / (d : Rat))) f.den ≤ boundDif (toBinary64 ((n : Rat) / (d : Rat))) c) ∧
    (∀ l1 l2, BOUND_DENS = l1 ++ f.den :: l2 → f.den ∉ l1 →
      ∀ c ∈ l1, boundDif (toBinary64 ((n : Rat) / (d : Rat))) f.den < boundDif (toBinary64 ((n : Rat) / (d : Rat))) c) := by
  unfold Frac.mkB boundInts at h
  have hb' : n > BOUND ∨ d > BOUND := hb
  simp only [hb', if_true] at h
  split at h
  · simp at h
  · simp only [Option.map_some, Option.some.injEq] at h
    have hden : f.den = chooseDen (toBinary64 ((n : Rat) / (d : Rat))) BOUND_DENS := by rw [← h]
    rw [hden]
    exact ⟨C07Bound.chooseDen_min (toBinary64 ((n : Rat) / (d : Rat))) BOUND_DENS,
      fun l1 l2 hl hn => C07Bound.chooseDen_first (toBinary64 ((n : Rat) / (d : Rat))) BOUND_DENS l1 l2 hl hn⟩

-- the deliberate approximation: just beyond the bound the value changes (1/1025 becomes 1/128), a value the
-- candidates can express is kept (5000/3), and 2048/4096 becomes 1/2
example : Frac.mkB 1 1025 none = some ⟨1, 128, none, none⟩ := by decide +kernel
example : Frac.mkB 5000 3 none = some ⟨5000, 3, none, none⟩ := by decide +kernel
example : Frac.mkB 2048 4096 (some 3) = some ⟨1, 2, some 3, none⟩ := by decide +kernel
example : Frac.mkB 0 2048 none = some ⟨0, 2, none, none⟩ ∧ Frac.mkB 2000 0 none = none := by decide +kernel

/-- **duration addition, total**: with non-zero denominators `a + b` always exists, carries the non-zero
    components of both operands in order and no tuplet divisor; and whenever the common denominator and the
    summed numerator stay within the bound (1024 included) it is the exact sum -/
theorem frac_addB_total (a b : Frac) (ha : a.fullDen ≠ 0) (hb : b.fullDen ≠ 0) :
    ∃ c, Frac.addB a b = some c ∧ c.tdiv = none ∧
      c.add = some ((a.comps ++ b.comps).filter (fun x => x.1 != 0)) := by
  unfold Frac.addB
  simp only [ha, hb, or_self, if_false]
  have hl : Nat.lcm a.fullDen b.fullDen ≠ 0 := Nat.lcm_ne_zero ha hb
  cases h : boundInts (Nat.lcm a.fullDen b.fullDen / a.fullDen * a.num + Nat.lcm a.fullDen b.fullDen / b.fullDen * b.num)
      (Nat.lcm a.fullDen b.fullDen) none with
  | none =>
    unfold boundInts at h
    split at h
    · simp [hl] at h
    · simp at h
  | some r => exact ⟨_, rfl, rfl, rfl⟩

theorem frac_addB_exact (a b c : Frac) (ha : a.fullDen ≠ 0) (hb : b.fullDen ≠ 0)
    (hl : Nat.lcm a.fullDen b.fullDen ≤ 1024)
    (hn : Nat.lcm a.fullDen b.fullDen / a.fullDen * a.num + Nat.lcm a.fullDen b.fullDen / b.fullDen * b.num ≤ 1024)
    (h : Frac.addB a b = some c) : c.value = a.value + b.value := by
  have h' : Frac.add? a b = some c := by
    unfold Frac.addB at h
    unfold Frac.add?
    simp only [ha, hb, or_self, if_false] at h ⊢
    rw [C07Bound.boundInts_in _ _ none hn hl] at h
    have : ¬ (Nat.lcm a.fullDen b.fullDen / a.fullDen * a.num + Nat.lcm a.fullDen b.fullDen / b.fullDen * b.num > BOUND ∨
        Nat.lcm a.fullDen b.fullDen > BOUND) := by
      unfold BOUND; omega
    simp only [this, if_false]
    simpa using h
  exact C07Codec.frac_add_value a b c h'

-- 1/512 + 1/1024 = 3/1024 exactly (common denominator exactly the bound); 1/1024 + 1/1025 is approximated
example : Frac.addB ⟨1, 512, none, none⟩ ⟨1, 1024, none, none⟩
    = some ⟨3, 1024, none, some [(1, 512, none), (1, 1024, none)]⟩ := by decide +kernel
example : (Frac.addB ⟨1, 1024, none, none⟩ ⟨1, 1025, none, none⟩).map (fun c => (c.num, c.den)) = some (1, 128) := by
  decide +kernel

/-- **the total reader refines the exact fragment**: whatever `fracFromString` / `decTsig` read (every number
    and every partial sum within the bound), the readers with `bound_integers` modelled - the ones `decode`
    uses for every line - read as the same object -/
theorem fracFromStringB_refines (s : Str) (f : Frac) (h : fracFromString s = .ok f) : fracFromStringB s = .ok f :=
  C07Bound.fracFromStringB_of_ok s f h

theorem decTsigB_refines (s : Str) (t : TimeSig) (h : decTsig s = .ok t) : decTsigB s = .ok t :=
  C07Bound.decTsigB_of_ok s t h

/-- hence the string round trip of every well-formed duration through the total reader -/
theorem frac_string_roundtrip_total (f : Frac) (h : C07Codec.FracWF f) : fracFromStringB f.toStr = .ok f :=
  C07Bound.fracFromStringB_of_ok _ _ (C07Codec.fracFromString_toStr_full f h)

example : fracFromStringB "1/512+1/1024".toList = .ok ⟨3, 1024, none, some [(1, 512, none), (1, 1024, none)]⟩ ∧
    fracFromStringB "1/1024".toList = .ok ⟨1, 1024, none, none⟩ ∧
    fracFromStringB "3/2048".toList = .ok ⟨1, 128, none, none⟩ := by decide +kernel

end C07
