/-
C18 — round 6: `get_unique_seq` as a function of its own and the onset-wise / note-wise helpers on two-dimensional and
structured inputs (Model/CodecSeq.lean).

* `unique_seq_default`   `get_unique_seq(onsets, offsets[, return_diff])` with the groups it infers itself, for any notes
                         whose offsets do not precede their onsets: it returns; `u_onset` is the group means followed by
                         `last_time`, strictly increasing, one longer than the groups; the groups partition the notes;
                         `total_dur > 0`; `diff_u_onset` is there exactly on request, positive, one per group
* `unique_seq_groups`    the same for a caller's `unique_onset_idxs` (indices inside the table, no empty group, mean onsets
                         increasing)
* `onsetwise_roundtrip_columns`   `notewise_to_onsetwise ∘ onsetwise_to_notewise = id` on two-dimensional and structured
                         inputs (every column / field), for every partition into non-empty groups
* `decode_columns`       the column dispatch of `decode_performance`: refused exactly when a field it reads is missing,
                         otherwise `decodeFull` — fields it does not read and the order of the fields are irrelevant
                         (`columns_extra_and_order`)
* `encoded_columns_decode`   the array `encode_performance` builds under normalisation `n` decodes under `n'` exactly when
                         `n' = n` or `n' = beat_period` ("in practice, always reconstruct the time by beat_period")
-/
import PartituraModel.Props.C18Groups
import PartituraModel.Proofs.C18Seq

namespace C18
open Model Model.Codec C18P

theorem unique_seq_default {α : Type} (l : List α) (f g : α → Rat) (hne : l ≠ []) (hfg : ∀ x ∈ l, f x ≤ g x) (rd : Bool) :
    ∃ u, uniqueSeq (l.map f) (l.map g) none rd = some u ∧
      (∃ gs last, u.groups = gs.map (·.map (·.1)) ∧ gs.flatten.Perm (enumFrom 0 (l.map f)) ∧
        u.uOnset = groupMeans (fun x => x) gs ++ [last] ∧ lastTime (l.map f) (l.map g) = some last) ∧
      u.uOnset.Pairwise (· < ·) ∧ u.uOnset.length = u.groups.length + 1 ∧ 0 < u.totalDur ∧
      u.diff = (if rd then some (diffs u.uOnset) else none) ∧
      (∀ d ∈ diffs u.uOnset, 0 < d) ∧ (diffs u.uOnset).length = u.groups.length := by
  obtain ⟨h1, h2, h3, h4⟩ := uniqueSeq_default_groups (l.map f)
  obtain ⟨u, hu, hg, ⟨last, hl1, hl2⟩, r1, r2, r3, r4, r5, r6⟩ :=
    uniqueSeq_of_groups l f g hne hfg none (groupsBy (fun x => x) (l.map f)) rfl h1 h2 h3 rd
  exact ⟨u, hu, ⟨_, last, hg, h4, hl1, hl2⟩, r1, r2, r3, r4, r5, r6⟩

theorem unique_seq_groups {α : Type} (l : List α) (f g : α → Rat) (hne : l ≠ []) (hfg : ∀ x ∈ l, f x ≤ g x)
    (idx : List (List Nat)) (gs : List (Grp Rat)) (hpick : pickGroups (l.map f) idx = some gs)
    (hgne : ∀ g ∈ gs, g ≠ []) (hinc : (groupMeans (fun x => x) gs).Pairwise (· < ·)) (rd : Bool) :
    ∃ u, uniqueSeq (l.map f) (l.map g) (some idx) rd = some u ∧ u.groups = gs.map (·.map (·.1)) ∧
      (∃ last, u.uOnset = groupMeans (fun x => x) gs ++ [last] ∧ lastTime (l.map f) (l.map g) = some last) ∧
      u.uOnset.Pairwise (· < ·) ∧ u.uOnset.length = u.groups.length + 1 ∧ 0 < u.totalDur ∧
      u.diff = (if rd then some (diffs u.uOnset) else none) ∧
      (∀ d ∈ diffs u.uOnset, 0 < d) ∧ (diffs u.uOnset).length = u.groups.length :=
  uniqueSeq_of_groups l f g hne hfg (some idx) gs hpick hgne
    (fun g hg p hp => (pickGroups_mem (l.map f) idx gs hpick g hg p hp).1) hinc rd

/-- both branches of `last_time`, a caller's grouping, `return_diff`; what is refused -/
example : uniqueSeq [0, 1, 1, 2] [1, 2, 3/2, 4] none true = some ⟨[0, 1, 2, 4], 4, [[0], [1, 2], [3]], some [1, 1, 2]⟩
    ∧ uniqueSeq [0, 1, 1, 2] [1, 2, 3/2, 2] none false = some ⟨[0, 1, 2, 3], 3, [[0], [1, 2], [3]], none⟩
    ∧ uniqueSeq [0, 1, 1, 2] [1, 2, 3/2, 4] (some [[0, 1], [3, 2]]) true = some ⟨[1/2, 3/2, 4], 4, [[0, 1], [3, 2]], some [1, 5/2]⟩
    ∧ uniqueSeq [] [] none false = none ∧ uniqueSeq [0] [] none false = none
    ∧ uniqueSeq [0, 1] [1, 2] (some [[0], [2]]) false = none ∧ uniqueSeq [0, 1] [1, 2] (some [[0], [], [1]]) false = none := by
  decide +kernel

theorem onsetwise_roundtrip_columns (n : Nat) (gs : List (List Nat)) (cols : List (List Rat))
    (hperm : gs.flatten.Perm (List.range n)) (hne : ∀ g ∈ gs, g ≠ []) (hlen : ∀ c ∈ cols, c.length = gs.length) :
    ∃ v, toNotewise2 cols gs = some v ∧ (∀ c ∈ v, c.length = n) ∧ v.length = cols.length ∧ toOnsetwise2 v gs = some cols :=
  onsetwise_roundtrip2' n gs cols hperm hne hlen

example : toNotewise2 [[2, 7, 9/2], [1, 0, -1]] [[0, 2], [1], [4, 3]] = some [[2, 7, 2, 9/2, 9/2], [1, 0, 1, -1, -1]]
    ∧ toOnsetwise2 [[2, 7, 2, 9/2, 9/2], [1, 0, 1, -1, -1]] [[0, 2], [1], [4, 3]] = some [[2, 7, 9/2], [1, 0, -1]] := by
  decide +kernel

-- ------------------------------------------------------------------ the columns of the parameter array

theorem decode_columns (n : Norm) (fields : List String) (ss : List SRow) (ids? : Option (List String)) (ps : List ParamRow) :
    ((∃ c ∈ requiredColumns n, c ∉ fields) → decodeFullC n fields ss ids? ps = none) ∧
    ((∀ c ∈ requiredColumns n, c ∈ fields) → decodeFullC n fields ss ids? ps = decodeFull n ss ids? ps) := by
  unfold decodeFullC columnsOk
  constructor
  · rintro ⟨c, hc, hn⟩
    have : ¬ ((requiredColumns n).all (fields.contains ·) = true) := by
      rw [List.all_eq_true]
      intro h
      exact hn (by simpa using h c hc)
    rw [if_neg this]
  · intro h
    have : (requiredColumns n).all (fields.contains ·) = true := by
      rw [List.all_eq_true]
      intro c hc
      simpa using h c hc
    rw [if_pos this]

theorem columns_extra_and_order (n : Norm) (fields fields' : List String) (h : ∀ c, c ∈ fields → c ∈ fields') :
    columnsOk n fields = true → columnsOk n fields' = true := by
  unfold columnsOk
  rw [List.all_eq_true, List.all_eq_true]
  intro h1 c hc
  have := h1 c hc
  simp only [List.contains_iff_mem] at this ⊢
  exact h c this

theorem encoded_columns_decode (n n' : Norm) : columnsOk n' (encodedColumns n) = true ↔ (n' = n ∨ n' = .bp) := by
  cases n <;> cases n' <;> decide

example : decodeFullC .ratio ["beat_period", "velocity", "timing", "articulation_log", "beat_period_mean"]
      [⟨"a", 0, 60, 0, 1⟩] none [⟨0, 1, [1, 1/2], 1/2⟩] = none
    ∧ decodeFullC .ratio ["beat_period_mean", "pedal", "beat_period", "velocity", "timing", "articulation_log", "beat_period_ratio"]
      [⟨"a", 0, 60, 0, 1⟩] none [⟨0, 1, [1, 1/2], 1/2⟩] = some ([("a", 60, 0, 1/2, 64)], [("a", "a")]) := by
  decide +kernel

end C18
