/-
C14 (round 5) — the PerformedNote setters and histories of a PerformedPart in full.

* which invariant each assignment `note[key] = v` re-establishes, keeps or may break
  (`Ordered`: onset ≤ release, `Sounds`: release ≤ sounding end, `TicksOk`: the tick validators' conditions);
* `note.copy()` runs every validator again: it is the identity exactly on the notes whose current values pass;
* histories in which notes are ALSO removed, inserted and copied and the control stream is edited in place
  (`XOp`): an assignment of the threshold at any point never fails and leaves every note of the part — as it is
  then — with the sounding end `adjust_offsets_w_sustain` computes from the notes and the controls AS THEY ARE THEN
  (`xhistory_recompute`), so every theorem of Props/C14.lean about `soundOffAt` speaks about that state;
* over all such histories: MIDI ranges and non-negative times always hold; onset ≤ release holds as long as no
  `note_on` is assigned; release ≤ sounding end as long as no `note_off` is assigned; with neither (and no
  `note_on_tick` assigned) every note passes all validators in every state, can be copied, and is a well-formed
  note of Props/C14.lean.
-/
import PartituraModel.Proofs.C14Hist
import PartituraModel.Props.C14Dict

namespace C14
open Model Model.Pedal C14P

/-! ### what each setter re-establishes -/

/-- onset ≤ release -/
def Ordered (n : PNote) : Prop := n.on ≤ n.off
/-- release ≤ sounding end -/
def Sounds (n : PNote) : Prop := n.off ≤ n.soundOff
/-- the conditions of the two tick validators -/
def TicksOk (n : PNote) : Prop :=
  (∀ t, n.onTick = some t → 0 ≤ t) ∧ (∀ t u, n.onTick = some t → n.offTick = some u → t ≤ u)

/-- the validators pass on the current values of a note exactly when the four invariants hold -/
theorem valid_iff_invariants (n : PNote) : validInit n = true ↔ NoteInv n ∧ Ordered n ∧ Sounds n ∧ TicksOk n := by
  rw [validInit_iff]
  constructor
  · rintro ⟨⟨p1, p2⟩, h0, hno, ⟨v1, v2⟩, hs, hot, hoft⟩
    have hoo : 0 ≤ n.off ∧ n.on ≤ n.off := by
      rcases hno with h | h
      · exact absurd h0 (not_le.mpr h)
      · exact h
    have hss : 0 ≤ n.soundOff ∧ n.off ≤ n.soundOff := by
      rcases hs with h | h
      · exact absurd hoo.1 (not_le.mpr h)
      · exact h
    refine ⟨⟨p1, p2, v1, v2, h0, hoo.1, hss.1⟩, hoo.2, hss.2, hot, ?_⟩
    intro t u ht hu
    have h1 := hoft u hu
    rw [ht] at h1
    simp only [Option.getD_some] at h1
    rcases h1 with h | h
    · exact absurd (hot t ht) (not_le.mpr h)
    · exact h.2
  · rintro ⟨⟨p1, p2, v1, v2, h0, h0off, h0so⟩, ho, hs, hot, hoft⟩
    refine ⟨⟨p1, p2⟩, h0, Or.inr ⟨h0off, ho⟩, ⟨v1, v2⟩, Or.inr ⟨h0so, hs⟩, hot, ?_⟩
    intro u hu
    cases ht : n.onTick with
    | none => left; simp
    | some t =>
      right
      simp only [Option.getD_some]
      exact ⟨le_trans (hot t ht) (hoft t u ht hu), hoft t u ht hu⟩

/-- an accepted `note["note_off"] = v` RE-ESTABLISHES onset ≤ release (whatever the note was before), an accepted
    `note["sound_off"] = v` re-establishes release ≤ sounding end, an accepted `note["note_off_tick"] = v` the order of
    the ticks -/
theorem setitem_reestablishes (n m : PNote) (hn : NoteInv n) :
    (∀ v, setItem n (.noteOff v) = .ok m → Ordered m)
    ∧ (∀ v, setItem n (.soundOff v) = .ok m → Sounds m)
    ∧ (∀ v, (∀ t, n.onTick = some t → 0 ≤ t) → setItem n (.noteOffTick v) = .ok m → TicksOk m) := by
  obtain ⟨_, _, _, _, a5, a6, _⟩ := hn
  refine ⟨?_, ?_, ?_⟩
  · intro v h
    have b := ((setitem_accepts_iff n).2.2.2.1 v).mp ⟨m, h⟩
    simp only [setItem] at h
    split at h
    · have := Except.ok.inj h; subst this
      rcases b with b | b
      · exact absurd a5 (not_le.mpr b)
      · exact b.2
    · cases h
  · intro v h
    have b := ((setitem_accepts_iff n).2.2.2.2.1 v).mp ⟨m, h⟩
    simp only [setItem] at h
    split at h
    · have := Except.ok.inj h; subst this
      rcases b with b | b
      · exact absurd a6 (not_le.mpr b)
      · exact b.2
    · cases h
  · intro v hot h
    have b := ((setitem_accepts_iff n).2.2.2.2.2.2.1 v).mp ⟨m, h⟩
    simp only [setItem] at h
    split at h
    · have := Except.ok.inj h; subst this
      refine ⟨hot, ?_⟩
      intro t u ht hu
      simp only at ht hu
      have := Option.some.inj hu; subst this
      rw [ht] at b
      simp only [Option.getD_some] at b
      rcases b with b | b
      · exact absurd (hot t ht) (not_le.mpr b)
      · exact b.2
    · cases h

/-- every assignment but `note_on` keeps onset ≤ release -/
theorem setitem_keeps_ordered (n m : PNote) (op : SetOp) (hn : NoteInv n) (ho : Ordered n)
    (hop : ∀ v, op ≠ .noteOn v) (h : setItem n op = .ok m) : Ordered m := by
  cases op with
  | noteOn v => exact absurd rfl (hop v)
  | noteOff v => exact (setitem_reestablishes n m hn).1 v h
  | midiPitch v => cases h
  | other => cases h
  | _ =>
    simp only [setItem] at h
    first
      | (have := Except.ok.inj h; subst this; exact ho)
      | (split at h
         · have := Except.ok.inj h; subst this; exact ho
         · cases h)

/-- every assignment but `note_off` keeps release ≤ sounding end -/
theorem setitem_keeps_sounds (n m : PNote) (op : SetOp) (hn : NoteInv n) (hs : Sounds n)
    (hop : ∀ v, op ≠ .noteOff v) (h : setItem n op = .ok m) : Sounds m := by
  cases op with
  | noteOff v => exact absurd rfl (hop v)
  | soundOff v => exact (setitem_reestablishes n m hn).2.1 v h
  | midiPitch v => cases h
  | other => cases h
  | _ =>
    simp only [setItem] at h
    first
      | (have := Except.ok.inj h; subst this; exact hs)
      | (split at h
         · have := Except.ok.inj h; subst this; exact hs
         · cases h)

/-- every assignment but `note_on_tick` keeps the tick conditions -/
theorem setitem_keeps_ticks (n m : PNote) (op : SetOp) (hn : NoteInv n) (ht : TicksOk n)
    (hop : ∀ v, op ≠ .noteOnTick v) (h : setItem n op = .ok m) : TicksOk m := by
  cases op with
  | noteOnTick v => exact absurd rfl (hop v)
  | noteOffTick v => exact (setitem_reestablishes n m hn).2.2 v ht.1 h
  | midiPitch v => cases h
  | other => cases h
  | _ =>
    simp only [setItem] at h
    first
      | (have := Except.ok.inj h; subst this; exact ht)
      | (split at h
         · have := Except.ok.inj h; subst this; exact ht
         · cases h)

/-- … and the three exceptions are real: `note_on` may pass the release, `note_off` may pass the sounding end
    (`set_off_can_pass_sound_off`), `note_on_tick` may pass `note_off_tick` — each accepted by its validator -/
theorem setters_can_break :
    (∃ n m : PNote, validInit n = true ∧ setItem n (.noteOn 5) = .ok m ∧ ¬ Ordered m)
    ∧ (∃ n m : PNote, validInit n = true ∧ setItem n (.noteOff 7) = .ok m ∧ ¬ Sounds m)
    ∧ (∃ n m : PNote, validInit n = true ∧ setItem n (.noteOnTick 9) = .ok m ∧ ¬ TicksOk m) := by
  refine ⟨⟨⟨none, 60, 60, 1, 2, 2, 60, 0, 1, none, none⟩, ⟨none, 60, 60, 5, 2, 2, 60, 0, 1, none, none⟩, by decide +kernel,
            by decide +kernel, by unfold Ordered; norm_num⟩,
          ⟨⟨none, 60, 60, 1, 2, 2, 60, 0, 1, none, none⟩, ⟨none, 60, 60, 1, 7, 2, 60, 0, 1, none, none⟩, by decide +kernel,
            by decide +kernel, by unfold Sounds; norm_num⟩,
          ⟨⟨none, 60, 60, 1, 2, 2, 60, 0, 1, some 1, some 4⟩, ⟨none, 60, 60, 1, 2, 2, 60, 0, 1, some 9, some 4⟩, by decide +kernel,
            by decide +kernel, ?_⟩⟩
  intro h
  have := h.2 9 4 rfl rfl
  omega

/-! ### both pitch keys -/

/-- a dictionary that carries BOTH `pitch` and `midi_pitch`, stated exactly: `pitch` is the one that is validated and
    kept under `pitch`; `midi_pitch` is kept as given — never validated — and is what `adjust_offsets_w_sustain`
    (re-strike grouping) and `note_array` (the pitch column) read; the first accepted `note["pitch"] = v` puts `v`
    under both keys.  With equal values (or one key) none of this can be seen: `init_valid` -/
theorem both_pitch_keys (r : RawNote) (a b : Int) (ha : r.pitch = some a) (hb : r.midiPitch = some b) (n : PNote)
    (h : initNote r = some n) :
    n.pitch = a ∧ n.midiPitch = b ∧ n.toNote.pitch = b ∧ 0 ≤ a ∧ a ≤ 127
    ∧ ∀ v m, setItem n (.pitch v) = .ok m → m.pitch = v ∧ m.midiPitch = v ∧ m.toNote.pitch = v := by
  obtain ⟨_, hp, hmp, _, _, _, _, _, _, _, _, hv⟩ := init_defaults r n h
  rw [ha, hb] at hp
  simp only [Option.or_some] at hp
  have hpa : n.pitch = a := (Option.some.inj hp).symm
  have hmb : n.midiPitch = b := by rw [hmp, hb]; rfl
  obtain ⟨⟨p1, p2⟩, _⟩ := (validInit_iff n).mp hv
  refine ⟨hpa, hmb, hmb, hpa ▸ p1, hpa ▸ p2, ?_⟩
  intro v m hm
  obtain ⟨rfl, _⟩ := setitem_pitch n m v hm
  exact ⟨rfl, rfl, rfl⟩

-- `midi_pitch` 300 next to `pitch` 60 is accepted and reaches the readers; `pitch` 300 next to `midi_pitch` 60 is not
example : (initNote ⟨none, some 60, some 300, some 0, some 1, none, none, none, none, none, none⟩).map (·.toNote.pitch)
    = some 300 := by decide +kernel
example : initNote ⟨none, some 300, some 60, some 0, some 1, none, none, none, none, none, none⟩ = none := by decide +kernel

/-! ### `note.copy()` -/

/-- `note.copy()` succeeds exactly when every validator passes on the note's CURRENT values, and then it is the note
    (an equal `PerformedNote` over a new dictionary) -/
theorem copy_iff_valid (n : PNote) :
    (validInit n = true → copyNote n = some n) ∧ (validInit n ≠ true → copyNote n = none)
    ∧ (∀ m, copyNote n = some m → m = n) := by
  rw [copyNote_eq]
  refine ⟨fun h => by rw [if_pos h], fun h => by rw [if_neg h], ?_⟩
  intro m hm
  split at hm
  · exact (Option.some.inj hm).symm
  · cases hm

/-- a freshly constructed note can be copied -/
theorem copy_after_init (r : RawNote) (n : PNote) (h : initNote r = some n) : copyNote n = some n :=
  (copy_iff_valid n).1 (init_defaults r n h).2.2.2.2.2.2.2.2.2.2.2

-- after `note["note_off"] = 7` the stored sounding end (2) lies before the release: the copy raises; after the
-- sounding end is assigned too it succeeds
example : (match setItem ⟨none, 60, 60, 1, 2, 2, 60, 0, 1, none, none⟩ (.noteOff 7) with
           | .ok m => copyNote m | .error _ => none) = none := by decide +kernel
example : (match setItem ⟨none, 60, 60, 1, 7, 2, 60, 0, 1, none, none⟩ (.soundOff 8) with
           | .ok m => copyNote m | .error _ => none) = some ⟨none, 60, 60, 1, 7, 8, 60, 0, 1, none, none⟩ := by decide +kernel

/-- the reader side: the nine completed keys are always present, the tick keys exactly when stored; a key that was
    never stored reads `None` and nothing can be deleted (the driver answers `K` to every `del`) -/
theorem reader_keys (n : PNote) :
    (∀ k, k ≠ .noteOnTick → k ≠ .noteOffTick → k ≠ .other → hasKey n k = true)
    ∧ hasKey n .noteOnTick = n.onTick.isSome ∧ hasKey n .noteOffTick = n.offTick.isSome ∧ hasKey n .other = false
    ∧ getItem n .other = .none ∧ (n.onTick = none → getItem n .noteOnTick = .none)
    ∧ 9 ≤ noteLen n ∧ noteLen n ≤ 11 := by
  refine ⟨?_, rfl, rfl, rfl, rfl, ?_, ?_, ?_⟩
  · intro k h1 h2 h3
    cases k <;> first | rfl | exact absurd rfl h1 | exact absurd rfl h2 | exact absurd rfl h3
  · intro h; simp [getItem, h]
  · unfold noteLen; omega
  · unfold noteLen
    split <;> split <;> omega

/-! ### histories with removals, insertions, copies and control edits -/

/-- a statement that raises leaves the part exactly as it was -/
theorem xstep_error_unchanged (p : PPart) (o : XOp) (h : (xstep p o).2 ≠ .ok) : (xstep p o).1 = p := by
  cases o with
  | base o => exact step_error_unchanged p o h
  | delNote i =>
    simp only [xstep] at h ⊢
    split <;> simp_all
  | insNote i r =>
    simp only [xstep] at h ⊢
    split <;> simp_all
  | copyNote i =>
    simp only [xstep] at h ⊢
    split
    · rfl
    · split <;> simp_all
  | ctl c =>
    simp only [xstep] at h ⊢
    split <;> simp_all

/-- the control list after one statement: only a control statement touches it -/
theorem xstep_controls (p : PPart) (o : XOp) : (xstep p o).1.controls = ctlAfter p.controls [o] := by
  cases o with
  | base o => simp only [xstep, ctlAfter]; exact step_controls p o
  | delNote i => simp only [xstep, ctlAfter]; split <;> rfl
  | insNote i r => simp only [xstep, ctlAfter]; split <;> rfl
  | copyNote i =>
    simp only [xstep, ctlAfter]
    split
    · rfl
    · split <;> rfl
  | ctl c =>
    simp only [xstep, ctlAfter]
    cases ctlStep p.controls c <;> rfl

theorem ctlAfter_cons (cs : List Control) (o : XOp) (os : List XOp) :
    ctlAfter cs (o :: os) = ctlAfter (ctlAfter cs [o]) os := by
  cases o <;> rfl

/-- what a copy does to the part: nothing (it succeeds only on a note that is valid as it stands, and is that note) -/
theorem xstep_copy (p : PPart) (i : Nat) : (xstep p (.copyNote i)).1 = p := by
  simp only [xstep]
  split
  · rfl
  · rename_i n hn
    split
    · rename_i m hm
      have := (copy_iff_valid n).2.2 m hm
      subst this
      rw [setAt_self _ _ _ hn]
    · rfl

/-- "setting it recomputes every note", over ALL histories of threshold assignments, item assignments, appended /
    inserted / removed / copied notes and edits of the control stream (append, delete, change of number / time /
    value, replacement): whenever statement `k` is the assignment of `t` it succeeds, and afterwards the `sound_off`
    column is `adjust_offsets_w_sustain` of the notes the part holds at that moment and of the control stream as the
    control statements before `k` have left it; no sounding end lies before its release -/
theorem xhistory_recompute (p : PPart) (ops : List XOp) (k : Nat) (t : Int) (h : ops[k]? = some (.base (.thr t))) :
    ∃ q, (xrun p ops)[k]? = some (q, .ok) ∧ q.thr = t ∧ q.controls = ctlAfter p.controls (ops.take k)
      ∧ soundOffs (q.notes.map PNote.toNote) q.controls t = some (q.notes.map (·.soundOff))
      ∧ ∀ (i : Nat) (n : PNote), q.notes[i]? = some n → n.off ≤ n.soundOff := by
  induction ops generalizing p k with
  | nil => simp at h
  | cons o rest ih =>
    cases k with
    | zero =>
      simp only [List.getElem?_cons_zero, Option.some.injEq] at h
      subst h
      obtain ⟨q, hq, ht, hc, _, _, _, hs⟩ := step_thr p t
      refine ⟨q, ?_, ht, ?_, hs, ?_⟩
      · simp only [xrun, xstep, List.getElem?_cons_zero, hq]
      · simpa [ctlAfter] using hc
      · intro i n hn
        exact (state_sound p t q hq i n hn).2
    | succ k' =>
      simp only [List.getElem?_cons_succ] at h
      obtain ⟨q, hq, ht, hc, hs, hge⟩ := ih (xstep p o).1 k' h
      refine ⟨q, ?_, ht, ?_, hs, hge⟩
      · simp only [xrun, List.getElem?_cons_succ]
        exact hq
      · rw [hc, xstep_controls, List.take_succ_cons, ← ctlAfter_cons]

/-- … so every theorem of Props/C14.lean about `soundOffAt` holds for every note of that state -/
theorem xstate_sound (p : PPart) (ops : List XOp) (k : Nat) (t : Int) (h : ops[k]? = some (.base (.thr t)))
    (q : PPart) (obs : Obs) (hq : (xrun p ops)[k]? = some (q, obs)) (i : Nat) (n : PNote) (hn : q.notes[i]? = some n) :
    soundOffAt (q.notes.map PNote.toNote) q.controls t i = some n.soundOff := by
  obtain ⟨q', hq', _, _, hs, _⟩ := xhistory_recompute p ops k t h
  rw [hq] at hq'
  have : q = q' := (Prod.mk.inj (Option.some.inj hq')).1
  subst this
  unfold soundOffAt
  rw [hs]
  simp [List.getElem?_map, hn]

-- the pedal is down from 1/2 to 5 and note b (pitch 60, struck at 3) cuts note a.  Removing b and assigning the
-- threshold again frees a (it sounds until the pedal is lifted); lifting the pedal earlier by editing the control in
-- place (time 5 -> 5/2) shortens it at the next assignment — not before; deleting the pedal-down event ends it at the
-- release
example : (buildRaw [⟨some "a", some 60, none, some 0, some 2, none, none, none, none, none, none⟩,
                     ⟨some "b", some 60, none, some 3, some 4, none, none, none, none, none, none⟩]
      [⟨64, 1/2, 100, none⟩, ⟨64, 5, 0, none⟩] 64).map (fun p =>
        (p.notes.map (·.soundOff),
         (xrun p [.delNote 1, .base (.thr 64), .ctl (.setTime 1 (5/2)), .base (.thr 64), .delNote 7, .ctl (.del 0),
                  .base (.thr 64), .ctl (.setValue 3 1), .insNote 0 ⟨some "c", some 60, none, some 1, none, none, none, none, none, none, none⟩]).map
           (fun x => (x.2, x.1.notes.map (·.soundOff)))))
    = some ([3, 5], [(.ok, [3]), (.ok, [5]), (.ok, [5]), (.ok, [5/2]), (.idxErr, [5/2]), (.ok, [5/2]), (.ok, [2]),
                     (.idxErr, [2]), (.valErr, [2])]) := by decide +kernel

/-! ### invariants over all such histories -/

/-- one statement preserves every property of notes that the constructor establishes, the assignments allowed in
    this statement keep, and a stored sounding end at or after the release keeps -/
theorem xstep_preserves (P : PNote → Prop) (p : PPart) (o : XOp)
    (hinit : ∀ r n, initNote r = some n → P n)
    (hset : ∀ i n m op, o = .base (.set i op) → P n → setItem n op = .ok m → P m)
    (hsound : ∀ (n : PNote) (s : Rat), P n → n.off ≤ s → P { n with soundOff := s })
    (hp : ∀ n ∈ p.notes, P n) : ∀ n ∈ (xstep p o).1.notes, P n := by
  cases o with
  | base o =>
    cases o with
    | thr t =>
      obtain ⟨q, so, hq, hso, hnotes, hlen, _, _⟩ := assignThr_spec p t
      simp only [xstep, step, hq]
      rw [hnotes]
      intro x hx
      obtain ⟨k, n, s, hn, hs, rfl⟩ := mem_storeSound p.notes so x hx
      apply hsound n s (hp n (List.mem_of_getElem? hn))
      obtain ⟨y, hy, hge⟩ := ge_release (p.notes.map PNote.toNote) p.controls t k n.toNote
        (by simp [List.getElem?_map, hn])
      unfold soundOffAt at hy
      rw [hso] at hy
      simp only at hy
      rw [hs] at hy
      have := Option.some.inj hy
      subst this
      exact hge
    | set i op =>
      simp only [xstep, step]
      split
      · exact hp
      · rename_i n0 hn0
        split
        · rename_i m hm
          intro n hn
          rcases mem_setAt _ _ _ _ hn with rfl | h
          · exact hset i n0 _ op rfl (hp n0 (List.mem_of_getElem? hn0)) hm
          · exact hp n h
        · exact hp
        · exact hp
    | append r =>
      simp only [xstep, step]
      split
      · rename_i n0 hn0
        intro n hn
        rcases List.mem_append.mp hn with h | h
        · exact hp n h
        · rw [List.mem_singleton.mp h]
          exact hinit r n0 hn0
      · exact hp
  | delNote i =>
    simp only [xstep]
    split
    · intro n hn; exact hp n (mem_removeAt _ _ _ hn)
    · exact hp
  | insNote i r =>
    simp only [xstep]
    split
    · rename_i n0 hn0
      intro n hn
      rcases mem_insertAt _ _ _ _ hn with rfl | h
      · exact hinit r _ hn0
      · exact hp n h
    · exact hp
  | copyNote i => rw [xstep_copy]; exact hp
  | ctl c =>
    simp only [xstep]
    split <;> exact hp

/-- … and so does every history, when each of its item assignments is one of the `allowed` ones -/
theorem xhistory_preserves (P : PNote → Prop) (allowed : SetOp → Prop)
    (hinit : ∀ r n, initNote r = some n → P n)
    (hset : ∀ n m op, allowed op → P n → setItem n op = .ok m → P m)
    (hsound : ∀ (n : PNote) (s : Rat), P n → n.off ≤ s → P { n with soundOff := s })
    (p : PPart) (ops : List XOp) (hops : ∀ o ∈ ops, ∀ i op, o = .base (.set i op) → allowed op)
    (hp : ∀ n ∈ p.notes, P n) : ∀ x ∈ xrun p ops, ∀ n ∈ x.1.notes, P n := by
  induction ops generalizing p with
  | nil => intro x hx; cases hx
  | cons o rest ih =>
    intro x hx
    simp only [xrun, List.mem_cons] at hx
    have h1 := xstep_preserves P p o hinit
      (fun i n m op ho hn h => hset n m op (hops o List.mem_cons_self i op ho) hn h) hsound hp
    rcases hx with rfl | hx
    · exact h1
    · exact ih (xstep p o).1 (fun o' ho' => hops o' (List.mem_cons_of_mem _ ho')) h1 x hx

/-- the notes of a constructed part satisfy whatever the constructor of a note establishes and a sounding end at or
    after the release keeps -/
theorem built_notes (P : PNote → Prop) (hinit : ∀ r n, initNote r = some n → P n)
    (hsound : ∀ (n : PNote) (s : Rat), P n → n.off ≤ s → P { n with soundOff := s })
    (rs : List RawNote) (cs : List Control) (thr : Int) (p : PPart) (hp : buildRaw rs cs thr = some p) :
    ∀ n ∈ p.notes, P n := by
  unfold buildRaw at hp
  cases hns : mapM' initNote rs with
  | none => simp only [hns] at hp; cases hp
  | some ns =>
    simp only [hns] at hp
    have hns' : ∀ n ∈ ns, P n := by
      intro n hn
      obtain ⟨r, _, hrn⟩ := forall₂_mem_right ((mapM'_some_iff _ _ _).mp hns) n hn
      exact hinit r n hrn
    have := xstep_preserves P { notes := ns, controls := cs, thr := thr } (.base (.thr thr)) hinit
      (fun i n m op ho _ _ => by cases ho) hsound hns'
    simp only [xstep, step, hp] at this
    exact this

theorem init_invariants (r : RawNote) (n : PNote) (h : initNote r = some n) :
    NoteInv n ∧ Ordered n ∧ Sounds n ∧ TicksOk n :=
  (valid_iff_invariants n).mp (init_defaults r n h).2.2.2.2.2.2.2.2.2.2.2

/-- in every state of every such history every note keeps the MIDI ranges of pitch and velocity and has no negative
    time — whatever is assigned, removed, inserted, copied or done to the controls -/
theorem xhistory_note_inv (rs : List RawNote) (cs : List Control) (thr : Int) (p : PPart)
    (hp : buildRaw rs cs thr = some p) (ops : List XOp) : ∀ x ∈ xrun p ops, ∀ n ∈ x.1.notes, NoteInv n := by
  have hsound : ∀ (n : PNote) (s : Rat), NoteInv n → n.off ≤ s → NoteInv { n with soundOff := s } := by
    rintro n s ⟨a1, a2, a3, a4, a5, a6, _⟩ hs
    exact ⟨a1, a2, a3, a4, a5, a6, le_trans a6 hs⟩
  exact xhistory_preserves NoteInv (fun _ => True) init_inv (fun n m op _ hn h => setitem_inv n m op hn h) hsound p ops
    (fun _ _ _ _ _ => trivial) (built_notes NoteInv init_inv hsound rs cs thr p hp)

/-- as long as no `note_on` is assigned, every note of every state has onset ≤ release (`note_off` assignments are
    checked against the stored onset; removals, insertions, copies and control edits cannot disturb it) -/
theorem xhistory_ordered (rs : List RawNote) (cs : List Control) (thr : Int) (p : PPart)
    (hp : buildRaw rs cs thr = some p) (ops : List XOp)
    (hops : ∀ o ∈ ops, ∀ i v, o ≠ .base (.set i (.noteOn v))) :
    ∀ x ∈ xrun p ops, ∀ n ∈ x.1.notes, Ordered n := by
  have hsound : ∀ (n : PNote) (s : Rat), NoteInv n ∧ Ordered n → n.off ≤ s → NoteInv { n with soundOff := s } ∧ Ordered { n with soundOff := s } := by
    rintro n s ⟨⟨a1, a2, a3, a4, a5, a6, _⟩, ho⟩ hs
    exact ⟨⟨a1, a2, a3, a4, a5, a6, le_trans a6 hs⟩, ho⟩
  have hinit : ∀ r n, initNote r = some n → NoteInv n ∧ Ordered n :=
    fun r n h => ⟨(init_invariants r n h).1, (init_invariants r n h).2.1⟩
  have := xhistory_preserves (fun n => NoteInv n ∧ Ordered n) (fun op => ∀ v, op ≠ .noteOn v) hinit
    (fun n m op hop hn h => ⟨setitem_inv n m op hn.1 h, setitem_keeps_ordered n m op hn.1 hn.2 hop h⟩) hsound p ops
    (fun o ho i op he v hv => hops o ho i v (by rw [he, hv]))
    (built_notes _ hinit hsound rs cs thr p hp)
  exact fun x hx n hn => (this x hx n hn).2

/-- as long as no `note_off` is assigned, every note of every state has release ≤ sounding end — also between
    threshold assignments -/
theorem xhistory_sounds (rs : List RawNote) (cs : List Control) (thr : Int) (p : PPart)
    (hp : buildRaw rs cs thr = some p) (ops : List XOp)
    (hops : ∀ o ∈ ops, ∀ i v, o ≠ .base (.set i (.noteOff v))) :
    ∀ x ∈ xrun p ops, ∀ n ∈ x.1.notes, Sounds n := by
  have hsound : ∀ (n : PNote) (s : Rat), NoteInv n ∧ Sounds n → n.off ≤ s → NoteInv { n with soundOff := s } ∧ Sounds { n with soundOff := s } := by
    rintro n s ⟨⟨a1, a2, a3, a4, a5, a6, _⟩, _⟩ hs
    exact ⟨⟨a1, a2, a3, a4, a5, a6, le_trans a6 hs⟩, hs⟩
  have hinit : ∀ r n, initNote r = some n → NoteInv n ∧ Sounds n :=
    fun r n h => ⟨(init_invariants r n h).1, (init_invariants r n h).2.2.1⟩
  have := xhistory_preserves (fun n => NoteInv n ∧ Sounds n) (fun op => ∀ v, op ≠ .noteOff v) hinit
    (fun n m op hop hn h => ⟨setitem_inv n m op hn.1 h, setitem_keeps_sounds n m op hn.1 hn.2 hop h⟩) hsound p ops
    (fun o ho i op he v hv => hops o ho i v (by rw [he, hv]))
    (built_notes _ hinit hsound rs cs thr p hp)
  exact fun x hx n hn => (this x hx n hn).2

/-- with neither `note_on` nor `note_off` nor `note_on_tick` assigned, every note of every state passes ALL validators
    as it stands: it can be copied (the copy is the note), and with consistent pitch keys what
    `adjust_offsets_w_sustain` and `note_array` read of it is a well-formed note of Props/C14.lean -/
theorem xhistory_valid (rs : List RawNote) (cs : List Control) (thr : Int) (p : PPart)
    (hp : buildRaw rs cs thr = some p) (ops : List XOp)
    (hops : ∀ o ∈ ops, ∀ i v, o ≠ .base (.set i (.noteOn v)) ∧ o ≠ .base (.set i (.noteOff v)))
    (hopt : ∀ o ∈ ops, ∀ i v, o ≠ .base (.set i (.noteOnTick v))) :
    ∀ x ∈ xrun p ops, ∀ n ∈ x.1.notes,
      validInit n = true ∧ copyNote n = some n ∧ (n.midiPitch = n.pitch → validNote n.toNote = true) := by
  have hsound : ∀ (n : PNote) (s : Rat), NoteInv n ∧ TicksOk n → n.off ≤ s → NoteInv { n with soundOff := s } ∧ TicksOk { n with soundOff := s } := by
    rintro n s ⟨⟨a1, a2, a3, a4, a5, a6, _⟩, ht⟩ hs
    exact ⟨⟨a1, a2, a3, a4, a5, a6, le_trans a6 hs⟩, ht⟩
  have hinit : ∀ r n, initNote r = some n → NoteInv n ∧ TicksOk n :=
    fun r n h => ⟨(init_invariants r n h).1, (init_invariants r n h).2.2.2⟩
  have hticks := xhistory_preserves (fun n => NoteInv n ∧ TicksOk n) (fun op => ∀ v, op ≠ .noteOnTick v) hinit
    (fun n m op hop hn h => ⟨setitem_inv n m op hn.1 h, setitem_keeps_ticks n m op hn.1 hn.2 hop h⟩) hsound p ops
    (fun o ho i op he v hv => hopt o ho i v (by rw [he, hv]))
    (built_notes _ hinit hsound rs cs thr p hp)
  have hord := xhistory_ordered rs cs thr p hp ops (fun o ho i v => (hops o ho i v).1)
  have hsnd := xhistory_sounds rs cs thr p hp ops (fun o ho i v => (hops o ho i v).2)
  intro x hx n hn
  have hv : validInit n = true :=
    (valid_iff_invariants n).mpr ⟨(hticks x hx n hn).1, hord x hx n hn, hsnd x hx n hn, (hticks x hx n hn).2⟩
  refine ⟨hv, (copy_iff_valid n).1 hv, ?_⟩
  intro hk
  obtain ⟨a1, a2, a3, a4, a5, _, _⟩ := (hticks x hx n hn).1
  apply (validNote_iff _).mpr
  simp only [PNote.toNote, hk]
  exact ⟨a1, a2, a5, hord x hx n hn, a3, a4⟩

end C14
