/-
C02 (round 6) — the statement for the maps AS WRITTEN without the side condition `tolInactiveB`.

Round 5 proved `fwdS = fwd` / `invS = inv` (the interpolation stack as written against the recursive maps of the
theorems) under the hypothesis that the first measure is not within `numpy.isclose` of a full bar.  The
hypothesis is only needed for ONE clause, the place of zero: when the guard bites the code subtracts nothing,
i.e. it behaves exactly like the same part without a first measure.  `effective p m` is that part; the maps as
written of `p` ARE the recursive maps of `effective p m` (`fwdS_eq_effective`, `invS_eq_effective`), which has the
same key points, the same extent and is well formed when `p` is.  Hence every clause that does not speak about the
place of zero — exactness of every stretch, monotonicity, continuity, the round trip, the domain, NaN outside —
holds for the code as written on EVERY reachable part (`property_as_written_unconditional`), and the place of
zero is characterised in both cases (`origin_as_written`).
-/
import PartituraModel.Props.C02Scipy

namespace C02
open Model.TimeMap C02Proofs

/-- the part whose recursive maps are the maps the code computes for `p`: `p` itself, or `p` without its first
measure where the tolerance guard of the pickup test (fix C02-3) bites -/
def effective (p : Part) (m : Mode) : Part := if tolInactiveB p m = true then p else { p with m1 := none }

theorem effective_wf (p : Part) (m : Mode) (h : WF p m) : WF (effective p m) m := by
  unfold effective
  split
  · exact h
  · exact h

/-- the effective part has the key points, the extent, the quarter durations and the signatures of `p` -/
theorem effective_same (p : Part) (m : Mode) :
    keypoints (effective p m) m = keypoints p m ∧ keyTimes (effective p m) m = keyTimes p m ∧
    (effective p m).first = p.first ∧ (effective p m).last = p.last ∧ (effective p m).npoints = p.npoints ∧
    (effective p m).qd = p.qd ∧ (effective p m).ts = p.ts := by
  unfold effective
  split <;> exact ⟨rfl, rfl, rfl, rfl, rfl, rfl, rfl⟩

/-- where the guard bites the code subtracts nothing -/
theorem pickupShiftS_of_bite (p : Part) (m : Mode) (h : WF p m) (ht : ¬ tolInactiveB p m = true) :
    pickupShiftS p m (knots (keypoints p m) 0) = 0 := by
  have hk := knots0_ok p m h
  unfold tolInactiveB at ht
  unfold pickupShiftS
  cases hm : p.m1 with
  | none => rfl
  | some m1 =>
    rw [hm] at ht
    simp only at ht ⊢
    rw [actualDurS_eq _ hk]
    cases ha : actualDur (knots (keypoints p m) 0) m1 with
    | none => rfl
    | some a =>
      rw [ha] at ht
      simp only at ht ⊢
      cases hs : p.ts.find? (fun s => s.t = m1.1) with
      | none => rfl
      | some s =>
        rw [hs] at ht
        simp only at ht ⊢
        have hn : notNearBar a (normalDur m s) = false := by
          cases hnn : notNearBar a (normalDur m s) with
          | false => rfl
          | true => rw [hnn] at ht; simp at ht
        simp [hn]

theorem finalKnotsS_effective (p : Part) (m : Mode) (h : WF p m) :
    finalKnotsS p m = finalKnots (effective p m) m := by
  by_cases ht : tolInactiveB p m = true
  · have : effective p m = p := by unfold effective; rw [if_pos ht]
    rw [this]
    exact finalKnotsS_eq p m h ht
  · have he : effective p m = { p with m1 := none } := by unfold effective; rw [if_neg ht]
    rw [he]
    unfold finalKnotsS finalKnots
    simp only
    rw [pickupShiftS_of_bite p m h ht]
    rfl

/-- **the forward map as written is the recursive forward map of the effective part** — no hypothesis about the
length of the first measure -/
theorem fwdS_eq_effective (p : Part) (m : Mode) (h : WF p m) (x : Rat) :
    fwdS p m x = fwd (effective p m) m x := by
  unfold fwdS fwd
  rw [(effective_same p m).2.2.2.2.1, finalKnotsS_effective p m h,
    linearS_eq_interp _ (finalKnots_ok _ m (effective_wf p m h))]

/-- and so is the inverse map -/
theorem invS_eq_effective (p : Part) (m : Mode) (h : WF p m) (y : Rat) :
    invS p m y = inv (effective p m) m y := by
  unfold invS inv
  rw [(effective_same p m).2.2.2.2.1, (effective_same p m).2.2.1, finalKnotsS_effective p m h,
    linearS_eq_interp _ (knotsOK_swap _ (finalKnots_ok _ m (effective_wf p m h)))]

/-- `inv(fwd(x))` as the code computes it is `x` on the whole timeline of EVERY well-formed part -/
theorem roundTripS_on_timeline_all (p : Part) (m : Mode) (h : WF p m) (x : Rat)
    (h0 : (p.first : Rat) ≤ x) (h1 : x ≤ (p.last : Rat)) : roundTripS p m x = some x := by
  have hw := effective_wf p m h
  have hs := effective_same p m
  obtain ⟨y, hy, hi⟩ := inv_fwd_on_timeline (effective p m) m hw x (by rw [hs.2.2.1]; exact h0) (by rw [hs.2.2.2.1]; exact h1)
  unfold roundTripS
  rw [fwdS_eq_effective p m h, hy]
  simp only
  rw [invS_eq_effective p m h, hi]

/-- **the inverse map as written at the two ends of the image and outside it**, no tolerance hypothesis: at the
forward values of the first and the last key point it returns these key points, outside the image it is NaN -/
theorem inv_as_written_at_ends (p : Part) (m : Mode) (h : WF p m) (t0 : Int) (hk : (keyTimes p m).head? = some t0) :
    ∃ y0 y1, fwdS p m (t0 : Rat) = some y0 ∧ fwdS p m ((lastOf (keyTimes p m) : Int) : Rat) = some y1 ∧
      invS p m y0 = some (t0 : Rat) ∧ invS p m y1 = some ((lastOf (keyTimes p m) : Int) : Rat) ∧
      ∀ y, (y < y0 ∨ y1 < y) → invS p m y = none := by
  have hw := effective_wf p m h
  have hs := effective_same p m
  obtain ⟨y0, y1, h0, h1, h2, h3, h4⟩ := inv_at_ends (effective p m) m hw t0 (by rw [hs.2.1]; exact hk)
  rw [hs.2.1] at h1 h3
  refine ⟨y0, y1, ?_, ?_, ?_, ?_, ?_⟩
  · rw [fwdS_eq_effective p m h, h0]
  · rw [fwdS_eq_effective p m h, h1]
  · rw [invS_eq_effective p m h, h2]
  · rw [invS_eq_effective p m h, h3]
  · intro y hy
    rw [invS_eq_effective p m h]
    exact h4 y hy

/-- **NaN and ±inf are mapped to NaN by the four maps as written** of every well-formed part, no tolerance hypothesis -/
theorem arg_nonfinite_all (p : Part) (m : Mode) (h : WF p m) :
    fwdSArg p m .nan = none ∧ fwdSArg p m .posInf = none ∧ fwdSArg p m .negInf = none ∧
    invSArg p m .nan = none ∧ invSArg p m .posInf = none ∧ invSArg p m .negInf = none := by
  have hk := finalKnots_ok _ m (effective_wf p m h)
  have hn : ¬ p.npoints < 2 := by have := h.1; omega
  have h1 := knotsOK_length _ hk
  have h2 := knotsOK_length _ (knotsOK_swap _ hk)
  unfold fwdSArg invSArg linearSArg genericInterp1dArg
  rw [finalKnotsS_effective p m h]
  simp only [hn, if_false, h1, h2, if_true]
  exact ⟨rfl, rfl, rfl, rfl, rfl, rfl⟩

/-- **exactness inside a stretch and continuity across a change point, as written**: between any two positions
of one key-point stretch `[k, k']` the map as written advances by `(b - a) × factor / divisions` of that stretch —
in particular up to and including the change point `k'`, where the next stretch takes over with the same value -/
theorem stretch_exact_as_written (p : Part) (m : Mode) (h : WF p m) (pre post : List KP) (k k' : KP)
    (hk : keypoints p m = pre ++ k :: k' :: post) (a b : Rat) (h0 : (k.t : Rat) ≤ a) (hab : a ≤ b)
    (h1 : b ≤ (k'.t : Rat)) :
    ∃ ya yb, fwdS p m a = some ya ∧ fwdS p m b = some yb ∧ yb - ya = (b - a) * (k.fac / k.divs) := by
  have hw := effective_wf p m h
  have hk' : keypoints (effective p m) m = pre ++ k :: k' :: post := by rw [(effective_same p m).1, hk]
  obtain ⟨y, y', h2, h3, h4⟩ := stretch_exact (effective p m) m hw pre post k k' hk' a b h0 hab h1
  exact ⟨y, y', by rw [fwdS_eq_effective p m h, h2], by rw [fwdS_eq_effective p m h, h3], h4⟩

/-- **the place of zero, as written.**  Let `t0` be the first key point.  Where the tolerance guard does not bite
the maps as written are the maps of the origin theorems (`zero_plain`, `zero_pickup`, `origin_zero_iff_*` apply
verbatim); where it bites — the first measure is shorter than a bar, but by no more than `atol + rtol * bar` —
the code treats the measure as a full bar: zero lies at the first key point and nowhere else. -/
theorem origin_as_written (p : Part) (m : Mode) (h : WF p m) (t0 : Int)
    (hk : (keyTimes p m).head? = some t0) :
    (tolInactiveB p m = true → ∀ x, fwdS p m x = fwd p m x) ∧
    (tolInactiveB p m = false → ∀ z, fwdS p m z = some 0 ↔ z = (t0 : Rat)) := by
  refine ⟨fun ht x => fwdS_eq_fwd p m h ht x, ?_⟩
  intro ht z
  have hne : ¬ tolInactiveB p m = true := by rw [ht]; simp
  have he : effective p m = { p with m1 := none } := by unfold effective; rw [if_neg hne]
  have hw := effective_wf p m h
  have hk' : (keyTimes (effective p m) m).head? = some t0 := by rw [(effective_same p m).2.1]; exact hk
  have hno : pickupShift (effective p m) m (knots (keypoints (effective p m) m) 0) = 0 := by
    rw [he]; rfl
  rw [fwdS_eq_effective p m h]
  exact zero_plain (effective p m) m hw t0 hk' hno z

/-- non-vacuity of the second case: the part of `tolerance_bites_at_huge_divisions` -/
example : tolInactiveB nearBar .quarter = false ∧ fwdS nearBar .quarter 0 = some 0 ∧
    (effective nearBar .quarter).m1 = none ∧ effective exPart .notated = exPart := by
  refine ⟨by decide +kernel, by decide +kernel, by decide +kernel, ?_⟩
  unfold effective
  rw [if_pos (by decide +kernel)]

/-! ### the statement for every reachable part, no tolerance hypothesis -/

/-- **C02 for the code as written, every reachable part.**  Take any part built through the API
(`Part(quarter_duration=q0)`, then any valid history of `set_quarter_duration` / `add` / musical-beat switches /
queries).  For the maps as the code computes them (wrapper, scipy's sort, `np.interp`, pickup guard, NaN fill):
0. with fewer than two time points the forward maps are 0 and the inverse maps return the only time point (0 for
   an empty part);
with two or more time points, WHATEVER the length of the first measure:
1. between any two positions the map advances by exactly the sum over the stretches between key points of
   length × factor / quarter duration in force (`elapsed`); it is non-decreasing and strictly increasing;
2. `inv(fwd(x)) = x` at every position from the first to the last time point (ends included);
3. the map is a number exactly from time 0 to the last key point and NaN elsewhere; NaN and ±inf give NaN;
4. `quarter_duration_map` returns, at every time ≥ 0, the value of the last recorded call among those with the
   greatest time at or before it, and before time 0 the value it returns at time 0;
5. zero lies where `origin_as_written` says: with the guard inactive at the place the origin theorems give for
   `fwd`, otherwise at time 0 only. -/
theorem property_as_written_unconditional (q0 : Nat) (hq : 0 < q0) (hs : List HOp) (hv : ∀ op ∈ hs, ValidOp op)
    (m : Mode) :
    ((buildPart q0 hs).npoints < 2 → ∀ x, fwdS (buildPart q0 hs) m x = some 0 ∧
        invS (buildPart q0 hs) m x =
          some (if (buildPart q0 hs).npoints = 1 then ((buildPart q0 hs).first : Rat) else 0)) ∧
    (2 ≤ (buildPart q0 hs).npoints →
      (∀ a b ya yb, a ≤ b → fwdS (buildPart q0 hs) m a = some ya → fwdS (buildPart q0 hs) m b = some yb →
          yb - ya = elapsed (keypoints (buildPart q0 hs) m) a b ∧ ya ≤ yb ∧ (a < b → ya < yb)) ∧
      (∀ x, ((buildPart q0 hs).first : Rat) ≤ x → x ≤ ((buildPart q0 hs).last : Rat) →
          roundTripS (buildPart q0 hs) m x = some x) ∧
      (∀ x, (∃ y, fwdS (buildPart q0 hs) m x = some y) ↔
          (0 : Rat) ≤ x ∧ x ≤ ((lastOf (keyTimes (buildPart q0 hs) m) : Int) : Rat)) ∧
      (tolInactiveB (buildPart q0 hs) m = false → ∀ z, fwdS (buildPart q0 hs) m z = some 0 ↔ z = 0)) ∧
    (∀ x, 0 ≤ x → qdMapS (buildPart q0 hs).qd x =
        Option.map (fun (n : Nat) => (n : Rat)) (inForce (recorded q0 (qdCalls hs)) x)) ∧
    (∀ x, x < 0 → qdMapS (buildPart q0 hs).qd x = qdMapS (buildPart q0 hs).qd 0) := by
  refine ⟨?_, ?_, ?_, ?_⟩
  · intro h2 x
    unfold fwdS invS
    simp [h2]
  · intro h2
    have hw := built_part_wf q0 hq hs hv m h2
    have hwe := effective_wf _ m hw
    have hse := effective_same (buildPart q0 hs) m
    have hk0 := built_first_key_zero q0 hq hs hv m
    refine ⟨?_, ?_, ?_, ?_⟩
    · intro a b ya yb hab ha hb
      rw [fwdS_eq_effective _ m hw] at ha hb
      rw [← hse.1]
      exact ⟨fwd_exact _ m hwe a b ya yb hab ha hb, fwd_mono _ m hwe a b ya yb hab ha hb,
        fun hlt => fwd_strictMono _ m hwe a b ya yb hlt ha hb⟩
    · intro x h0 h1
      exact roundTripS_on_timeline_all _ m hw x h0 h1
    · intro x
      rw [fwdS_eq_effective _ m hw]
      have := fwd_defined_iff _ m hwe 0 (by rw [hse.2.1]; exact hk0) x
      rw [hse.2.1] at this
      simpa using this
    · intro ht z
      have := (origin_as_written _ m hw 0 hk0).2 ht z
      simpa using this
  · intro x hx
    rw [built_qdMapS q0 hq hs hv, built_qd_represents q0 hs hv x hx]
  · intro x hx
    have hqd := built_qd q0 hq hs hv
    rw [built_qdMapS q0 hq hs hv, built_qdMapS q0 hq hs hv]
    obtain ⟨a, r, hqd0⟩ := (inv_reachable q0 hq hs hv).qd_head
    have hqd' : (buildPart q0 hs).qd = (0, a) :: r := hqd0
    rw [hqd']
    congr 1
    have hlt : ∀ e ∈ r, x < (e.1 : Rat) := by
      intro e he
      have hp := hqd.2.1
      rw [hqd'] at hp
      simp only [List.map_cons, List.pairwise_cons, List.mem_map] at hp
      have : (0 : Int) < e.1 := hp.1 e.1 ⟨e, he, rfl⟩
      have : (0 : Rat) < (e.1 : Rat) := by exact_mod_cast this
      linarith
    rw [qdMap_before (0, a) r x hlt]
    have h0 := qdMap_at_change ((0, a) :: r) (by rw [← hqd']; exact hqd.2.1) (0, a) List.mem_cons_self
    simpa using h0.symm

end C02
