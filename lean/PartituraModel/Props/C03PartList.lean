/-
C03 — the part list: "the same parts and part groups".

  Model/XmlPartList.lean   `writePartList` (save_musicxml: handle_parents, close_group_stack, the <score-part> entries),
                           `parsePartList` (_parse_partlist), `plXml` / `readPL` (the elements)
tied to the code by harness/props/c03.py streams wpl / rpl.
-/
import PartituraModel.Proofs.C03PartList
import PartituraModel.Proofs.C03Fix2

namespace C03
open Model Model.XmlNote Model.PartList
open Model.PartList.Forest C03.Fix2

/-- **partlist_written.**  The exporter sees the structure of a score only through the list of its parts and their `parent`
    links, and opens and closes groups lazily (`handle_parents`).  For every forest of parts and nested groups in which
    every group holds something (`NonEmpty`: a group without parts never reaches the file) and the groups are different
    objects, what it writes is the bracket sequence of the forest: every group opened right before its first member and
    closed right after its last one, parts in order. -/
theorem partlist_written (f : Forest GroupW PartW) (hne : f.NonEmpty) (hnd : ((groups f).map (·.gid)).Nodup) :
    writePartList (flatten [] f) = C03.PL.emit f :=
  C03.PL.writePartList_eq f hne (List.pairwise_map.mp hnd)

/-- **partlist_roundtrip.**  "The same parts and part groups": for every such forest — any number of parts, groups nested to
    any depth, siblings of a group after a nested group, several top-level groups — `_parse_partlist` applied to the
    `<part-list>` children `save_musicxml` writes does not raise and returns the same forest: the same nesting and order,
    every group with its number, symbol and name, every part with its id, name and abbreviation (`canonGroup`,
    `canonPart`: a number that is not an integer is read as none, an empty name is no name, NULs are dropped). -/
theorem partlist_roundtrip (f : Forest GroupW PartW) (hne : f.NonEmpty) (hnd : ((groups f).map (·.gid)).Nodup) :
    parsePartList (((writePartList (flatten [] f)).map plXml).map readPL) = some (f.map canonGroup canonPart) := by
  rw [partlist_written f hne hnd, List.map_map]
  have : (readPL ∘ plXml) = C03.PL.canonEl := funext C03.PL.readPL_plXml
  rw [this]
  exact C03.PL.parse_emit f

/-- A{B{p1}, p2}, C{p3}: a nested group followed by a further member of the enclosing group, then a second top-level group -/
example :
    let gA : GroupW := ⟨0, ['1'], some ['b', 'r', 'a', 'c', 'e'], some ['A']⟩
    let gB : GroupW := ⟨1, ['2'], none, none⟩
    let gC : GroupW := ⟨2, ['1'], none, some ['C']⟩
    let p (s : Str) : PartW := ⟨s, some s, none⟩
    let f : Forest GroupW PartW :=
      .group gA (.group gB (.part (p ['P', '1']) .nil) (.part (p ['P', '2']) .nil)) (.group gC (.part (p ['P', '3']) .nil) .nil)
    f.NonEmpty ∧ ((groups f).map (·.gid)).Nodup ∧
      writePartList (flatten [] f) =
        [.groupStart gA, .groupStart gB, .scorePart (p ['P', '1']), .groupStop ['2'], .scorePart (p ['P', '2']),
         .groupStop ['1'], .groupStart gC, .scorePart (p ['P', '3']), .groupStop ['1']] := by
  refine ⟨⟨by decide, ⟨by decide, trivial, trivial⟩, by decide, trivial, trivial⟩, by decide, by decide⟩

/-- a group without parts is not written: the hypothesis `NonEmpty` is needed -/
example : writePartList (flatten [] (.group ⟨0, ['1'], none, none⟩ .nil (.part ⟨['P', '1'], none, none⟩ .nil))) =
    [.scorePart ⟨['P', '1'], none, none⟩] := by decide

/-- … and so is the distinctness of the groups: were two sibling groups the same object, they would be written as one -/
example : writePartList (flatten [] (.group ⟨0, ['1'], none, none⟩ (.part ⟨['P', '1'], none, none⟩ .nil)
      (.group ⟨0, ['1'], none, none⟩ (.part ⟨['P', '2'], none, none⟩ .nil) .nil))) =
    [.groupStart ⟨0, ['1'], none, none⟩, .scorePart ⟨['P', '1'], none, none⟩, .scorePart ⟨['P', '2'], none, none⟩,
     .groupStop ['1']] := by decide

/-- a `type="stop"` without an open group makes the importer raise (`None.parent`) -/
example : parsePartList [.groupStop] = none := by decide

/-! ### saving the loaded part list again -/

/-- **partlist_fixpoint.**  Two scores whose part structures denote the same (the saved score, and the score loaded from
    its file as the exporter sees it), both in the representation the importer picks, are written with the same
    `<part-list>` children: the part list of `save(load(save(s)))` is the one of `save(s)`, element for element. -/
theorem partlist_fixpoint (f f₂ : Forest GroupW PartW)
    (hne : f.NonEmpty) (hnd : ((groups f).map (·.gid)).Nodup) (hc : CanonicalForest f)
    (hne₂ : f₂.NonEmpty) (hnd₂ : ((groups f₂).map (·.gid)).Nodup) (hc₂ : CanonicalForest f₂)
    (hsame : f₂.map canonGroup canonPart = f.map canonGroup canonPart) :
    (writePartList (flatten [] f₂)).map plXml = (writePartList (flatten [] f)).map plXml := by
  rw [partlist_written f hne hnd, partlist_written f₂ hne₂ hnd₂, emit_canonical f hc, emit_canonical f₂ hc₂, hsame]

end C03
