/-
C19 — the ORDER of the `<tie>` elements of an MEI document does not matter.

`mei_ties_collected` (Props/C19Sections.lean) says that the tie list holds every `<tie>` of the document in document order.
Here: the denotation does not depend on that order — a `<tie>` element may be moved to any other place of the document (into
another measure, section or ending, before or after the staves) as long as no two ties of the document start at the same
note.  Until round 5 this was only compared on generated documents.  Helper lemmas: `Proofs/C19TieOrder.lean`.
-/
import PartituraModel.Proofs.C19TieOrder
import PartituraModel.Props.C19Sections

namespace C19
open Model Model.Mei C19S C19T

/-- `mei_tie_order_irrelevant`: a `<tie>` element written before `mid` denotes the same as the same element written after
    `mid` — `mid` is ANY list of events (whole measures, the end of a section and the start of the next, other ties …) —
    provided no two ties of the document start at the same note. -/
theorem mei_tie_order_irrelevant (pre mid post : List Ev) (as : List (String × String)) (hp : PlainAttrs as)
    (hnd : ((tiesOf (pre ++ .op "tie" as :: .cl :: (mid ++ post))).map (·.1)).Nodup) :
    denote (pre ++ .op "tie" as :: .cl :: (mid ++ post)) = denote (pre ++ (mid ++ .op "tie" as :: .cl :: post)) := by
  rw [denote_eq, denote_eq]
  cases hA : runEvs {} (pre ++ .op "tie" as :: .cl :: (mid ++ post)) with
  | none =>
    rw [runEvs_append] at hA ⊢
    cases hpre : runEvs {} pre with
    | none => rfl
    | some st =>
      rw [hpre] at hA
      simp only [Option.bind_some] at hA ⊢
      have := tie_move_states st as mid post hp
      rw [hA] at this
      cases hB : runEvs st (mid ++ .op "tie" as :: .cl :: post) with
      | none => rfl
      | some y => simp [hB, RelOpt] at this
  | some af =>
    have hties := (run_ties _ {} af hA).1
    rw [runEvs_append] at hA ⊢
    cases hpre : runEvs {} pre with
    | none => simp [hpre] at hA
    | some st =>
      rw [hpre] at hA
      simp only [Option.bind_some] at hA ⊢
      have := tie_move_states st as mid post hp
      rw [hA] at this
      cases hB : runEvs st (mid ++ .op "tie" as :: .cl :: post) with
      | none => simp [hB, RelOpt] at this
      | some bf =>
        simp only [hB, RelOpt] at this
        obtain ⟨h1, h2⟩ := this
        simp only [Option.bind_some]
        have hnd' : (af.ties.map (·.1)).Nodup := by
          rw [hties]
          simp only [List.append_nil, List.map_reverse]
          exact (List.reverse_perm _).nodup_iff.mpr hnd
        have := partsOf_ties_perm af bf.ties h2.symm hnd'
        rw [← this]
        show partsOf (setTies bf.ties af) = partsOf bf
        rw [h1]

/-! ## non-vacuity: two ties of the round-4 document written in the opposite order, one of them in the other section -/

def hdrT : List Ev :=
  [.op "score" [], .op "scoreDef" [], .op "staffGrp" [],
   .op "staffDef" [("xml:id", "P1"), ("n", "1"), ("meter.count", "2"), ("meter.unit", "4"), ("key.sig", "0")], .cl, .cl, .cl]

def measT (n : String) (notes : List Ev) : List Ev :=
  [.op "measure" [("n", n)], .op "staff" [("n", "1")], .op "layer" [("n", "1")]] ++ notes ++ [.cl, .cl, .cl]

def noteT (id dur pname : String) : List Ev :=
  [.op "note" [("xml:id", id), ("dur", dur), ("pname", pname), ("oct", "4")], .cl]

def preT : List Ev := hdrT ++ [.op "section" []] ++ measT "1" (noteT "a1" "4" "c" ++ noteT "a2" "4" "e")
def midT : List Ev := [.op "tie" [("startid", "#a3"), ("endid", "#a4")], .cl, .cl, .op "section" []] ++ measT "2" (noteT "a3" "2" "e")
def postT : List Ev := measT "3" (noteT "a4" "2" "e") ++ [.cl, .cl]

example : PlainAttrs [("startid", "#a2"), ("endid", "#a3")] ∧
    ((tiesOf (preT ++ .op "tie" [("startid", "#a2"), ("endid", "#a3")] :: .cl :: (midT ++ postT))).map (·.1)).Nodup := by
  decide +kernel

/-- the chain a2 - a3 - a4 lasts 1 + 2 + 2 quarters wherever the first tie is written -/
example : ((runEvs {} (preT ++ (midT ++ .op "tie" [("startid", "#a2"), ("endid", "#a3")] :: .cl :: postT))).map fun st =>
      (st.ties, chainDur st.notes st.ties st.ties.length "a2")) = some ([("a2", "a3"), ("a3", "a4")], 4) := by
  decide +kernel

example : ((runEvs {} (preT ++ .op "tie" [("startid", "#a2"), ("endid", "#a3")] :: .cl :: (midT ++ postT))).map fun st =>
      (st.ties, chainDur st.notes st.ties st.ties.length "a2")) = some ([("a3", "a4"), ("a2", "a3")], 4) := by
  decide +kernel

end C19
