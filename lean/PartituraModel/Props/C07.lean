/-
C07 — match-file lines survive format/parse round trips in every version: property theorems.
Helper lemmas live in Proofs/C07*.lean; the templates are GENERATED (Gen/MatchTemplates.lean).
-/
import PartituraModel.Model.MatchLine
import PartituraModel.Gen.MatchTemplates
import PartituraModel.Proofs.C07Search
import PartituraModel.Proofs.C07Line

namespace C07
open Model Model.Template Model.MatchCodec Model.MatchLine

/-- well-formedness of a template (decidable): the out_pattern and the regular expression have the
    same literals and the same fields in the same order, every group is followed by a literal, field
    names are distinct and are those of the field table, nothing is unmodelled -/
def TemplateOK (t : Template) : Prop := templateOK t = true

/-- side condition on the encoded field texts `v` (decidable; `tail` = the text that follows the line's
    own text, e.g. `-note(...)` after a score note): every text lies in the character class of its
    group with the minimal length, and the literal that terminates it does not occur again inside the
    run of characters the group's class can swallow -/
def FieldsOK (t : Template) (v : String → List Char) (tail : List Char) : Prop :=
  fieldsOK t.out t.pat v tail = true

/-- the general form of the side condition: the rest of the pattern matches at no later offset of the run -/
def FieldsOKGen (t : Template) (v : String → List Char) (tail : List Char) : Prop :=
  fieldsOKGen t.out t.pat v tail = true

instance (t : Template) : Decidable (TemplateOK t) := inferInstanceAs (Decidable (_ = true))
instance (t : Template) (v : String → List Char) (tail : List Char) : Decidable (FieldsOK t v tail) :=
  inferInstanceAs (Decidable (_ = true))

theorem agree_of_templateOK (t : Template) (h : TemplateOK t) : agree t.out t.pat = true := by
  unfold TemplateOK templateOK at h
  simp only [Bool.and_eq_true] at h
  exact h.1.1.1.1.1.1

/-- **search (format t v) = some (encoded v)** for every well-formed template and every admissible field
    assignment, whatever text follows: the search of the template's regular expression over the written
    line returns exactly the encoded fields, in order. -/
theorem search_format (t : Template) (v : String → List Char) (tail : List Char)
    (ht : TemplateOK t) (hv : FieldsOK t v tail) :
    search t.pat (render t.out v ++ tail) = some (groupsOf t.pat v) :=
  search_of_matchSegs _ _ _
    (matchSegs_render t.pat t.out v tail (agree_of_templateOK t ht)
      (fieldsOKGen_of_fieldsOK t.pat t.out v tail hv))

/-- the same with the general side condition (needed for `scoreprop`, whose free-text Value is followed
    by comma-separated fields) -/
theorem search_format_gen (t : Template) (v : String → List Char) (tail : List Char)
    (ht : TemplateOK t) (hv : FieldsOKGen t v tail) :
    search t.pat (render t.out v ++ tail) = some (groupsOf t.pat v) :=
  search_of_matchSegs _ _ _ (matchSegs_render t.pat t.out v tail (agree_of_templateOK t ht) hv)

/-- anchored version: the match at offset 0 already succeeds (no scanning involved) -/
theorem matchAt_format (t : Template) (v : String → List Char) (tail : List Char)
    (ht : TemplateOK t) (hv : FieldsOK t v tail) :
    matchSegs t.pat (render t.out v ++ tail) = some (groupsOf t.pat v) :=
  matchSegs_render t.pat t.out v tail (agree_of_templateOK t ht) (fieldsOKGen_of_fieldsOK t.pat t.out v tail hv)

/-- component of a composite line: the component's text starts after a prefix `pre` (the other
    component, a `-`, an `insertion-` …).  If no anchored match of the component's pattern starts inside
    the prefix (decidable `noEarly`; e.g. `note(` inside `snote(` must not complete), the search over the
    whole line finds the component's own fields. -/
theorem search_offset (t : Template) (v : String → List Char) (pre tail : List Char)
    (ht : TemplateOK t) (hv : FieldsOK t v tail)
    (hpre : noEarly t.pat pre (render t.out v ++ tail) = true) :
    search t.pat (pre ++ (render t.out v ++ tail)) = some (groupsOf t.pat v) :=
  search_skip _ _ _ _ (noEarly_spec _ _ _ hpre) (matchAt_format t v tail ht hv)

-- non-vacuity of `search_offset`: the `note(` pattern is first tried inside `snote(` and fails there
example : ∃ t ∈ Gen.matchTemplates, t.name = "v0.5.0/note" ∧
    noEarly t.pat "snote(1-1,[C,#],4,1:2,1/8,1/4+1/8,0.5,1.25,[staff1,s])-".toList
      "note(n1,[C,#],4,100,200,210,60).".toList = true ∧
    (search t.pat "snote(1-1,[C,#],4,1:2,1/8,1/4+1/8,0.5,1.25,[staff1,s])-note(n1,[C,#],4,100,200,210,60).".toList).map
      (fun g => g.map (fun x => String.ofList x.2))
      = some ["n1", "C", "#", "4", "100", "200", "210", "60"] := by
  decide +kernel

/-- every template generated from the live classes is well formed; re-checked by the kernel whenever
    the source changes a regular expression, an out_pattern or a field table -/
theorem templates_ok : ∀ t ∈ Gen.matchTemplates, TemplateOK t := by
  unfold TemplateOK
  decide +kernel

/-- the table is not empty and holds what the property enumerates (non-vacuity of `templates_ok`) -/
example : 40 ≤ Gen.matchTemplates.length ∧ 40 ≤ Gen.matchComposites.length := by decide +kernel

/-- well-formedness of a composite line (decidable): every component is a generated template, and the
    identifier the parser looks for (`-deletion.`, `insertion-`, …) is one of the literals the line is
    written with -/
def compositeOK (ts : List Template) (c : Composite) : Bool :=
  c.parts.all (fun p => match p with
    | .tpl n => (findTpl ts n).isSome
    | .lit _ => true)
  && c.idents.all (fun i => c.parts.contains (.lit i))

/-- every composite line generated from the live classes is well formed -/
theorem composites_ok : ∀ c ∈ Gen.matchComposites, compositeOK Gen.matchTemplates c = true := by
  decide +kernel

-- non-vacuity of `search_format`: a 0.5.0 score note followed by its performed note
def exSnote : String → List Char
  | "Anchor" => "1-1".toList | "NoteName" => "C".toList | "Modifier" => "#".toList | "Octave" => "4".toList
  | "Measure" => "1".toList | "Beat" => "2".toList | "Offset" => "1/8".toList | "Duration" => "1/4+1/8".toList
  | "OnsetInBeats" => "0.5".toList | "OffsetInBeats" => "1.25".toList | "ScoreAttributesList" => "staff1,s".toList
  | _ => []

example : ∃ t ∈ Gen.matchTemplates, t.name = "v0.5.0/snote" ∧
    FieldsOK t exSnote "-note(n1,[C,#],4,100,200,210,60).".toList ∧
    render t.out exSnote = "snote(1-1,[C,#],4,1:2,1/8,1/4+1/8,0.5,1.25,[staff1,s])".toList := by
  decide +kernel

-- ---------------------------------------------------------------- to_v1

/-- the 1.0.0 counterpart of a pre-1.0 line kind (an `info` line becomes `info` or `scoreprop`) -/
def v1Kind : String → Option String
  | "meta" => some "scoreprop"
  | "snote_note" => some "snote_note"
  | "deletion" => some "deletion"
  | "trailing_score" => some "deletion"
  | "no_played" => some "deletion"
  | "insertion" => some "insertion"
  | "hammer_bounce" => some "insertion"
  | "trailing_played" => some "insertion"
  | "trill" => some "ornament"
  | "sustain" => some "sustain"
  | "soft" => some "soft"
  | _ => none


/-- **`to_v1` keeps the kind**: whenever a conversion exists, the result is the 1.0.0 counterpart of the
    input's kind (a soft-pedal line stays a soft-pedal line) -/
theorem toV1_kind (ts : List Template) (kind : String) (v : Nat × Nat × Nat) (vals : List Val)
    (k' : String) (vals' : List Val) (h : toV1 ts kind v vals = some (k', vals')) :
    (kind = "info" ∧ (k' = "info" ∨ k' = "scoreprop")) ∨ v1Kind kind = some k' := by
  unfold toV1 at h
  simp only at h
  split at h
  · left
    refine ⟨rfl, ?_⟩
    split at h
    · split at h
      · split at h
        · simp at h
        · simp only [Option.some.injEq, Prod.mk.injEq] at h; exact Or.inl h.1.symm
      · split at h
        · split at h
          · simp at h
          · simp only [Option.some.injEq, Prod.mk.injEq] at h; exact Or.inr h.1.symm
        · simp at h
    · simp at h
  all_goals right
  · split at h
    · split at h
      · simp at h
      · simp only [Option.some.injEq, Prod.mk.injEq] at h
        obtain ⟨rfl, _⟩ := h; rfl
    · simp at h
  all_goals first
    | (simp only [Option.some.injEq, Prod.mk.injEq] at h
       obtain ⟨rfl, _⟩ := h; rfl)
    | (simp only [Option.map_eq_some_iff] at h
       obtain ⟨n, _, hn⟩ := h
       simp only [Prod.mk.injEq] at hn
       obtain ⟨rfl, _⟩ := hn; rfl)
    | (split at h
       · simp only [Option.map_eq_some_iff] at h
         obtain ⟨n, _, hn⟩ := h
         simp only [Prod.mk.injEq] at hn
         obtain ⟨rfl, _⟩ := hn; rfl
       · simp at h)
    | simp at h

/-- pedal lines: time and value are carried over unchanged -/
theorem toV1_pedal (ts : List Template) (v : Nat × Nat × Nat) (vals : List Val) :
    toV1 ts "sustain" v vals = some ("sustain", vals) ∧ toV1 ts "soft" v vals = some ("soft", vals) := by
  constructor <;> rfl

/-- deletions (and their pre-1.0 variants): every score-note field is carried over unchanged -/
theorem toV1_deletion (ts : List Template) (v : Nat × Nat × Nat) (vals : List Val) :
    toV1 ts "deletion" v vals = some ("deletion", vals) ∧ toV1 ts "trailing_score" v vals = some ("deletion", vals)
      ∧ toV1 ts "no_played" v vals = some ("deletion", vals) := by
  refine ⟨?_, ?_, ?_⟩ <;> rfl

/-- the performed note of a converted line: same id and velocity, MIDI pitch = the spelled pitch,
    integer tick times unchanged (float tick times of versions < 0.3.0 are rounded), channel 1, track 0 -/
theorem noteToV1_content (names : List String) (vals n : List Val) (h : noteToV1 names vals = some n) :
    ∃ (s : Str) (o p : Int), getField names vals "NoteName" = .str s ∧ getField names vals "Octave" = .int o ∧
      spellingToMidi (String.ofList s) (match getField names vals "Modifier" with | .int i => some i | _ => none) o = some p ∧
      n = [getField names vals "Id", .int p, roundTick (getField names vals "Onset"),
           roundTick (getField names vals "Offset"), getField names vals "Velocity", .int 1, .int 0] := by
  unfold noteToV1 at h
  split at h
  · rename_i s o hs ho
    simp only [Option.map_eq_some_iff] at h
    obtain ⟨p, hp, hn⟩ := h
    exact ⟨s, o, p, hs, ho, hp, hn.symm⟩
  · simp at h

theorem roundTick_int (i : Int) : roundTick (.int i) = .int i := rfl

/-- note pairs: the score-note fields are carried over unchanged and the note is converted by `noteToV1` -/
theorem toV1_snote_note (ts : List Template) (v : Nat × Nat × Nat) (vals vals' : List Val) (k : String)
    (h : toV1 ts "snote_note" v vals = some (k, vals')) :
    ∃ (nS : Nat) (names : List String) (n : List Val),
      noteToV1 names (vals.drop nS) = some n ∧ vals' = vals.take nS ++ n ∧ k = "snote_note" := by
  unfold toV1 at h
  simp only [Option.map_eq_some_iff, Prod.mk.injEq] at h
  obtain ⟨n, hn, hk, hv⟩ := h
  exact ⟨_, _, n, hn, hv.symm, hk.symm⟩

-- non-vacuity: a 0.5.0 note pair is converted (pitch C#4 = 61, ticks kept, velocity kept)
example : toV1Line Gen.matchTemplates Gen.matchComposites "snote_note" (0, 5, 0)
    [.str "1-1".toList, .str "C".toList, .int 1, .int 4, .int 1, .int 2, .frac ⟨1, 8, none, none⟩, .frac ⟨1, 4, none, none⟩,
     .dec (1/2), .dec (5/4), .strs ["staff1".toList],
     .str "n1".toList, .str "C".toList, .int 1, .int 4, .int 100, .int 200, .int 210, .int 60]
    = some ("snote_note", "snote(1-1,[C,#],4,1:2,1/8,1/4,0.5000,1.2500,[staff1])-note(n1,61,100,200,60,1,0).".toList) := by
  decide +kernel

example : toV1Line Gen.matchTemplates Gen.matchComposites "soft" (0, 3, 0) [.int 10, .int 64]
    = some ("soft", "soft(10,64).".toList) := by decide +kernel

-- ---------------------------------------------------------------- whole lines

open C07Line in
/-- **parse (format x) = x, and formatting is a fixpoint**, for every well-formed template whose fields
    are interpreted independently (`plain`: pedal lines, ptime, stime, section, the 1.0.0 performed note,
    ornament / trill heads) - the special case of `line_roundtrip` (Props/C07Lines.lean) with the simple
    hypothesis `RT`: every value is written to a text its own interpreter reads back as that value (what
    the per-codec theorems establish).  Lines with an Attribute-dependent value (info, meta, scoreprop),
    with pitch post-processing (snote, pre-1.0 note) and composite lines: `line_roundtrip`,
    `pitch_line_roundtrip`, `composite_pair` / `_pair0` / `_suffix` / `_prefix` in Props/C07Lines.lean. -/
theorem line_roundtrip_plain (t : Template) (vals : List Val) (es : List (String × Str)) (tail : List Char)
    (ht : TemplateOK t) (hp : plain t = true) (hrt : RT t.fields vals es) (hv : FieldsOK t (textOf es) tail) :
    ∃ line, formatT t vals = some line ∧ parseT t (line ++ tail) = .ok vals ∧
      ((parseT t (line ++ tail)).toOption.bind (formatT t)) = some line := by
  obtain ⟨h1, h2⟩ := C07Line.line_roundtrip_plain t vals es tail ht hp hrt hv
  exact ⟨_, h1, h2, by rw [h2]; exact h1⟩

-- non-vacuity: the 1.0.0 performed note inside a note pair, and a soft pedal line
example : ∃ t ∈ Gen.matchTemplates, t.name = "v1.0.0/note" ∧ C07Line.plain t = true ∧
    C07Line.rtB t.fields [.str "n1".toList, .int 61, .int 100, .int 200, .int 60, .int 1, .int 0]
      [("Id", "n1".toList), ("MidiPitch", "61".toList), ("Onset", "100".toList), ("Offset", "200".toList),
       ("Velocity", "60".toList), ("Channel", "1".toList), ("Track", "0".toList)] = true ∧
    FieldsOK t (C07Line.textOf [("Id", "n1".toList), ("MidiPitch", "61".toList), ("Onset", "100".toList),
       ("Offset", "200".toList), ("Velocity", "60".toList), ("Channel", "1".toList), ("Track", "0".toList)]) [] := by
  decide +kernel

end C07
