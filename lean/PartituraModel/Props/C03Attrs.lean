/-
C03 — `do_attributes` as a whole and the `<attributes>` element through a save / load / save cycle.
`attributes_roundtrip` (Props/C03Codec.lean) is about one element; here: which elements `do_attributes` makes of the objects
it finds (nothing lost, duplicated or moved in time; where `<staves>` goes), what the importer reads from each of them,
the `<staff-details>` children (read since fixes/C03-20), and the element-level fixpoint.
-/
import PartituraModel.Props.C03Codec
import PartituraModel.Proofs.C03Attrs
import PartituraModel.Proofs.C03Sort
import PartituraModel.Model.XmlNames

namespace C03
open Model Model.XmlNote Model.XmlDir Model.XmlAttrs C03.Attrs

/-- **attributes_written.**  `do_attributes`, whatever quarter durations, key signatures, time signatures, staffs and clefs
    its five iteration calls return (any number of each at any times, in any order): the elements come in strictly
    increasing order of time, one per time at which there is an object; each is `writeAttributes` of the entries of its
    time (never empty); and the entries of all elements, each with the time of its element, are a permutation of the
    objects found: no object is lost, written twice or written under another time — the clefs included, whose lists are
    sorted per time before they are appended. -/
theorem attributes_written (s : AttrSrc) :
    ((doAttributes s).map (·.1)).Pairwise (· < ·) ∧
    (doAttributes s).map (·.1) = (attrGroups s).map (·.1) ∧
    (∀ e ∈ doAttributes s, ∃ st, e.2 = writeAttributes (itemsAt (entries s) e.1) st ∧ itemsAt (entries s) e.1 ≠ []) ∧
    ((attrGroups s).flatMap fun g => g.2.map fun i => (g.1, i)).Perm (objects s) := by
  have ht : (doAttributes s).map (·.1) = (attrGroups s).map (·.1) := attrLoop_times _ _ _
  refine ⟨ht ▸ attrGroups_times s, ht, ?_, (attrGroups_cover s).trans (entries_perm s)⟩
  intro e he
  obtain ⟨g, hg, st, rfl⟩ := attrLoop_mem _ _ _ e he
  obtain ⟨h1, h2⟩ := attrGroups_items s g hg
  exact ⟨st, by rw [h1], by rw [← h1]; exact h2⟩

/-- **staves_written_once.**  The flag `staves_included`: `<staves>` (with the length of the clef list that leaks out of
    the loop over `clefs_by_start`) is handed to the first element that holds a clef and to no other; without any clef no
    element gets it. -/
theorem staves_written_once (s : AttrSrc) :
    (∀ pre g post, attrGroups s = pre ++ g :: post → (∀ h ∈ pre, h.2.any (·.isClef) = false) →
      g.2.any (·.isClef) = true →
      doAttributes s = pre.map (fun h => (h.1, writeAttributes h.2 none)) ++
        (g.1, writeAttributes g.2 (some (leakedLen s.clefs))) :: post.map (fun h => (h.1, writeAttributes h.2 none))) ∧
    ((∀ g ∈ attrGroups s, g.2.any (·.isClef) = false) →
      doAttributes s = (attrGroups s).map fun h => (h.1, writeAttributes h.2 none)) := by
  refine ⟨?_, fun h => attrLoop_noClef _ _ h⟩
  intro pre g post heq hpre hg
  unfold doAttributes
  rw [heq]
  exact attrLoop_split _ pre post g hpre hg

/-- a segment with a change of divisions at 4, a key and time signature and two clefs at 0 (given in the order staff 2,
    staff 1: the sort key `number` is 0 for both, the order stays) and a clef change at 8: three elements; `<staves>` in
    the first one says 1 — the length of the clef list of time 8, the last one inserted (the code as it is) -/
example : (doAttributes
    { quarters := [(0, 4), (4, 6)], keys := [(0, -1, some ['m', 'a', 'j', 'o', 'r'])], times := [(0, 3, 4)], staffs := [(0, some 5)],
      clefs := [⟨0, 0, some 2, ['F'], some 4, none⟩, ⟨0, 0, some 1, ['G'], some 2, none⟩, ⟨8, 0, some 2, ['G'], some 2, none⟩] }).map
      (fun e => (e.1, e.2.flat)) =
    [(0, (writeAttributes [.divisions 4, .key (-1) (some ['m', 'a', 'j', 'o', 'r']), .time 3 4, .staffDetails (some 5),
          .clef (some 2) ['F'] (some 4) none, .clef (some 1) ['G'] (some 2) none] (some 1)).flat),
     (4, (writeAttributes [.divisions 6] none).flat),
     (8, (writeAttributes [.clef (some 2) ['G'] (some 2) none] none).flat)] := by decide

/-- clefs that carry a `number` are sorted by it inside their time -/
example : (doAttributes
    { quarters := [], keys := [], times := [], staffs := [],
      clefs := [⟨0, 2, some 2, ['F'], some 4, none⟩, ⟨0, 1, some 1, ['G'], some 2, none⟩] }).map (fun e => (e.1, e.2.flat)) =
    [(0, (writeAttributes [.clef (some 1) ['G'] (some 2) none, .clef (some 2) ['F'] (some 4) none] (some 2)).flat)] := by decide

/-- **staff_details_roundtrip.**  Every `<staff-details>` the exporter writes is read (fixes/C03-20) as a staff with the
    number 1 (the exporter writes none) and the lines written (`None` when they are 0 or missing), in order. -/
theorem staff_details_roundtrip (items : List AttrItem) (staves : Option Nat) :
    readStaffs (writeAttributes items staves) = some (canonStaffs items) := staffs_roundtrip items staves

/-- **attributes_read_back.**  `do_attributes` composed with `_handle_attributes`: when the clef signs are not empty
    strings, what the importer reads from the element written for time `t` is what the entries of `t` denote — whatever
    `<staves>` says and wherever it sits. -/
theorem attributes_read_back (s : AttrSrc) (h : ∀ c ∈ s.clefs, TextOK c.sign) :
    ∀ e ∈ doAttributes s,
      readAttributes e.2 = some (canonAttrs (itemsAt (entries s) e.1)) ∧
      readStaffs e.2 = some (canonStaffs (itemsAt (entries s) e.1)) := by
  intro e he
  obtain ⟨st, hst⟩ := doAttributes_mem s e he
  rw [hst]
  exact ⟨attributes_roundtrip _ st (entries_ok s h e.1), staffs_roundtrip _ st⟩

example : ∀ c ∈ ([⟨0, 0, some 2, ['F'], some 4, none⟩, ⟨0, 0, none, ['G'], some 2, some (-1)⟩] : List ClefSrc), TextOK c.sign := by
  decide

/-- **attributes_fixpoint.**  Entries in the shape a score in the property's domain has at one time (at most one divisions
    value, key signature, time signature; any staffs and clefs; divisions and the numbers of the time signature not 0;
    clef signs not empty): what the importer reads from the element written for them is re-exported — in the order of
    `do_attributes`' five loops — as the same element, whatever the `<staves>` values of the two exports are as long as
    they agree.  Modes, staff lines, staff numbers and octave changes need no hypothesis: the representative the
    importer picks (`normItem`) is written as the same element. -/
theorem attributes_fixpoint (c : CanonItems) (hok : c.ok) (hwf : WellFormedAttrs c.items) (st st' : Option Nat) :
    ∃ r l, readAttributes (writeAttributes c.items st) = some r ∧ readStaffs (writeAttributes c.items st) = some l ∧
      writeAttributes (reexportItems r l) st' = writeAttributes c.items st' :=
  ⟨_, _, attributes_roundtrip _ st hwf, staffs_roundtrip _ st, C03.Attrs.attributes_fixpoint c hok st'⟩

/-- the hypotheses are satisfiable by entries of every kind … -/
example : (⟨some 4, some (-3, some []), some (6, 8), [some 5, some 0, none],
    [(none, ['G'], some 2, some 0), (some 2, ['F'], none, some (-1))]⟩ : CanonItems).ok ∧
    WellFormedAttrs (⟨some 4, some (-3, some []), some (6, 8), [some 5, some 0, none],
    [(none, ['G'], some 2, some 0), (some 2, ['F'], none, some (-1))]⟩ : CanonItems).items := by
  refine ⟨⟨?_, ?_⟩, by decide⟩
  · intro q hq; cases hq; decide
  · intro a b hab; cases hab; decide

/-- … and needed: a time signature 0/4 is written but not read, so the second export lacks it -/
example : (writeAttributes (reexportItems (canonAttrs [.time 0 4]) (canonStaffs [.time 0 4])) none).flat ≠
    (writeAttributes [.time 0 4] none).flat := by decide

/-- two key signatures at one time (outside the domain): the second is not read -/
example : (writeAttributes (reexportItems (canonAttrs [.key 1 none, .key 2 none]) []) none).flat ≠
    (writeAttributes [.key 1 none, .key 2 none] none).flat := by decide

/-! ### end to end for one call of `do_attributes` on a score in the domain -/

/-- the clef list of a time is the clefs of that time, sorted by `number` -/
theorem clefs_at_time (cs : List ClefSrc) (t : Nat) : (clefsAt cs t).Perm (cs.filter fun c => c.t == t) :=
  C03.Sort.isortBy_perm numLt _

/-- **segment_attributes_roundtrip.**  `do_attributes` → file → `_handle_attributes` → `do_attributes`, stated about the objects
    of the score: take any element `do_attributes` writes, for a time `t` at which the score has at most one quarter
    duration, key signature and time signature (`DomainAt`: the property's domain), these not 0, and clef signs that are not
    empty.  Then the importer reads from it exactly the objects of `t`: that quarter duration, that time signature, that key
    signature (an empty mode as no mode), every staff of `t` (as staff 1, 0 lines as none), every clef of `t` (no staff or
    staff 0 as staff 1, octave change 0 as none) in the order written; and exporting what was read gives the element again
    (for equal `<staves>`). -/
theorem segment_attributes_roundtrip (s : AttrSrc) (hs : ∀ c ∈ s.clefs, TextOK c.sign) (e : Nat × Xml)
    (he : e ∈ doAttributes s) (hd : DomainAt s e.1) (hok : (canonAt s e.1).ok) (st' : Option Nat) :
    ∃ r l, readAttributes e.2 = some r ∧ readStaffs e.2 = some l ∧
      r.divisions = (s.quarters.find? fun q => q.1 == e.1).map (·.2) ∧
      r.time = (s.times.find? fun x => x.1 == e.1).map (·.2) ∧
      keyRead r.key = (s.keys.find? fun k => k.1 == e.1).map (fun k => (k.2.1, normMode k.2.2)) ∧
      l = ((s.staffs.filter fun x => x.1 == e.1).map fun x => { number := 1, lines := truthy x.2 }) ∧
      r.clefs = (clefsAt s.clefs e.1).map (fun c =>
        { staff := normStaffNo c.staff, sign := some c.sign, line := c.line, octaveChange := truthy c.octaveChange }) ∧
      writeAttributes (reexportItems r l) st' = writeAttributes (itemsAt (entries s) e.1) st' := by
  obtain ⟨h1, h2⟩ := attributes_read_back s hs e he
  refine ⟨_, _, h1, h2, ?_, ?_, ?_, ?_, ?_, ?_⟩
  · rw [itemsAt_canon s e.1 hd, canon_div _ hok]; rfl
  · rw [itemsAt_canon s e.1 hd, canon_time _ hok]; rfl
  · rw [itemsAt_canon s e.1 hd, canon_key]
    simp [canonAt, Option.map_map, Function.comp_def]
  · rw [itemsAt_canon s e.1 hd, canon_staffs]
    simp [canonAt, List.map_map, Function.comp_def]
  · rw [itemsAt_canon s e.1 hd, canon_clefs]
    simp [canonAt, List.map_map, Function.comp_def]
  · rw [itemsAt_canon s e.1 hd]
    exact C03.Attrs.attributes_fixpoint _ hok st'

/-- the first segment of a two-staff piano part with a clef change at 8 -/
def segEx : AttrSrc :=
  { quarters := [(0, 4)], keys := [(0, -1, some [])], times := [(0, 3, 4)], staffs := [(0, some 5)],
    clefs := [⟨0, 0, some 2, ['F'], some 4, none⟩, ⟨0, 0, some 1, ['G'], some 2, none⟩, ⟨8, 0, some 2, ['G'], some 2, none⟩] }

/-- the hypotheses hold for both of its elements … -/
example : (doAttributes segEx).map (·.1) = [0, 8] ∧ (∀ c ∈ segEx.clefs, TextOK c.sign) ∧
    DomainAt segEx 0 ∧ DomainAt segEx 8 ∧ (canonAt segEx 0).ok ∧ (canonAt segEx 8).ok := by
  have hd : (canonAt segEx 0).divisions = some 4 := by decide
  have ht : (canonAt segEx 0).time = some (3, 4) := by decide
  have hd8 : (canonAt segEx 8).divisions = none := by decide
  have ht8 : (canonAt segEx 8).time = none := by decide
  refine ⟨by decide, by decide, by unfold DomainAt; decide, by unfold DomainAt; decide, ⟨?_, ?_⟩, ⟨?_, ?_⟩⟩
  · intro q hq; rw [hd] at hq; cases hq; decide
  · intro a b hab; rw [ht] at hab; cases hab; decide
  · intro q hq; rw [hd8] at hq; cases hq
  · intro a b hab; rw [ht8] at hab; cases hab

/-- … and are needed: with two key signatures at one time only the first is read -/
example : (readAttributes (writeAttributes (itemsAt (entries
      { quarters := [], keys := [(0, 1, none), (0, 2, none)], times := [], staffs := [], clefs := [] }) 0) none)).map (·.key) =
    some (some (some 1, none)) := by decide

end C03
