/-
C04 (round 5) — ONE score object that is read, edited and exported again, and the zero-length dispatch.

The second export of an edited object is the export of the score as it is THEN: the ticks per quarter are the
least common multiple of the divisions that are stored now, and every tick is the exact image of the musical
time under the quarter map of the table that is stored now — whatever was read from the object before.  A quarter
map kept from before a `set_quarter_duration` (`tickStale`) is excluded by these statements (last `example`).

The exporter writes a note as a zero-length on/off pair exactly when its two ticks coincide; for a well-formed
score that is exactly when the note has no duration in the score — whatever its class (a grace note that was
given an extent by `expand_grace_notes` is written with its length; an ordinary note of zero duration as a pair).
-/
import PartituraModel.Props.C04Export
import PartituraModel.Proofs.C04Edit

namespace C04
open Model Model.Ticks Model.MidiPair Model.MidiModes Model.ScoreMidi Model.ScoreEdit

-- ====================================================================== Part.set_quarter_duration

/-- "Set the duration of a quarter note from timepoint `t` onwards": afterwards `q` is in force at `t`, every earlier
    position keeps the value it had, the table is still one `set_quarter_duration` maintains, and `q` is among the
    quarter durations `get_ppq` reads. -/
theorem set_quarter_duration_takes_effect (b : TimeBase) (t q : Nat) (hb : C04Ed.Table b) (hq : 0 < q) :
    divAt (setQuarterDuration b t q) t = q ∧
    (∀ t', t' < t → divAt (setQuarterDuration b t q) t' = divAt b t') ∧
    C04Ed.Table (setQuarterDuration b t q) ∧ q ∈ divisions (setQuarterDuration b t q) := by
  refine ⟨?_, ?_, C04Ed.setQuarterDuration_table b t q hb hq, ?_⟩
  · rw [C04Ed.setQuarterDuration_eq, C04Ed.divAt_eq]
    by_cases ht : t = 0
    · simp only [ht, if_true]
      apply C04Ed.valAt_later
      exact hb.2.2.gt
    · simp only [ht, if_false]
      exact C04Ed.setQdGo_at _ _ 0 _ _ hb.2.2
  · intro t' ht'
    rw [C04Ed.setQuarterDuration_eq, C04Ed.divAt_eq, C04Ed.divAt_eq]
    have ht : t ≠ 0 := by omega
    simp only [ht, if_false]
    exact C04Ed.setQdGo_before _ _ _ _ _ _ ht'
  · rw [C04Ed.setQuarterDuration_eq]
    by_cases ht : t = 0
    · simp [ht, divisions]
    · simp only [ht, if_false, divisions, List.mem_cons]
      rcases C04Ed.setQdGo_has b.d0 b.qd t q with h | h
      · left; exact h
      · right; exact h

/-- "… that value takes effect until the time of the next quarter duration … does not change the timepoints, only the
    relation to musical time": between `t` and the next stored change, `y - x` divisions are `(y - x) / q` quarters
    in the quarter map of the edited part. -/
theorem set_quarter_duration_rate (b : TimeBase) (t q x y : Nat) (hb : C04Ed.Table b)
    (hnext : ∀ e ∈ b.qd, t < e.1 → y ≤ e.1) (htx : t ≤ x) (hxy : x ≤ y) :
    quarter (setQuarterDuration b t q) y - quarter (setQuarterDuration b t q) x
      = (((y : Int) : Rat) - ((x : Int) : Rat)) / (q : Rat) := by
  have hgoal : ∀ b' : TimeBase, quarter b' y - quarter b' x = quarterRaw b' y - quarterRaw b' x := by
    intro b'; unfold quarter; ring
  rw [hgoal, C04Ed.setQuarterDuration_eq]
  by_cases ht : t = 0
  · subst ht
    simp only [if_true]
    unfold quarterRaw
    have hge : ∀ e ∈ b.qd, y ≤ e.1 := fun e he => hnext e he (hb.2.2.gt e he)
    rw [C04Ed.integ_before_first _ _ _ _ (C04Ed.qRates_mem_ge _ _ hge),
        C04Ed.integ_before_first _ _ _ _ (C04Ed.qRates_mem_ge _ _ (fun e he => Nat.le_trans hxy (hge e he)))]
    ring
  · simp only [ht, if_false]
    unfold quarterRaw
    rw [C04Ed.setQdGo_rate b.d0 b.qd 0 t q x y _ rfl hb.2.2 hnext htx hxy]
    ring

-- ====================================================================== histories on one score object

/-- **Reads leave the score object as it is**: after any history of exports, views and edits the object is what the
    edits alone make of it (a twin to which only the edits were applied). -/
theorem edit_history_state (ps : List PartIn) (ops : List Op) :
    (run ps ops).1 = (editsOf ops).foldl applyEdit ps := C04Ed.run_state ps ops

/-- **Every export of a history is the export of the twin**: the `i`-th step, an export with configuration `c`,
    returns what `save_score_midi` returns for the score obtained by applying the edits made so far to the initial
    score — it does not depend on the exports and views made before. -/
theorem edit_history_export (ps : List PartIn) (ops : List Op) (i : Nat) (c : Cfg) (hop : ops[i]? = some (.save c)) :
    (run ps ops).2[i]? = some (some (exportOf ((editsOf (ops.take i)).foldl applyEdit ps) c)) := by
  rw [C04Ed.run_out ps ops i _ hop]
  rfl

/-- two histories with the same edits before an export give the same file, whatever was read in between -/
theorem edit_history_reads_irrelevant (ps : List PartIn) (ops ops' : List Op) (i j : Nat) (c : Cfg)
    (h1 : ops[i]? = some (.save c)) (h2 : ops'[j]? = some (.save c))
    (he : editsOf (ops.take i) = editsOf (ops'.take j)) :
    (run ps ops).2[i]? = (run ps ops').2[j]? := by
  rw [edit_history_export ps ops i c h1, edit_history_export ps ops' j c h2, he]

/-- **The export of an edited score is exact** (`shift`, `time_sig_change`): for every list of admissible edits of a
    score whose quarter-duration tables are as `set_quarter_duration` maintains them, the ticks per quarter of the
    file are those of the edited tables and every tick is the exact image under the edited quarter maps. -/
theorem edited_export_exact (mode : Nat) (a : Anacrusis) (minPpq vel : Nat) (ps : List PartIn) (es : List Edit)
    (ex : Exported) (hT : ∀ x ∈ ps, C04Ed.Table x.base) (hes : ∀ e ∈ es, C04Ed.EditOk e) (ha : a ≠ .padBar)
    (h : saveScoreMidi mode a minPpq vel (es.foldl applyEdit ps) = some ex) :
    ex.ppq = ppq ((es.foldl applyEdit ps).flatMap fun x => divisions x.base) minPpq ∧
    ∃ o, origin a ((es.foldl applyEdit ps).map (·.base)) = some o ∧ 0 < ex.ppq ∧
      ∀ x ∈ es.foldl applyEdit ps, ∀ t,
        ((tick ex.ppq x.base o t : Int) : Rat) = (ex.ppq : Rat) * (quarter x.base t - o) := by
  have hw : ∀ x ∈ es.foldl applyEdit ps, C04T.WellFormed x.base :=
    fun x hx => (C04Ed.applyEdits_table ps es hT hes x hx).wf
  refine ⟨?_, export_ticks_exact mode a minPpq vel _ _ h ha hw⟩
  obtain ⟨o, metas, tcs, n, _, _, _, _, hex⟩ := C04E.save_inv mode a minPpq vel _ ex h
  rw [hex]
  rfl

/-- **Export after `set_quarter_duration`** (the read-then-edit history of one object): when part `i` gets `q`
    divisions per quarter from `t` on and the score is exported afterwards, `q` divides the ticks per quarter of the
    file, and a stretch from `x` to `y` inside the changed region (`t ≤ x ≤ y ≤` next stored change) of that part
    is written as exactly `ppq * (y - x) / q` ticks. -/
theorem edited_note_ticks (mode : Nat) (a : Anacrusis) (minPpq vel : Nat) (ps : List PartIn) (i t q x y : Nat)
    (p : PartIn) (ex : Exported) (hp : ps[i]? = some p)
    (hT : ∀ z ∈ ps, C04Ed.Table z.base) (hq : 0 < q) (ha : a ≠ .padBar)
    (h : saveScoreMidi mode a minPpq vel (applyEdit ps (.setQd i t q)) = some ex)
    (hnext : ∀ e ∈ p.base.qd, t < e.1 → y ≤ e.1) (htx : t ≤ x) (hxy : x ≤ y) :
    q ∣ ex.ppq ∧ ∃ o, origin a ((applyEdit ps (.setQd i t q)).map (·.base)) = some o ∧
      (((tick ex.ppq (setQuarterDuration p.base t q) o y - tick ex.ppq (setQuarterDuration p.base t q) o x : Int)) : Rat)
        = (ex.ppq : Rat) * ((((y : Int) : Rat) - ((x : Int) : Rat)) / (q : Rat)) := by
  have hes : ∀ e ∈ [Edit.setQd i t q], C04Ed.EditOk e := by
    intro e he
    simp only [List.mem_singleton] at he
    subst he
    exact hq
  obtain ⟨hppq, o, ho, hP, hex⟩ := edited_export_exact mode a minPpq vel ps [.setQd i t q] ex hT hes ha h
  simp only [List.foldl_cons, List.foldl_nil] at hppq ho hex
  have hget := C04Ed.applyEdit_get ps (.setQd i t q) i p hp
  simp only [Edit.part, if_true] at hget
  have hmem : editPart p (.setQd i t q) ∈ applyEdit ps (.setQd i t q) := List.mem_of_getElem? hget
  have hpT : C04Ed.Table p.base := hT p (List.mem_of_getElem? hp)
  refine ⟨?_, o, ho, ?_⟩
  · rw [hppq]
    have hpos : ∀ d ∈ (applyEdit ps (.setQd i t q)).flatMap (fun x => divisions x.base), 0 < d := by
      intro d hd
      obtain ⟨z, hz, hd⟩ := List.mem_flatMap.mp hd
      obtain ⟨h0, hqd, _⟩ := (C04Ed.applyEdit_table ps (.setQd i t q) hT hq z hz).wf
      simp only [divisions, List.mem_cons, List.mem_map] at hd
      rcases hd with rfl | ⟨e, he, rfl⟩
      · exact h0
      · exact hqd e he
    apply (ppq_minimal _ minPpq hpos).2.2.1
    exact List.mem_flatMap.mpr ⟨_, hmem, (set_quarter_duration_takes_effect p.base t q hpT hq).2.2.2⟩
  · have e1 := hex _ hmem y
    have e2 := hex _ hmem x
    simp only [editPart] at e1 e2
    have hr := set_quarter_duration_rate p.base t q x y hpT hnext htx hxy
    push_cast
    rw [e1, e2]
    push_cast at hr
    rw [← hr]
    ring

-- ====================================================================== the zero-length dispatch

/-- **The zero-length dispatch follows the duration, not the class** (`shift`, `time_sig_change`): in an export of a
    well-formed score the two ticks of a sounding note coincide — the note is written as an on/off pair between the
    note offs and the note ons of its tick (`trackNotes`) — exactly when the note has no duration in the score.  A
    note of one division or more is never written with zero length, whatever kind of note it is. -/
theorem zero_length_iff_no_duration (mode : Nat) (a : Anacrusis) (minPpq vel : Nat) (parts : List PartIn) (ex : Exported)
    (h : saveScoreMidi mode a minPpq vel parts = some ex) (ha : a ≠ .padBar)
    (hw : ∀ x ∈ parts, C04T.WellFormed x.base) :
    ∃ o, origin a (parts.map (·.base)) = some o ∧
      ∀ x ∈ parts, ∀ s d : Nat, (tick ex.ppq x.base o s = tick ex.ppq x.base o (s + d) ↔ d = 0) := by
  obtain ⟨o, ho, hP, hex⟩ := export_ticks_exact mode a minPpq vel parts ex h ha hw
  refine ⟨o, ho, ?_⟩
  intro x hx s d
  constructor
  · intro heq
    by_contra hd
    have hlt := (ticks_mono ex.ppq x.base o (hw x hx) s (s + d)).2 hP (by omega)
    have e1 := hex x hx s
    have e2 := hex x hx (s + d)
    unfold toTick at hlt
    rw [← e1, ← e2, heq] at hlt
    exact lt_irrefl _ hlt
  · intro hd
    subst hd
    rfl

/-- the same for `pad_bar`, PARTIAL as `export_ticks_exact_pad_partial` (`hbar`: the bar of the first time signature
    is a whole number of ticks) -/
theorem zero_length_iff_no_duration_pad_partial (mode : Nat) (minPpq vel : Nat) (parts : List PartIn) (ex : Exported)
    (h : saveScoreMidi mode .padBar minPpq vel parts = some ex)
    (hw : ∀ x ∈ parts, C04T.WellFormed x.base)
    (hbar : ∀ x ∈ parts, ∀ beats bt, tsAt x.base 0 = some (beats, bt) → bt ∣ 4 * beats * ex.ppq) :
    ∃ o, origin .padBar (parts.map (·.base)) = some o ∧
      ∀ x ∈ parts, ∀ s d : Nat, (tick ex.ppq x.base o s = tick ex.ppq x.base o (s + d) ↔ d = 0) := by
  obtain ⟨o, ho, hP, hex⟩ := export_ticks_exact_pad_partial mode minPpq vel parts ex h hw hbar
  refine ⟨o, ho, ?_⟩
  intro x hx s d
  constructor
  · intro heq
    by_contra hd
    have hlt := (ticks_mono ex.ppq x.base o (hw x hx) s (s + d)).2 hP (by omega)
    have e1 := hex x hx s
    have e2 := hex x hx (s + d)
    unfold toTick at hlt
    rw [← e1, ← e2, heq] at hlt
    exact lt_irrefl _ hlt
  · intro hd
    subst hd
    rfl

-- ====================================================================== non-vacuity, and what is excluded

/-- the part of the witness corpus/C04/e1: two divisions per quarter, two bars (8 and 12 divisions) -/
def editDemo : PartIn :=
  ⟨0, ⟨2, [], 0, 20, some (0, 8), [(0, 4, 4)]⟩, [], [(0, "C")], [(0, 8), (8, 20)],
   [(0, 2, 60, some 1), (8, 1, 67, some 1), (11, 3, 72, some 1), (17, 3, 76, some 1)]⟩

example : C04Ed.Table editDemo.base := ⟨by decide, ⟨fun e he => by simp [editDemo] at he, trivial⟩⟩

/-- the table after `set_quarter_duration(8, 3)`, after a second call that replaces the entry, after a redundant
    call, and after a call at time 0 -/
example : (setQuarterDuration editDemo.base 8 3).qd = [(8, 3)] ∧
    (setQuarterDuration (setQuarterDuration editDemo.base 8 3) 8 5).qd = [(8, 5)] ∧
    (setQuarterDuration (setQuarterDuration editDemo.base 8 3) 12 3).qd = [(8, 3)] ∧
    (setQuarterDuration (setQuarterDuration editDemo.base 8 3) 4 3).qd = [(4, 3), (8, 3)] ∧
    (setQuarterDuration (setQuarterDuration editDemo.base 8 3) 0 4).d0 = 4 := by decide +kernel

/-- the note events of pitch `p` in a file: (tick, is a note on) -/
def pitchEvents (p : Nat) (ex : Exported) : List (Int × Bool) :=
  ex.tracks.flatMap fun tr => tr.filterMap fun ev =>
    match ev.2 with
    | .noteOn _ q _ => if q = p then some (ev.1, true) else none
    | .noteOff _ q _ => if q = p then some (ev.1, false) else none
    | _ => none

/-- a history as the code runs it: export, view, `set_quarter_duration(8, 3)`, export — the second export has 6 ticks
    per quarter and the note at division 11 (5 quarters) starts at tick 30 and lasts 6 ticks -/
example : ((run [editDemo] [.save ⟨0, .shift, 0, 64⟩, .view, .edit (.setQd 0 8 3), .save ⟨0, .shift, 0, 64⟩]).2.map
      fun r => r.map fun e => e.map fun ex => (ex.ppq, pitchEvents 72 ex)) =
    [some (some (2, [(11, true), (14, false)])), none, none, some (some (6, [(30, true), (36, false)]))] := by
  decide +kernel

/-- **What the theorems exclude.**  With a quarter map kept from before the call (2 divisions per quarter throughout)
    and the new ticks per quarter, division 11 would be written at tick 33 and the note would last 9 ticks: not the
    exact image (30, 6 ticks) that `edited_export_exact` / `edited_note_ticks` state. -/
example : tickStale 6 editDemo.base 0 11 = 33 ∧ tickStale 6 editDemo.base 0 14 - tickStale 6 editDemo.base 0 11 = 9 ∧
    tick 6 (setQuarterDuration editDemo.base 8 3) 0 11 = 30 ∧
    tick 6 (setQuarterDuration editDemo.base 8 3) 0 14 - tick 6 (setQuarterDuration editDemo.base 8 3) 0 11 = 6 := by
  decide +kernel

/-- a grace note that lasts (division 4 to 6, pitch 62) and an ordinary note of zero duration (division 8, pitch 65)
    in one part: the first is written with its two ticks apart, the second as an on/off pair on one tick -/
example : (saveScoreMidi 0 .shift 0 64 [⟨0, ⟨4, [], 0, 16, some (0, 16), [(0, 4, 4)]⟩, [], [], [(0, 16)],
      [(0, 4, 60, some 1), (4, 2, 62, some 1), (4, 4, 64, some 1), (8, 0, 65, some 1), (8, 8, 67, some 1)]⟩]).map
      (fun ex => (pitchEvents 62 ex, pitchEvents 65 ex))
    = some ([(4, true), (6, false)], [(8, true), (8, false)]) := by
  decide +kernel

end C04
