/-
C19 — the duration arithmetic of the kern importer (`Model/KernDur.lean`: add_durations, dot_function,
`int(round(4 / value * divs_pq))`, the accumulation of positions in element_parsing), proved against the
denotational semantics `Model/Kern.lean` for every reciprocal, every number of dots, every divisions value and
every token list.  The code runs in binary64, the model in exact rationals: the harness compares the two token by
token (stream `kdur`), so what these theorems add is that the arithmetic AS WRITTEN is the semantics — any float
error must be absorbed by the rounding (which a floor or a ceil does not do).
-/
import PartituraModel.Model.KernDur
import PartituraModel.Proofs.C19
import PartituraModel.Proofs.Round
import PartituraModel.Props.C19

namespace C19KernDur
open Model Model.Kern Model.KernDur

theorem addDurations_pos {a b : Rat} (ha : 0 < a) (hb : 0 < b) : 0 < addDurations a b :=
  div_pos (mul_pos ha hb) (add_pos ha hb)

theorem dotFunction_pos {r : Rat} (hr : 0 < r) (d : Nat) : 0 < dotFunction r d := by
  induction d with
  | zero => simpa [dotFunction] using hr
  | succ d ih =>
    simp only [dotFunction, if_neg (ne_of_gt hr)]
    exact addDurations_pos (mul_pos (pow_pos (by norm_num) _) hr) ih

/-- `dot_function`: the number the importer stores for a value with `d` dots is the reciprocal of what the dots
    denote — 4 / dot_function(r, d) quarters = the value 4 / r with d augmentation dots; every r > 0, every d -/
theorem dot_function_denotes {r : Rat} (hr : 0 < r) (d : Nat) : 4 / dotFunction r d = dotted (4 / r) d := by
  induction d with
  | zero => simp [dotFunction, dotted]
  | succ d ih =>
    have hp := dotFunction_pos hr d
    have h2 : (0 : Rat) < 2 ^ (d + 1) := pow_pos (by norm_num) _
    have hA : (2 : Rat) ^ (d + 1) * r ≠ 0 := ne_of_gt (mul_pos h2 hr)
    have hsum : (2 : Rat) ^ (d + 1) * r + dotFunction r d ≠ 0 := ne_of_gt (add_pos (mul_pos h2 hr) hp)
    have key : 4 / addDurations ((2 : Rat) ^ (d + 1) * r) (dotFunction r d)
        = 4 / dotFunction r d + 4 / r / (2 : Rat) ^ (d + 1) := by
      unfold addDurations
      have hB := ne_of_gt hp
      have hr' := ne_of_gt hr
      have h2' := ne_of_gt h2
      field_simp
    simp only [dotFunction, if_neg (ne_of_gt hr), dotted, key, ih]

example : 4 / dotFunction 20 1 = 3 / 10 := by rw [dot_function_denotes (by norm_num)]; norm_num [dotted]

/-- what `_process_kern_duration` passes on denotes the written value: for a reciprocal `n` and for `a%b` with any dots
    (`0`, `00`, … are looked up by symbolic duration instead) -/
theorem recip_number_denotes (rc : Recip) (d : Nat) (v : Rat) (hv : value rc d = some v) (hz : ∀ k, rc ≠ .zeros k) :
    0 < recipNumber rc ∧ 4 / dotFunction (recipNumber rc) d = v := by
  cases rc with
  | zeros k => exact absurd rfl (hz k)
  | num n =>
    unfold value baseValue at hv
    by_cases hn : n = 0
    · simp [hn] at hv
    · simp only [if_neg hn, Option.map_some, Option.some.injEq] at hv
      have hpos : (0 : Rat) < (n : Rat) := by exact_mod_cast Nat.pos_of_ne_zero hn
      exact ⟨hpos, by rw [recipNumber, dot_function_denotes hpos, hv]⟩
  | frac a b =>
    unfold value baseValue at hv
    by_cases hab : a = 0 ∨ b = 0
    · simp [hab] at hv
    · simp only [if_neg hab, Option.map_some, Option.some.injEq] at hv
      have ha : (0 : Rat) < (a : Rat) := by exact_mod_cast Nat.pos_of_ne_zero (fun h => hab (Or.inl h))
      have hb : (0 : Rat) < (b : Rat) := by exact_mod_cast Nat.pos_of_ne_zero (fun h => hab (Or.inr h))
      have hpos : (0 : Rat) < (a : Rat) / (b : Rat) := div_pos ha hb
      refine ⟨hpos, ?_⟩
      rw [recipNumber, dot_function_denotes hpos, ← hv]
      congr 1
      have ha' := ne_of_gt ha
      have hb' := ne_of_gt hb
      field_simp

/-- `element_parsing`: whenever the divisions represent the written value exactly (v * divs whole), the importer's
    `int(round(4 / total * divs))` is exactly that whole number — no tick more or less, for every reciprocal and dots -/
theorem token_divs_exact (rc : Recip) (d divs : Nat) (v : Rat) (k : Int) (hv : value rc d = some v)
    (hz : ∀ k, rc ≠ .zeros k) (hk : v * (divs : Rat) = (k : Rat)) :
    tokenDivs rc d divs = some k := by
  obtain ⟨hpos, hden⟩ := recip_number_denotes rc d v hv hz
  have hne : dotFunction (recipNumber rc) d ≠ 0 := ne_of_gt (dotFunction_pos hpos d)
  simp only [tokenDivs, if_neg hne, durationDivs, hden, hk, Round.roundHalfEven_int]

/-- … and in exact arithmetic a floor gives the same number: `round` matters only because the code computes in floats
    (the float image of `20.` is 13.333333333333334 > 40/3, where a floor division loses a tick) -/
theorem token_divs_floor_exact (rc : Recip) (d divs : Nat) (v : Rat) (k : Int) (hv : value rc d = some v)
    (hz : ∀ k, rc ≠ .zeros k) (hk : v * (divs : Rat) = (k : Rat)) :
    (4 / dotFunction (recipNumber rc) d * (divs : Rat)).floor = k := by
  obtain ⟨_, hden⟩ := recip_number_denotes rc d v hv hz
  rw [hden, hk, Rat.floor_intCast]

example : tokenDivs (.num 20) 1 240 = some 72 :=
  token_divs_exact (.num 20) 1 240 (3 / 10) 72 (by rw [C19.kern_duration 20 (by decide)]; norm_num) (by intro k; simp) (by norm_num)

/-- start positions denoted by values `vs` from `pos` on -/
def prefixSums : Rat → List Rat → List Rat
  | _, [] => []
  | pos, v :: vs => pos :: prefixSums (pos + v) vs

/-- the accumulation of `element_parsing` over a whole spine: if the divisions represent every written value exactly, every
    token starts at (the sum of the values written before it) * divs and the spine ends at (the sum of all values) * divs —
    any token list, any start position -/
theorem spine_positions_exact (divs : Nat) (toks : List (Recip × Nat)) :
    ∀ (vs : List Rat) (pos : Int), spineValues toks = some vs →
      (∀ t ∈ toks, ∀ k, t.1 ≠ .zeros k) → (∀ v ∈ vs, ∃ k : Int, v * (divs : Rat) = (k : Rat)) →
      ∃ ps e, spinePositions divs pos toks = some (ps, e) ∧
        ps.map (fun p : Int => (p : Rat)) = prefixSums (pos : Rat) (vs.map (· * (divs : Rat))) ∧
        (e : Rat) = (pos : Rat) + vs.sum * (divs : Rat) := by
  induction toks with
  | nil =>
    intro vs pos hvs _ _
    simp only [spineValues, Option.some.injEq] at hvs
    subst hvs
    exact ⟨[], pos, rfl, rfl, by simp⟩
  | cons t rest ih =>
    intro vs pos hvs hz hw
    obtain ⟨rc, d⟩ := t
    simp only [spineValues] at hvs
    cases hval : value rc d with
    | none => simp [hval] at hvs
    | some v =>
      cases hrest : spineValues rest with
      | none => simp [hval, hrest] at hvs
      | some vr =>
        simp only [hval, hrest, Option.bind_some, Option.map_some, Option.some.injEq] at hvs
        subst hvs
        obtain ⟨k, hk⟩ := hw v (List.mem_cons_self ..)
        have htok := token_divs_exact rc d divs v k hval (hz (rc, d) (List.mem_cons_self ..)) hk
        obtain ⟨ps, e, hsp, hps, he⟩ := ih vr (pos + k) hrest
          (fun t ht => hz t (List.mem_cons_of_mem _ ht)) (fun w hw' => hw w (List.mem_cons_of_mem _ hw'))
        refine ⟨pos :: ps, e, ?_, ?_, ?_⟩
        · simp only [spinePositions, htok, Option.bind_some, hsp, Option.map_some]
        · simp only [List.map_cons, prefixSums, hps, List.cons.injEq, true_and]
          congr 1
          push_cast
          rw [hk]
        · rw [he, List.sum_cons]
          push_cast
          rw [← hk]
          ring

/-- the divisions `lcmDen` of the written values (and every multiple of it: load_kern takes the lcm over all spines and
    with 4) satisfy the hypothesis of `spine_positions_exact` -/
theorem lcm_divisions_whole (vs : List Rat) (c : Nat) :
    ∀ v ∈ vs, ∃ k : Int, v * ((c * lcmDen vs : Nat) : Rat) = (k : Rat) := by
  intro v hv
  obtain ⟨n, hn⟩ := (C19.divisions_exact vs).2 v hv
  refine ⟨n * c, ?_⟩
  push_cast
  rw [← hn]
  ring

example : ∃ ps e, spinePositions 240 0 [(.num 20, 1), (.num 40, 0), (.frac 5 4, 2)] = some (ps, e) ∧ e = 1440 :=
  ⟨[0, 72, 96], 1440, by decide +kernel, rfl⟩

end C19KernDur
