/-
C15 - merging parts keeps every note at the same musical time in disjoint voices.

Model: PartituraModel/Model/Merge.lean (`merge_parts` after the repairs fixes/C15-1..4, 7, 9, `iter_parts`,
the sounding rows of `note_array`).  `image m L ps i p e` is where element `e` of the `i`-th part `p` ends
up: `xform m (ctxAt L ps i p) e`, the loop state `ctxAt` being the multiplier `L / p.divs` and the sums, over
the earlier parts, of their maximal voices / maximal staves / numbers of distinct staves.
`allElems p` are the elements of part `p` together with the objects that are on its timeline by their end only
(`p.tails`, e.g. a slur whose start is not in the score): the voice / staff statements cover both.
Hypotheses named in the statements (Proofs/C15Defs.lean, Proofs/C15Sound.lean):
  NumberedFrom1  voice and staff numbers start from 1
  OidsDistinct   every object occurs once           TiesClosed  a note is tied to notes of its own part
The concrete parts exA .. exD of the examples are defined in Proofs/C15Defs.lean.
-/
import PartituraModel.Proofs.C15Defs

namespace C15
open Model.Merge

-- ================================================================ the result as a whole

/-- Two or more parts with positive divisions whose notes carry a voice are always merged (no mode can fail:
in particular the mappings of auto mode contain every voice and staff they are asked for), into a new part
whose divisions are the least common multiple. -/
theorem merge_total (m : Mode) (ps : List APart) (h2 : 2 ≤ ps.length) (hpos : ∀ p ∈ ps, 0 < p.divs)
    (hv : voicesGiven ps = true) :
    ∃ es, mergeParts m ps = some (.merged (lcmList (ps.map (·.divs))) es) :=
  ⟨_, mergeParts_merged_iff.mpr ⟨h2, hpos, hv, rfl, rfl⟩⟩

/-- The merged part holds exactly the images of the kept elements of the inputs - every element of the
first part and every element of a non-discarded class of the later parts - and nothing else (as a multiset:
`es` is a permutation of the elements in order of insertion). -/
theorem merged_contents (m : Mode) (ps : List APart) (L : Nat) (es : List Elem)
    (h : mergeParts m ps = some (.merged L es)) :
    L = lcmList (ps.map (·.divs)) ∧ es.Perm (mergeFrom m L true 0 0 0 ps) ∧
      ∀ e', e' ∈ es ↔ ∃ i p e, ps[i]? = some p ∧ e ∈ p.elems ∧ keep m (i == 0) e = true
                        ∧ e' = image m L ps i p e := by
  have hperm := merged_perm h
  obtain ⟨_, _, _, hL, _⟩ := mergeParts_merged_iff.mp h
  exact ⟨hL, hperm, fun e' => by rw [hperm.mem_iff, mem_merged]⟩

-- ================================================================ time

/-- Every element keeps its musical time: start and end are multiplied by the integer `L / d_p` (`d_p ∣ L`),
so that position / divisions is unchanged as a rational; identity, class and pitch are untouched. -/
theorem time_preserved (m : Mode) (ps : List APart) (hpos : ∀ p ∈ ps, 0 < p.divs) (i : Nat) (p : APart)
    (hp : ps[i]? = some p) (e : Elem) :
    let L := lcmList (ps.map (·.divs))
    let e' := image m L ps i p e
    p.divs ∣ L ∧ (L / p.divs) * p.divs = L
      ∧ e'.start = e.start * (L / p.divs) ∧ (e'.start : Rat) / L = (e.start : Rat) / p.divs
      ∧ e'.stop = e.stop.map (· * (L / p.divs))
      ∧ e'.stop.map (fun (s : Nat) => (s : Rat) / (L : Rat))
          = e.stop.map (fun (s : Nat) => (s : Rat) / (p.divs : Rat))
      ∧ e'.oid = e.oid ∧ e'.cls = e.cls ∧ e'.pitch = e.pitch := by
  intro L e'
  have hmem : p ∈ ps := List.mem_of_getElem? hp
  have hd : 0 < p.divs := hpos p hmem
  have hdvd : p.divs ∣ L := dvd_lcmList (List.mem_map.mpr ⟨p, hmem, rfl⟩)
  have hL : 0 < L := lcmList_pos (by
    intro d hd'; obtain ⟨q, hq, rfl⟩ := List.mem_map.mp hd'; exact hpos q hq)
  have hstart : e'.start = e.start * (L / p.divs) := by
    simp only [e', image, xform_start, ctxAt_mult]
  have hstop : e'.stop = e.stop.map (· * (L / p.divs)) := by
    simp only [e', image, xform_stop, ctxAt_mult]
  refine ⟨hdvd, Nat.div_mul_cancel hdvd, hstart, ?_, hstop, ?_, ?_, ?_, ?_⟩
  · rw [hstart]; exact rescale_rat hd hL hdvd
  · rw [hstop]
    cases e.stop with
    | none => rfl
    | some s =>
      simp only [Option.map_some, Option.some.injEq]
      exact rescale_rat hd hL hdvd
  · exact xform_oid _ _ _
  · exact xform_cls _ _ _
  · exact xform_pitch _ _ _

-- ================================================================ voice mode

/-- voice mode: notes (and rests) of different inputs never share a voice -/
theorem voices_disjoint (L : Nat) (ps : List APart) (hnum : NumberedFrom1 ps) (i j : Nat) (p q : APart)
    (hp : ps[i]? = some p) (hq : ps[j]? = some q) (hij : i ≠ j) (a b : Elem) (ha : a ∈ allElems p)
    (hb : b ∈ allElems q) (hga : isGeneric a.cls = true) (hgb : isGeneric b.cls = true) (va vb : Nat)
    (hva : a.voice = some va) (hvb : b.voice = some vb) :
    (image .voice L ps i p a).voice ≠ (image .voice L ps j q b).voice := by
  have h1a := (hnum p (List.mem_of_getElem? hp) a ha).1 va hva
  have h1b := (hnum q (List.mem_of_getElem? hq) b hb).1 vb hvb
  simp only [image, voice_mode_voice _ _ hga, voice_mode_voice _ _ hgb, hva, hvb, Option.map_some,
    ctxAt_vOff, ne_eq, Option.some.injEq]
  rcases Nat.lt_or_gt_of_ne hij with h | h
  · have := voice_lt h hp ha hga hva h1b; omega
  · have := voice_lt h hq hb hgb hvb h1a; omega

/-- voice mode: within one input, two notes share a voice after merging iff they did before -/
theorem voices_kept (L : Nat) (ps : List APart) (i : Nat) (p : APart) (a b : Elem)
    (hga : isGeneric a.cls = true) (hgb : isGeneric b.cls = true) :
    a.voice = b.voice ↔ (image .voice L ps i p a).voice = (image .voice L ps i p b).voice := by
  simp only [image, voice_mode_voice _ _ hga, voice_mode_voice _ _ hgb]
  cases a.voice <;> cases b.voice <;> simp

/-- voice mode leaves every staff alone -/
theorem staves_untouched (L : Nat) (ps : List APart) (i : Nat) (p : APart) (a : Elem) :
    (image .voice L ps i p a).staff = a.staff := voice_mode_staff _ _

-- ================================================================ staff mode

/-- staff mode: elements that carry a staff (notes, rests, words, directions, clefs) of different inputs never
share a staff; a missing staff counts as staff 1 -/
theorem staves_disjoint (L : Nat) (ps : List APart) (hnum : NumberedFrom1 ps) (i j : Nat) (p q : APart)
    (hp : ps[i]? = some p) (hq : ps[j]? = some q) (hij : i ≠ j) (a b : Elem) (ha : a ∈ allElems p)
    (hb : b ∈ allElems q) (hsa : withStaff a.cls = true) (hsb : withStaff b.cls = true) :
    (image .staff L ps i p a).staff ≠ (image .staff L ps j q b).staff := by
  have one_le : ∀ (r : APart) (e : Elem), r ∈ ps → e ∈ allElems r → 1 ≤ e.staff.getD 1 := by
    intro r e hr he
    cases hs : e.staff with
    | none => simp
    | some s => simpa using (hnum r hr e he).2 s hs
  have h1a := one_le p a (List.mem_of_getElem? hp) ha
  have h1b := one_le q b (List.mem_of_getElem? hq) hb
  simp only [image, staff_mode_staff _ _ hsa, staff_mode_staff _ _ hsb, ctxAt_sOff, ne_eq,
    Option.some.injEq]
  rcases Nat.lt_or_gt_of_ne hij with h | h
  · have := staff_lt h hp ha hsa h1b; omega
  · have := staff_lt h hq hb hsb h1a; omega

/-- staff mode: within one input, two elements share a staff after merging iff they did before -/
theorem staves_kept (L : Nat) (ps : List APart) (i : Nat) (p : APart) (a b : Elem)
    (hsa : withStaff a.cls = true) (hsb : withStaff b.cls = true) :
    a.staff.getD 1 = b.staff.getD 1
      ↔ (image .staff L ps i p a).staff = (image .staff L ps i p b).staff := by
  simp only [image, staff_mode_staff _ _ hsa, staff_mode_staff _ _ hsb, Option.some.injEq]
  omega

/-- staff mode leaves every voice alone -/
theorem voices_untouched (L : Nat) (ps : List APart) (i : Nat) (p : APart) (a : Elem) :
    (image .staff L ps i p a).voice = a.voice := staff_mode_voice _ _

-- ================================================================ auto mode

/-- auto mode: staves of different inputs are disjoint (no assumption on the numbering) -/
theorem staves_disjoint_auto (L : Nat) (ps : List APart) (i j : Nat) (p q : APart)
    (hp : ps[i]? = some p) (hq : ps[j]? = some q) (hij : i ≠ j) (a b : Elem) (ha : a ∈ allElems p)
    (hb : b ∈ allElems q) (hsa : withStaff a.cls = true) (hsb : withStaff b.cls = true) :
    (image .auto L ps i p a).staff ≠ (image .auto L ps j q b).staff := by
  simp only [image, auto_mode_staff _ _ hsa, auto_mode_staff _ _ hsb, ctxAt_nPrev, ctxAt_uS, ne_eq,
    Option.some.injEq]
  rcases Nat.lt_or_gt_of_ne hij with h | h
  · have := auto_staff_lt (q := q) h hp ha hsa (b.staff.getD 1); omega
  · have := auto_staff_lt (q := p) h hq hb hsb (a.staff.getD 1); omega

/-- auto mode: within one input, staves are shared after merging iff they were before -/
theorem staves_kept_auto (L : Nat) (ps : List APart) (i : Nat) (p : APart) (a b : Elem) (ha : a ∈ allElems p)
    (hb : b ∈ allElems p) (hsa : withStaff a.cls = true) (hsb : withStaff b.cls = true) :
    a.staff.getD 1 = b.staff.getD 1
      ↔ (image .auto L ps i p a).staff = (image .auto L ps i p b).staff := by
  simp only [image, auto_mode_staff _ _ hsa, auto_mode_staff _ _ hsb, ctxAt_nPrev, ctxAt_uS,
    Option.some.injEq]
  constructor
  · intro h; rw [h]
  · intro h
    exact rank_inj (staff_mem_uStaves ha hsa) (staff_mem_uStaves hb hsb) (by omega)

/-- auto mode: within one input, voices are shared after merging iff they were before -/
theorem voices_kept_auto (L : Nat) (ps : List APart) (i : Nat) (p : APart) (a b : Elem) (ha : a ∈ allElems p)
    (hb : b ∈ allElems p) (hga : isGeneric a.cls = true) (hgb : isGeneric b.cls = true) :
    a.voice = b.voice ↔ (image .auto L ps i p a).voice = (image .auto L ps i p b).voice := by
  simp only [image, auto_mode_voice _ _ hga, auto_mode_voice _ _ hgb, ctxAt_nPrev, ctxAt_uV]
  cases hva : a.voice with
  | none => cases hvb : b.voice <;> simp
  | some va =>
    cases hvb : b.voice with
    | none => simp
    | some vb =>
      simp only [Option.map_some, Option.some.injEq]
      constructor
      · intro h; rw [h]
      · intro h
        exact rank_inj (voice_mem_uVoices ha hga hva) (voice_mem_uVoices hb hgb hvb) (by omega)

/-- auto mode, PARTIAL: voices of different inputs are disjoint *provided every part has at most four voices per
staff* (`4 * nStaves`), which is the documented assumption of the numbering ("we consider 4 voices per staff").
Missing for the full property: parts with more voices; `auto_overflow_witness` shows they do collide. -/
theorem voices_disjoint_auto_partial (L : Nat) (ps : List APart)
    (h4 : ∀ p ∈ ps, (uVoices p).length ≤ 4 * nStaves p) (i j : Nat) (p q : APart)
    (hp : ps[i]? = some p) (hq : ps[j]? = some q) (hij : i ≠ j) (a b : Elem) (ha : a ∈ allElems p)
    (hb : b ∈ allElems q) (hga : isGeneric a.cls = true) (hgb : isGeneric b.cls = true) (va vb : Nat)
    (hva : a.voice = some va) (hvb : b.voice = some vb) :
    (image .auto L ps i p a).voice ≠ (image .auto L ps j q b).voice := by
  simp only [image, auto_mode_voice _ _ hga, auto_mode_voice _ _ hgb, hva, hvb, Option.map_some,
    ctxAt_nPrev, ctxAt_uV, ne_eq, Option.some.injEq]
  rcases Nat.lt_or_gt_of_ne hij with h | h
  · have := auto_voice_lt (q := q) h hp ha hga hva (h4 p (List.mem_of_getElem? hp)) vb; omega
  · have := auto_voice_lt (q := p) h hq hb hgb hvb (h4 q (List.mem_of_getElem? hq)) va; omega

-- ================================================================ structural elements

/-- the classes that are taken from the first part only, per mode, over the whole generated class table: the
class tuples `el_to_discard` are those of the live source (Gen/C15Tables.lean, regenerated by
harness/translate_c15.py on every run), closed under subclassing through the generated MRO table -/
theorem discard_table :
    (Gen.classNames.filter fun n => discard .voice (classId n))
        = ["Page", "System", "Clef", "DaCapo", "Fine", "Fermata", "Ending", "Barline", "Measure",
           "TimeSignature", "Tempo", "KeySignature"]
      ∧ (Gen.classNames.filter fun n => discard .staff (classId n))
        = ["Page", "System", "DaCapo", "Fine", "Fermata", "Ending", "Barline", "Measure",
           "TimeSignature", "Tempo", "KeySignature"]
      ∧ (Gen.classNames.filter fun n => discard .auto (classId n))
        = (Gen.classNames.filter fun n => discard .staff (classId n)) := by decide

/-- no note, rest or other GenericNote class is ever discarded (whole class table) -/
theorem notes_never_discarded :
    ∀ c ∈ List.range Gen.numClasses, isGeneric c = true →
      discard .voice c = false ∧ discard .staff c = false ∧ discard .auto c = false := by decide

/-- An element of a discarded (structural) class in the merged part is the image of an element of the first
part; conversely (`merged_contents`) every element of the first part is in the merged part. -/
theorem structural_first (m : Mode) (ps : List APart) (L : Nat) (es : List Elem)
    (h : mergeParts m ps = some (.merged L es)) (e' : Elem) (he' : e' ∈ es)
    (hd : discard m e'.cls = true) :
    ∃ p e, ps[0]? = some p ∧ e ∈ p.elems ∧ e' = image m L ps 0 p e := by
  obtain ⟨i, p, e, hp, he, hk, rfl⟩ := ((merged_contents m ps L es h).2.2 e').mp he'
  cases i with
  | zero => exact ⟨p, e, hp, he, rfl⟩
  | succ i =>
    simp only [image, xform_cls] at hd
    simp [keep, hd] at hk

/-- everything of the first part is in the merged part -/
theorem first_part_complete (m : Mode) (ps : List APart) (L : Nat) (es : List Elem)
    (h : mergeParts m ps = some (.merged L es)) (p : APart) (hp : ps[0]? = some p) (e : Elem)
    (he : e ∈ p.elems) : image m L ps 0 p e ∈ es :=
  ((merged_contents m ps L es h).2.2 _).mpr ⟨0, p, e, hp, he, by simp [keep], rfl⟩

/-- every element of a later part whose class is not discarded is in the merged part -/
theorem later_parts_complete (m : Mode) (ps : List APart) (L : Nat) (es : List Elem)
    (h : mergeParts m ps = some (.merged L es)) (i : Nat) (p : APart) (hp : ps[i]? = some p) (e : Elem)
    (he : e ∈ p.elems) (hd : discard m e.cls = false) : image m L ps i p e ∈ es :=
  ((merged_contents m ps L es h).2.2 _).mpr ⟨i, p, e, hp, he, by simp [keep, hd], rfl⟩

-- ================================================================ single part

/-- a single part - given directly, in a (nested) group, in a list, or through a Score - is returned as is,
whatever the mode and whatever its divisions -/
theorem single_identity (m : Mode) (s : Shape) (p : APart) (h : iterParts s = [p]) :
    merge m s = some (.same p) := by
  simp [merge, h, mergeParts]

/-- ... also when that one part is reachable more than once (listed twice; on its own and inside its group):
what counts is the number of different Part objects (fixes/C15-11) -/
theorem single_identity_distinct (m : Mode) (s : Shape) (p : APart) (h : distinctParts (iterParts s) = [p]) :
    merge m s = some (.same p) := by
  simp [merge, h, mergeParts]

example : distinctParts (iterParts (.many [.part exA, .group [.part exA, .group [.part exA]]])) = [exA] := by decide

-- ================================================================ sounding notes

/-- The sounding rows (onset, tied duration, pitch) of the merged part are, as a multiset, the rows of the
inputs rescaled to the least common multiple - i.e. the rows of the score-level note array
(`note_array_from_part_list`, `refSound`). Hypotheses: every object occurs once, ties stay within a part. -/
theorem sounding_equal (m : Mode) (ps : List APart) (L : Nat) (es : List Elem)
    (h : mergeParts m ps = some (.merged L es)) (hid : OidsDistinct ps) (hties : TiesClosed ps) :
    ((rows es).map Row.sound).Perm (refSound ps) := by
  obtain ⟨_, _, _, hL, _⟩ := mergeParts_merged_iff.mp h
  have hperm := merged_perm h
  have hraw : ((mergeFrom m L true 0 0 0 ps).map (·.oid)).Nodup :=
    hid.sublist (oids_sublist m L true 0 0 0 ps)
  have hnd : (es.map (·.oid)).Nodup := (hperm.map _).nodup_iff.mpr hraw
  have h1 : (rowsIn es es).Perm (rowsIn es (mergeFrom m L true 0 0 0 ps)) := rowsIn_perm es hperm
  have h2 : rowsIn es (mergeFrom m L true 0 0 0 ps)
      = rowsIn (mergeFrom m L true 0 0 0 ps) (mergeFrom m L true 0 0 0 ps) :=
    rowsIn_congr (fun k => findOid_perm hperm hnd k) _
  rw [h2] at h1
  have h3 := h1.map Row.sound
  rw [sounding_raw m L ps hid hties] at h3
  subst hL
  exact h3

-- ================================================================ non-vacuity

/-- the hypotheses of the theorems hold for a non-trivial score: divisions 3 and 4 (lcm 12 exceeds both), a tie
chain, a rest in its own voice, missing staves, structural and non-structural elements in both parts -/
example : NumberedFrom1 [exA, exB] ∧ OidsDistinct [exA, exB] ∧ TiesClosed [exA, exB]
    ∧ voicesGiven [exA, exB] = true ∧ (∀ p ∈ [exA, exB], 0 < p.divs)
    ∧ (∀ p ∈ [exA, exB], (uVoices p).length ≤ 4 * nStaves p) := by
  unfold NumberedFrom1 OidsDistinct TiesClosed
  decide

/-- ... and the merge of that score in voice mode is the expected part: lcm 12, part B's measure and tempo
dropped, B's voices 1, 3 renumbered 3, 5 (A's maximal voice is 2), times multiplied by 4 and 3, in the order
`iter_all()` yields (time point, class walk, insertion) -/
example : (mergeParts .voice [exA, exB]).map summary
    = some (12, [(0, 0, some 12, some 1, some 1), (10, 0, some 18, some 3, some 1),
                 (11, 0, some 0, some 3, some 1), (1, 0, some 36, some 2, some 1), (2, 0, none, none, some 2),
                 (3, 0, some 48, none, none), (14, 0, none, none, some 1), (4, 12, some 36, some 1, some 1),
                 (15, 18, some 48, some 5, none), (5, 36, some 48, some 1, none)]) := by
  rfl

/-- staff mode: B's clef-less staff 1 (and its notes without staff) go to staff 3, above A's two staves -/
example : (mergeParts .staff [exA, exB]).map summary
    = some (12, [(0, 0, some 12, some 1, some 1), (10, 0, some 18, some 1, some 3),
                 (11, 0, some 0, some 1, some 3), (1, 0, some 36, some 2, some 1), (2, 0, none, none, some 2),
                 (3, 0, some 48, none, none), (14, 0, none, none, some 3), (4, 12, some 36, some 1, some 1),
                 (15, 18, some 48, some 3, some 3), (5, 36, some 48, some 1, some 1)]) := by
  rfl

/-- its sounding rows (auto mode): the tied pair of A sounds for 36 = (3 + 6) * 4 -/
example : (match mergeParts .auto [exA, exB] with
      | some (.merged _ es) => (rows es).map Row.sound
      | _ => [])
    = [(0, some 36, some 60), (0, some 18, some 48), (0, some 0, some 50), (18, some 30, some 55),
       (36, some 12, some 64)] := by decide

/-- hypotheses of `structural_first`: the merged part does hold elements of discarded classes (A's clef and measure) -/
example : ∃ es, mergeParts .voice [exA, exB] = some (.merged 12 es)
    ∧ ∃ e' ∈ es, discard .voice e'.cls = true := ⟨_, rfl, by decide⟩

/-- hypotheses of the disjointness theorems: two different parts, a note with a voice in each -/
example : ∃ a ∈ allElems exA, ∃ b ∈ allElems exB, [exA, exB][0]? = some exA ∧ [exA, exB][1]? = some exB
    ∧ isGeneric a.cls = true ∧ isGeneric b.cls = true ∧ withStaff a.cls = true ∧ withStaff b.cls = true
    ∧ a.voice = some 1 ∧ b.voice = some 1 := by decide

/-- hypotheses of `single_identity`: a part alone in nested groups, in a list, or given directly -/
example : iterParts (.many [.group [.group [.part exA], .group []]]) = [exA] := by decide
example : iterParts (.one (.part exA)) = [exA] ∧ iterParts (.one (.group [.part exA])) = [exA] := by decide

/-- F-C15-6 (open finding): with five voices on the one staff of the first part, auto mode gives the fifth voice of
the first part and the voice of the second part the same number - the conclusion of
`voices_disjoint_auto_partial` fails where its assumption of at most 4 voices per staff does. -/
theorem auto_overflow_witness :
    ∃ a ∈ allElems exC, ∃ b ∈ allElems exD, isGeneric a.cls = true ∧ isGeneric b.cls = true
      ∧ a.voice = some 5 ∧ b.voice = some 1 ∧ NumberedFrom1 [exC, exD]
      ∧ ¬ ((uVoices exC).length ≤ 4 * nStaves exC)
      ∧ (image .auto 2 [exC, exD] 0 exC a).voice = (image .auto 2 [exC, exD] 1 exD b).voice := by
  unfold NumberedFrom1
  decide

end C15
