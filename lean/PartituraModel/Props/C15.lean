/-
C15 - merging parts keeps every note at the same musical time in disjoint voices.

Model: PartituraModel/Model/Merge.lean (`merge_parts` after the repairs fixes/C15-1..4, `iter_parts`,
the sounding rows of `note_array`).  `image m L ps i p e` is where element `e` of the `i`-th part `p` ends
up: `xform m (ctxAt L ps i p) e`, the loop state `ctxAt` being the multiplier `L / p.divs` and the sums, over
the earlier parts, of their maximal voices / maximal staves / numbers of distinct staves.
-/
import PartituraModel.Proofs.C15Result

namespace C15
open Model.Merge

/-- voice and staff numbers start from 1 (MusicXML; "voice numbers start from 1" in `merge_parts`) -/
def NumberedFrom1 (ps : List APart) : Prop :=
  ∀ p ∈ ps, ∀ e ∈ p.elems, (∀ v, e.voice = some v → 1 ≤ v) ∧ (∀ s, e.staff = some s → 1 ≤ s)

-- ================================================================ the result as a whole

/-- Two or more parts with positive divisions whose notes carry a voice are always merged (no mode can fail:
in particular the mappings of auto mode contain every voice and staff they are asked for), into a new part
whose divisions are the least common multiple. -/
theorem merge_total (m : Mode) (ps : List APart) (h2 : 2 ≤ ps.length) (hpos : ∀ p ∈ ps, 0 < p.divs)
    (hv : voicesGiven ps = true) :
    ∃ es, mergeParts m ps = some (.merged (lcmList (ps.map (·.divs))) es) :=
  ⟨_, mergeParts_merged_iff.mpr ⟨h2, hpos, hv, rfl, rfl⟩⟩

/-- The merged part holds exactly the images of the kept elements of the inputs - every element of the
first part and every element of a non-discarded class of the later parts - and nothing else (as a multiset:
`es` is a permutation of the elements in order of insertion). -/
theorem merged_contents (m : Mode) (ps : List APart) (L : Nat) (es : List Elem)
    (h : mergeParts m ps = some (.merged L es)) :
    L = lcmList (ps.map (·.divs)) ∧ es.Perm (mergeFrom m L true 0 0 0 ps) ∧
      ∀ e', e' ∈ es ↔ ∃ i p e, ps[i]? = some p ∧ e ∈ p.elems ∧ keep m (i == 0) e = true
                        ∧ e' = image m L ps i p e := by
  have hperm := merged_perm h
  obtain ⟨_, _, _, hL, _⟩ := mergeParts_merged_iff.mp h
  exact ⟨hL, hperm, fun e' => by rw [hperm.mem_iff, mem_merged]⟩

-- ================================================================ time

/-- Every element keeps its musical time: start and end are multiplied by the integer `L / d_p` (`d_p ∣ L`),
so that position / divisions is unchanged as a rational; identity, class and pitch are untouched. -/
theorem time_preserved (m : Mode) (ps : List APart) (hpos : ∀ p ∈ ps, 0 < p.divs) (i : Nat) (p : APart)
    (hp : ps[i]? = some p) (e : Elem) :
    let L := lcmList (ps.map (·.divs))
    let e' := image m L ps i p e
    p.divs ∣ L ∧ (L / p.divs) * p.divs = L
      ∧ e'.start = e.start * (L / p.divs) ∧ (e'.start : Rat) / L = (e.start : Rat) / p.divs
      ∧ e'.stop = e.stop.map (· * (L / p.divs))
      ∧ e'.stop.map (fun s => (s : Rat) / L) = e.stop.map (fun s => (s : Rat) / p.divs)
      ∧ e'.oid = e.oid ∧ e'.cls = e.cls ∧ e'.pitch = e.pitch := by
  intro L e'
  have hmem : p ∈ ps := List.mem_of_getElem? hp
  have hd : 0 < p.divs := hpos p hmem
  have hdvd : p.divs ∣ L := dvd_lcmList (List.mem_map.mpr ⟨p, hmem, rfl⟩)
  have hL : 0 < L := lcmList_pos (by
    intro d hd'; obtain ⟨q, hq, rfl⟩ := List.mem_map.mp hd'; exact hpos q hq)
  have hstart : e'.start = e.start * (L / p.divs) := by
    simp only [e', image, xform_start, ctxAt_mult]
  have hstop : e'.stop = e.stop.map (· * (L / p.divs)) := by
    simp only [e', image, xform_stop, ctxAt_mult]
  refine ⟨hdvd, Nat.div_mul_cancel hdvd, hstart, ?_, hstop, ?_, ?_, ?_, ?_⟩
  · rw [hstart]; exact rescale_rat hd hL hdvd
  · rw [hstop]
    cases e.stop with
    | none => rfl
    | some s =>
      simp only [Option.map_some, Option.some.injEq]
      exact rescale_rat hd hL hdvd
  · exact xform_oid _ _ _
  · exact xform_cls _ _ _
  · exact xform_pitch _ _ _

-- ================================================================ voice mode

/-- voice mode: notes (and rests) of different inputs never share a voice -/
theorem voices_disjoint (L : Nat) (ps : List APart) (hnum : NumberedFrom1 ps) (i j : Nat) (p q : APart)
    (hp : ps[i]? = some p) (hq : ps[j]? = some q) (hij : i ≠ j) (a b : Elem) (ha : a ∈ p.elems)
    (hb : b ∈ q.elems) (hga : isGeneric a.cls = true) (hgb : isGeneric b.cls = true) (va vb : Nat)
    (hva : a.voice = some va) (hvb : b.voice = some vb) :
    (image .voice L ps i p a).voice ≠ (image .voice L ps j q b).voice := by
  have h1a := (hnum p (List.mem_of_getElem? hp) a ha).1 va hva
  have h1b := (hnum q (List.mem_of_getElem? hq) b hb).1 vb hvb
  simp only [image, voice_mode_voice _ _ hga, voice_mode_voice _ _ hgb, hva, hvb, Option.map_some,
    ctxAt_vOff, ne_eq, Option.some.injEq]
  rcases Nat.lt_or_gt_of_ne hij with h | h
  · have := voice_lt h hp ha hga hva h1b; omega
  · have := voice_lt h hq hb hgb hvb h1a; omega

/-- voice mode: within one input, two notes share a voice after merging iff they did before -/
theorem voices_kept (L : Nat) (ps : List APart) (i : Nat) (p : APart) (a b : Elem)
    (hga : isGeneric a.cls = true) (hgb : isGeneric b.cls = true) :
    a.voice = b.voice ↔ (image .voice L ps i p a).voice = (image .voice L ps i p b).voice := by
  simp only [image, voice_mode_voice _ _ hga, voice_mode_voice _ _ hgb]
  cases a.voice <;> cases b.voice <;> simp

/-- voice mode leaves every staff alone -/
theorem staves_untouched (L : Nat) (ps : List APart) (i : Nat) (p : APart) (a : Elem) :
    (image .voice L ps i p a).staff = a.staff := voice_mode_staff _ _

-- ================================================================ staff mode

/-- staff mode: elements that carry a staff (notes, rests, words, directions, clefs) of different inputs never
share a staff; a missing staff counts as staff 1 -/
theorem staves_disjoint (L : Nat) (ps : List APart) (hnum : NumberedFrom1 ps) (i j : Nat) (p q : APart)
    (hp : ps[i]? = some p) (hq : ps[j]? = some q) (hij : i ≠ j) (a b : Elem) (ha : a ∈ p.elems)
    (hb : b ∈ q.elems) (hsa : withStaff a.cls = true) (hsb : withStaff b.cls = true) :
    (image .staff L ps i p a).staff ≠ (image .staff L ps j q b).staff := by
  have one_le : ∀ (r : APart) (e : Elem), r ∈ ps → e ∈ r.elems → 1 ≤ e.staff.getD 1 := by
    intro r e hr he
    cases hs : e.staff with
    | none => simp
    | some s => simpa using (hnum r hr e he).2 s hs
  have h1a := one_le p a (List.mem_of_getElem? hp) ha
  have h1b := one_le q b (List.mem_of_getElem? hq) hb
  simp only [image, staff_mode_staff _ _ hsa, staff_mode_staff _ _ hsb, ctxAt_sOff, ne_eq,
    Option.some.injEq]
  rcases Nat.lt_or_gt_of_ne hij with h | h
  · have := staff_lt h hp ha hsa h1b; omega
  · have := staff_lt h hq hb hsb h1a; omega

/-- staff mode: within one input, two elements share a staff after merging iff they did before -/
theorem staves_kept (L : Nat) (ps : List APart) (i : Nat) (p : APart) (a b : Elem)
    (hsa : withStaff a.cls = true) (hsb : withStaff b.cls = true) :
    a.staff.getD 1 = b.staff.getD 1
      ↔ (image .staff L ps i p a).staff = (image .staff L ps i p b).staff := by
  simp only [image, staff_mode_staff _ _ hsa, staff_mode_staff _ _ hsb, Option.some.injEq]
  omega

/-- staff mode leaves every voice alone -/
theorem voices_untouched (L : Nat) (ps : List APart) (i : Nat) (p : APart) (a : Elem) :
    (image .staff L ps i p a).voice = a.voice := staff_mode_voice _ _

-- ================================================================ auto mode

/-- auto mode: staves of different inputs are disjoint (no assumption on the numbering) -/
theorem staves_disjoint_auto (L : Nat) (ps : List APart) (i j : Nat) (p q : APart)
    (hp : ps[i]? = some p) (hq : ps[j]? = some q) (hij : i ≠ j) (a b : Elem) (ha : a ∈ p.elems)
    (hb : b ∈ q.elems) (hsa : withStaff a.cls = true) (hsb : withStaff b.cls = true) :
    (image .auto L ps i p a).staff ≠ (image .auto L ps j q b).staff := by
  simp only [image, auto_mode_staff _ _ hsa, auto_mode_staff _ _ hsb, ctxAt_nPrev, ctxAt_uS, ne_eq,
    Option.some.injEq]
  rcases Nat.lt_or_gt_of_ne hij with h | h
  · have := auto_staff_lt (q := q) h hp ha hsa (b.staff.getD 1); omega
  · have := auto_staff_lt (q := p) h hq hb hsb (a.staff.getD 1); omega

/-- auto mode: within one input, staves are shared after merging iff they were before -/
theorem staves_kept_auto (L : Nat) (ps : List APart) (i : Nat) (p : APart) (a b : Elem) (ha : a ∈ p.elems)
    (hb : b ∈ p.elems) (hsa : withStaff a.cls = true) (hsb : withStaff b.cls = true) :
    a.staff.getD 1 = b.staff.getD 1
      ↔ (image .auto L ps i p a).staff = (image .auto L ps i p b).staff := by
  simp only [image, auto_mode_staff _ _ hsa, auto_mode_staff _ _ hsb, ctxAt_nPrev, ctxAt_uS,
    Option.some.injEq]
  constructor
  · intro h; rw [h]
  · intro h
    exact rank_inj (staff_mem_uStaves ha hsa) (staff_mem_uStaves hb hsb) (by omega)

/-- auto mode: within one input, voices are shared after merging iff they were before -/
theorem voices_kept_auto (L : Nat) (ps : List APart) (i : Nat) (p : APart) (a b : Elem) (ha : a ∈ p.elems)
    (hb : b ∈ p.elems) (hga : isGeneric a.cls = true) (hgb : isGeneric b.cls = true) :
    a.voice = b.voice ↔ (image .auto L ps i p a).voice = (image .auto L ps i p b).voice := by
  simp only [image, auto_mode_voice _ _ hga, auto_mode_voice _ _ hgb, ctxAt_nPrev, ctxAt_uV]
  cases hva : a.voice with
  | none => cases hvb : b.voice <;> simp
  | some va =>
    cases hvb : b.voice with
    | none => simp
    | some vb =>
      simp only [Option.map_some, Option.some.injEq]
      constructor
      · intro h; rw [h]
      · intro h
        exact rank_inj (voice_mem_uVoices ha hga hva) (voice_mem_uVoices hb hgb hvb) (by omega)

/-- auto mode, PARTIAL: voices of different inputs are disjoint *provided every part has at most four voices per
staff* (`4 * nStaves`), which is the documented assumption of the numbering ("we consider 4 voices per staff").
Missing for the full property: parts with more voices; `auto_overflow_witness` shows they do collide. -/
theorem voices_disjoint_auto_partial (L : Nat) (ps : List APart)
    (h4 : ∀ p ∈ ps, (uVoices p).length ≤ 4 * nStaves p) (i j : Nat) (p q : APart)
    (hp : ps[i]? = some p) (hq : ps[j]? = some q) (hij : i ≠ j) (a b : Elem) (ha : a ∈ p.elems)
    (hb : b ∈ q.elems) (hga : isGeneric a.cls = true) (hgb : isGeneric b.cls = true) (va vb : Nat)
    (hva : a.voice = some va) (hvb : b.voice = some vb) :
    (image .auto L ps i p a).voice ≠ (image .auto L ps j q b).voice := by
  simp only [image, auto_mode_voice _ _ hga, auto_mode_voice _ _ hgb, hva, hvb, Option.map_some,
    ctxAt_nPrev, ctxAt_uV, ne_eq, Option.some.injEq]
  rcases Nat.lt_or_gt_of_ne hij with h | h
  · have := auto_voice_lt (q := q) h hp ha hga hva (h4 p (List.mem_of_getElem? hp)) vb; omega
  · have := auto_voice_lt (q := p) h hq hb hgb hvb (h4 q (List.mem_of_getElem? hq)) va; omega

-- ================================================================ structural elements

/-- the classes that are taken from the first part only, per mode, over the whole generated class table -/
theorem discard_table :
    (Gen.classNames.filter fun n => discard .voice (classId n))
        = ["Page", "System", "Clef", "DaCapo", "Fine", "Fermata", "Ending", "Barline", "Measure",
           "TimeSignature", "Tempo", "KeySignature"]
      ∧ (Gen.classNames.filter fun n => discard .staff (classId n))
        = ["Page", "System", "DaCapo", "Fine", "Fermata", "Ending", "Barline", "Measure",
           "TimeSignature", "Tempo", "KeySignature"]
      ∧ (Gen.classNames.filter fun n => discard .auto (classId n))
        = (Gen.classNames.filter fun n => discard .staff (classId n)) := by decide

/-- no note, rest or other GenericNote class is ever discarded (whole class table) -/
theorem notes_never_discarded :
    ∀ c ∈ List.range Gen.numClasses, isGeneric c = true →
      discard .voice c = false ∧ discard .staff c = false ∧ discard .auto c = false := by decide

/-- An element of a discarded (structural) class in the merged part is the image of an element of the first
part; conversely (`merged_contents`) every element of the first part is in the merged part. -/
theorem structural_first (m : Mode) (ps : List APart) (L : Nat) (es : List Elem)
    (h : mergeParts m ps = some (.merged L es)) (e' : Elem) (he' : e' ∈ es)
    (hd : discard m e'.cls = true) :
    ∃ p e, ps[0]? = some p ∧ e ∈ p.elems ∧ e' = image m L ps 0 p e := by
  obtain ⟨i, p, e, hp, he, hk, rfl⟩ := ((merged_contents m ps L es h).2.2 e').mp he'
  cases i with
  | zero => exact ⟨p, e, hp, he, rfl⟩
  | succ i =>
    simp only [image, xform_cls] at hd
    simp [keep, hd] at hk

/-- everything of the first part is in the merged part -/
theorem first_part_complete (m : Mode) (ps : List APart) (L : Nat) (es : List Elem)
    (h : mergeParts m ps = some (.merged L es)) (p : APart) (hp : ps[0]? = some p) (e : Elem)
    (he : e ∈ p.elems) : image m L ps 0 p e ∈ es :=
  ((merged_contents m ps L es h).2.2 _).mpr ⟨0, p, e, hp, he, by simp [keep], rfl⟩

/-- every element of a later part whose class is not discarded is in the merged part -/
theorem later_parts_complete (m : Mode) (ps : List APart) (L : Nat) (es : List Elem)
    (h : mergeParts m ps = some (.merged L es)) (i : Nat) (p : APart) (hp : ps[i]? = some p) (e : Elem)
    (he : e ∈ p.elems) (hd : discard m e.cls = false) : image m L ps i p e ∈ es :=
  ((merged_contents m ps L es h).2.2 _).mpr ⟨i, p, e, hp, he, by simp [keep, hd], rfl⟩

-- ================================================================ single part

/-- a single part - given directly, in a (nested) group, in a list, or through a Score - is returned as is,
whatever the mode and whatever its divisions -/
theorem single_identity (m : Mode) (s : Shape) (p : APart) (h : iterParts s = [p]) :
    merge m s = some (.same p) := by
  simp [merge, h, mergeParts]

end C15
